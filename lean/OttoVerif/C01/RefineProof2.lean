/-
  C01/RefineProof2 — wrappers (block, labelled, try), switch, and the statement-level step.
-/
import OttoVerif.C01.RefineProof
namespace OttoVerif.C01
variable {St : Type}

/-- `Sim` with the stronger postcondition `rt.labels = nil` (what blocks, loops and switch leave) -/
def SimN (L iter : List String) : MR St → SR St → Prop
  | .ok o L' σ, .ok c σ' => σ = σ' ∧ L' = [] ∧ KindRel L iter o c
  | .throw v L' σ, .throw v' σ' => v = v' ∧ σ = σ' ∧ L' = []
  | .fuel, _ => True
  | _, .fuel => True
  | _, _ => False

theorem simN_fuel_r (L iter : List String) (mr : MR St) : SimN L iter mr .fuel := by
  cases mr <;> simp [SimN]

theorem simN_sim {L iter : List String} {mr : MR St} {sr : SR St} (h : SimN L iter mr sr) : Sim L iter mr sr := by
  cases mr <;> cases sr <;> simp only [SimN, Sim] at h ⊢
  · exact ⟨h.1, h.2.1 ▸ labok_nil _, h.2.2⟩
  · exact ⟨h.1, h.2.1, h.2.2 ▸ labok_nil _⟩

theorem sim_nil_simN {iter : List String} {mr : MR St} {sr : SR St} (h : Sim [] iter mr sr) : SimN [] iter mr sr := by
  cases mr <;> cases sr <;> simp only [SimN, Sim] at h ⊢
  · exact ⟨h.1, labok_of_nil h.2.1, h.2.2⟩
  · exact ⟨h.1, h.2.1, labok_of_nil h.2.2⟩

/-- block: captured labels `L` consume their breaks early -/
theorem block_simN {L iter : List String} {mr : MR St} {sr : SR St} (h : Sim [] iter mr sr) :
    SimN L iter (blockWrap L mr) sr := by
  cases mr with
  | fuel => simp [blockWrap, SimN]
  | throw v L' σ =>
    cases sr with
    | fuel => exact simN_fuel_r _ _ _
    | ok c σ2 => simp [Sim] at h
    | throw v2 σ2 =>
      simp only [Sim] at h
      simp only [blockWrap, SimN]
      exact ⟨h.1, h.2.1, labok_of_nil h.2.2⟩
  | ok o L' σ =>
    cases sr with
    | fuel => exact simN_fuel_r _ _ _
    | throw v2 σ2 => simp [Sim] at h
    | ok c σ2 =>
      simp only [Sim] at h
      obtain ⟨h1, h2, h3⟩ := h
      subst h1
      have hL' := labok_of_nil h2
      subst hL'
      simp only [blockWrap]
      cases o with
      | empty => simp [isBreakIn, SimN]; exact kindrel_weaken (by simp) h3
      | val v => simp [isBreakIn, SimN]; exact kindrel_weaken (by simp) h3
      | cont t x => simp [isBreakIn, SimN]; exact kindrel_weaken (by simp) h3
      | ret v => simp [isBreakIn, SimN]; exact kindrel_weaken (by simp) h3
      | brk t x =>
        have h31 := h3.1; have h32 := h3.2
        simp only [KindRelT] at h31
        simp only [ovVal] at h32
        by_cases ht : t ∈ L
        · simp only [isBreakIn, List.contains_iff_mem, ht, if_true, SimN, true_and]
          cases x with
          | none => exact ⟨by simp only [carried, KindRelT]; exact Or.inr ⟨t, h31, ht⟩, by simpa [carried, ovVal] using h32⟩
          | some w => exact ⟨by simp only [carried, KindRelT]; exact Or.inr ⟨t, h31, ht⟩, by simpa [carried, ovVal] using h32⟩
        · simp only [isBreakIn, List.contains_iff_mem, ht, if_false, SimN, true_and]
          exact ⟨by simpa [KindRelT] using h31, by simpa [ovVal] using h32⟩

/-- labelled statement (with fix a0ba018) -/
theorem label_sim {L iter : List String} {l : String} {mr : MR St} {sr : SR St}
    (h : Sim (L ++ [l]) iter mr sr) : Sim L iter (labelWrap l mr) (sLabelWrap l sr) := by
  cases mr with
  | fuel => simp [labelWrap, Sim]
  | throw v L' σ =>
    cases sr with
    | fuel => exact sim_fuel_r _ _ _
    | ok c σ2 => simp [Sim] at h
    | throw v2 σ2 =>
      simp only [Sim] at h
      simp only [labelWrap, sLabelWrap, Sim]
      exact ⟨h.1, h.2.1, labok_pop h.2.2⟩
  | ok o L' σ =>
    cases sr with
    | fuel => exact sim_fuel_r _ _ _
    | throw v2 σ2 => simp [Sim] at h
    | ok c σ2 =>
      simp only [Sim] at h
      obtain ⟨h1, h2, h3⟩ := h
      subst h1
      have hp := labok_pop h2
      simp only [labelWrap, sLabelWrap]
      have h31 := h3.1; have h32 := h3.2
      cases o with
      | brk t x =>
        simp only [KindRelT] at h31
        simp only [ovVal] at h32
        by_cases ht : t = l
        · subst ht
          simp only [isBreakIn, List.contains_iff_mem, List.mem_singleton, if_true, h31, Sim, true_and]
          refine ⟨hp, ?_⟩
          cases x with
          | none => exact ⟨by simp [carried, KindRelT], by simpa [carried, ovVal] using h32⟩
          | some w => exact ⟨by simp [carried, KindRelT], by simpa [carried, ovVal] using h32⟩
        · have hne : ¬ (c.t = CT.brk l) := by rw [h31]; intro hc; injection hc with hc; exact ht hc
          simp only [isBreakIn, List.contains_iff_mem, List.mem_singleton, ht, if_false, hne, Sim, true_and]
          exact ⟨hp, by simpa [KindRelT] using h31, by simpa [ovVal] using h32⟩
      | cont t x =>
        simp only [KindRelT] at h31
        have hne : ¬ (c.t = CT.brk l) := by rw [h31.1]; intro hc; cases hc
        simp only [isBreakIn, Bool.false_eq_true, if_false, hne, Sim, true_and]
        exact ⟨hp, by simpa [KindRelT] using h31, h32⟩
      | ret v =>
        simp only [KindRelT] at h31
        have hne : ¬ (c.t = CT.brk l) := by rw [h31]; intro hc; cases hc
        simp only [isBreakIn, Bool.false_eq_true, if_false, hne, Sim, true_and]
        exact ⟨hp, by simpa [KindRelT] using h31, h32⟩
      | empty =>
        simp only [KindRelT] at h31
        simp only [isBreakIn, Bool.false_eq_true, if_false]
        by_cases hc : c.t = CT.brk l
        · simp only [hc, if_true, Sim, true_and]
          exact ⟨hp, by simp [KindRelT], h32⟩
        · simp only [hc, if_false, Sim]
          refine ⟨trivial, hp, ?_, h32⟩
          simp only [KindRelT]
          rcases h31 with g3 | ⟨t, g3, g4⟩
          · exact Or.inl g3
          · right
            refine ⟨t, g3, ?_⟩
            rcases List.mem_append.mp g4 with g5 | g5
            · exact g5
            · simp at g5; subst g5; exact absurd g3 hc
      | val v =>
        simp only [KindRelT] at h31
        simp only [isBreakIn, Bool.false_eq_true, if_false]
        by_cases hc : c.t = CT.brk l
        · simp only [hc, if_true, Sim, true_and]
          exact ⟨hp, by simp [KindRelT], h32⟩
        · simp only [hc, if_false, Sim]
          refine ⟨trivial, hp, ?_, h32⟩
          simp only [KindRelT]
          rcases h31 with g3 | ⟨t, g3, g4⟩
          · exact Or.inl g3
          · right
            refine ⟨t, g3, ?_⟩
            rcases List.mem_append.mp g4 with g5 | g5
            · exact g5
            · simp at g5; subst g5; exact absurd g3 hc


theorem simN_weaken_nil {L iter : List String} {mr : MR St} {sr : SR St} (h : SimN [] iter mr sr) :
    SimN L iter mr sr := by
  cases mr <;> cases sr <;> simp only [SimN] at h ⊢
  · exact ⟨h.1, h.2.1, kindrel_weaken (by simp) h.2.2⟩
  · exact h

theorem exit_simN (S : Sem St) {L iter : List String} {mr : MR St} {sr : SR St} (h : SimN L iter mr sr) :
    SimN L iter (exitWrap S mr) (sExitWrap S sr) := by
  cases mr <;> cases sr <;> simp only [SimN, exitWrap, sExitWrap] at h ⊢
  · exact ⟨by rw [h.1], h.2.1, h.2.2⟩
  · exact ⟨h.1, by rw [h.2.1], h.2.2⟩

theorem withExit_sim (S : Sem St) {L iter : List String} {mr : MR St} {sr : SR St} (h : Sim L iter mr sr) :
    Sim L iter (withExitWrap S mr) (sWithExitWrap S sr) := by
  cases mr <;> cases sr <;> simp only [Sim, withExitWrap, sWithExitWrap] at h ⊢
  · exact ⟨by rw [h.1], h.2.1, h.2.2⟩
  · exact ⟨h.1, by rw [h.2.1], h.2.2⟩

theorem catch_simN (S : Sem St) {L iter : List String} (hasCatch : Bool) (param : String)
    {runC : List String → St → MR St} {srunC : St → SR St} {r1 : MR St} {s1 : SR St}
    (h : SimN L iter r1 s1) (hc : ∀ σ1, SimN L iter (runC [] σ1) (srunC σ1)) :
    SimN L iter (catchPhase S hasCatch param runC r1) (sCatchPhase S hasCatch param srunC s1) := by
  cases r1 with
  | fuel => simp [catchPhase, SimN]
  | ok o L' σ =>
    cases s1 with
    | fuel => exact simN_fuel_r _ _ _
    | throw v2 σ2 => simp [SimN] at h
    | ok c σ2 => simpa [catchPhase, sCatchPhase] using h
  | throw v L' σ =>
    cases s1 with
    | fuel => exact simN_fuel_r _ _ _
    | ok c σ2 => simp [SimN] at h
    | throw v2 σ2 =>
      simp only [SimN] at h
      obtain ⟨h1, h2, h3⟩ := h
      subst h1; subst h2; subst h3
      simp only [catchPhase, sCatchPhase]
      cases hasCatch with
      | false => simp [SimN]
      | true => simp only [if_true]; exact exit_simN S (hc _)

theorem finally_simN {L iter : List String} (hasFin : Bool)
    {runF : List String → St → MR St} {srunF : St → SR St} {r2 : MR St} {s2 : SR St}
    (h : SimN L iter r2 s2) (hf : ∀ σ2, SimN [] iter (runF [] σ2) (srunF σ2)) :
    SimN L iter (finallyPhase hasFin runF r2) (sFinallyPhase hasFin srunF s2) := by
  cases r2 with
  | fuel => simp [finallyPhase, SimN]
  | ok o L' σ =>
    cases s2 with
    | fuel => simp only [sFinallyPhase]; exact simN_fuel_r _ _ _
    | throw v2 σ2 => simp [SimN] at h
    | ok c σ2 =>
      simp only [SimN] at h
      obtain ⟨h1, h2, h3⟩ := h
      subst h1; subst h2
      simp only [finallyPhase, sFinallyPhase]
      cases hasFin with
      | false => simp [SimN, h3]
      | true =>
        simp only [if_true]
        have hf' := hf σ
        cases hrf : runF [] σ with
        | fuel => simp [finOver, SimN]
        | throw v3 L3 σ3 =>
          cases hsf : srunF σ with
          | fuel => simp only [sFinOver]; exact simN_fuel_r _ _ _
          | ok F σ4 => rw [hrf, hsf] at hf'; simp [SimN] at hf'
          | throw v4 σ4 => rw [hrf, hsf] at hf'; simpa [finOver, sFinOver] using (simN_weaken_nil (L := L) hf')
        | ok fo L3 σ3 =>
          cases hsf : srunF σ with
          | fuel => simp only [sFinOver]; exact simN_fuel_r _ _ _
          | throw v4 σ4 => rw [hrf, hsf] at hf'; simp [SimN] at hf'
          | ok F σ4 =>
            rw [hrf, hsf] at hf'
            simp only [SimN] at hf'
            obtain ⟨g1, g2, g3⟩ := hf'
            subst g1; subst g2
            simp only [finOver, sFinOver]
            cases hr : isResult fo with
            | true =>
              have hab := kindrel_result_abrupt hr g3
              have : ¬ (F.t = CT.normal) := by
                intro hn; simp [Comp.abrupt, hn] at hab
              simp only [if_true, this, if_false, SimN]
              exact ⟨trivial, trivial, kindrel_weaken (by simp) g3⟩
            | false =>
              have hn := kindrel_nil_normal hr g3
              simp only [Bool.false_eq_true, if_false, hn, if_true, SimN]
              exact ⟨trivial, trivial, h3⟩
  | throw v L' σ =>
    cases s2 with
    | fuel => simp only [sFinallyPhase]; exact simN_fuel_r _ _ _
    | ok c σ2 => simp [SimN] at h
    | throw v2 σ2 =>
      simp only [SimN] at h
      obtain ⟨h1, h2, h3⟩ := h
      subst h1; subst h2; subst h3
      simp only [finallyPhase, sFinallyPhase]
      cases hasFin with
      | false => simp [SimN]
      | true =>
        simp only [if_true]
        have hf' := hf σ
        cases hrf : runF [] σ with
        | fuel => simp [finOverThrow, SimN]
        | throw v3 L3 σ3 =>
          cases hsf : srunF σ with
          | fuel => simp only [sFinOverThrow]; exact simN_fuel_r _ _ _
          | ok F σ4 => rw [hrf, hsf] at hf'; simp [SimN] at hf'
          | throw v4 σ4 => rw [hrf, hsf] at hf'; simpa [finOverThrow, sFinOverThrow] using (simN_weaken_nil (L := L) hf')
        | ok fo L3 σ3 =>
          cases hsf : srunF σ with
          | fuel => simp only [sFinOverThrow]; exact simN_fuel_r _ _ _
          | throw v4 σ4 => rw [hrf, hsf] at hf'; simp [SimN] at hf'
          | ok F σ4 =>
            rw [hrf, hsf] at hf'
            simp only [SimN] at hf'
            obtain ⟨g1, g2, g3⟩ := hf'
            subst g1; subst g2
            simp only [finOverThrow, sFinOverThrow]
            cases hr : isResult fo with
            | true =>
              have hab := kindrel_result_abrupt hr g3
              have : ¬ (F.t = CT.normal) := by
                intro hn; simp [Comp.abrupt, hn] at hab
              simp only [if_true, this, if_false, SimN]
              exact ⟨trivial, trivial, kindrel_weaken (by simp) g3⟩
            | false =>
              have hn := kindrel_nil_normal hr g3
              simp [hn, SimN]


/-- running switch clauses vs the completion of a clause's statement list; `V` = the CaseBlock's value so far -/
def ClauseRel (labels iter : List String) (V : Option Val) : BR St → SR St → Prop
  | .next r L' σ, .ok c σ' => σ = σ' ∧ L' = [] ∧ c.t = .normal ∧ isResult r = false ∧ ovVal r = pick c.v V
  | .brk r L' σ, .ok c σ' => σ = σ' ∧ L' = [] ∧ (∃ t, c.t = .brk t ∧ t ∈ labels) ∧ isResult r = false ∧ ovVal r = pick c.v V
  | .retv o L' σ, .ok c σ' => σ = σ' ∧ L' = [] ∧ KindRel [] iter o ⟨c.t, pick c.v V⟩ ∧ isResult o = true ∧
        (∀ t x, o = .brk t x → t ∉ labels)
  | .throw v L' σ, .throw v' σ' => v = v' ∧ σ = σ' ∧ L' = []
  | .fuel, _ => True
  | _, .fuel => True
  | _, _ => False

theorem clauserel_fuel_r (labels iter : List String) (V : Option Val) (br : BR St) : ClauseRel labels iter V br .fuel := by
  cases br <;> simp [ClauseRel]

section
variable (S : Sem St)

def PClause (n : Nat) : Prop := ∀ m ss labels iter σ result P V, wlList iter ss = true → isResult result = false →
    ovVal result = pick P V →
    ClauseRel labels iter V (ottoClause S n ss labels [] σ result) (listWrap P (specList S m ss σ))

def PCases (n : Nat) : Prop := ∀ m cs labels iter σ result V, wlCases iter cs = true → isResult result = false →
    ovVal result = V →
    ClauseRel labels iter none (ottoCases S n cs labels [] σ result) (specCases S m cs σ V)

theorem pclause_step (n : Nat) (hS : PS S n) (hC : PClause S n) : PClause S (n+1) := by
  intro m ss labels iter σ result P V hwl hres hinv
  cases m with
  | zero => simp only [specList, listWrap]; exact clauserel_fuel_r _ _ _ _
  | succ m =>
    cases ss with
    | nil => simp only [ottoClause, specList, listWrap, ClauseRel, pick, true_and]; exact ⟨hres, hinv⟩
    | cons s ss =>
      simp only [wlList, Bool.and_eq_true] at hwl
      have ih := hS m s [] [] iter σ (by simp) (by simp) (by simp) hwl.1
      simp only [ottoClause, specList]
      cases hm : ottoS S n s [] σ with
      | fuel => simp [ClauseRel]
      | throw v L' σ' =>
        cases hs : specS S m [] s σ with
        | fuel => simp only [listWrap]; exact clauserel_fuel_r _ _ _ _
        | ok c σ2 => rw [hm, hs] at ih; simp [Sim] at ih
        | throw v2 σ2 =>
          rw [hm, hs] at ih
          simp only [Sim] at ih
          obtain ⟨h1, h2, h3⟩ := ih
          subst h1; subst h2
          simp [ClauseRel, listWrap, labok_of_nil h3]
      | ok o L' σ' =>
        cases hs : specS S m [] s σ with
        | fuel => simp only [listWrap]; exact clauserel_fuel_r _ _ _ _
        | throw v2 σ2 => rw [hm, hs] at ih; simp [Sim] at ih
        | ok c σ2 =>
          rw [hm, hs] at ih
          simp only [Sim] at ih
          obtain ⟨hσ, hlab, hk⟩ := ih
          subst hσ
          have hL' : L' = [] := labok_of_nil hlab
          subst hL'
          cases hr : isResult o with
          | true =>
            have hab := kindrel_result_abrupt hr hk
            simp only [hr, hab, if_true, listWrap]
            have hk1 := hk.1
            have hcarr : KindRel [] iter (carrying o result) ⟨c.t, pick (pick c.v P) V⟩ := by
              refine ⟨?_, ?_⟩
              · have := carrying_kind (r := result) hk.1
                cases hco : carrying o result <;> rw [hco] at this <;> simpa [KindRelT] using this
              · rw [ovVal_carrying hr hres, hk.2, hinv, pick_assoc]
            cases o with
            | empty => simp [isResult] at hr
            | val v => simp [isResult] at hr
            | ret v =>
              simp only [isBreakIn, Bool.false_eq_true, if_false, ClauseRel, true_and]
              refine ⟨hcarr, by rw [carrying_isResult]; rfl, ?_⟩
              intro t x h; cases r : result <;> rw [r] at h <;> simp [carrying] at h
            | cont t x =>
              simp only [isBreakIn, Bool.false_eq_true, if_false, ClauseRel, true_and]
              refine ⟨hcarr, by rw [carrying_isResult]; rfl, ?_⟩
              intro t' x' h
              obtain ⟨y, hy⟩ := carrying_cont t x result
              rw [hy] at h; cases h
            | brk t x =>
              simp only [KindRelT] at hk1
              by_cases ht : t ∈ labels
              · simp only [isBreakIn, List.contains_iff_mem, ht, if_true, ClauseRel, true_and]
                refine ⟨⟨t, hk1, ht⟩, carried_nonresult hres, ?_⟩
                rw [ovVal_carried hr (by intro v h; cases h), hk.2, hinv, pick_assoc]
              · simp only [isBreakIn, List.contains_iff_mem, ht, if_false, ClauseRel, true_and]
                refine ⟨hcarr, by rw [carrying_isResult]; rfl, ?_⟩
                intro t' x' h
                obtain ⟨y, hy⟩ := carrying_brk t x result
                rw [hy] at h; cases h; exact ht
          | false =>
            have hn := kindrel_nil_normal hr hk
            have hab : c.abrupt = false := by simp [Comp.abrupt, hn]
            simp only [hr, hab, Bool.false_eq_true, if_false]
            rw [listWrap_listWrap]
            exact hC m ss labels iter σ' (nextResult o result) (pick c.v P) V hwl.2
              (nextResult_notResult hr hres) (by rw [ovVal_nextResult hr, hk.2, hinv, pick_assoc])

theorem pcases_step (n : Nat) (hCl : PClause S n) (hC : PCases S n) : PCases S (n+1) := by
  intro m cs labels iter σ result V hwl hres hV
  subst hV
  cases m with
  | zero => simp only [specCases]; exact clauserel_fuel_r _ _ _ _
  | succ m =>
    cases cs with
    | nil => simp [ottoCases, specCases, ClauseRel, hres, pick_none_r]
    | cons test body cs =>
      simp only [wlCases, Bool.and_eq_true] at hwl
      have ih := hCl m body labels iter σ result none (ovVal result) hwl.1 hres rfl
      rw [listWrap_none] at ih
      simp only [ottoCases, specCases]
      cases hm : ottoClause S n body labels [] σ result with
      | fuel => simp [ClauseRel]
      | cont r L' σ' =>
        cases hs : specList S m body σ <;> rw [hm, hs] at ih <;> simp [ClauseRel] at ih
        exact clauserel_fuel_r _ _ _ _
      | throw v L' σ' =>
        cases hs : specList S m body σ with
        | fuel => exact clauserel_fuel_r _ _ _ _
        | ok c σ2 => rw [hm, hs] at ih; simp [ClauseRel] at ih
        | throw v2 σ2 => rw [hm, hs] at ih; simpa [ClauseRel] using ih
      | next r L' σ' =>
        cases hs : specList S m body σ with
        | fuel => exact clauserel_fuel_r _ _ _ _
        | throw v2 σ2 => rw [hm, hs] at ih; simp [ClauseRel] at ih
        | ok R σ2 =>
          rw [hm, hs] at ih
          simp only [ClauseRel] at ih
          obtain ⟨h1, h2, h3, h4, h5⟩ := ih
          subst h1; subst h2
          have hab : R.abrupt = false := by simp [Comp.abrupt, h3]
          simp only [hab, Bool.false_eq_true, if_false]
          exact hC m cs labels iter σ' r _ hwl.2 h4 h5
      | brk r L' σ' =>
        cases hs : specList S m body σ with
        | fuel => exact clauserel_fuel_r _ _ _ _
        | throw v2 σ2 => rw [hm, hs] at ih; simp [ClauseRel] at ih
        | ok R σ2 =>
          rw [hm, hs] at ih
          simp only [ClauseRel] at ih
          obtain ⟨h1, h2, ⟨t, h3, h4⟩, h5, h6⟩ := ih
          subst h1; subst h2
          have hab : R.abrupt = true := by simp [Comp.abrupt, h3]
          simp only [hab, if_true, ClauseRel, pick_none_r, true_and]
          exact ⟨⟨t, h3, h4⟩, h5, h6⟩
      | retv o L' σ' =>
        cases hs : specList S m body σ with
        | fuel => exact clauserel_fuel_r _ _ _ _
        | throw v2 σ2 => rw [hm, hs] at ih; simp [ClauseRel] at ih
        | ok R σ2 =>
          rw [hm, hs] at ih
          simp only [ClauseRel] at ih
          obtain ⟨h1, h2, h3, h4, h5⟩ := ih
          subst h1; subst h2
          have hab : R.abrupt = true := kindrel_result_abrupt (c := ⟨R.t, pick R.v (ovVal result)⟩) h4 h3
          have hab' : R.abrupt = true := by simpa [Comp.abrupt] using hab
          simp only [hab', if_true, ClauseRel, pick_none_r, true_and]
          exact ⟨h3, h4, h5⟩

end


theorem sDefaultIdx_eq : ∀ (cs : Cases) (i : Nat), sDefaultIdx cs i = defaultIdx cs i
  | .nil, _ => rfl
  | .cons none _ _, _ => rfl
  | .cons (some _) _ cs, i => by simp only [sDefaultIdx, defaultIdx]; exact sDefaultIdx_eq cs (i+1)

theorem sDropCases_eq : ∀ (k : Nat) (cs : Cases), sDropCases k cs = dropCases k cs
  | 0, _ => rfl
  | _+1, .nil => rfl
  | k+1, .cons _ _ cs => by simp only [sDropCases, dropCases]; exact sDropCases_eq k cs

theorem wlCases_drop (iter : List String) : ∀ (k : Nat) (cs : Cases), wlCases iter cs = true →
    wlCases iter (dropCases k cs) = true
  | 0, _, h => h
  | _+1, .nil, h => h
  | k+1, .cons _ _ cs, h => by
    simp only [wlCases, Bool.and_eq_true] at h
    simp only [dropCases]; exact wlCases_drop iter k cs h.2

def frToSfr : FR St → SFR St
  | .found idx σ' => .found idx σ'
  | .throw v σ' => .throw v σ'

/-- the two case searches are the same function -/
theorem findCase_eq (S : Sem St) (dv : Val) : ∀ (cs : Cases) (i : Nat) (σ : St),
    frToSfr (findCase S dv cs i σ) = sFindCase S dv cs i σ
  | .nil, _, _ => rfl
  | .cons none _ cs, i, σ => by simp only [findCase, sFindCase]; exact findCase_eq S dv cs (i+1) σ
  | .cons (some e) _ cs, i, σ => by
    simp only [findCase, sFindCase]
    cases S.evalE e σ with
    | throw v σ' => rfl
    | ok v σ' =>
      by_cases h : S.strictEq dv v = true
      · simp [h, frToSfr]
      · simp only [h, if_false]; exact findCase_eq S dv cs (i+1) σ'

theorem switch_sim {L ls iter : List String} (H1 : ∀ t ∈ ls, t ∈ L)
    {br : BR St} {sr : SR St} (h : ClauseRel (L ++ [""]) iter none br sr) :
    Sim L iter (switchWrap br) (sSwitchWrap ("" :: ls) sr) := by
  cases br with
  | fuel => simp [switchWrap, Sim]
  | cont r L' σ => cases sr <;> simp [ClauseRel] at h; exact sim_fuel_r _ _ _
  | throw v L' σ =>
    cases sr with
    | fuel => exact sim_fuel_r _ _ _
    | ok c σ2 => simp [ClauseRel] at h
    | throw v2 σ2 =>
      simp only [ClauseRel] at h
      obtain ⟨h1, h2, h3⟩ := h
      subst h1; subst h2; subst h3
      exact sim_throw _ _ (labok_nil _)
  | next r L' σ =>
    cases sr with
    | fuel => exact sim_fuel_r _ _ _
    | throw v2 σ2 => simp [ClauseRel] at h
    | ok c σ2 =>
      simp only [ClauseRel, pick_none_r] at h
      obtain ⟨h1, h2, h3, h4, h5⟩ := h
      subst h1; subst h2
      simp only [switchWrap, sSwitchWrap, h3]
      exact sim_ok _ (labok_nil _) (kindrel_nonresult_normal h4 h3 h5)
  | brk r L' σ =>
    cases sr with
    | fuel => exact sim_fuel_r _ _ _
    | throw v2 σ2 => simp [ClauseRel] at h
    | ok c σ2 =>
      simp only [ClauseRel, pick_none_r] at h
      obtain ⟨h1, h2, ⟨t, h3, h4⟩, h5, h6⟩ := h
      subst h1; subst h2
      simp only [switchWrap, sSwitchWrap, h3]
      by_cases hin : ("" :: ls).contains t = true
      · simp only [hin, if_true]
        exact sim_ok _ (labok_nil _) (kindrel_nonresult_normal h5 rfl h6)
      · simp only [hin]
        have htL : t ∈ L := by
          simp only [List.contains_iff_mem, List.mem_cons, not_or] at hin
          rcases List.mem_append.mp h4 with h7 | h7
          · exact h7
          · simp at h7; exact absurd h7 hin.1
        refine sim_ok _ (labok_nil _) ⟨?_, h6⟩
        cases r <;> simp [isResult] at h5 <;> simp only [KindRelT] <;> exact Or.inr ⟨t, h3, htL⟩
  | retv o L' σ =>
    cases sr with
    | fuel => exact sim_fuel_r _ _ _
    | throw v2 σ2 => simp [ClauseRel] at h
    | ok c σ2 =>
      simp only [ClauseRel, pick_none_r] at h
      obtain ⟨h1, h2, hk, hres, hb⟩ := h
      subst h1; subst h2
      simp only [switchWrap]
      have hk1 := hk.1
      cases o with
      | empty => simp [isResult] at hres
      | val v => simp [isResult] at hres
      | ret v =>
        simp only [KindRelT] at hk1
        simp only [sSwitchWrap, hk1]
        exact sim_ok _ (labok_nil _) ⟨by simp [KindRelT, hk1], hk.2⟩
      | cont t x =>
        simp only [KindRelT] at hk1
        simp only [sSwitchWrap, hk1.1]
        exact sim_ok _ (labok_nil _) ⟨by simp only [KindRelT]; exact hk1, hk.2⟩
      | brk t x =>
        simp only [KindRelT] at hk1
        have hnin : ("" :: ls).contains t = false := by
          have := hb t x rfl
          simp only [List.mem_append, not_or] at this
          apply Bool.eq_false_iff.mpr
          intro hcon
          simp only [List.contains_iff_mem, List.mem_cons] at hcon
          rcases hcon with h | h
          · exact this.2 (by simp [h])
          · exact this.1 (H1 t h)
        simp only [sSwitchWrap, hk1, hnin, Bool.false_eq_true, if_false]
        exact sim_ok _ (labok_nil _) ⟨by simp [KindRelT, hk1], hk.2⟩

end OttoVerif.C01
