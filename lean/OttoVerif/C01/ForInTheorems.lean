/-
  C01/ForInTheorems — otto's for-in evaluator (nested loops over the prototype chain, stopped through
  the flags `obj = nil` / `return false`, two value accumulators, a `visited` set kept only when the
  object has a prototype) IS the ES5 §12.6.4 loop (one loop over all properties of the chain in turn;
  not deleted, enumerable, not shadowed, name not visited before; an abrupt completion ends the
  statement), for every chain, every property list, every `has` (deletions and additions by the body
  included) and every behaviour of the body: `forin_refines`, no hypothesis, values included.
  `forin_refines_static`: when shadowing does not change during the enumeration (`Stable`), this is
  also the reading in which what shadows what is fixed at the start (the one FnSpec executes).
  The historical defects are exactly what the proofs need: cfa3e2e (an exit stopped only the inner
  loop) and the value dropped on break would break `outer_rec`, cb72f5e (no shadow test) and the
  missing `visited` set would break `inner_rec`.
-/
import OttoVerif.C01.ForInModel
namespace OttoVerif.C01.ForInThm
open OttoVerif.C01.ForIn

section
variable {κ σ ρ ν : Type} [DecidableEq κ]

omit [DecidableEq κ] in
theorem orV_assoc (a b c : Option ν) : orV a (orV b c) = orV (orV a b) c := by
  cases a <;> rfl

/-! ### the chain has a second object: the visited set is kept -/

/-- one object of the chain: otto's inner loop is the corresponding stretch of the flat loop -/
theorem inner_rec (has : σ → Nat → κ → Bool) (body : κ → σ → Out σ ρ ν) (i : Nat)
    (tail : List (Nat × κ × Bool)) (res : Option ν) :
    ∀ (ps : List (κ × Bool)) (s : σ) (ev : Option ν) (vis : List κ),
      specLoop has body ((ps.map fun p => (i, p.1, p.2)) ++ tail) s (orV ev res) vis =
        match inner has body i true res ps s ev vis with
        | .finished ev' s' vis' => specLoop has body tail s' (orV ev' res) vis'
        | .stopped r s' => .broke r s'
        | .exited x s' => .abrupt x s' := by
  intro ps
  induction ps with
  | nil => intro s ev vis; simp [inner]
  | cons p r ih =>
    intro s ev vis
    obtain ⟨k, en⟩ := p
    simp only [List.map_cons, List.cons_append, specLoop, inner, Bool.true_and, if_true]
    split
    · cases hb : body k s with
      | normal v s' => simp only []; rw [orV_assoc]; exact ih s' (orV v ev) (k :: vis)
      | cont v s' => simp only []; rw [orV_assoc]; exact ih s' (orV v ev) (k :: vis)
      | brk v s' => simp only []; rw [orV_assoc]
      | exit x s' => rfl
    · exact ih s ev vis

theorem outer_rec (has : σ → Nat → κ → Bool) (body : κ → σ → Out σ ρ ν) :
    ∀ (rest : List (Obj κ)) (i : Nat) (s : σ) (res : Option ν) (vis : List κ),
      outer has body true i rest s res vis = specLoop has body (flatAll i rest) s res vis := by
  intro rest
  induction rest with
  | nil => intro i s res vis; simp [outer, flatAll, specLoop]
  | cons o rest ih =>
    intro i s res vis
    have hi := inner_rec has body i (flatAll (i+1) rest) res o.props s none vis
    have hnone : orV (none : Option ν) res = res := rfl
    rw [hnone] at hi
    simp only [flatAll, outer]
    rw [hi]
    cases hin : inner has body i true res o.props s none vis with
    | finished ev' s' vis' => simp only []; exact ih (i+1) s' (orV ev' res) vis'
    | stopped r s' => rfl
    | exited x s' => rfl

/-! ### the chain is a single object: no visited set; the names of one object are distinct -/

theorem inner_norec (has : σ → Nat → κ → Bool) (body : κ → σ → Out σ ρ ν) (i : Nat) (res : Option ν) :
    ∀ (ps : List (κ × Bool)), (ps.map (·.1)).Nodup →
    ∀ (s : σ) (ev : Option ν) (vis ov : List κ), (∀ k, k ∈ ps.map (·.1) → k ∉ vis) →
      specLoop has body (ps.map fun p => (i, p.1, p.2)) s (orV ev res) vis =
        match inner has body i false res ps s ev ov with
        | .finished ev' s' _ => .exhausted (orV ev' res) s'
        | .stopped r s' => .broke r s'
        | .exited x s' => .abrupt x s' := by
  intro ps
  induction ps with
  | nil => intro _ s ev vis ov _; simp [inner, specLoop]
  | cons p r ih =>
    intro hnd s ev vis ov hvis
    obtain ⟨k, en⟩ := p
    have hnd' : (r.map (·.1)).Nodup := (List.nodup_cons.1 (by simpa using hnd)).2
    have hkr : k ∉ r.map (·.1) := (List.nodup_cons.1 (by simpa using hnd)).1
    have hkv : vis.contains k = false := by
      have := hvis k (by simp)
      simpa using this
    have hr : ∀ k', k' ∈ r.map (·.1) → k' ∉ vis := fun k' hk' => hvis k' (by simp at hk' ⊢; exact Or.inr hk')
    simp only [List.map_cons, specLoop, inner, hkv, Bool.not_false, Bool.and_true, Bool.false_and, if_false,
      Bool.false_eq_true]
    split
    · have hr' : ∀ k', k' ∈ r.map (·.1) → k' ∉ k :: vis := by
        intro k' hk' hmem
        rcases List.mem_cons.1 hmem with h | h
        · exact hkr (h ▸ hk')
        · exact hr k' hk' h
      cases hb : body k s with
      | normal v s' => simp only []; rw [orV_assoc]; exact ih hnd' s' (orV v ev) (k :: vis) ov hr'
      | cont v s' => simp only []; rw [orV_assoc]; exact ih hnd' s' (orV v ev) (k :: vis) ov hr'
      | brk v s' => simp only []; rw [orV_assoc]
      | exit x s' => rfl
    · exact ih hnd' s ev vis ov hr

/-- **forin_refines**: for every chain, every property list, every `has` and every behaviour of the
    body, otto's for-in ends the way §12.6.4 says (all visited / break / the same abrupt completion),
    in the same state, with the same completion value. -/
theorem forin_refines (has : σ → Nat → κ → Bool) (body : κ → σ → Out σ ρ ν) (chain : List (Obj κ)) (s : σ) :
    ottoForIn has body chain s = specForIn has body chain s := by
  match chain with
  | [] => simp [ottoForIn, specForIn, outer, flatAll, specLoop]
  | [o] =>
    have h := inner_norec has body 0 none o.props o.nodup s none [] [] (by simp)
    have hnone : orV (none : Option ν) none = none := rfl
    rw [hnone] at h
    simp only [ottoForIn, specForIn, flatAll, List.append_nil, List.length_singleton, Nat.lt_irrefl, decide_false, outer]
    rw [h]
    cases inner has body 0 false none o.props s none [] with
    | finished ev' s' vis' => cases ev' <;> rfl
    | stopped r s' => rfl
    | exited x s' => rfl
  | o1 :: o2 :: rest =>
    have : decide (1 < (o1 :: o2 :: rest).length) = true := by simp
    simp only [ottoForIn, specForIn, this]
    exact outer_rec has body (o1 :: o2 :: rest) 0 s none []

/-! ### the static reading -/

/-- the shadow test made when a property's turn comes gives what the list of names of the objects
    nearer the start says, for every object from position `i` on -/
def ShadowOK (has : σ → Nat → κ → Bool) : Nat → List (Obj κ) → List κ → Prop
  | _, [], _ => True
  | i, o :: rest, seen =>
    (∀ s k, k ∈ o.names → shadowNow has s i k = seen.contains k) ∧ ShadowOK has (i+1) rest (seen ++ o.names)

/-- one object: under the static shadow test the visited test never fires -/
theorem inner_static (has : σ → Nat → κ → Bool) (body : κ → σ → Out σ ρ ν) (i : Nat) (seen bound : List κ)
    (tailA : List (Nat × κ × Bool)) (tailS : List (Nat × κ))
    (hk : ∀ (s : σ) (V : Option ν) (vis : List κ), (∀ x, x ∈ vis → x ∈ bound) →
      specLoop has body tailA s V vis = staticLoop has body tailS s V) :
    ∀ (ps : List (κ × Bool)), (ps.map (·.1)).Nodup →
      (∀ s k, k ∈ ps.map (·.1) → shadowNow has s i k = seen.contains k) →
      (∀ k, k ∈ ps.map (·.1) → k ∈ bound) →
    ∀ (s : σ) (V : Option ν) (vis : List κ),
      (∀ k, k ∈ ps.map (·.1) → seen.contains k = false → k ∉ vis) → (∀ x, x ∈ vis → x ∈ bound) →
      specLoop has body ((ps.map fun p => (i, p.1, p.2)) ++ tailA) s V vis =
        staticLoop has body (((ps.filter fun p => p.2 && !seen.contains p.1).map fun p => (i, p.1)) ++ tailS) s V := by
  intro ps
  induction ps with
  | nil => intro _ _ _ s V vis _ hG; simpa using hk s V vis hG
  | cons p r ih =>
    intro hnd hsh hb s V vis hH hG
    obtain ⟨k, en⟩ := p
    have hnd' : (r.map (·.1)).Nodup := (List.nodup_cons.1 (by simpa using hnd)).2
    have hkr : k ∉ r.map (·.1) := (List.nodup_cons.1 (by simpa using hnd)).1
    have hsh' : ∀ s k', k' ∈ r.map (·.1) → shadowNow has s i k' = seen.contains k' :=
      fun s k' hk' => hsh s k' (by simp at hk' ⊢; exact Or.inr hk')
    have hb' : ∀ k', k' ∈ r.map (·.1) → k' ∈ bound := fun k' hk' => hb k' (by simp at hk' ⊢; exact Or.inr hk')
    have hH' : ∀ k', k' ∈ r.map (·.1) → seen.contains k' = false → k' ∉ vis :=
      fun k' hk' => hH k' (by simp at hk' ⊢; exact Or.inr hk')
    have hks : shadowNow has s i k = seen.contains k := hsh s k (by simp)
    have hkb : k ∈ bound := hb k (by simp)
    by_cases hkeep : (en && !seen.contains k) = true
    · have hen : en = true := by simp at hkeep; exact hkeep.1
      have hns : seen.contains k = false := by simp at hkeep; simpa using hkeep.2
      have hkv : vis.contains k = false := by
        have := hH k (by simp) hns
        simpa using this
      simp only [List.map_cons, List.cons_append, specLoop, hen, hks, hns, hkv, Bool.not_false, Bool.and_true,
        List.filter_cons, Bool.and_self, if_true, staticLoop]
      split
      · have hH2 : ∀ k', k' ∈ r.map (·.1) → seen.contains k' = false → k' ∉ k :: vis := by
          intro k' hk' hs' hmem
          rcases List.mem_cons.1 hmem with h | h
          · exact hkr (h ▸ hk')
          · exact hH' k' hk' hs' h
        have hG2 : ∀ x, x ∈ k :: vis → x ∈ bound := by
          intro x hx
          rcases List.mem_cons.1 hx with h | h
          · exact h ▸ hkb
          · exact hG x h
        cases hbd : body k s with
        | normal v s' => simp only []; exact ih hnd' hsh' hb' s' (orV v V) (k :: vis) hH2 hG2
        | cont v s' => simp only []; exact ih hnd' hsh' hb' s' (orV v V) (k :: vis) hH2 hG2
        | brk v s' => rfl
        | exit x s' => rfl
      · exact ih hnd' hsh' hb' s V vis hH' hG
    · have hcond : (has s i k && en && !shadowNow has s i k && !vis.contains k) = false := by
        rw [hks]
        cases hh : has s i k <;> cases hen : en <;> cases hc : seen.contains k <;> simp_all
      simp only [List.map_cons, List.cons_append, specLoop, hcond, Bool.false_eq_true, if_false, List.filter_cons, hkeep]
      exact ih hnd' hsh' hb' s V vis hH' hG

theorem chain_static (has : σ → Nat → κ → Bool) (body : κ → σ → Out σ ρ ν) :
    ∀ (rest : List (Obj κ)) (i : Nat) (seen : List κ), ShadowOK has i rest seen →
    ∀ (s : σ) (V : Option ν) (vis : List κ), (∀ x, x ∈ vis → x ∈ seen) →
      specLoop has body (flatAll i rest) s V vis = staticLoop has body (flat i rest seen) s V := by
  intro rest
  induction rest with
  | nil => intro i seen _ s V vis _; simp [flatAll, flat, specLoop, staticLoop]
  | cons o rest ih =>
    intro i seen hok s V vis hvis
    obtain ⟨h1, h2⟩ := hok
    simp only [flatAll, flat]
    refine inner_static has body i seen (seen ++ o.names) (flatAll (i+1) rest) (flat (i+1) rest (seen ++ o.names))
      (fun s' V' vis' hG => ih (i+1) (seen ++ o.names) h2 s' V' vis' hG) o.props o.nodup h1 ?_ s V vis ?_ ?_
    · intro k hk; exact List.mem_append_right _ hk
    · intro k _ hns hmem
      have := hvis k hmem
      simp at hns
      exact hns this
    · intro x hx; exact List.mem_append_left _ (hvis x hx)

/-- the names of the objects of a chain prefix, in order -/
def flatNames (pre : List (Obj κ)) : List κ := (pre.map Obj.names).flatten

theorem shadowOK_of_stable (has : σ → Nat → κ → Bool) :
    ∀ (rest pre : List (Obj κ)), Stable has (pre ++ rest) → ShadowOK has pre.length rest (flatNames pre) := by
  intro rest
  induction rest with
  | nil => intro pre _; trivial
  | cons o rest ih =>
    intro pre hst
    refine ⟨?_, ?_⟩
    · intro s k hk
      have hget : (pre ++ o :: rest)[pre.length]? = some o := by simp
      rw [Bool.eq_iff_iff]
      simp only [shadowNow, List.any_eq_true, List.mem_range, List.contains_iff_mem, flatNames, List.mem_flatten,
        List.mem_map]
      constructor
      · rintro ⟨j, hj, hhas⟩
        obtain ⟨o', ho', hko'⟩ := (hst s pre.length j k hj ⟨o, hget, hk⟩).1 hhas
        have hgj : (pre ++ o :: rest)[j]? = some pre[j] := by simp [List.getElem?_append_left hj]
        rw [hgj] at ho'
        cases ho'
        exact ⟨pre[j].names, ⟨pre[j], List.getElem_mem hj, rfl⟩, hko'⟩
      · rintro ⟨l, ⟨o', ho', rfl⟩, hkl⟩
        obtain ⟨j, hj, rfl⟩ := List.mem_iff_getElem.1 ho'
        refine ⟨j, hj, ?_⟩
        have hgj : (pre ++ o :: rest)[j]? = some pre[j] := by simp [List.getElem?_append_left hj]
        exact (hst s pre.length j k hj ⟨o, hget, hk⟩).2 ⟨pre[j], hgj, hkl⟩
    · have := ih (pre ++ [o]) (by simpa using hst)
      simpa [flatNames] using this

/-- the two readings of §12.6.4 coincide when shadowing does not change during the enumeration -/
theorem spec_eq_static (has : σ → Nat → κ → Bool) (body : κ → σ → Out σ ρ ν) (chain : List (Obj κ)) (s : σ)
    (hst : Stable has chain) : specForIn has body chain s = specStatic has body chain s := by
  have := shadowOK_of_stable has chain [] (by simpa using hst)
  exact chain_static has body chain 0 [] (by simpa [flatNames] using this) s none [] (by simp)

/-- **forin_refines_static**: otto's for-in against the reading FnSpec executes (properties to visit and
    what shadows what fixed when the statement starts) -/
theorem forin_refines_static (has : σ → Nat → κ → Bool) (body : κ → σ → Out σ ρ ν) (chain : List (Obj κ)) (s : σ)
    (hst : Stable has chain) : ottoForIn has body chain s = specStatic has body chain s :=
  (forin_refines has body chain s).trans (spec_eq_static has body chain s hst)

end

/-! ### concrete instances (kernel-checked)
  state = (log of visited names, "own a has been deleted"), values = Nat, exits = Nat -/

abbrev S := List String × Bool

/-- chain: object 0 = {a (enumerable), h (not enumerable)}, object 1 = {a, h, b} all enumerable -/
def chain1 : List (Obj String) :=
  [⟨[("a", true), ("h", false)], by decide⟩, ⟨[("a", true), ("h", true), ("b", true)], by decide⟩]

def hasStatic : S → Nat → String → Bool := fun _ j k =>
  match chain1[j]? with
  | some o => o.names.contains k
  | none => false

/-- logs the name, value 7 -/
def bodyLog : String → S → Out S Nat Nat := fun k s => .normal (some 7) (s.1 ++ [k], s.2)

-- the visit is: own a, then inherited b (a and h are shadowed, h by a NON-enumerable property)
example : ottoForIn hasStatic bodyLog chain1 ([], false) = .exhausted (some 7) (["a", "b"], false) := by decide
example : specStatic hasStatic bodyLog chain1 ([], false) = .exhausted (some 7) (["a", "b"], false) := by decide

/-- `Stable` is satisfiable: nothing deleted, nothing added -/
theorem stable_hasStatic : Stable hasStatic chain1 := by
  intro s i j k _ _
  simp only [hasStatic]
  cases h : chain1[j]? with
  | none => simp
  | some o => simp

/-- return in the first iteration: the prototype is not enumerated -/
def bodyRet : String → S → Out S Nat Nat := fun k s => .exit 1 (s.1 ++ [k], s.2)
example : ottoForIn hasStatic bodyRet chain1 ([], false) = .abrupt 1 (["a"], false) := by decide

/-- value 7, then break: the value is the statement's value (was Dev region forin_break_value) -/
def bodyBrk : String → S → Out S Nat Nat := fun k s => .brk (some 7) (s.1 ++ [k], s.2)
example : ottoForIn hasStatic bodyBrk chain1 ([], false) = .broke (some 7) (["a"], false) := by decide

/-- the body deletes the own `a` (flag in the state): the name `a` is not visited again on the
    prototype (was Dev region forin_revisit), although it is no longer shadowed there -/
def hasDel : S → Nat → String → Bool := fun s j k => if j = 0 ∧ k = "a" ∧ s.2 then false else hasStatic s j k
def bodyDel : String → S → Out S Nat Nat := fun k s => .normal none (s.1 ++ [k], true)
example : ottoForIn hasDel bodyDel chain1 ([], false) = .exhausted none (["a", "b"], true) := by decide
example : specStatic hasDel bodyDel chain1 ([], false) = .exhausted none (["a", "b"], true) := by decide

end OttoVerif.C01.ForInThm
