/-
  C01/ForInTheorems — otto's for-in evaluator (nested loops over the prototype chain, stopped through
  the flags `obj = nil` / `return false`) refines the ES5 §12.6.4 reading (one loop over the flattened,
  shadow-filtered list of properties; an abrupt completion ends the statement), for every chain, every
  property list, every `has` and every behaviour of the body – up to the two Dev regions:
  * `forin_break_value`: the completion VALUE after `break` (erased by `Fin.obs`; equal when the body
    never breaks – `forin_refines_value`);
  * `forin_revisit`: the hypothesis `Stable` (shadowing properties are not deleted during the
    enumeration); without it otto can visit a name twice (`dev_revisit`).
  The historical defects are exactly what the proof needs: cfa3e2e (an exit stopped only the inner
  loop) would break `outer_spec`, cb72f5e (no shadow test) would break `inner_spec`.
-/
import OttoVerif.C01.ForInModel
namespace OttoVerif.C01.ForInThm
open OttoVerif.C01.ForIn

section
variable {κ σ ρ ν : Type} [DecidableEq κ]

theorem orV_assoc (a b c : Option ν) : orV a (orV b c) = orV (orV a b) c := by
  cases a <;> rfl

/-- the shadow test otto makes when a property's turn comes gives what the list of names of the
    objects nearer the start says, for every object from position `i` on -/
def ShadowOK (has : σ → Nat → κ → Bool) : Nat → List (Props κ) → List κ → Prop
  | _, [], _ => True
  | i, o :: rest, seen =>
    (∀ s k, k ∈ names o → shadowNow has s i k = seen.contains k) ∧ ShadowOK has (i+1) rest (seen ++ names o)

/-- one object of the chain: otto's inner loop is the corresponding stretch of the flat loop -/
theorem inner_spec (has : σ → Nat → κ → Bool) (body : κ → σ → Out σ ρ ν) (i : Nat) (seen : List κ)
    (tail : List (Nat × κ)) (res : Option ν) :
    ∀ (ps : Props κ), (∀ s k, k ∈ names ps → shadowNow has s i k = seen.contains k) →
    ∀ (s : σ) (ev : Option ν),
      (specLoop has body (((ps.filter fun p => p.2 && !seen.contains p.1).map fun p => (i, p.1)) ++ tail) s (orV ev res)).obs =
        match inner has body i ps s ev with
        | .finished ev' s' => (specLoop has body tail s' (orV ev' res)).obs
        | .stopped s' => .broke none s'
        | .exited x s' => .abrupt x s' := by
  intro ps
  induction ps with
  | nil => intro _ s ev; simp [inner]
  | cons p r ih =>
    intro hsh s ev
    obtain ⟨k, en⟩ := p
    have hr : ∀ s k', k' ∈ names r → shadowNow has s i k' = seen.contains k' := by
      intro s k' hk'
      exact hsh s k' (by simp [names] at hk' ⊢; exact Or.inr hk')
    have hk : shadowNow has s i k = seen.contains k := hsh s k (by simp [names])
    by_cases hkeep : (en && !seen.contains k) = true
    · -- the property is in the flat list
      have hen : en = true := by simp at hkeep; exact hkeep.1
      have hns : seen.contains k = false := by simp at hkeep; simpa using hkeep.2
      by_cases hhas : has s i k = true
      · simp only [List.filter_cons, if_true, List.map_cons, List.cons_append, specLoop, hhas, inner, hen, hk, hns,
          Bool.not_false, Bool.and_self]
        cases hb : body k s with
        | normal v s' => simp only []; rw [orV_assoc]; exact ih hr s' (orV v ev)
        | cont v s' => simp only []; rw [orV_assoc]; exact ih hr s' (orV v ev)
        | brk v s' => simp [Fin.obs]
        | exit x s' => simp [Fin.obs]
      · have hhas' : has s i k = false := by simpa using hhas
        simp only [List.filter_cons, hkeep, if_true, List.map_cons, List.cons_append, specLoop, hhas', inner,
          Bool.false_and, Bool.false_eq_true, if_false]
        exact ih hr s ev
    · -- not enumerable, or shadowed: otto skips it, and it is not in the flat list
      have hcond : (has s i k && en && !shadowNow has s i k) = false := by
        rw [hk]
        cases hh : has s i k <;> cases hen : en <;> cases hc : seen.contains k <;> simp_all
      simp only [List.filter_cons, hkeep, inner, hcond, Bool.false_eq_true, if_false]
      exact ih hr s ev

/-- the whole chain from position `i` on -/
theorem outer_spec (has : σ → Nat → κ → Bool) (body : κ → σ → Out σ ρ ν) :
    ∀ (rest : List (Props κ)) (i : Nat) (seen : List κ) (s : σ) (res : Option ν),
      ShadowOK has i rest seen →
      (outer has body i rest s res).obs = (specLoop has body (flat i rest seen) s res).obs := by
  intro rest
  induction rest with
  | nil => intro i seen s res _; simp [outer, flat, specLoop]
  | cons o rest ih =>
    intro i seen s res hok
    obtain ⟨h1, h2⟩ := hok
    have hi := inner_spec has body i seen (flat (i+1) rest (seen ++ names o)) res o h1 s none
    simp only [flat, outer]
    have hnone : orV (none : Option ν) res = res := rfl
    rw [hnone] at hi
    rw [hi]
    cases hin : inner has body i o s none with
    | finished ev' s' => simp only []; exact ih (i+1) (seen ++ names o) s' (orV ev' res) h2
    | stopped s' => simp [Fin.obs]
    | exited x s' => simp [Fin.obs]

/-- the names of the objects of a chain prefix, in order -/
def flatNames (pre : List (Props κ)) : List κ := (pre.map names).flatten

theorem shadowOK_of_stable (has : σ → Nat → κ → Bool) :
    ∀ (rest pre : List (Props κ)), Stable has (pre ++ rest) → ShadowOK has pre.length rest (flatNames pre) := by
  intro rest
  induction rest with
  | nil => intro pre _; trivial
  | cons o rest ih =>
    intro pre hst
    refine ⟨?_, ?_⟩
    · intro s k hk
      have hget : (pre ++ o :: rest).getD pre.length [] = o := by simp [List.getD]
      rw [Bool.eq_iff_iff]
      simp only [shadowNow, List.any_eq_true, List.mem_range, List.contains_iff_mem, flatNames, List.mem_flatten,
        List.mem_map]
      constructor
      · rintro ⟨j, hj, hhas⟩
        have := (hst s pre.length j k hj (by rw [hget]; exact hk)).1 hhas
        have hgj : (pre ++ o :: rest).getD j [] = pre[j] := by simp [List.getD, List.getElem?_append_left hj, hj]
        rw [hgj] at this
        exact ⟨names pre[j], ⟨pre[j], List.getElem_mem hj, rfl⟩, this⟩
      · rintro ⟨l, ⟨o', ho', rfl⟩, hkl⟩
        obtain ⟨j, hj, rfl⟩ := List.mem_iff_getElem.1 ho'
        refine ⟨j, hj, ?_⟩
        have hgj : (pre ++ o :: rest).getD j [] = pre[j] := by simp [List.getD, List.getElem?_append_left hj, hj]
        exact (hst s pre.length j k hj (by rw [hget]; exact hk)).2 (by rw [hgj]; exact hkl)
    · have := ih (pre ++ [o]) (by simpa using hst)
      simpa [flatNames] using this

/-- **forin_refines**: for every chain, every property list, every `has` (deletions included) and every
    behaviour of the body, otto's for-in and §12.6.4 end the same way (all visited / break / the same
    abrupt completion), in the same state, with the same value – the value after `break` excepted –
    provided shadowing does not change during the enumeration. -/
theorem forin_refines (has : σ → Nat → κ → Bool) (body : κ → σ → Out σ ρ ν) (chain : List (Props κ)) (s : σ)
    (hst : Stable has chain) :
    (ottoForIn has body chain s).obs = (specForIn has body chain s).obs := by
  have := shadowOK_of_stable has chain [] (by simpa using hst)
  exact outer_spec has body chain 0 [] s none (by simpa [flatNames] using this)

/-! ### the value, when the body never breaks -/

omit [DecidableEq κ] in
theorem spec_not_broke (has : σ → Nat → κ → Bool) (body : κ → σ → Out σ ρ ν)
    (hnb : ∀ k s v s', body k s ≠ .brk v s') :
    ∀ (l : List (Nat × κ)) (s : σ) (V : Option ν) v s', specLoop has body l s V ≠ .broke v s' := by
  intro l
  induction l with
  | nil => intro s V v s'; simp [specLoop]
  | cons p r ih =>
    intro s V v s'
    obtain ⟨i, k⟩ := p
    simp only [specLoop]
    split
    · cases hb : body k s with
      | normal w t => exact ih t _ v s'
      | cont w t => exact ih t _ v s'
      | brk w t => exact absurd hb (hnb k s w t)
      | exit x t => simp
    · exact ih s V v s'

omit [DecidableEq κ] in
theorem inner_not_stopped (has : σ → Nat → κ → Bool) (body : κ → σ → Out σ ρ ν)
    (hnb : ∀ k s v s', body k s ≠ .brk v s') (i : Nat) :
    ∀ (ps : Props κ) (s : σ) (ev : Option ν) s', inner has body i ps s ev ≠ .stopped s' := by
  intro ps
  induction ps with
  | nil => intro s ev s'; simp [inner]
  | cons p r ih =>
    intro s ev s'
    obtain ⟨k, en⟩ := p
    simp only [inner]
    split
    · cases hb : body k s with
      | normal w t => exact ih t _ s'
      | cont w t => exact ih t _ s'
      | brk w t => exact absurd hb (hnb k s w t)
      | exit x t => simp
    · exact ih s ev s'

omit [DecidableEq κ] in
theorem outer_not_broke (has : σ → Nat → κ → Bool) (body : κ → σ → Out σ ρ ν)
    (hnb : ∀ k s v s', body k s ≠ .brk v s') :
    ∀ (rest : List (Props κ)) (i : Nat) (s : σ) (res : Option ν) v s', outer has body i rest s res ≠ .broke v s' := by
  intro rest
  induction rest with
  | nil => intro i s res v s'; simp [outer]
  | cons o rest ih =>
    intro i s res v s'
    simp only [outer]
    cases hin : inner has body i o s none with
    | finished ev t => exact ih (i+1) t _ v s'
    | stopped t => exact absurd hin (inner_not_stopped has body hnb i o s none t)
    | exited x t => simp

theorem obs_inj {a b : Fin σ ρ ν} (ha : ∀ v s, a ≠ .broke v s) (hb : ∀ v s, b ≠ .broke v s)
    (h : a.obs = b.obs) : a = b := by
  cases a with
  | broke v s => exact absurd rfl (ha v s)
  | exhausted v s =>
    cases b with
    | broke w t => exact absurd rfl (hb w t)
    | exhausted w t => simpa [Fin.obs] using h
    | abrupt x t => simp [Fin.obs] at h
  | abrupt x s =>
    cases b with
    | broke w t => exact absurd rfl (hb w t)
    | exhausted w t => simp [Fin.obs] at h
    | abrupt y t => simpa [Fin.obs] using h

/-- **forin_refines_value**: when the body never completes with a break for this statement, the
    completion values agree too (return / continue / outer break and continue / normal exhaustion) -/
theorem forin_refines_value (has : σ → Nat → κ → Bool) (body : κ → σ → Out σ ρ ν) (chain : List (Props κ)) (s : σ)
    (hst : Stable has chain) (hnb : ∀ k s v s', body k s ≠ .brk v s') :
    ottoForIn has body chain s = specForIn has body chain s :=
  obs_inj (outer_not_broke has body hnb chain 0 s none) (spec_not_broke has body hnb _ s none)
    (forin_refines has body chain s hst)

/-- with no deletion or addition at all (`has` = what the lists say), `Stable` holds -/
theorem stable_of_static (chain : List (Props κ)) :
    Stable (fun (_ : σ) j k => (names (chain.getD j [])).contains k) chain := by
  intro s i j k _ _
  simp
end

/-! ### non-vacuity and the two Dev regions, on concrete instances
  state = (log of visited names, "own a has been deleted"), values = Nat, exits = Nat -/

abbrev S := List String × Bool

/-- chain: object 0 = {a (enumerable), h (not enumerable)}, object 1 = {a, h, b} all enumerable -/
def chain1 : List (Props String) := [[("a", true), ("h", false)], [("a", true), ("h", true), ("b", true)]]

def hasStatic : S → Nat → String → Bool := fun _ j k => (names (chain1.getD j [])).contains k

/-- logs the name, value 7 -/
def bodyLog : String → S → Out S Nat Nat := fun k s => .normal (some 7) (s.1 ++ [k], s.2)

-- the hypothesis is satisfiable, and the visit is: own a, then inherited b (a and h are shadowed,
-- h by a NON-enumerable property)
example : Stable hasStatic chain1 := stable_of_static chain1
example : ottoForIn hasStatic bodyLog chain1 ([], false) = .exhausted (some 7) (["a", "b"], false) := by decide
example : specForIn hasStatic bodyLog chain1 ([], false) = .exhausted (some 7) (["a", "b"], false) := by decide

/-- return in the first iteration: the prototype is NOT enumerated (the defect repaired by cfa3e2e) -/
def bodyRet : String → S → Out S Nat Nat := fun k s => .exit 1 (s.1 ++ [k], s.2)
example : ottoForIn hasStatic bodyRet chain1 ([], false) = .abrupt 1 (["a"], false) := by decide

/-- Dev `forin_break_value`: value 7, then break -/
def bodyBrk : String → S → Out S Nat Nat := fun k s => .brk (some 7) (s.1 ++ [k], s.2)
theorem dev_break_value :
    ottoForIn hasStatic bodyBrk chain1 ([], false) = .broke none (["a"], false) ∧
    specForIn hasStatic bodyBrk chain1 ([], false) = .broke (some 7) (["a"], false) := by decide

/-- Dev `forin_revisit`: the body deletes the own `a` (flag in the state); `Stable` fails and otto
    visits the name `a` a second time, on the prototype -/
def hasDel : S → Nat → String → Bool := fun s j k => if j = 0 ∧ k = "a" ∧ s.2 then false else hasStatic s j k
def bodyDel : String → S → Out S Nat Nat := fun k s => .normal none (s.1 ++ [k], true)
theorem dev_revisit :
    ottoForIn hasDel bodyDel chain1 ([], false) = .exhausted none (["a", "a", "b"], true) ∧
    specForIn hasDel bodyDel chain1 ([], false) = .exhausted none (["a", "b"], true) ∧
    ¬ Stable hasDel chain1 := by
  refine ⟨by decide, by decide, ?_⟩
  intro h
  have := (h ([], true) 1 0 "a" (by decide) (by decide)).2 (by decide)
  exact absurd this (by decide)

end OttoVerif.C01.ForInThm
