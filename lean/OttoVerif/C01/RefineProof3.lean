/-
  C01/RefineProof3 — the statement-level step and the closing induction.
-/
import OttoVerif.C01.RefineProof2
namespace OttoVerif.C01
variable {St : Type}

section
variable (S : Sem St)

theorem ps_step (n : Nat) (hS : PS S n) (hV : PVars S n) (hL : PList S n) (hW : PWhile S n)
    (hD : PDoWhile S n) (hF : PFor S n) (hC : PCases S n) : PS S (n+1) := by
  intro m s L ls iter σ H1 H1' H2 hwl
  have hLE : ∀ (m : Nat) (ss : Stmts) (σ0 : St), wlList iter ss = true → Sim [] iter (ottoList S n ss [] σ0 .empty) (specList S m ss σ0) := by
    intro m ss σ0 h
    have := hL m ss iter σ0 .empty rfl h
    rwa [show ovVal OV.empty = none from rfl, listWrap_none] at this
  cases m with
  | zero => simp only [specS]; exact sim_fuel_r _ _ _
  | succ m =>
    cases s with
    | empty => simp only [ottoS, specS]; exact sim_ok _ (labok_refl _) (by simp [KindRel, KindRelT, ovVal])
    | expr e =>
      simp only [ottoS, specS]
      cases S.evalE e σ with
      | ok v σ' => exact sim_ok _ (labok_refl _) (by simp [KindRel, KindRelT, ovVal])
      | throw v σ' => exact sim_throw _ _ (labok_refl _)
    | varS inits => simp only [ottoS, specS]; exact hV m inits L iter σ
    | block ss =>
      simp only [ottoS, specS]
      exact simN_sim (block_simN (hLE m ss σ (by simpa [wlS] using hwl)))
    | ifS c t e =>
      simp only [wlS, Bool.and_eq_true] at hwl
      simp only [ottoS, specS]
      cases S.evalE c σ with
      | throw v σ' => exact sim_throw _ _ (labok_refl _)
      | ok v σ' =>
        cases ht : S.truthy v with
        | true => simp only [ht, if_true]; exact sim_weaken (labok_nil L) (hS m t [] [] iter σ' (by simp) (by simp) (by simp) hwl.1)
        | false =>
          simp only [ht, Bool.false_eq_true, if_false]
          exact sim_weaken (labok_nil L) (hS m e [] [] iter σ' (by simp) (by simp) (by simp) hwl.2)
    | whileS c b =>
      simp only [ottoS, specS]
      exact hW m c b L ls iter σ .empty none H1 H1' H2 (by simpa [wlS] using hwl) rfl rfl
    | doWhile b c =>
      simp only [ottoS, specS]
      exact hD m c b L ls iter σ .empty none H1 H1' H2 (by simpa [wlS] using hwl) rfl rfl
    | forS init test update b =>
      simp only [ottoS, specS]
      cases init with
      | none => exact hF m test update b L ls iter σ .empty none H1 H1' H2 (by simpa [wlS] using hwl) rfl rfl
      | some e =>
        simp only
        cases S.evalE e σ with
        | throw v σ' => exact sim_throw _ _ (labok_nil _)
        | ok v σ' => exact hF m test update b L ls iter σ' .empty none H1 H1' H2 (by simpa [wlS] using hwl) rfl rfl
    | labelled l s =>
      simp only [wlS, Bool.and_eq_true, Bool.not_eq_true', List.contains_eq_mem, decide_eq_false_iff_not] at hwl
      simp only [ottoS, specS]
      refine label_sim (hS m s (L ++ [l]) (l :: ls) iter σ ?_ ?_ ?_ hwl.2)
      · intro t ht
        rcases List.mem_cons.mp ht with h | h
        · subst h; simp
        · exact List.mem_append.mpr (Or.inl (H1 t h))
      · intro t ht
        rcases List.mem_append.mp ht with h | h
        · exact List.mem_cons_of_mem _ (H1' t h)
        · simp at h; subst h; simp
      · intro t ht
        rcases List.mem_append.mp ht with h | h
        · exact H2 t h
        · simp at h; subst h; exact hwl.1
    | brk t => simp only [ottoS, specS]; exact sim_ok _ (labok_refl _) (by simp [KindRel, KindRelT, ovVal])
    | cont t =>
      simp only [wlS, Bool.or_eq_true, decide_eq_true_eq, List.contains_eq_mem] at hwl
      simp only [ottoS, specS]
      exact sim_ok _ (labok_refl _) ⟨by simp only [KindRelT, true_and]; exact hwl, rfl⟩
    | ret e =>
      cases e with
      | none => simp only [ottoS, specS]; exact sim_ok _ (labok_refl _) (by simp [KindRel, KindRelT, ovVal])
      | some e =>
        simp only [ottoS, specS]
        cases S.evalE e σ with
        | ok v σ' => exact sim_ok _ (labok_refl _) (by simp [KindRel, KindRelT, ovVal])
        | throw v σ' => exact sim_throw _ _ (labok_refl _)
    | throwS e =>
      simp only [ottoS, specS]
      cases S.evalE e σ with
      | ok v σ' => exact sim_throw _ _ (labok_refl _)
      | throw v σ' => exact sim_throw _ _ (labok_refl _)
    | tryS b hasCatch param c hasFin f =>
      simp only [wlS, Bool.and_eq_true] at hwl
      simp only [ottoS, specS]
      refine simN_sim (finally_simN hasFin (catch_simN S hasCatch param
        (block_simN (hLE m b σ hwl.1.1)) ?_) ?_)
      · intro σ1
        exact simN_weaken_nil (block_simN (L := []) (hLE m c σ1 hwl.1.2))
      · intro σ2
        exact block_simN (L := []) (hLE m f σ2 hwl.2)
    | withS e b =>
      simp only [wlS] at hwl
      simp only [ottoS, specS]
      cases S.evalE e σ with
      | throw v σ' => exact sim_throw _ _ (labok_refl _)
      | ok v σ' =>
        simp only
        cases S.withEnter v σ' with
        | throw t σ2 => exact sim_throw _ _ (labok_refl _)
        | ok w σ2 => exact withExit_sim S (sim_weaken (labok_nil L) (hS m b [] [] iter σ2 (by simp) (by simp) (by simp) hwl))
    | switchS d cs =>
      simp only [ottoS, specS]
      cases S.evalE d σ with
      | throw v σ' => exact sim_throw _ _ (labok_nil _)
      | ok dv σ' =>
        simp only
        rw [← findCase_eq S dv cs 0 σ']
        cases findCase S dv cs 0 σ' with
        | throw v σ'' => simp only [frToSfr]; exact sim_throw _ _ (labok_nil _)
        | found idx σ'' =>
          simp only [frToSfr, sDefaultIdx_eq]
          have hrun : ∀ k, Sim L iter (switchWrap (ottoCases S n (dropCases k cs) (L ++ [""]) [] σ'' OV.empty))
              (sSwitchWrap ("" :: ls) (specCases S m (sDropCases k cs) σ'' none)) := by
            intro k
            rw [sDropCases_eq]
            exact switch_sim H1 (hC m (dropCases k cs) (L ++ [""]) iter σ'' .empty none
              (wlCases_drop iter k cs (by simpa [wlS] using hwl)) rfl rfl)
          cases idx with
          | some i => exact hrun i
          | none =>
            simp only
            cases hd : defaultIdx cs 0 with
            | none => exact sim_ok _ (labok_nil _) (by simp [KindRel, KindRelT, ovVal])
            | some k => exact hrun k


def PAll (n : Nat) : Prop :=
  PS S n ∧ PVars S n ∧ PList S n ∧ PBodyList S n ∧ PBody S n ∧ PWhile S n ∧ PDoWhile S n ∧ PFor S n ∧
  PClause S n ∧ PCases S n

theorem pall_zero : PAll S 0 := by
  refine ⟨?_, ?_, ?_, ?_, ?_, ?_, ?_, ?_, ?_, ?_⟩
  · intro m s L ls iter σ _ _ _ _; simp [ottoS, Sim]
  · exact pvars_all S 0
  · intro m ss iter σ result _ _; simp [ottoList, Sim]
  · intro m ss labels iter σ result pass V _ _ _ _; simp [ottoBody, BodyRel]
  · intro m b labels iter σ result _ _; simp [ottoBody, BodyRel]
  · intro m c b L ls iter σ result V _ _ _ _ _ _; simp [ottoWhile, Sim]
  · intro m c b L ls iter σ result V _ _ _ _ _ _; simp [ottoDoWhile, Sim]
  · intro m t u b L ls iter σ result V _ _ _ _ _ _; simp [ottoFor, Sim]
  · intro m ss labels iter σ result P V _ _ _; simp [ottoClause, ClauseRel]
  · intro m cs labels iter σ result V _ _ _; simp [ottoCases, ClauseRel]

theorem pall_all : ∀ n, PAll S n := by
  intro n
  induction n with
  | zero => exact pall_zero S
  | succ n ih =>
    obtain ⟨hS, hV, hL, hBL, hB, hW, hD, hF, hCl, hC⟩ := ih
    have hBL' := pbodylist_step S n hS hBL
    exact ⟨ps_step S n hS hV hL hW hD hF hC, pvars_all S (n+1), plist_step S n hS hL, hBL',
      pbody_step S n hS hBL', pwhile_step S n hB hW, pdowhile_step S n hB hD, pfor_step S n hB hF,
      pclause_step S n hS hCl, pcases_step S n hCl hC⟩

end

end OttoVerif.C01
