/-
  C01/RefineProof3 — the statement-level step and the closing induction.
-/
import OttoVerif.C01.RefineProof2
namespace OttoVerif.C01
variable {St : Type}

section
variable (S : Sem St)

theorem ps_step (n : Nat) (hS : PS S n) (hV : PVars S n) (hL : PList S n) (hW : PWhile S n)
    (hD : PDoWhile S n) (hF : PFor S n) (hC : PCases S n) : PS S (n+1) := by
  intro m s L ls iter σ H1 H2 hwl
  cases m with
  | zero => simp only [specS]; exact sim_fuel_r _ _ _
  | succ m =>
    cases s with
    | empty => simp only [ottoS, specS]; exact sim_ok _ (labok_refl _) (by simp [KindRel])
    | expr e =>
      simp only [ottoS, specS]
      cases S.evalE e σ with
      | ok v σ' => exact sim_ok _ (labok_refl _) (by simp [KindRel])
      | throw v σ' => exact sim_throw _ _ (labok_refl _)
    | varS inits => simp only [ottoS, specS]; exact hV m inits L iter σ
    | block ss =>
      simp only [ottoS, specS]
      exact simN_sim (block_simN (hL m ss iter σ (.val .undef) rfl (by simpa [wlS] using hwl)))
    | ifS c t e =>
      simp only [wlS, Bool.and_eq_true] at hwl
      simp only [ottoS, specS]
      cases S.evalE c σ with
      | throw v σ' => exact sim_throw _ _ (labok_refl _)
      | ok v σ' =>
        cases ht : S.truthy v with
        | true => simp only [ht, if_true]; exact hS m t L [] iter σ' (by simp) H2 hwl.1
        | false => simp only [ht, Bool.false_eq_true, if_false]; exact hS m e L [] iter σ' (by simp) H2 hwl.2
    | whileS c b =>
      simp only [ottoS, specS]
      exact hW m c b L ls iter σ .empty none H1 H2 (by simpa [wlS] using hwl) rfl
    | doWhile b c =>
      simp only [ottoS, specS]
      exact hD m c b L ls iter σ .empty none H1 H2 (by simpa [wlS] using hwl) rfl
    | forS init test update b =>
      simp only [ottoS, specS]
      cases init with
      | none => exact hF m test update b L ls iter σ .empty none H1 H2 (by simpa [wlS] using hwl) rfl
      | some e =>
        simp only
        cases S.evalE e σ with
        | throw v σ' => exact sim_throw _ _ (labok_nil _)
        | ok v σ' => exact hF m test update b L ls iter σ' .empty none H1 H2 (by simpa [wlS] using hwl) rfl
    | labelled l s =>
      simp only [wlS, Bool.and_eq_true, Bool.not_eq_true', List.contains_eq_mem, decide_eq_false_iff_not] at hwl
      simp only [ottoS, specS]
      refine label_sim (hS m s (L ++ [l]) (l :: ls) iter σ ?_ ?_ hwl.2)
      · intro t ht
        rcases List.mem_cons.mp ht with h | h
        · subst h; simp
        · exact List.mem_append.mpr (Or.inl (H1 t h))
      · intro t ht
        rcases List.mem_append.mp ht with h | h
        · exact H2 t h
        · simp at h; subst h; exact hwl.1
    | brk t => simp only [ottoS, specS]; exact sim_ok _ (labok_refl _) (by simp [KindRel])
    | cont t =>
      simp only [wlS, Bool.or_eq_true, decide_eq_true_eq, List.contains_eq_mem] at hwl
      simp only [ottoS, specS]
      exact sim_ok _ (labok_refl _) (by simp only [KindRel, true_and]; exact hwl)
    | ret e =>
      cases e with
      | none => simp only [ottoS, specS]; exact sim_ok _ (labok_refl _) (by simp [KindRel])
      | some e =>
        simp only [ottoS, specS]
        cases S.evalE e σ with
        | ok v σ' => exact sim_ok _ (labok_refl _) (by simp [KindRel])
        | throw v σ' => exact sim_throw _ _ (labok_refl _)
    | throwS e =>
      simp only [ottoS, specS]
      cases S.evalE e σ with
      | ok v σ' => exact sim_throw _ _ (labok_refl _)
      | throw v σ' => exact sim_throw _ _ (labok_refl _)
    | tryS b hasCatch param c hasFin f =>
      simp only [wlS, Bool.and_eq_true] at hwl
      simp only [ottoS, specS]
      refine simN_sim (finally_simN hasFin (catch_simN S hasCatch param
        (block_simN (hL m b iter σ (.val .undef) rfl hwl.1.1)) ?_) ?_)
      · intro σ1
        exact simN_weaken_nil (block_simN (L := []) (hL m c iter σ1 (.val .undef) rfl hwl.1.2))
      · intro σ2
        exact block_simN (L := []) (hL m f iter σ2 (.val .undef) rfl hwl.2)
    | withS e b =>
      simp only [wlS] at hwl
      simp only [ottoS, specS]
      cases S.evalE e σ with
      | throw v σ' => exact sim_throw _ _ (labok_refl _)
      | ok v σ' =>
        simp only
        cases S.withEnter v σ' with
        | throw t σ2 => exact sim_throw _ _ (labok_refl _)
        | ok w σ2 => exact withExit_sim S (hS m b L [] iter σ2 (by simp) H2 hwl)
    | switchS d cs =>
      simp only [ottoS, specS]
      cases S.evalE d σ with
      | throw v σ' => exact sim_throw _ _ (labok_nil _)
      | ok dv σ' =>
        simp only
        rw [← findCase_eq S dv cs 0 σ']
        cases findCase S dv cs 0 σ' with
        | throw v σ'' => simp only [frToSfr]; exact sim_throw _ _ (labok_nil _)
        | found idx σ'' =>
          simp only [frToSfr, sDefaultIdx_eq]
          have hrun : ∀ k, Sim L iter (switchWrap (ottoCases S n (dropCases k cs) (L ++ [""]) [] σ'' OV.empty))
              (sSwitchWrap ("" :: ls) (specCases S m (sDropCases k cs) σ'' none)) := by
            intro k
            rw [sDropCases_eq]
            exact switch_sim H1 (hC m (dropCases k cs) (L ++ [""]) iter σ'' .empty none
              (wlCases_drop iter k cs (by simpa [wlS] using hwl)) rfl)
          cases idx with
          | some i => exact hrun i
          | none =>
            simp only
            cases hd : defaultIdx cs 0 with
            | none => exact sim_ok _ (labok_nil _) (by simp [KindRel])
            | some k => exact hrun k


def PAll (n : Nat) : Prop :=
  PS S n ∧ PVars S n ∧ PList S n ∧ PBodyList S n ∧ PBody S n ∧ PWhile S n ∧ PDoWhile S n ∧ PFor S n ∧
  PClause S n ∧ PCases S n

theorem pall_zero : PAll S 0 := by
  refine ⟨?_, ?_, ?_, ?_, ?_, ?_, ?_, ?_, ?_, ?_⟩
  · intro m s L ls iter σ _ _ _; simp [ottoS, Sim]
  · exact pvars_all S 0
  · intro m ss iter σ result _ _; simp [ottoList, Sim]
  · intro m ss labels iter σ result _; simp [ottoBody, BodyRel]
  · intro m b labels iter σ result _; simp [ottoBody, BodyRel]
  · intro m c b L ls iter σ result V _ _ _ _; simp [ottoWhile, Sim]
  · intro m c b L ls iter σ result V _ _ _ _; simp [ottoDoWhile, Sim]
  · intro m t u b L ls iter σ result V _ _ _ _; simp [ottoFor, Sim]
  · intro m ss labels iter σ result _ _; simp [ottoClause, ClauseRel]
  · intro m cs labels iter σ result V _ _; simp [ottoCases, ClauseRel]

theorem pall_all : ∀ n, PAll S n := by
  intro n
  induction n with
  | zero => exact pall_zero S
  | succ n ih =>
    obtain ⟨hS, hV, hL, hBL, hB, hW, hD, hF, hCl, hC⟩ := ih
    have hBL' := pbodylist_step S n hS hBL
    exact ⟨ps_step S n hS hV hL hW hD hF hC, pvars_all S (n+1), plist_step S n hS hL, hBL',
      pbody_step S n hS hBL', pwhile_step S n hB hW, pdowhile_step S n hB hD, pfor_step S n hB hF,
      pclause_step S n hS hCl, pcases_step S n hCl hC⟩

end

end OttoVerif.C01
