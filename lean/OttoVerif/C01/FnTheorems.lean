/-
  C01/FnTheorems — THE LEDGER of the function layer's refinement: otto's environment / reference / object
  machinery (FnModel, the transcription) computes what ES5's does (FnSpec) on the abstraction
  `FnRefine.absSt` (object a ↦ object a, stash i ↦ environment record i; otto's extra properties
  `name` / `caller` / a bound function's `arguments`, `prototype` are not part of it).  Every statement
  is for ALL states satisfying the listed well-formedness conditions, all names and all values; each
  condition is shown satisfiable on a concrete state (`σ1`), where the theorem is then instantiated.

  WHAT IS NOT HERE YET (the open part of Stage 2): delete, the arguments-object parameter map under put /
  delete, function entry on the real data structures, and the simulation of the evaluators (`fn_refines`).
-/
import OttoVerif.C01.FnRefine
namespace OttoVerif.C01.FnThm
open OttoVerif.C01 OttoVerif.C01.FnRefine

/-! ## the theorems -/

/-- **identifier resolution** (§10.2.2.1): on every stash chain, for every name that otto's extra
    properties do not use, `getIdentifierReference` returns the reference of exactly the environment
    record GetIdentifierReference finds — declarative, object (`with`) and global records; an
    unresolvable reference where ES5 has none. -/
theorem resolve_refines (σ : FnM.St) (x : String) (hv : Visible σ x) (h0 : WF0 σ) (n i : Nat) :
    FnM.getIdentifierReference n (some i) x σ = .ok (refOf σ x (Fn.envResolve (absSt σ) n i x)) σ :=
  resolve_spec σ x hv h0 n i

/-- **[[HasProperty]]** (§8.12.6) along any prototype chain with any fuel -/
theorem hasProperty_refines (σ : FnM.St) (x : String) (hv : Visible σ x) (n a : Nat) :
    (getPropertyP σ n a x).isSome = Fn.hasProp (absSt σ) n a x :=
  hasProperty_spec σ x hv n a

/-- **[[Get]]** (§8.12.3, §10.6 [[Get]] of an arguments object through its parameter map, the `name` of an
    Error object) -/
theorem get_refines (σ : FnM.St) (a : Nat) (x : String) (hv : Visible σ x) (hnp : NoArgsProto σ) (haw : ArgsWF σ)
    (hew : ErrWF σ) : absR (FnM.objGet a x σ) = Fn.getProp (absSt σ) (.ref a) x := by
  rw [objGet_run]; exact (getProp_spec σ a x hv hnp haw hew).symm

/-- **GetValue on an identifier reference** (§8.7.1; §10.2.1.1.4, §10.2.1.2.4), for the environment `j` the
    name resolved to -/
theorem getValue_refines (σ : FnM.St) (x : String) (hv : Visible σ x) (h0 : WF0 σ) (hnp : NoArgsProto σ)
    (haw : ArgsWF σ) (hew : ErrWF σ) (hsr : StashReadable σ) (j : Nat) :
    absR (FnM.refGetValue (FnM.newReference σ j x) σ) = Fn.envGet (absSt σ) j x :=
  getValue_ident_spec σ x hv h0 hnp haw hew hsr j

/-- … and for an unresolvable reference: a ReferenceError on both sides -/
theorem getValue_unresolvable_refines (σ : FnM.St) (x : String) :
    absR (FnM.refGetValue (.prop none x) σ) = (Fn.throwErr (absSt σ) "ReferenceError" : Fn.Res Fn.V) :=
  getValue_unresolvable_spec σ x

/-- **[[Put]]** (§8.12.5 with [[CanPut]] §8.12.4: own and inherited read-only properties refuse silently)
    on any object that is not an arguments object; the new state abstracts to ES5's new state -/
theorem put_refines (σ : FnM.St) (a : Nat) (x : String) (v : Fn.V) (hv : Visible σ x) (hw : WritableWF σ)
    (hd : ProtoDesc σ) (hna : ∀ o, σ.obj? a = some o → ∀ ipn st, o.val ≠ .arguments ipn st) :
    absR (FnM.objPut a x v false σ) = Fn.putProp (absSt σ) (.ref a) x v :=
  putProp_spec σ a x v hv hw hd hna

/-- **PutValue, declarative record** (§10.2.1.1.3): mutable bindings are updated, the immutable binding of a
    named function expression is left alone -/
theorem putValue_dcl_refines (σ : FnM.St) (j : Nat) (x : String) (v : Fn.V) (p : FnM.DclProp) (hj : j ≠ 0)
    (hn : StashNodup σ) (hl : Fn.lookupA x (FnM.dclProps σ j) = some p) :
    absR (FnM.rtPutValue (.stash j x) v σ) = Fn.putIdent (absSt σ) (some j) x v :=
  putValue_dcl_spec σ j x v p hj hn hl

/-- **PutValue, object record** (§10.2.1.2.3: a `with` object or the global object) -/
theorem putValue_obj_refines (σ : FnM.St) (j : Nat) (outer : Option Nat) (o : Nat) (x : String) (v : Fn.V)
    (hs : σ.stash? j = some (.obj outer o)) (h0 : WF0 σ) (hv : Visible σ x) (hw : WritableWF σ) (hd : ProtoDesc σ)
    (hna : ∀ ob, σ.obj? o = some ob → ∀ ipn st, ob.val ≠ .arguments ipn st) :
    absR (FnM.rtPutValue (FnM.newReference σ j x) v σ) = Fn.putIdent (absSt σ) (some j) x v :=
  putValue_obj_spec σ j outer o x v hs h0 hv hw hd hna

/-- **PutValue, unresolvable reference** (§8.7.2 step 3.b): the global object gets the property -/
theorem putValue_unresolvable_refines (σ : FnM.St) (x : String) (v : Fn.V) (hx : x ≠ "") (hv : Visible σ x)
    (hw : WritableWF σ) (hd : ProtoDesc σ) (g : FnM.Obj) (hg : σ.obj? FnM.gObj = some g)
    (hna : ∀ ipn st, g.val ≠ .arguments ipn st) (hno : getPropertyP σ (σ.heap.length + 1) FnM.gObj x = none) :
    absR (FnM.rtPutValue (.prop none x) v σ) = Fn.putIdent (absSt σ) none x v :=
  putValue_unresolvable_spec σ x v hx hv hw hd g hg hna hno

/-! ## the conditions are satisfiable: decidable checkers, and a concrete state -/

def isArgs : FnM.OVal → Bool | .arguments .. => true | _ => false
def isStr : FnM.OVal → Bool | .string _ => true | _ => false
def isErr : FnM.OVal → Bool | .error _ => true | _ => false

theorem obj_mem (σ : FnM.St) (a : Nat) (o : FnM.Obj) (h : σ.obj? a = some o) : o ∈ σ.heap := by
  simp only [FnM.St.obj?] at h
  exact List.mem_of_getElem? h

theorem visible_of_check (σ : FnM.St) (x : String)
    (h : (σ.heap.all fun o => !hidden o.val x && !isStr o.val) = true) : Visible σ x := by
  intro a o ho
  have := List.all_eq_true.1 h o (obj_mem σ a o ho)
  simp only [Bool.and_eq_true, Bool.not_eq_eq_eq_not, Bool.not_true] at this
  refine ⟨this.1, ?_⟩
  intro s hs
  rw [hs] at this
  simp [isStr] at this

theorem noArgs_checks (σ : FnM.St) (h : (σ.heap.all fun o => !isArgs o.val) = true) : NoArgsProto σ ∧ ArgsWF σ := by
  have key : ∀ a o, σ.obj? a = some o → ∀ ipn st, o.val ≠ .arguments ipn st := by
    intro a o ho ipn st hv
    have := List.all_eq_true.1 h o (obj_mem σ a o ho)
    rw [hv] at this
    simp [isArgs] at this
  exact ⟨fun a o q oq _ _ hoq => key q oq hoq, fun a o ipn st ho hv => absurd hv (key a o ho ipn st)⟩

theorem errWF_of_check (σ : FnM.St) (h : (σ.heap.all fun o => !isErr o.val) = true) : ErrWF σ := by
  intro a o n ho hv
  have := List.all_eq_true.1 h o (obj_mem σ a o ho)
  rw [hv] at this
  simp [isErr] at this

theorem writableWF_of_check (σ : FnM.St)
    (h : (σ.heap.all fun o => o.props.all fun kp =>
      hidden o.val kp.1 || (Fn.lookupA kp.1 o.props != some kp.2) ||
        (kp.2.w == !(kp.1 == "length" && Fn.isFnKind (absKind o.val)))) = true) : WritableWF σ := by
  intro a o k p ho hl hh
  have h1 := List.all_eq_true.1 h o (obj_mem σ a o ho)
  have h2 := List.all_eq_true.1 h1 (k, p) (lookupA_mem k o.props p hl)
  have h3 : (p.w == !(k == "length" && Fn.isFnKind (absKind o.val))) = true := by
    simpa only [hh, Bool.false_or, hl, bne_self_eq_false] using h2
  exact eq_of_beq h3

theorem protoDesc_of_check (σ : FnM.St)
    (h : ((List.range σ.heap.length).all fun a => match σ.heap[a]? with
      | some o => (match o.proto with | some q => decide (q < a) | none => true)
      | none => true) = true) : ProtoDesc σ := by
  intro a o q ho hq
  have ha : a < σ.heap.length := (List.getElem?_eq_some_iff.1 ho).1
  have := List.all_eq_true.1 h a (List.mem_range.2 ha)
  have ho' : σ.heap[a]? = some o := ho
  simp only [ho', hq, decide_eq_true_eq] at this
  exact this

theorem stash_checks (σ : FnM.St)
    (h : ((List.range σ.stashes.length).all fun j =>
      (FnM.dclProps σ j).all (fun kp => kp.2.mutable_ || kp.2.readable) &&
        decide (((FnM.dclProps σ j).map (·.1)).Nodup)) = true) : StashReadable σ ∧ StashNodup σ := by
  have key : ∀ j, ((FnM.dclProps σ j).all (fun kp => kp.2.mutable_ || kp.2.readable) = true) ∧
      ((FnM.dclProps σ j).map (·.1)).Nodup := by
    intro j
    by_cases hj : j < σ.stashes.length
    · have := List.all_eq_true.1 h j (List.mem_range.2 hj)
      simpa using this
    · have : FnM.dclProps σ j = [] := by
        have : σ.stash? j = none := by simp [FnM.St.stash?]; omega
        simp [FnM.dclProps, this]
      simp [this]
  refine ⟨?_, fun j => (key j).2⟩
  intro j x p hl
  have := List.all_eq_true.1 (key j).1 (x, p) (lookupA_mem x _ p hl)
  simpa using this

/-- the initial heap, a `with` object {x: 1, f: <Function.prototype.call>} at address 11, its object stash 1 over
    the global stash, and a function stash 2 inside it with a mutable `y` and an immutable, readable `me` -/
def σ1 : FnM.St :=
  { FnM.initSt with
    heap := FnM.initSt.heap ++ [ { cls := "Object", proto := some FnM.objProto,
                                   props := [("x", FnM.p111 (.num 1)), ("f", FnM.p111 (.ref 3))] } ],
    stashes := [ .obj none FnM.gObj, .obj (some 0) 11,
                 .fn (some 1) [("y", ⟨.num 2, true, false, false⟩), ("me", ⟨.ref 3, false, false, true⟩)] none ] }

example : Visible σ1 "x" := visible_of_check σ1 "x" (by decide)
example : Visible σ1 "y" := visible_of_check σ1 "y" (by decide)
example : WF0 σ1 := rfl
example : NoArgsProto σ1 ∧ ArgsWF σ1 := noArgs_checks σ1 (by decide)
example : ErrWF σ1 := errWF_of_check σ1 (by decide)

/-- resolution from the innermost stash: `y` is found in the function stash, `x` in the `with` object one
    level out, `undefinedName` nowhere -/
example : FnM.getIdentifierReference 4 (some 2) "y" σ1 = .ok (.stash 2 "y") σ1 := by
  rw [resolve_refines σ1 "y" (visible_of_check σ1 "y" (by decide)) rfl]; rfl
example : FnM.getIdentifierReference 4 (some 2) "x" σ1 = .ok (.prop (some 11) "x") σ1 := by
  rw [resolve_refines σ1 "x" (visible_of_check σ1 "x" (by decide)) rfl]; rfl
example : FnM.getIdentifierReference 4 (some 2) "nowhere" σ1 = .ok (.prop none "nowhere") σ1 := by
  rw [resolve_refines σ1 "nowhere" (visible_of_check σ1 "nowhere" (by decide)) rfl]; rfl
example : Fn.envResolve (absSt σ1) 4 2 "x" = some 1 := by decide

example : WritableWF σ1 := writableWF_of_check σ1 (by decide)
example : ProtoDesc σ1 := protoDesc_of_check σ1 (by decide)
example : StashReadable σ1 ∧ StashNodup σ1 := stash_checks σ1 (by decide)

/-- reading and writing through the references: `x` lives on the `with` object, `y` in the function stash,
    `me` is immutable there, `z` is unresolvable and becomes a global -/
example : absR (FnM.refGetValue (FnM.newReference σ1 1 "x") σ1) = .ok (.num 1) (absSt σ1) := by
  rw [getValue_refines σ1 "x" (visible_of_check σ1 "x" (by decide)) rfl (noArgs_checks σ1 (by decide)).1
    (noArgs_checks σ1 (by decide)).2 (errWF_of_check σ1 (by decide)) (stash_checks σ1 (by decide)).1 1]
  rfl
example : Fn.putIdent (absSt σ1) (some 2) "me" (.num 9) = .ok () (absSt σ1) := by rfl
example : absR (FnM.rtPutValue (.stash 2 "me") (.num 9) σ1) = .ok () (absSt σ1) := by
  rw [putValue_dcl_refines σ1 2 "me" (.num 9) ⟨.ref 3, false, false, true⟩ (by decide) (stash_checks σ1 (by decide)).2 rfl]
  rfl

end OttoVerif.C01.FnThm
