/-
  C01/FnTheorems — THE LEDGER of the function layer's refinement: otto's environment / reference / object
  machinery (FnModel, the transcription) computes what ES5's does (FnSpec) on the abstraction
  `FnRefine.absSt` (object a ↦ object a, stash i ↦ environment record i; otto's extra properties
  `name` / `caller` / a bound function's `arguments`, `prototype` are not part of it).  Every statement
  is for ALL states satisfying the listed well-formedness conditions, all names and all values; each
  condition is shown satisfiable on a concrete state (`σ1`), where the theorem is then instantiated.

  WHAT IS NOT HERE YET (the open part of Stage 2): delete, the arguments-object parameter map under put /
  delete, function entry on the real data structures, and the simulation of the evaluators (`fn_refines`).
-/
import OttoVerif.C01.FnRefine
import OttoVerif.C01.FnRefineLW
namespace OttoVerif.C01.FnThm
open OttoVerif.C01 OttoVerif.C01.FnRefine

/-! ## the theorems -/

/-- **identifier resolution** (§10.2.2.1): on every stash chain, for every name that otto's extra
    properties do not use, `getIdentifierReference` returns the reference of exactly the environment
    record GetIdentifierReference finds — declarative, object (`with`) and global records; an
    unresolvable reference where ES5 has none. -/
theorem resolve_refines (σ : FnM.St) (x : String) (hv : Visible σ x) (h0 : WF0 σ) (n i : Nat) :
    FnM.getIdentifierReference n (some i) x σ = .ok (refOf σ x (Fn.envResolve (absSt σ) n i x)) σ :=
  resolve_spec σ x hv h0 n i

/-- **[[HasProperty]]** (§8.12.6) along any prototype chain with any fuel -/
theorem hasProperty_refines (σ : FnM.St) (x : String) (hv : Visible σ x) (n a : Nat) :
    (getPropertyP σ n a x).isSome = Fn.hasProp (absSt σ) n a x :=
  hasProperty_spec σ x hv n a

/-- **[[Get]]** (§8.12.3, §10.6 [[Get]] of an arguments object through its parameter map, the `name` of an
    Error object) -/
theorem get_refines (σ : FnM.St) (a : Nat) (x : String) (hv : Visible σ x) (hnp : NoArgsProto σ) (haw : ArgsWF σ)
    (hew : ErrWF σ) : absR (FnM.objGet a x σ) = Fn.getProp (absSt σ) (.ref a) x := by
  rw [objGet_run]; exact (getProp_spec σ a x hv hnp haw hew).symm

/-- **GetValue on an identifier reference** (§8.7.1; §10.2.1.1.4, §10.2.1.2.4), for the environment `j` the
    name resolved to -/
theorem getValue_refines (σ : FnM.St) (x : String) (hv : Visible σ x) (h0 : WF0 σ) (hnp : NoArgsProto σ)
    (haw : ArgsWF σ) (hew : ErrWF σ) (hsr : StashReadable σ) (j : Nat) :
    absR (FnM.refGetValue (FnM.newReference σ j x) σ) = Fn.envGet (absSt σ) j x :=
  getValue_ident_spec σ x hv h0 hnp haw hew hsr j

/-- … and for an unresolvable reference: a ReferenceError on both sides -/
theorem getValue_unresolvable_refines (σ : FnM.St) (x : String) :
    absR (FnM.refGetValue (.prop none x) σ) = (Fn.throwErr (absSt σ) "ReferenceError" : Fn.Res Fn.V) :=
  getValue_unresolvable_spec σ x

/-- **[[Put]]** (§8.12.5 with [[CanPut]] §8.12.4: own and inherited read-only properties refuse silently)
    on any object that is not an arguments object; the new state abstracts to ES5's new state -/
theorem put_refines (σ : FnM.St) (a : Nat) (x : String) (v : Fn.V) (hv : Visible σ x) (hw : WritableWF σ)
    (hd : ProtoDesc σ) (hna : ∀ o, σ.obj? a = some o → ∀ ipn st, o.val ≠ .arguments ipn st) :
    absR (FnM.objPut a x v false σ) = Fn.putProp (absSt σ) (.ref a) x v :=
  putProp_spec σ a x v hv hw hd hna

/-- **PutValue, declarative record** (§10.2.1.1.3): mutable bindings are updated, the immutable binding of a
    named function expression is left alone -/
theorem putValue_dcl_refines (σ : FnM.St) (j : Nat) (x : String) (v : Fn.V) (p : FnM.DclProp) (hj : j ≠ 0)
    (hn : StashNodup σ) (hl : Fn.lookupA x (FnM.dclProps σ j) = some p) :
    absR (FnM.rtPutValue (.stash j x) v σ) = Fn.putIdent (absSt σ) (some j) x v :=
  putValue_dcl_spec σ j x v p hj hn hl

/-- **PutValue, object record** (§10.2.1.2.3: a `with` object or the global object) -/
theorem putValue_obj_refines (σ : FnM.St) (j : Nat) (outer : Option Nat) (o : Nat) (x : String) (v : Fn.V)
    (hs : σ.stash? j = some (.obj outer o)) (h0 : WF0 σ) (hv : Visible σ x) (hw : WritableWF σ) (hd : ProtoDesc σ)
    (hna : ∀ ob, σ.obj? o = some ob → ∀ ipn st, ob.val ≠ .arguments ipn st) :
    absR (FnM.rtPutValue (FnM.newReference σ j x) v σ) = Fn.putIdent (absSt σ) (some j) x v :=
  putValue_obj_spec σ j outer o x v hs h0 hv hw hd hna

/-- **PutValue, unresolvable reference** (§8.7.2 step 3.b): [[Put]] on the global object (no assumption that
    the name is still absent there when the value arrives) -/
theorem putValue_unresolvable_refines (σ : FnM.St) (x : String) (v : Fn.V) (hx : x ≠ "") (hv : Visible σ x)
    (hw : WritableWF σ) (hd : ProtoDesc σ) (g : FnM.Obj) (hg : σ.obj? FnM.gObj = some g)
    (hna : ∀ ipn st, g.val ≠ .arguments ipn st) :
    absR (FnM.rtPutValue (.prop none x) v σ) = Fn.putIdent (absSt σ) none x v :=
  putValue_unresolvable_spec σ x v hx hv hw hd g hg hna

/-- **[[Put]] on a mapped index of an arguments object** (§10.6): the own property and the joined parameter
    are both written, in the stash the map points to -/
theorem put_mapped_refines (σ : FnM.St) (a : Nat) (x : String) (v : Fn.V) (o : FnM.Obj) (ipn : List String) (st i : Nat)
    (pn : String) (p0 : FnM.Pty) (p : FnM.DclProp)
    (ho : σ.obj? a = some o) (hval : o.val = .arguments ipn st) (hidx : Fn.idx? x = some i)
    (hpn : ipn[i]? = some pn) (hne : pn ≠ "") (hst : st ≠ 0)
    (hbind : Fn.lookupA pn (FnM.dclProps σ st) = some p) (hmut : p.mutable_ = true) (hn : StashNodup σ)
    (hown : Fn.lookupA x o.props = some p0) (hw : p0.w = true) :
    absR (FnM.objPut a x v false σ) = Fn.putProp (absSt σ) (.ref a) x v :=
  putProp_mapped_spec σ a x v o ipn st i pn p0 p ho hval hidx hpn hne hst hbind hmut hn hown hw

/-- **[[Delete]]** (§8.12.7; §10.6: deleting an index of an arguments object un-maps it) on any object that is
    not a String wrapper: non-configurable properties stay and the result is false -/
theorem delete_refines (σ : FnM.St) (a : Nat) (x : String) (hv : Visible σ x) (hn : PropsNodup σ)
    (hc : ∀ o p, σ.obj? a = some o → Fn.lookupA x o.props = some p → p.c = !Fn.fixedProp (absKind o.val) x)
    (hmo : ∀ o, σ.obj? a = some o → isMapped o.val x = true → (Fn.lookupA x o.props).isSome = true) :
    absR (boolR (FnM.objDelete a x false σ)) = Fn.delProp (absSt σ) (.ref a) x :=
  delete_spec σ a x hv hn hc hmo

/-- **the parameter map of the arguments object** (§10.6 step 11) on the real data, for every parameter list
    (duplicates, fewer / more arguments than parameters) -/
theorem arguments_map_refines (params : List String) (nargs : Nat) (hne : "" ∉ params) :
    (FnM.indexOfParameterNames params nargs).map optName = specArgMap params nargs :=
  arguments_map_real params nargs hne

/-- **declaration binding instantiation** (§10.5) on the real data structures: entering a function, otto's fresh
    function stash (cmplCallNodeFunction before the body) and FnSpec's fresh declarative record (`Fn.instantiate`)
    bind every identifier to the SAME slot (which argument / which function declaration / the arguments object /
    undefined) — parameters with duplicates, a parameter, function or variable named `arguments`, functions over
    variables and parameters.  The values differ only by where the two sides allocate the closures and the
    arguments object (`interp`).  (Lifts CallThm.binding_instantiation.) -/
theorem binding_instantiation_real (n function st i : Nat) (c : Fn.Ctx) (fv : Fn.V) (ps vs : List String) (ds : Fn.FDecls)
    (args : List Fn.V) (σ : FnM.St) (σs : Fn.St) (outer : Option Nat) (sc : FnM.Scope) (rest : List FnM.Scope) (env0 : Fn.Env)
    (hsc : σ.scopes = sc :: rest) (hlex : sc.lexical = st) (hvar : sc.variable_ = st) (hev : sc.eval = false)
    (hst0 : st ≠ 0) (hs : σ.stash? st = some (.fn outer [] none)) (hn : (declNames ds).length < n) (hlen : args.length < 4294967295)
    (hi : i ≠ 0) (he : σs.envs[i]? = some env0) (hv0 : env0.vars = []) :
    ∃ σ' ps' ar' σs' vars',
      FnM.instantiateNode n function st ps vs ds args σ = .ok () σ' ∧ σ'.stash? st = some (.fn outer ps' ar') ∧
      Fn.instantiate n i c ps args fv ds vs σs = .ok () σs' ∧ σs'.envs[i]? = some { env0 with vars := vars' } ∧
      ∀ x, ∃ slot : Option Call.Slot,
        (Fn.lookupA x ps').map (·.value) =
          slot.map (interp args (fun j => σ.heap.length + (if ps.contains "arguments" then 0 else 1) + 2 * j) (.ref σ.heap.length)) ∧
        Fn.lookupA x vars' =
          slot.map (interp args (fun j => σs.heap.length + 2 * j) (.ref (σs.heap.length + 2 * (declNames ds).length))) := by
  obtain ⟨σ', ps', ar', hrun, hst, hrel⟩ := instantiateNode_real n function st ps vs ds args σ outer sc rest hsc hlex hvar hev hst0 hs hn hlen
  obtain ⟨σs', vars', hruns, henv, hrels⟩ := instantiate_spec n i c ps args fv ds vs σs env0 hi hn he hv0
  refine ⟨σ', ps', ar', σs', vars', hrun, hst, hruns, henv, ?_⟩
  intro x
  refine ⟨Call.lookup x (Call.specInst ps args.length (declNames ds) vs), ?_, ?_⟩
  · rw [rel_lookup _ x _ ps' hrel, CallThm.binding_instantiation]
  · rw [hrels, relS_lookup]

/-- **`this` of a call through an identifier** (§11.2.3 step 6.b, ImplicitThisValue): the `with` object when the
    callee was found in its environment, the global object otherwise -/
theorem this_refines (σ : FnM.St) (x : String) (h0 : WF0 σ) (res : Option Nat) :
    effThis (modelThis (refOf σ x res)) = effThis (match res with | some j => Fn.implicitThis (absSt σ) j | none => .undef) :=
  this_spec σ x h0 res

/-- **[[HasInstance]]** (§15.3.5.3 step 4): the walk along the prototype chain of the left operand -/
theorem hasInstance_walk_refines (σ : FnM.St) (p n x : Nat) :
    FnM.protoWalk σ n ((σ.obj? x).bind (·.proto)) p = Fn.hasInstance.walk p (absSt σ) n x :=
  protoWalk_spec σ p n x

/-- **expr_refines_partial** — the evaluator simulation for the read-only identifier fragment (see FnRefine;
    literals, this, identifiers, + - < === !, typeof, (0, e), log(e), ?:):
    same value or same error, the host log extended by the same tokens, nothing else changed, unless otto runs
    out of fuel.  The full `fn_refines` (all expressions and statements, states related by an address-renaming
    relation, induction on fuel) is open. -/
theorem expr_refines_partial (sc : FnM.Scope) (rest : List FnM.Scope) (xs : List String) (n : Nat) (e : Fn.FE)
    (hro : ro e = true) (hid : ∀ x ∈ idents e, x ∈ xs) (σ : FnM.St) (hI : ROInv σ xs) (hsc : σ.scopes = sc :: rest) :
    ROSim n e sc σ :=
  FnRefine.expr_refines_partial sc rest xs n e hro hid σ hI hsc

/-- **expr_refines_assign** — the evaluator simulation for the read-only fragment plus assignments `x = e` to local
    bindings and to existing properties of object records – global variables, properties of `with` objects – (see
    FnRefineLW): same value or same error, and the two final states correspond again (`absSt`) and have the SHAPE of the
    initial state (same scopes; same objects up to the values of their properties, `name` excepted; same stashes up to
    the values bound in declarative stashes),
    from which `LWInv` follows again (`LWInv.shape`) – unless otto runs out of fuel.  The reference of the left-hand
    side is made before the right-hand side runs on both sides; it stays valid because the right-hand side cannot
    change the shape.  Open: assignments that CREATE a property (an undeclared global, a deleted binding), property access, allocation
    (needs the address-renaming relation), calls, statements. -/
theorem expr_refines_assign (sc : FnM.Scope) (rest : List FnM.Scope) (xs ys : List String) (n : Nat) (e : Fn.FE)
    (hlw : lw e = true) (hrd : ∀ x ∈ reads e, x ∈ xs) (hwr : ∀ y ∈ writes e, y ∈ ys) (σ : FnM.St)
    (hI : LWInv σ sc rest xs ys) : LWSim n e sc σ :=
  FnRefine.expr_refines_assign sc rest xs ys n e hlw hrd hwr σ hI

/-- the invariant is re-established by every step of the simulation -/
theorem lwInv_preserved (σ σ' : FnM.St) (sc : FnM.Scope) (rest : List FnM.Scope) (xs ys : List String)
    (hI : LWInv σ sc rest xs ys) (h : Shape σ σ') : LWInv σ' sc rest xs ys := hI.shape h

/-! ## the conditions are satisfiable: decidable checkers, and a concrete state -/

def isArgs : FnM.OVal → Bool | .arguments .. => true | _ => false
def isStr : FnM.OVal → Bool | .string _ => true | _ => false
def isErr : FnM.OVal → Bool | .error _ => true | _ => false

theorem obj_mem (σ : FnM.St) (a : Nat) (o : FnM.Obj) (h : σ.obj? a = some o) : o ∈ σ.heap := by
  simp only [FnM.St.obj?] at h
  exact List.mem_of_getElem? h

theorem visible_of_check (σ : FnM.St) (x : String)
    (h : (σ.heap.all fun o => !hidden o.val x && !isStr o.val && (Fn.lookupA x o.accs).isNone) = true) : Visible σ x := by
  intro a o ho
  have := List.all_eq_true.1 h o (obj_mem σ a o ho)
  simp only [Bool.and_eq_true, Bool.not_eq_eq_eq_not, Bool.not_true, Option.isNone_iff_eq_none] at this
  refine ⟨this.1.1, ?_, this.2⟩
  intro s hs
  rw [hs] at this
  simp [isStr] at this

theorem noArgs_checks (σ : FnM.St) (h : (σ.heap.all fun o => !isArgs o.val) = true) : NoArgsProto σ ∧ ArgsWF σ := by
  have key : ∀ a o, σ.obj? a = some o → ∀ ipn st, o.val ≠ .arguments ipn st := by
    intro a o ho ipn st hv
    have := List.all_eq_true.1 h o (obj_mem σ a o ho)
    rw [hv] at this
    simp [isArgs] at this
  exact ⟨fun a o q oq _ _ hoq => key q oq hoq, fun a o ipn st ho hv => absurd hv (key a o ho ipn st)⟩

theorem errWF_of_check (σ : FnM.St)
    (h : ((List.range σ.heap.length).all fun a => match σ.obj? a with
      | some o => (match o.val with | .error n => decide (getP σ a "name" = .str n) | _ => true)
      | none => true) = true) : ErrWF σ := by
  intro a o n ho hv
  have ha : a < σ.heap.length := by
    simp only [FnM.St.obj?] at ho
    exact (List.getElem?_eq_some_iff.1 ho).1
  have := List.all_eq_true.1 h a (List.mem_range.2 ha)
  rw [ho] at this
  simp only [hv, decide_eq_true_eq] at this
  exact this

theorem writableWF_of_check (σ : FnM.St)
    (h : (σ.heap.all fun o => o.props.all fun kp =>
      hidden o.val kp.1 || (Fn.lookupA kp.1 o.props != some kp.2) ||
        (kp.2.w == !(kp.1 == "length" && Fn.isFnKind (absKind o.val)))) = true) : WritableWF σ := by
  intro a o k p ho hl hh
  have h1 := List.all_eq_true.1 h o (obj_mem σ a o ho)
  have h2 := List.all_eq_true.1 h1 (k, p) (lookupA_mem k o.props p hl)
  have h3 : (p.w == !(k == "length" && Fn.isFnKind (absKind o.val))) = true := by
    simpa only [hh, Bool.false_or, hl, bne_self_eq_false] using h2
  exact eq_of_beq h3

theorem protoDesc_of_check (σ : FnM.St)
    (h : ((List.range σ.heap.length).all fun a => match σ.heap[a]? with
      | some o => (match o.proto with | some q => decide (q < a) | none => true)
      | none => true) = true) : ProtoDesc σ := by
  intro a o q ho hq
  have ha : a < σ.heap.length := (List.getElem?_eq_some_iff.1 ho).1
  have := List.all_eq_true.1 h a (List.mem_range.2 ha)
  have ho' : σ.heap[a]? = some o := ho
  simp only [ho', hq, decide_eq_true_eq] at this
  exact this

theorem stash_checks (σ : FnM.St)
    (h : ((List.range σ.stashes.length).all fun j =>
      (FnM.dclProps σ j).all (fun kp => kp.2.mutable_ || kp.2.readable) &&
        decide (((FnM.dclProps σ j).map (·.1)).Nodup)) = true) : StashReadable σ ∧ StashNodup σ := by
  have key : ∀ j, ((FnM.dclProps σ j).all (fun kp => kp.2.mutable_ || kp.2.readable) = true) ∧
      ((FnM.dclProps σ j).map (·.1)).Nodup := by
    intro j
    by_cases hj : j < σ.stashes.length
    · have := List.all_eq_true.1 h j (List.mem_range.2 hj)
      simpa using this
    · have : FnM.dclProps σ j = [] := by
        have : σ.stash? j = none := by simp [FnM.St.stash?]; omega
        simp [FnM.dclProps, this]
      simp [this]
  refine ⟨?_, fun j => (key j).2⟩
  intro j x p hl
  have := List.all_eq_true.1 (key j).1 (x, p) (lookupA_mem x _ p hl)
  simpa using this

/-- the initial heap, a `with` object {x: 1, f: <Function.prototype.call>} at address 11, its object stash 1 over
    the global stash, and a function stash 2 inside it with a mutable `y` and an immutable, readable `me` -/
def σ1 : FnM.St :=
  { FnM.initSt with
    heap := FnM.initSt.heap ++ [ { cls := "Object", proto := some FnM.objProto,
                                   props := [("x", FnM.p111 (.num 1)), ("f", FnM.p111 (.ref 3))] } ],
    stashes := [ .obj none FnM.gObj, .obj (some 0) 11,
                 .fn (some 1) [("y", ⟨.num 2, true, false, false⟩), ("me", ⟨.ref 3, false, false, true⟩)] none ] }

example : Visible σ1 "x" := visible_of_check σ1 "x" (by decide)
example : Visible σ1 "y" := visible_of_check σ1 "y" (by decide)
example : WF0 σ1 := rfl
example : NoArgsProto σ1 ∧ ArgsWF σ1 := noArgs_checks σ1 (by decide)
example : ErrWF σ1 := errWF_of_check σ1 (by decide)

/-- resolution from the innermost stash: `y` is found in the function stash, `x` in the `with` object one
    level out, `undefinedName` nowhere -/
example : FnM.getIdentifierReference 4 (some 2) "y" σ1 = .ok (.stash 2 "y") σ1 := by
  rw [resolve_refines σ1 "y" (visible_of_check σ1 "y" (by decide)) rfl]; rfl
example : FnM.getIdentifierReference 4 (some 2) "x" σ1 = .ok (.prop (some 11) "x") σ1 := by
  rw [resolve_refines σ1 "x" (visible_of_check σ1 "x" (by decide)) rfl]; rfl
example : FnM.getIdentifierReference 4 (some 2) "nowhere" σ1 = .ok (.prop none "nowhere") σ1 := by
  rw [resolve_refines σ1 "nowhere" (visible_of_check σ1 "nowhere" (by decide)) rfl]; rfl
example : Fn.envResolve (absSt σ1) 4 2 "x" = some 1 := by decide

example : WritableWF σ1 := writableWF_of_check σ1 (by decide)
example : ProtoDesc σ1 := protoDesc_of_check σ1 (by decide)
example : StashReadable σ1 ∧ StashNodup σ1 := stash_checks σ1 (by decide)

/-- reading and writing through the references: `x` lives on the `with` object, `y` in the function stash,
    `me` is immutable there, `z` is unresolvable and becomes a global -/
example : absR (FnM.refGetValue (FnM.newReference σ1 1 "x") σ1) = .ok (.num 1) (absSt σ1) := by
  rw [getValue_refines σ1 "x" (visible_of_check σ1 "x" (by decide)) rfl (noArgs_checks σ1 (by decide)).1
    (noArgs_checks σ1 (by decide)).2 (errWF_of_check σ1 (by decide)) (stash_checks σ1 (by decide)).1 1]
  rfl
example : Fn.putIdent (absSt σ1) (some 2) "me" (.num 9) = .ok () (absSt σ1) := by rfl
example : absR (FnM.rtPutValue (.stash 2 "me") (.num 9) σ1) = .ok () (absSt σ1) := by
  rw [putValue_dcl_refines σ1 2 "me" (.num 9) ⟨.ref 3, false, false, true⟩ (by decide) (stash_checks σ1 (by decide)).2 rfl]
  rfl

theorem propsNodup_of_check (σ : FnM.St)
    (h : (σ.heap.all fun o => decide ((o.props.map (·.1)).Nodup)) = true) : PropsNodup σ := by
  intro a o ho
  have := List.all_eq_true.1 h o (obj_mem σ a o ho)
  simpa using this

/-- σ1 plus an arguments object (address 12) of a call f(5, 6) of function f(a, a): index 1 is joined to `a` in
    function stash 3, index 0 is not (a later parameter has the name) -/
def σ2 : FnM.St :=
  { σ1 with
    heap := σ1.heap ++ [ { cls := "Arguments", proto := some FnM.objProto, val := .arguments ["", "a"] 3,
                           props := [("0", FnM.p111 (.num 5)), ("1", FnM.p111 .undef), ("length", FnM.p101 (.num 2)),
                                     ("callee", FnM.p101 (.ref 3))] } ],
    stashes := σ1.stashes ++ [ .fn (some 0) [("a", ⟨.num 6, true, false, false⟩), ("arguments", ⟨.ref 12, true, false, false⟩)] (some 12) ] }

example : PropsNodup σ2 := propsNodup_of_check σ2 (by decide)
example : StashReadable σ2 ∧ StashNodup σ2 := stash_checks σ2 (by decide)

/-- arguments[1] = 9 writes the parameter `a`; reading `a` afterwards gives 9 on both sides -/
example : absR (FnM.objPut 12 "1" (.num 9) false σ2) = Fn.putProp (absSt σ2) (.ref 12) "1" (.num 9) :=
  put_mapped_refines σ2 12 "1" (.num 9) _ ["", "a"] 3 1 "a" (FnM.p111 .undef) ⟨.num 6, true, false, false⟩
    rfl rfl (by decide) rfl (by decide) (by decide) rfl rfl (stash_checks σ2 (by decide)).2 rfl rfl
example : (match FnM.objPut 12 "1" (.num 9) false σ2 with
    | .ok _ σ' => FnM.dclProps σ' 3 |>.map (fun kp => (kp.1, kp.2.value))
    | _ => []) = [("a", .num 9), ("arguments", .ref 12)] := by decide

/-- delete arguments[1] un-maps it; delete f.length is refused -/
example : absR (boolR (FnM.objDelete 12 "1" false σ2)) = Fn.delProp (absSt σ2) (.ref 12) "1" :=
  delete_refines σ2 12 "1" (visible_of_check σ2 "1" (by decide)) (propsNodup_of_check σ2 (by decide))
    (by intro o p ho hl; simp only [σ2, σ1, FnM.St.obj?] at ho; cases ho; simp [Fn.lookupA] at hl; subst hl; rfl)
    (by intro o ho _; simp only [σ2, σ1, FnM.St.obj?] at ho; cases ho; rfl)
example : (match Fn.delProp (absSt σ2) (.ref 12) "1" with
    | .ok v s => (v, (s.obj? 12).map (·.kind) |>.map fun k => match k with | .args m _ => m | _ => [])
    | _ => (.undef, none)) = (.bool true, some [none, none]) := by decide

/-- entering `function f(a, a) { function g(){} var v, a }` called as f(7): a state as enterFunctionScope leaves
    it (fresh function stash 1 inside the global stash, one scope) -/
def σe : FnM.St :=
  { FnM.initSt with stashes := [ .obj none FnM.gObj, .fn (some 0) [] none ],
                    scopes := [ { lexical := 1, variable_ := 1, this := FnM.gObj } ] }

def dsE : Fn.FDecls := .cons "g" (.func (some "g") [] [] .nil .nil) .nil

example : (match FnM.instantiateNode 5 3 1 ["a", "a"] ["v", "a"] dsE [.num 7] σe with
    | .ok _ σ' => (FnM.dclProps σ' 1).map fun kp => (kp.1, kp.2.value)
    | _ => []) = [("a", .undef), ("arguments", .ref 11), ("g", .ref 12), ("v", .undef)] := by decide

example : (match Fn.instantiate 5 1 { env := 1, venv := 1, this := .ref Fn.gObj } ["a", "a"] [.num 7] (.ref 3) dsE ["v", "a"]
      { Fn.initSt with envs := Fn.initSt.envs ++ [{ vars := [], outer := some 0 }] } with
    | .ok _ s => (s.envs[1]?.map (·.vars)).getD []
    | _ => []) = [("a", .undef), ("g", .ref 11), ("arguments", .ref 13), ("v", .undef)] := by decide

/-- a call `f()` inside `with (σ1's object 11)`: this = that object; for a callee in the function stash: the global object -/
example : modelThis (refOf σ1 "f" (Fn.envResolve (absSt σ1) 4 2 "f")) = .ref 11 := by decide
example : effThis (modelThis (refOf σ1 "y" (Fn.envResolve (absSt σ1) 4 2 "y"))) = .ref Fn.gObj := by decide
example : FnM.protoWalk σ1 5 ((σ1.obj? 11).bind (·.proto)) FnM.objProto = true := by decide

theorem clsWF_of_check (σ : FnM.St)
    (h : (σ.heap.all fun o =>
      ((o.cls == "Function") == Fn.isFnKind (absKind o.val)) &&
      ((o.cls == "Error") == isErr o.val) && ((o.cls == "Arguments") == isArgs o.val)) = true) : ClsWF σ := by
  intro a o ho
  have := List.all_eq_true.1 h o (obj_mem σ a o ho)
  simp only [Bool.and_eq_true, beq_iff_eq] at this
  refine ⟨this.1.1, ?_, ?_⟩
  · rw [this.1.2]; cases o.val <;> rfl
  · rw [this.2]; cases o.val <;> rfl

/-- σ1 inside the function whose stash is 2 (within `with (object 11)`): log(x + y) reads x from the with object
    and y from the function stash -/
def σ1s : FnM.St := { σ1 with scopes := [ { lexical := 2, variable_ := 2, this := FnM.gObj } ] }

theorem roInv_σ1s : ROInv σ1s ["x", "y", "nowhere"] :=
  ⟨fun x hx => by
      simp only [List.mem_cons, List.mem_nil_iff, or_false] at hx
      rcases hx with rfl | rfl | rfl <;> exact visible_of_check σ1s _ (by decide),
   rfl, (noArgs_checks σ1s (by decide)).1, (noArgs_checks σ1s (by decide)).2, errWF_of_check σ1s (by decide),
   (stash_checks σ1s (by decide)).1, clsWF_of_check σ1s (by decide)⟩

example : ROSim 6 (.log (.add (.var "x") (.var "y"))) { lexical := 2, variable_ := 2, this := FnM.gObj } σ1s :=
  expr_refines_partial _ [] _ 6 _ rfl (by decide) σ1s roInv_σ1s rfl
example : (match evalV 6 (.log (.add (.var "x") (.var "y"))) σ1s with | .ok v s => (v, s.trace) | _ => (.undef, [])) = (.num 3, ["n3"]) := by decide
example : (match Fn.evalE 6 (.log (.add (.var "x") (.var "y"))) (ctxOf { lexical := 2, variable_ := 2, this := FnM.gObj }) (absSt σ1s) with
    | .ok v s => (v, s.trace) | _ => (.undef, [])) = (.num 3, ["n3"]) := by rfl
example : (match evalV 6 (.typeof (.var "nowhere")) σ1s with | .ok v _ => v | _ => .undef) = .str "undefined" := by decide
/-- the conditional operator (§11.12): the branch not taken is not evaluated (no ReferenceError for `nowhere`) -/
example : ROSim 7 (.cond (.lt (.var "x") (.var "y")) (.log (.var "y")) (.var "nowhere")) { lexical := 2, variable_ := 2, this := FnM.gObj } σ1s :=
  expr_refines_partial _ [] _ 7 _ rfl (by decide) σ1s roInv_σ1s rfl
example : (match evalV 7 (.cond (.lt (.var "x") (.var "y")) (.log (.var "y")) (.var "nowhere")) σ1s with
    | .ok v s => (v, s.trace) | _ => (.undef, [])) = (.num 2, ["n2"]) := by decide

/-- `y` and `me` are bindings of the function stash 2, `x` is a property of the `with` object around it -/
theorem lwInv_σ1s : LWInv σ1s { lexical := 2, variable_ := 2, this := FnM.gObj } [] ["x", "y", "nowhere", "me"] ["y", "me", "x"] :=
  ⟨⟨fun x hx => by
      simp only [List.mem_cons, List.mem_nil_iff, or_false] at hx
      rcases hx with rfl | rfl | rfl | rfl <;> exact visible_of_check σ1s _ (by decide),
    rfl, (noArgs_checks σ1s (by decide)).1, (noArgs_checks σ1s (by decide)).2, errWF_of_check σ1s (by decide),
    (stash_checks σ1s (by decide)).1, clsWF_of_check σ1s (by decide)⟩, rfl, (stash_checks σ1s (by decide)).2,
   writableWF_of_check σ1s (by decide), protoDesc_of_check σ1s (by decide), fun y hy => by
    simp only [List.mem_cons, List.mem_nil_iff, or_false] at hy
    rcases hy with rfl | rfl | rfl
    · exact ⟨by decide, 2, by decide, Or.inl ⟨by decide, _, rfl⟩⟩
    · exact ⟨by decide, 2, by decide, Or.inl ⟨by decide, _, rfl⟩⟩
    · -- `x` is an own property of the `with` object 11 (object stash 1)
      exact ⟨by decide, 1, by decide, Or.inr ⟨some 0, 11, _, _, rfl, rfl, rfl, (by intro _ _ h; cases h), (by intro _ h; cases h)⟩⟩⟩

/-- `log(y = y + x) < (y = y + y)`: two assignments to the local `y`, the second sees the first -/
example : LWSim 8 (.lt (.log (.assign "y" (.add (.var "y") (.var "x")))) (.assign "y" (.add (.var "y") (.var "y"))))
    { lexical := 2, variable_ := 2, this := FnM.gObj } σ1s :=
  expr_refines_assign _ [] _ _ 8 _ rfl (by decide) (by decide) σ1s lwInv_σ1s
example : (match evalV 8 (.lt (.log (.assign "y" (.add (.var "y") (.var "x")))) (.assign "y" (.add (.var "y") (.var "y")))) σ1s with
    | .ok v s => (v, s.trace, (FnM.dclProps s 2).map fun kp => (kp.1, kp.2.value)) | _ => (.undef, [], [])) =
    (.bool true, ["n3"], [("y", .num 6), ("me", .ref 3)]) := by decide
/-- `me = 5` on the immutable binding of a named function expression: the value is 5, the binding keeps the function -/
example : (match evalV 8 (.add (.assign "me" (.lit (.num 5))) (.typeof (.var "me"))) σ1s with
    | .ok v s => (v, (FnM.dclProps s 2).map fun kp => (kp.1, kp.2.value)) | _ => (.undef, [])) =
    (.str "5function", [("y", .num 2), ("me", .ref 3)]) := by decide
example : LWSim 8 (.add (.assign "me" (.lit (.num 5))) (.typeof (.var "me"))) { lexical := 2, variable_ := 2, this := FnM.gObj } σ1s :=
  expr_refines_assign _ [] _ _ 8 _ rfl (by decide) (by decide) σ1s lwInv_σ1s

/-- `x = x + y` reaches the `with` object (object record): its property is updated, on both sides -/
example : LWSim 8 (.log (.assign "x" (.add (.var "x") (.var "y")))) { lexical := 2, variable_ := 2, this := FnM.gObj } σ1s :=
  expr_refines_assign _ [] _ _ 8 _ rfl (by decide) (by decide) σ1s lwInv_σ1s
example : (match evalV 8 (.log (.assign "x" (.add (.var "x") (.var "y")))) σ1s with
    | .ok v s => (v, s.trace, ((s.obj? 11).map fun o => o.props.map fun kp => (kp.1, kp.2.value)).getD []) | _ => (.undef, [], [])) =
    (.num 3, ["n3"], [("x", .num 3), ("f", .ref 3)]) := by decide

end OttoVerif.C01.FnThm
