/-
  C01/FnModel — a TRANSCRIPTION of otto's own machinery for the µJS-with-functions language of
  FnSyntax: objects as property maps with insertion order, stashes (dclStash / fnStash / objectStash),
  scopes, references, the call/construct/bind paths, the arguments object with its parameter map, the
  statement evaluator with `rt.labels`, try/catch, with, for-in.  Each definition cites the Go source
  (paths relative to /repo).  It is the MODEL side of the `fn` correspondence stream; FnSpec is the
  SPEC side.  Executable, fuel-recursive, no `partial`.

  Go effects are rendered as follows.
  * mutable_ runtime state = `St` (heap, stashes, `rt.scope` as a stack, `rt.labels`, the host log);
  * `panic(exception)` / `panic(ottoError)` = `R.throw`; an ottoError becomes an Error OBJECT only where
    otto makes it one (tryCatchEvaluate); a `defer` = `deferM` (runs on the normal and the panic path);
  * maps keyed by name = association lists; `object.property` + `object.propertyOrder` = ONE association
    list in insertion order (writeProperty appends a new name / overwrites in place, deleteProperty
    removes: exactly what the pair does).
  What is NOT transcribed (shared with FnSpec instead): the value-level operators (+ - < === ! typeof
  on values, ToString/ToNumber/ToBoolean: C05/C06's subject), accessor properties, `extensible`
  (always true here), frames/positions, and the native functions `log`, `Object.defineProperty`, `eval`
  are entered at their Go bodies (not looked up through the global object); the built-in prototype
  objects carry only the properties the programs can observe.
-/
import OttoVerif.C01.FnSpec
import OttoVerif.C01.CallModel
namespace OttoVerif.C01.FnM
open OttoVerif.C01.Fn

/-! ## Data (object.go, property.go, stash.go, scope.go, type_reference.go, result.go) -/

/-- property.go:17 `property{value, mode}` restricted to data properties; mode 0o100 = w, 0o010 = e, 0o001 = c -/
structure Pty where
  value : V
  w : Bool
  e : Bool
  c : Bool
deriving Repr, DecidableEq

/-- `object.value` (type_function.go nodeFunctionObject / bindFunctionObject / nativeFunctionObject,
    type_arguments.go argumentsObject, type_string.go, type_error.go) -/
inductive OVal where
  | none
  | nodeFn (node : FE) (stash : Nat)
  | bindFn (target : Nat) (this : V) (args : List V)
  | native (name : String)
  | arguments (indexOfParameterName : List String) (stash : Nat)
  | string (s : String)
  | error (name : String)

/-- object.go:3 -/
structure Obj where
  cls : String
  proto : Option Nat
  props : List (String × Pty)
  val : OVal := .none
  accs : List (String × String) := []   -- own accessor properties (propertyGetSet values in otto's property map), name ↦
                                        -- tag of the harness's logging getter/setter pair; mode 0o001 (configurable only)

/-- stash.go:120 dclProperty -/
structure DclProp where
  value : V
  mutable_ : Bool
  deletable : Bool
  readable : Bool

/-- stash.go: objectStash (24), dclStash (113), fnStash (231) -/
inductive Stash where
  | obj (outer : Option Nat) (object : Nat)
  | dcl (outer : Option Nat) (props : List (String × DclProp))
  | fn (outer : Option Nat) (props : List (String × DclProp)) (arguments : Option Nat)

/-- scope.go:4 (frame, depth omitted; `eval` is never set by otto, cmpl_evaluate.go:82 reads it) -/
structure Scope where
  lexical : Nat
  variable_ : Nat
  this : Nat
  eval : Bool := false

structure St where
  heap : List Obj
  stashes : List Stash
  scopes : List Scope        -- rt.scope :: rt.scope.outer :: …
  labels : List String       -- rt.labels
  trace : List String

/-- type_reference.go:12 propertyReference (base nil = unresolvable), :56 stashReference -/
inductive Ref where
  | prop (base : Option Nat) (name : String)
  | stash (base : Nat) (name : String)
  | pprop (base : Nat) (name : String) (primitive : V)   -- type_reference.go:17: base = the wrapper of a primitive base value

/-- a Value that may be a reference (valueReference) -/
inductive MV where
  | val (v : V)
  | ref (r : Ref)

/-- the Value a statement yields: empty, a value, or a `result` (result.go) -/
inductive SV where
  | empty
  | val (v : V)
  | ret (v : V)
  | brk (target : String) (value : Option V)      -- result.go: the value the completion brings along (empty = none)
  | cont (target : String) (value : Option V)

/-- what a Go panic carries: an exception with a Value, or an ottoError not yet made an object -/
inductive Thrown where
  | val (v : V)
  | err (name : String)

inductive R (α : Type) where
  | ok (a : α) (σ : St)
  | throw (t : Thrown) (σ : St)
  | fuel

abbrev M (α : Type) := St → R α

instance : Monad M where
  pure a := fun σ => .ok a σ
  bind m f := fun σ => match m σ with
    | .ok a σ' => f a σ'
    | .throw t σ' => .throw t σ'
    | .fuel => .fuel

def outOfFuel {α : Type} : M α := fun _ => .fuel
def getSt : M St := fun σ => .ok σ σ
def modifySt (f : St → St) : M Unit := fun σ => .ok () (f σ)
/-- panic(rt.panicTypeError(…)) etc. -/
def throwErr {α : Type} (name : String) : M α := fun σ => .throw (.err name) σ
/-- panic(newException(value)) -/
def throwVal {α : Type} (v : V) : M α := fun σ => .throw (.val v) σ
/-- `defer f()` around `m` -/
def deferM {α : Type} (m : M α) (f : St → St) : M α := fun σ =>
  match m σ with
  | .ok a σ' => .ok a (f σ')
  | .throw t σ' => .throw t (f σ')
  | .fuel => .fuel

/-! ## The heap -/

def objProto : Nat := 0      -- rt.global.ObjectPrototype
def gObj : Nat := 1          -- rt.globalObject
def fnProto : Nat := 2       -- rt.global.FunctionPrototype
def typeErrProto : Nat := 6
def refErrProto : Nat := 7
def strProto : Nat := 8
def numProto : Nat := 9
def boolProto : Nat := 10
def globalStash : Nat := 0   -- rt.globalStash: the objectStash over the global object

def p000 (v : V) : Pty := ⟨v, false, false, false⟩
def p100 (v : V) : Pty := ⟨v, true, false, false⟩
def p101 (v : V) : Pty := ⟨v, true, false, true⟩
def p110 (v : V) : Pty := ⟨v, true, true, false⟩
def p111 (v : V) : Pty := ⟨v, true, true, true⟩

def nativeFn (name : String) (length : Int) : Obj :=
  { cls := "Function", proto := some fnProto, props := [("name", p000 (.str name)), ("length", p000 (.num length))], val := .native name }

def initSt : St :=
  { heap := [ { cls := "Object", proto := none, props := [] },
              { cls := "Object", proto := some objProto, props := [] },
              { cls := "Function", proto := some objProto,
                props := [("call", p101 (.ref 3)), ("apply", p101 (.ref 4)), ("bind", p101 (.ref 5))], val := .native "proto" },
              nativeFn "call" 1, nativeFn "apply" 2, nativeFn "bind" 1,
              -- the NativeError prototype objects: class "Error", reached by Object.getPrototypeOf(e); the ottoError that
              -- an Error INSTANCE carries (and that these objects lack in otto) is invisible to the programs of this layer
              { cls := "Error", proto := some objProto, props := [("name", p101 (.str "TypeError"))], val := .error "TypeError" },
              { cls := "Error", proto := some objProto, props := [("name", p101 (.str "ReferenceError"))], val := .error "ReferenceError" },
              { cls := "String", proto := some objProto, props := [] },
              { cls := "Number", proto := some objProto, props := [] },
              { cls := "Boolean", proto := some objProto, props := [] } ],
    stashes := [ .obj none gObj ],
    scopes := [],
    labels := [],
    trace := [] }

def St.obj? (σ : St) (a : Nat) : Option Obj := σ.heap[a]?
def St.stash? (σ : St) (i : Nat) : Option Stash := σ.stashes[i]?

def allocObj (o : Obj) : M Nat := fun σ => .ok σ.heap.length { σ with heap := σ.heap ++ [o] }
def setObj (a : Nat) (o : Obj) : M Unit := modifySt fun σ => { σ with heap := setNth σ.heap a o }
def allocStash (s : Stash) : M Nat := fun σ => .ok σ.stashes.length { σ with stashes := σ.stashes ++ [s] }
def setStash (i : Nat) (s : Stash) : M Unit := modifySt fun σ => { σ with stashes := setNth σ.stashes i s }

/-- global.go:82 newObject -/
def plainObject : Obj := { cls := "Object", proto := some objProto, props := [] }
def newObject : M Nat := allocObj plainObject

/-- object.go:118 writeProperty: a new name is appended to propertyOrder, an old one keeps its place -/
def writeProperty (props : List (String × Pty)) (name : String) (p : Pty) : List (String × Pty) :=
  match lookupA name props with
  | some _ => updateA name p props
  | none => props ++ [(name, p)]

/-- error.go:133 typeErrorResult -/
def typeErrorResult (throw : Bool) : M Bool :=
  if throw then throwErr "TypeError" else pure false

/-! ## stash.go (methods that do not touch objects) -/

def stashOuter (σ : St) (i : Nat) : Option Nat :=
  match σ.stash? i with
  | some (.obj o _) => o
  | some (.dcl o _) => o
  | some (.fn o _ _) => o
  | none => none

def dclProps (σ : St) (i : Nat) : List (String × DclProp) :=
  match σ.stash? i with
  | some (.dcl _ ps) => ps
  | some (.fn _ ps _) => ps
  | _ => []

def setDclProps (i : Nat) (ps : List (String × DclProp)) : M Unit := fun σ =>
  match σ.stash? i with
  | some (.dcl o _) => setStash i (.dcl o ps) σ
  | some (.fn o _ a) => setStash i (.fn o ps a) σ
  | _ => .ok () σ

/-- stash.go:191 dclStash.getBinding (a missing binding is a Go panic that the callers exclude) -/
def dclGetBinding (σ : St) (i : Nat) (name : String) (throw : Bool) : M V :=
  match lookupA name (dclProps σ i) with
  | none => pure .undef
  | some p =>
    if !p.mutable_ && !p.readable then (if throw then throwErr "TypeError" else pure .undef)
    else pure p.value

/-- stash.go:166 dclStash.setBinding -/
def dclSetBinding (i : Nat) (name : String) (value : V) (strict : Bool) : M Unit := do
  let σ ← getSt
  match lookupA name (dclProps σ i) with
  | none => pure ()
  | some p =>
    if p.mutable_ then setDclProps i (updateA name { p with value := value } (dclProps σ i))
    else do let _ ← typeErrorResult strict; pure ()

/-- stash.go:154 dclStash.createBinding -/
def dclCreateBinding (i : Nat) (name : String) (deletable : Bool) (value : V) : M Unit := do
  let σ ← getSt
  setDclProps i (dclProps σ i ++ [(name, { value := value, mutable_ := true, deletable := deletable, readable := false })])

/-! ## object_class.go, type_arguments.go, type_string.go -/

/-- otto_.go:33 stringToArrayIndex (indices below 2^32) -/
def arrayIndex (name : String) : Option Nat := idx? name

/-- type_arguments.go:43 argumentsObject.get -/
def argumentsMapGet (σ : St) (o : Obj) (name : String) : M (Option V) :=
  match o.val with
  | .arguments ipn stash =>
    (match arrayIndex name with
     | some index =>
       (match ipn[index]? with
        | some pn => if pn = "" then pure none else do let v ← dclGetBinding σ stash pn false; pure (some v)
        | none => pure none)
     | none => pure none)
  | _ => pure none

/-- objectClass.getOwnProperty: objectGetOwnProperty (object_class.go:197), argumentsGetOwnProperty
    (type_arguments.go:72), stringGetOwnProperty (type_string.go:104) -/
def getOwnProperty (a : Nat) (name : String) : M (Option Pty) := do
  let σ ← getSt
  match σ.obj? a with
  | none => pure none
  | some o =>
    let own := lookupA name o.props
    match o.val with
    | .arguments _ _ =>
      let mv ← argumentsMapGet σ o name
      (match own, mv with
       | some p, some v => pure (some { p with value := v })
       | _, _ => pure own)
    | .string s =>
      (match own with
       | some p => pure (some p)
       | none =>
         match arrayIndex name with
         | some index => (match s.toList[index]? with
           | some ch => pure (some (p000 (.str (String.singleton ch))))
           | none => pure none)
         | none => pure none)
    | _ => pure own

/-- object_class.go:207 objectGetProperty -/
def getProperty : Nat → Nat → String → M (Option Pty)
  | 0, _, _ => pure none
  | n+1, a, name => do
    let p ← getOwnProperty a name
    match p with
    | some p => pure (some p)
    | none =>
      let σ ← getSt
      match σ.obj? a with
      | some o => (match o.proto with
        | some q => getProperty n q name
        | none => pure none)
      | none => pure none

def chainFuel : M Nat := fun σ => .ok (σ.heap.length + 1) σ

/-- objectClass.get: objectGet (object_class.go:218), argumentsGet (type_arguments.go:65) -/
def objGet (a : Nat) (name : String) : M V := do
  let σ ← getSt
  let mapped ← (match σ.obj? a with
    | some o => argumentsMapGet σ o name
    | none => pure none)
  match mapped with
  | some v => pure v
  | none =>
    let p ← getProperty (← chainFuel) a name
    pure (match p with | some p => p.value | none => .undef)

/-- object_class.go:288 objectHasProperty -/
def hasProperty (a : Nat) (name : String) : M Bool := do
  let p ← getProperty (← chainFuel) a name
  pure p.isSome

/-- the accessor property that [[GetProperty]] (object_class.go:199 objectGetProperty) reaches first on the chain from
    `a`, if it reaches an accessor before a data property -/
def findAcc : Nat → Nat → String → M (Option String)
  | 0, _, _ => pure none
  | n+1, a, name => do
    let own ← getOwnProperty a name
    if own.isSome then pure none
    else do
      let σ ← getSt
      match σ.obj? a with
      | none => pure none
      | some o =>
        match lookupA name o.accs with
        | some t => pure (some t)
        | none => (match o.proto with
          | some q => findAcc n q name
          | none => pure none)

/-- what the harness's accessor functions log of their this value: Object.prototype.toString's class, and for a
    wrapper the primitive inside (the reference's `primitive`, from which the wrapper was made in the same step) -/
def recvTok (a : Nat) (primitive : Option V) : M String := do
  let σ ← getSt
  let cls := match σ.obj? a with | some o => o.cls | none => "?"
  pure (match primitive with
    | some v => cls ++ ":" ++ toStr v
    | none => cls)

/-- property.go:81 property.get on a propertyGetSet: the getter is called with this = the base object -/
def accGet (t : String) (a : Nat) (primitive : Option V) : M V := do
  let r ← recvTok a primitive
  modifySt fun σ => { σ with trace := σ.trace ++ ["sG" ++ t ++ ":" ++ r] }
  pure (.str ("v" ++ t))

/-- objectClass.get with accessors: objectGet → property.get -/
def objGetA (a : Nat) (name : String) (primitive : Option V) : M V := do
  let acc ← findAcc (← chainFuel) a name
  match acc with
  | some t => accGet t a primitive
  | none => objGet a name

/-- object_class.go:232 objectCanPutDetails (data properties, extensible objects): (canPut, own property) -/
def canPutDetails (a : Nat) (name : String) : M (Bool × Option Pty) := do
  let own ← getOwnProperty a name
  match own with
  | some p => pure (p.w, some p)
  | none =>
    let σ ← getSt
    match σ.obj? a with
    | none => pure (true, none)
    | some o =>
      match o.proto with
      | none => pure (true, none)
      | some q =>
        let p ← getProperty (← chainFuel) q name
        match p with
        | none => pure (true, none)
        | some p => pure (p.w, none)

/-- object_class.go:307 objectDefineOwnProperty for a complete data descriptor -/
def objectDefineOwnProperty (a : Nat) (name : String) (d : Pty) (throw : Bool) : M Bool := do
  let σ ← getSt
  match σ.obj? a with
  | none => pure false
  | some o =>
    match lookupA name o.props with
    | none => do setObj a { o with props := writeProperty o.props name d }; pure true
    | some p =>
      if !p.c && (d.c || d.e != p.e) then typeErrorResult throw
      else if !p.c && !p.w && (d.w || d.value != p.value) then typeErrorResult throw
      else do setObj a { o with props := writeProperty o.props name d }; pure true

/-- type_arguments.go:50 argumentsObject.put -/
def argumentsMapPut (o : Obj) (name : String) (value : V) : M Unit :=
  match o.val with
  | .arguments ipn stash =>
    (match arrayIndex name with
     | some index => (match ipn[index]? with
       | some pn => dclSetBinding stash pn value false
       | none => pure ())
     | none => pure ())
  | _ => pure ()

/-- type_arguments.go:93 argumentsDelete after objectDelete: `if _, exists := get(name); exists { delete(name) }`,
    i.e. `indexOfParameterName[index] = ""` for a mapped index -/
def unmapIndex (v : OVal) (name : String) : OVal :=
  match v with
  | .arguments ipn stash => (match arrayIndex name with
    | some index => (match ipn[index]? with
      | some pn => if pn = "" then v else .arguments (setNth ipn index "") stash
      | none => v)
    | none => v)
  | v => v

/-- type_arguments.go:57 argumentsObject.delete on the object at `a` -/
def argumentsMapDelete (a : Nat) (name : String) : M Unit := do
  let σ ← getSt
  match σ.obj? a with
  | some o => setObj a { o with val := unmapIndex o.val name }
  | none => pure ()

/-- objectClass.defineOwnProperty: objectDefineOwnProperty, argumentsDefineOwnProperty (type_arguments.go:80).
    The descriptor is a complete data descriptor: never an accessor, its value is present, and `unmap` is
    "writable is set and false" -/
def defineOwnProperty (a : Nat) (name : String) (d : Pty) (throw : Bool) : M Bool := do
  let σ ← getSt
  match σ.obj? a with
  | none => pure false
  | some o =>
    match o.val with
    | .arguments _ _ =>
      let mapped ← argumentsMapGet σ o name
      (match mapped with
       | some _ => do
         let ok ← objectDefineOwnProperty a name d false
         if !ok then typeErrorResult throw
         else do
           argumentsMapPut o name d.value
           if !d.w then argumentsMapDelete a name else pure ()
           pure true
       | none => objectDefineOwnProperty a name d throw)
    | _ => objectDefineOwnProperty a name d throw

/-- object.go:97 defineProperty -/
def defineProperty (a : Nat) (name : String) (p : Pty) (throw : Bool) : M Bool := defineOwnProperty a name p throw

/-- object_class.go:262 objectPut (the "shortcut" branch; no setters) -/
def objPut (a : Nat) (name : String) (value : V) (throw : Bool) : M Unit := do
  let (canPut, own) ← canPutDetails a name
  if !canPut then do let _ ← typeErrorResult throw; pure ()
  else match own with
    | some p => do let _ ← defineOwnProperty a name { p with value := value } throw; pure ()
    | none => do let _ ← defineProperty a name (p111 value) throw; pure ()

/-- objectClass.delete: objectDelete (object_class.go:443), argumentsDelete (type_arguments.go:93) -/
def objDelete (a : Nat) (name : String) (throw : Bool) : M Bool := do
  let own ← getOwnProperty a name
  match own with
  | none => pure true
  | some p =>
    if p.c then do
      let σ ← getSt
      match σ.obj? a with
      | none => pure true
      | some o =>
        -- object.go:128 deleteProperty; then argumentsDelete un-maps the index
        setObj a { o with props := removeA name o.props, val := unmapIndex o.val name }
        pure true
    else typeErrorResult throw

/-- type_function.go:158 isCall -/
def isCall (σ : St) (v : V) : Bool :=
  match v with
  | .ref a => (match σ.obj? a with
    | some o => (match o.val with
      | .nodeFn .. => true | .bindFn .. => true | .native _ => true | _ => false)
    | none => false)
  | _ => false

/-- value.go:181 IsFunction -/
def isFunction (σ : St) (v : V) : Bool :=
  match v with
  | .ref a => (match σ.obj? a with | some o => o.cls == "Function" | none => false)
  | _ => false

/-! ## stash.go (the stasher interface) -/

/-- hasBinding: objectStash (59), dclStash (141) -/
def hasBinding (i : Nat) (name : String) : M Bool := do
  let σ ← getSt
  match σ.stash? i with
  | some (.obj _ o) => hasProperty o name
  | some (.dcl _ ps) => pure (lookupA name ps).isSome
  | some (.fn _ ps _) => pure (lookupA name ps).isSome
  | none => pure false

/-- createBinding: objectStash (63: mode 0o111, or 0o110 when not deletable), dclStash (154) -/
def createBinding (i : Nat) (name : String) (deletable : Bool) (value : V) : M Unit := do
  let σ ← getSt
  match σ.stash? i with
  | some (.obj _ o) => do let _ ← defineProperty o name (if deletable then p111 value else p110 value) false; pure ()
  | some _ => dclCreateBinding i name deletable value
  | none => pure ()

/-- setBinding: objectStash (75: object.put), dclStash (166) -/
def setBinding (i : Nat) (name : String) (value : V) (strict : Bool) : M Unit := do
  let σ ← getSt
  match σ.stash? i with
  | some (.obj _ o) => objPut o name value strict
  | some _ => dclSetBinding i name value strict
  | none => pure ()

/-- setValue: objectStash (79: configurable by default), dclStash (180: NOT deletable by default) -/
def setValue (i : Nat) (name : String) (value : V) (throw : Bool) : M Unit := do
  let σ ← getSt
  let has ← hasBinding i name
  if !has then
    match σ.stash? i with
    | some (.obj _ _) => createBinding i name true value
    | _ => createBinding i name false value
  else setBinding i name value throw

/-- getBinding: objectStash (87), dclStash (191) -/
def getBinding (i : Nat) (name : String) (throw : Bool) : M V := do
  let σ ← getSt
  match σ.stash? i with
  | some (.obj _ o) => do
    let has ← hasProperty o name
    if has then objGet o name
    else if throw then throwErr "ReferenceError" else pure .undef
  | some _ => dclGetBinding σ i name throw
  | none => pure .undef

/-- deleteBinding: objectStash (97), dclStash (204) -/
def deleteBinding (i : Nat) (name : String) : M Bool := do
  let σ ← getSt
  match σ.stash? i with
  | some (.obj _ o) => objDelete o name false
  | some _ =>
    (match lookupA name (dclProps σ i) with
     | none => pure true
     | some p => if !p.deletable then pure false else do setDclProps i (removeA name (dclProps σ i)); pure true)
  | none => pure true

/-- newReference: objectStash (105: a PROPERTY reference on the object), dclStash (221) -/
def newReference (σ : St) (i : Nat) (name : String) : Ref :=
  match σ.stash? i with
  | some (.obj _ o) => .prop (some o) name
  | _ => .stash i name

/-! ## type_reference.go -/

/-- type_reference.go:84 getIdentifierReference (fuel = length of the stash chain) -/
def getIdentifierReference : Nat → Option Nat → String → M Ref
  | 0, _, name => pure (.prop none name)
  | _+1, none, name => pure (.prop none name)
  | n+1, some i, name => do
    let has ← hasBinding i name
    if has then do let σ ← getSt; pure (newReference σ i name)
    else do let σ ← getSt; getIdentifierReference n (stashOuter σ i) name

def stashFuel : M Nat := fun σ => .ok (σ.stashes.length + 1) σ

/-- the stash in which getIdentifierReference finds the name -/
def identStash : Nat → Option Nat → String → M (Option Nat)
  | 0, _, _ => pure none
  | _+1, none, _ => pure none
  | n+1, some i, name => do
    let has ← hasBinding i name
    if has then pure (some i)
    else do let σ ← getSt; identStash n (stashOuter σ i) name

/-- what the harness's setter logs of its argument: numbers and strings by value, anything else by its typeof -/
def accValTok (σ : St) (v : V) : String :=
  match v with
  | .num n => "n" ++ toString n
  | .nan => "nan"
  | .str s => "s" ++ s
  | .undef => "undefined" | .null => "object" | .bool _ => "boolean"
  | .ref _ => if isCall σ v then "function" else "object"

/-- object_class.go:262 objectPut, the setter branch: `setter.call(toValue(obj), value)` -/
def accSet (t : String) (a : Nat) (primitive : Option V) (value : V) : M Unit := do
  let r ← recvTok a primitive
  modifySt fun σ => { σ with trace := σ.trace ++ ["sS" ++ t ++ ":" ++ r ++ ":" ++ accValTok σ value] }

/-- objectClass.put with accessors: an accessor that [[GetProperty]] reaches first has its setter called (8.12.5
    step 5), otherwise objectPut's data path -/
def objPutA (a : Nat) (name : String) (value : V) (primitive : Option V) : M Unit := do
  let acc ← findAcc (← chainFuel) a name
  match acc with
  | some t => accSet t a primitive value
  | none => objPut a name value false

/-- objectClass.delete with accessors: an own accessor property is configurable (mode 0o001) -/
def objDeleteA (a : Nat) (name : String) : M Bool := do
  let σ ← getSt
  match σ.obj? a with
  | some o =>
    (match lookupA name o.accs with
     | some _ => do setObj a { o with accs := removeA name o.accs }; pure true
     | none => objDelete a name false)
  | none => objDelete a name false

/-- Object.defineProperty with the harness's accessor descriptor {get, set, enumerable: false, configurable: true}
    (object_class.go:320 objectDefineOwnProperty, accessor cases; type_arguments.go:80 for a mapped index) -/
def defineAccessor (a : Nat) (name : String) (t : String) : M Unit := do
  let σ ← getSt
  match σ.obj? a with
  | none => pure ()
  | some o =>
    match lookupA name o.props with
    | some p =>
      -- data → accessor needs a configurable property (:372); the descriptor asks for configurable: true (:355)
      if !p.c then throwErr "TypeError"
      else setObj a { o with props := removeA name o.props, val := unmapIndex o.val name, accs := removeA name o.accs ++ [(name, t)] }
    | none => setObj a { o with accs := removeA name o.accs ++ [(name, t)] }

/-- a data descriptor over an own accessor property (configurable): the accessor goes (:370) -/
def dropAccessor (a : Nat) (name : String) : M Unit := do
  let σ ← getSt
  match σ.obj? a with
  | some o => (match lookupA name o.accs with
    | some _ => setObj a { o with accs := removeA name o.accs }
    | none => pure ())
  | none => pure ()

/-- getValue: propertyReference (33), stashReference (66; strict = false) -/
def refGetValue (r : Ref) : M V :=
  match r with
  | .prop none _ => throwErr "ReferenceError"
  | .prop (some b) name => objGetA b name none
  | .stash b name => getBinding b name false
  | .pprop b name primitive => objGetA b name (some primitive)

/-- putValue: propertyReference (40), stashReference (70); the result is the name of an unresolvable reference -/
def refPutValue (r : Ref) (value : V) : M String :=
  match r with
  | .prop none name => pure name
  | .prop (some b) name => do objPutA b name value none; pure ""
  | .stash b name => do setValue b name value false; pure ""
  | .pprop b name primitive => do objPutA b name value (some primitive); pure ""

/-- delete: propertyReference (48), stashReference (75) -/
def refDelete (r : Ref) : M Bool :=
  match r with
  | .prop none _ => pure true
  | .prop (some b) name => objDeleteA b name
  | .stash b name => deleteBinding b name
  | .pprop b name _ => objDeleteA b name

/-- runtime.go:109 rt.putValue -/
def rtPutValue (r : Ref) (value : V) : M Unit := do
  let name ← refPutValue r value
  if name != "" then objPut gObj name value false
  else pure ()

/-- value.go:476 Value.resolve -/
def resolve (mv : MV) : M V :=
  match mv with
  | .val v => pure v
  | .ref r => refGetValue r

/-! ## runtime.go: scopes, ToObject -/

def curScope : M Scope := fun σ =>
  match σ.scopes with
  | s :: _ => .ok s σ
  | [] => .ok { lexical := globalStash, variable_ := globalStash, this := gObj } σ

/-- runtime.go:71 enterScope, :84 leaveScope -/
def enterScope (s : Scope) : M Unit := modifySt fun σ => { σ with scopes := s :: σ.scopes }
def leaveScope (σ : St) : St := { σ with scopes := σ.scopes.drop 1 }

def setLexical (l : Nat) (σ : St) : St :=
  match σ.scopes with
  | s :: r => { σ with scopes := { s with lexical := l } :: r }
  | [] => σ

/-- global.go:105–121 newString / newNumber / newBoolean -/
def newStringObject (s : String) : M Nat :=
  allocObj { cls := "String", proto := some strProto, props := [("length", p000 (.num s.length))], val := .string s }

/-- runtime.go:146 toObject -/
def toObject (v : V) : M Nat :=
  match v with
  | .undef => throwErr "TypeError"
  | .null => throwErr "TypeError"
  | .ref a => pure a
  | .str s => newStringObject s
  | .bool _ => allocObj { cls := "Boolean", proto := some boolProto, props := [] }
  | _ => allocObj { cls := "Number", proto := some numProto, props := [] }

/-- runtime.go:163 objectCoerce, and the TypeError its two callers raise (cmpl_evaluate_expression.go:176, :258) -/
def objectCoerce (v : V) : M Nat := toObject v

/-- runtime.go:93 enterFunctionScope -/
def enterFunctionScope (outer : Option Nat) (this : V) : M Nat := do
  let outer := outer.getD globalStash
  let stash ← allocStash (.fn (some outer) [] none)
  let thisObject ← (match this with
    | .undef => pure gObj
    | .null => pure gObj
    | t => toObject t)
  enterScope { lexical := stash, variable_ := stash, this := thisObject }
  pure stash

/-- runtime.go:89 enterGlobalScope -/
def enterGlobalScope : M Unit := enterScope { lexical := globalStash, variable_ := globalStash, this := gObj }

/-- type_error.go:26 newErrorObjectError (message omitted) -/
def newErrorObject (name : String) : M Nat :=
  allocObj { cls := "Error", proto := some (if name = "ReferenceError" then refErrProto else typeErrProto),
             props := [], val := .error name }

/-- runtime.go:118 tryCatchEvaluate: an ottoError is made an Error object here -/
def tryCatchEvaluate {α : Type} (inner : M α) : M (Except V α) := fun σ =>
  match inner σ with
  | .ok a σ' => .ok (.ok a) σ'
  | .throw (.val v) σ' => .ok (.error v) σ'
  | .throw (.err name) σ' =>
    (match newErrorObject name σ' with
     | .ok a σ'' => .ok (.error (.ref a)) σ''
     | .throw t σ'' => .throw t σ''
     | .fuel => .fuel)
  | .fuel => .fuel

/-! ## global.go / type_function.go / type_arguments.go: making objects -/

def fnName : FE → String
  | .func (some nm) _ _ _ _ => nm
  | _ => ""

def fnParams : FE → List String
  | .func _ ps _ _ _ => ps
  | _ => []

/-- global.go:191 newNodeFunction over type_function.go:134 newNodeFunctionObject
    (`caller` is an accessor there; here an inert non-enumerable data property) -/
def fnObject (node : FE) (stash : Nat) : Obj :=
  { cls := "Function", proto := some fnProto, val := .nodeFn node stash,
    props := [("name", p000 (.str (fnName node))), ("length", p000 (.num (fnParams node).length)), ("caller", p000 .null)] }

def newNodeFunction (node : FE) (stash : Nat) : M Nat := do
  let o ← allocObj (fnObject node stash)
  let prototype ← newObject
  let _ ← defineProperty o "prototype" (p100 (.ref prototype)) false
  let _ ← defineProperty prototype "constructor" (p101 (.ref o)) false
  pure o

/-- global.go:202 newBoundFunction over type_function.go:84 newBoundFunctionObject -/
def newBoundFunction (target : Nat) (this : V) (args : List V) : M Nat := do
  let len ← objGet target "length"
  let nm ← objGet target "name"
  let l : Int := (match len with | .num n => n | _ => 0) - args.length
  let o ← allocObj { cls := "Function", proto := some fnProto, val := .bindFn target this args,
                     props := [("name", p000 (.str ("bound " ++ toStr nm))), ("length", p000 (.num (if l < 0 then 0 else l))),
                               ("caller", p000 .undef), ("arguments", p000 .undef)] }
  let prototype ← newObject
  let _ ← defineProperty o "prototype" (p100 (.ref prototype)) false
  let _ ← defineProperty prototype "constructor" (p100 (.ref o)) false
  pure o

/-- type_arguments.go:7 newArgumentsObject -/
def argumentsObject (indexOfParameterName : List String) (stash : Nat) : Obj :=
  { cls := "Arguments", proto := some objProto, val := .arguments indexOfParameterName stash,
    props := (List.range indexOfParameterName.length).map fun i => (toString i, p111 .undef) }

def newArgumentsObject (indexOfParameterName : List String) (stash : Nat) (length : Nat) : M Nat := do
  let o ← allocObj (argumentsObject indexOfParameterName stash)
  let _ ← defineProperty o "length" (p101 (.num length)) false
  pure o

/-- cmpl_evaluate.go:28–50: which parameter name each argument index is joined to (`""` = none).
    The loop is the one CallModel.modelMap transcribes (`mapGo`: blank every earlier index that has the
    name, then `indexOfParameterName[index] = name`, for the positions that received an argument). -/
def indexOfParameterNames (params : List String) (nargs : Nat) : List String :=
  (Call.modelMap params nargs).map fun o => o.getD ""

/-- cmpl_evaluate.go:36–54: `rt.scope.lexical.setValue(name, value, false)` for every parameter -/
def bindParams (lexical : Nat) : List String → List V → Nat → M Unit
  | [], _, _ => pure ()
  | name :: r, args, index => do
    setValue lexical name (args[index]?.getD .undef) false
    bindParams lexical r args (index + 1)

/-- cmpl_evaluate.go:62–68: the indices that are not joined to a parameter get their value as an own property -/
def defineUnmapped (arguments : Nat) (ipn : List String) (args : List V) : Nat → Nat → M Unit
  | 0, _ => pure ()
  | k+1, index => do
    (if (ipn[index]?.getD "") != "" then pure ()
     else do let _ ← defineProperty arguments (toString index) (p111 (args[index]?.getD .undef)) false; pure ())
    defineUnmapped arguments ipn args k (index + 1)

/-- builtin_function.go:84–88: the elements 0 … length−1 of the array-like -/
def applyArgs (arr : Nat) : Nat → Nat → M (List V)
  | 0, _ => pure []
  | k+1, index => do
    let v ← objGet arr (toString index)
    let r ← applyArgs arr k (index + 1)
    pure (v :: r)

/-- object.go:113 readProperty: `obj.property[name]` -/
def readProperty (a : Nat) (name : String) : M (Option Pty) := fun σ =>
  .ok (match σ.obj? a with | some o => lookupA name o.props | none => none) σ

/-- cmpl_evaluate_statement.go:213–217: `for shadow := sourceObject; shadow != obj; shadow = shadow.prototype` -/
def shadowLoop : Nat → Option Nat → Nat → String → M Bool
  | 0, _, _, _ => pure false
  | _+1, none, _, _ => pure false
  | n+1, some shadow, obj, name =>
    if shadow = obj then pure false
    else do
      let p ← getOwnProperty shadow name
      if p.isSome then pure true
      else do
        let σ ← getSt
        shadowLoop n (match σ.obj? shadow with | some o => o.proto | none => none) obj name

/-- type_function.go:298 hasInstance (after the callable / bound tests), the prototype walk -/
def protoWalk (σ : St) : Nat → Option Nat → Nat → Bool
  | 0, _, _ => false
  | _+1, none, _ => false
  | n+1, some v, p => if v = p then true else
    match σ.obj? v with
    | some o => protoWalk σ n o.proto p
    | none => false

/-! ## value-level operators (shared with FnSpec; not part of the transcription) -/

def binAdd (va vb : V) : V :=
  match va, vb with
  | .str x, _ => .str (x ++ toStr vb)
  | _, .str y => .str (toStr va ++ y)
  | _, _ => (match toNum va, toNum vb with
    | some x, some y => .num (x + y)
    | _, _ => .nan)

def binSub (va vb : V) : V :=
  match toNum va, toNum vb with
  | some x, some y => .num (x - y)
  | _, _ => .nan

def binLt (va vb : V) : V :=
  match toNum va, toNum vb with
  | some x, some y => .bool (x < y)
  | _, _ => .bool false

def binSeq (va vb : V) : V := .bool (va == vb && va != .nan)

def typeofV (σ : St) (v : V) : String :=
  match v with
  | .undef => "undefined" | .null => "object" | .bool _ => "boolean" | .num _ => "number" | .nan => "number" | .str _ => "string"
  | .ref _ => if isCall σ v then "function" else "object"

/-- the harness's fnTok (cmd/c01/impl.go) on model values: class Error → its `name` property -/
def tokV (v : V) : M String :=
  match v with
  | .undef => pure "u" | .null => pure "null"
  | .bool b => pure (if b then "t" else "f")
  | .num n => pure ("n" ++ toString n)
  | .nan => pure "nan"
  | .str s => pure ("s" ++ s)
  | .ref a => do
    let σ ← getSt
    match σ.obj? a with
    | some o =>
      if o.cls == "Function" then pure "fn"
      else if o.cls == "Error" then do let n ← objGet a "name"; pure ("err:" ++ toStr n)
      else if o.cls == "Arguments" then pure "args"
      else pure "obj"
    | none => pure "?"

/-- value.go:734 evaluateBreakContinue / :746 evaluateBreak: is the result consumed by these labels? -/
def consumes (labels : List String) (target : String) : Bool := labels.contains target

/-- a step of a loop body (the `switch value.kind` inside the three loop evaluators) -/
inductive Step where
  | next (result : SV)                        -- all statements done
  | cont (result : SV) (value : Option V)     -- resultContinue: the loop's value so far, the value the completion carries
  | brk (result : SV) (value : Option V)      -- resultBreak
  | ret (v : SV) (pass : SV)                  -- resultReturn: the result value itself, and the value of this pass over the body

/-- result.go Value.carrying: a break / continue completion without a value takes the value produced so far -/
def carrying (v : SV) (acc : SV) : SV :=
  match v, acc with
  | .brk t none, .val w => .brk t (some w)
  | .cont t none, .val w => .cont t (some w)
  | _, _ => v

/-- result.go Value.carried: the value the completion brings along, or otherwise -/
def carried (c : Option V) (otherwise : SV) : SV :=
  match c with
  | some w => .val w
  | none => otherwise

/-! ## entering code: declarations (no evaluation involved) -/

/-- cmpl_evaluate.go:79 cmplFunctionDeclaration -/
def functionDeclaration : Nat → FDecls → Bool → M Unit
  | 0, _, _ => outOfFuel
  | _+1, .nil, _ => pure ()
  | n+1, .cons name f r, eval => do
    let sc ← curScope
    let o ← newNodeFunction f sc.lexical
    let has ← hasBinding sc.variable_ name
    if !has then createBinding sc.variable_ name eval (.ref o)
    else do
      -- 10.5 step 5.e, when the variable environment is the global stash (stash 0)
      if sc.variable_ == 0 then do
        let existing ← getProperty (← chainFuel) gObj name
        (match existing with
         | none => pure ()
         | some p =>
           if p.c then do
             let _ ← defineOwnProperty gObj name { value := .undef, w := true, e := true, c := eval } true
             pure ()
           else if !p.w || !p.e then throwErr "TypeError"
           else pure ())
      else pure ()
      setBinding sc.variable_ name (.ref o) false
    functionDeclaration n r eval

/-- cmpl_evaluate.go:100 cmplVariableDeclaration -/
def variableDeclaration : List String → Bool → M Unit
  | [], _ => pure ()
  | name :: r, eval => do
    let sc ← curScope
    let has ← hasBinding sc.variable_ name
    if !has then createBinding sc.variable_ name eval .undef else pure ()
    variableDeclaration r eval

/-- cmpl_evaluate.go:27–72: what cmplCallNodeFunction does before it evaluates the body -/
def instantiateNode (n : Nat) (function : Nat) (stash : Nat) (ps : List String) (vs : List String) (ds : FDecls)
    (argumentList : List V) : M Unit := do
  let sc ← curScope
  -- :36–54 parameters
  bindParams sc.lexical ps argumentList 0
  -- :56–69 the arguments object, unless a parameter is called `arguments`
  if !ps.contains "arguments" then do
    let ipn := indexOfParameterNames ps argumentList.length
    let arguments ← newArgumentsObject ipn stash argumentList.length
    let _ ← defineProperty arguments "callee" (p101 (.ref function)) false
    let σ ← getSt
    (match σ.stash? stash with
     | some (.fn o props _) => setStash stash (.fn o props (some arguments))
     | _ => pure ())
    setValue sc.lexical "arguments" (.ref arguments) false
    defineUnmapped arguments ipn argumentList argumentList.length 0
  else pure ()
  functionDeclaration n ds false                                                    -- :71
  variableDeclaration vs false                                                      -- :72

/-! ## The evaluators -/

mutual

/-- cmpl_evaluate_expression.go:11 cmplEvaluateNodeExpression -/
def evalE : Nat → FE → M MV
  | 0, _ => outOfFuel
  | n+1, e =>
    match e with
    | .lit v => pure (.val (ofPV v))
    | .this => do let sc ← curScope; pure (.val (.ref sc.this))                      -- :88
    | .var x => do                                                                   -- :62 nodeIdentifier
      let sc ← curScope
      let r ← getIdentifierReference (← stashFuel) (some sc.lexical) x
      pure (.ref r)
    | .assign x e1 => do                                                             -- :116 (left = identifier)
      let left ← evalE n (.var x)
      let right ← evalE n e1
      let rightValue ← resolve right
      (match left with | .ref r => rtPutValue r rightValue | .val _ => pure ())
      pure (.val rightValue)
    | .get o p => do                                                                 -- :251 dot expression
      let target ← evalE n o
      let targetValue ← resolve target
      let obj ← objectCoerce targetValue
      -- :274 `if !targetValue.IsObject() { ref.primitive = &targetValue }`
      pure (.ref (match targetValue with | .ref _ => .prop (some obj) p | _ => .pprop obj p targetValue))
    | .getE o k => do                                                                -- :163 bracket expression
      let target ← evalE n o
      let targetValue ← resolve target
      let member ← evalE n k
      let memberValue ← resolve member
      let obj ← objectCoerce targetValue
      pure (.ref (match targetValue with
        | .ref _ => .prop (some obj) (toStr memberValue)
        | _ => .pprop obj (toStr memberValue) targetValue))
    | .set o p e1 => do                                                              -- :116 (left = dot)
      let left ← evalE n (.get o p)
      let right ← evalE n e1
      let rightValue ← resolve right
      (match left with | .ref r => rtPutValue r rightValue | .val _ => pure ())
      pure (.val rightValue)
    | .setE o k e1 => do
      let left ← evalE n (.getE o k)
      let right ← evalE n e1
      let rightValue ← resolve right
      (match left with | .ref r => rtPutValue r rightValue | .val _ => pure ())
      pure (.val rightValue)
    | .del o p => do                                                                 -- :341 unary DELETE
      let target ← evalE n (.get o p)
      (match target with
       | .ref r => do let b ← refDelete r; pure (.val (.bool b))
       | .val _ => pure (.val (.bool true)))
    | .delV x => do
      let target ← evalE n (.var x)
      (match target with
       | .ref r => do let b ← refDelete r; pure (.val (.bool b))
       | .val _ => pure (.val (.bool true)))
    | .delE o k => do
      let target ← evalE n (.getE o k)
      (match target with
       | .ref r => do let b ← refDelete r; pure (.val (.bool b))
       | .val _ => pure (.val (.bool true)))
    | .call f args => do                                                             -- :188 call expression
      -- a callee that is not an identifier is rendered `(0, f)`: a sequence expression, i.e. a value (:321)
      let callee ← (match f with
        | .var _ => evalE n f
        | _ => do let c ← evalE n f; let v ← resolve c; pure (MV.val v))
      let vl ← resolve callee                        -- 11.2.3 step 2: GetValue of the callee, before the arguments
      let argumentList ← evalArgs n args
      -- stash.go objectStash.newReference: `ref.noThis = !s.provideThis`: a name found in the GLOBAL stash (the only
      -- objectStash that no with statement made) gives no this value (type_reference.go thisValue)
      let noThis ← (match f with
        | .var x => do
          let sc ← curScope
          let j ← identStash (← stashFuel) (some sc.lexical) x
          pure (j == some globalStash)
        | _ => pure false)
      let this : V := match callee with
        | .ref (.prop (some b) _) => if noThis then .undef else .ref b   -- rf.thisValue()
        | .ref (.pprop _ _ primitive) => primitive   -- … or the primitive base itself (type_reference.go:24)
        | _ => .undef                                -- stashReference, plain value
      let σ ← getSt
      if !isFunction σ vl then throwErr "TypeError"
      else (match vl with
        | .ref fo => do let v ← callObj n fo this argumentList; pure (.val v)
        | _ => throwErr "TypeError")
    | .mcall o p args => do                                                          -- callee = dot expression
      let callee ← evalE n (.get o p)
      let vl ← resolve callee
      let argumentList ← evalArgs n args
      let this : V := match callee with
        | .ref (.prop (some b) _) => .ref b
        | .ref (.pprop _ _ primitive) => primitive
        | _ => .undef
      let σ ← getSt
      if !isFunction σ vl then throwErr "TypeError"
      else (match vl with
        | .ref fo => do let v ← callObj n fo this argumentList; pure (.val v)
        | _ => throwErr "TypeError")
    | .new f args => do                                                              -- :267 new expression
      let callee ← evalE n f
      let vl ← resolve callee                        -- 11.2.2 step 2
      let argumentList ← evalArgs n args
      let σ ← getSt
      if !isFunction σ vl then throwErr "TypeError"
      else (match vl with
        | .ref fo => do let v ← constructObj n fo argumentList; pure (.val v)
        | _ => throwErr "TypeError")
    | .fcc k => pure (.val (.str (String.singleton (Char.ofNat k))))                  -- builtin_string.go fromCharCode
    | .accFn _ f => do                                                               -- :325 object literal, case "get" / "set"
      let sc ← curScope
      let _ ← newObject                                                                  -- result := rt.newObject()
      let o ← newNodeFunction f sc.lexical                                               -- rt.newNodeFunction(…, rt.scope.lexical)
      pure (.val (.ref o))                                                               -- …getOwnPropertyDescriptor(…).get / .set
    | .hostFn => do                                                                  -- a function made by vm.Set
      let o ← allocObj (nativeFn "hostThis" 0)
      pure (.val (.ref o))
    | .fnCtor f => do                                                                -- builtin_function.go:32 builtinNewFunctionNative
      let o ← newNodeFunction f globalStash                                              -- :49 … rt.globalStash
      pure (.val (.ref o))
    | .func name ps vs ds body => do                                                 -- :53 function literal
      let sc ← curScope
      (match name with
       | none => do let o ← newNodeFunction (.func name ps vs ds body) sc.lexical; pure (.val (.ref o))
       | some nm => do
         let localStash ← allocStash (.dcl (some sc.lexical) [])                          -- newDeclarationStash
         let o ← newNodeFunction (.func name ps vs ds body) localStash
         setDclProps localStash [(nm, { value := .ref o, mutable_ := false, deletable := false, readable := true })]
         pure (.val (.ref o)))
    | .obj props => do                                                               -- :303 object literal
      let result ← newObject
      evalProps n props result
      pure (.val (.ref result))
    | .add a b => do                                                                 -- :134 binary expression
      let lv ← resolve (← evalE n a)
      let rv ← resolve (← evalE n b)
      pure (.val (binAdd lv rv))
    | .sub a b => do
      let lv ← resolve (← evalE n a)
      let rv ← resolve (← evalE n b)
      pure (.val (binSub lv rv))
    | .lt a b => do                                                                  -- :156 comparison
      let lv ← resolve (← evalE n a)
      let rv ← resolve (← evalE n b)
      pure (.val (binLt lv rv))
    | .seq a b => do
      let lv ← resolve (← evalE n a)
      let rv ← resolve (← evalE n b)
      pure (.val (binSeq lv rv))
    | .cond t a b => do                                                              -- :249 conditional expression
      let test ← evalE n t
      let tv ← resolve test
      if truthy tv then do let v ← resolve (← evalE n a); pure (.val v)
      else do let v ← resolve (← evalE n b); pure (.val v)
    | .wproto k =>
      pure (.val (.ref (if k = "String" then strProto else if k = "Number" then numProto else if k = "Boolean" then boolProto else objProto)))
    | .defAcc o p t => do                                                            -- builtin_object.go:119
      let ov ← resolve (← evalE n o)
      (match ov with
       | .ref a => do defineAccessor a p t; pure (.val ov)
       | _ => throwErr "TypeError")
    | .opSet o p e1 => do                                                            -- :118 assign expression, operator +=
      let left ← evalE n (.get o p)
      let leftValue ← resolve left                   -- :123 the old value is read before the right-hand side
      let right ← evalE n e1
      let rightValue ← resolve right
      let result := binAdd leftValue rightValue
      (match left with | .ref r => rtPutValue r result | .val _ => pure ())
      pure (.val result)
    | .incr o p => do                                                                -- :395 postfix ++
      let target ← evalE n (.get o p)
      let targetValue ← resolve target
      let oldValue := binSub targetValue (.num 0)    -- targetValue.float64()
      let newValue := binAdd oldValue (.num 1)
      (match target with | .ref r => rtPutValue r newValue | .val _ => pure ())
      pure (.val oldValue)
    | .protoOf e1 => do                                                              -- builtin_object.go builtinObjectGetPrototypeOf
      let v ← resolve (← evalE n e1)
      (match v with
       | .ref a => do
         let σ ← getSt
         (match σ.obj? a with
          | some o => pure (.val (match o.proto with | some q => .ref q | none => .null))
          | none => pure (.val .null))
       | _ => throwErr "TypeError")
    | .regex => do                                                                   -- :83 newRegExpDirect (type_regexp.go:19)
      let a ← allocObj { cls := "RegExp", proto := some objProto,
                         props := [("global", p000 (.bool false)), ("ignoreCase", p000 (.bool false)), ("multiline", p000 (.bool false)),
                                   ("lastIndex", p100 (.num 0)), ("source", p000 (.str "x"))] }
      pure (.val (.ref a))
    | .delX e1 => do                                                                 -- :341 unary DELETE
      let target ← evalE n e1
      (match target with
       | .ref r => do let b ← refDelete r; pure (.val (.bool b))
       | .val _ => pure (.val (.bool true)))
    | .not a => do
      let v ← resolve (← evalE n a)
      pure (.val (.bool (!truthy v)))
    | .typeof e1 => do                                                               -- :341 unary TYPEOF
      let target ← evalE n e1
      (match target with
       | .ref (.prop none _) => pure (.val (.str "undefined"))                       -- invalid reference
       | _ => do
         let v ← resolve target
         let σ ← getSt
         pure (.val (.str (typeofV σ v))))
    | .inst a f => do                                                                -- evaluate.go:120
      let lv ← resolve (← evalE n a)
      let rv ← resolve (← evalE n f)
      (match rv with
       | .ref fo => do let b ← hasInstance n fo lv; pure (.val (.bool b))
       | _ => throwErr "TypeError")
    | .val e1 => do                                                                  -- :321 sequence expression
      let v ← resolve (← evalE n e1)
      pure (.val v)
    | .log e1 => do                                                                  -- the host function `log`
      let v ← resolve (← evalE n e1)
      let t ← tokV v
      modifySt fun σ => { σ with trace := σ.trace ++ [t] }
      pure (.val v)
    | .defNE o p e1 => do                                                            -- builtin_object.go:119
      let ov ← resolve (← evalE n o)
      let v ← resolve (← evalE n e1)
      (match ov with
       | .ref a => do dropAccessor a p; let _ ← defineOwnProperty a p (p101 v) true; pure (.val ov)
       | _ => throwErr "TypeError")
    | .defFix o p e1 => do                                                           -- builtin_object.go:119
      let ov ← resolve (← evalE n o)
      let v ← resolve (← evalE n e1)
      (match ov with
       | .ref a => do dropAccessor a p; let _ ← defineOwnProperty a p (p000 v) true; pure (.val ov)
       | _ => throwErr "TypeError")
    | .defRO o p e1 => do                                                            -- builtin_object.go:119
      let ov ← resolve (← evalE n o)
      let v ← resolve (← evalE n e1)
      (match ov with
       | .ref a => do dropAccessor a p; let _ ← defineOwnProperty a p { value := v, w := false, e := true, c := true } true; pure (.val ov)
       | _ => throwErr "TypeError")
    | .evalD vs ds body =>                                                           -- builtin.go:17, call.eval = true
      -- type_function.go:169–172: a direct call enters no scope
      do let v ← evalProgram n vs ds body true; pure (.val v)
    | .evalI vs ds body => do                                                        -- builtin.go:17, call.eval = false
      let sc ← curScope
      -- type_function.go:176–194: the native call gets a function scope of its own …
      let _ ← enterFunctionScope (some sc.lexical) .undef
      let v ← deferM (do
          -- … and builtinGlobalEval enters the global one (builtin.go:24–28)
          enterGlobalScope
          deferM (evalProgram n vs ds body true) leaveScope)
        leaveScope
      pure (.val v)
termination_by structural n => n

/-- the argument loop of the call / new expressions (:195, :272) -/
def evalArgs : Nat → FEs → M (List V)
  | 0, _ => outOfFuel
  | _+1, .nil => pure []
  | n+1, .cons e r => do
    let v ← resolve (← evalE n e)
    let vs ← evalArgs n r
    pure (v :: vs)
termination_by structural n => n

/-- cmpl_evaluate_expression.go:303: `result.defineProperty(key, value, 0o111, false)` per property -/
def evalProps : Nat → FProps → Nat → M Unit
  | 0, _, _ => outOfFuel
  | _+1, .nil, _ => pure ()
  | n+1, .cons k e r, result => do
    let v ← resolve (← evalE n e)
    let _ ← defineProperty result k (p111 v) false
    evalProps n r result
termination_by structural n => n

/-- cmpl_evaluate.go:7 cmplEvaluateNodeProgram(node, eval): eval = true as called by builtinGlobalEval
    (builtin.go:29–33), false for the program itself -/
def evalProgram : Nat → List String → FDecls → FSs → Bool → M V
  | 0, _, _, _, _ => outOfFuel
  | n+1, vs, ds, body, eval => do
    functionDeclaration n ds eval
    variableDeclaration vs eval
    let r ← evalList n body .empty
    pure (match r with | .val v => v | .ret v => v | _ => .undef)
termination_by structural n => n

/-- type_function.go:164 object.call -/
def callObj : Nat → Nat → V → List V → M V
  | 0, _, _, _ => outOfFuel
  | n+1, o, this, argumentList => do
    let σ ← getSt
    match σ.obj? o with
    | none => throwErr "TypeError"
    | some ob =>
      match ob.val with
      | .native name => do
        -- :176–194: a scope for the native call, left by a defer
        let sc ← curScope
        let _ ← enterFunctionScope (some sc.lexical) this
        deferM (nativeCall n name this argumentList) leaveScope
      | .bindFn target bthis bargs => callObj n target bthis (bargs ++ argumentList)       -- :205
      | .nodeFn node fstash => do                                                       -- :210
        let stash ← enterFunctionScope (some fstash) this
        deferM (callNodeFunction n o stash node argumentList) leaveScope
      | _ => throwErr "TypeError"                                                       -- :227
termination_by structural n => n

/-- builtin_function.go: builtinFunctionCall (:92), builtinFunctionApply (:62), builtinFunctionBind (:108) -/
def nativeCall : Nat → String → V → List V → M V
  | 0, _, _, _ => outOfFuel
  | n+1, name, this, args => do
    let σ ← getSt
    if name = "proto" then pure .undef           -- Function.prototype itself accepts anything and returns undefined
    else if name = "hostThis" then                -- the harness's host function: FunctionCall.This as it arrives
      pure (.str (match this with
        | .undef => "undefined" | .null => "null"
        | .str s => "string:" ++ s
        | .num k => "number:" ++ toString k
        | .nan => "number:NaN"
        | .bool b => "boolean:" ++ (if b then "true" else "false")
        | .ref _ => if isCall σ this then "function" else "object"))
    else if !isCall σ this then throwErr "TypeError"
    else match this with
      | .ref thisObject =>
        let arg0 := args.head?.getD .undef
        let this' : V := match arg0 with | .undef => .ref gObj | t => t
        if name = "call" then callObj n thisObject this' (args.drop 1)
        else if name = "apply" then
          (match (args.drop 1).head?.getD .undef with
           | .undef => callObj n thisObject this' []
           | .null => callObj n thisObject this' []
           | .ref arr => do
             let len ← objGet arr "length"
             let k : Nat := toUint32 len                                        -- builtin_function.go:93 toUint32
             if k > 500000 then throwErr "RangeError"                           -- :94 maxArgumentListLength
             else do
               let vals ← applyArgs arr k 0
               callObj n thisObject this' vals
           | _ => throwErr "TypeError")
        else if name = "bind" then do
          let b ← newBoundFunction thisObject this' (args.drop 1)
          pure (.ref b)
        else throwErr "TypeError"
      | _ => throwErr "TypeError"
termination_by structural n => n

/-- cmpl_evaluate.go:27 cmplCallNodeFunction -/
def callNodeFunction : Nat → Nat → Nat → FE → List V → M V
  | 0, _, _, _, _ => outOfFuel
  | n+1, function, stash, node, argumentList =>
    match node with
    | .func _ ps vs ds body => do
      instantiateNode n function stash ps vs ds argumentList
      let result ← evalBlock n body                                                     -- :74 node.body is a block
      -- :75–79, then type_function.go:221–224
      pure (match result with | .ret v => v | _ => .undef)
    | _ => throwErr "TypeError"
termination_by structural n => n

/-- type_function.go construct, defaultConstruct (:3), bindFunctionObject.construct (:103: the target's
    [[Construct]] with the bound arguments followed by the call's) -/
def constructObj : Nat → Nat → List V → M V
  | 0, _, _ => outOfFuel
  | n+1, o, argumentList => do
    let σ ← getSt
    match σ.obj? o with
    | none => throwErr "TypeError"
    | some ob =>
      match ob.val with
      | .nodeFn .. => defaultConstruct n o argumentList
      | .bindFn target _ bargs => constructObj n target (bargs ++ argumentList)
      | .native _ => defaultConstruct n o argumentList
      | _ => throwErr "TypeError"

def defaultConstruct : Nat → Nat → List V → M V
  | 0, _, _ => outOfFuel
  | n+1, fn, argumentList => do
    let obj ← newObject
    let prototype ← objGet fn "prototype"
    let p : Nat := match prototype with | .ref p => p | _ => objProto
    let σ ← getSt
    (match σ.obj? obj with
     | some ob => setObj obj { ob with proto := some p }
     | none => pure ())
    let value ← callObj n fn (.ref obj) argumentList
    pure (match value with | .ref r => .ref r | _ => .ref obj)
termination_by structural n => n

/-- type_function.go:264 hasInstance -/
def hasInstance : Nat → Nat → V → M Bool
  | 0, _, _ => outOfFuel
  | n+1, o, of => do
    let σ ← getSt
    if !isCall σ (.ref o) then throwErr "TypeError"
    else match σ.obj? o with
      | none => throwErr "TypeError"
      | some ob =>
        match ob.val with
        | .bindFn target _ _ => hasInstance n target of
        | _ =>
          match of with
          | .ref va => do
            let prototype ← objGet o "prototype"
            (match prototype with
             | .ref p => do
               let σ ← getSt
               pure (match σ.obj? va with
                 | some vo => protoWalk σ (σ.heap.length + 1) vo.proto p
                 | none => false)
             | _ => throwErr "TypeError")
          | _ => pure false
termination_by structural n => n

/-- cmpl_evaluate_statement.go:10 cmplEvaluateNodeStatement -/
def evalS : Nat → FS → M SV
  | 0, _ => outOfFuel
  | n+1, s =>
    match s with
    | .expr e => do let v ← resolve (← evalE n e); pure (.val v)                          -- :63
    | .ret none => pure (.ret .undef)                                                   -- :98
    | .ret (some e) => do let v ← resolve (← evalE n e); pure (.ret v)
    | .ifS c t e => do                                                                  -- :313
      let tv ← resolve (← evalE n c)
      modifySt fun σ => { σ with labels := [] }                                         -- rt.labels = nil (12.12)
      if truthy tv then evalBlock n t
      else (match e with
        | .nil => pure .empty                                                           -- rendered without `else`
        | _ => evalBlock n e)
    | .whileS c b => do                                                                 -- :418
      let σ ← getSt
      let labels := σ.labels ++ [""]
      modifySt fun σ => { σ with labels := [] }
      evalWhile n c b labels .empty
    | .throwS e => do let v ← resolve (← evalE n e); throwVal v                           -- :107
    | .tryS b hasCatch param cb hasFin f => do                                          -- :378
      let r1 ← tryCatchEvaluate (evalBlock n b)
      let r2 ← (match r1 with
        | .error exc =>
          if hasCatch then do
            let sc ← curScope
            let outer := sc.lexical
            let stash ← allocStash (.dcl (some outer) [])
            modifySt (setLexical stash)
            deferM (do
                setValue stash param exc false
                tryCatchEvaluate (evalBlock n cb))
              (setLexical outer)
          else pure (.error exc)
        | .ok v => pure (.ok v))
      let fin ← (if hasFin then evalBlock n f else pure .empty)
      (match fin with
       | .ret v => pure (.ret v)
       | .brk l c => pure (.brk l c)
       | .cont l c => pure (.cont l c)
       | _ =>
         match r2 with
         | .error exc => throwVal exc
         | .ok v => pure v)
    | .varS x e => do                                                                   -- :113, expression.go:443
      let sc ← curScope
      let left ← getIdentifierReference (← stashFuel) (some sc.lexical) x
      let rv ← resolve (← evalE n e)
      rtPutValue left rv
      pure .empty
    | .block b => evalBlock n b                                                         -- :26
    | .withS oe b => do                                                                 -- :459
      let obj ← evalE n oe
      let sc ← curScope
      let outer := sc.lexical
      let ov ← resolve obj
      let o ← toObject ov
      let lexical ← allocStash (.obj (some outer) o)
      modifySt (setLexical lexical)
      modifySt fun σ => { σ with labels := [] }                                         -- rt.labels = nil (12.12)
      deferM (evalBlock n b) (setLexical outer)
    | .forIn _ x oe b => do                                                             -- :182
      let σ ← getSt
      let labels := σ.labels ++ [""]
      modifySt fun σ => { σ with labels := [] }
      forInRun n x oe b labels
    | .forInI x ie oe b => do                                                           -- :182, `for (var x = ie in oe)`
      let σ ← getSt
      let labels := σ.labels ++ [""]
      modifySt fun σ => { σ with labels := [] }
      -- the initialiser: cmplEvaluateNodeVariableExpression once, before the source expression
      let sc ← curScope
      let left ← getIdentifierReference (← stashFuel) (some sc.lexical) x
      let rv ← resolve (← evalE n ie)
      rtPutValue left rv
      forInRun n x oe b labels
    | .label l s1 => do                                                                 -- :76
      modifySt fun σ => { σ with labels := σ.labels ++ [l] }
      let value ← deferM (evalS n s1) (fun σ => { σ with labels := σ.labels.dropLast })
      (match value with
       | .brk t c => if t = l then pure (carried c .empty) else pure value
       | _ => pure value)
    | .switchS d cs => do                                                               -- :356 switch statement
      let σ ← getSt
      let labels := σ.labels ++ [""]
      modifySt fun σ => { σ with labels := [] }
      let discriminantResult ← resolve (← evalE n d)
      let found ← switchSelect n discriminantResult cs 0
      let target := match found with | some i => some i | none => defaultIdx cs 0      -- target := node.defaultIdx
      (match target with
       | none => pure .empty
       | some t => switchRun n (dropCases cs t) labels .empty)
    | .brk l => pure (.brk (l.getD "") none)                                            -- :37
    | .cont l => pure (.cont (l.getD "") none)
termination_by structural n => n

/-- cmplEvaluateNodeForInStatement from the source expression on -/
def forInRun : Nat → String → FE → FSs → List String → M SV
  | 0, _, _, _, _ => outOfFuel
  | n+1, x, oe, b, labels => do
    let sourceValue ← resolve (← evalE n oe)
    (match sourceValue with
     | .undef => pure .empty
     | .null => pure .empty
     | _ => do
       let sourceObject ← toObject sourceValue
       let σ ← getSt
       let hasProto : Bool := match σ.obj? sourceObject with
         | some o => o.proto.isSome
         | none => false
       forInChain n x b labels sourceObject hasProto (some sourceObject) .empty [])
termination_by structural n => n

/-- the nodeBlockStatement case, cmpl_evaluate_statement.go:26–36 -/
def evalBlock : Nat → FSs → M SV
  | 0, _ => outOfFuel
  | n+1, list => do
    let σ ← getSt
    let labels := σ.labels
    modifySt fun σ => { σ with labels := [] }
    let value ← evalList n list .empty
    match value with
    | .brk t c => if consumes labels t then pure (carried c .empty) else pure value
    | _ => pure value
termination_by structural n => n

/-- cmpl_evaluate_statement.go:132 cmplEvaluateNodeStatementList: the value starts empty; an abrupt completion
    takes the value so far along -/
def evalList : Nat → FSs → SV → M SV
  | 0, _, _ => outOfFuel
  | _+1, .nil, result => pure result
  | n+1, .cons s r, result => do
    let value ← evalS n s
    match value with
    | .empty => evalList n r result
    | .val v => evalList n r (.val v)
    | _ => pure (carrying value result)
termination_by structural n => n

/-- :364–372: `calculateComparison(token.STRICT_EQUAL, discriminantResult, evaluate(test))` clause by clause -/
def switchSelect : Nat → V → FCases → Nat → M (Option Nat)
  | 0, _, _, _ => outOfFuel
  | _+1, _, .nil, _ => pure none
  | n+1, dv, .dflt _ r, i => switchSelect n dv r (i+1)
  | n+1, dv, .case e _ r, i => do
    let v ← resolve (← evalE n e)
    match binSeq dv v with
    | .bool true => pure (some i)
    | _ => switchSelect n dv r (i+1)
termination_by structural n => n

/-- :377–392 the statements of one clause -/
def switchStmts : Nat → FSs → List String → SV → M Step
  | 0, _, _, _ => outOfFuel
  | _+1, .nil, _, result => pure (.next result)
  | n+1, .cons s r, labels, result => do
    let value ← evalS n s
    match value with
    | .empty => switchStmts n r labels result
    | .val v => switchStmts n r labels (.val v)
    | .brk t c => if consumes labels t then pure (.brk result c) else pure (.ret value result)   -- evaluateBreak
    | _ => pure (.ret value result)
termination_by structural n => n

/-- :375–395 `for _, clause := range node.body[target:]` -/
def switchRun : Nat → FCases → List String → SV → M SV
  | 0, _, _, _ => outOfFuel
  | _+1, .nil, _, result => pure result
  | n+1, .case _ b r, labels, result => do
    let st ← switchStmts n b labels result
    match st with
    | .next acc => switchRun n r labels acc
    | .brk acc c => pure (carried c acc)
    | .ret v acc => pure (carrying v acc)
    | .cont acc _ => pure acc
  | n+1, .dflt b r, labels, result => do
    let st ← switchStmts n b labels result
    match st with
    | .next acc => switchRun n r labels acc
    | .brk acc c => pure (carried c acc)
    | .ret v acc => pure (carrying v acc)
    | .cont acc _ => pure acc
termination_by structural n => n

/-- the statements of a loop body, one by one (`for _, node := range body`) -/
def loopBody : Nat → FSs → List String → SV → SV → M Step
  | 0, _, _, _, _ => outOfFuel
  | _+1, .nil, _, result, _ => pure (.next result)
  | n+1, .cons s r, labels, result, pass => do
    let value ← evalS n s
    match value with
    | .empty => loopBody n r labels result pass
    | .val v => loopBody n r labels (.val v) (.val v)                       -- `pass, result = value, value`
    | .ret _ => pure (.ret value pass)                                      -- `return value.carrying(pass)`
    | .brk t c => if consumes labels t then pure (.brk result c) else pure (.ret value pass)
    | .cont t c => if consumes labels t then pure (.cont result c) else pure (.ret value pass)
termination_by structural n => n

/-- cmpl_evaluate_statement.go:418 cmplEvaluateModeWhileStatement -/
def evalWhile : Nat → FE → FSs → List String → SV → M SV
  | 0, _, _, _, _ => outOfFuel
  | n+1, test, body, labels, result => do
    let tv ← resolve (← evalE n test)
    if !truthy tv then pure result
    else do
      let st ← loopBody n body labels result .empty                          -- `pass := emptyValue`
      match st with
      | .next r => evalWhile n test body labels r
      | .cont r c => evalWhile n test body labels (carried c r)
      | .brk r c => pure (carried c r)
      | .ret v r => pure (carrying v r)
termination_by structural n => n

/-- cmpl_evaluate_statement.go:208 `for obj != nil { … obj = obj.prototype … }` -/
def forInChain : Nat → String → FSs → List String → Nat → Bool → Option Nat → SV → List String → M SV
  | 0, _, _, _, _, _, _, _, _ => outOfFuel
  | _+1, _, _, _, _, _, none, result, _ => pure result
  | n+1, x, body, labels, sourceObject, keep, some obj, result, visited => do
    let σ ← getSt
    match σ.obj? obj with
    | none => pure result
    | some o =>
      -- objectEnumerate (object_class.go:22): a snapshot of propertyOrder; stringEnumerate (type_string.go:92)
      -- (name, false) = handed to `each` by stringEnumerate without a look at the property map
      let own : List (String × Bool) := o.props.map fun p => (p.1, true)
      let names : List (String × Bool) := match o.val with
        | .string s => ((List.range s.length).map fun i => (toString i, false)) ++ own
        | _ => own
      let r ← forInNames n x body labels sourceObject keep obj names result .empty visited
      match r with
      | (some result', _) => pure result'                                  -- `if obj == nil { break }`
      | (none, (enumerateValue, visited')) =>
        let σ ← getSt
        let next := match σ.obj? obj with | some o => o.proto | none => none
        forInChain n x body labels sourceObject keep next
          (match enumerateValue with | .empty => result | ev => ev) visited'
termination_by structural n => n

/-- `obj.enumerate(false, func(name string) bool { … })`: `some result` = `obj = nil; return false` -/
def forInNames : Nat → String → FSs → List String → Nat → Bool → Nat → List (String × Bool) → SV → SV → List String →
    M (Option SV × (SV × List String))
  | 0, _, _, _, _, _, _, _, _, _, _ => outOfFuel
  | _+1, _, _, _, _, _, _, [], _, ev, visited => pure (none, (ev, visited))
  | n+1, x, body, labels, sourceObject, keep, obj, (name, check) :: rest, result, ev, visited => do
    -- object_class.go:28–34: `if !exists continue`, `if all || prop.enumerable()`
    let prop ← readProperty obj name
    let enumerable : Bool := !check || (match prop with | some p => p.e | none => false)
    if !enumerable then forInNames n x body labels sourceObject keep obj rest result ev visited
    else do
      -- :213–217 the shadow loop
      let shadowed ← shadowLoop (← chainFuel) (some sourceObject) obj name
      if shadowed then forInNames n x body labels sourceObject keep obj rest result ev visited
      -- :218–223 the visited set
      else if keep && visited.contains name then forInNames n x body labels sourceObject keep obj rest result ev visited
      else do
        let visited' := if keep then name :: visited else visited
        -- :224–231: the loop variable_
        let sc ← curScope
        let into ← getIdentifierReference (← stashFuel) (some sc.lexical) x
        rtPutValue into (.str name)
        let st ← loopBody n body labels ev .empty
        match st with
        | .ret v pass => pure (some (carrying v pass), (ev, visited'))       -- result = value.carrying(pass); obj = nil
        | .brk ev' c => pure (some (carried c (match ev' with | .empty => result | e => e)), (ev', visited'))
        | .cont ev' c => forInNames n x body labels sourceObject keep obj rest result (carried c ev') visited'
        | .next ev' => forInNames n x body labels sourceObject keep obj rest result ev' visited'
termination_by structural n => n

end

/-- otto.Run: cmplEvaluateNodeProgram(node, eval = false) (cmpl_evaluate.go:7): the global scope is entered
    and left by a defer; the result as cmplRunOrEval (runtime.go:823) hands it out -/
def runProgram (n : Nat) (vs : List String) (ds : FDecls) (body : FSs) : R V :=
  (do enterGlobalScope
      deferM (evalProgram n vs ds body false) leaveScope) initSt

/-- two otto.Run calls on one runtime -/
def runProgram2 (n : Nat) (vs1 : List String) (ds1 : FDecls) (body1 : FSs) (vs2 : List String) (ds2 : FDecls) (body2 : FSs) : R V :=
  match (do enterGlobalScope
            deferM (evalProgram n vs1 ds1 body1 false) leaveScope) initSt with
  | .ok _ σ1 => (do enterGlobalScope
                    deferM (evalProgram n vs2 ds2 body2 false) leaveScope) σ1
  | r => r

/-- the reply token of the `fn` stream, as the harness builds it from otto's answer (cmd/c01/impl.go implFn) -/
def out (r : R V) : String :=
  match r with
  | .fuel => "fuel"
  | .ok v σ => (match tokV v σ with
    | .ok t _ => "t:[" ++ ",".intercalate σ.trace ++ "];k:normal:" ++ t
    | _ => "tok")
  | .throw (.val v) σ => (match tokV v σ with
    | .ok t _ => "t:[" ++ ",".intercalate σ.trace ++ "];k:throw:" ++ t
    | _ => "tok")
  | .throw (.err name) σ => "t:[" ++ ",".intercalate σ.trace ++ "];k:throw:err:" ++ name

end OttoVerif.C01.FnM
