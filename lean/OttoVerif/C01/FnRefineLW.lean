/-
  C01/FnRefineLW — the evaluator simulation FnModel → FnSpec beyond the read-only fragment: expressions that
  ASSIGN to local (declarative) bindings.  The states are still related by `FnRefine.absSt` (no allocation in
  this fragment), but they change; what stays fixed is the SHAPE of a state (heap, scopes, and the stashes up
  to the values of their bindings), and every invariant the bottom-up lemmas need is a property of the shape.
  The ledger is FnTheorems.lean.
-/
import OttoVerif.C01.FnRefine
namespace OttoVerif.C01.FnRefine
open OttoVerif.C01
set_option linter.unusedSimpArgs false
set_option linter.unusedVariables false

/-! ## the shape of a state -/

def eraseP (p : FnM.DclProp) : FnM.DclProp := { p with value := .undef }

def eraseStash : FnM.Stash → FnM.Stash
  | .obj outer o => .obj outer o
  | .dcl outer ps => .dcl outer (ps.map fun kp => (kp.1, eraseP kp.2))
  | .fn outer ps ar => .fn outer (ps.map fun kp => (kp.1, eraseP kp.2)) ar

/-- same heap, same scopes, the same stashes up to the values bound in declarative stashes (the host log is free) -/
structure Shape (σ σ' : FnM.St) : Prop where
  heap : σ'.heap = σ.heap
  scopes : σ'.scopes = σ.scopes
  stashes : σ'.stashes.map eraseStash = σ.stashes.map eraseStash

theorem Shape.refl (σ : FnM.St) : Shape σ σ := ⟨rfl, rfl, rfl⟩
theorem Shape.symm {σ σ' : FnM.St} (h : Shape σ σ') : Shape σ' σ := ⟨h.heap.symm, h.scopes.symm, h.stashes.symm⟩
theorem Shape.trans {σ σ' σ'' : FnM.St} (h : Shape σ σ') (h' : Shape σ' σ'') : Shape σ σ'' :=
  ⟨h'.heap.trans h.heap, h'.scopes.trans h.scopes, h'.stashes.trans h.stashes⟩
theorem Shape.trace (σ : FnM.St) (t : List String) : Shape σ { σ with trace := t } := ⟨rfl, rfl, rfl⟩

theorem Shape.obj {σ σ' : FnM.St} (h : Shape σ σ') (a : Nat) : σ'.obj? a = σ.obj? a := by
  simp only [FnM.St.obj?, h.heap]

theorem Shape.len {σ σ' : FnM.St} (h : Shape σ σ') : σ'.stashes.length = σ.stashes.length := by
  have := congrArg List.length h.stashes
  simpa using this

theorem Shape.stash {σ σ' : FnM.St} (h : Shape σ σ') (j : Nat) :
    (σ'.stash? j).map eraseStash = (σ.stash? j).map eraseStash := by
  have := congrArg (fun l => l[j]?) h.stashes
  simpa [FnM.St.stash?] using this

theorem Shape.dclProps {σ σ' : FnM.St} (h : Shape σ σ') (j : Nat) :
    (FnM.dclProps σ' j).map (fun kp => (kp.1, eraseP kp.2)) = (FnM.dclProps σ j).map (fun kp => (kp.1, eraseP kp.2)) := by
  have hs := h.stash j
  unfold FnM.dclProps
  cases h1 : σ.stash? j with
  | none =>
    rw [h1] at hs
    cases h2 : σ'.stash? j with
    | none => rfl
    | some s' => rw [h2] at hs; simp at hs
  | some s =>
    rw [h1] at hs
    cases h2 : σ'.stash? j with
    | none => rw [h2] at hs; simp at hs
    | some s' =>
      rw [h2] at hs
      simp only [Option.map_some, Option.some.injEq] at hs
      cases s <;> cases s' <;> simp [eraseStash] at hs ⊢
      · exact hs.2
      · exact hs.2.1

theorem Shape.lookup {σ σ' : FnM.St} (h : Shape σ σ') (j : Nat) (x : String) :
    (Fn.lookupA x (FnM.dclProps σ' j)).map eraseP = (Fn.lookupA x (FnM.dclProps σ j)).map eraseP := by
  rw [← lookupA_map eraseP x, ← lookupA_map eraseP x, h.dclProps j]

/-- a binding found in σ is found in σ', with the same flags -/
theorem Shape.lookup_some {σ σ' : FnM.St} (h : Shape σ σ') (j : Nat) (x : String) (p : FnM.DclProp)
    (hl : Fn.lookupA x (FnM.dclProps σ j) = some p) :
    ∃ p', Fn.lookupA x (FnM.dclProps σ' j) = some p' ∧ p'.mutable_ = p.mutable_ ∧ p'.readable = p.readable ∧
      p'.deletable = p.deletable := by
  have := h.lookup j x
  rw [hl] at this
  cases h' : Fn.lookupA x (FnM.dclProps σ' j) with
  | none => rw [h'] at this; simp at this
  | some p' =>
    rw [h'] at this
    simp only [Option.map_some, Option.some.injEq, eraseP, FnM.DclProp.mk.injEq, true_and] at this
    exact ⟨p', rfl, this.1, this.2.2, this.2.1⟩

/-! ## what depends on the shape only -/

theorem hasProp_heap (s s' : Fn.St) (h : s'.heap = s.heap) (x : String) :
    ∀ (n a : Nat), Fn.hasProp s' n a x = Fn.hasProp s n a x := by
  intro n
  induction n with
  | zero => intro a; rfl
  | succ n ih =>
    intro a
    have ho : s'.obj? a = s.obj? a := by simp only [Fn.St.obj?, h]
    simp only [Fn.hasProp, ho]
    cases s.obj? a with
    | none => rfl
    | some o =>
      simp only []
      cases Fn.lookupA x o.props with
      | some _ => rfl
      | none =>
        simp only []
        cases o.proto with
        | none => rfl
        | some q => exact ih q

theorem Shape.absHeap {σ σ' : FnM.St} (h : Shape σ σ') : (absSt σ').heap = (absSt σ).heap := by
  simp only [absSt, h.heap]

/-- what §10.2.2.1 looks at in an environment record: its kind, its outer record, whether it has the name -/
theorem Shape.envView {σ σ' : FnM.St} (h : Shape σ σ') (i : Nat) (x : String) :
    ((absSt σ').envs[i]?).map (fun e => (e.obj, e.outer, (Fn.lookupA x e.vars).isSome)) =
    ((absSt σ).envs[i]?).map (fun e => (e.obj, e.outer, (Fn.lookupA x e.vars).isSome)) := by
  rw [absSt_env, absSt_env]
  have hs := h.stash i
  have hl := h.lookup i x
  unfold FnM.dclProps at hl
  cases h1 : σ.stash? i with
  | none =>
    rw [h1] at hs
    cases h2 : σ'.stash? i with
    | none => rfl
    | some s' => rw [h2] at hs; simp at hs
  | some s =>
    rw [h1] at hs hl
    cases h2 : σ'.stash? i with
    | none => rw [h2] at hs; simp at hs
    | some s' =>
      rw [h2] at hs hl
      simp only [Option.map_some, Option.some.injEq] at hs ⊢
      cases s <;> cases s' <;> simp only [eraseStash, FnM.Stash.obj.injEq, FnM.Stash.dcl.injEq, FnM.Stash.fn.injEq, reduceCtorEq] at hs
      · obtain ⟨rfl, rfl⟩ := hs; rfl
      · simp only [absStash, absDcl, Prod.mk.injEq, true_and]
        refine ⟨hs.1, ?_⟩
        rw [lookupA_map (fun p : FnM.DclProp => p.value), lookupA_map (fun p : FnM.DclProp => p.value)]
        have := congrArg Option.isSome hl
        simpa using this
      · simp only [absStash, absDcl, Prod.mk.injEq, true_and]
        refine ⟨hs.1, ?_⟩
        rw [lookupA_map (fun p : FnM.DclProp => p.value), lookupA_map (fun p : FnM.DclProp => p.value)]
        have := congrArg Option.isSome hl
        simpa using this

/-- identifier resolution is a function of the shape -/
theorem Shape.envResolve {σ σ' : FnM.St} (h : Shape σ σ') (x : String) :
    ∀ (n i : Nat), Fn.envResolve (absSt σ') n i x = Fn.envResolve (absSt σ) n i x := by
  intro n
  induction n with
  | zero => intro i; rfl
  | succ n ih =>
    intro i
    have hhp := hasProp_heap (absSt σ) (absSt σ') h.absHeap x
    have hlen : (absSt σ').heap.length = (absSt σ).heap.length := by rw [h.absHeap]
    simp only [Fn.envResolve, hlen, hhp]
    by_cases hi : i = 0
    · simp [hi]
    · simp only [hi, if_false]
      have hv := h.envView i x
      cases h1 : (absSt σ).envs[i]? with
      | none =>
        rw [h1] at hv
        cases h2 : (absSt σ').envs[i]? with
        | none => rfl
        | some e' => rw [h2] at hv; simp at hv
      | some e =>
        rw [h1] at hv
        cases h2 : (absSt σ').envs[i]? with
        | none => rw [h2] at hv; simp at hv
        | some e' =>
          rw [h2] at hv
          simp only [Option.map_some, Option.some.injEq, Prod.mk.injEq] at hv
          obtain ⟨ho, hout, hhas⟩ := hv
          simp only [ho, hout, hhas]
          cases e.outer with
          | none => rfl
          | some j => simp only [ih j]

/-! ## the invariants are invariants of the shape -/

theorem ownP_shape {σ σ' : FnM.St} (h : Shape σ σ') (a : Nat) (x : String)
    (hna : ∀ o, σ.obj? a = some o → ∀ ipn st, o.val ≠ .arguments ipn st) : ownP σ' a x = ownP σ a x := by
  unfold ownP
  rw [h.obj a]
  cases ho : σ.obj? a with
  | none => rfl
  | some o =>
    simp only []
    cases hv : o.val with
    | arguments ipn st => exact absurd hv (hna o ho ipn st)
    | _ => rfl

theorem getPropertyP_shape {σ σ' : FnM.St} (h : Shape σ σ') (hnp : NoArgsProto σ) (x : String) :
    ∀ (n a : Nat), (∀ o, σ.obj? a = some o → ∀ ipn st, o.val ≠ .arguments ipn st) →
      getPropertyP σ' n a x = getPropertyP σ n a x := by
  intro n
  induction n with
  | zero => intro a _; rfl
  | succ n ih =>
    intro a hna
    simp only [getPropertyP, ownP_shape h a x hna, h.obj a]
    cases ownP σ a x with
    | some p => rfl
    | none =>
      simp only []
      cases ho : σ.obj? a with
      | none => rfl
      | some o =>
        simp only []
        cases hq : o.proto with
        | none => rfl
        | some q =>
          simp only []
          exact ih q (fun oq hoq ipn st => hnp a o q oq ho hq hoq ipn st)

theorem ROInv.shape {σ σ' : FnM.St} {xs : List String} (hI : ROInv σ xs) (h : Shape σ σ') : ROInv σ' xs := by
  refine ⟨?_, ?_, ?_, ?_, ?_, ?_, ?_⟩
  · intro x hx a o ho
    rw [h.obj a] at ho
    exact hI.vis x hx a o ho
  · -- WF0
    have hs := h.stash 0
    have h0 : σ.stash? 0 = some (.obj none FnM.gObj) := hI.wf0
    rw [h0] at hs
    unfold WF0
    cases h2 : σ'.stash? 0 with
    | none => rw [h2] at hs; simp at hs
    | some s' =>
      rw [h2] at hs
      simp only [Option.map_some, Option.some.injEq] at hs
      cases s' <;> simp only [eraseStash, FnM.Stash.obj.injEq, reduceCtorEq] at hs
      obtain ⟨rfl, rfl⟩ := hs
      rfl
  · intro a o q oq ho hq hoq
    rw [h.obj a] at ho
    rw [h.obj q] at hoq
    exact hI.nap a o q oq ho hq hoq
  · intro a o ipn st ho hv
    rw [h.obj a] at ho
    obtain ⟨hst, hall⟩ := hI.aw a o ipn st ho hv
    refine ⟨hst, ?_⟩
    intro i pn hpn hne
    obtain ⟨p, hl, hm⟩ := hall i pn hpn hne
    obtain ⟨p', hl', hm', _, _⟩ := h.lookup_some st pn p hl
    exact ⟨p', hl', by rw [hm', hm]⟩
  · intro a o n ho hv
    rw [h.obj a] at ho
    have := hI.ew a o n ho hv
    have hna : ∀ o', σ.obj? a = some o' → ∀ ipn st, o'.val ≠ .arguments ipn st := by
      intro o' ho' ipn st hv'
      rw [ho] at ho'; cases ho'
      rw [hv] at hv'; cases hv'
    unfold getP at this ⊢
    rw [h.obj a, ho] at ⊢
    rw [ho] at this
    have hm' : mapGetP σ' o "name" = none := by simp [mapGetP, hv]
    have hm : mapGetP σ o "name" = none := by simp [mapGetP, hv]
    simp only [hm] at this
    simp only [hm', h.heap, getPropertyP_shape h hI.nap "name" _ a hna]
    exact this
  · intro j x p hl
    obtain ⟨p', hl', hm', hr', _⟩ := h.symm.lookup_some j x p hl
    rw [← hm', ← hr']
    exact hI.sr j x p' hl'
  · intro a o ho
    rw [h.obj a] at ho
    exact hI.cls a o ho

theorem StashNodup.shape {σ σ' : FnM.St} (hn : StashNodup σ) (h : Shape σ σ') : StashNodup σ' := by
  intro j
  have h1 : (FnM.dclProps σ' j).map (·.1) = ((FnM.dclProps σ' j).map (fun kp => (kp.1, eraseP kp.2))).map (·.1) := by
    simp [List.map_map, Function.comp_def]
  have h2 : (FnM.dclProps σ j).map (·.1) = ((FnM.dclProps σ j).map (fun kp => (kp.1, eraseP kp.2))).map (·.1) := by
    simp [List.map_map, Function.comp_def]
  rw [h1, h.dclProps j, ← h2]
  exact hn j

/-! ## the simulation relation -/

/-- the identifier `y` resolves, from the scope's lexical stash, to a declarative stash (not the global one) -/
def Assignable (σ : FnM.St) (sc : FnM.Scope) (y : String) : Prop :=
  ∃ j p, Fn.envResolve (absSt σ) (σ.stashes.length + 1) sc.lexical y = some j ∧ j ≠ 0 ∧
    Fn.lookupA y (FnM.dclProps σ j) = some p

theorem Assignable.shape {σ σ' : FnM.St} {sc : FnM.Scope} {y : String} (ha : Assignable σ sc y) (h : Shape σ σ') :
    Assignable σ' sc y := by
  obtain ⟨j, p, hr, hj, hl⟩ := ha
  obtain ⟨p', hl', _, _, _⟩ := h.lookup_some j y p hl
  exact ⟨j, p', by rw [h.len, h.envResolve y, hr], hj, hl'⟩

/-- what the simulation needs of a state: the read-only invariant for the identifiers read, the current scope,
    no duplicate names in a stash, and the assigned identifiers are local bindings -/
structure LWInv (σ : FnM.St) (sc : FnM.Scope) (rest : List FnM.Scope) (xs ys : List String) : Prop where
  ro : ROInv σ xs
  scp : σ.scopes = sc :: rest
  nd : StashNodup σ
  asg : ∀ y ∈ ys, Assignable σ sc y

theorem LWInv.shape {σ σ' : FnM.St} {sc : FnM.Scope} {rest : List FnM.Scope} {xs ys : List String}
    (hI : LWInv σ sc rest xs ys) (h : Shape σ σ') : LWInv σ' sc rest xs ys :=
  ⟨hI.ro.shape h, by rw [h.scopes]; exact hI.scp, hI.nd.shape h, fun y hy => (hI.asg y hy).shape h⟩

/-- the outcome of an expression of the fragment: out of fuel, or the same value / the same error on both sides, in
    states that correspond again and have the shape of the initial one -/
def LWSim (n : Nat) (e : Fn.FE) (sc : FnM.Scope) (σ : FnM.St) : Prop :=
  evalV n e σ = .fuel ∨
  (∃ v σ', evalV n e σ = .ok v σ' ∧ Fn.evalE n e (ctxOf sc) (absSt σ) = .ok v (absSt σ') ∧ Shape σ σ') ∨
  (∃ nm σ', evalV n e σ = .throw (.err nm) σ' ∧ Fn.evalE n e (ctxOf sc) (absSt σ) = Fn.throwErr (absSt σ') nm ∧ Shape σ σ')

theorem LWSim.of_ro {n : Nat} {e : Fn.FE} {sc : FnM.Scope} {σ : FnM.St} (h : ROSim n e sc σ) : LWSim n e sc σ := by
  rcases h with h | ⟨v, t, h1, h2⟩ | ⟨nm, t, h1, h2⟩
  · left; exact h
  · right; left; exact ⟨v, _, h1, h2, Shape.trace σ t⟩
  · right; right; exact ⟨nm, _, h1, h2, Shape.trace σ t⟩

/-! ## PutValue on a local binding keeps the shape -/

theorem map_erase_updateA (x : String) (v : Fn.V) (p : FnM.DclProp) :
    ∀ (ps : List (String × FnM.DclProp)), Fn.lookupA x ps = some p →
      (Fn.updateA x { p with value := v } ps).map (fun kp => (kp.1, eraseP kp.2)) = ps.map (fun kp => (kp.1, eraseP kp.2)) := by
  intro ps
  induction ps with
  | nil => intro _; rfl
  | cons q r ih =>
    obtain ⟨k, w⟩ := q
    intro hl
    by_cases hk : k = x
    · simp only [Fn.lookupA, hk, if_true, Option.some.injEq] at hl
      subst hl
      simp [Fn.updateA, hk, eraseP]
    · simp only [Fn.lookupA, hk, if_false] at hl
      simp only [Fn.updateA, hk, if_false, List.map_cons, ih hl]

theorem shape_setStash (σ : FnM.St) (j : Nat) (s s' : FnM.Stash) (hs : σ.stash? j = some s)
    (he : eraseStash s' = eraseStash s) : Shape σ { σ with stashes := Fn.setNth σ.stashes j s' } := by
  refine ⟨rfl, rfl, ?_⟩
  simp only [FnM.St.stash?] at hs
  apply List.ext_getElem?
  intro i
  simp only [List.getElem?_map]
  by_cases hij : i = j
  · subst hij
    have hlt : i < σ.stashes.length := (List.getElem?_eq_some_iff.1 hs).1
    rw [getElem?_setNth_self σ.stashes i s' hlt, hs]
    simp [he]
  · rw [getElem?_setNth_ne σ.stashes j i s' (fun h => hij h.symm)]

theorem rtPutValue_dcl_run (σ : FnM.St) (j : Nat) (x : String) (v : Fn.V) (p : FnM.DclProp)
    (hl : Fn.lookupA x (FnM.dclProps σ j) = some p) :
    ∃ σ', FnM.rtPutValue (.stash j x) v σ = .ok () σ' ∧ Shape σ σ' := by
  simp only [FnM.rtPutValue, FnM.refPutValue, FnM.setValue, bind_run, getSt_run, hasBinding_run]
  have hb : hasBindingP σ j x = true := by
    rcases dclProps_of_stash σ j x p hl with ⟨outer, hs⟩ | ⟨outer, ar, hs⟩ <;> simp [hasBindingP, hs, hl]
  rcases dclProps_of_stash σ j x p hl with ⟨outer, hs⟩ | ⟨outer, ar, hs⟩
  · simp only [hb, hs, Bool.not_true, Bool.false_eq_true, if_false, FnM.setBinding, bind_run, getSt_run, FnM.dclSetBinding, hl]
    cases hm : p.mutable_ with
    | false => exact ⟨σ, by simp [FnM.typeErrorResult], Shape.refl σ⟩
    | true =>
      simp only [if_true, FnM.setDclProps, hs, setStash_run, bind_run, pure_run, bne_self_eq_false, Bool.false_eq_true, if_false]
      refine ⟨_, rfl, shape_setStash σ j _ _ hs ?_⟩
      simp only [eraseStash, FnM.Stash.dcl.injEq, true_and]
      have := map_erase_updateA x v p (FnM.dclProps σ j) hl
      simpa [hm] using this
  · simp only [hb, hs, Bool.not_true, Bool.false_eq_true, if_false, FnM.setBinding, bind_run, getSt_run, FnM.dclSetBinding, hl]
    cases hm : p.mutable_ with
    | false => exact ⟨σ, by simp [FnM.typeErrorResult], Shape.refl σ⟩
    | true =>
      simp only [if_true, FnM.setDclProps, hs, setStash_run, bind_run, pure_run, bne_self_eq_false, Bool.false_eq_true, if_false]
      refine ⟨_, rfl, shape_setStash σ j _ _ hs ?_⟩
      simp only [eraseStash, FnM.Stash.fn.injEq, true_and, and_true]
      have := map_erase_updateA x v p (FnM.dclProps σ j) hl
      simpa [hm] using this

/-! ## the assignment to a local binding -/

theorem evalE_var_run (n : Nat) (x : String) (sc : FnM.Scope) (rest : List FnM.Scope) (σ : FnM.St)
    (hsc : σ.scopes = sc :: rest) (hv : Visible σ x) (h0 : WF0 σ) :
    FnM.evalE (n+1) (.var x) σ =
      .ok (.ref (refOf σ x (Fn.envResolve (absSt σ) (σ.stashes.length + 1) sc.lexical x))) σ := by
  simp only [FnM.evalE, bind_run, curScope_run σ sc rest hsc, stashFuel_run,
    resolve_spec σ x hv h0 (σ.stashes.length + 1) sc.lexical, pure_run]

/-- §11.13.1 for an identifier that is a local binding: the reference is made first (and stays valid: the
    right-hand side cannot change the shape), the value is stored in the stash it names -/
theorem lw_assign (n : Nat) (x : String) (e1 : Fn.FE) (sc : FnM.Scope) (rest : List FnM.Scope) (xs ys : List String)
    (hx : x ∈ xs) (hy : x ∈ ys)
    (ih : ∀ σ, LWInv σ sc rest xs ys → LWSim n e1 sc σ)
    (σ : FnM.St) (hI : LWInv σ sc rest xs ys) : LWSim (n+1) (.assign x e1) sc σ := by
  cases n with
  | zero => left; simp [evalV, FnM.evalE, FnM.outOfFuel]
  | succ n =>
    obtain ⟨j, p, hr, hj, hl⟩ := hI.asg x hy
    have hvar := evalE_var_run n x sc rest σ hI.scp (hI.ro.vis x hx) hI.ro.wf0
    have href : refOf σ x (some j) = .stash j x := by
      simp only [refOf]
      rcases dclProps_of_stash σ j x p hl with ⟨o, hs⟩ | ⟨o, ar, hs⟩ <;> simp [FnM.newReference, hs]
    have hm : evalV (n+2) (.assign x e1) σ =
        (match evalV (n+1) e1 σ with
         | .ok v s1 => (match FnM.rtPutValue (.stash j x) v s1 with
           | .ok _ s2 => .ok v s2
           | .throw t s2 => .throw t s2
           | .fuel => .fuel)
         | .throw t s1 => .throw t s1
         | .fuel => .fuel) := by
      simp only [evalV]
      rw [FnM.evalE]
      simp only [bind_run, hvar, hr, href]
      cases FnM.evalE (n+1) e1 σ with
      | fuel => rfl
      | throw t s => rfl
      | ok mv s =>
        simp only []
        cases FnM.resolve mv s with
        | fuel => rfl
        | throw t s1 => rfl
        | ok v s1 =>
          simp only []
          cases FnM.rtPutValue (.stash j x) v s1 with
          | fuel => rfl
          | throw t s2 => rfl
          | ok u s2 => rfl
    have hs : Fn.evalE (n+2) (.assign x e1) (ctxOf sc) (absSt σ) =
        (match Fn.evalE (n+1) e1 (ctxOf sc) (absSt σ) with
         | .ok v s1 => (match Fn.putIdent s1 (some j) x v with
           | .ok _ s2 => .ok v s2
           | .throw t s2 => .throw t s2
           | .fuel => .fuel)
         | .throw t s1 => .throw t s1
         | .fuel => .fuel) := by
      rw [Fn.evalE]
      simp only [ctxOf, absSt_envs_length] at hr ⊢
      simp only [hr]
      cases Fn.evalE (n+1) e1 { env := sc.lexical, venv := sc.variable_, this := .ref sc.this } (absSt σ) <;> rfl
    unfold LWSim
    rw [hm, hs]
    rcases ih σ hI with h | ⟨v, σ1, h1, h1', hsh⟩ | ⟨nm, σ1, h1, h1', hsh⟩
    · left; rw [h]
    · have hI1 := hI.shape hsh
      obtain ⟨p', hl', _, _, _⟩ := hsh.lookup_some j x p hl
      obtain ⟨σ2, hrun, hsh2⟩ := rtPutValue_dcl_run σ1 j x v p' hl'
      have hspec := putValue_dcl_spec σ1 j x v p' hj hI1.nd hl'
      rw [hrun] at hspec
      simp only [absR] at hspec
      right; left
      refine ⟨v, σ2, ?_, ?_, hsh.trans hsh2⟩
      · rw [h1]; simp only [hrun]
      · rw [h1']; simp only [← hspec]
    · right; right
      refine ⟨nm, σ1, by rw [h1], ?_, hsh⟩
      rw [h1'] <;> rfl

/-! ## composing sub-evaluations -/

theorem lw_bin (n : Nat) (a b e : Fn.FE) (f : Fn.V → Fn.V → Fn.V) (sc : FnM.Scope) (rest : List FnM.Scope) (xs ys : List String)
    (hm : evalV (n+1) e = (do let lv ← evalV n a; let rv ← evalV n b; pure (f lv rv)))
    (hs : ∀ (c : Fn.Ctx) (s : Fn.St), Fn.evalE (n+1) e c s =
      match Fn.evalE n a c s with
      | .ok va s1 => (match Fn.evalE n b c s1 with
        | .ok vb s2 => .ok (f va vb) s2
        | .throw t s2 => .throw t s2
        | .fuel => .fuel)
      | .throw t s1 => .throw t s1
      | .fuel => .fuel)
    (iha : ∀ σ, LWInv σ sc rest xs ys → LWSim n a sc σ)
    (ihb : ∀ σ, LWInv σ sc rest xs ys → LWSim n b sc σ)
    (σ : FnM.St) (hI : LWInv σ sc rest xs ys) : LWSim (n+1) e sc σ := by
  unfold LWSim
  rw [hm, hs]
  simp only [bind_run]
  rcases iha σ hI with h | ⟨va, σ1, h1, h1', sh1⟩ | ⟨nm, σ1, h1, h1', sh1⟩
  · left; rw [h]
  · rw [h1, h1']
    simp only []
    rcases ihb σ1 (hI.shape sh1) with h | ⟨vb, σ2, h2, h2', sh2⟩ | ⟨nm, σ2, h2, h2', sh2⟩
    · left; rw [h]
    · right; left
      exact ⟨f va vb, σ2, by rw [h2] <;> rfl, by rw [h2'] <;> rfl, sh1.trans sh2⟩
    · right; right
      refine ⟨nm, σ2, by rw [h2] <;> rfl, ?_, sh1.trans sh2⟩
      rw [h2'] <;> rfl
  · right; right
    refine ⟨nm, σ1, by rw [h1] <;> rfl, ?_, sh1⟩
    rw [h1'] <;> rfl

theorem lw_un (n : Nat) (a e : Fn.FE) (f : Fn.V → Fn.V) (sc : FnM.Scope) (rest : List FnM.Scope) (xs ys : List String)
    (hm : evalV (n+1) e = (do let v ← evalV n a; pure (f v)))
    (hs : ∀ (c : Fn.Ctx) (s : Fn.St), Fn.evalE (n+1) e c s =
      match Fn.evalE n a c s with
      | .ok va s1 => .ok (f va) s1
      | .throw t s1 => .throw t s1
      | .fuel => .fuel)
    (iha : ∀ σ, LWInv σ sc rest xs ys → LWSim n a sc σ)
    (σ : FnM.St) (hI : LWInv σ sc rest xs ys) : LWSim (n+1) e sc σ := by
  unfold LWSim
  rw [hm, hs]
  simp only [bind_run]
  rcases iha σ hI with h | ⟨va, σ1, h1, h1', sh1⟩ | ⟨nm, σ1, h1, h1', sh1⟩
  · left; rw [h]
  · right; left
    exact ⟨f va, σ1, by rw [h1] <;> rfl, by rw [h1'] <;> rfl, sh1⟩
  · right; right
    refine ⟨nm, σ1, by rw [h1] <;> rfl, ?_, sh1⟩
    rw [h1'] <;> rfl

theorem lw_cond (n : Nat) (t a b : Fn.FE) (sc : FnM.Scope) (rest : List FnM.Scope) (xs ys : List String)
    (iht : ∀ σ, LWInv σ sc rest xs ys → LWSim n t sc σ)
    (iha : ∀ σ, LWInv σ sc rest xs ys → LWSim n a sc σ)
    (ihb : ∀ σ, LWInv σ sc rest xs ys → LWSim n b sc σ)
    (σ : FnM.St) (hI : LWInv σ sc rest xs ys) : LWSim (n+1) (.cond t a b) sc σ := by
  unfold LWSim
  rw [evalV_cond, spec_cond]
  simp only [bind_run]
  rcases iht σ hI with h | ⟨tv, σ1, h1, h1', sh1⟩ | ⟨nm, σ1, h1, h1', sh1⟩
  · left; rw [h]
  · rw [h1, h1']
    simp only []
    cases Fn.truthy tv with
    | true =>
      simp only [if_true]
      rcases iha σ1 (hI.shape sh1) with h | ⟨va, σ2, h2, h2', sh2⟩ | ⟨nm, σ2, h2, h2', sh2⟩
      · left; exact h
      · right; left; exact ⟨va, σ2, h2, h2', sh1.trans sh2⟩
      · right; right; exact ⟨nm, σ2, h2, h2', sh1.trans sh2⟩
    | false =>
      simp only [Bool.false_eq_true, if_false]
      rcases ihb σ1 (hI.shape sh1) with h | ⟨vb, σ2, h2, h2', sh2⟩ | ⟨nm, σ2, h2, h2', sh2⟩
      · left; exact h
      · right; left; exact ⟨vb, σ2, h2, h2', sh1.trans sh2⟩
      · right; right; exact ⟨nm, σ2, h2, h2', sh1.trans sh2⟩
  · right; right
    refine ⟨nm, σ1, by rw [h1] <;> rfl, ?_, sh1⟩
    rw [h1'] <;> rfl

theorem lw_log (n : Nat) (a : Fn.FE) (sc : FnM.Scope) (rest : List FnM.Scope) (xs ys : List String)
    (iha : ∀ σ, LWInv σ sc rest xs ys → LWSim n a sc σ)
    (σ : FnM.St) (hI : LWInv σ sc rest xs ys) : LWSim (n+1) (.log a) sc σ := by
  have hmA : evalV (n+1) (.log a) σ =
      (match evalV n a σ with
       | .ok v s1 => (match FnM.tokV v s1 with
         | .ok t s2 => .ok v { s2 with trace := s2.trace ++ [t] }
         | .throw e s2 => .throw e s2
         | .fuel => .fuel)
       | .throw t s1 => .throw t s1
       | .fuel => .fuel) := by
    simp only [evalV, FnM.evalE, bind_run]
    cases FnM.evalE n a σ with
    | fuel => rfl
    | throw t s => rfl
    | ok mv s =>
      simp only []
      cases FnM.resolve mv s with
      | fuel => rfl
      | throw t s1 => rfl
      | ok v s1 =>
        simp only []
        cases FnM.tokV v s1 with
        | fuel => rfl
        | throw t s2 => rfl
        | ok tk s2 => rfl
  have hsA : ∀ (c : Fn.Ctx) (s : Fn.St), Fn.evalE (n+1) (.log a) c s =
      match Fn.evalE n a c s with
      | .ok v s1 => .ok v { s1 with trace := s1.trace ++ [Fn.tokV s1 v] }
      | .throw t s1 => .throw t s1
      | .fuel => .fuel := by
    intro c s
    rw [Fn.evalE]
    cases Fn.evalE n a c s <;> rfl
  unfold LWSim
  rw [hmA, hsA]
  rcases iha σ hI with h | ⟨va, σ1, h1, h1', sh1⟩ | ⟨nm, σ1, h1, h1', sh1⟩
  · left; rw [h]
  · right; left
    have hI1 := hI.shape sh1
    have htk := tokV_spec σ1 va hI1.ro.cls hI1.ro.ew
    refine ⟨va, { σ1 with trace := σ1.trace ++ [Fn.tokV (absSt σ1) va] }, ?_, ?_, sh1.trans (Shape.trace σ1 _)⟩
    · rw [h1]; simp only [htk]
    · rw [h1']; rfl
  · right; right
    exact ⟨nm, σ1, by rw [h1], by rw [h1'] <;> rfl, sh1⟩

/-! ## expressions whose result is a value, never a reference -/

/-- by its outermost form (nothing is asked of the subexpressions) -/
def valForm : Fn.FE → Bool
  | .lit _ => true
  | .this => true
  | .add _ _ => true
  | .sub _ _ => true
  | .lt _ _ => true
  | .seq _ _ => true
  | .not _ => true
  | .typeof _ => true
  | .val _ => true
  | .log _ => true
  | .cond _ _ _ => true
  | .assign _ _ => true
  | _ => false

theorem valForm_isVal (n : Nat) (e : Fn.FE) (hro : valForm e = true) (hnv : ∀ x, e ≠ .var x) (σ : FnM.St) (mv : FnM.MV) (σ' : FnM.St)
    (hr : FnM.evalE n e σ = .ok mv σ') : ∃ v, mv = .val v := by
  cases n with
  | zero => simp [FnM.evalE, FnM.outOfFuel] at hr
  | succ n =>
      cases e with
      | var x => exact absurd rfl (hnv x)
      | lit v => simp [FnM.evalE] at hr; exact ⟨_, hr.1.symm⟩
      | this => simp only [FnM.evalE, bind_run] at hr; cases hc : FnM.curScope σ with
        | ok sc s1 => rw [hc] at hr; simp at hr; exact ⟨_, hr.1.symm⟩
        | throw t s1 => rw [hc] at hr; simp at hr
        | fuel => rw [hc] at hr; simp at hr
      | add a b | sub a b | lt a b | seq a b =>
        simp only [FnM.evalE, bind_run] at hr
        revert hr
        cases FnM.evalE n a σ with
        | fuel => simp
        | throw t s => simp
        | ok m1 s1 =>
          simp only []
          cases FnM.resolve m1 s1 with
          | fuel => simp
          | throw t s => simp
          | ok lv s2 =>
            simp only []
            cases FnM.evalE n b s2 with
            | fuel => simp
            | throw t s => simp
            | ok m2 s3 =>
              simp only []
              cases FnM.resolve m2 s3 with
              | fuel => simp
              | throw t s => simp
              | ok rv s4 => simp only [pure_run, FnM.R.ok.injEq]; intro h; exact ⟨_, h.1.symm⟩
      | not a | val a =>
        simp only [FnM.evalE, bind_run] at hr
        revert hr
        cases FnM.evalE n a σ with
        | fuel => simp
        | throw t s => simp
        | ok m1 s1 =>
          simp only []
          cases FnM.resolve m1 s1 with
          | fuel => simp
          | throw t s => simp
          | ok lv s2 => simp only [pure_run, FnM.R.ok.injEq]; intro h; exact ⟨_, h.1.symm⟩
      | typeof a =>
        simp only [FnM.evalE, bind_run] at hr
        revert hr
        cases FnM.evalE n a σ with
        | fuel => simp
        | throw t s => simp
        | ok m1 s1 =>
          simp only []
          cases m1 with
          | val v =>
            simp only [FnM.resolve, bind_run, pure_run, getSt_run, FnM.R.ok.injEq]
            intro h; exact ⟨_, h.1.symm⟩
          | ref r =>
            cases r with
            | stash b nm =>
              simp only [bind_run]
              cases FnM.resolve (.ref (.stash b nm)) s1 with
              | fuel => simp
              | throw t s => simp
              | ok lv s2 => simp only [getSt_run, pure_run, FnM.R.ok.injEq]; intro h; exact ⟨_, h.1.symm⟩
            | prop b nm =>
              cases b with
              | none => simp only [pure_run, FnM.R.ok.injEq]; intro h; exact ⟨_, h.1.symm⟩
              | some bb =>
                simp only [bind_run]
                cases FnM.resolve (.ref (.prop (some bb) nm)) s1 with
                | fuel => simp
                | throw t s => simp
                | ok lv s2 => simp only [getSt_run, pure_run, FnM.R.ok.injEq]; intro h; exact ⟨_, h.1.symm⟩
      | log a =>
        simp only [FnM.evalE, bind_run] at hr
        revert hr
        cases FnM.evalE n a σ with
        | fuel => simp
        | throw t s => simp
        | ok m1 s1 =>
          simp only []
          cases FnM.resolve m1 s1 with
          | fuel => simp
          | throw t s => simp
          | ok lv s2 =>
            simp only []
            cases FnM.tokV lv s2 with
            | fuel => simp
            | throw t s => simp
            | ok tk s3 => simp only [modifySt_run, pure_run, FnM.R.ok.injEq]; intro h; exact ⟨_, h.1.symm⟩
      | cond t a b =>
        simp only [FnM.evalE, bind_run] at hr
        revert hr
        cases FnM.evalE n t σ with
        | fuel => simp
        | throw t s => simp
        | ok m1 s1 =>
          simp only []
          cases FnM.resolve m1 s1 with
          | fuel => simp
          | throw t s => simp
          | ok tv s2 =>
            simp only []
            cases Fn.truthy tv with
            | true =>
              simp only [if_true, bind_run]
              cases FnM.evalE n a s2 with
              | fuel => simp
              | throw t s => simp
              | ok m2 s3 =>
                simp only []
                cases FnM.resolve m2 s3 with
                | fuel => simp
                | throw t s => simp
                | ok rv s4 => simp only [pure_run, FnM.R.ok.injEq]; intro h; exact ⟨_, h.1.symm⟩
            | false =>
              simp only [Bool.false_eq_true, if_false, bind_run]
              cases FnM.evalE n b s2 with
              | fuel => simp
              | throw t s => simp
              | ok m2 s3 =>
                simp only []
                cases FnM.resolve m2 s3 with
                | fuel => simp
                | throw t s => simp
                | ok rv s4 => simp only [pure_run, FnM.R.ok.injEq]; intro h; exact ⟨_, h.1.symm⟩
      | assign x e1 =>
        simp only [FnM.evalE, bind_run] at hr
        revert hr
        cases FnM.evalE n (.var x) σ with
        | fuel => simp
        | throw t s => simp
        | ok m0 s0 =>
          simp only []
          cases FnM.evalE n e1 s0 with
          | fuel => simp
          | throw t s => simp
          | ok m1 s1 =>
            simp only []
            cases FnM.resolve m1 s1 with
            | fuel => simp
            | throw t s => simp
            | ok rv s2 =>
              simp only []
              cases m0 with
              | val v0 => simp only [pure_run, FnM.R.ok.injEq]; intro h; exact ⟨_, h.1.symm⟩
              | ref r =>
                simp only []
                cases FnM.rtPutValue r rv s2 with
                | fuel => simp
                | throw t s => simp
                | ok u s3 => simp only [pure_run, FnM.R.ok.injEq]; intro h; exact ⟨_, h.1.symm⟩
      | _ => simp [valForm] at hro


theorem lw_typeof (n : Nat) (a : Fn.FE) (sc : FnM.Scope) (rest : List FnM.Scope) (xs ys : List String)
    (hf : valForm a = true)
    (iha : ∀ σ, LWInv σ sc rest xs ys → LWSim n a sc σ)
    (σ : FnM.St) (hI : LWInv σ sc rest xs ys) : LWSim (n+1) (.typeof a) sc σ := by
  have hnv : ∀ x, a ≠ .var x := by intro x h; rw [h] at hf; simp [valForm] at hf
  have hsA : ∀ (c : Fn.Ctx) (s : Fn.St), Fn.evalE (n+1) (.typeof a) c s =
      match Fn.evalE n a c s with
      | .ok va s1 => .ok (.str (Fn.typeofV s1 va)) s1
      | .throw t s1 => .throw t s1
      | .fuel => .fuel := by
    intro c s
    cases a with
    | var x => exact absurd rfl (hnv x)
    | _ =>
      rw [Fn.evalE]
      all_goals first | (intro x h; cases h) | (cases Fn.evalE n _ c s <;> rfl)
  unfold LWSim
  rw [hsA]
  have hmA : evalV (n+1) (.typeof a) σ =
      (match evalV n a σ with
       | .ok v s1 => .ok (.str (FnM.typeofV s1 v)) s1
       | .throw t s1 => .throw t s1
       | .fuel => .fuel) := by
    simp only [evalV, FnM.evalE, bind_run]
    cases he : FnM.evalE n a σ with
    | fuel => rfl
    | throw t s => rfl
    | ok mv s =>
      obtain ⟨v, rfl⟩ := valForm_isVal n a hf hnv σ mv s he
      simp only [FnM.resolve, bind_run, pure_run, getSt_run]
  rw [hmA]
  rcases iha σ hI with h | ⟨va, σ1, h1, h1', sh1⟩ | ⟨nm, σ1, h1, h1', sh1⟩
  · left; rw [h]
  · right; left
    refine ⟨.str (FnM.typeofV σ1 va), σ1, by rw [h1], ?_, sh1⟩
    rw [h1']
    simp only [typeofV_spec]
  · right; right
    exact ⟨nm, σ1, by rw [h1], by rw [h1'] <;> rfl, sh1⟩

/-! ## the fragment -/

/-- the read-only fragment plus assignments `x = e` -/
def lw : Fn.FE → Bool
  | .lit _ => true
  | .this => true
  | .var _ => true
  | .add a b => lw a && lw b
  | .sub a b => lw a && lw b
  | .lt a b => lw a && lw b
  | .seq a b => lw a && lw b
  | .not a => lw a
  | .typeof a => lw a
  | .val a => lw a
  | .log a => lw a
  | .cond t a b => lw t && lw a && lw b
  | .assign _ e => lw e
  | _ => false

/-- every identifier of the expression, read or assigned -/
def reads : Fn.FE → List String
  | .var x => [x]
  | .add a b => reads a ++ reads b
  | .sub a b => reads a ++ reads b
  | .lt a b => reads a ++ reads b
  | .seq a b => reads a ++ reads b
  | .not a => reads a
  | .typeof a => reads a
  | .val a => reads a
  | .log a => reads a
  | .cond t a b => reads t ++ reads a ++ reads b
  | .assign x e => x :: reads e
  | _ => []

/-- the identifiers assigned to -/
def writes : Fn.FE → List String
  | .add a b => writes a ++ writes b
  | .sub a b => writes a ++ writes b
  | .lt a b => writes a ++ writes b
  | .seq a b => writes a ++ writes b
  | .not a => writes a
  | .typeof a => writes a
  | .val a => writes a
  | .log a => writes a
  | .cond t a b => writes t ++ writes a ++ writes b
  | .assign x e => x :: writes e
  | _ => []

theorem lw_valForm (e : Fn.FE) (h : lw e = true) (hnv : ∀ x, e ≠ .var x) : valForm e = true := by
  cases e <;> first | exact absurd rfl (hnv _) | rfl | (simp [lw] at h)

/-- **expr_refines_assign** — the evaluator simulation for the read-only fragment extended by assignments to local
    bindings: in every state satisfying `LWInv` (the read-only invariant for the identifiers that occur, no duplicate
    names in a stash, and every assigned identifier resolves to a declarative stash other than the global one), otto's
    evaluation followed by GetValue and ES5's evaluation give the same value or the same error, and they end in states
    that correspond again (`absSt`) and have the shape of the initial state – so the invariant holds again. -/
theorem expr_refines_assign (sc : FnM.Scope) (rest : List FnM.Scope) (xs ys : List String) :
    ∀ (n : Nat) (e : Fn.FE), lw e = true → (∀ x ∈ reads e, x ∈ xs) → (∀ y ∈ writes e, y ∈ ys) →
      ∀ σ, LWInv σ sc rest xs ys → LWSim n e sc σ := by
  intro n
  induction n with
  | zero => intro e _ _ _ σ _; left; simp [evalV, FnM.evalE, FnM.outOfFuel]
  | succ n ih =>
    intro e hlw hrd hwr σ hI
    cases e with
    | lit v => exact LWSim.of_ro (expr_refines_partial sc rest xs (n+1) (.lit v) rfl (by simp [idents]) σ hI.ro hI.scp)
    | this => exact LWSim.of_ro (expr_refines_partial sc rest xs (n+1) .this rfl (by simp [idents]) σ hI.ro hI.scp)
    | var x =>
      exact LWSim.of_ro (expr_refines_partial sc rest xs (n+1) (.var x) rfl
        (by intro y hy; simp [idents] at hy; subst hy; exact hrd _ (by simp [reads])) σ hI.ro hI.scp)
    | add a b =>
      simp only [lw, Bool.and_eq_true] at hlw
      exact lw_bin n a b _ FnM.binAdd sc rest xs ys (evalV_bin n a b FnM.binAdd _ (by rw [FnM.evalE])) (spec_add n a b)
        (fun σ' => ih a hlw.1 (fun x hx => hrd x (by simp [reads, hx])) (fun x hx => hwr x (by simp [writes, hx])) σ')
        (fun σ' => ih b hlw.2 (fun x hx => hrd x (by simp [reads, hx])) (fun x hx => hwr x (by simp [writes, hx])) σ') σ hI
    | sub a b =>
      simp only [lw, Bool.and_eq_true] at hlw
      exact lw_bin n a b _ FnM.binSub sc rest xs ys (evalV_bin n a b FnM.binSub _ (by rw [FnM.evalE])) (spec_sub n a b)
        (fun σ' => ih a hlw.1 (fun x hx => hrd x (by simp [reads, hx])) (fun x hx => hwr x (by simp [writes, hx])) σ')
        (fun σ' => ih b hlw.2 (fun x hx => hrd x (by simp [reads, hx])) (fun x hx => hwr x (by simp [writes, hx])) σ') σ hI
    | lt a b =>
      simp only [lw, Bool.and_eq_true] at hlw
      exact lw_bin n a b _ FnM.binLt sc rest xs ys (evalV_bin n a b FnM.binLt _ (by rw [FnM.evalE])) (spec_lt n a b)
        (fun σ' => ih a hlw.1 (fun x hx => hrd x (by simp [reads, hx])) (fun x hx => hwr x (by simp [writes, hx])) σ')
        (fun σ' => ih b hlw.2 (fun x hx => hrd x (by simp [reads, hx])) (fun x hx => hwr x (by simp [writes, hx])) σ') σ hI
    | seq a b =>
      simp only [lw, Bool.and_eq_true] at hlw
      exact lw_bin n a b _ FnM.binSeq sc rest xs ys (evalV_bin n a b FnM.binSeq _ (by rw [FnM.evalE])) (spec_seq n a b)
        (fun σ' => ih a hlw.1 (fun x hx => hrd x (by simp [reads, hx])) (fun x hx => hwr x (by simp [writes, hx])) σ')
        (fun σ' => ih b hlw.2 (fun x hx => hrd x (by simp [reads, hx])) (fun x hx => hwr x (by simp [writes, hx])) σ') σ hI
    | not a =>
      simp only [lw] at hlw
      exact lw_un n a _ (fun v => .bool (!Fn.truthy v)) sc rest xs ys (evalV_un n a _ _ (by rw [FnM.evalE])) (spec_not n a)
        (fun σ' => ih a hlw (fun x hx => hrd x (by simp [reads, hx])) (fun x hx => hwr x (by simp [writes, hx])) σ') σ hI
    | val a =>
      simp only [lw] at hlw
      exact lw_un n a _ (fun v => v) sc rest xs ys (evalV_un n a _ _ (by rw [FnM.evalE])) (spec_val n a)
        (fun σ' => ih a hlw (fun x hx => hrd x (by simp [reads, hx])) (fun x hx => hwr x (by simp [writes, hx])) σ') σ hI
    | typeof a =>
      simp only [lw] at hlw
      by_cases hv : ∃ x, a = .var x
      · obtain ⟨x, rfl⟩ := hv
        exact LWSim.of_ro (expr_refines_partial sc rest xs (n+1) (.typeof (.var x)) rfl
          (by intro y hy; simp [idents] at hy; subst hy; exact hrd _ (by simp [reads])) σ hI.ro hI.scp)
      · exact lw_typeof n a sc rest xs ys (lw_valForm a hlw (fun x h => hv ⟨x, h⟩))
          (fun σ' => ih a hlw (fun x hx => hrd x (by simp [reads, hx])) (fun x hx => hwr x (by simp [writes, hx])) σ') σ hI
    | log a =>
      simp only [lw] at hlw
      exact lw_log n a sc rest xs ys
        (fun σ' => ih a hlw (fun x hx => hrd x (by simp [reads, hx])) (fun x hx => hwr x (by simp [writes, hx])) σ') σ hI
    | cond t a b =>
      simp only [lw, Bool.and_eq_true] at hlw
      exact lw_cond n t a b sc rest xs ys
        (fun σ' => ih t hlw.1.1 (fun x hx => hrd x (by simp [reads, hx])) (fun x hx => hwr x (by simp [writes, hx])) σ')
        (fun σ' => ih a hlw.1.2 (fun x hx => hrd x (by simp [reads, hx])) (fun x hx => hwr x (by simp [writes, hx])) σ')
        (fun σ' => ih b hlw.2 (fun x hx => hrd x (by simp [reads, hx])) (fun x hx => hwr x (by simp [writes, hx])) σ') σ hI
    | assign x e1 =>
      simp only [lw] at hlw
      exact lw_assign n x e1 sc rest xs ys (hrd x (by simp [reads])) (hwr x (by simp [writes]))
        (fun σ' => ih e1 hlw (fun y hy => hrd y (by simp [reads, hy])) (fun y hy => hwr y (by simp [writes, hy])) σ') σ hI
    | _ => simp [lw] at hlw

end OttoVerif.C01.FnRefine
