/-
  C01/FnRefineLW — the evaluator simulation FnModel → FnSpec beyond the read-only fragment: expressions that
  ASSIGN to local (declarative) bindings.  The states are still related by `FnRefine.absSt` (no allocation in
  this fragment), but they change; what stays fixed is the SHAPE of a state (heap, scopes, and the stashes up
  to the values of their bindings), and every invariant the bottom-up lemmas need is a property of the shape.
  The ledger is FnTheorems.lean.
-/
import OttoVerif.C01.FnRefine
namespace OttoVerif.C01.FnRefine
open OttoVerif.C01
set_option linter.unusedSimpArgs false
set_option linter.unusedVariables false

/-! ## the shape of a state -/

def eraseP (p : FnM.DclProp) : FnM.DclProp := { p with value := .undef }

def eraseStash : FnM.Stash → FnM.Stash
  | .obj outer o => .obj outer o
  | .dcl outer ps => .dcl outer (ps.map fun kp => (kp.1, eraseP kp.2))
  | .fn outer ps ar => .fn outer (ps.map fun kp => (kp.1, eraseP kp.2)) ar

/-- the value of a property is forgotten – except for `name`, which says what an Error object is (ErrWF) -/
def eraseV (k : String) (p : FnM.Pty) : FnM.Pty := if k = "name" then p else { p with value := .undef }

def eraseObj (o : FnM.Obj) : FnM.Obj := { o with props := o.props.map fun kp => (kp.1, eraseV kp.1 kp.2) }

/-- same objects up to the values of their properties (names, order, attributes, class, prototype and internal value
    are the same), same scopes, the same stashes up to the values bound in declarative stashes; the host log is free -/
structure Shape (σ σ' : FnM.St) : Prop where
  heap : σ'.heap.map eraseObj = σ.heap.map eraseObj
  scopes : σ'.scopes = σ.scopes
  stashes : σ'.stashes.map eraseStash = σ.stashes.map eraseStash

theorem Shape.refl (σ : FnM.St) : Shape σ σ := ⟨rfl, rfl, rfl⟩
theorem Shape.symm {σ σ' : FnM.St} (h : Shape σ σ') : Shape σ' σ := ⟨h.heap.symm, h.scopes.symm, h.stashes.symm⟩
theorem Shape.trans {σ σ' σ'' : FnM.St} (h : Shape σ σ') (h' : Shape σ' σ'') : Shape σ σ'' :=
  ⟨h'.heap.trans h.heap, h'.scopes.trans h.scopes, h'.stashes.trans h.stashes⟩
theorem Shape.trace (σ : FnM.St) (t : List String) : Shape σ { σ with trace := t } := ⟨rfl, rfl, rfl⟩

theorem Shape.hlen {σ σ' : FnM.St} (h : Shape σ σ') : σ'.heap.length = σ.heap.length := by
  have := congrArg List.length h.heap
  simpa using this

theorem Shape.objE {σ σ' : FnM.St} (h : Shape σ σ') (a : Nat) : (σ'.obj? a).map eraseObj = (σ.obj? a).map eraseObj := by
  have := congrArg (fun l => l[a]?) h.heap
  simpa [FnM.St.obj?] using this

theorem Shape.obj_some {σ σ' : FnM.St} (h : Shape σ σ') (a : Nat) (o : FnM.Obj) (ho : σ.obj? a = some o) :
    ∃ o', σ'.obj? a = some o' ∧ eraseObj o' = eraseObj o := by
  have := h.objE a
  rw [ho] at this
  cases h' : σ'.obj? a with
  | none => rw [h'] at this; simp at this
  | some o' => rw [h'] at this; simp only [Option.map_some, Option.some.injEq] at this; exact ⟨o', rfl, this⟩

theorem Shape.obj_none {σ σ' : FnM.St} (h : Shape σ σ') (a : Nat) (ho : σ.obj? a = none) : σ'.obj? a = none := by
  have := h.objE a
  rw [ho] at this
  cases h' : σ'.obj? a with
  | none => rfl
  | some o' => rw [h'] at this; simp at this

theorem erase_val {o o' : FnM.Obj} (h : eraseObj o' = eraseObj o) : o'.val = o.val := by
  have := congrArg FnM.Obj.val h; exact this
theorem erase_proto {o o' : FnM.Obj} (h : eraseObj o' = eraseObj o) : o'.proto = o.proto := by
  have := congrArg FnM.Obj.proto h; exact this
theorem erase_accs {o o' : FnM.Obj} (h : eraseObj o' = eraseObj o) : o'.accs = o.accs := by
  have := congrArg FnM.Obj.accs h; exact this
theorem erase_cls {o o' : FnM.Obj} (h : eraseObj o' = eraseObj o) : o'.cls = o.cls := by
  have := congrArg FnM.Obj.cls h; exact this

theorem lookupA_mapk {β γ : Type} (f : String → β → γ) (x : String) :
    ∀ l : List (String × β), Fn.lookupA x (l.map fun kp => (kp.1, f kp.1 kp.2)) = (Fn.lookupA x l).map (f x) := by
  intro l
  induction l with
  | nil => rfl
  | cons p r ih =>
    obtain ⟨k, v⟩ := p
    by_cases hk : k = x
    · subst hk; simp [Fn.lookupA]
    · simp [Fn.lookupA, hk, ih]

theorem erase_lookup {o o' : FnM.Obj} (h : eraseObj o' = eraseObj o) (x : String) :
    (Fn.lookupA x o'.props).map (eraseV x) = (Fn.lookupA x o.props).map (eraseV x) := by
  have := congrArg FnM.Obj.props h
  simp only [eraseObj] at this
  rw [← lookupA_mapk eraseV x, ← lookupA_mapk eraseV x, this]

/-- a property found in o is found in o', with the same attributes -/
theorem erase_lookup_some {o o' : FnM.Obj} (h : eraseObj o' = eraseObj o) (x : String) (p : FnM.Pty)
    (hl : Fn.lookupA x o.props = some p) :
    ∃ p', Fn.lookupA x o'.props = some p' ∧ p'.w = p.w ∧ p'.e = p.e ∧ p'.c = p.c := by
  have := erase_lookup h x
  rw [hl] at this
  cases h' : Fn.lookupA x o'.props with
  | none => rw [h'] at this; simp at this
  | some p' =>
    rw [h'] at this
    simp only [Option.map_some, Option.some.injEq, eraseV] at this
    refine ⟨p', rfl, ?_⟩
    by_cases hn : x = "name"
    · simp only [hn, if_true] at this; subst this; exact ⟨rfl, rfl, rfl⟩
    · simp only [hn, if_false, FnM.Pty.mk.injEq, true_and] at this; exact this

theorem erase_lookup_none {o o' : FnM.Obj} (h : eraseObj o' = eraseObj o) (x : String)
    (hl : Fn.lookupA x o.props = none) : Fn.lookupA x o'.props = none := by
  have := erase_lookup h x
  rw [hl] at this
  cases h' : Fn.lookupA x o'.props with
  | none => rfl
  | some p' => rw [h'] at this; simp at this

theorem erase_lookup_name {o o' : FnM.Obj} (h : eraseObj o' = eraseObj o) :
    Fn.lookupA "name" o'.props = Fn.lookupA "name" o.props := by
  have := erase_lookup h "name"
  cases h1 : Fn.lookupA "name" o.props <;> cases h2 : Fn.lookupA "name" o'.props <;>
    simp only [h1, h2, Option.map_some, Option.map_none, eraseV, if_true, Option.some.injEq, reduceCtorEq] at this ⊢
  exact this

theorem Shape.len {σ σ' : FnM.St} (h : Shape σ σ') : σ'.stashes.length = σ.stashes.length := by
  have := congrArg List.length h.stashes
  simpa using this

theorem Shape.stash {σ σ' : FnM.St} (h : Shape σ σ') (j : Nat) :
    (σ'.stash? j).map eraseStash = (σ.stash? j).map eraseStash := by
  have := congrArg (fun l => l[j]?) h.stashes
  simpa [FnM.St.stash?] using this

theorem Shape.dclProps {σ σ' : FnM.St} (h : Shape σ σ') (j : Nat) :
    (FnM.dclProps σ' j).map (fun kp => (kp.1, eraseP kp.2)) = (FnM.dclProps σ j).map (fun kp => (kp.1, eraseP kp.2)) := by
  have hs := h.stash j
  unfold FnM.dclProps
  cases h1 : σ.stash? j with
  | none =>
    rw [h1] at hs
    cases h2 : σ'.stash? j with
    | none => rfl
    | some s' => rw [h2] at hs; simp at hs
  | some s =>
    rw [h1] at hs
    cases h2 : σ'.stash? j with
    | none => rw [h2] at hs; simp at hs
    | some s' =>
      rw [h2] at hs
      simp only [Option.map_some, Option.some.injEq] at hs
      cases s <;> cases s' <;> simp [eraseStash] at hs ⊢
      · exact hs.2
      · exact hs.2.1

theorem Shape.lookup {σ σ' : FnM.St} (h : Shape σ σ') (j : Nat) (x : String) :
    (Fn.lookupA x (FnM.dclProps σ' j)).map eraseP = (Fn.lookupA x (FnM.dclProps σ j)).map eraseP := by
  rw [← lookupA_map eraseP x, ← lookupA_map eraseP x, h.dclProps j]

/-- a binding found in σ is found in σ', with the same flags -/
theorem Shape.lookup_some {σ σ' : FnM.St} (h : Shape σ σ') (j : Nat) (x : String) (p : FnM.DclProp)
    (hl : Fn.lookupA x (FnM.dclProps σ j) = some p) :
    ∃ p', Fn.lookupA x (FnM.dclProps σ' j) = some p' ∧ p'.mutable_ = p.mutable_ ∧ p'.readable = p.readable ∧
      p'.deletable = p.deletable := by
  have := h.lookup j x
  rw [hl] at this
  cases h' : Fn.lookupA x (FnM.dclProps σ' j) with
  | none => rw [h'] at this; simp at this
  | some p' =>
    rw [h'] at this
    simp only [Option.map_some, Option.some.injEq, eraseP, FnM.DclProp.mk.injEq, true_and] at this
    exact ⟨p', rfl, this.1, this.2.2, this.2.1⟩

/-! ## what depends on the shape only -/

theorem lookupA_filter_neg {β : Type} (q : String → Bool) (x : String) (hx : q x = false) :
    ∀ l : List (String × β), Fn.lookupA x (l.filter fun p => q p.1) = none := by
  intro l
  induction l with
  | nil => rfl
  | cons p r ih =>
    obtain ⟨k, v⟩ := p
    simp only [List.filter_cons]
    by_cases hk : k = x
    · subst hk; simp [hx, ih]
    · cases hq : q k <;> simp [hq, Fn.lookupA, hk, ih]

/-- whether the abstraction of an object has an own property is a matter of its shape -/
theorem absHas_erase {o o' : FnM.Obj} (h : eraseObj o' = eraseObj o) (x : String) :
    (Fn.lookupA x (absObj o').props).isSome = (Fn.lookupA x (absObj o).props).isSome := by
  simp only [absObj, absProps]
  rw [lookupA_map (fun p : FnM.Pty => p.value), lookupA_map (fun p : FnM.Pty => p.value), erase_val h]
  cases hh : hidden o.val x with
  | true =>
    rw [lookupA_filter_neg (fun k => !hidden o.val k) x (by simp [hh]), lookupA_filter_neg (fun k => !hidden o.val k) x (by simp [hh])]
  | false =>
    rw [lookupA_filter (fun k => !hidden o.val k) x (by simp [hh]), lookupA_filter (fun k => !hidden o.val k) x (by simp [hh])]
    have := congrArg Option.isSome (erase_lookup h x)
    simpa using this

theorem Shape.hasProp {σ σ' : FnM.St} (h : Shape σ σ') (x : String) :
    ∀ (n a : Nat), Fn.hasProp (absSt σ') n a x = Fn.hasProp (absSt σ) n a x := by
  intro n
  simp only [hasProp_abs]
  induction n with
  | zero => intro a; rfl
  | succ n ih =>
    intro a
    simp only [Fn.hasPropD, absSt_obj]
    cases ho : σ.obj? a with
    | none => rw [h.obj_none a ho]; rfl
    | some o =>
      obtain ⟨o', ho', he⟩ := h.obj_some a o ho
      rw [ho']
      simp only [Option.map_some]
      have hs := absHas_erase he x
      have hp : (absObj o').proto = (absObj o).proto := erase_proto he
      cases h1 : Fn.lookupA x (absObj o).props with
      | some v =>
        rw [h1] at hs
        cases h2 : Fn.lookupA x (absObj o').props with
        | some v' => rfl
        | none => rw [h2] at hs; simp at hs
      | none =>
        rw [h1] at hs
        cases h2 : Fn.lookupA x (absObj o').props with
        | some v' => rw [h2] at hs; simp at hs
        | none =>
          simp only [hp]
          cases (absObj o).proto with
          | none => rfl
          | some q => exact ih q

/-- what §10.2.2.1 looks at in an environment record: its kind, its outer record, whether it has the name -/
theorem Shape.envView {σ σ' : FnM.St} (h : Shape σ σ') (i : Nat) (x : String) :
    ((absSt σ').envs[i]?).map (fun e => (e.obj, e.outer, (Fn.lookupA x e.vars).isSome)) =
    ((absSt σ).envs[i]?).map (fun e => (e.obj, e.outer, (Fn.lookupA x e.vars).isSome)) := by
  rw [absSt_env, absSt_env]
  have hs := h.stash i
  have hl := h.lookup i x
  unfold FnM.dclProps at hl
  cases h1 : σ.stash? i with
  | none =>
    rw [h1] at hs
    cases h2 : σ'.stash? i with
    | none => rfl
    | some s' => rw [h2] at hs; simp at hs
  | some s =>
    rw [h1] at hs hl
    cases h2 : σ'.stash? i with
    | none => rw [h2] at hs; simp at hs
    | some s' =>
      rw [h2] at hs hl
      simp only [Option.map_some, Option.some.injEq] at hs ⊢
      cases s <;> cases s' <;> simp only [eraseStash, FnM.Stash.obj.injEq, FnM.Stash.dcl.injEq, FnM.Stash.fn.injEq, reduceCtorEq] at hs
      · obtain ⟨rfl, rfl⟩ := hs; rfl
      · simp only [absStash, absDcl, Prod.mk.injEq, true_and]
        refine ⟨hs.1, ?_⟩
        rw [lookupA_map (fun p : FnM.DclProp => p.value), lookupA_map (fun p : FnM.DclProp => p.value)]
        have := congrArg Option.isSome hl
        simpa using this
      · simp only [absStash, absDcl, Prod.mk.injEq, true_and]
        refine ⟨hs.1, ?_⟩
        rw [lookupA_map (fun p : FnM.DclProp => p.value), lookupA_map (fun p : FnM.DclProp => p.value)]
        have := congrArg Option.isSome hl
        simpa using this

/-- identifier resolution is a function of the shape -/
theorem Shape.envResolve {σ σ' : FnM.St} (h : Shape σ σ') (x : String) :
    ∀ (n i : Nat), Fn.envResolve (absSt σ') n i x = Fn.envResolve (absSt σ) n i x := by
  intro n
  induction n with
  | zero => intro i; rfl
  | succ n ih =>
    intro i
    have hhp := h.hasProp x
    have hlen : (absSt σ').heap.length = (absSt σ).heap.length := by simp [h.hlen]
    simp only [Fn.envResolve, hlen, hhp]
    by_cases hi : i = 0
    · simp [hi]
    · simp only [hi, if_false]
      have hv := h.envView i x
      cases h1 : (absSt σ).envs[i]? with
      | none =>
        rw [h1] at hv
        cases h2 : (absSt σ').envs[i]? with
        | none => rfl
        | some e' => rw [h2] at hv; simp at hv
      | some e =>
        rw [h1] at hv
        cases h2 : (absSt σ').envs[i]? with
        | none => rw [h2] at hv; simp at hv
        | some e' =>
          rw [h2] at hv
          simp only [Option.map_some, Option.some.injEq, Prod.mk.injEq] at hv
          obtain ⟨ho, hout, hhas⟩ := hv
          simp only [ho, hout, hhas]
          cases e.outer with
          | none => rfl
          | some j => simp only [ih j]

/-! ## the invariants are invariants of the shape -/

theorem ownP_name_shape {σ σ' : FnM.St} (h : Shape σ σ') (a : Nat)
    (hna : ∀ o, σ.obj? a = some o → ∀ ipn st, o.val ≠ .arguments ipn st) : ownP σ' a "name" = ownP σ a "name" := by
  unfold ownP
  cases ho : σ.obj? a with
  | none => rw [h.obj_none a ho]
  | some o =>
    obtain ⟨o', ho', he⟩ := h.obj_some a o ho
    rw [ho']
    simp only [erase_lookup_name he, erase_val he]
    cases hv : o.val with
    | arguments ipn st => exact absurd hv (hna o ho ipn st)
    | _ => rfl

theorem getPropertyP_name_shape {σ σ' : FnM.St} (h : Shape σ σ') (hnp : NoArgsProto σ) :
    ∀ (n a : Nat), (∀ o, σ.obj? a = some o → ∀ ipn st, o.val ≠ .arguments ipn st) →
      getPropertyP σ' n a "name" = getPropertyP σ n a "name" := by
  intro n
  induction n with
  | zero => intro a _; rfl
  | succ n ih =>
    intro a hna
    simp only [getPropertyP, ownP_name_shape h a hna]
    cases ownP σ a "name" with
    | some p => rfl
    | none =>
      simp only []
      cases ho : σ.obj? a with
      | none => rw [h.obj_none a ho]
      | some o =>
        obtain ⟨o', ho', he⟩ := h.obj_some a o ho
        rw [ho']
        simp only [erase_proto he]
        cases hq : o.proto with
        | none => rfl
        | some q =>
          simp only []
          exact ih q (fun oq hoq ipn st => hnp a o q oq ho hq hoq ipn st)

theorem ROInv.shape {σ σ' : FnM.St} {xs : List String} (hI : ROInv σ xs) (h : Shape σ σ') : ROInv σ' xs := by
  refine ⟨?_, ?_, ?_, ?_, ?_, ?_, ?_⟩
  · intro x hx a o' ho'
    obtain ⟨o, ho, he⟩ := h.symm.obj_some a o' ho'
    have h1 := hI.vis x hx a o ho
    rw [erase_val he, erase_accs he] at h1
    exact h1
  · -- WF0
    have hs := h.stash 0
    have h0 : σ.stash? 0 = some (.obj none FnM.gObj) := hI.wf0
    rw [h0] at hs
    unfold WF0
    cases h2 : σ'.stash? 0 with
    | none => rw [h2] at hs; simp at hs
    | some s' =>
      rw [h2] at hs
      simp only [Option.map_some, Option.some.injEq] at hs
      cases s' <;> simp only [eraseStash, FnM.Stash.obj.injEq, reduceCtorEq] at hs
      obtain ⟨rfl, rfl⟩ := hs
      rfl
  · intro a o' q oq' ho' hq hoq'
    obtain ⟨o, ho, he⟩ := h.symm.obj_some a o' ho'
    obtain ⟨oq, hoq, heq⟩ := h.symm.obj_some q oq' hoq'
    rw [← erase_val heq]
    exact hI.nap a o q oq ho (by rw [erase_proto he]; exact hq) hoq
  · intro a o' ipn st ho' hv
    obtain ⟨o, ho, he⟩ := h.symm.obj_some a o' ho'
    obtain ⟨hst, hall⟩ := hI.aw a o ipn st ho (by rw [erase_val he]; exact hv)
    refine ⟨hst, ?_⟩
    intro i pn hpn hne
    obtain ⟨p, hl, hm⟩ := hall i pn hpn hne
    obtain ⟨p', hl', hm', _, _⟩ := h.lookup_some st pn p hl
    exact ⟨p', hl', by rw [hm', hm]⟩
  · intro a o' n ho' hv'
    obtain ⟨o, ho, he⟩ := h.symm.obj_some a o' ho'
    have hv : o.val = .error n := by rw [erase_val he]; exact hv'
    have := hI.ew a o n ho hv
    have hna : ∀ o1, σ.obj? a = some o1 → ∀ ipn st, o1.val ≠ .arguments ipn st := by
      intro o1 ho1 ipn st hv1
      rw [ho] at ho1; cases ho1
      rw [hv] at hv1; cases hv1
    unfold getP at this ⊢
    rw [ho'] at ⊢
    rw [ho] at this
    have hm' : mapGetP σ' o' "name" = none := by simp [mapGetP, hv']
    have hm : mapGetP σ o "name" = none := by simp [mapGetP, hv]
    simp only [hm] at this
    simp only [hm', h.hlen, getPropertyP_name_shape h hI.nap _ a hna]
    exact this
  · intro j x p hl
    obtain ⟨p', hl', hm', hr', _⟩ := h.symm.lookup_some j x p hl
    rw [← hm', ← hr']
    exact hI.sr j x p' hl'
  · intro a o' ho'
    obtain ⟨o, ho, he⟩ := h.symm.obj_some a o' ho'
    rw [← erase_val he, ← erase_cls he]
    exact hI.cls a o ho

theorem StashNodup.shape {σ σ' : FnM.St} (hn : StashNodup σ) (h : Shape σ σ') : StashNodup σ' := by
  intro j
  have h1 : (FnM.dclProps σ' j).map (·.1) = ((FnM.dclProps σ' j).map (fun kp => (kp.1, eraseP kp.2))).map (·.1) := by
    simp [List.map_map, Function.comp_def]
  have h2 : (FnM.dclProps σ j).map (·.1) = ((FnM.dclProps σ j).map (fun kp => (kp.1, eraseP kp.2))).map (·.1) := by
    simp [List.map_map, Function.comp_def]
  rw [h1, h.dclProps j, ← h2]
  exact hn j

theorem WritableWF.shape {σ σ' : FnM.St} (hw : WritableWF σ) (h : Shape σ σ') : WritableWF σ' := by
  intro a o' k p' ho' hl' hh'
  obtain ⟨o, ho, he⟩ := h.symm.obj_some a o' ho'
  obtain ⟨p, hl, hpw, _, _⟩ := erase_lookup_some he k p' hl'
  rw [← hpw, ← erase_val he]
  exact hw a o k p ho hl (by rw [erase_val he]; exact hh')

theorem ProtoDesc.shape {σ σ' : FnM.St} (hd : ProtoDesc σ) (h : Shape σ σ') : ProtoDesc σ' := by
  intro a o' q ho' hq
  obtain ⟨o, ho, he⟩ := h.symm.obj_some a o' ho'
  exact hd a o q ho (by rw [erase_proto he]; exact hq)

theorem Shape.stash_obj {σ σ' : FnM.St} (h : Shape σ σ') (j : Nat) (outer : Option Nat) (o : Nat)
    (hs : σ.stash? j = some (.obj outer o)) : σ'.stash? j = some (.obj outer o) := by
  have := h.stash j
  rw [hs] at this
  cases h2 : σ'.stash? j with
  | none => rw [h2] at this; simp at this
  | some s' =>
    rw [h2] at this
    simp only [Option.map_some, Option.some.injEq] at this
    cases s' <;> simp only [eraseStash, FnM.Stash.obj.injEq, reduceCtorEq] at this
    obtain ⟨rfl, rfl⟩ := this
    rfl

/-! ## the simulation relation -/

/-- the identifier `y` resolves, from the scope's lexical stash, to a binding that EXISTS and whose update keeps the
    shape: a binding of a declarative stash (not the global one), or an own property of the object of an object stash
    (a global variable, a property of a `with` object) that is neither an arguments nor a String object; and it is
    not `name` (whose value on Error objects is part of the shape) -/
def Assignable (σ : FnM.St) (sc : FnM.Scope) (y : String) : Prop :=
  y ≠ "name" ∧ ∃ j, Fn.envResolve (absSt σ) (σ.stashes.length + 1) sc.lexical y = some j ∧
    ((j ≠ 0 ∧ ∃ p, Fn.lookupA y (FnM.dclProps σ j) = some p) ∨
     (∃ outer o ob p, σ.stash? j = some (.obj outer o) ∧ σ.obj? o = some ob ∧ Fn.lookupA y ob.props = some p ∧
        (∀ ipn st, ob.val ≠ .arguments ipn st) ∧ (∀ s, ob.val ≠ .string s)))

theorem Assignable.shape {σ σ' : FnM.St} {sc : FnM.Scope} {y : String} (ha : Assignable σ sc y) (h : Shape σ σ') :
    Assignable σ' sc y := by
  obtain ⟨hn, j, hr, hcase⟩ := ha
  refine ⟨hn, j, by rw [h.len, h.envResolve y, hr], ?_⟩
  rcases hcase with ⟨hj, p, hl⟩ | ⟨outer, o, ob, p, hs, ho, hl, hna, hstr⟩
  · obtain ⟨p', hl', _, _, _⟩ := h.lookup_some j y p hl
    exact Or.inl ⟨hj, p', hl'⟩
  · obtain ⟨ob', ho', he⟩ := h.obj_some o ob ho
    obtain ⟨p', hl', _, _, _⟩ := erase_lookup_some he y p hl
    refine Or.inr ⟨outer, o, ob', p', h.stash_obj j outer o hs, ho', hl', ?_, ?_⟩
    · rw [erase_val he]; exact hna
    · rw [erase_val he]; exact hstr

/-- what the simulation needs of a state: the read-only invariant for the identifiers read, the current scope,
    no duplicate names in a stash, and the assigned identifiers are local bindings -/
structure LWInv (σ : FnM.St) (sc : FnM.Scope) (rest : List FnM.Scope) (xs ys : List String) : Prop where
  ro : ROInv σ xs
  scp : σ.scopes = sc :: rest
  nd : StashNodup σ
  ww : WritableWF σ
  pd : ProtoDesc σ
  asg : ∀ y ∈ ys, Assignable σ sc y

theorem LWInv.shape {σ σ' : FnM.St} {sc : FnM.Scope} {rest : List FnM.Scope} {xs ys : List String}
    (hI : LWInv σ sc rest xs ys) (h : Shape σ σ') : LWInv σ' sc rest xs ys :=
  ⟨hI.ro.shape h, by rw [h.scopes]; exact hI.scp, hI.nd.shape h, hI.ww.shape h, hI.pd.shape h, fun y hy => (hI.asg y hy).shape h⟩

/-- the outcome of an expression of the fragment: out of fuel, or the same value / the same error on both sides, in
    states that correspond again and have the shape of the initial one -/
def LWSim (n : Nat) (e : Fn.FE) (sc : FnM.Scope) (σ : FnM.St) : Prop :=
  evalV n e σ = .fuel ∨
  (∃ v σ', evalV n e σ = .ok v σ' ∧ Fn.evalE n e (ctxOf sc) (absSt σ) = .ok v (absSt σ') ∧ Shape σ σ') ∨
  (∃ nm σ', evalV n e σ = .throw (.err nm) σ' ∧ Fn.evalE n e (ctxOf sc) (absSt σ) = Fn.throwErr (absSt σ') nm ∧ Shape σ σ')

theorem LWSim.of_ro {n : Nat} {e : Fn.FE} {sc : FnM.Scope} {σ : FnM.St} (h : ROSim n e sc σ) : LWSim n e sc σ := by
  rcases h with h | ⟨v, t, h1, h2⟩ | ⟨nm, t, h1, h2⟩
  · left; exact h
  · right; left; exact ⟨v, _, h1, h2, Shape.trace σ t⟩
  · right; right; exact ⟨nm, _, h1, h2, Shape.trace σ t⟩

/-! ## PutValue on a local binding keeps the shape -/

theorem map_erase_updateA (x : String) (v : Fn.V) (p : FnM.DclProp) :
    ∀ (ps : List (String × FnM.DclProp)), Fn.lookupA x ps = some p →
      (Fn.updateA x { p with value := v } ps).map (fun kp => (kp.1, eraseP kp.2)) = ps.map (fun kp => (kp.1, eraseP kp.2)) := by
  intro ps
  induction ps with
  | nil => intro _; rfl
  | cons q r ih =>
    obtain ⟨k, w⟩ := q
    intro hl
    by_cases hk : k = x
    · simp only [Fn.lookupA, hk, if_true, Option.some.injEq] at hl
      subst hl
      simp [Fn.updateA, hk, eraseP]
    · simp only [Fn.lookupA, hk, if_false] at hl
      simp only [Fn.updateA, hk, if_false, List.map_cons, ih hl]

theorem shape_setStash (σ : FnM.St) (j : Nat) (s s' : FnM.Stash) (hs : σ.stash? j = some s)
    (he : eraseStash s' = eraseStash s) : Shape σ { σ with stashes := Fn.setNth σ.stashes j s' } := by
  refine ⟨rfl, rfl, ?_⟩
  simp only [FnM.St.stash?] at hs
  apply List.ext_getElem?
  intro i
  simp only [List.getElem?_map]
  by_cases hij : i = j
  · subst hij
    have hlt : i < σ.stashes.length := (List.getElem?_eq_some_iff.1 hs).1
    rw [getElem?_setNth_self σ.stashes i s' hlt, hs]
    simp [he]
  · rw [getElem?_setNth_ne σ.stashes j i s' (fun h => hij h.symm)]

theorem rtPutValue_dcl_run (σ : FnM.St) (j : Nat) (x : String) (v : Fn.V) (p : FnM.DclProp)
    (hl : Fn.lookupA x (FnM.dclProps σ j) = some p) :
    ∃ σ', FnM.rtPutValue (.stash j x) v σ = .ok () σ' ∧ Shape σ σ' := by
  simp only [FnM.rtPutValue, FnM.refPutValue, FnM.setValue, bind_run, getSt_run, hasBinding_run]
  have hb : hasBindingP σ j x = true := by
    rcases dclProps_of_stash σ j x p hl with ⟨outer, hs⟩ | ⟨outer, ar, hs⟩ <;> simp [hasBindingP, hs, hl]
  rcases dclProps_of_stash σ j x p hl with ⟨outer, hs⟩ | ⟨outer, ar, hs⟩
  · simp only [hb, hs, Bool.not_true, Bool.false_eq_true, if_false, FnM.setBinding, bind_run, getSt_run, FnM.dclSetBinding, hl]
    cases hm : p.mutable_ with
    | false => exact ⟨σ, by simp [FnM.typeErrorResult], Shape.refl σ⟩
    | true =>
      simp only [if_true, FnM.setDclProps, hs, setStash_run, bind_run, pure_run, bne_self_eq_false, Bool.false_eq_true, if_false]
      refine ⟨_, rfl, shape_setStash σ j _ _ hs ?_⟩
      simp only [eraseStash, FnM.Stash.dcl.injEq, true_and]
      have := map_erase_updateA x v p (FnM.dclProps σ j) hl
      simpa [hm] using this
  · simp only [hb, hs, Bool.not_true, Bool.false_eq_true, if_false, FnM.setBinding, bind_run, getSt_run, FnM.dclSetBinding, hl]
    cases hm : p.mutable_ with
    | false => exact ⟨σ, by simp [FnM.typeErrorResult], Shape.refl σ⟩
    | true =>
      simp only [if_true, FnM.setDclProps, hs, setStash_run, bind_run, pure_run, bne_self_eq_false, Bool.false_eq_true, if_false]
      refine ⟨_, rfl, shape_setStash σ j _ _ hs ?_⟩
      simp only [eraseStash, FnM.Stash.fn.injEq, true_and, and_true]
      have := map_erase_updateA x v p (FnM.dclProps σ j) hl
      simpa [hm] using this

theorem map_eraseV_updateA (x : String) (v : Fn.V) (p : FnM.Pty) (hx : x ≠ "name") :
    ∀ (ps : List (String × FnM.Pty)), Fn.lookupA x ps = some p →
      (Fn.updateA x { p with value := v } ps).map (fun kp => (kp.1, eraseV kp.1 kp.2)) = ps.map (fun kp => (kp.1, eraseV kp.1 kp.2)) := by
  intro ps
  induction ps with
  | nil => intro _; rfl
  | cons q r ih =>
    obtain ⟨k, w⟩ := q
    intro hl
    by_cases hk : k = x
    · simp only [Fn.lookupA, hk, if_true, Option.some.injEq] at hl
      subst hl
      simp [Fn.updateA, hk, eraseV, hx]
    · simp only [Fn.lookupA, hk, if_false] at hl
      simp only [Fn.updateA, hk, if_false, List.map_cons, ih hl]

theorem shape_setObj (σ : FnM.St) (a : Nat) (o o' : FnM.Obj) (ho : σ.obj? a = some o)
    (he : eraseObj o' = eraseObj o) : Shape σ { σ with heap := Fn.setNth σ.heap a o' } := by
  refine ⟨?_, rfl, rfl⟩
  simp only [FnM.St.obj?] at ho
  apply List.ext_getElem?
  intro i
  simp only [List.getElem?_map]
  by_cases hia : i = a
  · subst hia
    have hlt : i < σ.heap.length := (List.getElem?_eq_some_iff.1 ho).1
    rw [getElem?_setNth_self σ.heap i o' hlt, ho]
    simp [he]
  · rw [getElem?_setNth_ne σ.heap a i o' (fun h => hia h.symm)]

/-- [[Put]] on an existing own property of an ordinary object: the value is replaced (or, read-only, nothing happens) -/
theorem objPut_update_run (σ : FnM.St) (a : Nat) (x : String) (v : Fn.V) (ob : FnM.Obj) (p : FnM.Pty)
    (ho : σ.obj? a = some ob) (hl : Fn.lookupA x ob.props = some p)
    (hna : ∀ ipn st, ob.val ≠ .arguments ipn st) (hstr : ∀ s, ob.val ≠ .string s) (hx : x ≠ "name") :
    ∃ σ', FnM.objPut a x v false σ = .ok () σ' ∧ Shape σ σ' := by
  have hm : mapGetP σ ob x = none := mapGetP_none_of_not_args σ ob x hna
  have hown : ownP σ a x = some p := by rw [ownP_of_unmapped σ a ob x ho hstr hm, hl]
  have hcp : canPutP σ a x = (p.w, some p) := by simp [canPutP, hown]
  unfold FnM.objPut
  simp only [bind_run, canPutDetails_run, hcp]
  cases hw : p.w with
  | false => exact ⟨σ, by simp [FnM.typeErrorResult], Shape.refl σ⟩
  | true =>
    simp only [Bool.not_true, Bool.false_eq_true, if_false, bind_run]
    have hd : ({ value := v, w := true, e := p.e, c := p.c } : FnM.Pty) = { p with value := v } := by
      cases p; simp_all
    rw [hd, defineOwnProperty_nonargs σ a ob x _ false ho hna,
      odop_update σ a ob x { p with value := v } p false ho hl rfl rfl (Or.inr hw)]
    refine ⟨_, rfl, shape_setObj σ a ob _ ho ?_⟩
    simp only [eraseObj, FnM.Obj.mk.injEq, true_and, and_true]
    exact map_eraseV_updateA x v p hx ob.props hl

/-! ## the assignment to a local binding -/

theorem evalE_var_run (n : Nat) (x : String) (sc : FnM.Scope) (rest : List FnM.Scope) (σ : FnM.St)
    (hsc : σ.scopes = sc :: rest) (hv : Visible σ x) (h0 : WF0 σ) :
    FnM.evalE (n+1) (.var x) σ =
      .ok (.ref (refOf σ x (Fn.envResolve (absSt σ) (σ.stashes.length + 1) sc.lexical x))) σ := by
  simp only [FnM.evalE, bind_run, curScope_run σ sc rest hsc, stashFuel_run,
    resolve_spec σ x hv h0 (σ.stashes.length + 1) sc.lexical, pure_run]

/-- §11.13.1 for an identifier that is a local binding: the reference is made first (and stays valid: the
    right-hand side cannot change the shape), the value is stored in the stash it names -/
theorem lw_assign (n : Nat) (x : String) (e1 : Fn.FE) (sc : FnM.Scope) (rest : List FnM.Scope) (xs ys : List String)
    (hx : x ∈ xs) (hy : x ∈ ys)
    (ih : ∀ σ, LWInv σ sc rest xs ys → LWSim n e1 sc σ)
    (σ : FnM.St) (hI : LWInv σ sc rest xs ys) : LWSim (n+1) (.assign x e1) sc σ := by
  cases n with
  | zero => left; simp [evalV, FnM.evalE, FnM.outOfFuel]
  | succ n =>
    obtain ⟨hxn, j, hr, hcase⟩ := hI.asg x hy
    have hvar := evalE_var_run n x sc rest σ hI.scp (hI.ro.vis x hx) hI.ro.wf0
    have hm : evalV (n+2) (.assign x e1) σ =
        (match evalV (n+1) e1 σ with
         | .ok v s1 => (match FnM.rtPutValue (refOf σ x (some j)) v s1 with
           | .ok _ s2 => .ok v s2
           | .throw t s2 => .throw t s2
           | .fuel => .fuel)
         | .throw t s1 => .throw t s1
         | .fuel => .fuel) := by
      simp only [evalV]
      rw [FnM.evalE]
      simp only [bind_run, hvar, hr]
      cases FnM.evalE (n+1) e1 σ with
      | fuel => rfl
      | throw t s => rfl
      | ok mv s =>
        simp only []
        cases FnM.resolve mv s with
        | fuel => rfl
        | throw t s1 => rfl
        | ok v s1 =>
          simp only []
          cases FnM.rtPutValue (refOf σ x (some j)) v s1 with
          | fuel => rfl
          | throw t s2 => rfl
          | ok u s2 => rfl
    have hs : Fn.evalE (n+2) (.assign x e1) (ctxOf sc) (absSt σ) =
        (match Fn.evalE (n+1) e1 (ctxOf sc) (absSt σ) with
         | .ok v s1 => (match Fn.putIdent s1 (some j) x v with
           | .ok _ s2 => .ok v s2
           | .throw t s2 => .throw t s2
           | .fuel => .fuel)
         | .throw t s1 => .throw t s1
         | .fuel => .fuel) := by
      rw [Fn.evalE]
      simp only [ctxOf, absSt_envs_length] at hr ⊢
      simp only [hr]
      cases Fn.evalE (n+1) e1 { env := sc.lexical, venv := sc.variable_, this := .ref sc.this } (absSt σ) <;> rfl
    unfold LWSim
    rw [hm, hs]
    rcases ih σ hI with h | ⟨v, σ1, h1, h1', hsh⟩ | ⟨nm, σ1, h1, h1', hsh⟩
    · left; rw [h]
    · have hI1 := hI.shape hsh
      -- the put, in the state the right-hand side left: it keeps the shape and abstracts to ES5's PutValue
      have hput : ∃ σ2, FnM.rtPutValue (refOf σ x (some j)) v σ1 = .ok () σ2 ∧ Shape σ1 σ2 ∧
          Fn.putIdent (absSt σ1) (some j) x v = .ok () (absSt σ2) := by
        rcases hcase with ⟨hj, p, hl⟩ | ⟨outer, o, ob, p, hst, ho, hl, hna, hstr⟩
        · have href : refOf σ x (some j) = .stash j x := by
            simp only [refOf]
            rcases dclProps_of_stash σ j x p hl with ⟨o, hs⟩ | ⟨o, ar, hs⟩ <;> simp [FnM.newReference, hs]
          obtain ⟨p', hl', _, _, _⟩ := hsh.lookup_some j x p hl
          obtain ⟨σ2, hrun, hsh2⟩ := rtPutValue_dcl_run σ1 j x v p' hl'
          have hspec := putValue_dcl_spec σ1 j x v p' hj hI1.nd hl'
          rw [hrun] at hspec
          simp only [absR] at hspec
          exact ⟨σ2, by rw [href]; exact hrun, hsh2, hspec.symm⟩
        · have href : refOf σ x (some j) = .prop (some o) x := by
            simp only [refOf, newReference_obj σ j x outer o hst]
          have hst1 := hsh.stash_obj j outer o hst
          obtain ⟨ob', ho', he⟩ := hsh.obj_some o ob ho
          obtain ⟨p', hl', _, _, _⟩ := erase_lookup_some he x p hl
          have hna' : ∀ ipn st, ob'.val ≠ .arguments ipn st := by rw [erase_val he]; exact hna
          have hstr' : ∀ s, ob'.val ≠ .string s := by rw [erase_val he]; exact hstr
          obtain ⟨σ2, hrun, hsh2⟩ := objPut_update_run σ1 o x v ob' p' ho' hl' hna' hstr' hxn
          have hrt : FnM.rtPutValue (.prop (some o) x) v σ1 = .ok () σ2 := by
            simp only [FnM.rtPutValue, FnM.refPutValue, bind_run, objPutA_run σ1 x (hI1.ro.vis x hx), hrun, pure_run]
            rfl
          have hspec := putValue_obj_spec σ1 j outer o x v hst1 hI1.ro.wf0 (hI1.ro.vis x hx) hI1.ww hI1.pd
            (by intro ob1 ho1; rw [ho'] at ho1; cases ho1; exact hna')
          rw [newReference_obj σ1 j x outer o hst1, hrt] at hspec
          simp only [absR] at hspec
          exact ⟨σ2, by rw [href]; exact hrt, hsh2, hspec.symm⟩
      obtain ⟨σ2, hrun, hsh2, hspec⟩ := hput
      right; left
      refine ⟨v, σ2, ?_, ?_, hsh.trans hsh2⟩
      · rw [h1]; simp only [hrun]
      · rw [h1']; simp only [hspec]
    · right; right
      refine ⟨nm, σ1, by rw [h1], ?_, hsh⟩
      rw [h1'] <;> rfl

/-! ## composing sub-evaluations -/

theorem lw_bin (n : Nat) (a b e : Fn.FE) (f : Fn.V → Fn.V → Fn.V) (sc : FnM.Scope) (rest : List FnM.Scope) (xs ys : List String)
    (hm : evalV (n+1) e = (do let lv ← evalV n a; let rv ← evalV n b; pure (f lv rv)))
    (hs : ∀ (c : Fn.Ctx) (s : Fn.St), Fn.evalE (n+1) e c s =
      match Fn.evalE n a c s with
      | .ok va s1 => (match Fn.evalE n b c s1 with
        | .ok vb s2 => .ok (f va vb) s2
        | .throw t s2 => .throw t s2
        | .fuel => .fuel)
      | .throw t s1 => .throw t s1
      | .fuel => .fuel)
    (iha : ∀ σ, LWInv σ sc rest xs ys → LWSim n a sc σ)
    (ihb : ∀ σ, LWInv σ sc rest xs ys → LWSim n b sc σ)
    (σ : FnM.St) (hI : LWInv σ sc rest xs ys) : LWSim (n+1) e sc σ := by
  unfold LWSim
  rw [hm, hs]
  simp only [bind_run]
  rcases iha σ hI with h | ⟨va, σ1, h1, h1', sh1⟩ | ⟨nm, σ1, h1, h1', sh1⟩
  · left; rw [h]
  · rw [h1, h1']
    simp only []
    rcases ihb σ1 (hI.shape sh1) with h | ⟨vb, σ2, h2, h2', sh2⟩ | ⟨nm, σ2, h2, h2', sh2⟩
    · left; rw [h]
    · right; left
      exact ⟨f va vb, σ2, by rw [h2] <;> rfl, by rw [h2'] <;> rfl, sh1.trans sh2⟩
    · right; right
      refine ⟨nm, σ2, by rw [h2] <;> rfl, ?_, sh1.trans sh2⟩
      rw [h2'] <;> rfl
  · right; right
    refine ⟨nm, σ1, by rw [h1] <;> rfl, ?_, sh1⟩
    rw [h1'] <;> rfl

theorem lw_un (n : Nat) (a e : Fn.FE) (f : Fn.V → Fn.V) (sc : FnM.Scope) (rest : List FnM.Scope) (xs ys : List String)
    (hm : evalV (n+1) e = (do let v ← evalV n a; pure (f v)))
    (hs : ∀ (c : Fn.Ctx) (s : Fn.St), Fn.evalE (n+1) e c s =
      match Fn.evalE n a c s with
      | .ok va s1 => .ok (f va) s1
      | .throw t s1 => .throw t s1
      | .fuel => .fuel)
    (iha : ∀ σ, LWInv σ sc rest xs ys → LWSim n a sc σ)
    (σ : FnM.St) (hI : LWInv σ sc rest xs ys) : LWSim (n+1) e sc σ := by
  unfold LWSim
  rw [hm, hs]
  simp only [bind_run]
  rcases iha σ hI with h | ⟨va, σ1, h1, h1', sh1⟩ | ⟨nm, σ1, h1, h1', sh1⟩
  · left; rw [h]
  · right; left
    exact ⟨f va, σ1, by rw [h1] <;> rfl, by rw [h1'] <;> rfl, sh1⟩
  · right; right
    refine ⟨nm, σ1, by rw [h1] <;> rfl, ?_, sh1⟩
    rw [h1'] <;> rfl

theorem lw_cond (n : Nat) (t a b : Fn.FE) (sc : FnM.Scope) (rest : List FnM.Scope) (xs ys : List String)
    (iht : ∀ σ, LWInv σ sc rest xs ys → LWSim n t sc σ)
    (iha : ∀ σ, LWInv σ sc rest xs ys → LWSim n a sc σ)
    (ihb : ∀ σ, LWInv σ sc rest xs ys → LWSim n b sc σ)
    (σ : FnM.St) (hI : LWInv σ sc rest xs ys) : LWSim (n+1) (.cond t a b) sc σ := by
  unfold LWSim
  rw [evalV_cond, spec_cond]
  simp only [bind_run]
  rcases iht σ hI with h | ⟨tv, σ1, h1, h1', sh1⟩ | ⟨nm, σ1, h1, h1', sh1⟩
  · left; rw [h]
  · rw [h1, h1']
    simp only []
    cases Fn.truthy tv with
    | true =>
      simp only [if_true]
      rcases iha σ1 (hI.shape sh1) with h | ⟨va, σ2, h2, h2', sh2⟩ | ⟨nm, σ2, h2, h2', sh2⟩
      · left; exact h
      · right; left; exact ⟨va, σ2, h2, h2', sh1.trans sh2⟩
      · right; right; exact ⟨nm, σ2, h2, h2', sh1.trans sh2⟩
    | false =>
      simp only [Bool.false_eq_true, if_false]
      rcases ihb σ1 (hI.shape sh1) with h | ⟨vb, σ2, h2, h2', sh2⟩ | ⟨nm, σ2, h2, h2', sh2⟩
      · left; exact h
      · right; left; exact ⟨vb, σ2, h2, h2', sh1.trans sh2⟩
      · right; right; exact ⟨nm, σ2, h2, h2', sh1.trans sh2⟩
  · right; right
    refine ⟨nm, σ1, by rw [h1] <;> rfl, ?_, sh1⟩
    rw [h1'] <;> rfl

theorem lw_log (n : Nat) (a : Fn.FE) (sc : FnM.Scope) (rest : List FnM.Scope) (xs ys : List String)
    (iha : ∀ σ, LWInv σ sc rest xs ys → LWSim n a sc σ)
    (σ : FnM.St) (hI : LWInv σ sc rest xs ys) : LWSim (n+1) (.log a) sc σ := by
  have hmA : evalV (n+1) (.log a) σ =
      (match evalV n a σ with
       | .ok v s1 => (match FnM.tokV v s1 with
         | .ok t s2 => .ok v { s2 with trace := s2.trace ++ [t] }
         | .throw e s2 => .throw e s2
         | .fuel => .fuel)
       | .throw t s1 => .throw t s1
       | .fuel => .fuel) := by
    simp only [evalV, FnM.evalE, bind_run]
    cases FnM.evalE n a σ with
    | fuel => rfl
    | throw t s => rfl
    | ok mv s =>
      simp only []
      cases FnM.resolve mv s with
      | fuel => rfl
      | throw t s1 => rfl
      | ok v s1 =>
        simp only []
        cases FnM.tokV v s1 with
        | fuel => rfl
        | throw t s2 => rfl
        | ok tk s2 => rfl
  have hsA : ∀ (c : Fn.Ctx) (s : Fn.St), Fn.evalE (n+1) (.log a) c s =
      match Fn.evalE n a c s with
      | .ok v s1 => .ok v { s1 with trace := s1.trace ++ [Fn.tokV s1 v] }
      | .throw t s1 => .throw t s1
      | .fuel => .fuel := by
    intro c s
    rw [Fn.evalE]
    cases Fn.evalE n a c s <;> rfl
  unfold LWSim
  rw [hmA, hsA]
  rcases iha σ hI with h | ⟨va, σ1, h1, h1', sh1⟩ | ⟨nm, σ1, h1, h1', sh1⟩
  · left; rw [h]
  · right; left
    have hI1 := hI.shape sh1
    have htk := tokV_spec σ1 va hI1.ro.cls hI1.ro.ew
    refine ⟨va, { σ1 with trace := σ1.trace ++ [Fn.tokV (absSt σ1) va] }, ?_, ?_, sh1.trans (Shape.trace σ1 _)⟩
    · rw [h1]; simp only [htk]
    · rw [h1']; rfl
  · right; right
    exact ⟨nm, σ1, by rw [h1], by rw [h1'] <;> rfl, sh1⟩

/-! ## expressions whose result is a value, never a reference -/

/-- by its outermost form (nothing is asked of the subexpressions) -/
def valForm : Fn.FE → Bool
  | .lit _ => true
  | .this => true
  | .add _ _ => true
  | .sub _ _ => true
  | .lt _ _ => true
  | .seq _ _ => true
  | .not _ => true
  | .typeof _ => true
  | .val _ => true
  | .log _ => true
  | .cond _ _ _ => true
  | .assign _ _ => true
  | _ => false

theorem valForm_isVal (n : Nat) (e : Fn.FE) (hro : valForm e = true) (hnv : ∀ x, e ≠ .var x) (σ : FnM.St) (mv : FnM.MV) (σ' : FnM.St)
    (hr : FnM.evalE n e σ = .ok mv σ') : ∃ v, mv = .val v := by
  cases n with
  | zero => simp [FnM.evalE, FnM.outOfFuel] at hr
  | succ n =>
      cases e with
      | var x => exact absurd rfl (hnv x)
      | lit v => simp [FnM.evalE] at hr; exact ⟨_, hr.1.symm⟩
      | this => simp only [FnM.evalE, bind_run] at hr; cases hc : FnM.curScope σ with
        | ok sc s1 => rw [hc] at hr; simp at hr; exact ⟨_, hr.1.symm⟩
        | throw t s1 => rw [hc] at hr; simp at hr
        | fuel => rw [hc] at hr; simp at hr
      | add a b | sub a b | lt a b | seq a b =>
        simp only [FnM.evalE, bind_run] at hr
        revert hr
        cases FnM.evalE n a σ with
        | fuel => simp
        | throw t s => simp
        | ok m1 s1 =>
          simp only []
          cases FnM.resolve m1 s1 with
          | fuel => simp
          | throw t s => simp
          | ok lv s2 =>
            simp only []
            cases FnM.evalE n b s2 with
            | fuel => simp
            | throw t s => simp
            | ok m2 s3 =>
              simp only []
              cases FnM.resolve m2 s3 with
              | fuel => simp
              | throw t s => simp
              | ok rv s4 => simp only [pure_run, FnM.R.ok.injEq]; intro h; exact ⟨_, h.1.symm⟩
      | not a | val a =>
        simp only [FnM.evalE, bind_run] at hr
        revert hr
        cases FnM.evalE n a σ with
        | fuel => simp
        | throw t s => simp
        | ok m1 s1 =>
          simp only []
          cases FnM.resolve m1 s1 with
          | fuel => simp
          | throw t s => simp
          | ok lv s2 => simp only [pure_run, FnM.R.ok.injEq]; intro h; exact ⟨_, h.1.symm⟩
      | typeof a =>
        simp only [FnM.evalE, bind_run] at hr
        revert hr
        cases FnM.evalE n a σ with
        | fuel => simp
        | throw t s => simp
        | ok m1 s1 =>
          simp only []
          cases m1 with
          | val v =>
            simp only [FnM.resolve, bind_run, pure_run, getSt_run, FnM.R.ok.injEq]
            intro h; exact ⟨_, h.1.symm⟩
          | ref r =>
            cases r with
            | stash b nm =>
              simp only [bind_run]
              cases FnM.resolve (.ref (.stash b nm)) s1 with
              | fuel => simp
              | throw t s => simp
              | ok lv s2 => simp only [getSt_run, pure_run, FnM.R.ok.injEq]; intro h; exact ⟨_, h.1.symm⟩
            | prop b nm =>
              cases b with
              | none => simp only [pure_run, FnM.R.ok.injEq]; intro h; exact ⟨_, h.1.symm⟩
              | some bb =>
                simp only [bind_run]
                cases FnM.resolve (.ref (.prop (some bb) nm)) s1 with
                | fuel => simp
                | throw t s => simp
                | ok lv s2 => simp only [getSt_run, pure_run, FnM.R.ok.injEq]; intro h; exact ⟨_, h.1.symm⟩
            | pprop b nm pv =>
              simp only [bind_run]
              cases FnM.resolve (.ref (.pprop b nm pv)) s1 with
              | fuel => simp
              | throw t s => simp
              | ok lv s2 => simp only [getSt_run, pure_run, FnM.R.ok.injEq]; intro h; exact ⟨_, h.1.symm⟩
      | log a =>
        simp only [FnM.evalE, bind_run] at hr
        revert hr
        cases FnM.evalE n a σ with
        | fuel => simp
        | throw t s => simp
        | ok m1 s1 =>
          simp only []
          cases FnM.resolve m1 s1 with
          | fuel => simp
          | throw t s => simp
          | ok lv s2 =>
            simp only []
            cases FnM.tokV lv s2 with
            | fuel => simp
            | throw t s => simp
            | ok tk s3 => simp only [modifySt_run, pure_run, FnM.R.ok.injEq]; intro h; exact ⟨_, h.1.symm⟩
      | cond t a b =>
        simp only [FnM.evalE, bind_run] at hr
        revert hr
        cases FnM.evalE n t σ with
        | fuel => simp
        | throw t s => simp
        | ok m1 s1 =>
          simp only []
          cases FnM.resolve m1 s1 with
          | fuel => simp
          | throw t s => simp
          | ok tv s2 =>
            simp only []
            cases Fn.truthy tv with
            | true =>
              simp only [if_true, bind_run]
              cases FnM.evalE n a s2 with
              | fuel => simp
              | throw t s => simp
              | ok m2 s3 =>
                simp only []
                cases FnM.resolve m2 s3 with
                | fuel => simp
                | throw t s => simp
                | ok rv s4 => simp only [pure_run, FnM.R.ok.injEq]; intro h; exact ⟨_, h.1.symm⟩
            | false =>
              simp only [Bool.false_eq_true, if_false, bind_run]
              cases FnM.evalE n b s2 with
              | fuel => simp
              | throw t s => simp
              | ok m2 s3 =>
                simp only []
                cases FnM.resolve m2 s3 with
                | fuel => simp
                | throw t s => simp
                | ok rv s4 => simp only [pure_run, FnM.R.ok.injEq]; intro h; exact ⟨_, h.1.symm⟩
      | assign x e1 =>
        simp only [FnM.evalE, bind_run] at hr
        revert hr
        cases FnM.evalE n (.var x) σ with
        | fuel => simp
        | throw t s => simp
        | ok m0 s0 =>
          simp only []
          cases FnM.evalE n e1 s0 with
          | fuel => simp
          | throw t s => simp
          | ok m1 s1 =>
            simp only []
            cases FnM.resolve m1 s1 with
            | fuel => simp
            | throw t s => simp
            | ok rv s2 =>
              simp only []
              cases m0 with
              | val v0 => simp only [pure_run, FnM.R.ok.injEq]; intro h; exact ⟨_, h.1.symm⟩
              | ref r =>
                simp only []
                cases FnM.rtPutValue r rv s2 with
                | fuel => simp
                | throw t s => simp
                | ok u s3 => simp only [pure_run, FnM.R.ok.injEq]; intro h; exact ⟨_, h.1.symm⟩
      | _ => simp [valForm] at hro


theorem lw_typeof (n : Nat) (a : Fn.FE) (sc : FnM.Scope) (rest : List FnM.Scope) (xs ys : List String)
    (hf : valForm a = true)
    (iha : ∀ σ, LWInv σ sc rest xs ys → LWSim n a sc σ)
    (σ : FnM.St) (hI : LWInv σ sc rest xs ys) : LWSim (n+1) (.typeof a) sc σ := by
  have hnv : ∀ x, a ≠ .var x := by intro x h; rw [h] at hf; simp [valForm] at hf
  have hsA : ∀ (c : Fn.Ctx) (s : Fn.St), Fn.evalE (n+1) (.typeof a) c s =
      match Fn.evalE n a c s with
      | .ok va s1 => .ok (.str (Fn.typeofV s1 va)) s1
      | .throw t s1 => .throw t s1
      | .fuel => .fuel := by
    intro c s
    cases a with
    | var x => exact absurd rfl (hnv x)
    | _ =>
      rw [Fn.evalE]
      all_goals first | (intro x h; cases h) | (cases Fn.evalE n _ c s <;> rfl)
  unfold LWSim
  rw [hsA]
  have hmA : evalV (n+1) (.typeof a) σ =
      (match evalV n a σ with
       | .ok v s1 => .ok (.str (FnM.typeofV s1 v)) s1
       | .throw t s1 => .throw t s1
       | .fuel => .fuel) := by
    simp only [evalV, FnM.evalE, bind_run]
    cases he : FnM.evalE n a σ with
    | fuel => rfl
    | throw t s => rfl
    | ok mv s =>
      obtain ⟨v, rfl⟩ := valForm_isVal n a hf hnv σ mv s he
      simp only [FnM.resolve, bind_run, pure_run, getSt_run]
  rw [hmA]
  rcases iha σ hI with h | ⟨va, σ1, h1, h1', sh1⟩ | ⟨nm, σ1, h1, h1', sh1⟩
  · left; rw [h]
  · right; left
    refine ⟨.str (FnM.typeofV σ1 va), σ1, by rw [h1], ?_, sh1⟩
    rw [h1']
    simp only [typeofV_spec]
  · right; right
    exact ⟨nm, σ1, by rw [h1], by rw [h1'] <;> rfl, sh1⟩

/-! ## the fragment -/

/-- the read-only fragment plus assignments `x = e` -/
def lw : Fn.FE → Bool
  | .lit _ => true
  | .this => true
  | .var _ => true
  | .add a b => lw a && lw b
  | .sub a b => lw a && lw b
  | .lt a b => lw a && lw b
  | .seq a b => lw a && lw b
  | .not a => lw a
  | .typeof a => lw a
  | .val a => lw a
  | .log a => lw a
  | .cond t a b => lw t && lw a && lw b
  | .assign _ e => lw e
  | _ => false

/-- every identifier of the expression, read or assigned -/
def reads : Fn.FE → List String
  | .var x => [x]
  | .add a b => reads a ++ reads b
  | .sub a b => reads a ++ reads b
  | .lt a b => reads a ++ reads b
  | .seq a b => reads a ++ reads b
  | .not a => reads a
  | .typeof a => reads a
  | .val a => reads a
  | .log a => reads a
  | .cond t a b => reads t ++ reads a ++ reads b
  | .assign x e => x :: reads e
  | _ => []

/-- the identifiers assigned to -/
def writes : Fn.FE → List String
  | .add a b => writes a ++ writes b
  | .sub a b => writes a ++ writes b
  | .lt a b => writes a ++ writes b
  | .seq a b => writes a ++ writes b
  | .not a => writes a
  | .typeof a => writes a
  | .val a => writes a
  | .log a => writes a
  | .cond t a b => writes t ++ writes a ++ writes b
  | .assign x e => x :: writes e
  | _ => []

theorem lw_valForm (e : Fn.FE) (h : lw e = true) (hnv : ∀ x, e ≠ .var x) : valForm e = true := by
  cases e <;> first | exact absurd rfl (hnv _) | rfl | (simp [lw] at h)

/-- **expr_refines_assign** — the evaluator simulation for the read-only fragment extended by assignments to local
    bindings: in every state satisfying `LWInv` (the read-only invariant for the identifiers that occur, no duplicate
    names in a stash, and every assigned identifier resolves to a declarative stash other than the global one), otto's
    evaluation followed by GetValue and ES5's evaluation give the same value or the same error, and they end in states
    that correspond again (`absSt`) and have the shape of the initial state – so the invariant holds again. -/
theorem expr_refines_assign (sc : FnM.Scope) (rest : List FnM.Scope) (xs ys : List String) :
    ∀ (n : Nat) (e : Fn.FE), lw e = true → (∀ x ∈ reads e, x ∈ xs) → (∀ y ∈ writes e, y ∈ ys) →
      ∀ σ, LWInv σ sc rest xs ys → LWSim n e sc σ := by
  intro n
  induction n with
  | zero => intro e _ _ _ σ _; left; simp [evalV, FnM.evalE, FnM.outOfFuel]
  | succ n ih =>
    intro e hlw hrd hwr σ hI
    cases e with
    | lit v => exact LWSim.of_ro (expr_refines_partial sc rest xs (n+1) (.lit v) rfl (by simp [idents]) σ hI.ro hI.scp)
    | this => exact LWSim.of_ro (expr_refines_partial sc rest xs (n+1) .this rfl (by simp [idents]) σ hI.ro hI.scp)
    | var x =>
      exact LWSim.of_ro (expr_refines_partial sc rest xs (n+1) (.var x) rfl
        (by intro y hy; simp [idents] at hy; subst hy; exact hrd _ (by simp [reads])) σ hI.ro hI.scp)
    | add a b =>
      simp only [lw, Bool.and_eq_true] at hlw
      exact lw_bin n a b _ FnM.binAdd sc rest xs ys (evalV_bin n a b FnM.binAdd _ (by rw [FnM.evalE])) (spec_add n a b)
        (fun σ' => ih a hlw.1 (fun x hx => hrd x (by simp [reads, hx])) (fun x hx => hwr x (by simp [writes, hx])) σ')
        (fun σ' => ih b hlw.2 (fun x hx => hrd x (by simp [reads, hx])) (fun x hx => hwr x (by simp [writes, hx])) σ') σ hI
    | sub a b =>
      simp only [lw, Bool.and_eq_true] at hlw
      exact lw_bin n a b _ FnM.binSub sc rest xs ys (evalV_bin n a b FnM.binSub _ (by rw [FnM.evalE])) (spec_sub n a b)
        (fun σ' => ih a hlw.1 (fun x hx => hrd x (by simp [reads, hx])) (fun x hx => hwr x (by simp [writes, hx])) σ')
        (fun σ' => ih b hlw.2 (fun x hx => hrd x (by simp [reads, hx])) (fun x hx => hwr x (by simp [writes, hx])) σ') σ hI
    | lt a b =>
      simp only [lw, Bool.and_eq_true] at hlw
      exact lw_bin n a b _ FnM.binLt sc rest xs ys (evalV_bin n a b FnM.binLt _ (by rw [FnM.evalE])) (spec_lt n a b)
        (fun σ' => ih a hlw.1 (fun x hx => hrd x (by simp [reads, hx])) (fun x hx => hwr x (by simp [writes, hx])) σ')
        (fun σ' => ih b hlw.2 (fun x hx => hrd x (by simp [reads, hx])) (fun x hx => hwr x (by simp [writes, hx])) σ') σ hI
    | seq a b =>
      simp only [lw, Bool.and_eq_true] at hlw
      exact lw_bin n a b _ FnM.binSeq sc rest xs ys (evalV_bin n a b FnM.binSeq _ (by rw [FnM.evalE])) (spec_seq n a b)
        (fun σ' => ih a hlw.1 (fun x hx => hrd x (by simp [reads, hx])) (fun x hx => hwr x (by simp [writes, hx])) σ')
        (fun σ' => ih b hlw.2 (fun x hx => hrd x (by simp [reads, hx])) (fun x hx => hwr x (by simp [writes, hx])) σ') σ hI
    | not a =>
      simp only [lw] at hlw
      exact lw_un n a _ (fun v => .bool (!Fn.truthy v)) sc rest xs ys (evalV_un n a _ _ (by rw [FnM.evalE])) (spec_not n a)
        (fun σ' => ih a hlw (fun x hx => hrd x (by simp [reads, hx])) (fun x hx => hwr x (by simp [writes, hx])) σ') σ hI
    | val a =>
      simp only [lw] at hlw
      exact lw_un n a _ (fun v => v) sc rest xs ys (evalV_un n a _ _ (by rw [FnM.evalE])) (spec_val n a)
        (fun σ' => ih a hlw (fun x hx => hrd x (by simp [reads, hx])) (fun x hx => hwr x (by simp [writes, hx])) σ') σ hI
    | typeof a =>
      simp only [lw] at hlw
      by_cases hv : ∃ x, a = .var x
      · obtain ⟨x, rfl⟩ := hv
        exact LWSim.of_ro (expr_refines_partial sc rest xs (n+1) (.typeof (.var x)) rfl
          (by intro y hy; simp [idents] at hy; subst hy; exact hrd _ (by simp [reads])) σ hI.ro hI.scp)
      · exact lw_typeof n a sc rest xs ys (lw_valForm a hlw (fun x h => hv ⟨x, h⟩))
          (fun σ' => ih a hlw (fun x hx => hrd x (by simp [reads, hx])) (fun x hx => hwr x (by simp [writes, hx])) σ') σ hI
    | log a =>
      simp only [lw] at hlw
      exact lw_log n a sc rest xs ys
        (fun σ' => ih a hlw (fun x hx => hrd x (by simp [reads, hx])) (fun x hx => hwr x (by simp [writes, hx])) σ') σ hI
    | cond t a b =>
      simp only [lw, Bool.and_eq_true] at hlw
      exact lw_cond n t a b sc rest xs ys
        (fun σ' => ih t hlw.1.1 (fun x hx => hrd x (by simp [reads, hx])) (fun x hx => hwr x (by simp [writes, hx])) σ')
        (fun σ' => ih a hlw.1.2 (fun x hx => hrd x (by simp [reads, hx])) (fun x hx => hwr x (by simp [writes, hx])) σ')
        (fun σ' => ih b hlw.2 (fun x hx => hrd x (by simp [reads, hx])) (fun x hx => hwr x (by simp [writes, hx])) σ') σ hI
    | assign x e1 =>
      simp only [lw] at hlw
      exact lw_assign n x e1 sc rest xs ys (hrd x (by simp [reads])) (hwr x (by simp [writes]))
        (fun σ' => ih e1 hlw (fun y hy => hrd y (by simp [reads, hy])) (fun y hy => hwr y (by simp [writes, hy])) σ') σ hI
    | _ => simp [lw] at hlw

end OttoVerif.C01.FnRefine
