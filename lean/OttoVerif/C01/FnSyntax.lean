/-
  C01/FnSyntax — µJS with functions: closures, this, call/apply/bind, constructors and prototype
  chains, the arguments object, direct and indirect eval, function/var hoisting.  Own cons-lists.
  (The statement forms with labels are the subject of Syntax.lean/Model.lean/Spec.lean and their
  refinement theorem; here statements are those needed to exercise functions, plus the two forms
  that need objects and environments and are therefore absent from the statement layer: `with`
  and `for-in`, with labels/break/continue so that every way of leaving them can be written.)
-/
namespace OttoVerif.C01.Fn

/-- primitive literals -/
inductive PV where
  | undef | null
  | bool (b : Bool)
  | num (n : Int)
  | str (s : String)
deriving DecidableEq, Repr, Inhabited

mutual
inductive FE where
  | lit (v : PV)
  | var (x : String)
  | this
  | assign (x : String) (e : FE)
  | get (o : FE) (p : String)                       -- o.p
  | getE (o : FE) (k : FE)                          -- o[k]
  | set (o : FE) (p : String) (e : FE)              -- o.p = e
  | setE (o : FE) (k : FE) (e : FE)                 -- o[k] = e
  | del (o : FE) (p : String)                       -- delete o.p
  | delE (o : FE) (k : FE)                          -- delete o[k]
  | delV (x : String)                               -- delete x
  | delX (e : FE)                                   -- delete (e), e not a reference (a conditional, (0, e))
  | cond (t : FE) (a : FE) (b : FE)                 -- (t ? a : b)
  | protoOf (e : FE)                                -- Object.getPrototypeOf(e)
  | regex                                           -- the regular expression literal /x/
  | fcc (n : Nat)                                   -- String.fromCharCode(n)
  | accFn (isSet : Bool) (f : FE)                   -- Object.getOwnPropertyDescriptor({get p() {…}}, "p").get  (or set p(v) / .set):
                                                    --   the accessor function an object initialiser creates HERE
  | hostFn                                          -- a host (Go) function that returns what it received as This
  | fnCtor (f : FE)                                 -- Function("<body of f>") for a parameterless, nameless f
  | wproto (k : String)                             -- String.prototype / Number.prototype / Boolean.prototype / Object.prototype
  | defAcc (o : FE) (p : String) (t : String)       -- Object.defineProperty(o, "p", {get: <logs G t, returns "v"+t>,
                                                    --   set: <logs S t and the value>, enumerable: false, configurable: true})
  | opSet (o : FE) (p : String) (e : FE)            -- o.p += e
  | incr (o : FE) (p : String)                      -- o.p++
  | defRO (o : FE) (p : String) (e : FE)            -- Object.defineProperty(o, "p", {value: e, writable: false,
                                                    --   enumerable: true, configurable: true})
  | call (f : FE) (args : FEs)                      -- f(args): no base object
  | mcall (o : FE) (p : String) (args : FEs)        -- o.p(args): this = o
  | new (f : FE) (args : FEs)
  /-- function expression; `vars`/`decls` are the var names and function declarations of the body,
      listed separately (the JavaScript rendering puts them anywhere in the body: hoisting) -/
  | func (name : Option String) (params : List String) (vars : List String) (decls : FDecls) (body : FSs)
  | obj (props : FProps)
  | add (a b : FE) | sub (a b : FE) | lt (a b : FE) | seq (a b : FE)
  | not (a : FE)
  | typeof (e : FE)
  | inst (a f : FE)                                 -- a instanceof f
  | log (e : FE)                                    -- host call, returns its argument
  /-- Object.defineProperty(o, "p", {value: e, enumerable: false, writable: true, configurable: true}) -/
  | defNE (o : FE) (p : String) (e : FE)
  | val (e : FE)                                    -- (0, e): GetValue, so a call through it has no base
  /-- direct eval("…") of a program given here in parsed form -/
  | defFix (o : FE) (p : String) (e : FE)           -- Object.defineProperty(o, "p", {value: e, writable: false,
                                                    --   enumerable: false, configurable: false})
  | evalD (vars : List String) (decls : FDecls) (body : FSs)
  /-- indirect eval: (0, eval)("…") -/
  | evalI (vars : List String) (decls : FDecls) (body : FSs)
inductive FEs where
  | nil | cons (e : FE) (r : FEs)
inductive FProps where
  | nil | cons (k : String) (e : FE) (r : FProps)
inductive FDecls where
  | nil | cons (name : String) (f : FE) (r : FDecls)
inductive FS where
  | expr (e : FE)
  | ret (e : Option FE)
  | ifS (c : FE) (t e : FSs)
  | whileS (c : FE) (b : FSs)
  | throwS (e : FE)
  | tryS (b : FSs) (hasCatch : Bool) (param : String) (c : FSs) (hasFin : Bool) (f : FSs)
  | varS (x : String) (e : FE)                      -- var x = e;  (the declaration itself is in `vars`)
  | block (b : FSs)                                 -- { … }
  | withS (o : FE) (b : FSs)                        -- with (o) { … }
  | forIn (isVar : Bool) (x : String) (o : FE) (b : FSs)   -- for (x in o) { … } / for (var x in o) { … }
  | forInI (x : String) (init : FE) (o : FE) (b : FSs)     -- for (var x = init in o) { … }
  | label (l : String) (s : FS)                     -- l: s
  | brk (l : Option String)                         -- break [l];
  | cont (l : Option String)                        -- continue [l];
  | switchS (d : FE) (cs : FCases)                  -- switch (d) { case e: … default: … }
inductive FSs where
  | nil | cons (s : FS) (r : FSs)
/-- the clauses of a switch statement in source order; at most one `dflt` -/
inductive FCases where
  | nil
  | case (e : FE) (b : FSs) (r : FCases)
  | dflt (b : FSs) (r : FCases)
end

end OttoVerif.C01.Fn
