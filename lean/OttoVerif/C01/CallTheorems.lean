/-
  C01/CallTheorems — ledger, part 2: entering function code.
-/
import OttoVerif.C01.CallModel
namespace OttoVerif.C01.CallThm
open OttoVerif.C01.Call

theorem lookup_setValue (x y : String) (v : Slot) (e : EnvL) :
    lookup x (setValue y v e) = if x = y then some v else lookup x e := by
  induction e with
  | nil => simp only [setValue, lookup]; split <;> simp_all [eq_comm]
  | cons h t ih =>
    obtain ⟨k, w⟩ := h
    simp only [setValue]
    by_cases hk : k = y
    · subst hk; simp only [if_true, lookup]; by_cases hx : k = x <;> simp [hx, eq_comm]
      intro h; exact absurd h.symm hx
    · simp only [hk, if_false, lookup, ih]
      by_cases hkx : k = x
      · subst hkx; simp [hk]
      · simp [hkx]

theorem lookup_append (x : String) (e f : EnvL) :
    lookup x (e ++ f) = match lookup x e with | some s => some s | none => lookup x f := by
  induction e with
  | nil => rfl
  | cons h t ih =>
    obtain ⟨k, w⟩ := h
    simp only [List.cons_append, lookup]
    by_cases hk : k = x <;> simp [hk, ih]

theorem lookup_createIfAbsent (x y : String) (v : Slot) (e : EnvL) :
    lookup x (createIfAbsent y v e) =
      match lookup x e with | some s => some s | none => if x = y then some v else none := by
  unfold createIfAbsent
  cases hy : lookup y e with
  | some s =>
    simp only
    cases hx : lookup x e with
    | some t => rfl
    | none =>
      simp only
      by_cases hxy : x = y
      · subst hxy; rw [hy] at hx; cases hx
      · simp [hxy]
  | none =>
    simp only [lookup_append, lookup]
    cases hx : lookup x e with
    | some t => rfl
    | none =>
      simp only
      by_cases hxy : y = x
      · subst hxy; simp
      · have : ¬ x = y := fun h => hxy h.symm
        simp [hxy, this]

/-- index of the LAST declaration of `x` among `fs` (numbered from `j`) -/
def fnIdx (x : String) : List String → Nat → Option Nat
  | [], _ => none
  | f :: fs, j => match fnIdx x fs (j+1) with
    | some k => some k
    | none => if f = x then some j else none

theorem lookup_bindFns (x : String) : ∀ (fs : List String) (j : Nat) (e : EnvL),
    lookup x (bindFns fs j e) = match fnIdx x fs j with | some k => some (.fn k) | none => lookup x e := by
  intro fs
  induction fs with
  | nil => intro j e; rfl
  | cons f fs ih =>
    intro j e
    simp only [bindFns, fnIdx, ih, lookup_setValue]
    cases fnIdx x fs (j+1) with
    | some k => rfl
    | none =>
      simp only
      by_cases hf : f = x
      · subst hf; simp
      · have : ¬ x = f := fun h => hf h.symm
        simp [hf, this]

theorem lookup_bindVars (x : String) : ∀ (vs : List String) (e : EnvL),
    lookup x (bindVars vs e) =
      match lookup x e with | some s => some s | none => if vs.contains x then some .undef else none := by
  intro vs
  induction vs with
  | nil => intro e; cases h : lookup x e <;> simp [bindVars, h]
  | cons v vs ih =>
    intro e
    simp only [bindVars, ih, lookup_createIfAbsent]
    cases lookup x e with
    | some s => rfl
    | none =>
      simp only
      by_cases hxv : x = v
      · subst hxv; simp
      · have : ¬ v = x := fun h => hxv h.symm
        simp [hxv, this]

theorem lookup_bindParams (nargs : Nat) (x : String) : ∀ (ps : List String) (i : Nat) (e : EnvL),
    (lookup x (bindParams nargs ps i e)).isSome = (ps.contains x || (lookup x e).isSome) := by
  intro ps
  induction ps with
  | nil => intro i e; simp [bindParams]
  | cons p ps ih =>
    intro i e
    simp only [bindParams, ih, lookup_setValue]
    by_cases hxp : x = p
    · subst hxp; simp
    · have : ¬ p = x := fun h => hxp h.symm
      simp [hxp, this]

/-- C01.binding_instantiation: for EVERY parameter list (duplicates included), argument count, list
    of function declarations and list of variable declarations, every identifier resolves to the same
    binding in the environment otto builds (cmplCallNodeFunction) and in the one ES5 §10.5 builds –
    including a parameter, function or variable named `arguments`, functions over variables and
    parameters, and later duplicates over earlier ones. -/
theorem binding_instantiation (params : List String) (nargs : Nat) (fns vars : List String) (x : String) :
    lookup x (modelInst params nargs fns vars) = lookup x (specInst params nargs fns vars) := by
  simp only [modelInst, specInst, lookup_bindVars]
  have hcore : lookup x (bindFns fns 0 (modelArgs params (bindParams nargs params 0 []))) =
      lookup x (specArgs (bindFns fns 0 (bindParams nargs params 0 []))) := by
    unfold modelArgs specArgs
    have hp := lookup_bindParams nargs "arguments" params 0 []
    simp only [lookup, Option.isSome_none, Bool.or_false] at hp
    cases hc : params.contains "arguments" with
    | true =>
      -- a parameter named `arguments`: already bound on both sides
      simp only [if_true]
      have h1 : (lookup "arguments" (bindParams nargs params 0 [])).isSome = true := by rw [hp, hc]
      have h2 : (lookup "arguments" (bindFns fns 0 (bindParams nargs params 0 []))).isSome = true := by
        rw [lookup_bindFns]
        cases fnIdx "arguments" fns 0 with
        | some k => rfl
        | none => exact h1
      cases h3 : lookup "arguments" (bindFns fns 0 (bindParams nargs params 0 [])) with
      | some s => rfl
      | none => rw [h3] at h2; cases h2
    | false =>
      simp only [Bool.false_eq_true, if_false]
      have h1 : lookup "arguments" (bindParams nargs params 0 []) = none := by
        cases h : lookup "arguments" (bindParams nargs params 0 []) with
        | none => rfl
        | some s => rw [h, hc] at hp; simp at hp
      rw [lookup_bindFns, lookup_setValue]
      cases hf : fnIdx "arguments" fns 0 with
      | some k =>
        -- a function named `arguments`: it wins on both sides
        have h3 : lookup "arguments" (bindFns fns 0 (bindParams nargs params 0 [])) = some (.fn k) := by
          rw [lookup_bindFns, hf]
        rw [h3]
        simp only [lookup_bindFns]
        cases hx : fnIdx x fns 0 with
        | some j => rfl
        | none =>
          simp only
          by_cases hxa : x = "arguments"
          · subst hxa; rw [hf] at hx; cases hx
          · simp [hxa]
      | none =>
        have h3 : lookup "arguments" (bindFns fns 0 (bindParams nargs params 0 [])) = none := by
          rw [lookup_bindFns, hf]; exact h1
        rw [h3]
        simp only [lookup_append, lookup_bindFns, lookup]
        cases hx : fnIdx x fns 0 with
        | some j => rfl
        | none =>
          simp only
          by_cases hxa : x = "arguments"
          · subst hxa; simp [h1]
          · have : ¬ "arguments" = x := fun h => hxa h.symm
            simp only [hxa, if_false, this]
            cases lookup x (bindParams nargs params 0 []) <;> rfl
  rw [hcore]

/-- non-vacuity: a parameter named like a later function, a var named `arguments`, a duplicate parameter -/
example : lookup "a" (modelInst ["a", "b", "a"] 2 ["b"] ["arguments", "c"]) = some .argUndef ∧
          lookup "b" (modelInst ["a", "b", "a"] 2 ["b"] ["arguments", "c"]) = some (.fn 0) ∧
          lookup "arguments" (modelInst ["a", "b", "a"] 2 ["b"] ["arguments", "c"]) = some .argumentsObj := by decide

/-! ### the parameter map of the arguments object -/

theorem clearName_append (p : String) (a b : List (Option String)) :
    clearName p (a ++ b) = clearName p a ++ clearName p b := by
  induction a with
  | nil => rfl
  | cons x a ih => cases x <;> simp [clearName, ih]

theorem noLaterDup_snoc (q : List String) (p : String) :
    noLaterDup (q ++ [p]) = clearName p (noLaterDup q) ++ [some p] := by
  induction q with
  | nil => simp [noLaterDup, clearName]
  | cons x q ih =>
    simp only [List.cons_append, noLaterDup, ih]
    by_cases hq : x ∈ q
    · simp [hq, clearName]
    · by_cases hxp : x = p
      · subst hxp; simp [hq, clearName]
      · simp [hq, hxp, clearName]

theorem mapGo_noLaterDup : ∀ (ps done : List String),
    mapGo ps (noLaterDup done) = noLaterDup (done ++ ps) := by
  intro ps
  induction ps with
  | nil => intro done; simp [mapGo]
  | cons p ps ih =>
    intro done
    simp only [mapGo]
    rw [← noLaterDup_snoc, ih]
    simp

theorem specMapped_cons (p : String) (q : List String) :
    specMapped (p :: q) = specStep p (specMapped q) := rfl

/-- the mappedNames list holds exactly the names seen so far -/
theorem specMapped_names (q : List String) : ∀ x : String, x ∈ (specMapped q).2 ↔ x ∈ q := by
  induction q with
  | nil => intro x; simp [specMapped]
  | cons p q ih =>
    intro x
    rw [specMapped_cons]
    unfold specStep
    by_cases h : p ∈ (specMapped q).2
    · have hp : p ∈ q := (ih p).mp h
      simp only [List.contains_eq_mem, h, decide_true, if_true]
      rw [ih]
      constructor
      · intro hx; exact List.mem_cons_of_mem _ hx
      · intro hx
        rcases List.mem_cons.mp hx with hx | hx
        · subst hx; exact hp
        · exact hx
    · simp only [List.contains_eq_mem, h, decide_false, if_false, Bool.false_eq_true]
      simp only [List.mem_cons, ih]

theorem specMapped_noLaterDup (q : List String) : (specMapped q).1 = noLaterDup q := by
  induction q with
  | nil => rfl
  | cons p q ih =>
    have hm := specMapped_names q p
    rw [specMapped_cons]
    unfold specStep
    simp only [noLaterDup, List.contains_eq_mem]
    by_cases h : p ∈ q
    · simp [hm.mpr h, h, ih]
    · have : ¬ p ∈ (specMapped q).2 := fun hh => h (hm.mp hh)
      simp [this, h, ih]

/-- C01.arguments_map: for EVERY parameter list (duplicates included) and every number of
    arguments, the parameter map otto builds is the one ES5 §10.6 step 11 builds.
    (Unconditional since fix c8023db; before it every position of a duplicated name was joined.) -/
theorem arguments_map (params : List String) (nargs : Nat) :
    modelMap params nargs = specMap params nargs := by
  unfold modelMap specMap
  rw [specMapped_noLaterDup]
  have := mapGo_noLaterDup (params.take nargs) []
  simp only [noLaterDup, List.nil_append] at this
  rw [this]

/-- non-vacuity / the repaired case: duplicated names, fewer arguments than parameters, more arguments -/
example : modelMap ["a", "a"] 2 = [none, some "a"] ∧ modelMap ["a", "a"] 1 = [some "a"] ∧
          modelMap ["a", "b", "a"] 4 = [none, some "b", some "a", none] := by decide

end OttoVerif.C01.CallThm
