/-
  C01/Model — otto's statement evaluator, transcribed from cmpl_evaluate_statement.go and result.go
  (as the code stands after the `fix:` commits a0ba018 / a9c3fe3 and the completion-value repairs
  2145201 / 1304643 / the per-pass value of loops and the label reset of if / with).
  JS `throw` is Go `panic(*exception)`: modelled by the `throw` result; every `defer` is modelled by
  explicit restoration on the exceptional path.  `rt.labels` is threaded explicitly (`L`).
  Fuel-indexed and total; `fuel` = ran out of fuel (never a real outcome).
-/
import OttoVerif.C01.Syntax
namespace OttoVerif.C01
variable {St : Type}

/-- what a statement evaluates to in otto: emptyValue, a value, or a `valueResult` -/
inductive OV where
  | empty
  | val (v : Val)
  | brk (t : String) (c : Option Val)     -- newBreakResult(target); `c` = result.value (none = emptyValue)
  | cont (t : String) (c : Option Val)    -- newContinueResult(target)
  | ret (v : Val)                         -- newReturnResult(value)
deriving DecidableEq, Repr, Inhabited

inductive MR (St : Type) where
  | ok (o : OV) (L : List String) (σ : St)
  | throw (v : Val) (L : List String) (σ : St)
  | fuel

/-- value.go:727 evaluateBreak(labels) == resultBreak -/
def isBreakIn (labels : List String) : OV → Bool
  | .brk t _ => labels.contains t
  | _ => false

inductive RK | ret | brk | cont deriving DecidableEq

/-- value.go:715 evaluateBreakContinue(labels) -/
def evalBC (labels : List String) : OV → RK
  | .brk t _ => if labels.contains t then .brk else .ret
  | .cont t _ => if labels.contains t then .cont else .ret
  | _ => .ret

def isResult : OV → Bool
  | .brk _ _ => true | .cont _ _ => true | .ret _ => true | _ => false

/-- the value an otto statement value stands for: emptyValue = none; for break / continue the value carried -/
def ovVal : OV → Option Val
  | .empty => none
  | .val v => some v
  | .brk _ c => c
  | .cont _ c => c
  | .ret v => some v

/-- result.go Value.carrying(value): a break / continue completion without a value takes `value` (unless empty) -/
def carrying (o : OV) (value : OV) : OV :=
  match o, value with
  | .brk t none, .val w => .brk t (some w)
  | .cont t none, .val w => .cont t (some w)
  | _, _ => o

/-- result.go Value.carried(otherwise): the value a break / continue completion brings along, or `otherwise` -/
def carried (o : OV) (otherwise : OV) : OV :=
  match o with
  | .brk _ (some w) => .val w
  | .cont _ (some w) => .val w
  | _ => otherwise

/-- the labelled statement's deferred pop (cmpl_evaluate_statement.go:72) -/
def popLabel (L : List String) : List String := if L.length > 0 then L.dropLast else []

/-- loop body: `nodeXStatement.body` is the block's list, or the single statement (cmpl_parse.go:229) -/
def bodyList : Stmt → Stmts
  | .block ss => ss
  | s => .cons s .nil

/-- outcome of one pass over a loop body / case clauses -/
inductive BR (St : Type) where
  | next (result : OV) (L : List String) (σ : St)      -- fell off the end
  | brk (result : OV) (L : List String) (σ : St)       -- `break resultBreak`
  | cont (result : OV) (L : List String) (σ : St)      -- `goto resultContinue`
  | retv (o : OV) (L : List String) (σ : St)           -- `return value`
  | throw (v : Val) (L : List String) (σ : St)
  | fuel

def defaultIdx : Cases → Nat → Option Nat
  | .nil, _ => none
  | .cons none _ _, i => some i
  | .cons (some _) _ cs, i => defaultIdx cs (i+1)

def dropCases : Nat → Cases → Cases
  | 0, cs => cs
  | _+1, .nil => .nil
  | k+1, .cons _ _ cs => dropCases k cs

/-- outcome of the case search -/
inductive FR (St : Type) where
  | found (idx : Option Nat) (σ : St)
  | throw (v : Val) (σ : St)

/-- first loop of cmplEvaluateNodeSwitchStatement: index of the first clause whose test === discriminant -/
def findCase (S : Sem St) (dv : Val) : Cases → Nat → St → FR St
  | .nil, _, σ => .found none σ
  | .cons none _ cs, i, σ => findCase S dv cs (i+1) σ
  | .cons (some t) _ cs, i, σ =>
    match S.evalE t σ with
    | .throw v σ' => .throw v σ'
    | .ok v σ' => if S.strictEq dv v then .found (some i) σ' else findCase S dv cs (i+1) σ'

/-- `result = value` unless the statement's value is empty (statement-list / loop-body bookkeeping) -/
def nextResult (o result : OV) : OV :=
  match o with
  | .empty => result
  | _ => o

/-- block: a break to one of the labels captured at entry completes the block with the value it carries
    (cmpl_evaluate_statement.go:35–41 `return value.carried(emptyValue)`) -/
def blockWrap (L : List String) : MR St → MR St
  | .ok o L' σ' => if isBreakIn L o then .ok (carried o .empty) L' σ' else .ok o L' σ'
  | r => r

/-- labelled statement: deferred pop of the label; (fix a0ba018) a break to the label completes it -/
def labelWrap (l : String) : MR St → MR St
  | .ok o L' σ' => if isBreakIn [l] o then .ok (carried o .empty) (popLabel L') σ' else .ok o (popLabel L') σ'
  | .throw v L' σ' => .throw v (popLabel L') σ'
  | .fuel => .fuel

/-- leaving the catch block restores the outer lexical environment on every exit (fix a9c3fe3) -/
def exitWrap (S : Sem St) : MR St → MR St
  | .ok o L2 σ2 => .ok o L2 (S.catchExit σ2)
  | .throw v2 L2 σ2 => .throw v2 L2 (S.catchExit σ2)
  | .fuel => .fuel

/-- cmplEvaluateNodeWithStatement's `defer func() { rt.scope.lexical = outer }()`: the outer lexical
    environment is restored however the body ends (a JS exception is a Go panic: the defer still runs) -/
def withExitWrap (S : Sem St) : MR St → MR St
  | .ok o L2 σ2 => .ok o L2 (S.withExit σ2)
  | .throw v2 L2 σ2 => .throw v2 L2 (S.withExit σ2)
  | .fuel => .fuel

/-- `if exep && node.catch != nil { … tryCatchEvaluate(catch body) }` -/
def catchPhase (S : Sem St) (hasCatch : Bool) (param : String) (runC : List String → St → MR St) : MR St → MR St
  | .throw v L1 σ1 => if hasCatch then exitWrap S (runC L1 (S.catchEnter param v σ1)) else .throw v L1 σ1
  | r => r

/-- the finally block overrides only when it yields a `valueResult`; its own throw propagates -/
def finOver (o : OV) : MR St → MR St
  | .ok fo L3 σ3 => if isResult fo then .ok fo L3 σ3 else .ok o L3 σ3
  | r => r
def finOverThrow (v : Val) : MR St → MR St
  | .ok fo L3 σ3 => if isResult fo then .ok fo L3 σ3 else .throw v L3 σ3
  | r => r

def finallyPhase (hasFin : Bool) (runF : List String → St → MR St) : MR St → MR St
  | .fuel => .fuel
  | .ok o L2 σ2 => if hasFin then finOver o (runF L2 σ2) else .ok o L2 σ2
  | .throw v L2 σ2 => if hasFin then finOverThrow v (runF L2 σ2) else .throw v L2 σ2

/-- how a loop reacts to one pass over its body -/
def loopStep (again : OV → List String → St → MR St) : BR St → MR St
  | .next r L' σ2 => again r L' σ2
  | .cont r L' σ2 => again r L' σ2
  | .brk r L' σ2 => .ok r L' σ2
  | .retv o L' σ2 => .ok o L' σ2
  | .throw v L' σ2 => .throw v L' σ2
  | .fuel => .fuel

/-- how the switch statement reacts to running its clauses -/
def switchWrap : BR St → MR St
  | .next r L' σ3 => .ok r L' σ3
  | .brk r L' σ3 => .ok r L' σ3               -- `return value.carried(result)`
  | .cont r L' σ3 => .ok r L' σ3              -- (not produced by ottoCases)
  | .retv o L' σ3 => .ok o L' σ3
  | .throw v L' σ3 => .throw v L' σ3
  | .fuel => .fuel

/-- dispatch on a body statement's `valueResult`: `return value.carrying(pass)`, `result = value.carried(result)` -/
def bodyResult (labels : List String) (o result pass : OV) (L' : List String) (σ' : St) : BR St :=
  match evalBC labels o with
  | .ret => .retv (carrying o pass) L' σ'
  | .brk => .brk (carried o result) L' σ'
  | .cont => .cont (carried o result) L' σ'

mutual

/-- cmplEvaluateNodeStatement (cmpl_evaluate_statement.go:10) -/
def ottoS (S : Sem St) : Nat → Stmt → List String → St → MR St
  | 0, _, _, _ => .fuel
  | n+1, s, L, σ =>
    match s with
    | .empty => .ok .empty L σ
    | .expr e =>
      match S.evalE e σ with
      | .ok v σ' => .ok (.val v) L σ'
      | .throw v σ' => .throw v L σ'
    | .varS inits => ottoVars S n inits L σ
    | .block ss =>
      -- labels := rt.labels; rt.labels = nil
      blockWrap L (ottoList S n ss [] σ .empty)
    | .ifS c t e =>
      match S.evalE c σ with
      | .throw v σ' => .throw v L σ'
      | .ok v σ' =>
        -- `rt.labels = nil`: labels wait only for the statement they label (12.12)
        if S.truthy v then ottoS S n t [] σ' else ottoS S n e [] σ'
    | .whileS c b => ottoWhile S n c (bodyList b) (L ++ [""]) [] σ .empty
    | .doWhile b c => ottoDoWhile S n (bodyList b) c (L ++ [""]) [] σ .empty
    | .forS init test update b =>
      match init with
      | none => ottoFor S n test update (bodyList b) (L ++ [""]) [] σ .empty
      | some e =>
        match S.evalE e σ with
        | .throw v σ' => .throw v [] σ'
        | .ok _ σ' => ottoFor S n test update (bodyList b) (L ++ [""]) [] σ' .empty
    | .labelled l s =>
      -- rt.labels = append(rt.labels, l); defer pop; the fix: consume a break to l
      labelWrap l (ottoS S n s (L ++ [l]) σ)
    | .brk t => .ok (.brk t none) L σ
    | .cont t => .ok (.cont t none) L σ
    | .ret none => .ok (.ret .undef) L σ
    | .ret (some e) =>
      match S.evalE e σ with
      | .ok v σ' => .ok (.ret v) L σ'
      | .throw v σ' => .throw v L σ'
    | .throwS e =>
      match S.evalE e σ with
      | .ok v σ' => .throw v L σ'
      | .throw v σ' => .throw v L σ'
    | .tryS b hasCatch param c hasFin f =>
      -- tryCatchEvaluate(body); catch; finally.  The three parts are Blocks (nodeBlockStatement):
      -- each is evaluated as `.block` is above.
      finallyPhase hasFin (fun L2 σ2 => blockWrap L2 (ottoList S n f [] σ2 .empty))
        (catchPhase S hasCatch param (fun L1 σ1 => blockWrap L1 (ottoList S n c [] σ1 .empty))
          (blockWrap L (ottoList S n b [] σ .empty)))
    | .withS e b =>
      -- cmplEvaluateNodeWithStatement (cmpl_evaluate_statement.go): object expression, toObject,
      -- new object stash in front, deferred restore, then the body statement (rt.labels untouched)
      match S.evalE e σ with
      | .throw v σ' => .throw v L σ'
      | .ok v σ' =>
        match S.withEnter v σ' with
        | .throw t σ2 => .throw t L σ2
        | .ok _ σ2 => withExitWrap S (ottoS S n b [] σ2)      -- `rt.labels = nil` before the body
    | .switchS d cs =>
      -- labels := append(rt.labels, ""); rt.labels = nil
      match S.evalE d σ with
      | .throw v σ' => .throw v [] σ'
      | .ok dv σ' =>
        match findCase S dv cs 0 σ' with
        | .throw v σ'' => .throw v [] σ''
        | .found idx σ'' =>
          let target := match idx with | some i => some i | none => defaultIdx cs 0
          match target with
          | none => .ok .empty [] σ''
          | some k =>
            switchWrap (ottoCases S n (dropCases k cs) (L ++ [""]) [] σ'' .empty)

/-- `var` statement: run the initialisers (cmplEvaluateNodeVariableExpression), value empty -/
def ottoVars (S : Sem St) : Nat → List Expr → List String → St → MR St
  | 0, _, _, _ => .fuel
  | _+1, [], L, σ => .ok .empty L σ
  | n+1, e :: es, L, σ =>
    match S.evalE e σ with
    | .throw v σ' => .throw v L σ'
    | .ok _ σ' => ottoVars S n es L σ'

/-- cmplEvaluateNodeStatementList (cmpl_evaluate_statement.go:132); `result` starts as emptyValue; an abrupt
    completion leaves as `value.carrying(result)` -/
def ottoList (S : Sem St) : Nat → Stmts → List String → St → OV → MR St
  | 0, _, _, _, _ => .fuel
  | _+1, .nil, L, σ, result => .ok result L σ
  | n+1, .cons s ss, L, σ, result =>
    match ottoS S n s L σ with
    | .ok o L' σ' =>
      if isResult o then .ok (carrying o result) L' σ'
      else ottoList S n ss L' σ' (nextResult o result)
    | r => r

/-- one pass over a loop body (the inner `for _, node := range body` of the loop statements) -/
def ottoBody (S : Sem St) : Nat → Stmts → List String → List String → St → OV → OV → BR St
  | 0, _, _, _, _, _, _ => .fuel
  | _+1, .nil, _, L, σ, result, _ => .next result L σ
  | n+1, .cons s ss, labels, L, σ, result, pass =>
    match ottoS S n s L σ with
    | .fuel => .fuel
    | .throw v L' σ' => .throw v L' σ'
    | .ok o L' σ' =>
      if isResult o then bodyResult labels o result pass L' σ'
      else ottoBody S n ss labels L' σ' (nextResult o result) (nextResult o pass)   -- `pass, result = value, value`

/-- cmplEvaluateModeWhileStatement (cmpl_evaluate_statement.go:387) -/
def ottoWhile (S : Sem St) : Nat → Expr → Stmts → List String → List String → St → OV → MR St
  | 0, _, _, _, _, _, _ => .fuel
  | n+1, c, body, labels, L, σ, result =>
    match S.evalE c σ with
    | .throw v σ' => .throw v L σ'
    | .ok v σ' =>
      if !S.truthy v then .ok result L σ'
      else loopStep (fun r L' σ2 => ottoWhile S n c body labels L' σ2 r) (ottoBody S n body labels L σ' result .empty)

/-- cmplEvaluateNodeDoWhileStatement (cmpl_evaluate_statement.go:143) -/
def ottoDoWhile (S : Sem St) : Nat → Stmts → Expr → List String → List String → St → OV → MR St
  | 0, _, _, _, _, _, _ => .fuel
  | n+1, body, c, labels, L, σ, result =>
    let test (r : OV) (L' : List String) (σ2 : St) : MR St :=
      match S.evalE c σ2 with
      | .throw v σ3 => .throw v L' σ3
      | .ok v σ3 => if !S.truthy v then .ok r L' σ3 else ottoDoWhile S n body c labels L' σ3 r
    loopStep test (ottoBody S n body labels L σ result .empty)

/-- the loop of cmplEvaluateNodeForStatement (cmpl_evaluate_statement.go:239), after the initializer -/
def ottoFor (S : Sem St) : Nat → Option Expr → Option Expr → Stmts → List String → List String → St → OV → MR St
  | 0, _, _, _, _, _, _, _ => .fuel
  | n+1, test, update, body, labels, L, σ, result =>
    let upd (r : OV) (L' : List String) (σ2 : St) : MR St :=
      match update with
      | none => ottoFor S n test update body labels L' σ2 r
      | some u =>
        match S.evalE u σ2 with
        | .throw v σ3 => .throw v L' σ3
        | .ok _ σ3 => ottoFor S n test update body labels L' σ3 r
    let run (σ1 : St) : MR St :=
      loopStep upd (ottoBody S n body labels L σ1 result .empty)
    match test with
    | none => run σ
    | some t =>
      match S.evalE t σ with
      | .throw v σ' => .throw v L σ'
      | .ok v σ' => if !S.truthy v then .ok result L σ' else run σ'

/-- second loop of cmplEvaluateNodeSwitchStatement: run clause bodies from the target on, falling through -/
def ottoCases (S : Sem St) : Nat → Cases → List String → List String → St → OV → BR St
  | 0, _, _, _, _, _ => .fuel
  | _+1, .nil, _, L, σ, result => .next result L σ
  | n+1, .cons _ body cs, labels, L, σ, result =>
    match ottoClause S n body labels L σ result with
    | .next r L' σ' => ottoCases S n cs labels L' σ' r
    | r => r

/-- the statements of one clause (evaluateBreak: only `break` is consumed by a switch) -/
def ottoClause (S : Sem St) : Nat → Stmts → List String → List String → St → OV → BR St
  | 0, _, _, _, _, _ => .fuel
  | _+1, .nil, _, L, σ, result => .next result L σ
  | n+1, .cons s ss, labels, L, σ, result =>
    match ottoS S n s L σ with
    | .fuel => .fuel
    | .throw v L' σ' => .throw v L' σ'
    | .ok o L' σ' =>
      if isResult o then
        if isBreakIn labels o then .brk (carried o result) L' σ' else .retv (carrying o result) L' σ'
      else ottoClause S n ss labels L' σ' (nextResult o result)

end

/-- cmplEvaluateNodeProgram body: the statement list from rest (labels nil) -/
def ottoProgram (S : Sem St) (n : Nat) (ss : Stmts) (σ : St) : MR St :=
  ottoList S n ss [] σ .empty

end OttoVerif.C01
