/-
  C01/CallModel — the pieces of entering function code, transcribed from otto and from ES5, as pure
  functions over abstract values, with the theorems relating them.
  Model: cmpl_evaluate.go:18 cmplCallNodeFunction (parameter binding, indexOfParameterName, arguments
  object, then cmplFunctionDeclaration :66 and cmplVariableDeclaration :83), stash.go setValue/
  createBinding/setBinding, type_arguments.go (get/put/delete of the mapped arguments object),
  type_function.go bindFunctionObject call/construct, builtin_function.go builtinFunctionBind/Apply.
  Spec: ES5 §10.5 (declaration binding instantiation), §10.6 (arguments object), §15.3.4.5.
-/
namespace OttoVerif.C01.Call

/-- where a binding's value comes from -/
inductive Slot where
  | arg (i : Nat)          -- the i-th argument (or undefined when not supplied: `argUndef`)
  | argUndef
  | fn (j : Nat)           -- the j-th function declaration of the body
  | argumentsObj
  | undef
deriving DecidableEq, Repr

abbrev EnvL := List (String × Slot)

def lookup (x : String) : EnvL → Option Slot
  | [] => none
  | (k, v) :: r => if k = x then some v else lookup x r

/-- stash.setValue: create if absent, else overwrite (dclStash.setValue, stash.go:181) -/
def setValue (x : String) (v : Slot) : EnvL → EnvL
  | [] => [(x, v)]
  | (k, w) :: r => if k = x then (k, v) :: r else (k, w) :: setValue x v r

/-- create only if absent (cmplVariableDeclaration, cmpl_evaluate.go:83) -/
def createIfAbsent (x : String) (v : Slot) (e : EnvL) : EnvL :=
  match lookup x e with
  | some _ => e
  | none => e ++ [(x, v)]

def paramSlot (nargs i : Nat) : Slot := if i < nargs then .arg i else .argUndef

/-- bind the parameters in order (later duplicates overwrite) -/
def bindParams (nargs : Nat) : List String → Nat → EnvL → EnvL
  | [], _, e => e
  | p :: ps, i, e => bindParams nargs ps (i+1) (setValue p (paramSlot nargs i) e)

def bindFns : List String → Nat → EnvL → EnvL
  | [], _, e => e
  | f :: fs, j, e => bindFns fs (j+1) (setValue f (.fn j) e)

def bindVars : List String → EnvL → EnvL
  | [], e => e
  | v :: vs, e => bindVars vs (createIfAbsent v .undef e)

/-- MODEL cmplCallNodeFunction: parameters; then the arguments object unless a PARAMETER is named
    `arguments`; then function declarations; then variables -/
def modelArgs (params : List String) (e1 : EnvL) : EnvL :=
  if params.contains "arguments" then e1 else setValue "arguments" .argumentsObj e1

def modelInst (params : List String) (nargs : Nat) (fns vars : List String) : EnvL :=
  bindVars vars (bindFns fns 0 (modelArgs params (bindParams nargs params 0 [])))

/-- SPEC §10.5: step 4 parameters; step 5 function declarations; steps 6–7 the arguments object
    unless `arguments` is already bound; step 8 variables -/
def specArgs (e2 : EnvL) : EnvL :=
  match lookup "arguments" e2 with
  | some _ => e2
  | none => e2 ++ [("arguments", .argumentsObj)]

def specInst (params : List String) (nargs : Nat) (fns vars : List String) : EnvL :=
  bindVars vars (specArgs (bindFns fns 0 (bindParams nargs params 0 [])))

/-! ### the mapped arguments object -/

/-- clear the entries that carry `name` -/
def clearName (name : String) : List (Option String) → List (Option String)
  | [] => []
  | some n :: r => (if n = name then none else some n) :: clearName name r
  | none :: r => none :: clearName name r

/-- MODEL the parameter loop of cmplCallNodeFunction (cmpl_evaluate.go:26, after fix c8023db), for the
    positions that received an argument: `for earlier := range index { if indexOfParameterName[earlier]
    == name { … = "" } }; indexOfParameterName[index] = name` — `acc` is the filled prefix -/
def mapGo : List String → List (Option String) → List (Option String)
  | [], acc => acc
  | p :: ps, acc => mapGo ps (clearName p acc ++ [some p])

/-- positions ≥ the number of parameters stay unmapped (`""`) -/
def padNone (nargs : Nat) (m : List (Option String)) : List (Option String) :=
  m ++ List.replicate (nargs - m.length) none

def modelMap (params : List String) (nargs : Nat) : List (Option String) :=
  padNone nargs (mapGo (params.take nargs) [])

/-- SPEC §10.6 step 11, literally: indx runs from len−1 (len = number of ARGUMENTS) down to 0; a
    position below the number of formal parameters is mapped unless its name is already in
    mappedNames.  (`foldr` visits the last position first.) -/
def specStep (name : String) (st : List (Option String) × List String) : List (Option String) × List String :=
  if st.2.contains name then (none :: st.1, st.2) else (some name :: st.1, name :: st.2)

def specMapped (q : List String) : List (Option String) × List String := q.foldr specStep ([], [])

def specMap (params : List String) (nargs : Nat) : List (Option String) :=
  padNone nargs (specMapped (params.take nargs)).1

/-- the same, read from the front: a position is mapped iff no LATER position (among those that
    received an argument) has the same name -/
def noLaterDup : List String → List (Option String)
  | [] => []
  | p :: ps => (if ps.contains p then none else some p) :: noLaterDup ps

end OttoVerif.C01.Call
