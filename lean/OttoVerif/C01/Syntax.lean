/-
  C01/Syntax — µJS statement syntax (own cons-lists: no nested inductives), values, and the
  abstract expression semantics `Sem` the statement-level theorems are parametric in.
-/
namespace OttoVerif.C01

inductive Val where
  | undef | null
  | bool (b : Bool)
  | num (n : Int)
  | str (s : String)
  | err (name : String)          -- a native error object, identified by its constructor name
  | obj (id : Nat)               -- a plain object, identified by its allocation index
deriving DecidableEq, Repr, Inhabited

/-- concrete expression language used by the driver/harness (the theorems never look inside) -/
inductive Expr where
  | lit (v : Val)
  | var (x : String)
  | assign (x : String) (e : Expr)
  | add (a b : Expr)
  | sub (a b : Expr)
  | lt (a b : Expr)
  | seq (a b : Expr)            -- ===
  | not (a : Expr)
  | log (e : Expr)              -- host function call log(e)
  | typeofVar (x : String)
  | objLit (fields : List (String × Int))   -- {k: n, …}: a fresh object with number-valued properties
  | callId (e : Expr)                       -- __blk(e): a SCRIPT function returning its argument; its body runs
                                            -- labelled blocks and loops of its own (it must not disturb the caller's
                                            -- pending label set)
deriving Repr, Inhabited

mutual
inductive Stmt where
  | empty
  | expr (e : Expr)
  | varS (inits : List Expr)                       -- `var x = e, …` (initialisers only; hoisting is done at program entry)
  | block (ss : Stmts)
  | ifS (c : Expr) (t e : Stmt)                    -- no else = `empty`
  | whileS (c : Expr) (b : Stmt)
  | doWhile (b : Stmt) (c : Expr)
  | forS (init test update : Option Expr) (b : Stmt)
  | labelled (l : String) (s : Stmt)
  | brk (t : String)                               -- "" = no label
  | cont (t : String)
  | ret (e : Option Expr)
  | throwS (e : Expr)
  | tryS (b : Stmts) (hasCatch : Bool) (param : String) (c : Stmts) (hasFin : Bool) (f : Stmts)   -- the three Blocks' statement lists
  | switchS (d : Expr) (cs : Cases)
  | withS (o : Expr) (b : Stmt)                    -- §12.10
inductive Stmts where
  | nil
  | cons (s : Stmt) (ss : Stmts)
inductive Cases where
  | nil
  | cons (test : Option Expr) (body : Stmts) (cs : Cases)    -- `none` = default clause
end

/-- result of evaluating an expression: a value or a thrown value, with the new state -/
inductive ER (St : Type) where
  | ok (v : Val) (σ : St)
  | throw (v : Val) (σ : St)

/-- what the statement layer needs from the expression/environment layer -/
structure Sem (St : Type) where
  evalE : Expr → St → ER St
  truthy : Val → Bool                      -- ToBoolean
  strictEq : Val → Val → Bool              -- === (switch)
  catchEnter : String → Val → St → St      -- new declarative environment binding the catch parameter
  catchExit : St → St                      -- restore the outer lexical environment
  withEnter : Val → St → ER St             -- ToObject (may throw TypeError) + new object environment in front
  withExit : St → St                       -- restore the outer lexical environment

end OttoVerif.C01
