/-
  C01/FnDriver — request `fn <fuel> <program>`: run the ES5 function-layer interpreter (FnSpec).
  reply token: t:[log tokens];k:normal:<completion value> | k:throw:<value>
  model = FnModel (the transcription of otto's machinery), spec = FnSpec (the ES5 interpreter)
-/
import OttoVerif.C01.FnSpec
import OttoVerif.C01.FnModel
import OttoVerif.C01.Driver
namespace OttoVerif.C01.FnDriver
open OttoVerif.C01.Fn OttoVerif.C01.Driver

def names : List SX → List String
  | [] => []
  | .node x _ :: r => x :: names r

def optName (s : String) : Option String := if s = "_" then none else some s

def pvOf (a : String) : Option PV :=
  if a = "null" then some .null else
  match a.toList with
  | ['u'] => some .undef
  | ['t'] => some (.bool true)
  | ['f'] => some (.bool false)
  | 'n' :: r => (String.ofList r).toInt?.map .num
  | 's' :: r => some (.str (String.ofList r))
  | _ => none

mutual
partial def feOf : SX → Option FE
  | .node "this" [] => some .this
  | .node "v" [.node x []] => some (.var x)
  | .node "as" [.node x [], e] => do pure (.assign x (← feOf e))
  | .node "g" [o, .node p []] => do pure (.get (← feOf o) p)
  | .node "ge" [o, k] => do pure (.getE (← feOf o) (← feOf k))
  | .node "st" [o, .node p [], e] => do pure (.set (← feOf o) p (← feOf e))
  | .node "ste" [o, k, e] => do pure (.setE (← feOf o) (← feOf k) (← feOf e))
  | .node "dl" [o, .node p []] => do pure (.del (← feOf o) p)
  | .node "dle" [o, k] => do pure (.delE (← feOf o) (← feOf k))
  | .node "dlv" [.node x []] => some (.delV x)
  | .node "dlx" [a] => do
    let e ← feOf a
    match e with
    | .cond .. => pure (.delX e)
    | .val _ => pure (.delX e)
    | _ => none
  | .node "wp" [.node k []] => some (.wproto k)
  | .node "dac" [o, .node p [], .node t []] => do pure (.defAcc (← feOf o) p t)
  | .node "ops" [o, .node p [], e] => do pure (.opSet (← feOf o) p (← feOf e))
  | .node "inc" [o, .node p []] => do pure (.incr (← feOf o) p)
  | .node "pro" [a] => do pure (.protoOf (← feOf a))
  | .node "rgx" [] => some .regex
  | .node "hfn" [] => some .hostFn
  | .node "fcc" [.node k []] => k.toNat?.map .fcc
  | .node "acf" [.node k [], f] => do pure (.accFn (k = "s") (← feOf f))
  | .node "fnc" [.node "fn" [.node "_" [], .node "PS" [], .node "V" vs, .node "D" ds, .node "S" ss]] => do
      pure (.fnCtor (.func none [] (names vs) (← declsOf ds) (← fssOf ss)))
  | .node "cnd" [t, a, b] => do pure (.cond (← feOf t) (← feOf a) (← feOf b))
  | .node "dfx" [o, .node p [], e] => do pure (.defFix (← feOf o) p (← feOf e))
  | .node "dro" [o, .node p [], e] => do pure (.defRO (← feOf o) p (← feOf e))
  | .node "c" [f, .node "A" as] => do pure (.call (← feOf f) (← fesOf as))
  | .node "mc" [o, .node p [], .node "A" as] => do pure (.mcall (← feOf o) p (← fesOf as))
  | .node "nw" [f, .node "A" as] => do pure (.new (← feOf f) (← fesOf as))
  | .node "fn" [.node nm [], .node "PS" ps, .node "V" vs, .node "D" ds, .node "S" ss] => do
      pure (.func (optName nm) (names ps) (names vs) (← declsOf ds) (← fssOf ss))
  | .node "ob" ps => do pure (.obj (← propsOf ps))
  | .node "add" [a, b] => do pure (.add (← feOf a) (← feOf b))
  | .node "sub" [a, b] => do pure (.sub (← feOf a) (← feOf b))
  | .node "lt" [a, b] => do pure (.lt (← feOf a) (← feOf b))
  | .node "seq" [a, b] => do pure (.seq (← feOf a) (← feOf b))
  | .node "not" [a] => do pure (.not (← feOf a))
  | .node "ty" [a] => do pure (.typeof (← feOf a))
  | .node "in" [a, f] => do pure (.inst (← feOf a) (← feOf f))
  | .node "log" [a] => do pure (.log (← feOf a))
  | .node "val" [a] => do pure (.val (← feOf a))
  | .node "dne" [o, .node p [], e] => do pure (.defNE (← feOf o) p (← feOf e))
  | .node "evd" [.node "V" vs, .node "D" ds, .node "S" ss] => do pure (.evalD (names vs) (← declsOf ds) (← fssOf ss))
  | .node "evx" [.node "V" vs, .node "D" ds, .node "S" ss] => do pure (.evalD (names vs) (← declsOf ds) (← fssOf ss))
  | .node "evi" [.node "V" vs, .node "D" ds, .node "S" ss] => do pure (.evalI (names vs) (← declsOf ds) (← fssOf ss))
  | .node a [] => (pvOf a).map .lit
  | _ => none
partial def fesOf : List SX → Option FEs
  | [] => some .nil
  | x :: r => do pure (.cons (← feOf x) (← fesOf r))
partial def propsOf : List SX → Option FProps
  | [] => some .nil
  | .node "p" [.node k [], e] :: r => do pure (.cons k (← feOf e) (← propsOf r))
  | _ => none
partial def declsOf : List SX → Option FDecls
  | [] => some .nil
  | .node "d" [.node nm [], f] :: r => do pure (.cons nm (← feOf f) (← declsOf r))
  | _ => none
partial def fsOf : SX → Option FS
  | .node "X" [e] => do pure (.expr (← feOf e))
  | .node "R" [.node "_" []] => some (.ret none)
  | .node "R" [e] => do pure (.ret (some (← feOf e)))
  | .node "I" [c, .node "S" t, .node "S" e] => do pure (.ifS (← feOf c) (← fssOf t) (← fssOf e))
  | .node "W" [c, .node "S" b] => do pure (.whileS (← feOf c) (← fssOf b))
  | .node "T" [e] => do pure (.throwS (← feOf e))
  | .node "Y" [.node "S" b, .node hc [], .node p [], .node "S" c, .node hf [], .node "S" f] => do
      pure (.tryS (← fssOf b) (hc = "1") p (← fssOf c) (hf = "1") (← fssOf f))
  | .node "VS" [.node x [], e] => do pure (.varS x (← feOf e))
  | .node "B" ss => do pure (.block (← fssOf ss))
  | .node "WI" [o, .node "S" b] => do pure (.withS (← feOf o) (← fssOf b))
  | .node "FI" [.node isVar [], .node x [], o, .node "S" b] => do pure (.forIn (isVar = "1") x (← feOf o) (← fssOf b))
  | .node "FII" [.node x [], ie, o, .node "S" b] => do pure (.forInI x (← feOf ie) (← feOf o) (← fssOf b))
  | .node "LB" [.node l [], s] => do pure (.label l (← fsOf s))
  | .node "SW" (d :: cs) => do pure (.switchS (← feOf d) (← casesOf cs))
  | .node "BR" [.node l []] => some (.brk (optName l))
  | .node "CN" [.node l []] => some (.cont (optName l))
  | _ => none
partial def casesOf : List SX → Option FCases
  | [] => some .nil
  | .node "C" [e, .node "S" b] :: r => do pure (.case (← feOf e) (← fssOf b) (← casesOf r))
  | .node "DF" [.node "S" b] :: r => do pure (.dflt (← fssOf b) (← casesOf r))
  | _ => none
partial def fssOf : List SX → Option FSs
  | [] => some .nil
  | x :: r => do pure (.cons (← fsOf x) (← fssOf r))
end

def out (r : Res V) : String :=
  match r with
  | .fuel => "fuel"
  | .ok v σ => "t:[" ++ ",".intercalate σ.trace ++ "];k:normal:" ++ tokV σ v
  | .throw v σ => "t:[" ++ ",".intercalate σ.trace ++ "];k:throw:" ++ tokV σ v

def handle (ws : List String) : Option String :=
  match ws with
  | ["fn", fuel, prog] =>
    match fuel.toNat?, parseSX prog.toList with
    | some n, some (.node "FP" [.node "V" vs, .node "D" ds, .node "S" ss], []) =>
      match declsOf ds, fssOf ss with
      | some d, some s =>
        let spec := out (runProgram n (names vs) d s)
        let model := FnM.out (FnM.runProgram n (names vs) d s)
        -- the transcription must compute what ES5 says: the harness counts impl = spec ≠ model only as
        -- "model stale", so such a disagreement is turned into a spec token no implementation can produce
        if model != spec then some (model ++ " MODEL-NE-SPEC[" ++ spec ++ "] -")
        else some (model ++ " " ++ spec ++ " -")
      | _, _ => some "bad-op"
    | _, _ => some "bad-op"
  | ["fn2", fuel, prog1, prog2] =>
    match fuel.toNat?, parseSX prog1.toList, parseSX prog2.toList with
    | some n, some (.node "FP" [.node "V" vs1, .node "D" ds1, .node "S" ss1], []),
              some (.node "FP" [.node "V" vs2, .node "D" ds2, .node "S" ss2], []) =>
      match declsOf ds1, fssOf ss1, declsOf ds2, fssOf ss2 with
      | some d1, some s1, some d2, some s2 =>
        let spec := out (runProgram2 n (names vs1) d1 s1 (names vs2) d2 s2)
        let model := FnM.out (FnM.runProgram2 n (names vs1) d1 s1 (names vs2) d2 s2)
        if model != spec then some (model ++ " MODEL-NE-SPEC[" ++ spec ++ "] -")
        else some (model ++ " " ++ spec ++ " -")
      | _, _, _, _ => some "bad-op"
    | _, _, _ => some "bad-op"
  | _ => none

end OttoVerif.C01.FnDriver
