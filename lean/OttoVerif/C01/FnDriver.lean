/-
  C01/FnDriver — request `fn <fuel> <program>`: run the ES5 function-layer interpreter (FnSpec).
  reply token: t:[log tokens];k:normal:<completion value> | k:throw:<value>
  model = spec except in the Dev regions forin_break_value / forin_revisit, where the model side runs
  with St.ottoCV / St.ottoShadow
-/
import OttoVerif.C01.FnSpec
import OttoVerif.C01.Driver
namespace OttoVerif.C01.FnDriver
open OttoVerif.C01.Fn OttoVerif.C01.Driver

def names : List SX → List String
  | [] => []
  | .node x _ :: r => x :: names r

def optName (s : String) : Option String := if s = "_" then none else some s

def pvOf (a : String) : Option PV :=
  if a = "null" then some .null else
  match a.toList with
  | ['u'] => some .undef
  | ['t'] => some (.bool true)
  | ['f'] => some (.bool false)
  | 'n' :: r => (String.ofList r).toInt?.map .num
  | 's' :: r => some (.str (String.ofList r))
  | _ => none

mutual
partial def feOf : SX → Option FE
  | .node "this" [] => some .this
  | .node "v" [.node x []] => some (.var x)
  | .node "as" [.node x [], e] => do pure (.assign x (← feOf e))
  | .node "g" [o, .node p []] => do pure (.get (← feOf o) p)
  | .node "ge" [o, k] => do pure (.getE (← feOf o) (← feOf k))
  | .node "st" [o, .node p [], e] => do pure (.set (← feOf o) p (← feOf e))
  | .node "ste" [o, k, e] => do pure (.setE (← feOf o) (← feOf k) (← feOf e))
  | .node "dl" [o, .node p []] => do pure (.del (← feOf o) p)
  | .node "dle" [o, k] => do pure (.delE (← feOf o) (← feOf k))
  | .node "c" [f, .node "A" as] => do pure (.call (← feOf f) (← fesOf as))
  | .node "mc" [o, .node p [], .node "A" as] => do pure (.mcall (← feOf o) p (← fesOf as))
  | .node "nw" [f, .node "A" as] => do pure (.new (← feOf f) (← fesOf as))
  | .node "fn" [.node nm [], .node "PS" ps, .node "V" vs, .node "D" ds, .node "S" ss] => do
      pure (.func (optName nm) (names ps) (names vs) (← declsOf ds) (← fssOf ss))
  | .node "ob" ps => do pure (.obj (← propsOf ps))
  | .node "add" [a, b] => do pure (.add (← feOf a) (← feOf b))
  | .node "sub" [a, b] => do pure (.sub (← feOf a) (← feOf b))
  | .node "lt" [a, b] => do pure (.lt (← feOf a) (← feOf b))
  | .node "seq" [a, b] => do pure (.seq (← feOf a) (← feOf b))
  | .node "not" [a] => do pure (.not (← feOf a))
  | .node "ty" [a] => do pure (.typeof (← feOf a))
  | .node "in" [a, f] => do pure (.inst (← feOf a) (← feOf f))
  | .node "log" [a] => do pure (.log (← feOf a))
  | .node "val" [a] => do pure (.val (← feOf a))
  | .node "dne" [o, .node p [], e] => do pure (.defNE (← feOf o) p (← feOf e))
  | .node "evd" [.node "V" vs, .node "D" ds, .node "S" ss] => do pure (.evalD (names vs) (← declsOf ds) (← fssOf ss))
  | .node "evi" [.node "V" vs, .node "D" ds, .node "S" ss] => do pure (.evalI (names vs) (← declsOf ds) (← fssOf ss))
  | .node a [] => (pvOf a).map .lit
  | _ => none
partial def fesOf : List SX → Option FEs
  | [] => some .nil
  | x :: r => do pure (.cons (← feOf x) (← fesOf r))
partial def propsOf : List SX → Option FProps
  | [] => some .nil
  | .node "p" [.node k [], e] :: r => do pure (.cons k (← feOf e) (← propsOf r))
  | _ => none
partial def declsOf : List SX → Option FDecls
  | [] => some .nil
  | .node "d" [.node nm [], f] :: r => do pure (.cons nm (← feOf f) (← declsOf r))
  | _ => none
partial def fsOf : SX → Option FS
  | .node "X" [e] => do pure (.expr (← feOf e))
  | .node "R" [.node "_" []] => some (.ret none)
  | .node "R" [e] => do pure (.ret (some (← feOf e)))
  | .node "I" [c, .node "S" t, .node "S" e] => do pure (.ifS (← feOf c) (← fssOf t) (← fssOf e))
  | .node "W" [c, .node "S" b] => do pure (.whileS (← feOf c) (← fssOf b))
  | .node "T" [e] => do pure (.throwS (← feOf e))
  | .node "Y" [.node "S" b, .node hc [], .node p [], .node "S" c, .node hf [], .node "S" f] => do
      pure (.tryS (← fssOf b) (hc = "1") p (← fssOf c) (hf = "1") (← fssOf f))
  | .node "VS" [.node x [], e] => do pure (.varS x (← feOf e))
  | .node "B" ss => do pure (.block (← fssOf ss))
  | .node "WI" [o, .node "S" b] => do pure (.withS (← feOf o) (← fssOf b))
  | .node "FI" [.node isVar [], .node x [], o, .node "S" b] => do pure (.forIn (isVar = "1") x (← feOf o) (← fssOf b))
  | .node "LB" [.node l [], s] => do pure (.label l (← fsOf s))
  | .node "BR" [.node l []] => some (.brk (optName l))
  | .node "CN" [.node l []] => some (.cont (optName l))
  | _ => none
partial def fssOf : List SX → Option FSs
  | [] => some .nil
  | x :: r => do pure (.cons (← fsOf x) (← fssOf r))
end

/-- does a statement of this (function or eval) body, at any depth, have one of the given heads? -/
partial def hasStmt (heads : List String) : SX → Bool
  | .node nm as =>
    if heads.contains nm then true
    else if nm = "fn" || nm = "evd" || nm = "evi" then false
    else as.any (hasStmt heads)

/-- Dev region `forin_break_value` (decidable on the request): somewhere in the program there is a
    for-in statement whose body contains both an expression statement and a `break`.  Only the
    completion VALUE of such a for-in can differ (otto: a for-in left by break yields the value it had
    when it started on the current object of the prototype chain; ES5 §12.6.4 step 6.f: V). -/
partial def devForInBreak : SX → Bool
  | .node nm as =>
    (match nm, as with
     | "FI", [_, _, _, body] => hasStmt ["BR"] body && hasStmt ["X"] body
     | _, _ => false) || as.any devForInBreak

/-- does the term contain a node with one of these heads anywhere (functions and eval bodies included)? -/
partial def hasNode (heads : List String) : SX → Bool
  | .node nm as => heads.contains nm || as.any (hasNode heads)

/-- Dev region `forin_revisit` (decidable on the request): the program has a for-in statement and a
    `delete` somewhere.  Only then can a property that shadowed an inherited one disappear during an
    enumeration, which is the one situation where otto's visit-time shadow test differs (it visits the
    inherited property although its name has been visited already). -/
def devForInRevisit (p : SX) : Bool := hasNode ["FI"] p && hasNode ["dl", "dle"] p

def out (r : Res V) : String :=
  match r with
  | .fuel => "fuel"
  | .ok v σ => "t:[" ++ ",".intercalate σ.trace ++ "];k:normal:" ++ tokV σ v
  | .throw v σ => "t:[" ++ ",".intercalate σ.trace ++ "];k:throw:" ++ tokV σ v

def handle (ws : List String) : Option String :=
  match ws with
  | ["fn", fuel, prog] =>
    match fuel.toNat?, parseSX prog.toList with
    | some n, some (.node "FP" [.node "V" vs, .node "D" ds, .node "S" ss], []) =>
      match declsOf ds, fssOf ss with
      | some d, some s =>
        let spec := out (runProgram n (names vs) d s)
        let p : SX := .node "FP" [.node "D" ds, .node "S" ss]
        let dB := devForInBreak p
        let dR := devForInRevisit p
        if dB || dR then
          let dev := ",".intercalate ((if dB then ["forin_break_value"] else []) ++ (if dR then ["forin_revisit"] else []))
          some (out (runProgram n (names vs) d s dB dR) ++ " " ++ spec ++ " " ++ dev)
        else some (spec ++ " " ++ spec ++ " -")
      | _, _ => some "bad-op"
    | _, _ => some "bad-op"
  | _ => none

end OttoVerif.C01.FnDriver
