/-
  C01/RefineProof — proof of the simulation, by induction on the model's fuel with the spec's fuel
  universally quantified.
-/
import OttoVerif.C01.Refine
namespace OttoVerif.C01
variable {St : Type}

theorem sim_fuel_r (L iter : List String) (mr : MR St) : Sim L iter mr .fuel := by
  cases mr <;> simp [Sim]

theorem bodyrel_fuel_r (labels iter : List String) (V : Option Val) (br : BR St) : BodyRel labels iter V br .fuel := by
  cases br <;> simp [BodyRel]

theorem sim_ok {L iter : List String} {o : OV} {c : Comp} {L' : List String} (σ : St)
    (h1 : LabOK L L') (h2 : KindRel L iter o c) : Sim L iter (.ok o L' σ) (.ok c σ) := ⟨rfl, h1, h2⟩

theorem sim_throw {L iter : List String} {L' : List String} (v : Val) (σ : St)
    (h1 : LabOK L L') : Sim L iter (.throw v L' σ) (.throw v σ) := ⟨rfl, rfl, h1⟩

theorem labok_refl (L : List String) : LabOK L L := Or.inl rfl
theorem labok_nil (L : List String) : LabOK L [] := Or.inr rfl
theorem labok_of_nil {L' : List String} (h : LabOK [] L') : L' = [] := by
  cases h <;> assumption

theorem labok_trans {L L1 L2 : List String} (h1 : LabOK L L1) (h2 : LabOK L1 L2) : LabOK L L2 := by
  cases h1 with
  | inl h => subst h; exact h2
  | inr h => subst h; exact Or.inr (labok_of_nil h2)

theorem labok_sub {L L1 : List String} (h : LabOK L L1) : ∀ t ∈ L1, t ∈ L := by
  intro t ht
  cases h with
  | inl h => subst h; exact ht
  | inr h => subst h; simp at ht

theorem kindrel_weaken {L1 L iter : List String} {o : OV} {c : Comp}
    (hs : ∀ t ∈ L1, t ∈ L) (h : KindRel L1 iter o c) : KindRel L iter o c := by
  refine ⟨?_, h.2⟩
  have h := h.1
  cases o <;> simp only [KindRelT] at h ⊢
  · rcases h with h | ⟨t, h1, h2⟩
    · exact Or.inl h
    · exact Or.inr ⟨t, h1, hs t h2⟩
  · rcases h with h | ⟨t, h1, h2⟩
    · exact Or.inl h
    · exact Or.inr ⟨t, h1, hs t h2⟩
  · exact h
  · exact h
  · exact h

theorem sim_weaken {L1 L iter : List String} {mr : MR St} {sr : SR St}
    (hl : LabOK L L1) (h : Sim L1 iter mr sr) : Sim L iter mr sr := by
  cases mr <;> cases sr <;> simp only [Sim] at h ⊢
  · exact ⟨h.1, labok_trans hl h.2.1, kindrel_weaken (labok_sub hl) h.2.2⟩
  · exact ⟨h.1, h.2.1, labok_trans hl h.2.2⟩

theorem popLabel_snoc (L : List String) (l : String) : popLabel (L ++ [l]) = L := by
  simp [popLabel]

theorem popLabel_nil : popLabel ([] : List String) = [] := by simp [popLabel]

theorem labok_pop {L L' : List String} {l : String} (h : LabOK (L ++ [l]) L') : LabOK L (popLabel L') := by
  cases h with
  | inl h => subst h; rw [popLabel_snoc]; exact labok_refl L
  | inr h => subst h; rw [popLabel_nil]; exact labok_nil L


section
variable (S : Sem St)

def PS (n : Nat) : Prop := ∀ m s L ls iter σ, (∀ t ∈ ls, t ∈ L) → (∀ t ∈ L, t ∈ ls) → (∀ t ∈ L, t ∉ iter) → wlS iter ls s = true →
    Sim L iter (ottoS S n s L σ) (specS S m ls s σ)

def PVars (n : Nat) : Prop := ∀ m es L iter σ, Sim L iter (ottoVars S n es L σ) (specVars S m es σ)

def PList (n : Nat) : Prop := ∀ m ss iter σ result, isResult result = false → wlList iter ss = true →
    Sim [] iter (ottoList S n ss [] σ result) (listWrap (ovVal result) (specList S m ss σ))

def PBodyList (n : Nat) : Prop := ∀ m ss labels iter σ result pass V, wlList iter ss = true →
    isResult result = false → isResult pass = false → ovVal result = pick (ovVal pass) V →
    BodyRel labels iter V (ottoBody S n ss labels [] σ result pass) (listWrap (ovVal pass) (specList S m ss σ))

theorem pvars_all : ∀ n, PVars S n := by
  intro n
  induction n with
  | zero => intro m es L iter σ; simp [ottoVars, Sim]
  | succ n ih =>
    intro m es L iter σ
    cases m with
    | zero => simp only [specVars]; exact sim_fuel_r _ _ _
    | succ m =>
      cases es with
      | nil => simp [ottoVars, specVars, Sim, KindRel, KindRelT, ovVal, labok_refl]
      | cons e es =>
        simp only [ottoVars, specVars]
        cases S.evalE e σ with
        | ok v σ' => exact ih m es L iter σ'
        | throw v σ' => simp [Sim, labok_refl]

/-! ### values -/

theorem pick_none (x : Option Val) : pick none x = x := rfl
theorem pick_assoc (a b c : Option Val) : pick (pick a b) c = pick a (pick b c) := by
  cases a <;> rfl
theorem pick_none_r (a : Option Val) : pick a none = a := by cases a <;> rfl

theorem ovVal_nextResult {o r : OV} (h : isResult o = false) : ovVal (nextResult o r) = pick (ovVal o) (ovVal r) := by
  cases o <;> simp [isResult] at h <;> simp [nextResult, ovVal, pick]

theorem ovVal_carrying {o r : OV} (ho : isResult o = true) (hr : isResult r = false) :
    ovVal (carrying o r) = pick (ovVal o) (ovVal r) := by
  cases o with
  | empty => simp [isResult] at ho
  | val v => simp [isResult] at ho
  | ret v => cases r <;> simp_all [isResult, carrying, ovVal, pick]
  | brk t c => cases c <;> cases r <;> simp_all [isResult, carrying, ovVal, pick]
  | cont t c => cases c <;> cases r <;> simp_all [isResult, carrying, ovVal, pick]

theorem ovVal_carried {o r : OV} (ho : isResult o = true) (hn : ∀ v, o ≠ .ret v) :
    ovVal (carried o r) = pick (ovVal o) (ovVal r) := by
  cases o with
  | empty => simp [isResult] at ho
  | val v => simp [isResult] at ho
  | ret v => exact absurd rfl (hn v)
  | brk t c => cases c <;> simp [carried, ovVal, pick]
  | cont t c => cases c <;> simp [carried, ovVal, pick]

theorem carried_nonresult {o r : OV} (hr : isResult r = false) : isResult (carried o r) = false := by
  cases o with
  | brk t c => cases c <;> simp_all [carried, isResult]
  | cont t c => cases c <;> simp_all [carried, isResult]
  | _ => simpa [carried] using hr

theorem carrying_kind {L iter : List String} {o r : OV} {c : Comp} (h : KindRelT L iter o c) :
    KindRelT L iter (carrying o r) c := by
  cases o with
  | brk t x => cases x <;> cases r <;> simpa [carrying, KindRelT] using h
  | cont t x => cases x <;> cases r <;> simpa [carrying, KindRelT] using h
  | _ => cases r <;> simpa [carrying] using h

theorem carrying_isResult (o r : OV) : isResult (carrying o r) = isResult o := by
  cases o with
  | brk t x => cases x <;> cases r <;> simp [carrying, isResult]
  | cont t x => cases x <;> cases r <;> simp [carrying, isResult]
  | _ => cases r <;> simp [carrying, isResult]

theorem listWrap_listWrap (a b : Option Val) (sr : SR St) :
    listWrap b (listWrap a sr) = listWrap (pick a b) sr := by
  cases sr <;> simp [listWrap, pick_assoc]

theorem kindrel_nil_normal {iter : List String} {o : OV} {c : Comp} (hr : isResult o = false)
    (h : KindRel [] iter o c) : c.t = .normal := by
  have h := h.1
  cases o <;> simp [isResult] at hr <;> simp [KindRelT] at h <;> exact h

theorem kindrel_result_abrupt {L iter : List String} {o : OV} {c : Comp} (hr : isResult o = true)
    (h : KindRel L iter o c) : c.abrupt = true := by
  have h := h.1
  cases o <;> simp [isResult] at hr <;> simp [KindRelT] at h <;> simp [Comp.abrupt, h]

theorem nextResult_notResult {o result : OV} (h1 : isResult o = false) (h2 : isResult result = false) :
    isResult (nextResult o result) = false := by
  cases o <;> simp_all [nextResult, isResult]

/-- the model's result related to the completion `c`, seen through an older value -/
theorem kindrel_wrap {L iter : List String} {o' : OV} {c : Comp} (x : Option Val)
    (hk : KindRelT L iter o' c) (hv : ovVal o' = pick c.v x) : KindRel L iter o' ⟨c.t, pick c.v x⟩ := by
  refine ⟨?_, hv⟩
  cases o' <;> simpa [KindRelT] using hk

theorem plist_step (n : Nat) (hS : PS S n) (hL : PList S n) : PList S (n+1) := by
  intro m ss iter σ result hres hwl
  cases m with
  | zero => simp only [specList, listWrap]; exact sim_fuel_r _ _ _
  | succ m =>
    cases ss with
    | nil =>
      simp only [ottoList, specList, listWrap, pick]
      refine sim_ok _ (labok_refl _) ⟨?_, rfl⟩
      cases result <;> simp_all [isResult, KindRelT]
    | cons s ss =>
      simp only [wlList, Bool.and_eq_true] at hwl
      have ih := hS m s [] [] iter σ (by simp) (by simp) (by simp) hwl.1
      simp only [ottoList, specList]
      cases hm : ottoS S n s [] σ with
      | fuel => simp [Sim]
      | throw v L' σ' =>
        cases hs : specS S m [] s σ with
        | fuel => simp only [listWrap]; exact sim_fuel_r _ _ _
        | ok c σ2 => rw [hm, hs] at ih; simp [Sim] at ih
        | throw v2 σ2 => rw [hm, hs] at ih; simpa [listWrap] using ih
      | ok o L' σ' =>
        cases hs : specS S m [] s σ with
        | fuel => simp only [listWrap]; exact sim_fuel_r _ _ _
        | throw v2 σ2 => rw [hm, hs] at ih; simp [Sim] at ih
        | ok c σ2 =>
          rw [hm, hs] at ih
          simp only [Sim] at ih
          obtain ⟨hσ, hlab, hk⟩ := ih
          subst hσ
          have hL' : L' = [] := labok_of_nil hlab
          subst hL'
          cases hr : isResult o with
          | true =>
            have hab := kindrel_result_abrupt hr hk
            simp only [hr, hab, if_true, listWrap]
            refine sim_ok _ (labok_refl _) (kindrel_wrap _ (carrying_kind hk.1) ?_)
            rw [ovVal_carrying hr hres, hk.2]
          | false =>
            have hn := kindrel_nil_normal hr hk
            have hab : c.abrupt = false := by simp [Comp.abrupt, hn]
            simp only [hr, hab, Bool.false_eq_true, if_false]
            rw [listWrap_listWrap]
            have := hL m ss iter σ' (nextResult o result) (nextResult_notResult hr hres) hwl.2
            rw [ovVal_nextResult hr, hk.2] at this
            exact this

theorem listWrap_none (sr : SR St) : listWrap none sr = sr := by
  cases sr <;> simp [listWrap, pick_none_r]

theorem carrying_brk (t : String) (x : Option Val) (r : OV) : ∃ y, carrying (.brk t x) r = .brk t y := by
  cases x <;> cases r <;> simp [carrying]
theorem carrying_cont (t : String) (x : Option Val) (r : OV) : ∃ y, carrying (.cont t x) r = .cont t y := by
  cases x <;> cases r <;> simp [carrying]

theorem bodyResult_rel {labels iter : List String} {o result pass : OV} {c : Comp} {V : Option Val} (σ : St)
    (hr : isResult o = true) (hk : KindRel [] iter o c) (hres : isResult result = false) (hpass : isResult pass = false)
    (hinv : ovVal result = pick (ovVal pass) V) :
    BodyRel labels iter V (bodyResult labels o result pass [] σ) (.ok ⟨c.t, pick c.v (ovVal pass)⟩ σ) := by
  cases o with
  | empty => simp [isResult] at hr
  | val v => simp [isResult] at hr
  | ret v =>
    have h1 := hk.1; have h2 := hk.2
    simp only [KindRelT] at h1
    simp only [ovVal] at h2
    simp only [bodyResult, evalBC, carrying, BodyRel, isResult, true_and]
    refine ⟨⟨by simpa [KindRelT] using h1, by simp [ovVal, ← h2, pick]⟩, ?_, ?_⟩ <;> intro t x h <;> cases h
  | brk t x =>
    have h1 := hk.1; have h2 := hk.2
    simp only [KindRelT] at h1
    by_cases ht : t ∈ labels
    · simp only [bodyResult, evalBC, List.contains_iff_mem, ht, if_true, BodyRel, true_and]
      refine ⟨⟨t, h1, ht⟩, ?_⟩
      rw [ovVal_carried hr (by intro v h; cases h), h2, hinv, pick_assoc]
    · simp only [bodyResult, evalBC, List.contains_iff_mem, ht, if_false, BodyRel, true_and]
      refine ⟨kindrel_wrap _ (carrying_kind hk.1) (by rw [ovVal_carrying hr hpass, h2]), by rw [carrying_isResult]; exact hr, ?_, ?_⟩
      · intro t' x' h
        obtain ⟨y, hy⟩ := carrying_brk t x pass
        rw [hy] at h; cases h; exact ht
      · intro t' x' h
        obtain ⟨y, hy⟩ := carrying_brk t x pass
        rw [hy] at h; cases h
  | cont t x =>
    have h1 := hk.1; have h2 := hk.2
    simp only [KindRelT] at h1
    by_cases ht : t ∈ labels
    · simp only [bodyResult, evalBC, List.contains_iff_mem, ht, if_true, BodyRel, true_and]
      refine ⟨⟨t, h1.1, ht, h1.2⟩, ?_⟩
      rw [ovVal_carried hr (by intro v h; cases h), h2, hinv, pick_assoc]
    · simp only [bodyResult, evalBC, List.contains_iff_mem, ht, if_false, BodyRel, true_and]
      refine ⟨kindrel_wrap _ (carrying_kind hk.1) (by rw [ovVal_carrying hr hpass, h2]), by rw [carrying_isResult]; exact hr, ?_, ?_⟩
      · intro t' x' h
        obtain ⟨y, hy⟩ := carrying_cont t x pass
        rw [hy] at h; cases h
      · intro t' x' h
        obtain ⟨y, hy⟩ := carrying_cont t x pass
        rw [hy] at h; cases h; exact ht

theorem pbodylist_step (n : Nat) (hS : PS S n) (hB : PBodyList S n) : PBodyList S (n+1) := by
  intro m ss labels iter σ result pass V hwl hres hpass hinv
  cases m with
  | zero => simp only [specList, listWrap]; exact bodyrel_fuel_r _ _ _ _
  | succ m =>
    cases ss with
    | nil =>
      simp only [ottoBody, specList, listWrap, BodyRel, pick, true_and]
      exact hinv
    | cons s ss =>
      simp only [wlList, Bool.and_eq_true] at hwl
      have ih := hS m s [] [] iter σ (by simp) (by simp) (by simp) hwl.1
      simp only [ottoBody, specList]
      cases hm : ottoS S n s [] σ with
      | fuel => simp [BodyRel]
      | throw v L' σ' =>
        cases hs : specS S m [] s σ with
        | fuel => simp only [listWrap]; exact bodyrel_fuel_r _ _ _ _
        | ok c σ2 => rw [hm, hs] at ih; simp [Sim] at ih
        | throw v2 σ2 =>
          rw [hm, hs] at ih
          simp only [Sim] at ih
          obtain ⟨h1, h2, h3⟩ := ih
          subst h1; subst h2
          simp [BodyRel, listWrap, labok_of_nil h3]
      | ok o L' σ' =>
        cases hs : specS S m [] s σ with
        | fuel => simp only [listWrap]; exact bodyrel_fuel_r _ _ _ _
        | throw v2 σ2 => rw [hm, hs] at ih; simp [Sim] at ih
        | ok c σ2 =>
          rw [hm, hs] at ih
          simp only [Sim] at ih
          obtain ⟨hσ, hlab, hk⟩ := ih
          subst hσ
          have hL' : L' = [] := labok_of_nil hlab
          subst hL'
          cases hr : isResult o with
          | true =>
            have hab := kindrel_result_abrupt hr hk
            simp only [hr, hab, if_true, listWrap]
            exact bodyResult_rel _ hr hk hres hpass hinv
          | false =>
            have hn := kindrel_nil_normal hr hk
            have hab : c.abrupt = false := by simp [Comp.abrupt, hn]
            simp only [hr, hab, Bool.false_eq_true, if_false]
            rw [listWrap_listWrap]
            have := hB m ss labels iter σ' (nextResult o result) (nextResult o pass) V hwl.2
              (nextResult_notResult hr hres) (nextResult_notResult hr hpass)
              (by rw [ovVal_nextResult hr, ovVal_nextResult hr, hinv, pick_assoc])
            rw [ovVal_nextResult hr, hk.2] at this
            exact this

def PBody (n : Nat) : Prop := ∀ m b labels iter σ result, wlS iter [] b = true → isResult result = false →
    BodyRel labels iter (ovVal result) (ottoBody S n (bodyList b) labels [] σ result .empty) (specS S m [] b σ)

theorem pbody_step (n : Nat) (hS : PS S n) (hB : PBodyList S (n+1)) : PBody S (n+1) := by
  intro m b labels iter σ result hwl hres
  by_cases hb : ∃ ss, b = .block ss
  · obtain ⟨ss, rfl⟩ := hb
    cases m with
    | zero => simp only [specS]; exact bodyrel_fuel_r _ _ _ _
    | succ m =>
      simp only [bodyList, specS]
      have := hB m ss labels iter σ result .empty (ovVal result) (by simpa [wlS] using hwl) hres rfl (by simp [ovVal, pick])
      simpa [ovVal, listWrap_none] using this
  · have hbl : bodyList b = .cons b .nil := by
      cases b <;> simp_all [bodyList]
    rw [hbl]
    have ih := hS m b [] [] iter σ (by simp) (by simp) (by simp) hwl
    simp only [ottoBody]
    cases hm : ottoS S n b [] σ with
    | fuel => simp [BodyRel]
    | throw v L' σ' =>
      cases hs : specS S m [] b σ with
      | fuel => exact bodyrel_fuel_r _ _ _ _
      | ok c σ2 => rw [hm, hs] at ih; simp [Sim] at ih
      | throw v2 σ2 =>
        rw [hm, hs] at ih
        simp only [Sim] at ih
        obtain ⟨h1, h2, h3⟩ := ih
        subst h1; subst h2
        simp [BodyRel, labok_of_nil h3]
    | ok o L' σ' =>
      cases hs : specS S m [] b σ with
      | fuel => exact bodyrel_fuel_r _ _ _ _
      | throw v2 σ2 => rw [hm, hs] at ih; simp [Sim] at ih
      | ok c σ2 =>
        rw [hm, hs] at ih
        simp only [Sim] at ih
        obtain ⟨hσ, hlab, hk⟩ := ih
        subst hσ
        have hL' : L' = [] := labok_of_nil hlab
        subst hL'
        cases hr : isResult o with
        | true =>
          simp only [hr, if_true]
          have := bodyResult_rel (labels := labels) (V := ovVal result) σ' hr hk hres (pass := .empty) rfl (by simp [ovVal, pick])
          simpa [ovVal, pick_none_r] using this
        | false =>
          have hn := kindrel_nil_normal hr hk
          simp only [hr, Bool.false_eq_true, if_false]
          cases n with
          | zero => simp [ottoBody, BodyRel]
          | succ n =>
            simp only [ottoBody, BodyRel, true_and]
            exact ⟨hn, by rw [ovVal_nextResult hr, hk.2]⟩

def BRNonResult : BR St → Prop
  | .next r _ _ => isResult r = false
  | .brk r _ _ => isResult r = false
  | .cont r _ _ => isResult r = false
  | _ => True

/-- the `result` carried by a body pass is never a valueResult -/
theorem ottoBody_nonresult : ∀ (n : Nat) (ss : Stmts) (labels L : List String) (σ : St) (result pass : OV),
    isResult result = false → BRNonResult (ottoBody S n ss labels L σ result pass) := by
  intro n
  induction n with
  | zero => intro ss labels L σ result pass _; simp [ottoBody, BRNonResult]
  | succ n ih =>
    intro ss labels L σ result pass hres
    cases ss with
    | nil => simpa [ottoBody, BRNonResult] using hres
    | cons s ss =>
      simp only [ottoBody]
      cases hm : ottoS S n s L σ with
      | fuel => simp [BRNonResult]
      | throw v L' σ' => simp [BRNonResult]
      | ok o L' σ' =>
        cases hr : isResult o with
        | true =>
          simp only [hr, if_true]
          cases o with
          | empty => simp [isResult] at hr
          | val v => simp [isResult] at hr
          | ret v => simp [bodyResult, evalBC, BRNonResult]
          | brk t x => by_cases h : t ∈ labels <;> simp [bodyResult, evalBC, h, BRNonResult, carried_nonresult hres]
          | cont t x => by_cases h : t ∈ labels <;> simp [bodyResult, evalBC, h, BRNonResult, carried_nonresult hres]
        | false =>
          simp only [hr, Bool.false_eq_true, if_false]
          exact ih ss labels L' σ' _ _ (nextResult_notResult hr hres)

theorem kindrel_nonresult_normal {L iter : List String} {r : OV} {c : Comp} (hr : isResult r = false)
    (hc : c.t = .normal) (hv : ovVal r = c.v) : KindRel L iter r c := by
  refine ⟨?_, hv⟩
  cases r <;> simp [isResult] at hr <;> simp [KindRelT, hc]

/-- the common step of the three iteration statements -/
theorem loop_step_sim {L ls iter : List String} (H1 : ∀ t ∈ ls, t ∈ L) (H1' : ∀ t ∈ L, t ∈ ls) (H2 : ∀ t ∈ L, t ∉ iter)
    {br : BR St} {sr : SR St} (V : Option Val)
    {again : OV → List String → St → MR St} {sagain : Option Val → St → SR St}
    (hrel : BodyRel (L ++ [""]) (ls ++ iter) V br sr)
    (hnr : BRNonResult br)
    (hagain : ∀ r σ2 V', isResult r = false → ovVal r = V' → Sim L iter (again r [] σ2) (sagain V' σ2)) :
    Sim L iter (loopStep again br) (sLoopStep ("" :: ls) V sagain sr) := by
  cases br with
  | fuel => simp [loopStep, Sim]
  | throw v L' σ2 =>
    cases sr with
    | fuel => exact sim_fuel_r _ _ _
    | ok c σ3 => simp [BodyRel] at hrel
    | throw v2 σ3 =>
      simp only [BodyRel] at hrel
      obtain ⟨h1, h2, h3⟩ := hrel
      subst h1; subst h2; subst h3
      simp only [loopStep, sLoopStep]
      exact sim_throw _ _ (labok_nil _)
  | next r L' σ2 =>
    cases sr with
    | fuel => exact sim_fuel_r _ _ _
    | throw v2 σ3 => simp [BodyRel] at hrel
    | ok c σ3 =>
      simp only [BodyRel] at hrel
      obtain ⟨h1, h2, h3, h4⟩ := hrel
      subst h1; subst h2
      simp only [loopStep, sLoopStep, h3]
      exact hagain r σ2 _ hnr h4
  | cont r L' σ2 =>
    cases sr with
    | fuel => exact sim_fuel_r _ _ _
    | throw v2 σ3 => simp [BodyRel] at hrel
    | ok c σ3 =>
      simp only [BodyRel] at hrel
      obtain ⟨h1, h2, ⟨t, h3, h4, h5⟩, hv⟩ := hrel
      subst h1; subst h2
      have hin : ("" :: ls).contains t = true := by
        simp only [List.contains_iff_mem, List.mem_cons]
        rcases h5 with h5 | h5
        · exact Or.inl h5
        · rcases List.mem_append.mp h5 with h6 | h6
          · exact Or.inr h6
          · rcases List.mem_append.mp h4 with h7 | h7
            · exact absurd h6 (H2 t h7)
            · simp at h7; exact Or.inl h7
      simp only [loopStep, sLoopStep, h3, hin, if_true]
      exact hagain r σ2 _ hnr hv
  | brk r L' σ2 =>
    cases sr with
    | fuel => exact sim_fuel_r _ _ _
    | throw v2 σ3 => simp [BodyRel] at hrel
    | ok c σ3 =>
      simp only [BodyRel] at hrel
      obtain ⟨h1, h2, ⟨t, h3, h4⟩, hv⟩ := hrel
      subst h1; subst h2
      simp only [loopStep, sLoopStep, h3]
      have hin : ("" :: ls).contains t = true := by
        simp only [List.contains_iff_mem, List.mem_cons]
        rcases List.mem_append.mp h4 with h7 | h7
        · exact Or.inr (H1' t h7)
        · simp at h7; exact Or.inl h7
      simp only [hin, if_true]
      exact sim_ok _ (labok_nil _) (kindrel_nonresult_normal hnr rfl hv)
  | retv o L' σ2 =>
    cases sr with
    | fuel => exact sim_fuel_r _ _ _
    | throw v2 σ3 => simp [BodyRel] at hrel
    | ok c σ3 =>
      simp only [BodyRel] at hrel
      obtain ⟨h1, h2, hk, hres, hb, hc⟩ := hrel
      subst h1; subst h2
      simp only [loopStep]
      have hk1 := hk.1
      cases o with
      | empty => simp [isResult] at hres
      | val v => simp [isResult] at hres
      | ret v =>
        simp only [KindRelT] at hk1
        simp only [sLoopStep, hk1]
        exact sim_ok _ (labok_nil _) ⟨by simp [KindRelT, hk1], hk.2⟩
      | brk t x =>
        simp only [KindRelT] at hk1
        have hnin : ("" :: ls).contains t = false := by
          have := hb t x rfl
          simp only [List.mem_append, not_or] at this
          apply Bool.eq_false_iff.mpr
          intro hcon
          simp only [List.contains_iff_mem, List.mem_cons] at hcon
          rcases hcon with h | h
          · exact this.2 (by simp [h])
          · exact this.1 (H1 t h)
        simp only [sLoopStep, hk1, hnin, Bool.false_eq_true, if_false]
        exact sim_ok _ (labok_nil _) ⟨by simp [KindRelT, hk1], hk.2⟩
      | cont t x =>
        simp only [KindRelT] at hk1
        have hnl := hc t x rfl
        simp only [List.mem_append, not_or] at hnl
        have hnin : ("" :: ls).contains t = false := by
          apply Bool.eq_false_iff.mpr
          intro hcon
          simp only [List.contains_iff_mem, List.mem_cons] at hcon
          rcases hcon with h | h
          · exact hnl.2 (by simp [h])
          · exact hnl.1 (H1 t h)
        simp only [sLoopStep, hk1.1, hnin, Bool.false_eq_true, if_false]
        refine sim_ok _ (labok_nil _) ⟨?_, hk.2⟩
        simp only [KindRelT, hk1.1, true_and]
        rcases hk1.2 with h | h
        · exact Or.inl h
        · rcases List.mem_append.mp h with h6 | h6
          · exact absurd (H1 t h6) hnl.1
          · exact Or.inr h6


def PWhile (n : Nat) : Prop := ∀ m c b L ls iter σ result V,
    (∀ t ∈ ls, t ∈ L) → (∀ t ∈ L, t ∈ ls) → (∀ t ∈ L, t ∉ iter) → wlS (ls ++ iter) [] b = true → isResult result = false →
    ovVal result = V →
    Sim L iter (ottoWhile S n c (bodyList b) (L ++ [""]) [] σ result) (specWhile S m ("" :: ls) c b σ V)

def PDoWhile (n : Nat) : Prop := ∀ m c b L ls iter σ result V,
    (∀ t ∈ ls, t ∈ L) → (∀ t ∈ L, t ∈ ls) → (∀ t ∈ L, t ∉ iter) → wlS (ls ++ iter) [] b = true → isResult result = false →
    ovVal result = V →
    Sim L iter (ottoDoWhile S n (bodyList b) c (L ++ [""]) [] σ result) (specDoWhile S m ("" :: ls) b c σ V)

def PFor (n : Nat) : Prop := ∀ m test update b L ls iter σ result V,
    (∀ t ∈ ls, t ∈ L) → (∀ t ∈ L, t ∈ ls) → (∀ t ∈ L, t ∉ iter) → wlS (ls ++ iter) [] b = true → isResult result = false →
    ovVal result = V →
    Sim L iter (ottoFor S n test update (bodyList b) (L ++ [""]) [] σ result) (specFor S m ("" :: ls) test update b σ V)

theorem pwhile_step (n : Nat) (hB : PBody S n) (hW : PWhile S n) : PWhile S (n+1) := by
  intro m c b L ls iter σ result V H1 H1' H2 hwl hres hV
  subst hV
  cases m with
  | zero => simp only [specWhile]; exact sim_fuel_r _ _ _
  | succ m =>
    simp only [ottoWhile, specWhile]
    cases S.evalE c σ with
    | throw v σ' => exact sim_throw _ _ (labok_nil _)
    | ok v σ' =>
      cases ht : S.truthy v with
      | false =>
        simp only [ht, Bool.not_false, if_true]
        exact sim_ok _ (labok_nil _) (kindrel_nonresult_normal (c := ⟨.normal, ovVal result⟩) hres rfl rfl)
      | true =>
        simp only [ht, Bool.not_true, Bool.false_eq_true, if_false]
        exact loop_step_sim H1 H1' H2 _ (hB m b (L ++ [""]) (ls ++ iter) σ' result hwl hres)
          (ottoBody_nonresult S n _ _ _ _ _ _ hres)
          (fun r σ2 V' hr hv => hW m c b L ls iter σ2 r V' H1 H1' H2 hwl hr hv)

theorem pdowhile_step (n : Nat) (hB : PBody S n) (hW : PDoWhile S n) : PDoWhile S (n+1) := by
  intro m c b L ls iter σ result V H1 H1' H2 hwl hres hV
  subst hV
  cases m with
  | zero => simp only [specDoWhile]; exact sim_fuel_r _ _ _
  | succ m =>
    simp only [ottoDoWhile, specDoWhile]
    refine loop_step_sim H1 H1' H2 _ (hB m b (L ++ [""]) (ls ++ iter) σ result hwl hres)
      (ottoBody_nonresult S n _ _ _ _ _ _ hres) ?_
    intro r σ2 V' hr hv
    cases S.evalE c σ2 with
    | throw v σ3 => exact sim_throw _ _ (labok_nil _)
    | ok v σ3 =>
      cases ht : S.truthy v with
      | false =>
        simp only [ht, Bool.not_false, if_true]
        exact sim_ok _ (labok_nil _) (kindrel_nonresult_normal (c := ⟨.normal, V'⟩) hr rfl hv)
      | true =>
        simp only [ht, Bool.not_true, Bool.false_eq_true, if_false]
        exact hW m c b L ls iter σ3 r V' H1 H1' H2 hwl hr hv

theorem pfor_step (n : Nat) (hB : PBody S n) (hW : PFor S n) : PFor S (n+1) := by
  intro m test update b L ls iter σ result V H1 H1' H2 hwl hres hV
  subst hV
  cases m with
  | zero => simp only [specFor]; exact sim_fuel_r _ _ _
  | succ m =>
    simp only [ottoFor, specFor]
    cases test with
    | none =>
      simp only
      refine loop_step_sim H1 H1' H2 _ (hB m b (L ++ [""]) (ls ++ iter) σ result hwl hres)
        (ottoBody_nonresult S n _ _ _ _ _ _ hres) ?_
      intro r σ2 V' hr hv
      cases update with
      | none => exact hW m none none b L ls iter σ2 r V' H1 H1' H2 hwl hr hv
      | some u =>
        simp only
        cases S.evalE u σ2 with
        | throw v σ3 => exact sim_throw _ _ (labok_nil _)
        | ok v σ3 => exact hW m none (some u) b L ls iter σ3 r V' H1 H1' H2 hwl hr hv
    | some t =>
      simp only
      cases S.evalE t σ with
      | throw v σ' => exact sim_throw _ _ (labok_nil _)
      | ok v σ' =>
        cases ht : S.truthy v with
        | false =>
          simp only [ht, Bool.not_false, if_true]
          exact sim_ok _ (labok_nil _) (kindrel_nonresult_normal (c := ⟨.normal, ovVal result⟩) hres rfl rfl)
        | true =>
          simp only [ht, Bool.not_true, Bool.false_eq_true, if_false]
          refine loop_step_sim H1 H1' H2 _ (hB m b (L ++ [""]) (ls ++ iter) σ' result hwl hres)
            (ottoBody_nonresult S n _ _ _ _ _ _ hres) ?_
          intro r σ2 V' hr hv
          cases update with
          | none => exact hW m (some t) none b L ls iter σ2 r V' H1 H1' H2 hwl hr hv
          | some u =>
            simp only
            cases S.evalE u σ2 with
            | throw v σ3 => exact sim_throw _ _ (labok_nil _)
            | ok v σ3 => exact hW m (some t) (some u) b L ls iter σ3 r V' H1 H1' H2 hwl hr hv

end

end OttoVerif.C01
