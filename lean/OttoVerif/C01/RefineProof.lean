/-
  C01/RefineProof — proof of the simulation, by induction on the model's fuel with the spec's fuel
  universally quantified.
-/
import OttoVerif.C01.Refine
namespace OttoVerif.C01
variable {St : Type}

theorem sim_fuel_r (L iter : List String) (mr : MR St) : Sim L iter mr .fuel := by
  cases mr <;> simp [Sim]

theorem bodyrel_fuel_r (labels iter : List String) (br : BR St) : BodyRel labels iter br .fuel := by
  cases br <;> simp [BodyRel]

theorem sim_ok {L iter : List String} {o : OV} {c : Comp} {L' : List String} (σ : St)
    (h1 : LabOK L L') (h2 : KindRel L iter o c) : Sim L iter (.ok o L' σ) (.ok c σ) := ⟨rfl, h1, h2⟩

theorem sim_throw {L iter : List String} {L' : List String} (v : Val) (σ : St)
    (h1 : LabOK L L') : Sim L iter (.throw v L' σ) (.throw v σ) := ⟨rfl, rfl, h1⟩

theorem labok_refl (L : List String) : LabOK L L := Or.inl rfl
theorem labok_nil (L : List String) : LabOK L [] := Or.inr rfl
theorem labok_of_nil {L' : List String} (h : LabOK [] L') : L' = [] := by
  cases h <;> assumption

theorem labok_trans {L L1 L2 : List String} (h1 : LabOK L L1) (h2 : LabOK L1 L2) : LabOK L L2 := by
  cases h1 with
  | inl h => subst h; exact h2
  | inr h => subst h; exact Or.inr (labok_of_nil h2)

theorem labok_sub {L L1 : List String} (h : LabOK L L1) : ∀ t ∈ L1, t ∈ L := by
  intro t ht
  cases h with
  | inl h => subst h; exact ht
  | inr h => subst h; simp at ht

theorem kindrel_weaken {L1 L iter : List String} {o : OV} {c : Comp}
    (hs : ∀ t ∈ L1, t ∈ L) (h : KindRel L1 iter o c) : KindRel L iter o c := by
  cases o <;> simp only [KindRel] at h ⊢
  · rcases h with h | ⟨t, h1, h2⟩
    · exact Or.inl h
    · exact Or.inr ⟨t, h1, hs t h2⟩
  · rcases h with h | ⟨t, h1, h2⟩
    · exact Or.inl h
    · exact Or.inr ⟨t, h1, hs t h2⟩
  · exact h
  · exact h
  · exact h

theorem sim_weaken {L1 L iter : List String} {mr : MR St} {sr : SR St}
    (hl : LabOK L L1) (h : Sim L1 iter mr sr) : Sim L iter mr sr := by
  cases mr <;> cases sr <;> simp only [Sim] at h ⊢
  · exact ⟨h.1, labok_trans hl h.2.1, kindrel_weaken (labok_sub hl) h.2.2⟩
  · exact ⟨h.1, h.2.1, labok_trans hl h.2.2⟩

theorem popLabel_snoc (L : List String) (l : String) : popLabel (L ++ [l]) = L := by
  simp [popLabel]

theorem popLabel_nil : popLabel ([] : List String) = [] := by simp [popLabel]

theorem labok_pop {L L' : List String} {l : String} (h : LabOK (L ++ [l]) L') : LabOK L (popLabel L') := by
  cases h with
  | inl h => subst h; rw [popLabel_snoc]; exact labok_refl L
  | inr h => subst h; rw [popLabel_nil]; exact labok_nil L


section
variable (S : Sem St)

def PS (n : Nat) : Prop := ∀ m s L ls iter σ, (∀ t ∈ ls, t ∈ L) → (∀ t ∈ L, t ∉ iter) → wlS iter ls s = true →
    Sim L iter (ottoS S n s L σ) (specS S m ls s σ)

def PVars (n : Nat) : Prop := ∀ m es L iter σ, Sim L iter (ottoVars S n es L σ) (specVars S m es σ)

def PList (n : Nat) : Prop := ∀ m ss iter σ result, isResult result = false → wlList iter ss = true →
    Sim [] iter (ottoList S n ss [] σ result) (specList S m ss σ)

def PBodyList (n : Nat) : Prop := ∀ m ss labels iter σ result, wlList iter ss = true →
    BodyRel labels iter (ottoBody S n ss labels [] σ result) (specList S m ss σ)

theorem pvars_all : ∀ n, PVars S n := by
  intro n
  induction n with
  | zero => intro m es L iter σ; simp [ottoVars, Sim]
  | succ n ih =>
    intro m es L iter σ
    cases m with
    | zero => simp only [specVars]; exact sim_fuel_r _ _ _
    | succ m =>
      cases es with
      | nil => simp [ottoVars, specVars, Sim, KindRel, labok_refl]
      | cons e es =>
        simp only [ottoVars, specVars]
        cases S.evalE e σ with
        | ok v σ' => exact ih m es L iter σ'
        | throw v σ' => simp [Sim, labok_refl]


theorem kindrel_pick {L iter : List String} {o : OV} {c2 : Comp} (x : Option Val)
    (h : KindRel L iter o c2) : KindRel L iter o ⟨c2.t, pick c2.v x⟩ := by
  cases o <;> simp only [KindRel] at h ⊢ <;> try exact h
  obtain ⟨h1, h2⟩ := h
  exact ⟨h1, by simp [pick, h2]⟩

theorem sim_list_wrap {iter : List String} {mr : MR St} {sr : SR St} (x : Option Val)
    (h : Sim [] iter mr sr) :
    Sim [] iter mr (listWrap x sr) := by
  cases mr <;> cases sr <;> simp only [Sim, listWrap] at h ⊢
  · exact ⟨h.1, h.2.1, kindrel_pick x h.2.2⟩
  · exact h

theorem kindrel_nil_normal {iter : List String} {o : OV} {c : Comp} (hr : isResult o = false)
    (h : KindRel [] iter o c) : c.t = .normal := by
  cases o <;> simp [isResult] at hr <;> simp [KindRel] at h <;> exact h

theorem kindrel_result_abrupt {L iter : List String} {o : OV} {c : Comp} (hr : isResult o = true)
    (h : KindRel L iter o c) : c.abrupt = true := by
  cases o <;> simp [isResult] at hr <;> simp [KindRel] at h <;> simp [Comp.abrupt, h]

theorem nextResult_notResult {o result : OV} (h1 : isResult o = false) (h2 : isResult result = false) :
    isResult (nextResult o result) = false := by
  cases o <;> simp_all [nextResult, isResult]

theorem plist_step (n : Nat) (hS : PS S n) (hL : PList S n) : PList S (n+1) := by
  intro m ss iter σ result hres hwl
  cases m with
  | zero => simp only [specList]; exact sim_fuel_r _ _ _
  | succ m =>
    cases ss with
    | nil => simp [ottoList, specList, Sim, labok_refl]; cases result <;> simp_all [isResult, KindRel]
    | cons s ss =>
      simp only [wlList, Bool.and_eq_true] at hwl
      have ih := hS m s [] [] iter σ (by simp) (by simp) hwl.1
      simp only [ottoList, specList]
      cases hm : ottoS S n s [] σ with
      | fuel => simp [Sim]
      | throw v L' σ' =>
        cases hs : specS S m [] s σ with
        | fuel => exact sim_fuel_r _ _ _
        | ok c σ2 => rw [hm, hs] at ih; simp [Sim] at ih
        | throw v2 σ2 => rw [hm, hs] at ih; exact ih
      | ok o L' σ' =>
        cases hs : specS S m [] s σ with
        | fuel => exact sim_fuel_r _ _ _
        | throw v2 σ2 => rw [hm, hs] at ih; simp [Sim] at ih
        | ok c σ2 =>
          rw [hm, hs] at ih
          simp only [Sim] at ih
          obtain ⟨hσ, hlab, hk⟩ := ih
          subst hσ
          have hL' : L' = [] := labok_of_nil hlab
          subst hL'
          cases hr : isResult o with
          | true =>
            have hab := kindrel_result_abrupt hr hk
            simp only [hr, hab, if_true]
            exact sim_ok _ (labok_refl _) hk
          | false =>
            have hn := kindrel_nil_normal hr hk
            have hab : c.abrupt = false := by simp [Comp.abrupt, hn]
            simp only [hr, hab, Bool.false_eq_true, if_false]
            exact sim_list_wrap c.v (hL m ss iter σ' (nextResult o result) (nextResult_notResult hr hres) hwl.2)


theorem bodyrel_list_wrap {labels iter : List String} {br : BR St} {sr : SR St} (x : Option Val)
    (h : BodyRel labels iter br sr) : BodyRel labels iter br (listWrap x sr) := by
  cases br <;> cases sr <;> simp only [BodyRel, listWrap] at h ⊢ <;> try exact h
  obtain ⟨h1, h2, h3, h4⟩ := h
  exact ⟨h1, h2, kindrel_pick x h3, h4⟩

theorem bodyResult_rel {labels iter : List String} {o result : OV} {c : Comp} (σ : St)
    (hr : isResult o = true) (hk : KindRel [] iter o c) :
    BodyRel labels iter (bodyResult labels o result [] σ) (.ok c σ) := by
  cases o with
  | empty => simp [isResult] at hr
  | val v => simp [isResult] at hr
  | ret v => simp [bodyResult, evalBC, BodyRel, hk, isResult]
  | brk t =>
    simp only [KindRel] at hk
    by_cases ht : t ∈ labels
    · simp [bodyResult, evalBC, ht, BodyRel, hk]
    · simp [bodyResult, evalBC, ht, BodyRel, hk, isResult, KindRel]
  | cont t =>
    simp only [KindRel] at hk
    by_cases ht : t ∈ labels
    · simp [bodyResult, evalBC, ht, BodyRel, hk]
    · simp [bodyResult, evalBC, ht, BodyRel, hk, isResult, KindRel]

theorem pbodylist_step (n : Nat) (hS : PS S n) (hB : PBodyList S n) : PBodyList S (n+1) := by
  intro m ss labels iter σ result hwl
  cases m with
  | zero => simp only [specList]; exact bodyrel_fuel_r _ _ _
  | succ m =>
    cases ss with
    | nil => simp [ottoBody, specList, BodyRel]
    | cons s ss =>
      simp only [wlList, Bool.and_eq_true] at hwl
      have ih := hS m s [] [] iter σ (by simp) (by simp) hwl.1
      simp only [ottoBody, specList]
      cases hm : ottoS S n s [] σ with
      | fuel => simp [BodyRel]
      | throw v L' σ' =>
        cases hs : specS S m [] s σ with
        | fuel => exact bodyrel_fuel_r _ _ _
        | ok c σ2 => rw [hm, hs] at ih; simp [Sim] at ih
        | throw v2 σ2 =>
          rw [hm, hs] at ih
          simp only [Sim] at ih
          obtain ⟨h1, h2, h3⟩ := ih
          subst h1; subst h2
          simp [BodyRel, labok_of_nil h3]
      | ok o L' σ' =>
        cases hs : specS S m [] s σ with
        | fuel => exact bodyrel_fuel_r _ _ _
        | throw v2 σ2 => rw [hm, hs] at ih; simp [Sim] at ih
        | ok c σ2 =>
          rw [hm, hs] at ih
          simp only [Sim] at ih
          obtain ⟨hσ, hlab, hk⟩ := ih
          subst hσ
          have hL' : L' = [] := labok_of_nil hlab
          subst hL'
          cases hr : isResult o with
          | true =>
            have hab := kindrel_result_abrupt hr hk
            simp only [hr, hab, if_true]
            exact bodyResult_rel _ hr hk
          | false =>
            have hn := kindrel_nil_normal hr hk
            have hab : c.abrupt = false := by simp [Comp.abrupt, hn]
            simp only [hr, hab, Bool.false_eq_true, if_false]
            exact bodyrel_list_wrap c.v (hB m ss labels iter σ' (nextResult o result) hwl.2)


def PBody (n : Nat) : Prop := ∀ m b labels iter σ result, wlS iter [] b = true →
    BodyRel labels iter (ottoBody S n (bodyList b) labels [] σ result) (specS S m [] b σ)

theorem pbody_step (n : Nat) (hS : PS S n) (hB : PBodyList S (n+1)) : PBody S (n+1) := by
  intro m b labels iter σ result hwl
  by_cases hb : ∃ ss, b = .block ss
  · obtain ⟨ss, rfl⟩ := hb
    cases m with
    | zero => simp only [specS]; exact bodyrel_fuel_r _ _ _
    | succ m =>
      simp only [bodyList, specS]
      exact hB m ss labels iter σ result (by simpa [wlS] using hwl)
  · have hbl : bodyList b = .cons b .nil := by
      cases b <;> simp_all [bodyList]
    rw [hbl]
    have ih := hS m b [] [] iter σ (by simp) (by simp) hwl
    simp only [ottoBody]
    cases hm : ottoS S n b [] σ with
    | fuel => simp [BodyRel]
    | throw v L' σ' =>
      cases hs : specS S m [] b σ with
      | fuel => exact bodyrel_fuel_r _ _ _
      | ok c σ2 => rw [hm, hs] at ih; simp [Sim] at ih
      | throw v2 σ2 =>
        rw [hm, hs] at ih
        simp only [Sim] at ih
        obtain ⟨h1, h2, h3⟩ := ih
        subst h1; subst h2
        simp [BodyRel, labok_of_nil h3]
    | ok o L' σ' =>
      cases hs : specS S m [] b σ with
      | fuel => exact bodyrel_fuel_r _ _ _
      | throw v2 σ2 => rw [hm, hs] at ih; simp [Sim] at ih
      | ok c σ2 =>
        rw [hm, hs] at ih
        simp only [Sim] at ih
        obtain ⟨hσ, hlab, hk⟩ := ih
        subst hσ
        have hL' : L' = [] := labok_of_nil hlab
        subst hL'
        cases hr : isResult o with
        | true =>
          simp only [hr, if_true]
          exact bodyResult_rel _ hr hk
        | false =>
          have hn := kindrel_nil_normal hr hk
          simp only [hr, Bool.false_eq_true, if_false]
          cases n with
          | zero => simp [ottoBody, BodyRel]
          | succ n => simp [ottoBody, BodyRel, hn]

def BRNonResult : BR St → Prop
  | .next r _ _ => isResult r = false
  | .brk r _ _ => isResult r = false
  | .cont r _ _ => isResult r = false
  | _ => True

/-- the `result` carried by a body pass is never a valueResult -/
theorem ottoBody_nonresult : ∀ (n : Nat) (ss : Stmts) (labels L : List String) (σ : St) (result : OV),
    isResult result = false → BRNonResult (ottoBody S n ss labels L σ result) := by
  intro n
  induction n with
  | zero => intro ss labels L σ result _; simp [ottoBody, BRNonResult]
  | succ n ih =>
    intro ss labels L σ result hres
    cases ss with
    | nil => simpa [ottoBody, BRNonResult] using hres
    | cons s ss =>
      simp only [ottoBody]
      cases hm : ottoS S n s L σ with
      | fuel => simp [BRNonResult]
      | throw v L' σ' => simp [BRNonResult]
      | ok o L' σ' =>
        cases hr : isResult o with
        | true =>
          simp only [hr, if_true]
          cases o with
          | empty => simp [isResult] at hr
          | val v => simp [isResult] at hr
          | ret v => simp [bodyResult, evalBC, BRNonResult]
          | brk t => by_cases h : t ∈ labels <;> simp [bodyResult, evalBC, h, hres, BRNonResult]
          | cont t => by_cases h : t ∈ labels <;> simp [bodyResult, evalBC, h, hres, BRNonResult]
        | false =>
          simp only [hr, Bool.false_eq_true, if_false]
          exact ih ss labels L' σ' _ (nextResult_notResult hr hres)

theorem kindrel_nonresult_normal {L iter : List String} {r : OV} {c : Comp} (hr : isResult r = false)
    (hc : c.t = .normal) : KindRel L iter r c := by
  cases r <;> simp [isResult] at hr <;> simp [KindRel, hc]

theorem kindrel_nonresult_brk {L iter : List String} {r : OV} {c : Comp} {t : String} (hr : isResult r = false)
    (hc : c.t = .brk t) (ht : t ∈ L) : KindRel L iter r c := by
  cases r <;> simp [isResult] at hr <;> simp [KindRel, hc, ht]

/-- the common step of the three iteration statements -/
theorem loop_step_sim {L ls iter : List String} (H1 : ∀ t ∈ ls, t ∈ L) (H2 : ∀ t ∈ L, t ∉ iter)
    {br : BR St} {sr : SR St} (V : Option Val)
    {again : OV → List String → St → MR St} {sagain : Option Val → St → SR St}
    (hrel : BodyRel (L ++ [""]) (ls ++ iter) br sr)
    (hnr : BRNonResult br)
    (hagain : ∀ r σ2 V', isResult r = false → Sim L iter (again r [] σ2) (sagain V' σ2)) :
    Sim L iter (loopStep again br) (sLoopStep ("" :: ls) V sagain sr) := by
  cases br with
  | fuel => simp [loopStep, Sim]
  | throw v L' σ2 =>
    cases sr with
    | fuel => exact sim_fuel_r _ _ _
    | ok c σ3 => simp [BodyRel] at hrel
    | throw v2 σ3 =>
      simp only [BodyRel] at hrel
      obtain ⟨h1, h2, h3⟩ := hrel
      subst h1; subst h2; subst h3
      simp only [loopStep, sLoopStep]
      exact sim_throw _ _ (labok_nil _)
  | next r L' σ2 =>
    cases sr with
    | fuel => exact sim_fuel_r _ _ _
    | throw v2 σ3 => simp [BodyRel] at hrel
    | ok c σ3 =>
      simp only [BodyRel] at hrel
      obtain ⟨h1, h2, h3⟩ := hrel
      subst h1; subst h2
      simp only [loopStep, sLoopStep, h3]
      exact hagain r σ2 _ hnr
  | cont r L' σ2 =>
    cases sr with
    | fuel => exact sim_fuel_r _ _ _
    | throw v2 σ3 => simp [BodyRel] at hrel
    | ok c σ3 =>
      simp only [BodyRel] at hrel
      obtain ⟨h1, h2, t, h3, h4, h5⟩ := hrel
      subst h1; subst h2
      have hin : ("" :: ls).contains t = true := by
        simp only [List.contains_iff_mem, List.mem_cons]
        rcases h5 with h5 | h5
        · exact Or.inl h5
        · rcases List.mem_append.mp h5 with h6 | h6
          · exact Or.inr h6
          · rcases List.mem_append.mp h4 with h7 | h7
            · exact absurd h6 (H2 t h7)
            · simp at h7; exact Or.inl h7
      simp only [loopStep, sLoopStep, h3, hin, if_true]
      exact hagain r σ2 _ hnr
  | brk r L' σ2 =>
    cases sr with
    | fuel => exact sim_fuel_r _ _ _
    | throw v2 σ3 => simp [BodyRel] at hrel
    | ok c σ3 =>
      simp only [BodyRel] at hrel
      obtain ⟨h1, h2, t, h3, h4⟩ := hrel
      subst h1; subst h2
      simp only [loopStep, sLoopStep, h3]
      by_cases hin : ("" :: ls).contains t = true
      · simp only [hin, if_true]
        exact sim_ok _ (labok_nil _) (kindrel_nonresult_normal hnr rfl)
      · simp only [hin, if_false]
        have htL : t ∈ L := by
          simp only [List.contains_iff_mem, List.mem_cons, not_or] at hin
          rcases List.mem_append.mp h4 with h7 | h7
          · exact h7
          · simp at h7; exact absurd h7 hin.1
        exact sim_ok _ (labok_nil _) (kindrel_nonresult_brk hnr h3 htL)
  | retv o L' σ2 =>
    cases sr with
    | fuel => exact sim_fuel_r _ _ _
    | throw v2 σ3 => simp [BodyRel] at hrel
    | ok c σ3 =>
      simp only [BodyRel] at hrel
      obtain ⟨h1, h2, hk, hres, hb, hc⟩ := hrel
      subst h1; subst h2
      simp only [loopStep]
      cases o with
      | empty => simp [isResult] at hres
      | val v => simp [isResult] at hres
      | ret v =>
        simp only [KindRel] at hk
        simp only [sLoopStep, hk.1]
        exact sim_ok _ (labok_nil _) (by simp [KindRel, hk])
      | brk t =>
        simp only [KindRel] at hk
        have hnin : ("" :: ls).contains t = false := by
          have := hb t rfl
          simp only [List.mem_append, not_or] at this
          apply Bool.eq_false_iff.mpr
          intro hcon
          simp only [List.contains_iff_mem, List.mem_cons] at hcon
          rcases hcon with h | h
          · exact this.2 (by simp [h])
          · exact this.1 (H1 t h)
        simp only [sLoopStep, hk, hnin, Bool.false_eq_true, if_false]
        exact sim_ok _ (labok_nil _) (by simp [KindRel, hk])
      | cont t =>
        simp only [KindRel] at hk
        have hnl := hc t rfl
        simp only [List.mem_append, not_or] at hnl
        have hnin : ("" :: ls).contains t = false := by
          apply Bool.eq_false_iff.mpr
          intro hcon
          simp only [List.contains_iff_mem, List.mem_cons] at hcon
          rcases hcon with h | h
          · exact hnl.2 (by simp [h])
          · exact hnl.1 (H1 t h)
        simp only [sLoopStep, hk.1, hnin, Bool.false_eq_true, if_false]
        refine sim_ok _ (labok_nil _) ?_
        simp only [KindRel, hk.1, true_and]
        rcases hk.2 with h | h
        · exact Or.inl h
        · rcases List.mem_append.mp h with h6 | h6
          · exact absurd (H1 t h6) hnl.1
          · exact Or.inr h6


def PWhile (n : Nat) : Prop := ∀ m c b L ls iter σ result V,
    (∀ t ∈ ls, t ∈ L) → (∀ t ∈ L, t ∉ iter) → wlS (ls ++ iter) [] b = true → isResult result = false →
    Sim L iter (ottoWhile S n c (bodyList b) (L ++ [""]) [] σ result) (specWhile S m ("" :: ls) c b σ V)

def PDoWhile (n : Nat) : Prop := ∀ m c b L ls iter σ result V,
    (∀ t ∈ ls, t ∈ L) → (∀ t ∈ L, t ∉ iter) → wlS (ls ++ iter) [] b = true → isResult result = false →
    Sim L iter (ottoDoWhile S n (bodyList b) c (L ++ [""]) [] σ result) (specDoWhile S m ("" :: ls) b c σ V)

def PFor (n : Nat) : Prop := ∀ m test update b L ls iter σ result V,
    (∀ t ∈ ls, t ∈ L) → (∀ t ∈ L, t ∉ iter) → wlS (ls ++ iter) [] b = true → isResult result = false →
    Sim L iter (ottoFor S n test update (bodyList b) (L ++ [""]) [] σ result) (specFor S m ("" :: ls) test update b σ V)

theorem pwhile_step (n : Nat) (hB : PBody S n) (hW : PWhile S n) : PWhile S (n+1) := by
  intro m c b L ls iter σ result V H1 H2 hwl hres
  cases m with
  | zero => simp only [specWhile]; exact sim_fuel_r _ _ _
  | succ m =>
    simp only [ottoWhile, specWhile]
    cases S.evalE c σ with
    | throw v σ' => exact sim_throw _ _ (labok_nil _)
    | ok v σ' =>
      cases ht : S.truthy v with
      | false =>
        simp only [ht, Bool.not_false, if_true]
        exact sim_ok _ (labok_nil _) (kindrel_nonresult_normal (c := ⟨.normal, V⟩) hres rfl)
      | true =>
        simp only [ht, Bool.not_true, Bool.false_eq_true, if_false]
        exact loop_step_sim H1 H2 V (hB m b (L ++ [""]) (ls ++ iter) σ' result hwl)
          (ottoBody_nonresult S n _ _ _ _ _ hres)
          (fun r σ2 V' hr => hW m c b L ls iter σ2 r V' H1 H2 hwl hr)

theorem pdowhile_step (n : Nat) (hB : PBody S n) (hW : PDoWhile S n) : PDoWhile S (n+1) := by
  intro m c b L ls iter σ result V H1 H2 hwl hres
  cases m with
  | zero => simp only [specDoWhile]; exact sim_fuel_r _ _ _
  | succ m =>
    simp only [ottoDoWhile, specDoWhile]
    refine loop_step_sim H1 H2 V (hB m b (L ++ [""]) (ls ++ iter) σ result hwl)
      (ottoBody_nonresult S n _ _ _ _ _ hres) ?_
    intro r σ2 V' hr
    cases S.evalE c σ2 with
    | throw v σ3 => exact sim_throw _ _ (labok_nil _)
    | ok v σ3 =>
      cases ht : S.truthy v with
      | false =>
        simp only [ht, Bool.not_false, if_true]
        exact sim_ok _ (labok_nil _) (kindrel_nonresult_normal (c := ⟨.normal, V'⟩) hr rfl)
      | true =>
        simp only [ht, Bool.not_true, Bool.false_eq_true, if_false]
        exact hW m c b L ls iter σ3 r V' H1 H2 hwl hr

theorem pfor_step (n : Nat) (hB : PBody S n) (hW : PFor S n) : PFor S (n+1) := by
  intro m test update b L ls iter σ result V H1 H2 hwl hres
  cases m with
  | zero => simp only [specFor]; exact sim_fuel_r _ _ _
  | succ m =>
    simp only [ottoFor, specFor]
    cases test with
    | none =>
      simp only
      refine loop_step_sim H1 H2 V (hB m b (L ++ [""]) (ls ++ iter) σ result hwl)
        (ottoBody_nonresult S n _ _ _ _ _ hres) ?_
      intro r σ2 V' hr
      cases update with
      | none => exact hW m none none b L ls iter σ2 r V' H1 H2 hwl hr
      | some u =>
        simp only
        cases S.evalE u σ2 with
        | throw v σ3 => exact sim_throw _ _ (labok_nil _)
        | ok v σ3 => exact hW m none (some u) b L ls iter σ3 r V' H1 H2 hwl hr
    | some t =>
      simp only
      cases S.evalE t σ with
      | throw v σ' => exact sim_throw _ _ (labok_nil _)
      | ok v σ' =>
        cases ht : S.truthy v with
        | false =>
          simp only [ht, Bool.not_false, if_true]
          exact sim_ok _ (labok_nil _) (kindrel_nonresult_normal (c := ⟨.normal, V⟩) hres rfl)
        | true =>
          simp only [ht, Bool.not_true, Bool.false_eq_true, if_false]
          refine loop_step_sim H1 H2 V (hB m b (L ++ [""]) (ls ++ iter) σ' result hwl)
            (ottoBody_nonresult S n _ _ _ _ _ hres) ?_
          intro r σ2 V' hr
          cases update with
          | none => exact hW m (some t) none b L ls iter σ2 r V' H1 H2 hwl hr
          | some u =>
            simp only
            cases S.evalE u σ2 with
            | throw v σ3 => exact sim_throw _ _ (labok_nil _)
            | ok v σ3 => exact hW m (some t) (some u) b L ls iter σ3 r V' H1 H2 hwl hr

end

end OttoVerif.C01
