/-
  C01/Spec — ES5 §12 statement semantics with completion records (type, value, target) and
  label SETS passed downwards, written from the standard.  Throw completions are the `throw`
  result (they propagate like exceptions until a `try` handles them).
-/
import OttoVerif.C01.Syntax
namespace OttoVerif.C01
variable {St : Type}

/-- completion type with its target (§8.9); "" is the `empty` target -/
inductive CT where
  | normal
  | brk (t : String)
  | cont (t : String)
  | ret
deriving DecidableEq, Repr, Inhabited

/-- completion record (type/target, value); `v = none` is the `empty` value -/
structure Comp where
  t : CT
  v : Option Val
deriving DecidableEq, Repr, Inhabited

inductive SR (St : Type) where
  | ok (c : Comp) (σ : St)
  | throw (v : Val) (σ : St)
  | fuel

def Comp.abrupt (c : Comp) : Bool := c.t != .normal

/-- V := if s.value is empty then previous V else s.value -/
def pick (newer older : Option Val) : Option Val :=
  match newer with
  | some v => some v
  | none => older

/-- index of the default clause -/
def sDefaultIdx : Cases → Nat → Option Nat
  | .nil, _ => none
  | .cons none _ _, i => some i
  | .cons (some _) _ cs, i => sDefaultIdx cs (i+1)

def sDropCases : Nat → Cases → Cases
  | 0, cs => cs
  | _+1, .nil => .nil
  | k+1, .cons _ _ cs => sDropCases k cs

inductive SFR (St : Type) where
  | found (idx : Option Nat) (σ : St)
  | throw (v : Val) (σ : St)

/-- §12.11 CaseBlock search: clause selectors are evaluated in source order (A then B clauses,
    the default clause has none) until one is === to the input -/
def sFindCase (S : Sem St) (input : Val) : Cases → Nat → St → SFR St
  | .nil, _, σ => .found none σ
  | .cons none _ cs, i, σ => sFindCase S input cs (i+1) σ
  | .cons (some t) _ cs, i, σ =>
    match S.evalE t σ with
    | .throw v σ' => .throw v σ'
    | .ok v σ' => if S.strictEq input v then .found (some i) σ' else sFindCase S input cs (i+1) σ'

/-- StatementList: (s.type, V, s.target) with V the newer value unless empty -/
def listWrap (older : Option Val) : SR St → SR St
  | .ok c2 σ2 => .ok ⟨c2.t, pick c2.v older⟩ σ2
  | r => r

/-- §12.12: (break, V, L) with L the label becomes (normal, V, empty) -/
def sLabelWrap (l : String) : SR St → SR St
  | .ok c σ' => if c.t = .brk l then .ok ⟨.normal, c.v⟩ σ' else .ok c σ'
  | r => r

def sExitWrap (S : Sem St) : SR St → SR St
  | .ok c' σ2 => .ok c' (S.catchExit σ2)
  | .throw v2 σ2 => .throw v2 (S.catchExit σ2)
  | .fuel => .fuel

/-- §12.10 step 8: "Set the running execution context's LexicalEnvironment to oldEnv" — whatever C is,
    "no matter how control leaves the embedded Statement, whether normally or by some form of abrupt
    completion or exception" -/
def sWithExitWrap (S : Sem St) : SR St → SR St
  | .ok c' σ2 => .ok c' (S.withExit σ2)
  | .throw v2 σ2 => .throw v2 (S.withExit σ2)
  | .fuel => .fuel

/-- §12.14 Catch: run the catch block in a new environment binding the parameter -/
def sCatchPhase (S : Sem St) (hasCatch : Bool) (param : String) (runC : St → SR St) : SR St → SR St
  | .throw v σ1 => if hasCatch then sExitWrap S (runC (S.catchEnter param v σ1)) else .throw v σ1
  | r => r

def sFinOver (c' : Comp) : SR St → SR St
  | .ok F σ3 => if F.t = .normal then .ok c' σ3 else .ok F σ3
  | r => r
def sFinOverThrow (v : Val) : SR St → SR St
  | .ok F σ3 => if F.t = .normal then .throw v σ3 else .ok F σ3
  | r => r

/-- §12.14 Finally: F overrides unless it is normal -/
def sFinallyPhase (hasFin : Bool) (runF : St → SR St) : SR St → SR St
  | .fuel => .fuel
  | .ok c' σ2 => if hasFin then sFinOver c' (runF σ2) else .ok c' σ2
  | .throw v σ2 => if hasFin then sFinOverThrow v (runF σ2) else .throw v σ2

/-- iteration statements, step e/f of §12.6.x: what to do with the body's completion `stmt` -/
def sLoopStep (cls : List String) (V : Option Val) (again : Option Val → St → SR St) : SR St → SR St
  | .ok stmt σ2 =>
    let V' := pick stmt.v V
    match stmt.t with
    | .cont t => if cls.contains t then again V' σ2 else .ok stmt σ2
    | .brk t => if cls.contains t then .ok ⟨.normal, V'⟩ σ2 else .ok stmt σ2
    | .ret => .ok stmt σ2
    | .normal => again V' σ2
  | r => r

/-- §12.11 step: a break whose target is in the switch's label set completes it normally -/
def sSwitchWrap (cls : List String) : SR St → SR St
  | .ok R σ3 =>
    match R.t with
    | .brk t => if cls.contains t then .ok ⟨.normal, R.v⟩ σ3 else .ok R σ3
    | _ => .ok R σ3
  | r => r

mutual

/-- evaluate a statement whose label set is `ls` -/
def specS (S : Sem St) : Nat → List String → Stmt → St → SR St
  | 0, _, _, _ => .fuel
  | n+1, ls, s, σ =>
    match s with
    | .empty => .ok ⟨.normal, none⟩ σ                                   -- §12.3
    | .expr e =>                                                         -- §12.4
      match S.evalE e σ with
      | .ok v σ' => .ok ⟨.normal, some v⟩ σ'
      | .throw v σ' => .throw v σ'
    | .varS inits => specVars S n inits σ                                -- §12.2 (normal, empty, empty)
    | .block ss => specList S n ss σ                                     -- §12.1
    | .ifS c t e =>                                                      -- §12.5
      match S.evalE c σ with
      | .throw v σ' => .throw v σ'
      | .ok v σ' => if S.truthy v then specS S n [] t σ' else specS S n [] e σ'
    | .whileS c b => specWhile S n ("" :: ls) c b σ none                 -- §12.6.2
    | .doWhile b c => specDoWhile S n ("" :: ls) b c σ none              -- §12.6.1
    | .forS init test update b =>                                        -- §12.6.3
      match init with
      | none => specFor S n ("" :: ls) test update b σ none
      | some e =>
        match S.evalE e σ with
        | .throw v σ' => .throw v σ'
        | .ok _ σ' => specFor S n ("" :: ls) test update b σ' none
    | .labelled l s =>                                                   -- §12.12
      sLabelWrap l (specS S n (l :: ls) s σ)
    | .brk t => .ok ⟨.brk t, none⟩ σ                                     -- §12.8
    | .cont t => .ok ⟨.cont t, none⟩ σ                                   -- §12.7
    | .ret none => .ok ⟨.ret, some .undef⟩ σ                             -- §12.9
    | .ret (some e) =>
      match S.evalE e σ with
      | .ok v σ' => .ok ⟨.ret, some v⟩ σ'
      | .throw v σ' => .throw v σ'
    | .throwS e =>                                                       -- §12.13
      match S.evalE e σ with
      | .ok v σ' => .throw v σ'
      | .throw v σ' => .throw v σ'
    | .tryS b hasCatch param c hasFin f =>                               -- §12.14
      sFinallyPhase hasFin (fun σ2 => specList S n f σ2)
        (sCatchPhase S hasCatch param (fun σ1 => specList S n c σ1) (specList S n b σ))
    | .withS e b =>                                                      -- §12.10
      match S.evalE e σ with
      | .throw v σ' => .throw v σ'
      | .ok v σ' =>
        match S.withEnter v σ' with                                      -- steps 2–5: ToObject, NewObjectEnvironment
        | .throw t σ2 => .throw t σ2
        | .ok _ σ2 => sWithExitWrap S (specS S n [] b σ2)                -- steps 6–9
    | .switchS d cs =>                                                   -- §12.11
      match S.evalE d σ with
      | .throw v σ' => .throw v σ'
      | .ok input σ' =>
        match sFindCase S input cs 0 σ' with
        | .throw v σ'' => .throw v σ''
        | .found idx σ'' =>
          let start := match idx with | some i => some i | none => sDefaultIdx cs 0
          match start with
          | none => .ok ⟨.normal, none⟩ σ''
          | some k =>
            sSwitchWrap ("" :: ls) (specCases S n (sDropCases k cs) σ'' none)

def specVars (S : Sem St) : Nat → List Expr → St → SR St
  | 0, _, _ => .fuel
  | _+1, [], σ => .ok ⟨.normal, none⟩ σ
  | n+1, e :: es, σ =>
    match S.evalE e σ with
    | .throw v σ' => .throw v σ'
    | .ok _ σ' => specVars S n es σ'

/-- §12.1 StatementList (right-nested reading: V is the last non-empty value so far) -/
def specList (S : Sem St) : Nat → Stmts → St → SR St
  | 0, _, _ => .fuel
  | _+1, .nil, σ => .ok ⟨.normal, none⟩ σ
  | n+1, .cons s ss, σ =>
    match specS S n [] s σ with
    | .ok c σ' =>
      if c.abrupt then .ok c σ'
      else listWrap c.v (specList S n ss σ')
    | r => r

/-- §12.6.2 while; `cls` is the current label set including `empty` -/
def specWhile (S : Sem St) : Nat → List String → Expr → Stmt → St → Option Val → SR St
  | 0, _, _, _, _, _ => .fuel
  | n+1, cls, c, b, σ, V =>
    match S.evalE c σ with
    | .throw v σ' => .throw v σ'
    | .ok v σ' =>
      if !S.truthy v then .ok ⟨.normal, V⟩ σ'
      else sLoopStep cls V (fun V' σ2 => specWhile S n cls c b σ2 V') (specS S n [] b σ')

/-- §12.6.1 do-while -/
def specDoWhile (S : Sem St) : Nat → List String → Stmt → Expr → St → Option Val → SR St
  | 0, _, _, _, _, _ => .fuel
  | n+1, cls, b, c, σ, V =>
    let test (V' : Option Val) (σ2 : St) : SR St :=
      match S.evalE c σ2 with
      | .throw v σ3 => .throw v σ3
      | .ok v σ3 => if !S.truthy v then .ok ⟨.normal, V'⟩ σ3 else specDoWhile S n cls b c σ3 V'
    sLoopStep cls V test (specS S n [] b σ)

/-- §12.6.3 for (after the initialiser) -/
def specFor (S : Sem St) : Nat → List String → Option Expr → Option Expr → Stmt → St → Option Val → SR St
  | 0, _, _, _, _, _, _ => .fuel
  | n+1, cls, test, update, b, σ, V =>
    let upd (V' : Option Val) (σ2 : St) : SR St :=
      match update with
      | none => specFor S n cls test update b σ2 V'
      | some u =>
        match S.evalE u σ2 with
        | .throw v σ3 => .throw v σ3
        | .ok _ σ3 => specFor S n cls test update b σ3 V'
    let run (σ1 : St) : SR St := sLoopStep cls V upd (specS S n [] b σ1)
    match test with
    | none => run σ
    | some t =>
      match S.evalE t σ with
      | .throw v σ' => .throw v σ'
      | .ok v σ' => if !S.truthy v then .ok ⟨.normal, V⟩ σ' else run σ'

/-- §12.11: evaluate the clauses' statement lists in order from the selected clause -/
def specCases (S : Sem St) : Nat → Cases → St → Option Val → SR St
  | 0, _, _, _ => .fuel
  | _+1, .nil, σ, V => .ok ⟨.normal, V⟩ σ
  | n+1, .cons _ body cs, σ, V =>
    match specList S n body σ with
    | .ok R σ' =>
      let V' := pick R.v V
      if R.abrupt then .ok ⟨R.t, V'⟩ σ' else specCases S n cs σ' V'
    | r => r

end

/-- §14 Program: evaluate SourceElements (label set empty) -/
def specProgram (S : Sem St) (n : Nat) (ss : Stmts) (σ : St) : SR St := specList S n ss σ

end OttoVerif.C01
