/-
  C01/FnRefine — the abstraction from FnModel's data (otto's layout: ordered property maps with mode
  bits, stashes, references) to FnSpec's (ES5 environment records and objects), and the bottom-up
  refinement lemmas: the model's operations, run on a state σ, compute what the spec's operations
  compute on `absSt σ`.  Addresses are kept (object a ↦ object a, stash i ↦ environment i).
  The ledger is FnTheorems.lean.
-/
import OttoVerif.C01.FnModel
import OttoVerif.C01.CallTheorems
namespace OttoVerif.C01.FnRefine
open OttoVerif.C01
set_option linter.unusedSimpArgs false
set_option linter.unusedVariables false

/-! ## running the model's monad -/

@[simp] theorem pure_run {α : Type} (a : α) (σ : FnM.St) : (pure a : FnM.M α) σ = .ok a σ := rfl

@[simp] theorem bind_run {α β : Type} (m : FnM.M α) (f : α → FnM.M β) (σ : FnM.St) :
    (m >>= f) σ = match m σ with
      | .ok a σ' => f a σ'
      | .throw t σ' => .throw t σ'
      | .fuel => .fuel := rfl

@[simp] theorem getSt_run (σ : FnM.St) : FnM.getSt σ = .ok σ σ := rfl
@[simp] theorem chainFuel_run (σ : FnM.St) : FnM.chainFuel σ = .ok (σ.heap.length + 1) σ := rfl
@[simp] theorem stashFuel_run (σ : FnM.St) : FnM.stashFuel σ = .ok (σ.stashes.length + 1) σ := rfl

/-! ## the abstraction -/

def optName (s : String) : Option String := if s = "" then none else some s

def absKind : FnM.OVal → Fn.OKind
  | .none => .plain
  | .nodeFn node st => .func node st
  | .bindFn t th as => .bound t th as
  | .native n => .builtin n
  | .arguments ipn st => .args (ipn.map optName) st
  | .string _ => .plain
  | .error n => .error n

/-- properties otto's function objects carry beyond ES5 (`name`, `caller`; a bound function's
    `arguments` and `prototype`): they are not part of the abstraction -/
def hidden (v : FnM.OVal) (name : String) : Bool :=
  match v with
  | .nodeFn .. => name == "name" || name == "caller"
  | .bindFn .. => name == "name" || name == "caller" || name == "arguments" || name == "prototype"
  | .native _ => name == "name"
  | _ => false

def absProps (o : FnM.Obj) : List (String × FnM.Pty) := o.props.filter fun p => !hidden o.val p.1

def absObj (o : FnM.Obj) : Fn.Obj :=
  { props := (absProps o).map fun p => (p.1, p.2.value),
    proto := o.proto,
    kind := absKind o.val,
    dontEnum := ((absProps o).filter fun p => !p.2.e).map (·.1) }

def absDcl (ps : List (String × FnM.DclProp)) (outer : Option Nat) : Fn.Env :=
  { vars := ps.map fun p => (p.1, p.2.value),
    outer := outer,
    immut := (ps.filter fun p => !p.2.mutable_).map (·.1) }

def absStash : FnM.Stash → Fn.Env
  | .obj outer o => { vars := [], outer := outer, obj := some o }
  | .dcl outer ps => absDcl ps outer
  | .fn outer ps _ => absDcl ps outer

def absSt (σ : FnM.St) : Fn.St :=
  { heap := σ.heap.map absObj, envs := σ.stashes.map absStash, trace := σ.trace }

@[simp] theorem absSt_obj (σ : FnM.St) (a : Nat) : (absSt σ).obj? a = (σ.obj? a).map absObj := by
  simp [absSt, Fn.St.obj?, FnM.St.obj?]

@[simp] theorem absSt_heap_length (σ : FnM.St) : (absSt σ).heap.length = σ.heap.length := by simp [absSt]
@[simp] theorem absSt_envs_length (σ : FnM.St) : (absSt σ).envs.length = σ.stashes.length := by simp [absSt]

theorem lookupA_map {β γ : Type} (f : β → γ) (x : String) :
    ∀ l : List (String × β), Fn.lookupA x (l.map fun p => (p.1, f p.2)) = (Fn.lookupA x l).map f := by
  intro l
  induction l with
  | nil => rfl
  | cons p r ih =>
    obtain ⟨k, v⟩ := p
    simp only [List.map_cons, Fn.lookupA]
    split <;> simp [ih]

theorem lookupA_filter {β : Type} (q : String → Bool) (x : String) (hx : q x = true) :
    ∀ l : List (String × β), Fn.lookupA x (l.filter fun p => q p.1) = Fn.lookupA x l := by
  intro l
  induction l with
  | nil => rfl
  | cons p r ih =>
    obtain ⟨k, v⟩ := p
    simp only [List.filter_cons]
    by_cases hk : k = x
    · subst hk; simp [hx, Fn.lookupA]
    · by_cases hq : q k = true
      · simp [hq, Fn.lookupA, hk, ih]
      · simp [hq, Fn.lookupA, hk, ih]

/-- a name that otto's extra properties do not use, on objects that are not String wrappers (whose index
    properties are virtual in otto and materialised in FnSpec) -/
def Visible (σ : FnM.St) (x : String) : Prop :=
  ∀ a o, σ.obj? a = some o → hidden o.val x = false ∧ (∀ s, o.val ≠ .string s) ∧ Fn.lookupA x o.accs = none

/-! ### accessor properties are outside the abstraction: `absObj` has none, and the refinement lemmas are about names
    that are not accessor properties anywhere (third part of `Visible`) -/

theorem findAcc_abs (σ : FnM.St) (p : String) : ∀ (n a : Nat), Fn.findAcc (absSt σ) n a p = none := by
  intro n
  induction n with
  | zero => intro a; rfl
  | succ n ih =>
    intro a
    simp only [Fn.findAcc, absSt_obj]
    cases σ.obj? a with
    | none => rfl
    | some o =>
      simp only [Option.map_some]
      cases (Fn.lookupA p (absObj o).props).isSome with
      | true => rfl
      | false =>
        have : Fn.lookupA p (absObj o).accs = none := rfl
        simp only [Bool.false_eq_true, if_false, this]
        cases (absObj o).proto with
        | none => rfl
        | some q => exact ih q

theorem getProp_abs (σ : FnM.St) (a : Nat) (p : String) :
    Fn.getProp (absSt σ) (.ref a) p = Fn.getPropD (absSt σ) (.ref a) p := by
  simp only [Fn.getProp, findAcc_abs]

theorem putProp_abs (σ : FnM.St) (a : Nat) (p : String) (v : Fn.V) :
    Fn.putProp (absSt σ) (.ref a) p v = Fn.putPropD (absSt σ) (.ref a) p v := by
  simp only [Fn.putProp, findAcc_abs]

theorem delProp_abs (σ : FnM.St) (a : Nat) (p : String) :
    Fn.delProp (absSt σ) (.ref a) p = Fn.delPropD (absSt σ) (.ref a) p := by
  simp only [Fn.delProp, absSt_obj]
  cases σ.obj? a with
  | none => rfl
  | some o => rfl

theorem hasProp_abs (σ : FnM.St) (n a : Nat) (p : String) :
    Fn.hasProp (absSt σ) n a p = Fn.hasPropD (absSt σ) n a p := by
  simp only [Fn.hasProp, findAcc_abs, Option.isSome_none, Bool.or_false]

theorem absObj_lookup (o : FnM.Obj) (x : String) (hx : hidden o.val x = false) :
    Fn.lookupA x (absObj o).props = (Fn.lookupA x o.props).map (·.value) := by
  simp only [absObj, absProps]
  rw [lookupA_map (fun p : FnM.Pty => p.value)]
  rw [lookupA_filter (fun k => !hidden o.val k) x (by simp [hx])]

/-! ## the model's read operations as functions of the state -/

def dclGetP (σ : FnM.St) (i : Nat) (name : String) : Fn.V :=
  match Fn.lookupA name (FnM.dclProps σ i) with
  | none => .undef
  | some p => if !p.mutable_ && !p.readable then .undef else p.value

theorem dclGetBinding_run (σ σ' : FnM.St) (i : Nat) (name : String) :
    FnM.dclGetBinding σ i name false σ' = .ok (dclGetP σ i name) σ' := by
  unfold FnM.dclGetBinding dclGetP
  cases Fn.lookupA name (FnM.dclProps σ i) with
  | none => rfl
  | some p => by_cases h : (!p.mutable_ && !p.readable) = true <;> simp [h]

def mapGetP (σ : FnM.St) (o : FnM.Obj) (name : String) : Option Fn.V :=
  match o.val with
  | .arguments ipn stash =>
    (match FnM.arrayIndex name with
     | some index =>
       (match ipn[index]? with
        | some pn => if pn = "" then none else some (dclGetP σ stash pn)
        | none => none)
     | none => none)
  | _ => none

theorem argumentsMapGet_run (σ σ' : FnM.St) (o : FnM.Obj) (name : String) :
    FnM.argumentsMapGet σ o name σ' = .ok (mapGetP σ o name) σ' := by
  unfold FnM.argumentsMapGet mapGetP
  cases o.val <;> try rfl
  rename_i ipn stash
  cases FnM.arrayIndex name with
  | none => rfl
  | some index =>
    cases hp : ipn[index]? with
    | none => simp [hp]
    | some pn =>
      by_cases h : pn = ""
      · simp [hp, h]
      · simp [hp, h, dclGetBinding_run]

/-- objectClass.getOwnProperty as a function of the state -/
def ownP (σ : FnM.St) (a : Nat) (name : String) : Option FnM.Pty :=
  match σ.obj? a with
  | none => none
  | some o =>
    let own := Fn.lookupA name o.props
    match o.val with
    | .arguments _ _ =>
      (match own, mapGetP σ o name with
       | some p, some v => some { p with value := v }
       | _, _ => own)
    | .string s =>
      (match own with
       | some p => some p
       | none =>
         match FnM.arrayIndex name with
         | some index => (match s.toList[index]? with
           | some ch => some (FnM.p000 (.str (String.singleton ch)))
           | none => none)
         | none => none)
    | _ => own

theorem getOwnProperty_run (σ : FnM.St) (a : Nat) (name : String) :
    FnM.getOwnProperty a name σ = .ok (ownP σ a name) σ := by
  unfold FnM.getOwnProperty ownP
  simp only [bind_run, getSt_run]
  cases ho : σ.obj? a with
  | none => rfl
  | some o =>
    simp only []
    cases hv : o.val with
    | arguments ipn stash =>
      simp only [bind_run, argumentsMapGet_run]
      cases Fn.lookupA name o.props <;> cases mapGetP σ o name <;> rfl
    | string s =>
      cases Fn.lookupA name o.props with
      | some p => rfl
      | none =>
        simp only []
        cases FnM.arrayIndex name with
        | none => rfl
        | some index => simp only []; cases s.toList[index]? <;> rfl
    | none => rfl
    | nodeFn _ _ => rfl
    | bindFn _ _ _ => rfl
    | native _ => rfl
    | error _ => rfl

theorem findAccM_run (σ : FnM.St) (x : String) (hv : Visible σ x) :
    ∀ (n a : Nat), FnM.findAcc n a x σ = .ok none σ := by
  intro n
  induction n with
  | zero => intro a; rfl
  | succ n ih =>
    intro a
    simp only [FnM.findAcc, bind_run, getOwnProperty_run]
    cases ownP σ a x with
    | some p => simp
    | none =>
      simp only [Option.isSome_none, Bool.false_eq_true, if_false, bind_run, getSt_run]
      cases ho : σ.obj? a with
      | none => rfl
      | some o =>
        have := (hv a o ho).2.2
        simp only [this]
        cases o.proto with
        | none => rfl
        | some q => exact ih q

theorem objGetA_run (σ : FnM.St) (x : String) (hv : Visible σ x) (a : Nat) (prim : Option Fn.V) :
    FnM.objGetA a x prim σ = FnM.objGet a x σ := by
  simp only [FnM.objGetA, bind_run, chainFuel_run, findAccM_run σ x hv]

theorem objPutA_run (σ : FnM.St) (x : String) (hv : Visible σ x) (a : Nat) (v : Fn.V) (prim : Option Fn.V) :
    FnM.objPutA a x v prim σ = FnM.objPut a x v false σ := by
  simp only [FnM.objPutA, bind_run, chainFuel_run, findAccM_run σ x hv]

theorem objDeleteA_run (σ : FnM.St) (x : String) (hv : Visible σ x) (a : Nat) :
    FnM.objDeleteA a x σ = FnM.objDelete a x false σ := by
  simp only [FnM.objDeleteA, bind_run, getSt_run]
  cases ho : σ.obj? a with
  | none => rfl
  | some o =>
    have := (hv a o ho).2.2
    simp only [this]

def getPropertyP (σ : FnM.St) : Nat → Nat → String → Option FnM.Pty
  | 0, _, _ => none
  | n+1, a, name =>
    match ownP σ a name with
    | some p => some p
    | none =>
      match σ.obj? a with
      | some o => (match o.proto with
        | some q => getPropertyP σ n q name
        | none => none)
      | none => none

theorem getProperty_run (σ : FnM.St) (name : String) :
    ∀ (n a : Nat), FnM.getProperty n a name σ = .ok (getPropertyP σ n a name) σ := by
  intro n
  induction n with
  | zero => intro a; rfl
  | succ n ih =>
    intro a
    simp only [FnM.getProperty, getPropertyP, bind_run, getOwnProperty_run]
    cases ownP σ a name with
    | some p => rfl
    | none =>
      cases ho : σ.obj? a with
      | none => simp only [bind_run, getSt_run, ho, pure_run]
      | some o =>
        cases hq : o.proto with
        | none => simp only [bind_run, getSt_run, ho, hq, pure_run]
        | some q => simp only [bind_run, getSt_run, ho, hq]; exact ih q

theorem hasProperty_run (σ : FnM.St) (a : Nat) (name : String) :
    FnM.hasProperty a name σ = .ok (getPropertyP σ (σ.heap.length + 1) a name).isSome σ := by
  simp [FnM.hasProperty, getProperty_run]

/-- objectClass.get as a function of the state -/
def getP (σ : FnM.St) (a : Nat) (name : String) : Fn.V :=
  match (match σ.obj? a with | some o => mapGetP σ o name | none => none) with
  | some v => v
  | none => match getPropertyP σ (σ.heap.length + 1) a name with
    | some p => p.value
    | none => .undef

theorem objGet_run (σ : FnM.St) (a : Nat) (name : String) :
    FnM.objGet a name σ = .ok (getP σ a name) σ := by
  unfold FnM.objGet getP
  simp only [bind_run, getSt_run]
  cases ho : σ.obj? a with
  | none => simp [getProperty_run]; cases getPropertyP σ (σ.heap.length + 1) a name <;> rfl
  | some o =>
    simp only [argumentsMapGet_run]
    cases mapGetP σ o name with
    | some v => rfl
    | none => simp [getProperty_run]; cases getPropertyP σ (σ.heap.length + 1) a name <;> rfl

theorem ownP_isSome (σ : FnM.St) (a : Nat) (o : FnM.Obj) (x : String) (ho : σ.obj? a = some o)
    (hs : ∀ s, o.val ≠ .string s) : (ownP σ a x).isSome = (Fn.lookupA x o.props).isSome := by
  unfold ownP
  simp only [ho]
  cases hv : o.val with
  | string s => exact absurd hv (hs s)
  | arguments ipn stash => cases Fn.lookupA x o.props <;> cases mapGetP σ o x <;> rfl
  | none => rfl
  | nodeFn _ _ => rfl
  | bindFn _ _ _ => rfl
  | native _ => rfl
  | error _ => rfl

/-- [[HasProperty]]: otto's getProperty walk finds a property iff ES5's does on the abstraction -/
theorem hasProperty_spec (σ : FnM.St) (x : String) (hv : Visible σ x) :
    ∀ (n a : Nat), (getPropertyP σ n a x).isSome = Fn.hasProp (absSt σ) n a x := by
  intro n
  simp only [hasProp_abs]
  induction n with
  | zero => intro a; rfl
  | succ n ih =>
    intro a
    simp only [getPropertyP, Fn.hasPropD, absSt_obj]
    cases ho : σ.obj? a with
    | none => simp [ownP, ho]
    | some o =>
      have ⟨hh, hs, hac⟩ := hv a o ho
      have h1 := ownP_isSome σ a o x ho hs
      simp only [Option.map_some, absObj_lookup o x hh]
      cases hown : ownP σ a x with
      | some p =>
        rw [hown] at h1
        cases hl : Fn.lookupA x o.props with
        | none => rw [hl] at h1; simp at h1
        | some q => simp
      | none =>
        rw [hown] at h1
        cases hl : Fn.lookupA x o.props with
        | some q => rw [hl] at h1; simp at h1
        | none =>
          simp only [Option.map_none]
          have : (absObj o).proto = o.proto := rfl
          rw [this]
          cases o.proto with
          | none => rfl
          | some q => exact ih q

def hasBindingP (σ : FnM.St) (i : Nat) (x : String) : Bool :=
  match σ.stash? i with
  | some (.obj _ o) => (getPropertyP σ (σ.heap.length + 1) o x).isSome
  | some (.dcl _ ps) => (Fn.lookupA x ps).isSome
  | some (.fn _ ps _) => (Fn.lookupA x ps).isSome
  | none => false

theorem hasBinding_run (σ : FnM.St) (i : Nat) (x : String) :
    FnM.hasBinding i x σ = .ok (hasBindingP σ i x) σ := by
  unfold FnM.hasBinding hasBindingP
  simp only [bind_run, getSt_run]
  cases σ.stash? i with
  | none => rfl
  | some st => cases st <;> simp [hasProperty_run]

theorem getIdRef_none (x : String) (σ : FnM.St) : ∀ n, FnM.getIdentifierReference n none x σ = .ok (.prop none x) σ := by
  intro n; cases n <;> rfl

/-- the reference otto makes for the environment ES5 resolves to -/
def refOf (σ : FnM.St) (x : String) (res : Option Nat) : FnM.Ref :=
  match res with
  | none => .prop none x
  | some j => FnM.newReference σ j x

/-- the global environment is stash 0, an object stash over the global object with no outer stash -/
def WF0 (σ : FnM.St) : Prop := σ.stash? 0 = some (.obj none FnM.gObj)

theorem absSt_env (σ : FnM.St) (i : Nat) : (absSt σ).envs[i]? = (σ.stash? i).map absStash := by
  simp [absSt, FnM.St.stash?]

/-- **identifier resolution**: getIdentifierReference on otto's stash chain yields the reference for the
    environment record that §10.2.2.1 GetIdentifierReference finds on the abstraction (declarative, object
    (`with`) and global records) -/
theorem resolve_spec (σ : FnM.St) (x : String) (hv : Visible σ x) (h0 : WF0 σ) :
    ∀ (n i : Nat), FnM.getIdentifierReference n (some i) x σ = .ok (refOf σ x (Fn.envResolve (absSt σ) n i x)) σ := by
  intro n
  induction n with
  | zero => intro i; rfl
  | succ n ih =>
    intro i
    simp only [FnM.getIdentifierReference, bind_run, hasBinding_run, Fn.envResolve, absSt_heap_length]
    by_cases hi : i = 0
    · subst hi
      have hb : hasBindingP σ 0 x = Fn.hasProp (absSt σ) (σ.heap.length + 1) Fn.gObj x := by
        have h0' : σ.stash? 0 = some (.obj none FnM.gObj) := h0
        simp only [hasBindingP, h0']
        exact hasProperty_spec σ x hv _ _
      rw [hb]
      cases hh : Fn.hasProp (absSt σ) (σ.heap.length + 1) Fn.gObj x with
      | true => simp [refOf]
      | false =>
        have h0' : σ.stash? 0 = some (.obj none FnM.gObj) := h0
        have : FnM.stashOuter σ 0 = none := by simp [FnM.stashOuter, h0']
        simp [this, getIdRef_none, refOf]
    · simp only [hi, if_false, absSt_env]
      cases hs : σ.stash? i with
      | none =>
        have : FnM.stashOuter σ i = none := by simp [FnM.stashOuter, hs]
        simp [hasBindingP, hs, this, getIdRef_none, refOf]
      | some st =>
        cases st with
        | obj outer o =>
          have hb : hasBindingP σ i x = Fn.hasProp (absSt σ) (σ.heap.length + 1) o x := by
            simp only [hasBindingP, hs]; exact hasProperty_spec σ x hv _ _
          have ho : FnM.stashOuter σ i = outer := by simp [FnM.stashOuter, hs]
          simp only [Option.map_some, absStash, hb]
          cases hh : Fn.hasProp (absSt σ) (σ.heap.length + 1) o x with
          | true => simp [refOf]
          | false =>
            simp only [Bool.false_eq_true, if_false, bind_run, getSt_run, ho]
            cases outer with
            | none => simp [getIdRef_none, refOf]
            | some j => exact ih j
        | dcl outer ps =>
          have hb : hasBindingP σ i x = (Fn.lookupA x ps).isSome := by simp [hasBindingP, hs]
          have ho : FnM.stashOuter σ i = outer := by simp [FnM.stashOuter, hs]
          simp only [Option.map_some, absStash, absDcl, hb, lookupA_map (fun p : FnM.DclProp => p.value), Option.isSome_map]
          cases hh : (Fn.lookupA x ps).isSome with
          | true => simp [refOf]
          | false =>
            simp only [Bool.false_eq_true, if_false, bind_run, getSt_run, ho]
            cases outer with
            | none => simp [getIdRef_none, refOf]
            | some j => exact ih j
        | fn outer ps ar =>
          have hb : hasBindingP σ i x = (Fn.lookupA x ps).isSome := by simp [hasBindingP, hs]
          have ho : FnM.stashOuter σ i = outer := by simp [FnM.stashOuter, hs]
          simp only [Option.map_some, absStash, absDcl, hb, lookupA_map (fun p : FnM.DclProp => p.value), Option.isSome_map]
          cases hh : (Fn.lookupA x ps).isSome with
          | true => simp [refOf]
          | false =>
            simp only [Bool.false_eq_true, if_false, bind_run, getSt_run, ho]
            cases outer with
            | none => simp [getIdRef_none, refOf]
            | some j => exact ih j

/-! ## [[Get]], GetValue -/

/-- no object inherits from an arguments object (FnSpec's getChain reads STORED values on prototypes) -/
def NoArgsProto (σ : FnM.St) : Prop :=
  ∀ a o q oq, σ.obj? a = some o → o.proto = some q → σ.obj? q = some oq → ∀ ipn st, oq.val ≠ .arguments ipn st

theorem mapGetP_none_of_not_args (σ : FnM.St) (o : FnM.Obj) (x : String)
    (h : ∀ ipn st, o.val ≠ .arguments ipn st) : mapGetP σ o x = none := by
  unfold mapGetP
  cases hv : o.val with
  | arguments ipn st => exact absurd hv (h ipn st)
  | _ => rfl

theorem ownP_of_unmapped (σ : FnM.St) (a : Nat) (o : FnM.Obj) (x : String) (ho : σ.obj? a = some o)
    (hs : ∀ s, o.val ≠ .string s) (hm : mapGetP σ o x = none) : ownP σ a x = Fn.lookupA x o.props := by
  unfold ownP
  simp only [ho]
  cases hv : o.val with
  | string s => exact absurd hv (hs s)
  | arguments ipn stash => rw [hm]; cases Fn.lookupA x o.props <;> rfl
  | _ => rfl

/-- [[Get]] along the prototype chain when the base's own property is not a mapped arguments index -/
theorem getChain_spec (σ : FnM.St) (x : String) (hv : Visible σ x) (hnp : NoArgsProto σ) :
    ∀ (n a : Nat), (∀ o, σ.obj? a = some o → mapGetP σ o x = none) →
      Fn.getChain (absSt σ) n a x = ((getPropertyP σ n a x).map (·.value)).getD .undef := by
  intro n
  induction n with
  | zero => intro a _; rfl
  | succ n ih =>
    intro a hm
    simp only [Fn.getChain, getPropertyP, absSt_obj]
    cases ho : σ.obj? a with
    | none => simp [ownP, ho]
    | some o =>
      have ⟨hh, hs, hac⟩ := hv a o ho
      rw [ownP_of_unmapped σ a o x ho hs (hm o ho)]
      simp only [Option.map_some, absObj_lookup o x hh]
      cases hl : Fn.lookupA x o.props with
      | some p => simp
      | none =>
        simp only [Option.map_none]
        have : (absObj o).proto = o.proto := rfl
        rw [this]
        cases hq : o.proto with
        | none => rfl
        | some q =>
          simp only []
          apply ih q
          intro oq hoq
          exact mapGetP_none_of_not_args σ oq x (hnp a o q oq ho hq hoq)

/-- the parameter map of every arguments object points at mutable bindings of a declarative stash -/
def ArgsWF (σ : FnM.St) : Prop :=
  ∀ a o ipn st, σ.obj? a = some o → o.val = .arguments ipn st →
    st ≠ 0 ∧ ∀ (i : Nat) (pn : String), ipn[i]? = some pn → pn ≠ "" →
      ∃ p, Fn.lookupA pn (FnM.dclProps σ st) = some p ∧ p.mutable_ = true

theorem dclProps_abs (σ : FnM.St) (st : Nat) (pn : String) (p : FnM.DclProp)
    (h : Fn.lookupA pn (FnM.dclProps σ st) = some p) :
    ∃ e, (absSt σ).envs[st]? = some e ∧ Fn.lookupA pn e.vars = some p.value ∧ e.obj = none := by
  have key : ∀ (ps : List (String × FnM.DclProp)) (outer : Option Nat), Fn.lookupA pn ps = some p →
      Fn.lookupA pn (absDcl ps outer).vars = some p.value ∧ (absDcl ps outer).obj = none := by
    intro ps outer hl
    refine ⟨?_, rfl⟩
    simp only [absDcl]; rw [lookupA_map (fun q : FnM.DclProp => q.value)]; simp [hl]
  simp only [absSt_env]
  unfold FnM.dclProps at h
  cases hs : σ.stash? st with
  | none => simp [hs, Fn.lookupA] at h
  | some s0 =>
    cases s0 with
    | obj o ob => simp [hs, Fn.lookupA] at h
    | dcl outer ps =>
      simp only [hs] at h
      exact ⟨absDcl ps outer, by simp [absStash], key ps outer h⟩
    | fn outer ps ar =>
      simp only [hs] at h
      exact ⟨absDcl ps outer, by simp [absStash], key ps outer h⟩

theorem envLookup_bound (σ : FnM.St) (st : Nat) (pn : String) (p : FnM.DclProp) (hst : st ≠ 0)
    (h : Fn.lookupA pn (FnM.dclProps σ st) = some p) (n : Nat) :
    Fn.envLookup (absSt σ) (n+1) st pn = some p.value := by
  obtain ⟨e, he, hl, _⟩ := dclProps_abs σ st pn p h
  simp [Fn.envLookup, hst, he, hl]

/-- an Error object made from an ottoError of class n reads its `name` (from its prototype) as n -/
def ErrWF (σ : FnM.St) : Prop :=
  ∀ a o n, σ.obj? a = some o → o.val = .error n → getP σ a "name" = .str n

/-- **[[Get]]** (§8.12.3, §10.6): otto's objectClass.get = ES5's on the abstraction, the arguments
    object's parameter map included -/
theorem getProp_spec (σ : FnM.St) (a : Nat) (x : String) (hv : Visible σ x) (hnp : NoArgsProto σ) (haw : ArgsWF σ)
    (hew : ErrWF σ) :
    Fn.getProp (absSt σ) (.ref a) x = .ok (getP σ a x) (absSt σ) := by
  rw [getProp_abs]
  unfold Fn.getPropD getP
  simp only [absSt_obj, absSt_heap_length, absSt_envs_length]
  cases ho : σ.obj? a with
  | none => simp [getPropertyP, ownP, ho]
  | some o =>
    simp only [Option.map_some]
    cases hval : o.val with
    | arguments ipn st =>
      have ⟨hst, hmap⟩ := haw a o ipn st ho hval
      have hk : (absObj o).kind = .args (ipn.map optName) st := by simp [absObj, absKind, hval]
      simp only [hk]
      cases hidx : Fn.idx? x with
      | none =>
        have hm : mapGetP σ o x = none := by simp [mapGetP, hval, FnM.arrayIndex, hidx]
        simp only [hm]
        rw [getChain_spec σ x hv hnp _ a (by intro o' ho'; rw [ho] at ho'; cases ho'; exact hm)]
        cases getPropertyP σ (σ.heap.length + 1) a x <;> rfl
      | some i =>
        cases hpn : ipn[i]? with
        | none =>
          have hm : mapGetP σ o x = none := by simp [mapGetP, hval, FnM.arrayIndex, hidx, hpn]
          simp only [hm, List.getElem?_map, hpn, Option.map_none]
          rw [getChain_spec σ x hv hnp _ a (by intro o' ho'; rw [ho] at ho'; cases ho'; exact hm)]
          cases getPropertyP σ (σ.heap.length + 1) a x <;> rfl
        | some pn =>
          by_cases hpe : pn = ""
          · have hm : mapGetP σ o x = none := by simp [mapGetP, hval, FnM.arrayIndex, hidx, hpn, hpe]
            simp only [hm, List.getElem?_map, hpn, Option.map_some, optName, hpe, if_true]
            rw [getChain_spec σ x hv hnp _ a (by intro o' ho'; rw [ho] at ho'; cases ho'; exact hm)]
            cases getPropertyP σ (σ.heap.length + 1) a x <;> rfl
          · obtain ⟨p, hp, hmut⟩ := hmap i pn hpn hpe
            have hm : mapGetP σ o x = some (dclGetP σ st pn) := by simp [mapGetP, hval, FnM.arrayIndex, hidx, hpn, hpe]
            simp only [hm, List.getElem?_map, hpn, Option.map_some, optName, hpe, if_false]
            rw [envLookup_bound σ st pn p hst hp]
            simp [dclGetP, hp, hmut]
    | error n =>
      have hm : mapGetP σ o x = none := by simp [mapGetP, hval]
      have hk : (absObj o).kind = .error n := by simp [absObj, absKind, hval]
      simp only [hm, hk]
      by_cases hx : x = "name"
      · subst hx
        have := hew a o n ho hval
        simp only [getP, ho, hm] at this
        simp [this]
      · simp only [hx, if_false]
        rw [getChain_spec σ x hv hnp _ a (by intro o' ho'; rw [ho] at ho'; cases ho'; exact hm)]
        cases getPropertyP σ (σ.heap.length + 1) a x <;> rfl
    | none =>
      have hm : mapGetP σ o x = none := by simp [mapGetP, hval]
      have hk : (absObj o).kind = .plain := by simp [absObj, absKind, hval]
      simp only [hm, hk]
      rw [getChain_spec σ x hv hnp _ a (by intro o' ho'; rw [ho] at ho'; cases ho'; exact hm)]
      cases getPropertyP σ (σ.heap.length + 1) a x <;> rfl
    | string s =>
      have hm : mapGetP σ o x = none := by simp [mapGetP, hval]
      have hk : (absObj o).kind = .plain := by simp [absObj, absKind, hval]
      simp only [hm, hk]
      rw [getChain_spec σ x hv hnp _ a (by intro o' ho'; rw [ho] at ho'; cases ho'; exact hm)]
      cases getPropertyP σ (σ.heap.length + 1) a x <;> rfl
    | nodeFn nd st =>
      have hm : mapGetP σ o x = none := by simp [mapGetP, hval]
      have hk : (absObj o).kind = .func nd st := by simp [absObj, absKind, hval]
      simp only [hm, hk]
      rw [getChain_spec σ x hv hnp _ a (by intro o' ho'; rw [ho] at ho'; cases ho'; exact hm)]
      cases getPropertyP σ (σ.heap.length + 1) a x <;> rfl
    | bindFn t th as =>
      have hm : mapGetP σ o x = none := by simp [mapGetP, hval]
      have hk : (absObj o).kind = .bound t th as := by simp [absObj, absKind, hval]
      simp only [hm, hk]
      rw [getChain_spec σ x hv hnp _ a (by intro o' ho'; rw [ho] at ho'; cases ho'; exact hm)]
      cases getPropertyP σ (σ.heap.length + 1) a x <;> rfl
    | native nm =>
      have hm : mapGetP σ o x = none := by simp [mapGetP, hval]
      have hk : (absObj o).kind = .builtin nm := by simp [absObj, absKind, hval]
      simp only [hm, hk]
      rw [getChain_spec σ x hv hnp _ a (by intro o' ho'; rw [ho] at ho'; cases ho'; exact hm)]
      cases getPropertyP σ (σ.heap.length + 1) a x <;> rfl

/-- results: a Go panic carrying an ottoError corresponds to ES5 throwing a fresh Error object -/
def absR {α : Type} : FnM.R α → Fn.Res α
  | .ok a σ => .ok a (absSt σ)
  | .throw (.val v) σ => .throw v (absSt σ)
  | .throw (.err n) σ => Fn.throwErr (absSt σ) n
  | .fuel => .fuel

/-- every binding of a declarative stash can be read (mutable, or the readable immutable binding of a
    named function expression) -/
def StashReadable (σ : FnM.St) : Prop :=
  ∀ j x p, Fn.lookupA x (FnM.dclProps σ j) = some p → p.mutable_ = true ∨ p.readable = true

theorem newReference_obj (σ : FnM.St) (j : Nat) (x : String) (outer : Option Nat) (o : Nat)
    (h : σ.stash? j = some (.obj outer o)) : FnM.newReference σ j x = .prop (some o) x := by
  simp [FnM.newReference, h]

/-- **GetValue on an identifier reference** (§8.7.1 with §10.2.1.1.4 / §10.2.1.2.4): what otto reads through
    the reference it made = what ES5 reads from the environment record it resolved to -/
theorem getValue_ident_spec (σ : FnM.St) (x : String) (hv : Visible σ x) (h0 : WF0 σ) (hnp : NoArgsProto σ)
    (haw : ArgsWF σ) (hew : ErrWF σ) (hsr : StashReadable σ) (j : Nat) :
    absR (FnM.refGetValue (FnM.newReference σ j x) σ) = Fn.envGet (absSt σ) j x := by
  unfold Fn.envGet
  by_cases hj : j = 0
  · subst hj
    have h0' : σ.stash? 0 = some (.obj none FnM.gObj) := h0
    rw [newReference_obj σ 0 x none FnM.gObj h0']
    simp only [FnM.refGetValue, objGetA_run σ x hv, objGet_run, absR, if_true]
    exact (getProp_spec σ FnM.gObj x hv hnp haw hew).symm
  · simp only [hj, if_false, absSt_env]
    cases hs : σ.stash? j with
    | none => simp [FnM.newReference, hs, FnM.refGetValue, FnM.getBinding, absR]
    | some st =>
      cases st with
      | obj outer o =>
        rw [newReference_obj σ j x outer o hs]
        simp only [FnM.refGetValue, objGetA_run σ x hv, objGet_run, absR, Option.map_some, absStash]
        exact (getProp_spec σ o x hv hnp haw hew).symm
      | dcl outer ps =>
        have hd : FnM.dclProps σ j = ps := by simp [FnM.dclProps, hs]
        simp only [FnM.newReference, hs, FnM.refGetValue, FnM.getBinding, bind_run, getSt_run, dclGetBinding_run, absR,
          Option.map_some, absStash, absDcl]
        rw [lookupA_map (fun q : FnM.DclProp => q.value)]
        simp only [dclGetP, hd]
        cases hl : Fn.lookupA x ps with
        | none => rfl
        | some p =>
          have := hsr j x p (by rw [hd]; exact hl)
          rcases this with h | h <;> simp [h]
      | fn outer ps ar =>
        have hd : FnM.dclProps σ j = ps := by simp [FnM.dclProps, hs]
        simp only [FnM.newReference, hs, FnM.refGetValue, FnM.getBinding, bind_run, getSt_run, dclGetBinding_run, absR,
          Option.map_some, absStash, absDcl]
        rw [lookupA_map (fun q : FnM.DclProp => q.value)]
        simp only [dclGetP, hd]
        cases hl : Fn.lookupA x ps with
        | none => rfl
        | some p =>
          have := hsr j x p (by rw [hd]; exact hl)
          rcases this with h | h <;> simp [h]

/-- an unresolvable reference: otto panics with a ReferenceError, ES5 throws one -/
theorem getValue_unresolvable_spec (σ : FnM.St) (x : String) :
    absR (FnM.refGetValue (.prop none x) σ) = (Fn.throwErr (absSt σ) "ReferenceError" : Fn.Res Fn.V) := rfl

/-! ## [[Put]], PutValue -/

theorem updateA_map {β γ : Type} (f : β → γ) (x : String) (v : β) :
    ∀ l : List (String × β), (Fn.updateA x v l).map (fun p => (p.1, f p.2)) = Fn.updateA x (f v) (l.map fun p => (p.1, f p.2)) := by
  intro l
  induction l with
  | nil => rfl
  | cons p r ih =>
    obtain ⟨k, w⟩ := p
    simp only [Fn.updateA, List.map_cons]
    split <;> simp [ih]

theorem updateA_filter {β : Type} (q : String → Bool) (x : String) (v : β) (hx : q x = true) :
    ∀ l : List (String × β), (Fn.updateA x v l).filter (fun p => q p.1) = Fn.updateA x v (l.filter fun p => q p.1) := by
  intro l
  induction l with
  | nil => rfl
  | cons p r ih =>
    obtain ⟨k, w⟩ := p
    by_cases hk : k = x
    · subst hk; simp [Fn.updateA, hx]
    · by_cases hq : q k = true
      · simp [Fn.updateA, hk, hq, ih]
      · simp [Fn.updateA, hk, hq, ih]

theorem updateA_sameflag (x : String) (d : FnM.Pty) :
    ∀ (l : List (String × FnM.Pty)) (p0 : FnM.Pty), Fn.lookupA x l = some p0 → d.e = p0.e →
      ((Fn.updateA x d l).filter fun p => !p.2.e).map (·.1) = (l.filter fun p => !p.2.e).map (·.1) := by
  intro l
  induction l with
  | nil => intro p0 h; simp [Fn.lookupA] at h
  | cons p r ih =>
    intro p0 h he
    obtain ⟨k, w⟩ := p
    by_cases hk : k = x
    · subst hk
      simp only [Fn.lookupA, if_true] at h
      cases h
      simp only [Fn.updateA, if_true, List.filter_cons, he]
      cases p0.e <;> simp
    · simp only [Fn.lookupA, hk, if_false] at h
      simp only [Fn.updateA, hk, if_false, List.filter_cons]
      cases w.e <;> simp [ih p0 h he]

theorem absObj_update (o : FnM.Obj) (x : String) (d p0 : FnM.Pty) (hh : hidden o.val x = false)
    (hl : Fn.lookupA x o.props = some p0) (he : d.e = p0.e) :
    absObj { o with props := Fn.updateA x d o.props } = { absObj o with props := Fn.updateA x d.value (absObj o).props } := by
  have hq : (fun k => !hidden o.val k) x = true := by simp [hh]
  simp only [absObj, absProps]
  congr 1
  · rw [updateA_filter (fun k => !hidden o.val k) x d hq, updateA_map (fun p : FnM.Pty => p.value)]
  · rw [updateA_filter (fun k => !hidden o.val k) x d hq]
    apply updateA_sameflag x d _ p0 _ he
    rw [lookupA_filter (fun k => !hidden o.val k) x hq]; exact hl

theorem absObj_append (o : FnM.Obj) (x : String) (d : FnM.Pty) (hh : hidden o.val x = false) (he : d.e = true) :
    absObj { o with props := o.props ++ [(x, d)] } = { absObj o with props := (absObj o).props ++ [(x, d.value)] } := by
  simp [absObj, absProps, List.filter_append, hh, he]

theorem setNth_map {β γ : Type} (f : β → γ) : ∀ (l : List β) (a : Nat) (b : β),
    (Fn.setNth l a b).map f = Fn.setNth (l.map f) a (f b) := by
  intro l
  induction l with
  | nil => intro a b; rfl
  | cons h t ih => intro a b; cases a <;> simp [Fn.setNth, ih]

theorem absSt_setObj (σ : FnM.St) (a : Nat) (o : FnM.Obj) :
    absSt { σ with heap := Fn.setNth σ.heap a o } = (absSt σ).setObj a (absObj o) := by
  simp [absSt, Fn.St.setObj, setNth_map]

/-- prototypes are older than the objects that inherit from them (a prototype link is only ever set to an
    existing object, at or right after allocation) -/
def ProtoDesc (σ : FnM.St) : Prop := ∀ a o q, σ.obj? a = some o → o.proto = some q → q < a

theorem getPropertyP_fuel (σ : FnM.St) (x : String) (hd : ProtoDesc σ) :
    ∀ (n a : Nat), a < n → getPropertyP σ n a x = getPropertyP σ (n+1) a x := by
  intro n
  induction n with
  | zero => intro a h; omega
  | succ n ih =>
    intro a ha
    rw [getPropertyP, getPropertyP]
    cases ownP σ a x with
    | some p => rfl
    | none =>
      cases ho : σ.obj? a with
      | none => rfl
      | some o =>
        cases hq : o.proto with
        | none => simp [hq]
        | some q =>
          have := hd a o q ho hq
          simp only [hq]
          exact ih q (by omega)

/-- objectCanPutDetails as a function of the state -/
def canPutP (σ : FnM.St) (a : Nat) (name : String) : Bool × Option FnM.Pty :=
  match ownP σ a name with
  | some p => (p.w, some p)
  | none =>
    match σ.obj? a with
    | none => (true, none)
    | some o =>
      match o.proto with
      | none => (true, none)
      | some q =>
        match getPropertyP σ (σ.heap.length + 1) q name with
        | none => (true, none)
        | some p => (p.w, none)

theorem canPutDetails_run (σ : FnM.St) (a : Nat) (name : String) :
    FnM.canPutDetails a name σ = .ok (canPutP σ a name) σ := by
  unfold FnM.canPutDetails canPutP
  simp only [bind_run, getOwnProperty_run]
  cases ownP σ a name with
  | some p => rfl
  | none =>
    cases ho : σ.obj? a with
    | none => simp only [bind_run, getSt_run, ho, pure_run]
    | some o =>
      cases hq : o.proto with
      | none => simp only [bind_run, getSt_run, ho, hq, pure_run]
      | some q =>
        simp only [bind_run, getSt_run, ho, hq, chainFuel_run, getProperty_run]
        cases getPropertyP σ (σ.heap.length + 1) q name <;> rfl

/-- the writable bit of every (visible) property is what FnSpec's [[CanPut]] assumes: only the `length` of a
    function object is read-only -/
def WritableWF (σ : FnM.St) : Prop :=
  ∀ a o k p, σ.obj? a = some o → Fn.lookupA k o.props = some p → hidden o.val k = false →
    p.w = !(k == "length" && Fn.isFnKind (absKind o.val))

theorem ownP_w (σ : FnM.St) (a : Nat) (o : FnM.Obj) (x : String) (ho : σ.obj? a = some o)
    (hs : ∀ s, o.val ≠ .string s) :
    (ownP σ a x).map (·.w) = (Fn.lookupA x o.props).map (·.w) := by
  unfold ownP
  simp only [ho]
  cases hv : o.val with
  | string s => exact absurd hv (hs s)
  | arguments ipn stash => cases Fn.lookupA x o.props <;> cases mapGetP σ o x <;> rfl
  | _ => rfl

theorem canPut_chain (σ : FnM.St) (x : String) (hv : Visible σ x) (hw : WritableWF σ) :
    ∀ (n a : Nat), Fn.canPut (absSt σ) n a x = (match getPropertyP σ n a x with | some p => p.w | none => true) := by
  intro n
  induction n with
  | zero => intro a; rfl
  | succ n ih =>
    intro a
    simp only [Fn.canPut, getPropertyP, absSt_obj]
    cases ho : σ.obj? a with
    | none => simp [ownP, ho]
    | some o =>
      have ⟨hh, hs, hac⟩ := hv a o ho
      have h1 := ownP_w σ a o x ho hs
      simp only [Option.map_some, absObj_lookup o x hh]
      cases hown : ownP σ a x with
      | some p =>
        rw [hown] at h1
        cases hl : Fn.lookupA x o.props with
        | none => rw [hl] at h1; simp at h1
        | some q =>
          rw [hl] at h1
          simp only [Option.map_some, Option.some.injEq] at h1
          have := hw a o x q ho hl hh
          simp only [Option.map_some, h1, this]
          show (!(x == "length" && Fn.isFnKind (absKind o.val)) && !([] : List String).contains x) = _
          simp
      | none =>
        rw [hown] at h1
        cases hl : Fn.lookupA x o.props with
        | some q => rw [hl] at h1; simp at h1
        | none =>
          simp only [Option.map_none]
          have : (absObj o).proto = o.proto := rfl
          rw [this]
          cases o.proto with
          | none => rfl
          | some q => exact ih q

theorem canPutP_spec (σ : FnM.St) (a : Nat) (x : String) (hv : Visible σ x) (hw : WritableWF σ) (hd : ProtoDesc σ) :
    (canPutP σ a x).1 = Fn.canPut (absSt σ) (σ.heap.length + 1) a x := by
  rw [canPut_chain σ x hv hw]
  have e : getPropertyP σ (σ.heap.length + 1) a x =
      (match ownP σ a x with
       | some p => some p
       | none => match σ.obj? a with
         | some o => (match o.proto with
           | some q => getPropertyP σ σ.heap.length q x
           | none => none)
         | none => none) := by rw [getPropertyP] <;> rfl
  rw [e]
  unfold canPutP
  cases hown : ownP σ a x with
  | some p => rfl
  | none =>
    cases ho : σ.obj? a with
    | none => rfl
    | some o =>
      cases hq : o.proto with
      | none => simp [hq]
      | some q =>
        simp only [hq]
        have hqa := hd a o q ho hq
        have hal : a < σ.heap.length := by
          simp only [FnM.St.obj?] at ho
          exact (List.getElem?_eq_some_iff.1 ho).1
        rw [getPropertyP_fuel σ x hd σ.heap.length q (by omega)]
        cases getPropertyP σ (σ.heap.length + 1) q x <;> rfl

@[simp] theorem modifySt_run (f : FnM.St → FnM.St) (σ : FnM.St) : FnM.modifySt f σ = .ok () (f σ) := rfl

theorem setObj_run (a : Nat) (o : FnM.Obj) (σ : FnM.St) :
    FnM.setObj a o σ = .ok () { σ with heap := Fn.setNth σ.heap a o } := rfl

theorem canPutP_snd (σ : FnM.St) (a : Nat) (x : String) : (canPutP σ a x).2 = ownP σ a x := by
  unfold canPutP
  cases ownP σ a x with
  | some p => rfl
  | none =>
    cases σ.obj? a with
    | none => rfl
    | some o =>
      cases hq : o.proto with
      | none => simp [hq]
      | some q => simp only [hq]; cases getPropertyP σ (σ.heap.length + 1) q x <;> rfl

theorem writeProperty_some (props : List (String × FnM.Pty)) (x : String) (d p0 : FnM.Pty)
    (h : Fn.lookupA x props = some p0) : FnM.writeProperty props x d = Fn.updateA x d props := by
  simp [FnM.writeProperty, h]

theorem writeProperty_none (props : List (String × FnM.Pty)) (x : String) (d : FnM.Pty)
    (h : Fn.lookupA x props = none) : FnM.writeProperty props x d = props ++ [(x, d)] := by
  simp [FnM.writeProperty, h]

theorem odop_update (σ : FnM.St) (a : Nat) (o : FnM.Obj) (x : String) (d p0 : FnM.Pty) (thr : Bool)
    (ho : σ.obj? a = some o) (hl : Fn.lookupA x o.props = some p0) (hc : d.c = p0.c) (he : d.e = p0.e)
    (hw : p0.c = true ∨ p0.w = true) :
    FnM.objectDefineOwnProperty a x d thr σ =
      .ok true { σ with heap := Fn.setNth σ.heap a { o with props := Fn.updateA x d o.props } } := by
  unfold FnM.objectDefineOwnProperty
  simp only [bind_run, getSt_run, ho, hl]
  have c1 : (!p0.c && (d.c || d.e != p0.e)) = false := by
    rw [hc, he]; cases p0.c <;> simp
  have c2 : (!p0.c && !p0.w && (d.w || d.value != p0.value)) = false := by
    rcases hw with h | h <;> simp [h]
  simp only [c1, c2, Bool.false_eq_true, if_false, bind_run, setObj_run, writeProperty_some _ _ _ _ hl, pure_run]

theorem odop_new (σ : FnM.St) (a : Nat) (o : FnM.Obj) (x : String) (d : FnM.Pty) (thr : Bool)
    (ho : σ.obj? a = some o) (hl : Fn.lookupA x o.props = none) :
    FnM.objectDefineOwnProperty a x d thr σ =
      .ok true { σ with heap := Fn.setNth σ.heap a { o with props := o.props ++ [(x, d)] } } := by
  unfold FnM.objectDefineOwnProperty
  simp only [bind_run, getSt_run, ho, hl, setObj_run, writeProperty_none _ _ _ hl, pure_run]

theorem defineOwnProperty_nonargs (σ : FnM.St) (a : Nat) (o : FnM.Obj) (x : String) (d : FnM.Pty) (thr : Bool)
    (ho : σ.obj? a = some o) (hna : ∀ ipn st, o.val ≠ .arguments ipn st) :
    FnM.defineOwnProperty a x d thr σ = FnM.objectDefineOwnProperty a x d thr σ := by
  unfold FnM.defineOwnProperty
  cases hv : o.val with
  | arguments ipn st => exact absurd hv (hna ipn st)
  | _ => simp only [bind_run, getSt_run, ho, hv]

theorem mappedAssign_nonargs (σ : Fn.St) (k : Fn.OKind) (p : String) (v : Fn.V) (h : ∀ m e, k ≠ .args m e) :
    Fn.mappedAssign σ k p v = σ := by
  unfold Fn.mappedAssign
  cases k with
  | args m e => exact absurd rfl (h m e)
  | _ => rfl

/-- **[[Put]]** (§8.12.5 with §8.12.4) on an object that is not an arguments object -/
theorem putProp_spec (σ : FnM.St) (a : Nat) (x : String) (v : Fn.V) (hv : Visible σ x) (hw : WritableWF σ)
    (hd : ProtoDesc σ) (hna : ∀ o, σ.obj? a = some o → ∀ ipn st, o.val ≠ .arguments ipn st) :
    absR (FnM.objPut a x v false σ) = Fn.putProp (absSt σ) (.ref a) x v := by
  have hcp := canPutP_spec σ a x hv hw hd
  rw [putProp_abs]
  unfold FnM.objPut Fn.putPropD
  simp only [bind_run, canPutDetails_run, absSt_obj, absSt_heap_length]
  cases ho : σ.obj? a with
  | none =>
    have hown : ownP σ a x = none := by simp [ownP, ho]
    simp [canPutP, hown, ho, FnM.defineProperty, FnM.defineOwnProperty, absR]
  | some o =>
    have ⟨hh, hs, hac⟩ := hv a o ho
    have hm : mapGetP σ o x = none := mapGetP_none_of_not_args σ o x (hna o ho)
    have hown : ownP σ a x = Fn.lookupA x o.props := ownP_of_unmapped σ a o x ho hs hm
    have hkind : ∀ m e, (absObj o).kind ≠ .args m e := by
      intro m e hk
      cases hval : o.val <;> simp [absObj, absKind, hval] at hk
      exact hna o ho _ _ hval
    simp only [Option.map_some, ← hcp]
    cases hc : (canPutP σ a x).1 with
    | false =>
      have : canPutP σ a x = (false, (canPutP σ a x).2) := by rw [← hc]
      rw [this]
      simp [FnM.typeErrorResult, absR]
    | true =>
      have h2 : canPutP σ a x = (true, Fn.lookupA x o.props) := by
        rw [← hc, ← hown, ← canPutP_snd]
      rw [h2]
      have hk := mappedAssign_nonargs (absSt σ) (absObj o).kind x v hkind
      simp only [Bool.not_true, Bool.false_eq_true, if_false, hk, absObj_lookup o x hh]
      cases hl : Fn.lookupA x o.props with
      | some p0 =>
        have hp0w : p0.w = true := by
          have : (canPutP σ a x).1 = p0.w := by simp [canPutP, hown, hl]
          rw [← this]; exact hc
        simp only [Option.map_some, bind_run]
        rw [defineOwnProperty_nonargs σ a o x _ false ho (hna o ho)]
        rw [odop_update σ a o x { p0 with value := v } p0 false ho hl rfl rfl (Or.inr hp0w)]
        simp only [pure_run, absR, absSt_setObj]
        rw [absObj_update o x { p0 with value := v } p0 hh hl rfl]
      | none =>
        simp only [Option.map_none, bind_run, FnM.defineProperty]
        rw [defineOwnProperty_nonargs σ a o x _ false ho (hna o ho)]
        rw [odop_new σ a o x (FnM.p111 v) false ho hl]
        simp only [pure_run, absR, absSt_setObj]
        rw [absObj_append o x (FnM.p111 v) hh rfl]
        rfl

/-- the names of a declarative stash are distinct (createBinding is only reached when hasBinding fails) -/
def StashNodup (σ : FnM.St) : Prop := ∀ j, ((FnM.dclProps σ j).map (·.1)).Nodup

theorem lookupA_mem {β : Type} (x : String) : ∀ (l : List (String × β)) (p : β), Fn.lookupA x l = some p → (x, p) ∈ l := by
  intro l
  induction l with
  | nil => intro p h; simp [Fn.lookupA] at h
  | cons q r ih =>
    intro p h
    obtain ⟨k, w⟩ := q
    by_cases hk : k = x
    · subst hk; simp [Fn.lookupA] at h; subst h; simp
    · simp [Fn.lookupA, hk] at h; exact List.mem_cons_of_mem _ (ih p h)

theorem nodup_lookup_unique {β : Type} (x : String) : ∀ (l : List (String × β)) (p q : β),
    (l.map (·.1)).Nodup → Fn.lookupA x l = some p → (x, q) ∈ l → q = p := by
  intro l
  induction l with
  | nil => intro p q _ h; simp [Fn.lookupA] at h
  | cons e r ih =>
    intro p q hn hl hm
    obtain ⟨k, w⟩ := e
    simp only [List.map_cons, List.nodup_cons] at hn
    by_cases hk : k = x
    · subst hk
      simp [Fn.lookupA] at hl; subst hl
      rcases List.mem_cons.1 hm with h | h
      · cases h; rfl
      · exact absurd (List.mem_map_of_mem (f := (·.1)) h) hn.1
    · simp [Fn.lookupA, hk] at hl
      rcases List.mem_cons.1 hm with h | h
      · cases h; exact absurd rfl hk
      · exact ih p q hn.2 hl h

theorem immut_contains (ps : List (String × FnM.DclProp)) (outer : Option Nat) (x : String) (p : FnM.DclProp)
    (hn : (ps.map (·.1)).Nodup) (hl : Fn.lookupA x ps = some p) :
    (absDcl ps outer).immut.contains x = !p.mutable_ := by
  simp only [absDcl]
  cases hm : p.mutable_ with
  | true =>
    simp only [Bool.not_true]
    rw [Bool.eq_false_iff]
    intro hc
    simp only [List.contains_iff_mem, List.mem_map, List.mem_filter] at hc
    obtain ⟨⟨k, q⟩, ⟨hmem, hq⟩, hk⟩ := hc
    simp only at hk; subst hk
    have := nodup_lookup_unique k ps p q hn hl hmem
    subst this
    simp [hm] at hq
  | false =>
    simp only [Bool.not_false, List.contains_iff_mem, List.mem_map, List.mem_filter]
    exact ⟨(x, p), ⟨lookupA_mem x ps p hl, by simp [hm]⟩, rfl⟩

theorem updateA_dcl_immut (x : String) (v : Fn.V) :
    ∀ (ps : List (String × FnM.DclProp)) (p : FnM.DclProp), Fn.lookupA x ps = some p →
      ((Fn.updateA x { p with value := v } ps).filter fun q => !q.2.mutable_).map (·.1) =
        (ps.filter fun q => !q.2.mutable_).map (·.1) := by
  intro ps
  induction ps with
  | nil => intro p h; simp [Fn.lookupA] at h
  | cons e r ih =>
    intro p h
    obtain ⟨k, w⟩ := e
    by_cases hk : k = x
    · subst hk
      simp only [Fn.lookupA, if_true] at h
      cases h
      simp only [Fn.updateA, if_true, List.filter_cons]
      cases p.mutable_ <;> simp
    · simp only [Fn.lookupA, hk, if_false] at h
      simp only [Fn.updateA, hk, if_false, List.filter_cons]
      cases w.mutable_ <;> simp [ih p h]

theorem absDcl_update (ps : List (String × FnM.DclProp)) (outer : Option Nat) (x : String) (v : Fn.V) (p : FnM.DclProp)
    (hl : Fn.lookupA x ps = some p) :
    absDcl (Fn.updateA x { p with value := v } ps) outer =
      { absDcl ps outer with vars := Fn.updateA x v (absDcl ps outer).vars } := by
  simp only [absDcl]
  congr 1
  · exact updateA_map (fun q : FnM.DclProp => q.value) x { p with value := v } ps
  · exact updateA_dcl_immut x v ps p hl

theorem absSt_setStash (σ : FnM.St) (j : Nat) (s : FnM.Stash) :
    absSt { σ with stashes := Fn.setNth σ.stashes j s } = (absSt σ).setEnv j (absStash s) := by
  simp [absSt, Fn.St.setEnv, setNth_map]

theorem dclProps_of_stash (σ : FnM.St) (j : Nat) (x : String) (p : FnM.DclProp)
    (h : Fn.lookupA x (FnM.dclProps σ j) = some p) :
    (∃ outer, σ.stash? j = some (.dcl outer (FnM.dclProps σ j))) ∨
    (∃ outer ar, σ.stash? j = some (.fn outer (FnM.dclProps σ j) ar)) := by
  unfold FnM.dclProps at h ⊢
  cases hs : σ.stash? j with
  | none => simp [hs, Fn.lookupA] at h
  | some s0 =>
    cases s0 with
    | obj o ob => simp [hs, Fn.lookupA] at h
    | dcl outer ps => exact Or.inl ⟨outer, rfl⟩
    | fn outer ps ar => exact Or.inr ⟨outer, ar, rfl⟩

theorem setStash_run (j : Nat) (s : FnM.Stash) (σ : FnM.St) :
    FnM.setStash j s σ = .ok () { σ with stashes := Fn.setNth σ.stashes j s } := rfl

/-- **PutValue on an identifier reference to a declarative record** (§8.7.2, §10.2.1.1.3): a mutable binding
    is updated, an immutable one (the name of a named function expression) is left alone -/
theorem putValue_dcl_spec (σ : FnM.St) (j : Nat) (x : String) (v : Fn.V) (p : FnM.DclProp) (hj : j ≠ 0)
    (hn : StashNodup σ) (hl : Fn.lookupA x (FnM.dclProps σ j) = some p) :
    absR (FnM.rtPutValue (.stash j x) v σ) = Fn.putIdent (absSt σ) (some j) x v := by
  have hnj := hn j
  simp only [FnM.rtPutValue, FnM.refPutValue, FnM.setValue, bind_run, getSt_run, hasBinding_run, Fn.putIdent, Fn.envPut,
    hj, if_false, absSt_env]
  have hb : hasBindingP σ j x = true := by
    rcases dclProps_of_stash σ j x p hl with ⟨outer, hs⟩ | ⟨outer, ar, hs⟩ <;> simp [hasBindingP, hs, hl]
  rcases dclProps_of_stash σ j x p hl with ⟨outer, hs⟩ | ⟨outer, ar, hs⟩
  · simp only [hb, hs, Bool.not_true, Bool.false_eq_true, if_false, FnM.setBinding, bind_run, getSt_run, FnM.dclSetBinding, hl,
      Option.map_some, absStash]
    rw [immut_contains _ outer x p hnj hl]
    cases hm : p.mutable_ with
    | false => simp [FnM.typeErrorResult, absR, absDcl]
    | true =>
      simp only [if_true, Bool.not_true, Bool.false_eq_true, if_false, FnM.setDclProps, hs, bind_run, pure_run]
      have hp : ({ value := v, mutable_ := true, deletable := p.deletable, readable := p.readable } : FnM.DclProp) =
          { p with value := v } := by simp [hm]
      rw [hp, setStash_run]
      simp only [bne_self_eq_false, Bool.false_eq_true, if_false, pure_run, absR, absSt_setStash, absStash]
      rw [absDcl_update _ outer x v p hl]
      rfl
  · simp only [hb, hs, Bool.not_true, Bool.false_eq_true, if_false, FnM.setBinding, bind_run, getSt_run, FnM.dclSetBinding, hl,
      Option.map_some, absStash]
    rw [immut_contains _ outer x p hnj hl]
    cases hm : p.mutable_ with
    | false => simp [FnM.typeErrorResult, absR, absDcl]
    | true =>
      simp only [if_true, Bool.not_true, Bool.false_eq_true, if_false, FnM.setDclProps, hs, bind_run, pure_run]
      have hp : ({ value := v, mutable_ := true, deletable := p.deletable, readable := p.readable } : FnM.DclProp) =
          { p with value := v } := by simp [hm]
      rw [hp, setStash_run]
      simp only [bne_self_eq_false, Bool.false_eq_true, if_false, pure_run, absR, absSt_setStash, absStash]
      rw [absDcl_update _ outer x v p hl]
      rfl

/-- **PutValue on an identifier reference to an object record** (a `with` object or the global object;
    §10.2.1.2.3: [[Put]] on the binding object) -/
theorem putValue_obj_spec (σ : FnM.St) (j : Nat) (outer : Option Nat) (o : Nat) (x : String) (v : Fn.V)
    (hs : σ.stash? j = some (.obj outer o)) (h0 : WF0 σ) (hv : Visible σ x) (hw : WritableWF σ) (hd : ProtoDesc σ)
    (hna : ∀ ob, σ.obj? o = some ob → ∀ ipn st, ob.val ≠ .arguments ipn st) :
    absR (FnM.rtPutValue (FnM.newReference σ j x) v σ) = Fn.putIdent (absSt σ) (some j) x v := by
  rw [newReference_obj σ j x outer o hs]
  have hput := putProp_spec σ o x v hv hw hd hna
  have hspec : Fn.putIdent (absSt σ) (some j) x v = Fn.putProp (absSt σ) (Fn.V.ref o) x v := by
    simp only [Fn.putIdent, Fn.envPut]
    by_cases hj : j = 0
    · subst hj
      have h0' : σ.stash? 0 = some (.obj none FnM.gObj) := h0
      rw [h0'] at hs
      cases hs
      simp; rfl
    · simp [hj, absSt_env, hs, absStash]
  rw [hspec, ← hput]
  simp only [FnM.rtPutValue, FnM.refPutValue, bind_run, objPutA_run σ x hv]
  cases FnM.objPut o x v false σ with
  | ok u σ' => cases u; simp
  | throw t σ' => rfl
  | fuel => rfl

/-- **PutValue on an unresolvable reference** (§8.7.2 step 3.b, non-strict): [[Put]] on the global object –
    whether or not the global object has got the property since the reference was made -/
theorem putValue_unresolvable_spec (σ : FnM.St) (x : String) (v : Fn.V) (hx : x ≠ "") (hv : Visible σ x)
    (hw : WritableWF σ) (hd : ProtoDesc σ) (g : FnM.Obj) (hg : σ.obj? FnM.gObj = some g)
    (hna : ∀ ipn st, g.val ≠ .arguments ipn st) :
    absR (FnM.rtPutValue (.prop none x) v σ) = Fn.putIdent (absSt σ) none x v := by
  have hne : (x != "") = true := by simp [hx]
  simp only [FnM.rtPutValue, FnM.refPutValue, bind_run, pure_run, Fn.putIdent, hne, if_true]
  exact putProp_spec σ FnM.gObj x v hv hw hd (by intro o ho; rw [hg] at ho; cases ho; exact hna)

/-! ## [[Delete]]; [[Put]] and [[Delete]] through the arguments object's parameter map -/

theorem removeA_map {β γ : Type} (f : β → γ) (x : String) :
    ∀ l : List (String × β), (Fn.removeA x l).map (fun p => (p.1, f p.2)) = Fn.removeA x (l.map fun p => (p.1, f p.2)) := by
  intro l
  induction l with
  | nil => rfl
  | cons p r ih =>
    obtain ⟨k, w⟩ := p
    simp only [Fn.removeA, List.map_cons]
    split <;> simp [ih]

theorem removeA_filter {β : Type} (q : String → Bool) (x : String) (hx : q x = true) :
    ∀ l : List (String × β), (Fn.removeA x l).filter (fun p => q p.1) = Fn.removeA x (l.filter fun p => q p.1) := by
  intro l
  induction l with
  | nil => rfl
  | cons p r ih =>
    obtain ⟨k, w⟩ := p
    by_cases hk : k = x
    · subst hk; simp [Fn.removeA, hx]
    · by_cases hq : q k = true
      · simp [Fn.removeA, hk, hq, ih]
      · simp [Fn.removeA, hk, hq, ih]

theorem removeA_names {β : Type} (q : β → Bool) (x : String) :
    ∀ l : List (String × β), (l.map (·.1)).Nodup →
      ((Fn.removeA x l).filter fun p => q p.2).map (·.1) = ((l.filter fun p => q p.2).map (·.1)).filter (· != x) := by
  intro l
  induction l with
  | nil => intro _; rfl
  | cons p r ih =>
    intro hn
    obtain ⟨k, w⟩ := p
    simp only [List.map_cons, List.nodup_cons] at hn
    by_cases hk : k = x
    · subst hk
      simp only [Fn.removeA, if_true, List.filter_cons]
      have hnot : ∀ l' : List (String × β), (∀ e ∈ l', e.1 ≠ k) → (l'.map (·.1)).filter (· != k) = l'.map (·.1) := by
        intro l' h
        induction l' with
        | nil => rfl
        | cons e t iht =>
          have := h e (List.mem_cons_self)
          simp only [List.map_cons, List.filter_cons, bne_iff_ne, ne_eq, this, not_false_eq_true, if_true]
          rw [iht (fun e' he' => h e' (List.mem_cons_of_mem _ he'))]
      have hr : ∀ e ∈ r.filter (fun p => q p.2), e.1 ≠ k := by
        intro e he hek
        have := List.mem_map_of_mem (f := (·.1)) ((List.mem_filter.1 he).1)
        rw [hek] at this
        exact hn.1 this
      cases q w <;> simp [hnot _ hr]
    · simp only [Fn.removeA, hk, if_false, List.filter_cons]
      cases q w <;> simp [ih hn.2, hk]

/-- the own property names of every object are distinct (writeProperty appends only new names) -/
def PropsNodup (σ : FnM.St) : Prop := ∀ a o, σ.obj? a = some o → (o.props.map (·.1)).Nodup

theorem filter_names_nodup {β : Type} (q : String × β → Bool) (l : List (String × β)) (h : (l.map (·.1)).Nodup) :
    ((l.filter q).map (·.1)).Nodup := by
  induction l with
  | nil => simp
  | cons p r ih =>
    simp only [List.map_cons, List.nodup_cons] at h
    simp only [List.filter_cons]
    split
    · simp only [List.map_cons, List.nodup_cons]
      refine ⟨?_, ih h.2⟩
      intro hm
      obtain ⟨e, he, hee⟩ := List.mem_map.1 hm
      exact h.1 (List.mem_map.2 ⟨e, (List.mem_filter.1 he).1, hee⟩)
    · exact ih h.2

theorem absObj_dd (o : FnM.Obj) (x : String) : (absObj o).dontDelete.contains x = false := rfl

theorem absObj_remove (o : FnM.Obj) (x : String) (val' : FnM.OVal) (hh : hidden o.val x = false)
    (hsame : ∀ k, hidden val' k = hidden o.val k) (hn : (o.props.map (·.1)).Nodup) :
    absObj { o with props := Fn.removeA x o.props, val := val' } =
      { absObj o with props := Fn.removeA x (absObj o).props, kind := absKind val',
                      dontEnum := (absObj o).dontEnum.filter (· != x),
                      readOnly := (absObj o).readOnly.filter (· != x) } := by
  have hq : (fun k => !hidden o.val k) x = true := by simp [hh]
  have hfun : (fun p : String × FnM.Pty => !hidden val' p.1) = (fun p : String × FnM.Pty => !hidden o.val p.1) := by
    funext p; rw [hsame]
  simp only [absObj, absProps, hfun]
  congr 1
  · rw [removeA_filter (fun k => !hidden o.val k) x hq, removeA_map (fun p : FnM.Pty => p.value)]
  · rw [removeA_filter (fun k => !hidden o.val k) x hq]
    exact removeA_names (fun p : FnM.Pty => !p.e) x _ (filter_names_nodup _ _ hn)

theorem ownP_c (σ : FnM.St) (a : Nat) (o : FnM.Obj) (x : String) (ho : σ.obj? a = some o)
    (hs : ∀ s, o.val ≠ .string s) :
    (ownP σ a x).map (·.c) = (Fn.lookupA x o.props).map (·.c) := by
  unfold ownP
  simp only [ho]
  cases hv : o.val with
  | string s => exact absurd hv (hs s)
  | arguments ipn stash => cases Fn.lookupA x o.props <;> cases mapGetP σ o x <;> rfl
  | _ => rfl

theorem setNth_self {β : Type} : ∀ (l : List β) (a : Nat) (b : β), l[a]? = some b → Fn.setNth l a b = l := by
  intro l
  induction l with
  | nil => intro a b h; rfl
  | cons h t ih =>
    intro a b hb
    cases a with
    | zero => simp at hb; subst hb; rfl
    | succ a => simp at hb; simp [Fn.setNth, ih a b hb]

theorem setNth_ge {β : Type} : ∀ (l : List β) (a : Nat) (b : β), l[a]? = none → Fn.setNth l a b = l := by
  intro l
  induction l with
  | nil => intro a b h; rfl
  | cons h t ih =>
    intro a b hb
    cases a with
    | zero => simp at hb
    | succ a => simp at hb; simp [Fn.setNth, ih a b (by simpa using hb)]

theorem lookupA_none_notmem {β : Type} (x : String) : ∀ (l : List (String × β)), Fn.lookupA x l = none → x ∉ l.map (·.1) := by
  intro l
  induction l with
  | nil => intro _; simp
  | cons p r ih =>
    intro h
    obtain ⟨k, w⟩ := p
    by_cases hk : k = x
    · subst hk; simp [Fn.lookupA] at h
    · simp only [Fn.lookupA, hk, if_false] at h
      simp only [List.map_cons, List.mem_cons, not_or]
      exact ⟨fun e => hk e.symm, ih h⟩

theorem removeA_none {β : Type} (x : String) : ∀ (l : List (String × β)), Fn.lookupA x l = none → Fn.removeA x l = l := by
  intro l
  induction l with
  | nil => intro _; rfl
  | cons p r ih =>
    intro h
    obtain ⟨k, w⟩ := p
    by_cases hk : k = x
    · subst hk; simp [Fn.lookupA] at h
    · simp only [Fn.lookupA, hk, if_false] at h
      simp [Fn.removeA, hk, ih h]

theorem filter_ne_notmem (x : String) : ∀ (l : List String), x ∉ l → l.filter (· != x) = l := by
  intro l
  induction l with
  | nil => intro _; rfl
  | cons h t ih =>
    intro hm
    simp only [List.mem_cons, not_or] at hm
    have : (h != x) = true := by simp [bne_iff_ne]; exact fun e => hm.1 e.symm
    simp [List.filter_cons, this, ih hm.2]

theorem absSt_setObj_self (σ : FnM.St) (a : Nat) (o : FnM.Obj) (ho : σ.obj? a = some o) :
    (absSt σ).setObj a (absObj o) = absSt σ := by
  simp only [Fn.St.setObj, absSt]
  congr 1
  apply setNth_self
  simp only [FnM.St.obj?] at ho
  simp [ho]

/-- the Bool a Go method returns, as the JavaScript value the operator yields -/
def boolR : FnM.R Bool → FnM.R Fn.V
  | .ok b σ => .ok (.bool b) σ
  | .throw t σ => .throw t σ
  | .fuel => .fuel

theorem unmapKind_nonargs (k : Fn.OKind) (p : String) (h : ∀ m e, k ≠ .args m e) : Fn.unmapKind k p = k := by
  unfold Fn.unmapKind
  cases k with
  | args m e => exact absurd rfl (h m e)
  | _ => rfl

theorem unmapIndex_nonargs (v : FnM.OVal) (x : String) (h : ∀ ipn st, v ≠ .arguments ipn st) : FnM.unmapIndex v x = v := by
  unfold FnM.unmapIndex
  cases v with
  | arguments ipn st => exact absurd rfl (h ipn st)
  | _ => rfl

/-- **[[Delete]]** (§8.12.7) on an object that is not an arguments object: non-configurable properties stay
    (result false), others go, and the abstraction of the new state is ES5's new state -/
theorem delProp_spec (σ : FnM.St) (a : Nat) (x : String) (hv : Visible σ x) (hn : PropsNodup σ)
    (hna : ∀ o, σ.obj? a = some o → ∀ ipn st, o.val ≠ .arguments ipn st)
    (hc : ∀ o p, σ.obj? a = some o → Fn.lookupA x o.props = some p → p.c = !Fn.fixedProp (absKind o.val) x) :
    absR (boolR (FnM.objDelete a x false σ)) = Fn.delProp (absSt σ) (.ref a) x := by
  rw [delProp_abs]
  unfold FnM.objDelete Fn.delPropD
  simp only [bind_run, getOwnProperty_run, absSt_obj]
  cases ho : σ.obj? a with
  | none => simp [ownP, ho, absR, boolR]
  | some o =>
    have ⟨hh, hs, hac⟩ := hv a o ho
    have hm : mapGetP σ o x = none := mapGetP_none_of_not_args σ o x (hna o ho)
    have hown : ownP σ a x = Fn.lookupA x o.props := ownP_of_unmapped σ a o x ho hs hm
    have hkind : ∀ m e, (absObj o).kind ≠ .args m e := by
      intro m e hk
      cases hval : o.val <;> simp [absObj, absKind, hval] at hk
      exact hna o ho _ _ hval
    have hkk : (absObj o).kind = absKind o.val := rfl
    simp only [Option.map_some, hown, unmapKind_nonargs _ x hkind, absObj_lookup o x hh]
    cases hl : Fn.lookupA x o.props with
    | none =>
      simp only [pure_run, absR, boolR, Option.map_none, Option.isSome_none, Bool.and_false, Bool.false_eq_true, if_false]
      have hl' : Fn.lookupA x (absObj o).props = none := by rw [absObj_lookup o x hh, hl]; rfl
      rw [removeA_none x _ hl']
      have hne : x ∉ (absObj o).dontEnum := by
        intro hmem
        simp only [absObj] at hmem
        have h1 := lookupA_none_notmem x (absProps o) (by
          simp only [absProps]
          rw [lookupA_filter (fun k => !hidden o.val k) x (by simp [hh])]; exact hl)
        obtain ⟨e, he, hee⟩ := List.mem_map.1 hmem
        exact h1 (List.mem_map.2 ⟨e, (List.mem_filter.1 he).1, hee⟩)
      rw [filter_ne_notmem x _ hne]
      have : ({ props := (absObj o).props, proto := (absObj o).proto, kind := (absObj o).kind, dontEnum := (absObj o).dontEnum, accs := (absObj o).accs, readOnly := List.filter (fun x_1 => x_1 != x) (absObj o).readOnly, dontDelete := (absObj o).dontDelete } : Fn.Obj) = absObj o := rfl
      rw [this, absSt_setObj_self σ a o ho]
    | some p =>
      have hpc := hc o p ho hl
      simp only [Option.map_some, Option.isSome_some, Bool.and_true, hkk]
      cases hcc : p.c with
      | false =>
        have hf : Fn.fixedProp (absKind o.val) x = true := by rw [hcc] at hpc; simpa using hpc.symm
        simp [hf, FnM.typeErrorResult, absR, boolR]
      | true =>
        have hf : Fn.fixedProp (absKind o.val) x = false := by rw [hcc] at hpc; simpa using hpc.symm
        simp only [hf, absObj_dd, Bool.or_false, Bool.false_eq_true, if_false, if_true, bind_run, getSt_run, ho,
          unmapIndex_nonargs o.val x (hna o ho), setObj_run, pure_run, absR, boolR, absSt_setObj]
        rw [absObj_remove o x o.val hh (fun _ => rfl) (hn a o ho)]

/-- what `dclSetBinding` does to a mutable binding -/
theorem dclSetBinding_mutable (σ : FnM.St) (st : Nat) (pn : String) (v : Fn.V) (p : FnM.DclProp)
    (hl : Fn.lookupA pn (FnM.dclProps σ st) = some p) (hm : p.mutable_ = true) :
    ∃ s', FnM.dclSetBinding st pn v false σ = .ok () { σ with stashes := Fn.setNth σ.stashes st s' } ∧
      absStash s' = { (absSt σ).envs[st]?.getD { vars := [], outer := none } with
                      vars := Fn.updateA pn v ((absSt σ).envs[st]?.getD { vars := [], outer := none }).vars } := by
  rcases dclProps_of_stash σ st pn p hl with ⟨outer, hs⟩ | ⟨outer, ar, hs⟩
  · refine ⟨.dcl outer (Fn.updateA pn { p with value := v } (FnM.dclProps σ st)), ?_, ?_⟩
    · simp only [FnM.dclSetBinding, bind_run, getSt_run, hl, hm, if_true, FnM.setDclProps, hs, setStash_run]
    · simp only [absSt_env, hs, Option.map_some, Option.getD_some, absStash]
      exact absDcl_update _ outer pn v p hl
  · refine ⟨.fn outer (Fn.updateA pn { p with value := v } (FnM.dclProps σ st)) ar, ?_, ?_⟩
    · simp only [FnM.dclSetBinding, bind_run, getSt_run, hl, hm, if_true, FnM.setDclProps, hs, setStash_run]
    · simp only [absSt_env, hs, Option.map_some, Option.getD_some, absStash]
      exact absDcl_update _ outer pn v p hl

/-- what FnSpec's envAssign does to a mutable binding of a declarative record -/
theorem envAssign_bound (σ : FnM.St) (st : Nat) (pn : String) (v : Fn.V) (p : FnM.DclProp) (hst : st ≠ 0)
    (hn : StashNodup σ) (hl : Fn.lookupA pn (FnM.dclProps σ st) = some p) (hm : p.mutable_ = true) (n : Nat) :
    Fn.envAssign (absSt σ) (n+1) st pn v =
      (absSt σ).setEnv st { (absSt σ).envs[st]?.getD { vars := [], outer := none } with
        vars := Fn.updateA pn v ((absSt σ).envs[st]?.getD { vars := [], outer := none }).vars } := by
  have hnj := hn st
  rcases dclProps_of_stash σ st pn p hl with ⟨outer, hs⟩ | ⟨outer, ar, hs⟩
  · have hv : Fn.lookupA pn (absDcl (FnM.dclProps σ st) outer).vars = some p.value := by
      simp only [absDcl]; rw [lookupA_map (fun q : FnM.DclProp => q.value)]; simp [hl]
    have hi := immut_contains _ outer pn p hnj hl
    simp only [Fn.envAssign, hst, if_false, absSt_env, hs, Option.map_some, absStash, hv, hi, hm, Bool.not_true,
      Bool.false_eq_true, Option.getD_some]
  · have hv : Fn.lookupA pn (absDcl (FnM.dclProps σ st) outer).vars = some p.value := by
      simp only [absDcl]; rw [lookupA_map (fun q : FnM.DclProp => q.value)]; simp [hl]
    have hi := immut_contains _ outer pn p hnj hl
    simp only [Fn.envAssign, hst, if_false, absSt_env, hs, Option.map_some, absStash, hv, hi, hm, Bool.not_true,
      Bool.false_eq_true, Option.getD_some]

/-- **[[Put]] on a mapped index of an arguments object** (§10.6 [[DefineOwnProperty]] 5.b.i via §8.12.5): the
    own property and the parameter it is joined to are both written -/
theorem putProp_mapped_spec (σ : FnM.St) (a : Nat) (x : String) (v : Fn.V) (o : FnM.Obj) (ipn : List String) (st i : Nat)
    (pn : String) (p0 : FnM.Pty) (p : FnM.DclProp)
    (ho : σ.obj? a = some o) (hval : o.val = .arguments ipn st) (hidx : Fn.idx? x = some i)
    (hpn : ipn[i]? = some pn) (hne : pn ≠ "") (hst : st ≠ 0)
    (hbind : Fn.lookupA pn (FnM.dclProps σ st) = some p) (hmut : p.mutable_ = true) (hn : StashNodup σ)
    (hown : Fn.lookupA x o.props = some p0) (hw : p0.w = true) :
    absR (FnM.objPut a x v false σ) = Fn.putProp (absSt σ) (.ref a) x v := by
  obtain ⟨cls, proto, props, val, accs⟩ := o
  simp only at hval hown
  subst hval
  generalize hoo : ({ cls := cls, proto := proto, props := props, val := FnM.OVal.arguments ipn st, accs := accs } : FnM.Obj) = o at ho
  have hov : o.val = .arguments ipn st := by rw [← hoo]
  have hop : o.props = props := by rw [← hoo]
  have hh : hidden o.val x = false := by simp [hov, hidden]
  have hown' : Fn.lookupA x o.props = some p0 := by rw [hop]; exact hown
  have hmap : mapGetP σ o x = some (dclGetP σ st pn) := by simp [mapGetP, hov, FnM.arrayIndex, hidx, hpn, hne]
  have hownP : ownP σ a x = some { p0 with value := dclGetP σ st pn } := by simp [ownP, ho, hov, hown', hmap]
  have hcpP : canPutP σ a x = (true, some { p0 with value := dclGetP σ st pn }) := by simp [canPutP, hownP, hw]
  have hcan : Fn.canPut (absSt σ) (σ.heap.length + 1) a x = true := by
    simp only [Fn.canPut, absSt_obj, ho, Option.map_some]
    rw [absObj_lookup o x hh, hown']
    simp [absObj, absKind, hov, Fn.isFnKind]
  have hma : Fn.mappedAssign (absSt σ) (absObj o).kind x v = Fn.envAssign (absSt σ) ((absSt σ).envs.length + 1) st pn v := by
    simp [Fn.mappedAssign, absObj, absKind, hov, hidx, hpn, optName, hne]
  -- the model: own property first, then the stash
  let σh : FnM.St := { σ with heap := Fn.setNth σ.heap a { o with props := Fn.updateA x { p0 with value := v } o.props } }
  have hb' : Fn.lookupA pn (FnM.dclProps σh st) = some p := hbind
  obtain ⟨s', hs', habs'⟩ := dclSetBinding_mutable σh st pn v p hb' hmut
  have hdef : FnM.defineOwnProperty a x { p0 with value := v } false σ =
      .ok true { σh with stashes := Fn.setNth σh.stashes st s' } := by
    unfold FnM.defineOwnProperty
    simp only [bind_run, getSt_run, ho, argumentsMapGet_run, hmap]
    rw [← hoo]
    simp only [argumentsMapGet_run, bind_run]
    rw [hoo, hmap]
    simp only [bind_run]
    rw [odop_update σ a o x { p0 with value := v } p0 false ho hown' rfl rfl (Or.inr hw)]
    have hamp : FnM.argumentsMapPut o x v = FnM.dclSetBinding st pn v false := by
      unfold FnM.argumentsMapPut
      simp [hov, FnM.arrayIndex, hidx, hpn]
    have hs'' := hs'
    simp only [σh] at hs''
    simp only [Bool.not_true, Bool.false_eq_true, if_false, bind_run, hamp, hs'', pure_run]
    have hnw : ((!p0.w) = true) = False := by simp [hw]
    simp only [hnw, if_false, pure_run]
    rfl
  rw [putProp_abs]
  unfold FnM.objPut Fn.putPropD
  simp only [bind_run, canPutDetails_run, hcpP, absSt_obj, ho, Option.map_some, absSt_heap_length, hcan, Bool.not_true,
    Bool.false_eq_true, if_false, hma, absObj_lookup o x hh, hown']
  have hd2 : ({ value := v, w := p0.w, e := p0.e, c := p0.c } : FnM.Pty) = { p0 with value := v } := rfl
  simp only [hd2, hdef, pure_run, absR]
  rw [envAssign_bound σ st pn v p hst hn hbind hmut]
  simp only [absSt, Fn.St.setEnv, Fn.St.setObj, setNth_map, σh]
  rw [absObj_update o x { p0 with value := v } p0 hh hown' rfl, habs']
  rfl

theorem optName_empty : optName "" = none := rfl

theorem absKind_unmap (v : FnM.OVal) (x : String) : absKind (FnM.unmapIndex v x) = Fn.unmapKind (absKind v) x := by
  cases v with
  | arguments ipn st =>
    simp only [FnM.unmapIndex, Fn.unmapKind, absKind, FnM.arrayIndex]
    cases hidx : Fn.idx? x with
    | none => rfl
    | some i =>
      simp only []
      cases hpn : ipn[i]? with
      | none =>
        simp only [absKind]
        rw [setNth_ge (ipn.map optName) i none (by simp [hpn])]
      | some pn =>
        by_cases hne : pn = ""
        · subst hne
          simp only [if_true, absKind]
          rw [setNth_self (ipn.map optName) i none (by simp [hpn, optName_empty])]
        · simp only [hne, if_false, absKind, setNth_map, optName_empty]
  | _ => rfl

theorem hidden_unmap (v : FnM.OVal) (x k : String) : hidden (FnM.unmapIndex v x) k = hidden v k := by
  cases v with
  | arguments ipn st =>
    simp only [FnM.unmapIndex]
    cases FnM.arrayIndex x with
    | none => rfl
    | some i =>
      simp only []
      cases ipn[i]? with
      | none => rfl
      | some pn => by_cases h : pn = "" <;> simp [h, hidden]
  | _ => rfl

/-- is `x` an index of this arguments object that is still joined to a parameter? -/
def isMapped (v : FnM.OVal) (x : String) : Bool :=
  match v with
  | .arguments ipn _ => (match FnM.arrayIndex x with
    | some i => (match ipn[i]? with | some pn => pn != "" | none => false)
    | none => false)
  | _ => false

theorem unmapIndex_unmapped (v : FnM.OVal) (x : String) (h : isMapped v x = false) : FnM.unmapIndex v x = v := by
  cases v with
  | arguments ipn st =>
    simp only [isMapped] at h
    simp only [FnM.unmapIndex]
    cases hi : FnM.arrayIndex x with
    | none => rfl
    | some i =>
      rw [hi] at h
      simp only [] at h ⊢
      cases hp : ipn[i]? with
      | none => rfl
      | some pn =>
        rw [hp] at h
        simp only [bne_eq_false_iff_eq] at h
        simp [h]
  | _ => rfl

/-- **[[Delete]]** (§8.12.7; §10.6 [[Delete]] of an arguments object: the index is un-mapped) on any object that
    is not a String wrapper.  `hc`: the configurable bit of the property is the one ES5 gives it;
    `hmo`: an index still joined to a parameter exists as an own property (so it was never deleted). -/
theorem delete_spec (σ : FnM.St) (a : Nat) (x : String) (hv : Visible σ x) (hn : PropsNodup σ)
    (hc : ∀ o p, σ.obj? a = some o → Fn.lookupA x o.props = some p → p.c = !Fn.fixedProp (absKind o.val) x)
    (hmo : ∀ o, σ.obj? a = some o → isMapped o.val x = true → (Fn.lookupA x o.props).isSome = true) :
    absR (boolR (FnM.objDelete a x false σ)) = Fn.delProp (absSt σ) (.ref a) x := by
  rw [delProp_abs]
  unfold FnM.objDelete Fn.delPropD
  simp only [bind_run, getOwnProperty_run, absSt_obj]
  cases ho : σ.obj? a with
  | none => simp [ownP, ho, absR, boolR]
  | some o =>
    have ⟨hh, hs, hac⟩ := hv a o ho
    have h1 := ownP_isSome σ a o x ho hs
    have h2 := ownP_c σ a o x ho hs
    have hkk : (absObj o).kind = absKind o.val := rfl
    simp only [Option.map_some, absObj_lookup o x hh, hkk]
    cases hl : Fn.lookupA x o.props with
    | none =>
      have hown : ownP σ a x = none := by
        rw [hl] at h1; cases h : ownP σ a x with
        | none => rfl
        | some q => rw [h] at h1; simp at h1
      have hnm : isMapped o.val x = false := by
        cases hm : isMapped o.val x with
        | false => rfl
        | true => have := hmo o ho hm; rw [hl] at this; simp at this
      have hum : Fn.unmapKind (absKind o.val) x = absKind o.val := by
        rw [← absKind_unmap, unmapIndex_unmapped o.val x hnm]
      simp only [hown, pure_run, absR, boolR, Option.map_none, Option.isSome_none, Bool.and_false, Bool.false_eq_true, if_false, hum]
      have hl' : Fn.lookupA x (absObj o).props = none := by rw [absObj_lookup o x hh, hl]; rfl
      rw [removeA_none x _ hl']
      have hne : x ∉ (absObj o).dontEnum := by
        intro hmem
        simp only [absObj] at hmem
        have h1 := lookupA_none_notmem x (absProps o) (by
          simp only [absProps]
          rw [lookupA_filter (fun k => !hidden o.val k) x (by simp [hh])]; exact hl)
        obtain ⟨e, he, hee⟩ := List.mem_map.1 hmem
        exact h1 (List.mem_map.2 ⟨e, (List.mem_filter.1 he).1, hee⟩)
      rw [filter_ne_notmem x _ hne]
      have : ({ props := (absObj o).props, proto := (absObj o).proto, kind := absKind o.val, dontEnum := (absObj o).dontEnum, accs := (absObj o).accs, readOnly := List.filter (fun x_1 => x_1 != x) (absObj o).readOnly, dontDelete := (absObj o).dontDelete } : Fn.Obj) = absObj o := rfl
      rw [this, absSt_setObj_self σ a o ho]
    | some p =>
      have hpc := hc o p ho hl
      rw [hl] at h1 h2
      cases hown : ownP σ a x with
      | none => rw [hown] at h1; simp at h1
      | some q =>
        rw [hown] at h2
        simp only [Option.map_some, Option.some.injEq] at h2
        simp only [Option.map_some, Option.isSome_some, Bool.and_true, h2]
        cases hcc : p.c with
        | false =>
          have hf : Fn.fixedProp (absKind o.val) x = true := by rw [hcc] at hpc; simpa using hpc.symm
          simp [hf, FnM.typeErrorResult, absR, boolR]
        | true =>
          have hf : Fn.fixedProp (absKind o.val) x = false := by rw [hcc] at hpc; simpa using hpc.symm
          simp only [hf, absObj_dd, Bool.or_false, Bool.false_eq_true, if_false, if_true, bind_run, getSt_run, ho, setObj_run, pure_run, absR, boolR,
            absSt_setObj]
          rw [absObj_remove o x (FnM.unmapIndex o.val x) hh (hidden_unmap o.val x) (hn a o ho), absKind_unmap]

/-! ## entering function code: the parameter map of the arguments object -/

/-- FnSpec.mkArguments' parameter map (§10.6 step 11), as a function of the parameter list and the number of arguments -/
def specArgMap (params : List String) (nargs : Nat) : List (Option String) :=
  (List.range nargs).map fun i =>
    match params[i]? with
    | some name => if ((params.take nargs).drop (i+1)).contains name then none else some name
    | none => none

theorem noLaterDup_getElem? : ∀ (q : List String) (i : Nat),
    (Call.noLaterDup q)[i]? = (q[i]?).map fun name => if (q.drop (i+1)).contains name then none else some name := by
  intro q
  induction q with
  | nil => intro i; simp [Call.noLaterDup]
  | cons p ps ih =>
    intro i
    cases i with
    | zero => simp [Call.noLaterDup]
    | succ i => simp [Call.noLaterDup, ih i]

theorem noLaterDup_length : ∀ q : List String, (Call.noLaterDup q).length = q.length := by
  intro q; induction q with
  | nil => rfl
  | cons p ps ih => simp [Call.noLaterDup, ih]

theorem specArgMap_eq (params : List String) (nargs : Nat) : specArgMap params nargs = Call.specMap params nargs := by
  unfold Call.specMap
  rw [CallThm.specMapped_noLaterDup]
  apply List.ext_getElem?
  intro i
  simp only [specArgMap, Call.padNone, List.getElem?_map, List.getElem?_append, noLaterDup_length, List.length_take]
  by_cases hi : i < nargs
  · simp only [List.getElem?_range hi, Option.map_some]
    by_cases hp : i < params.length
    · have hm : i < min nargs params.length := by omega
      have hg : params[i]? = some params[i] := List.getElem?_eq_getElem hp
      simp only [hm, if_true, noLaterDup_getElem?, List.getElem?_take, hi, if_true, hg, Option.map_some]
    · have hm : ¬ i < min nargs params.length := by omega
      have hn : params[i]? = none := by simp; omega
      simp only [hm, if_false, hn, List.getElem?_replicate]
      split
      · rfl
      · omega
  · have hr : (List.range nargs)[i]? = none := by simp; omega
    have hm : ¬ i < min nargs params.length := by omega
    simp only [hr, Option.map_none, hm, if_false, List.getElem?_replicate]
    split
    · omega
    · rfl

theorem specArgMap_entries (params : List String) (nargs : Nat) :
    ∀ o ∈ specArgMap params nargs, ∀ s, o = some s → s ∈ params := by
  intro o ho s hs
  simp only [specArgMap, List.mem_map, List.mem_range] at ho
  obtain ⟨i, _, hi⟩ := ho
  subst hs
  cases hp : params[i]? with
  | none => rw [hp] at hi; simp at hi
  | some name =>
    rw [hp] at hi
    simp only at hi
    split at hi
    · simp at hi
    · simp only [Option.some.injEq] at hi
      subst hi
      exact List.mem_of_getElem? hp

/-- **the parameter map of the arguments object** on the real data: the `indexOfParameterName` list otto builds
    (cmpl_evaluate.go:28–50) abstracts to the map §10.6 step 11 builds (FnSpec.mkArguments), for every parameter
    list – duplicates, fewer and more arguments than parameters included.  (Lifts CallThm.arguments_map.) -/
theorem arguments_map_real (params : List String) (nargs : Nat) (hne : "" ∉ params) :
    (FnM.indexOfParameterNames params nargs).map optName = specArgMap params nargs := by
  unfold FnM.indexOfParameterNames
  rw [CallThm.arguments_map, ← specArgMap_eq, List.map_map]
  have key : ∀ l : List (Option String), (∀ o ∈ l, o ≠ some "") → l.map (optName ∘ fun o => o.getD "") = l := by
    intro l hl
    induction l with
    | nil => rfl
    | cons o r ih =>
      have ho := hl o List.mem_cons_self
      have hr := ih (fun o' h' => hl o' (List.mem_cons_of_mem _ h'))
      simp only [List.map_cons, hr, Function.comp]
      congr 1
      cases o with
      | none => rfl
      | some s =>
        have : s ≠ "" := fun h => ho (by rw [h])
        simp [optName, this]
  apply key
  intro o ho hs
  exact hne (specArgMap_entries params nargs o ho "" hs)

example : (FnM.indexOfParameterNames ["a", "a"] 1).map optName = [some "a"] ∧
    (FnM.indexOfParameterNames ["a", "a"] 2).map optName = [none, some "a"] ∧
    specArgMap ["a", "b", "a"] 4 = [none, some "b", some "a", none] := by decide

/-! ## entering function code: declaration binding instantiation on the real stash -/

/-- dclStash.setValue on the property list: overwrite the value in place, or append a new mutable,
    non-deletable binding (stash.go:180, :154, :166) -/
def setValueL (x : String) (v : Fn.V) : List (String × FnM.DclProp) → List (String × FnM.DclProp)
  | [] => [(x, ⟨v, true, false, false⟩)]
  | (k, p) :: r => if k = x then (k, { p with value := v }) :: r else (k, p) :: setValueL x v r

/-- `if !hasBinding { createBinding(name, false, value) }` on the property list (cmpl_evaluate.go:100) -/
def createIfAbsentL (x : String) (v : Fn.V) (ps : List (String × FnM.DclProp)) : List (String × FnM.DclProp) :=
  match Fn.lookupA x ps with
  | some _ => ps
  | none => ps ++ [(x, ⟨v, true, false, false⟩)]

theorem setValueL_absent (x : String) (v : Fn.V) : ∀ ps : List (String × FnM.DclProp), Fn.lookupA x ps = none →
    setValueL x v ps = ps ++ [(x, ⟨v, true, false, false⟩)] := by
  intro ps
  induction ps with
  | nil => intro _; rfl
  | cons e r ih =>
    intro h
    obtain ⟨k, p⟩ := e
    by_cases hk : k = x
    · subst hk; simp [Fn.lookupA] at h
    · simp only [Fn.lookupA, hk, if_false] at h
      simp [setValueL, hk, ih h]

theorem setValueL_present (x : String) (v : Fn.V) : ∀ (ps : List (String × FnM.DclProp)) (p : FnM.DclProp),
    Fn.lookupA x ps = some p → setValueL x v ps = Fn.updateA x { p with value := v } ps := by
  intro ps
  induction ps with
  | nil => intro p h; simp [Fn.lookupA] at h
  | cons e r ih =>
    intro p h
    obtain ⟨k, q⟩ := e
    by_cases hk : k = x
    · subst hk; simp only [Fn.lookupA, if_true, Option.some.injEq] at h; subst h; simp [setValueL, Fn.updateA]
    · simp only [Fn.lookupA, hk, if_false] at h
      simp [setValueL, Fn.updateA, hk, ih p h]

/-- every binding of the list is mutable (true of a function stash while its code is being entered) -/
def AllMutable (ps : List (String × FnM.DclProp)) : Prop := ∀ kp ∈ ps, kp.2.mutable_ = true

theorem setValue_fn_run (σ : FnM.St) (st : Nat) (outer : Option Nat) (ps : List (String × FnM.DclProp)) (ar : Option Nat)
    (x : String) (v : Fn.V) (hs : σ.stash? st = some (.fn outer ps ar)) (hm : AllMutable ps) :
    FnM.setValue st x v false σ = .ok () { σ with stashes := Fn.setNth σ.stashes st (.fn outer (setValueL x v ps) ar) } := by
  have hd : FnM.dclProps σ st = ps := by simp [FnM.dclProps, hs]
  simp only [FnM.setValue, bind_run, getSt_run, hasBinding_run, hasBindingP, hs]
  cases hl : Fn.lookupA x ps with
  | none =>
    simp only [Option.isSome_none, Bool.not_false, if_true, FnM.createBinding, bind_run, getSt_run, hs, FnM.dclCreateBinding, hd,
      FnM.setDclProps, setStash_run, setValueL_absent x v ps hl]
  | some p =>
    have hpm : p.mutable_ = true := hm (x, p) (lookupA_mem x ps p hl)
    simp only [Option.isSome_some, Bool.not_true, Bool.false_eq_true, if_false, FnM.setBinding, bind_run, getSt_run, hs,
      FnM.dclSetBinding, hd, hl, hpm, if_true, FnM.setDclProps, setStash_run, setValueL_present x v ps p hl]

theorem allMutable_setValueL (x : String) (v : Fn.V) : ∀ ps, AllMutable ps → AllMutable (setValueL x v ps) := by
  intro ps
  induction ps with
  | nil => intro _ kp h; simp [setValueL] at h; subst h; rfl
  | cons e r ih =>
    intro hm kp h
    obtain ⟨k, p⟩ := e
    by_cases hk : k = x
    · simp only [setValueL, hk, if_true, List.mem_cons] at h
      rcases h with h | h
      · subst h; exact hm (k, p) List.mem_cons_self
      · exact hm kp (List.mem_cons_of_mem _ h)
    · simp only [setValueL, hk, if_false, List.mem_cons] at h
      rcases h with h | h
      · subst h; exact hm (k, p) List.mem_cons_self
      · exact ih (fun q hq => hm q (List.mem_cons_of_mem _ hq)) kp h

/-- the value a binding slot of CallModel stands for: `args` the actual arguments, `fa j` the address of the
    closure made for the j-th function declaration, `ao` the arguments object -/
def interp (args : List Fn.V) (fa : Nat → Nat) (ao : Fn.V) : Call.Slot → Fn.V
  | .arg i => args[i]?.getD .undef
  | .argUndef => .undef
  | .fn j => .ref (fa j)
  | .argumentsObj => ao
  | .undef => .undef

/-- the property list of the stash IS the abstract environment: same names in the same order, each value the
    one its slot stands for, every binding mutable -/
def RelEnv (I : Call.Slot → Fn.V) (ps : List (String × FnM.DclProp)) (e : Call.EnvL) : Prop :=
  ps.map (fun kp => (kp.1, kp.2.value, kp.2.mutable_)) = e.map (fun ks => (ks.1, I ks.2, true))

theorem rel_setValue (I : Call.Slot → Fn.V) (x : String) (sl : Call.Slot) :
    ∀ (e : Call.EnvL) (ps : List (String × FnM.DclProp)), RelEnv I ps e →
      RelEnv I (setValueL x (I sl) ps) (Call.setValue x sl e) := by
  intro e
  induction e with
  | nil =>
    intro ps h
    cases ps with
    | nil => simp [RelEnv, setValueL, Call.setValue]
    | cons a b => simp [RelEnv] at h
  | cons ks r ih =>
    intro ps h
    cases ps with
    | nil => simp [RelEnv] at h
    | cons kp t =>
      obtain ⟨k, p⟩ := kp
      obtain ⟨k', s'⟩ := ks
      simp only [RelEnv, List.map_cons, List.cons.injEq, Prod.mk.injEq] at h
      obtain ⟨⟨hk, hv, hmu⟩, ht⟩ := h
      subst hk
      by_cases hx : k = x
      · simp [RelEnv, setValueL, Call.setValue, hx, hmu, ht]
      · have := ih t ht
        simp only [RelEnv] at this
        simp [RelEnv, setValueL, Call.setValue, hx, hv, hmu, this]

theorem rel_lookup (I : Call.Slot → Fn.V) (x : String) :
    ∀ (e : Call.EnvL) (ps : List (String × FnM.DclProp)), RelEnv I ps e →
      (Fn.lookupA x ps).map (·.value) = (Call.lookup x e).map I := by
  intro e
  induction e with
  | nil => intro ps h; cases ps with
    | nil => rfl
    | cons a b => simp [RelEnv] at h
  | cons ks r ih =>
    intro ps h
    cases ps with
    | nil => simp [RelEnv] at h
    | cons kp t =>
      obtain ⟨k, p⟩ := kp
      obtain ⟨k', s'⟩ := ks
      simp only [RelEnv, List.map_cons, List.cons.injEq, Prod.mk.injEq] at h
      obtain ⟨⟨hk, hv, _⟩, ht⟩ := h
      subst hk
      by_cases hx : k = x
      · simp [Fn.lookupA, Call.lookup, hx, hv]
      · simp [Fn.lookupA, Call.lookup, hx, ih t ht]

theorem rel_createIfAbsent (I : Call.Slot → Fn.V) (x : String) (sl : Call.Slot) (e : Call.EnvL)
    (ps : List (String × FnM.DclProp)) (h : RelEnv I ps e) :
    RelEnv I (createIfAbsentL x (I sl) ps) (Call.createIfAbsent x sl e) := by
  have hl := rel_lookup I x e ps h
  unfold createIfAbsentL Call.createIfAbsent
  cases h1 : Fn.lookupA x ps with
  | none =>
    rw [h1] at hl
    cases h2 : Call.lookup x e with
    | none => simp only [RelEnv] at h ⊢; simp [h]
    | some s => rw [h2] at hl; simp at hl
  | some p =>
    rw [h1] at hl
    cases h2 : Call.lookup x e with
    | none => rw [h2] at hl; simp at hl
    | some s => exact h

theorem setNth_setNth {β : Type} : ∀ (l : List β) (i : Nat) (a b : β), Fn.setNth (Fn.setNth l i a) i b = Fn.setNth l i b := by
  intro l
  induction l with
  | nil => intro i a b; rfl
  | cons h t ih => intro i a b; cases i <;> simp [Fn.setNth, ih]

theorem getElem?_setNth_self {β : Type} : ∀ (l : List β) (i : Nat) (a : β), i < l.length → (Fn.setNth l i a)[i]? = some a := by
  intro l
  induction l with
  | nil => intro i a h; simp at h
  | cons h t ih =>
    intro i a hi
    cases i with
    | zero => simp [Fn.setNth]
    | succ i => simp [Fn.setNth]; exact ih i a (by simpa using hi)

/-- the state whose function stash `st` has the property list `ps'` -/
def withStash (σ : FnM.St) (st : Nat) (outer : Option Nat) (ps' : List (String × FnM.DclProp)) (ar : Option Nat) : FnM.St :=
  { σ with stashes := Fn.setNth σ.stashes st (.fn outer ps' ar) }

theorem withStash_stash (σ : FnM.St) (st : Nat) (outer : Option Nat) (ps ps' : List (String × FnM.DclProp)) (ar : Option Nat)
    (hs : σ.stash? st = some (.fn outer ps ar)) : (withStash σ st outer ps' ar).stash? st = some (.fn outer ps' ar) := by
  simp only [withStash, FnM.St.stash?]
  apply getElem?_setNth_self
  simp only [FnM.St.stash?] at hs
  exact (List.getElem?_eq_some_iff.1 hs).1

theorem withStash_withStash (σ : FnM.St) (st : Nat) (outer : Option Nat) (ps1 ps2 : List (String × FnM.DclProp)) (ar : Option Nat) :
    withStash (withStash σ st outer ps1 ar) st outer ps2 ar = withStash σ st outer ps2 ar := by
  simp [withStash, setNth_setNth]

theorem withStash_self (σ : FnM.St) (st : Nat) (outer : Option Nat) (ps : List (String × FnM.DclProp)) (ar : Option Nat)
    (hs : σ.stash? st = some (.fn outer ps ar)) : withStash σ st outer ps ar = σ := by
  simp only [withStash]
  rw [setNth_self σ.stashes st _ hs]

/-- cmpl_evaluate.go:36–54 on the real stash = CallModel.bindParams on the abstract environment -/
theorem bindParams_real (I : Call.Slot → Fn.V) (args : List Fn.V) (st : Nat) (outer ar : Option Nat)
    (hI : ∀ i, I (Call.paramSlot args.length i) = args[i]?.getD .undef) :
    ∀ (params : List String) (i : Nat) (σ : FnM.St) (ps : List (String × FnM.DclProp)) (e : Call.EnvL),
      σ.stash? st = some (.fn outer ps ar) → AllMutable ps → RelEnv I ps e →
      ∃ ps', FnM.bindParams st params args i σ = .ok () (withStash σ st outer ps' ar) ∧
        RelEnv I ps' (Call.bindParams args.length params i e) ∧ AllMutable ps' := by
  intro params
  induction params with
  | nil =>
    intro i σ ps e hs hm hr
    exact ⟨ps, by simp [FnM.bindParams, withStash_self σ st outer ps ar hs], hr, hm⟩
  | cons p rest ih =>
    intro i σ ps e hs hm hr
    have hstep := setValue_fn_run σ st outer ps ar p (args[i]?.getD .undef) hs hm
    have hs1 := withStash_stash σ st outer ps (setValueL p (args[i]?.getD .undef) ps) ar hs
    have hr1 : RelEnv I (setValueL p (args[i]?.getD .undef) ps) (Call.setValue p (Call.paramSlot args.length i) e) := by
      rw [← hI i]; exact rel_setValue I p _ e ps hr
    obtain ⟨ps', hrun, hrel, hmut⟩ := ih (i+1) (withStash σ st outer _ ar) _ _ hs1 (allMutable_setValueL p _ ps hm) hr1
    refine ⟨ps', ?_, hrel, hmut⟩
    simp only [FnM.bindParams, bind_run]
    rw [hstep]
    simp only []
    rw [show ({ σ with stashes := Fn.setNth σ.stashes st (.fn outer (setValueL p (args[i]?.getD .undef) ps) ar) } : FnM.St) =
        withStash σ st outer (setValueL p (args[i]?.getD .undef) ps) ar from rfl, hrun, withStash_withStash]

theorem curScope_run (σ : FnM.St) (sc : FnM.Scope) (rest : List FnM.Scope) (h : σ.scopes = sc :: rest) :
    FnM.curScope σ = .ok sc σ := by
  simp [FnM.curScope, h]

theorem allMutable_createIfAbsentL (x : String) (v : Fn.V) (ps : List (String × FnM.DclProp)) (hm : AllMutable ps) :
    AllMutable (createIfAbsentL x v ps) := by
  unfold createIfAbsentL
  cases Fn.lookupA x ps with
  | some _ => exact hm
  | none =>
    intro kp h
    rcases List.mem_append.1 h with h | h
    · exact hm kp h
    · simp at h; subst h; rfl

/-- cmpl_evaluate.go:100 cmplVariableDeclaration on the real stash = CallModel.bindVars -/
theorem variableDeclaration_real (I : Call.Slot → Fn.V) (st : Nat) (outer ar : Option Nat) (sc : FnM.Scope)
    (rest : List FnM.Scope) (hv : sc.variable_ = st) (he : sc.eval = false) (hI : I .undef = .undef) :
    ∀ (vs : List String) (σ : FnM.St) (ps : List (String × FnM.DclProp)) (e : Call.EnvL),
      σ.scopes = sc :: rest → σ.stash? st = some (.fn outer ps ar) → AllMutable ps → RelEnv I ps e →
      ∃ ps', FnM.variableDeclaration vs false σ = .ok () (withStash σ st outer ps' ar) ∧
        RelEnv I ps' (Call.bindVars vs e) ∧ AllMutable ps' := by
  intro vs
  induction vs with
  | nil =>
    intro σ ps e _ hs hm hr
    exact ⟨ps, by simp [FnM.variableDeclaration, withStash_self σ st outer ps ar hs], hr, hm⟩
  | cons name r ih =>
    intro σ ps e hsc hs hm hr
    have hd : FnM.dclProps σ st = ps := by simp [FnM.dclProps, hs]
    have hs1 := withStash_stash σ st outer ps (createIfAbsentL name .undef ps) ar hs
    have hr1 : RelEnv I (createIfAbsentL name .undef ps) (Call.createIfAbsent name .undef e) := by
      rw [← hI]; exact rel_createIfAbsent I name .undef e ps hr
    have hsc1 : (withStash σ st outer (createIfAbsentL name .undef ps) ar).scopes = sc :: rest := hsc
    obtain ⟨ps', hrun, hrel, hmut⟩ := ih (withStash σ st outer _ ar) _ _ hsc1 hs1 (allMutable_createIfAbsentL name .undef ps hm) hr1
    refine ⟨ps', ?_, hrel, hmut⟩
    rw [withStash_withStash] at hrun
    rw [FnM.variableDeclaration]
    simp only [bind_run, curScope_run σ sc rest hsc, hv, he, hasBinding_run, hasBindingP, hs]
    cases hl : Fn.lookupA name ps with
    | none =>
      have hc : createIfAbsentL name .undef ps = ps ++ [(name, ⟨.undef, true, false, false⟩)] := by simp [createIfAbsentL, hl]
      rw [hc] at hrun
      simp only [Option.isSome_none, Bool.not_false, if_true, FnM.createBinding, bind_run, getSt_run, hs, FnM.dclCreateBinding, hd,
        FnM.setDclProps, setStash_run]
      exact hrun
    | some p =>
      have hc : createIfAbsentL name .undef ps = ps := by simp [createIfAbsentL, hl]
      rw [hc, withStash_self σ st outer ps ar hs] at hrun
      simp only [Option.isSome_some, Bool.not_true, Bool.false_eq_true, if_false, pure_run]
      exact hrun

theorem allocObj_run (o : FnM.Obj) (σ : FnM.St) : FnM.allocObj o σ = .ok σ.heap.length { σ with heap := σ.heap ++ [o] } := rfl

theorem setNth_length {β : Type} : ∀ (l : List β) (i : Nat) (a : β), (Fn.setNth l i a).length = l.length := by
  intro l
  induction l with
  | nil => intro i a; rfl
  | cons h t ih => intro i a; cases i <;> simp [Fn.setNth, ih]

theorem getElem?_setNth_ne {β : Type} : ∀ (l : List β) (i j : Nat) (a : β), i ≠ j → (Fn.setNth l i a)[j]? = l[j]? := by
  intro l
  induction l with
  | nil => intro i j a _; rfl
  | cons h t ih =>
    intro i j a hij
    cases i with
    | zero => cases j with
      | zero => exact absurd rfl hij
      | succ j => simp [Fn.setNth]
    | succ i => cases j with
      | zero => simp [Fn.setNth]
      | succ j => simp [Fn.setNth]; exact ih i j a (by omega)

/-- global.go:191 newNodeFunction: two objects are allocated at the end of the heap, nothing else changes -/
theorem newNodeFunction_run (node : Fn.FE) (stash : Nat) (σ : FnM.St) :
    ∃ σ', FnM.newNodeFunction node stash σ = .ok σ.heap.length σ' ∧ σ'.stashes = σ.stashes ∧ σ'.scopes = σ.scopes ∧
      σ'.heap.length = σ.heap.length + 2 ∧ σ'.labels = σ.labels ∧ σ'.trace = σ.trace := by
  let fo : FnM.Obj := FnM.fnObject node stash
  let po : FnM.Obj := FnM.plainObject
  let σ2 : FnM.St := { σ with heap := (σ.heap ++ [fo]) ++ [po] }
  have h1 : σ2.obj? σ.heap.length = some fo := by
    simp [FnM.St.obj?, σ2, List.getElem?_append]
  have hna1 : ∀ ipn st, fo.val ≠ .arguments ipn st := by intro ipn st h; simp [fo, FnM.fnObject] at h
  have hl1 : Fn.lookupA "prototype" fo.props = none := by simp [fo, FnM.fnObject, Fn.lookupA]
  have e1 := defineOwnProperty_nonargs σ2 σ.heap.length fo "prototype" (FnM.p100 (.ref (σ.heap.length + 1))) false h1 hna1
  have e2 := odop_new σ2 σ.heap.length fo "prototype" (FnM.p100 (.ref (σ.heap.length + 1))) false h1 hl1
  let fo' : FnM.Obj := { fo with props := fo.props ++ [("prototype", FnM.p100 (.ref (σ.heap.length + 1)))] }
  let σ3 : FnM.St := { σ2 with heap := Fn.setNth σ2.heap σ.heap.length fo' }
  have hlen3 : σ3.heap.length = σ.heap.length + 2 := by
    simp [σ3, σ2, setNth_length]
  have h2 : σ3.obj? (σ.heap.length + 1) = some po := by
    simp only [FnM.St.obj?, σ3, σ2]
    rw [getElem?_setNth_ne _ _ _ _ (by omega)]
    simp [List.getElem?_append]
  have hna2 : ∀ ipn st, po.val ≠ .arguments ipn st := by intro ipn st h; simp [po, FnM.plainObject] at h
  have e3 := defineOwnProperty_nonargs σ3 (σ.heap.length + 1) po "constructor" (FnM.p101 (.ref σ.heap.length)) false h2 hna2
  have e4 := odop_new σ3 (σ.heap.length + 1) po "constructor" (FnM.p101 (.ref σ.heap.length)) false h2 rfl
  refine ⟨{ σ3 with heap := Fn.setNth σ3.heap (σ.heap.length + 1) { po with props := po.props ++ [("constructor", FnM.p101 (.ref σ.heap.length))] } }, ?_, rfl, rfl, ?_, rfl, rfl⟩
  · unfold FnM.newNodeFunction
    simp only [bind_run, allocObj_run, FnM.newObject, FnM.defineProperty, List.length_append, List.length_singleton]
    rw [show ({ ({ σ with heap := σ.heap ++ [fo] } : FnM.St) with heap := ({ σ with heap := σ.heap ++ [fo] } : FnM.St).heap ++ [po] } : FnM.St) = σ2 from rfl]
    rw [e1, e2]
    simp only []
    rw [show ({ σ2 with heap := Fn.setNth σ2.heap σ.heap.length { fo with props := fo.props ++ [("prototype", FnM.p100 (.ref (σ.heap.length + 1)))] } } : FnM.St) = σ3 from rfl]
    rw [e3, e4]
    rfl
  · simp [setNth_length, hlen3]

def declNames : Fn.FDecls → List String
  | .nil => []
  | .cons name _ r => name :: declNames r

theorem declStep_run (σ : FnM.St) (st : Nat) (outer : Option Nat) (ps : List (String × FnM.DclProp)) (ar : Option Nat)
    (x : String) (v : Fn.V) (hs : σ.stash? st = some (.fn outer ps ar)) (hm : AllMutable ps) :
    (do let has ← FnM.hasBinding st x
        if !has then FnM.createBinding st x false v else FnM.setBinding st x v false) σ =
      .ok () (withStash σ st outer (setValueL x v ps) ar) := by
  have hd : FnM.dclProps σ st = ps := by simp [FnM.dclProps, hs]
  simp only [bind_run, hasBinding_run, hasBindingP, hs]
  cases hl : Fn.lookupA x ps with
  | none =>
    simp only [Option.isSome_none, Bool.not_false, if_true, FnM.createBinding, bind_run, getSt_run, hs, FnM.dclCreateBinding, hd,
      FnM.setDclProps, setStash_run, setValueL_absent x v ps hl]
    rfl
  | some p =>
    have hpm : p.mutable_ = true := hm (x, p) (lookupA_mem x ps p hl)
    simp only [Option.isSome_some, Bool.not_true, Bool.false_eq_true, if_false, FnM.setBinding, bind_run, getSt_run, hs,
      FnM.dclSetBinding, hd, hl, hpm, if_true, FnM.setDclProps, setStash_run, setValueL_present x v ps p hl]
    rfl

/-- cmpl_evaluate.go:79 cmplFunctionDeclaration on the real stash = CallModel.bindFns: the j-th declaration's
    closure is the object allocated at `h0 + 2·j` (a function object and its prototype object per declaration) -/
theorem functionDeclaration_real (I : Call.Slot → Fn.V) (st : Nat) (outer ar : Option Nat) (sc : FnM.Scope)
    (rest : List FnM.Scope) (hv : sc.variable_ = st) (he : sc.eval = false) (hst0 : st ≠ 0) (h0 : Nat)
    (hI : ∀ j, I (.fn j) = .ref (h0 + 2 * j)) :
    ∀ (ds : Fn.FDecls) (n : Nat) (σ : FnM.St) (ps : List (String × FnM.DclProp)) (e : Call.EnvL) (j : Nat),
      (declNames ds).length < n → σ.scopes = sc :: rest → σ.stash? st = some (.fn outer ps ar) → AllMutable ps →
      RelEnv I ps e → σ.heap.length = h0 + 2 * j →
      ∃ ps' σ', FnM.functionDeclaration n ds false σ = .ok () σ' ∧ σ'.stash? st = some (.fn outer ps' ar) ∧
        RelEnv I ps' (Call.bindFns (declNames ds) j e) ∧ AllMutable ps' ∧ σ'.scopes = σ.scopes ∧
        σ'.heap.length = h0 + 2 * (j + (declNames ds).length) := by
  intro ds
  generalize hk : (declNames ds).length = k
  induction k generalizing ds with
  | zero =>
    intro n σ ps e j hn hsc hs hm hr hh
    cases ds with
    | cons name f r => simp [declNames] at hk
    | nil =>
      cases n with
      | zero => simp [declNames] at hn
      | succ n => exact ⟨ps, σ, rfl, hs, hr, hm, rfl, by simp [declNames, hh]⟩
  | succ k ih =>
    intro n σ ps e j hn hsc hs hm hr hh
    cases ds with
    | nil => simp [declNames] at hk
    | cons name f r =>
    have hkr : (declNames r).length = k := by simp [declNames] at hk; exact hk
    have ih := ih r hkr
    cases n with
    | zero => simp at hn
    | succ n =>
      obtain ⟨σ1, hnf, hst1, hsc1, hlen1, _, _⟩ := newNodeFunction_run f sc.lexical σ
      have hs1 : σ1.stash? st = some (.fn outer ps ar) := by simp only [FnM.St.stash?, hst1]; exact hs
      have hstep := declStep_run σ1 st outer ps ar name (.ref σ.heap.length) hs1 hm
      have hr1 : RelEnv I (setValueL name (.ref σ.heap.length) ps) (Call.setValue name (.fn j) e) := by
        rw [hh, ← hI j]; exact rel_setValue I name (.fn j) e ps hr
      let σ2 := withStash σ1 st outer (setValueL name (.ref σ.heap.length) ps) ar
      have hs2 : σ2.stash? st = some (.fn outer (setValueL name (.ref σ.heap.length) ps) ar) := withStash_stash σ1 st outer ps _ ar hs1
      have hsc2 : σ2.scopes = sc :: rest := by show σ1.scopes = _; rw [hsc1]; exact hsc
      have hh2 : σ2.heap.length = h0 + 2 * (j + 1) := by show σ1.heap.length = _; rw [hlen1, hh]; omega
      obtain ⟨ps', σ', hrun, hs', hrel, hmut, hscf, hlen⟩ :=
        ih n σ2 _ _ (j+1) (by simp [declNames] at hn; omega) hsc2 hs2 (allMutable_setValueL name _ ps hm) hr1 hh2
      refine ⟨ps', σ', ?_, hs', ?_, hmut, ?_, ?_⟩
      · have hd1 : FnM.dclProps σ1 st = ps := by simp [FnM.dclProps, hs1]
        rw [FnM.functionDeclaration]
        simp only [bind_run, curScope_run σ sc rest hsc, hnf, hv, he, hasBinding_run, hasBindingP, hs1]
        cases hl : Fn.lookupA name ps with
        | none =>
          simp only [Option.isSome_none, Bool.not_false, if_true, FnM.createBinding, bind_run, getSt_run, hs1, FnM.dclCreateBinding,
            hd1, FnM.setDclProps, setStash_run]
          rw [← setValueL_absent name (.ref σ.heap.length) ps hl]
          exact hrun
        | some p =>
          have hpm : p.mutable_ = true := hm (name, p) (lookupA_mem name ps p hl)
          have hb0 : (st == 0) = false := by simp [hst0]
          simp only [Option.isSome_some, Bool.not_true, hb0, Bool.false_eq_true, if_false, pure_run, FnM.setBinding, bind_run, getSt_run, hs1,
            FnM.dclSetBinding, hd1, hl, hpm, if_true, FnM.setDclProps, setStash_run]
          have hp : ({ value := .ref σ.heap.length, mutable_ := true, deletable := p.deletable, readable := p.readable } : FnM.DclProp) =
              { p with value := .ref σ.heap.length } := by simp [hpm]
          rw [hp, ← setValueL_present name (.ref σ.heap.length) ps p hl]
          exact hrun
      · simpa [declNames, Call.bindFns] using hrel
      · rw [hscf]; show σ1.scopes = _; exact hsc1
      · rw [hlen]; simp [declNames]; omega

/-! ## entering function code: §10.5 on FnSpec's environment record -/

/-- the variable list of a declarative record IS the abstract environment -/
def RelEnvS (I : Call.Slot → Fn.V) (vars : List (String × Fn.V)) (e : Call.EnvL) : Prop :=
  vars = e.map fun ks => (ks.1, I ks.2)

def setVarS (x : String) (v : Fn.V) (vars : List (String × Fn.V)) (overwrite : Bool) : List (String × Fn.V) :=
  match Fn.lookupA x vars with
  | some _ => if overwrite then Fn.updateA x v vars else vars
  | none => vars ++ [(x, v)]

/-- the state whose declarative record `i` has the variable list `vars'` -/
def withVars (σ : Fn.St) (i : Nat) (e : Fn.Env) (vars' : List (String × Fn.V)) : Fn.St :=
  σ.setEnv i { e with vars := vars' }

theorem bindIn_env (σ : Fn.St) (i : Nat) (e : Fn.Env) (x : String) (v : Fn.V) (ow : Bool) (hi : i ≠ 0)
    (he : σ.envs[i]? = some e) : Fn.bindIn σ i x v ow = withVars σ i e (setVarS x v e.vars ow) := by
  simp only [Fn.bindIn, hi, if_false, he, setVarS, withVars]
  cases Fn.lookupA x e.vars with
  | none => rfl
  | some w =>
    cases ow with
    | true => rfl
    | false =>
      simp only [Bool.false_eq_true, if_false, Fn.St.setEnv]
      have : ({ e with vars := e.vars } : Fn.Env) = e := rfl
      rw [this, setNth_self σ.envs i e he]

theorem relS_lookup (I : Call.Slot → Fn.V) (x : String) : ∀ (e : Call.EnvL),
    Fn.lookupA x (e.map fun ks => (ks.1, I ks.2)) = (Call.lookup x e).map I := by
  intro e
  induction e with
  | nil => rfl
  | cons ks r ih =>
    obtain ⟨k, s⟩ := ks
    by_cases hk : k = x
    · simp [Fn.lookupA, Call.lookup, hk]
    · simp [Fn.lookupA, Call.lookup, hk, ih]

theorem relS_update (I : Call.Slot → Fn.V) (x : String) (sl : Call.Slot) : ∀ (e : Call.EnvL),
    (Call.lookup x e).isSome = true →
    Fn.updateA x (I sl) (e.map fun ks => (ks.1, I ks.2)) = (Call.setValue x sl e).map fun ks => (ks.1, I ks.2) := by
  intro e
  induction e with
  | nil => intro h; simp [Call.lookup] at h
  | cons ks r ih =>
    intro h
    obtain ⟨k, s⟩ := ks
    by_cases hk : k = x
    · simp [Fn.updateA, Call.setValue, hk]
    · simp only [Call.lookup, hk, if_false] at h
      simp [Fn.updateA, Call.setValue, hk, ih h]

theorem setValue_absent (x : String) (sl : Call.Slot) : ∀ (e : Call.EnvL), Call.lookup x e = none →
    Call.setValue x sl e = e ++ [(x, sl)] := by
  intro e
  induction e with
  | nil => intro _; rfl
  | cons ks r ih =>
    intro h
    obtain ⟨k, s⟩ := ks
    by_cases hk : k = x
    · simp [Call.lookup, hk] at h
    · simp only [Call.lookup, hk, if_false] at h
      simp [Call.setValue, hk, ih h]

theorem relS_setValue (I : Call.Slot → Fn.V) (x : String) (sl : Call.Slot) (vars : List (String × Fn.V)) (e : Call.EnvL)
    (h : RelEnvS I vars e) : RelEnvS I (setVarS x (I sl) vars true) (Call.setValue x sl e) := by
  unfold RelEnvS at h ⊢
  subst h
  unfold setVarS
  rw [relS_lookup]
  cases hl : Call.lookup x e with
  | none => simp [setValue_absent x sl e hl]
  | some s => simp only [Option.map_some, if_true]; exact relS_update I x sl e (by simp [hl])

theorem relS_createIfAbsent (I : Call.Slot → Fn.V) (x : String) (sl : Call.Slot) (vars : List (String × Fn.V)) (e : Call.EnvL)
    (h : RelEnvS I vars e) : RelEnvS I (setVarS x (I sl) vars false) (Call.createIfAbsent x sl e) := by
  unfold RelEnvS at h ⊢
  subst h
  unfold setVarS Call.createIfAbsent
  rw [relS_lookup]
  cases hl : Call.lookup x e with
  | none => simp
  | some s => simp

theorem withVars_env (σ : Fn.St) (i : Nat) (e : Fn.Env) (vars' : List (String × Fn.V)) (he : σ.envs[i]? = some e) :
    (withVars σ i e vars').envs[i]? = some { e with vars := vars' } := by
  simp only [withVars, Fn.St.setEnv]
  exact getElem?_setNth_self σ.envs i _ (List.getElem?_eq_some_iff.1 he).1

theorem withVars_withVars (σ : Fn.St) (i : Nat) (e : Fn.Env) (v1 v2 : List (String × Fn.V)) :
    withVars (withVars σ i e v1) i { e with vars := v1 } v2 = withVars σ i e v2 := by
  simp [withVars, Fn.St.setEnv, setNth_setNth]

theorem withVars_self (σ : Fn.St) (i : Nat) (e : Fn.Env) (he : σ.envs[i]? = some e) : withVars σ i e e.vars = σ := by
  simp only [withVars, Fn.St.setEnv]
  have : ({ e with vars := e.vars } : Fn.Env) = e := rfl
  rw [this, setNth_self σ.envs i e he]

/-- §10.5 step 4 (FnSpec.callFn: the fold over the parameters) = CallModel.bindParams -/
theorem paramsFold_spec (I : Call.Slot → Fn.V) (args : List Fn.V) (i : Nat) (hi : i ≠ 0)
    (hI : ∀ k, I (Call.paramSlot args.length k) = args[k]?.getD .undef) :
    ∀ (ps : List String) (j : Nat) (σ : Fn.St) (env0 : Fn.Env) (e : Call.EnvL),
      σ.envs[i]? = some env0 → RelEnvS I env0.vars e →
      ∃ vars', ((List.range' j ps.length).zip ps).foldl
          (fun s (kn : Nat × String) => Fn.bindIn s i kn.2 (args[kn.1]?.getD .undef) true) σ = withVars σ i env0 vars' ∧
        RelEnvS I vars' (Call.bindParams args.length ps j e) := by
  intro ps
  induction ps with
  | nil =>
    intro j σ env0 e he hr
    exact ⟨env0.vars, by simp [withVars_self σ i env0 he], hr⟩
  | cons p rest ih =>
    intro j σ env0 e he hr
    have h1 := bindIn_env σ i env0 p (args[j]?.getD .undef) true hi he
    have he1 := withVars_env σ i env0 (setVarS p (args[j]?.getD .undef) env0.vars true) he
    have hr1 : RelEnvS I (setVarS p (args[j]?.getD .undef) env0.vars true) (Call.setValue p (Call.paramSlot args.length j) e) := by
      rw [← hI j]; exact relS_setValue I p _ env0.vars e hr
    obtain ⟨vars', hrun, hrel⟩ := ih (j+1) (withVars σ i env0 _) { env0 with vars := setVarS p (args[j]?.getD .undef) env0.vars true } _ he1 hr1
    refine ⟨vars', ?_, hrel⟩
    simp only [List.length_cons, List.range'_succ, List.zip_cons_cons, List.foldl_cons, h1]
    rw [hrun, withVars_withVars]

/-- §10.5 step 8 = CallModel.bindVars -/
theorem varsFold_spec (I : Call.Slot → Fn.V) (i : Nat) (hi : i ≠ 0) (hI : I .undef = .undef) :
    ∀ (vs : List String) (σ : Fn.St) (env0 : Fn.Env) (e : Call.EnvL),
      σ.envs[i]? = some env0 → RelEnvS I env0.vars e →
      ∃ vars', vs.foldl (fun s x => Fn.bindIn s i x .undef false) σ = withVars σ i env0 vars' ∧
        RelEnvS I vars' (Call.bindVars vs e) := by
  intro vs
  induction vs with
  | nil =>
    intro σ env0 e he hr
    exact ⟨env0.vars, by simp [withVars_self σ i env0 he], hr⟩
  | cons x rest ih =>
    intro σ env0 e he hr
    have h1 := bindIn_env σ i env0 x .undef false hi he
    have he1 := withVars_env σ i env0 (setVarS x .undef env0.vars false) he
    have hr1 : RelEnvS I (setVarS x .undef env0.vars false) (Call.createIfAbsent x .undef e) := by
      rw [← hI]; exact relS_createIfAbsent I x .undef env0.vars e hr
    obtain ⟨vars', hrun, hrel⟩ := ih (withVars σ i env0 _) { env0 with vars := setVarS x .undef env0.vars false } _ he1 hr1
    refine ⟨vars', ?_, hrel⟩
    simp only [List.foldl_cons, h1]
    rw [hrun, withVars_withVars]

theorem mkFunc_run (σ : Fn.St) (f : Fn.FE) (env : Nat) :
    (Fn.mkFunc σ f env).1 = .ref σ.heap.length ∧ (Fn.mkFunc σ f env).2.envs = σ.envs ∧
      (Fn.mkFunc σ f env).2.heap.length = σ.heap.length + 2 := by
  simp [Fn.mkFunc, Fn.St.alloc, Fn.St.setObj, setNth_length]

/-- §10.5 step 5 (FnSpec.bindDecls) = CallModel.bindFns: the j-th closure is the object at `h0 + 2·j` -/
theorem bindDecls_spec (I : Call.Slot → Fn.V) (i : Nat) (hi : i ≠ 0) (c : Fn.Ctx) (h0 : Nat)
    (hI : ∀ j, I (.fn j) = .ref (h0 + 2 * j)) :
    ∀ (k : Nat) (ds : Fn.FDecls), (declNames ds).length = k →
    ∀ (n : Nat) (σ : Fn.St) (env0 : Fn.Env) (e : Call.EnvL) (j : Nat),
      k < n → σ.envs[i]? = some env0 → RelEnvS I env0.vars e → σ.heap.length = h0 + 2 * j →
      ∃ vars' σ', Fn.bindDecls n ds i c σ = .ok () σ' ∧ σ'.envs[i]? = some { env0 with vars := vars' } ∧
        RelEnvS I vars' (Call.bindFns (declNames ds) j e) ∧ σ'.heap.length = h0 + 2 * (j + k) := by
  intro k
  induction k with
  | zero =>
    intro ds hk n σ env0 e j hn he hr hh
    cases ds with
    | cons name f r => simp [declNames] at hk
    | nil =>
      cases n with
      | zero => omega
      | succ n => exact ⟨env0.vars, σ, rfl, he, hr, by simp [hh]⟩
  | succ k ih =>
    intro ds hk n σ env0 e j hn he hr hh
    cases ds with
    | nil => simp [declNames] at hk
    | cons name f r =>
    have hkr : (declNames r).length = k := by simp [declNames] at hk; exact hk
    cases n with
    | zero => omega
    | succ n =>
      obtain ⟨hv1, henv1, hlen1⟩ := mkFunc_run σ f c.env
      have he1 : (Fn.mkFunc σ f c.env).2.envs[i]? = some env0 := by rw [henv1]; exact he
      have h1 := bindIn_env (Fn.mkFunc σ f c.env).2 i env0 name (Fn.mkFunc σ f c.env).1 true hi he1
      have hr1 : RelEnvS I (setVarS name (Fn.mkFunc σ f c.env).1 env0.vars true) (Call.setValue name (.fn j) e) := by
        rw [hv1, hh, ← hI j]; exact relS_setValue I name (.fn j) env0.vars e hr
      have he2 := withVars_env (Fn.mkFunc σ f c.env).2 i env0 (setVarS name (Fn.mkFunc σ f c.env).1 env0.vars true) he1
      have hh2 : (withVars (Fn.mkFunc σ f c.env).2 i env0 (setVarS name (Fn.mkFunc σ f c.env).1 env0.vars true)).heap.length = h0 + 2 * (j + 1) := by
        show (Fn.mkFunc σ f c.env).2.heap.length = _
        rw [hlen1, hh]; omega
      obtain ⟨vars', σ', hrun, henv', hrel, hlen⟩ := ih r hkr n _ _ _ (j+1) (by omega) he2 hr1 hh2
      refine ⟨vars', σ', ?_, henv', ?_, ?_⟩
      · rw [Fn.bindDecls]
        simp only []
        rw [h1]; exact hrun
      · simpa [declNames, Call.bindFns] using hrel
      · rw [hlen]; omega

/-! ## index names: `idx? (toString n) = some n` -/

theorem digitsVal_eq (l : List Char) (hd : ∀ c ∈ l, c.isDigit = true) :
    ∀ acc, Fn.digitsVal l acc = some (Nat.ofDigitChars 10 l acc) := by
  induction l with
  | nil => intro acc; rfl
  | cons c r ih =>
    intro acc
    have hc := hd c List.mem_cons_self
    have hc' : '0' ≤ c ∧ c ≤ '9' := by
      simp only [Char.isDigit, Bool.and_eq_true, decide_eq_true_eq] at hc
      exact ⟨by simpa [Char.le_def] using hc.1, by simpa [Char.le_def] using hc.2⟩
    simp only [Fn.digitsVal, hc', and_self, if_true, Nat.ofDigitChars_cons]
    rw [ih (fun c' h' => hd c' (List.mem_cons_of_mem _ h'))]
    congr 2
    rw [Nat.mul_comm]

theorem ofDigitChars_lt (l : List Char) (hd : ∀ c ∈ l, c.isDigit = true) : Nat.ofDigitChars 10 l 0 < 10 ^ l.length := by
  induction l with
  | nil => simp
  | cons c r ih =>
    have hr := ih (fun c' h' => hd c' (List.mem_cons_of_mem _ h'))
    have hc := hd c List.mem_cons_self
    have hc9 : c.toNat - '0'.toNat ≤ 9 := by
      simp only [Char.isDigit, Bool.and_eq_true, decide_eq_true_eq, UInt32.le_iff_toNat_le] at hc
      have h57 : c.val.toNat ≤ 57 := hc.2
      have hcn : c.toNat = c.val.toNat := rfl
      have h0 : '0'.toNat = 48 := rfl
      omega
    rw [Nat.ofDigitChars_cons, Nat.ofDigitChars_eq_ofDigitChars_zero]
    simp only [Nat.mul_zero, Nat.zero_add, List.length_cons, Nat.pow_succ]
    have : 10 ^ r.length * (c.toNat - '0'.toNat) ≤ 10 ^ r.length * 9 := Nat.mul_le_mul_left _ hc9
    omega

theorem idx_toString (n : Nat) (h : n < 4294967295) : Fn.idx? (toString n) = some n := by
  have hl : (toString n).toList = Nat.toDigits 10 n := by rw [Nat.toString_eq_repr]; exact Nat.toList_repr
  have hdig : ∀ c ∈ Nat.toDigits 10 n, c.isDigit = true := fun c hc => Nat.isDigit_of_mem_toDigits (by decide) (by decide) hc
  have hval : Nat.ofDigitChars 10 (Nat.toDigits 10 n) 0 = n := Nat.ofDigitChars_ten_toDigits
  unfold Fn.idx?
  rw [hl]
  cases hk : Nat.toDigits 10 n with
  | nil => exact absurd hk Nat.toDigits_ne_nil
  | cons c r =>
    rw [hk] at hdig hval
    by_cases hc0 : c = '0'
    · subst hc0
      cases r with
      | nil =>
        have : n = 0 := by simpa [Nat.ofDigitChars_cons] using hval.symm
        subst this; rfl
      | cons c2 r2 =>
        exfalso
        have hlen : ¬ (Nat.toDigits 10 n).length ≤ (c2 :: r2).length := by rw [hk]; simp
        rw [Nat.length_toDigits_le_iff (by decide) (by simp)] at hlen
        have hlt := ofDigitChars_lt (c2 :: r2) (fun c' h' => hdig c' (List.mem_cons_of_mem _ h'))
        have : Nat.ofDigitChars 10 ('0' :: c2 :: r2) 0 = Nat.ofDigitChars 10 (c2 :: r2) 0 := by
          rw [Nat.ofDigitChars_cons]; simp
        rw [this] at hval
        omega
    · have hdv := digitsVal_eq (c :: r) hdig 0
      rw [hval] at hdv
      split
      · rename_i heq; cases heq
      · rename_i heq; simp at heq; exact absurd heq.1 hc0
      · rename_i heq; simp at heq; exact absurd heq.1 hc0
      · simp [hdv, h]

/-! ## entering function code: the whole instantiation, spec side and model side -/

theorem interp_param (args : List Fn.V) (fa : Nat → Nat) (ao : Fn.V) (k : Nat) :
    interp args fa ao (Call.paramSlot args.length k) = args[k]?.getD .undef := by
  unfold Call.paramSlot
  by_cases h : k < args.length
  · simp [h, interp]
  · have : args[k]? = none := by simp; omega
    simp [h, interp, this]

theorem mkArguments_run (σ : Fn.St) (ps : List String) (args : List Fn.V) (i : Nat) (fv : Fn.V) :
    (Fn.mkArguments σ ps args i fv).1 = .ref σ.heap.length ∧ (Fn.mkArguments σ ps args i fv).2.envs = σ.envs := by
  simp [Fn.mkArguments, Fn.St.alloc]

/-- **§10.5 on FnSpec's record**: after `Fn.instantiate` the new declarative record holds exactly CallModel.specInst,
    each slot standing for: the i-th argument, the closure allocated for the j-th declaration (`h0 + 2·j`), the
    arguments object (allocated after the closures) -/
theorem instantiate_spec (n i : Nat) (c : Fn.Ctx) (ps : List String) (args : List Fn.V) (fv : Fn.V) (ds : Fn.FDecls)
    (vs : List String) (σ1 : Fn.St) (env0 : Fn.Env) (hi : i ≠ 0) (hn : (declNames ds).length < n)
    (he : σ1.envs[i]? = some env0) (hv0 : env0.vars = []) :
    ∃ σ5 vars', Fn.instantiate n i c ps args fv ds vs σ1 = .ok () σ5 ∧ σ5.envs[i]? = some { env0 with vars := vars' } ∧
      RelEnvS (interp args (fun j => σ1.heap.length + 2 * j) (.ref (σ1.heap.length + 2 * (declNames ds).length))) vars'
        (Call.specInst ps args.length (declNames ds) vs) := by
  let I := interp args (fun j => σ1.heap.length + 2 * j) (.ref (σ1.heap.length + 2 * (declNames ds).length))
  have hIp : ∀ k, I (Call.paramSlot args.length k) = args[k]?.getD .undef := interp_param args _ _
  have hr0 : RelEnvS I env0.vars [] := by simp [RelEnvS, hv0]
  -- step 4
  obtain ⟨v2, hrun2, hrel2⟩ := paramsFold_spec I args i hi hIp ps 0 σ1 env0 [] he hr0
  have he2 := withVars_env σ1 i env0 v2 he
  have hh2 : (withVars σ1 i env0 v2).heap.length = σ1.heap.length + 2 * 0 := rfl
  -- step 5
  obtain ⟨v3, σ3, hrun3, he3, hrel3, hlen3⟩ := bindDecls_spec I i hi c σ1.heap.length (fun j => rfl) (declNames ds).length ds rfl n
    (withVars σ1 i env0 v2) { env0 with vars := v2 } _ 0 hn he2 hrel2 hh2
  -- steps 6–7
  have hl3 := relS_lookup I "arguments" (Call.bindFns (declNames ds) 0 (Call.bindParams args.length ps 0 []))
  have hv3 : v3 = (Call.bindFns (declNames ds) 0 (Call.bindParams args.length ps 0 [])).map fun ks => (ks.1, I ks.2) := hrel3
  unfold Fn.instantiate
  simp only [List.range_eq_range']
  have hfold : (List.zip (List.range' 0 ps.length) ps).foldl (fun s (x : Nat × String) => Fn.bindIn s i x.2 (args[x.1]?.getD .undef) true) σ1 =
      withVars σ1 i env0 v2 := hrun2
  simp only [hfold, hrun3, he3]
  cases hla : Call.lookup "arguments" (Call.bindFns (declNames ds) 0 (Call.bindParams args.length ps 0 [])) with
  | some s =>
    have hl : Fn.lookupA "arguments" v3 = some (I s) := by rw [hv3, hl3, hla]; rfl
    simp only [hl]
    obtain ⟨v5, hrun5, hrel5⟩ := varsFold_spec I i hi rfl vs σ3 { env0 with vars := v3 } _ he3 hrel3
    refine ⟨_, v5, rfl, ?_, ?_⟩
    · rw [hrun5]; exact withVars_env σ3 i _ v5 he3
    · simpa [Call.specInst, Call.specArgs, hla] using hrel5
  | none =>
    have hl : Fn.lookupA "arguments" v3 = none := by rw [hv3, hl3, hla]; rfl
    simp only [hl]
    obtain ⟨hav, haenv⟩ := mkArguments_run σ3 ps args i fv
    have he4 : (Fn.mkArguments σ3 ps args i fv).2.envs[i]? = some { env0 with vars := v3 } := by rw [haenv]; exact he3
    have hb := bindIn_env (Fn.mkArguments σ3 ps args i fv).2 i { env0 with vars := v3 } "arguments" (Fn.mkArguments σ3 ps args i fv).1 true hi he4
    have hao : (Fn.mkArguments σ3 ps args i fv).1 = I .argumentsObj := by
      rw [hav, hlen3]; simp [I, interp]
    have hrel4 : RelEnvS I (setVarS "arguments" (Fn.mkArguments σ3 ps args i fv).1 v3 true)
        (Call.setValue "arguments" .argumentsObj (Call.bindFns (declNames ds) 0 (Call.bindParams args.length ps 0 []))) := by
      rw [hao]; exact relS_setValue I "arguments" .argumentsObj v3 _ hrel3
    have he5 := withVars_env (Fn.mkArguments σ3 ps args i fv).2 i { env0 with vars := v3 } (setVarS "arguments" (Fn.mkArguments σ3 ps args i fv).1 v3 true) he4
    obtain ⟨v5, hrun5, hrel5⟩ := varsFold_spec I i hi rfl vs _ _ _ he5 hrel4
    refine ⟨vs.foldl (fun s x => Fn.bindIn s i x .undef false)
        (withVars (Fn.mkArguments σ3 ps args i fv).2 i { env0 with vars := v3 }
          (setVarS "arguments" (Fn.mkArguments σ3 ps args i fv).1 v3 true)), v5, ?_, ?_, ?_⟩
    · simp only [hb]
    · rw [hrun5]; exact withVars_env _ i _ v5 he5
    · rw [setValue_absent "arguments" .argumentsObj _ hla] at hrel5
      simpa [Call.specInst, Call.specArgs, hla] using hrel5

/-- nothing but the heap's objects changes, and no object changes its `value` (class data) -/
structure HeapOnly (σ σ' : FnM.St) : Prop where
  stashes : σ'.stashes = σ.stashes
  scopes : σ'.scopes = σ.scopes
  len : σ'.heap.length = σ.heap.length
  val : ∀ a, (σ'.obj? a).map (·.val) = (σ.obj? a).map (·.val)

theorem HeapOnly.refl (σ : FnM.St) : HeapOnly σ σ := ⟨rfl, rfl, rfl, fun _ => rfl⟩

theorem HeapOnly.trans {σ1 σ2 σ3 : FnM.St} (h1 : HeapOnly σ1 σ2) (h2 : HeapOnly σ2 σ3) : HeapOnly σ1 σ3 :=
  ⟨h2.stashes.trans h1.stashes, h2.scopes.trans h1.scopes, h2.len.trans h1.len, fun a => (h2.val a).trans (h1.val a)⟩

theorem heapOnly_setObj (σ : FnM.St) (a : Nat) (o o' : FnM.Obj) (ho : σ.obj? a = some o) (hv : o'.val = o.val) :
    HeapOnly σ { σ with heap := Fn.setNth σ.heap a o' } := by
  refine ⟨rfl, rfl, setNth_length _ _ _, ?_⟩
  intro b
  simp only [FnM.St.obj?]
  by_cases hb : a = b
  · subst hb
    have hlt : a < σ.heap.length := (List.getElem?_eq_some_iff.1 ho).1
    rw [getElem?_setNth_self σ.heap a o' hlt]
    simp only [FnM.St.obj?] at ho
    simp [ho, hv]
  · rw [getElem?_setNth_ne σ.heap a b o' hb]

theorem odop_frame (σ : FnM.St) (a : Nat) (x : String) (d : FnM.Pty) :
    ∃ b σ', FnM.objectDefineOwnProperty a x d false σ = .ok b σ' ∧ HeapOnly σ σ' := by
  unfold FnM.objectDefineOwnProperty
  simp only [bind_run, getSt_run]
  cases ho : σ.obj? a with
  | none => exact ⟨false, σ, rfl, HeapOnly.refl σ⟩
  | some o =>
    simp only []
    cases hl : Fn.lookupA x o.props with
    | none =>
      simp only [bind_run, setObj_run, pure_run]
      exact ⟨true, _, rfl, heapOnly_setObj σ a o _ ho rfl⟩
    | some p =>
      simp only []
      split
      · exact ⟨false, σ, rfl, HeapOnly.refl σ⟩
      · split
        · exact ⟨false, σ, rfl, HeapOnly.refl σ⟩
        · simp only [bind_run, setObj_run, pure_run]
          exact ⟨true, _, rfl, heapOnly_setObj σ a o _ ho rfl⟩

theorem defineOwnProperty_unmapped (σ : FnM.St) (a : Nat) (o : FnM.Obj) (x : String) (d : FnM.Pty) (thr : Bool)
    (ho : σ.obj? a = some o) (hm : mapGetP σ o x = none) :
    FnM.defineOwnProperty a x d thr σ = FnM.objectDefineOwnProperty a x d thr σ := by
  unfold FnM.defineOwnProperty
  cases hv : o.val with
  | arguments ipn st => simp only [bind_run, getSt_run, ho, hv, argumentsMapGet_run, hm]
  | _ => simp only [bind_run, getSt_run, ho, hv]

theorem mapGetP_nonindex (σ : FnM.St) (o : FnM.Obj) (x : String) (h : Fn.idx? x = none) : mapGetP σ o x = none := by
  unfold mapGetP
  cases o.val <;> simp [FnM.arrayIndex, h]

/-- type_arguments.go:7 newArgumentsObject: one object is allocated at the end of the heap; it is an arguments
    object with the given parameter map -/
theorem newArgumentsObject_run (ipn : List String) (stash len : Nat) (σ : FnM.St) :
    ∃ σ', FnM.newArgumentsObject ipn stash len σ = .ok σ.heap.length σ' ∧ σ'.stashes = σ.stashes ∧ σ'.scopes = σ.scopes ∧
      σ'.heap.length = σ.heap.length + 1 ∧ (σ'.obj? σ.heap.length).map (·.val) = some (.arguments ipn stash) := by
  unfold FnM.newArgumentsObject
  simp only [bind_run, allocObj_run, FnM.defineProperty]
  generalize hao : FnM.argumentsObject ipn stash = ao
  let σ1 : FnM.St := { σ with heap := σ.heap ++ [ao] }
  have h1 : σ1.obj? σ.heap.length = some ao := by simp [FnM.St.obj?, σ1]
  have hm : mapGetP σ1 ao "length" = none := mapGetP_nonindex σ1 ao "length" (by decide)
  rw [show ({ σ with heap := σ.heap ++ [ao] } : FnM.St) = σ1 from rfl, defineOwnProperty_unmapped σ1 _ ao "length" _ false h1 hm]
  obtain ⟨b, σ', hrun, hf⟩ := odop_frame σ1 σ.heap.length "length" (FnM.p101 (.num len))
  rw [hrun]
  refine ⟨σ', rfl, hf.stashes, hf.scopes, ?_, ?_⟩
  · rw [hf.len]; simp [σ1]
  · rw [hf.val, h1, ← hao]; rfl

theorem defineUnmapped_frame (a : Nat) (ipn : List String) (stash : Nat) (args : List Fn.V) :
    ∀ (k index : Nat) (σ : FnM.St), (σ.obj? a).map (·.val) = some (.arguments ipn stash) → index + k < 4294967295 →
      ∃ σ', FnM.defineUnmapped a ipn args k index σ = .ok () σ' ∧ HeapOnly σ σ' := by
  intro k
  induction k with
  | zero => intro index σ _ _; exact ⟨σ, rfl, HeapOnly.refl σ⟩
  | succ k ih =>
    intro index σ hv hb
    rw [FnM.defineUnmapped]
    by_cases hm : (ipn[index]?.getD "" != "") = true
    · simp only [hm, if_true, bind_run, pure_run]
      exact ih (index + 1) σ hv (by omega)
    · simp only [hm, Bool.false_eq_true, if_false, bind_run, FnM.defineProperty]
      cases ho : σ.obj? a with
      | none => rw [ho] at hv; simp at hv
      | some o =>
        rw [ho] at hv
        simp only [Option.map_some, Option.some.injEq] at hv
        have hmg : mapGetP σ o (toString index) = none := by
          simp only [mapGetP, hv, FnM.arrayIndex, idx_toString index (by omega)]
          cases hp : ipn[index]? with
          | none => rfl
          | some pn =>
            rw [hp] at hm
            simp only [Option.getD_some, bne_iff_ne, ne_eq, Decidable.not_not] at hm
            simp [hm]
        rw [defineOwnProperty_unmapped σ a o _ _ false ho hmg]
        obtain ⟨b, σ1, hrun, hf⟩ := odop_frame σ a (toString index) (FnM.p111 (args[index]?.getD .undef))
        rw [hrun]
        simp only [pure_run]
        have hv1 : (σ1.obj? a).map (·.val) = some (.arguments ipn stash) := by rw [hf.val, ho]; simp [hv]
        obtain ⟨σ', hrun', hf'⟩ := ih (index + 1) σ1 hv1 (by omega)
        exact ⟨σ', hrun', hf.trans hf'⟩

theorem relEnv_nil (I : Call.Slot → Fn.V) : RelEnv I [] [] := rfl
theorem allMutable_nil : AllMutable [] := fun _ h => by simp at h

/-- **§10.5 on otto's function stash**: what cmplCallNodeFunction does before the body runs leaves, in the fresh
    function stash, exactly CallModel.modelInst — each slot standing for the i-th argument, the closure allocated
    for the j-th declaration, the arguments object (allocated BEFORE the closures, unlike ES5's order) -/
theorem instantiateNode_real (n function st : Nat) (ps vs : List String) (ds : Fn.FDecls) (args : List Fn.V) (σ : FnM.St)
    (outer : Option Nat) (sc : FnM.Scope) (rest : List FnM.Scope)
    (hsc : σ.scopes = sc :: rest) (hlex : sc.lexical = st) (hvar : sc.variable_ = st) (hev : sc.eval = false)
    (hst0 : st ≠ 0)
    (hs : σ.stash? st = some (.fn outer [] none)) (hn : (declNames ds).length < n) (hlen : args.length < 4294967295) :
    ∃ σ' ps' ar', FnM.instantiateNode n function st ps vs ds args σ = .ok () σ' ∧
      σ'.stash? st = some (.fn outer ps' ar') ∧
      RelEnv (interp args (fun j => σ.heap.length + (if ps.contains "arguments" then 0 else 1) + 2 * j) (.ref σ.heap.length)) ps'
        (Call.modelInst ps args.length (declNames ds) vs) := by
  let hF := σ.heap.length + (if ps.contains "arguments" then 0 else 1)
  let I := interp args (fun j => hF + 2 * j) (.ref σ.heap.length)
  have hIp : ∀ k, I (Call.paramSlot args.length k) = args[k]?.getD .undef := interp_param args _ _
  have hIf : ∀ j, I (.fn j) = .ref (hF + 2 * j) := fun j => rfl
  obtain ⟨ps1, hrun1, hrel1, hmut1⟩ := bindParams_real I args st outer none hIp ps 0 σ [] [] hs allMutable_nil (relEnv_nil I)
  obtain ⟨σ1, hσ1⟩ : ∃ s, s = withStash σ st outer ps1 none := ⟨_, rfl⟩
  have hs1 : σ1.stash? st = some (.fn outer ps1 none) := by rw [hσ1]; exact withStash_stash σ st outer [] ps1 none hs
  have hsc1 : σ1.scopes = sc :: rest := by rw [hσ1]; exact hsc
  have hσ1len : σ1.heap.length = σ.heap.length := by rw [hσ1]; rfl
  unfold FnM.instantiateNode
  simp only [bind_run, curScope_run σ sc rest hsc, hlex, hrun1]
  rw [← hσ1]
  cases hc : ps.contains "arguments" with
  | true =>
    have hF0 : hF = σ.heap.length := by simp only [hF, hc, if_true, Nat.add_zero]
    try simp only [Bool.not_true, Bool.false_eq_true, if_false, pure_run]
    obtain ⟨ps2, σ2, hrun2, hs2, hrel2, hmut2, hsc2, _⟩ := functionDeclaration_real I st outer none sc rest hvar hev hst0 hF hIf ds n σ1 ps1 _ 0 hn hsc1 hs1 hmut1 hrel1
      (by rw [hσ1len]; omega)
    have hsc2' : σ2.scopes = sc :: rest := by rw [hsc2]; exact hsc1
    obtain ⟨ps3, hrun3, hrel3, _⟩ := variableDeclaration_real I st outer none sc rest hvar hev rfl vs σ2 ps2 _ hsc2' hs2 hmut2 hrel2
    refine ⟨_, ps3, none, ?_, withStash_stash σ2 st outer ps2 ps3 none hs2, ?_⟩
    · simp only [bind_run]
      rw [hrun2]
      simp only []; rw [hrun3]
    · have hmem : "arguments" ∈ ps := by simpa using hc
      simpa [Call.modelInst, Call.modelArgs, hc, I, hF, hmem] using hrel3
  | false =>
    have hF1 : hF = σ.heap.length + 1 := by simp only [hF, hc, Bool.false_eq_true, if_false]
    try simp only [Bool.not_false, if_true, bind_run]
    -- the arguments object
    obtain ⟨σ2, hrunA, hst2, hsc2, hlen2, hval2⟩ := newArgumentsObject_run (FnM.indexOfParameterNames ps args.length) st args.length σ1
    rw [hσ1len] at hrunA hval2 hlen2
    simp only [hrunA]
    -- callee
    cases ho2 : σ2.obj? σ.heap.length with
    | none => rw [ho2] at hval2; simp at hval2
    | some o2 =>
      have hm2 : mapGetP σ2 o2 "callee" = none := mapGetP_nonindex σ2 o2 "callee" (by decide)
      obtain ⟨b3, σ3, hrun3, hf3⟩ := odop_frame σ2 σ.heap.length "callee" (FnM.p101 (.ref function))
      simp only [FnM.defineProperty, defineOwnProperty_unmapped σ2 _ o2 "callee" _ false ho2 hm2, hrun3, getSt_run]
      have hs3 : σ3.stash? st = some (.fn outer ps1 none) := by
        simp only [FnM.St.stash?, hf3.stashes, hst2]; exact hs1
      simp only [hs3, setStash_run]
      -- stash.arguments, then the binding `arguments`
      let σ4 : FnM.St := { σ3 with stashes := Fn.setNth σ3.stashes st (.fn outer ps1 (some σ.heap.length)) }
      have hs4 : σ4.stash? st = some (.fn outer ps1 (some σ.heap.length)) := by
        simp only [FnM.St.stash?, σ4]
        exact getElem?_setNth_self _ _ _ (by simp only [FnM.St.stash?] at hs3; exact (List.getElem?_eq_some_iff.1 hs3).1)
      have hrun5 := setValue_fn_run σ4 st outer ps1 (some σ.heap.length) "arguments" (.ref σ.heap.length) hs4 hmut1
      rw [show ({ σ3 with stashes := Fn.setNth σ3.stashes st (.fn outer ps1 (some σ.heap.length)) } : FnM.St) = σ4 from rfl, hrun5]
      simp only []
      let ps5 := setValueL "arguments" (.ref σ.heap.length) ps1
      let σ5 : FnM.St := { σ4 with stashes := Fn.setNth σ4.stashes st (.fn outer ps5 (some σ.heap.length)) }
      have hs5 : σ5.stash? st = some (.fn outer ps5 (some σ.heap.length)) := by
        simp only [FnM.St.stash?, σ5]
        exact getElem?_setNth_self _ _ _ (by simp only [FnM.St.stash?] at hs4; exact (List.getElem?_eq_some_iff.1 hs4).1)
      have hv5 : (σ5.obj? σ.heap.length).map (·.val) = some (.arguments (FnM.indexOfParameterNames ps args.length) st) := by
        show (σ3.obj? σ.heap.length).map (·.val) = _
        rw [hf3.val]; exact hval2
      obtain ⟨σ6, hrun6, hf6⟩ := defineUnmapped_frame σ.heap.length (FnM.indexOfParameterNames ps args.length) st args
        args.length 0 σ5 hv5 (by omega)
      rw [show ({ σ4 with stashes := Fn.setNth σ4.stashes st (.fn outer (setValueL "arguments" (.ref σ.heap.length) ps1) (some σ.heap.length)) } : FnM.St) = σ5 from rfl, hrun6]
      simp only []
      have hs6 : σ6.stash? st = some (.fn outer ps5 (some σ.heap.length)) := by
        simp only [FnM.St.stash?, hf6.stashes]; exact hs5
      have hsc6 : σ6.scopes = sc :: rest := by
        rw [hf6.scopes]; show σ3.scopes = _; rw [hf3.scopes, hsc2]; exact hsc1
      have hlen6 : σ6.heap.length = hF + 2 * 0 := by
        rw [hf6.len]; show σ3.heap.length = _; rw [hf3.len, hlen2, hF1]
      have hrel5 : RelEnv I ps5 (Call.setValue "arguments" .argumentsObj (Call.bindParams args.length ps 0 [])) :=
        rel_setValue I "arguments" .argumentsObj _ ps1 hrel1
      obtain ⟨ps7, σ7, hrun7, hs7, hrel7, hmut7, hsc7, _⟩ := functionDeclaration_real I st outer (some σ.heap.length) sc rest hvar hev hst0 hF hIf ds n σ6 ps5 _ 0 hn hsc6 hs6
        (allMutable_setValueL "arguments" _ ps1 hmut1) hrel5 hlen6
      have hsc7' : σ7.scopes = sc :: rest := by rw [hsc7]; exact hsc6
      obtain ⟨ps8, hrun8, hrel8, _⟩ := variableDeclaration_real I st outer (some σ.heap.length) sc rest hvar hev rfl vs σ7 ps7 _ hsc7' hs7 hmut7 hrel7
      refine ⟨_, ps8, some σ.heap.length, ?_, withStash_stash σ7 st outer ps7 ps8 _ hs7, ?_⟩
      · rw [hrun7]; simp only []; rw [hrun8]
      · have hnm : "arguments" ∉ ps := by simpa using hc
        simpa [Call.modelInst, Call.modelArgs, hc, I, hF, hnm] using hrel8

/-! ## `this` of a call, [[HasInstance]] -/

/-- cmpl_evaluate_expression.go: `this = objectValue(rf.base)` for a property reference, undefined otherwise -/
def modelThis (r : FnM.Ref) : Fn.V :=
  match r with
  | .prop (some b) _ => .ref b
  | _ => .undef

/-- §10.4.3 step 2 / runtime.go enterFunctionScope: undefined or null become the global object -/
def effThis (v : Fn.V) : Fn.V :=
  match v with
  | .undef => .ref Fn.gObj
  | .null => .ref Fn.gObj
  | t => t

/-- **`this` of a call `x(…)`** (§11.2.3 step 6.b with §10.2.1.1.6 / §10.2.1.2.6 ImplicitThisValue): the binding object for a
    callee found in a `with` environment; the global object otherwise (otto hands the global object over for a
    callee found in the global stash, ES5 undefined, which entering the function turns into the global object) -/
theorem this_spec (σ : FnM.St) (x : String) (h0 : WF0 σ) (res : Option Nat) :
    effThis (modelThis (refOf σ x res)) =
      effThis (match res with | some j => Fn.implicitThis (absSt σ) j | none => .undef) := by
  cases res with
  | none => rfl
  | some j =>
    simp only [refOf, Fn.implicitThis]
    by_cases hj : j = 0
    · subst hj
      have h0' : σ.stash? 0 = some (.obj none FnM.gObj) := h0
      simp [FnM.newReference, h0', modelThis, effThis, FnM.gObj, Fn.gObj]
    · simp only [hj, if_false, absSt_env]
      cases hs : σ.stash? j with
      | none => simp [FnM.newReference, hs, modelThis]
      | some st =>
        cases st with
        | obj outer o => simp [FnM.newReference, hs, modelThis, absStash]
        | dcl outer ps => simp [FnM.newReference, hs, modelThis, absStash, absDcl]
        | fn outer ps ar => simp [FnM.newReference, hs, modelThis, absStash, absDcl]

/-- type_function.go hasInstance: `value := of.prototype; for value != nil { if value == prototypeObject … }` is
    FnSpec's walk (§15.3.5.3 step 4) on the abstraction -/
theorem protoWalk_spec (σ : FnM.St) (p : Nat) : ∀ (n x : Nat),
    FnM.protoWalk σ n ((σ.obj? x).bind (·.proto)) p = Fn.hasInstance.walk p (absSt σ) n x := by
  intro n
  induction n with
  | zero => intro x; cases (σ.obj? x).bind (·.proto) <;> rfl
  | succ n ih =>
    intro x
    rw [Fn.hasInstance.walk]
    simp only [absSt_obj]
    cases hx : σ.obj? x with
    | none => rfl
    | some ox =>
      simp only [Option.bind_some, Option.map_some]
      have hp : (absObj ox).proto = ox.proto := rfl
      rw [hp]
      cases hq : ox.proto with
      | none => rfl
      | some q =>
        simp only [FnM.protoWalk]
        by_cases hqp : q = p
        · simp [hqp]
        · simp only [hqp, if_false]
          have := ih q
          cases hoq : σ.obj? q with
          | none =>
            rw [hoq] at this
            simp only [Option.bind_none] at this
            rw [← this]
            cases n <;> rfl
          | some oq =>
            rw [hoq] at this
            simp only [Option.bind_some] at this
            exact this

/-! ## a first evaluator simulation: read-only identifier expressions -/

/-- the read-only, allocation-free, call-free fragment: literals, `this`, identifiers, + - < === !, typeof, (0, e), log(e), ?: -/
def ro : Fn.FE → Bool
  | .lit _ => true
  | .this => true
  | .var _ => true
  | .add a b => ro a && ro b
  | .sub a b => ro a && ro b
  | .lt a b => ro a && ro b
  | .seq a b => ro a && ro b
  | .not a => ro a
  | .typeof a => ro a
  | .val a => ro a
  | .log a => ro a
  | .cond t a b => ro t && ro a && ro b
  | _ => false

/-- the identifiers of such an expression -/
def idents : Fn.FE → List String
  | .var x => [x]
  | .add a b => idents a ++ idents b
  | .sub a b => idents a ++ idents b
  | .lt a b => idents a ++ idents b
  | .seq a b => idents a ++ idents b
  | .not a => idents a
  | .typeof a => idents a
  | .val a => idents a
  | .log a => idents a
  | .cond t a b => idents t ++ idents a ++ idents b
  | _ => []

/-- otto's class strings agree with the class data (`Function` ⇔ callable data, `Error`, `Arguments`) -/
def ClsWF (σ : FnM.St) : Prop :=
  ∀ a o, σ.obj? a = some o →
    (o.cls == "Function") = Fn.isFnKind (absKind o.val) ∧
    (o.cls == "Error") = (match o.val with | .error _ => true | _ => false) ∧
    (o.cls == "Arguments") = (match o.val with | .arguments .. => true | _ => false)

/-- everything the read-only simulation needs of a state; none of it mentions the host log -/
structure ROInv (σ : FnM.St) (xs : List String) : Prop where
  vis : ∀ x ∈ xs, Visible σ x
  wf0 : WF0 σ
  nap : NoArgsProto σ
  aw : ArgsWF σ
  ew : ErrWF σ
  sr : StashReadable σ
  cls : ClsWF σ

theorem getPropertyP_trace (σ : FnM.St) (t : List String) (x : String) : ∀ n a,
    getPropertyP { σ with trace := t } n a x = getPropertyP σ n a x := by
  intro n; induction n with
  | zero => intro a; rfl
  | succ n ih =>
    intro a
    simp only [getPropertyP]
    have h1 : ownP { σ with trace := t } a x = ownP σ a x := rfl
    have h2 : ({ σ with trace := t } : FnM.St).obj? a = σ.obj? a := rfl
    rw [h1, h2]
    cases ownP σ a x with
    | some p => rfl
    | none =>
      cases σ.obj? a with
      | none => rfl
      | some o => cases hq : o.proto with
        | none => simp [hq]
        | some q => simp only [hq]; exact ih q

theorem getP_trace (σ : FnM.St) (t : List String) (a : Nat) (x : String) : getP { σ with trace := t } a x = getP σ a x := by
  unfold getP
  have h2 : ({ σ with trace := t } : FnM.St).obj? a = σ.obj? a := rfl
  have h3 : ({ σ with trace := t } : FnM.St).heap.length = σ.heap.length := rfl
  rw [h2, h3, getPropertyP_trace]
  rfl

theorem ROInv.trace {σ : FnM.St} {xs : List String} (h : ROInv σ xs) (t : List String) : ROInv { σ with trace := t } xs :=
  ⟨h.vis, h.wf0, h.nap, h.aw, fun a o n ho hv => by rw [getP_trace]; exact h.ew a o n ho hv, h.sr, h.cls⟩

theorem ROInv.mono {σ : FnM.St} {xs ys : List String} (h : ROInv σ xs) (hs : ∀ y ∈ ys, y ∈ xs) : ROInv σ ys :=
  ⟨fun y hy => h.vis y (hs y hy), h.wf0, h.nap, h.aw, h.ew, h.sr, h.cls⟩

theorem tokV_spec (σ : FnM.St) (v : Fn.V) (hc : ClsWF σ) (hew : ErrWF σ) :
    FnM.tokV v σ = .ok (Fn.tokV (absSt σ) v) σ := by
  cases v with
  | ref a =>
    simp only [FnM.tokV, Fn.tokV, bind_run, getSt_run, absSt_obj]
    cases ho : σ.obj? a with
    | none => rfl
    | some o =>
      obtain ⟨h1, h2, h3⟩ := hc a o ho
      simp only [Option.map_some]
      have hk : (absObj o).kind = absKind o.val := rfl
      rw [hk]
      cases hv : o.val with
      | none => rw [hv] at h1 h2 h3; simp [absKind, Fn.isFnKind] at h1 h2 h3; simp [h1, h2, h3, absKind]
      | nodeFn nd st => rw [hv] at h1; simp [absKind, Fn.isFnKind] at h1; simp [h1, absKind]
      | bindFn t th as => rw [hv] at h1; simp [absKind, Fn.isFnKind] at h1; simp [h1, absKind]
      | native nm => rw [hv] at h1; simp [absKind, Fn.isFnKind] at h1; simp [h1, absKind]
      | arguments ipn st => rw [hv] at h1 h2 h3; simp [absKind, Fn.isFnKind] at h1 h2 h3; simp [h1, h2, h3, absKind]
      | string s => rw [hv] at h1 h2 h3; simp [absKind, Fn.isFnKind] at h1 h2 h3; simp [h1, h2, h3, absKind]
      | error nm =>
        rw [hv] at h1 h2 h3; simp [absKind, Fn.isFnKind] at h1 h2 h3
        have := hew a o nm ho hv
        simp [h1, h2, absKind, objGet_run, this, Fn.toStr]
  | _ => rfl

/-- the execution context FnSpec threads, read off otto's current scope -/
def ctxOf (sc : FnM.Scope) : Fn.Ctx := { env := sc.lexical, venv := sc.variable_, this := .ref sc.this }

/-- GetValue of the value of an expression -/
def evalV (n : Nat) (e : Fn.FE) : FnM.M Fn.V := FnM.evalE n e >>= FnM.resolve

/-- the outcome of a read-only expression: out of fuel, or the same value / the same error on both sides, with at
    most the host log extended -/
def ROSim (n : Nat) (e : Fn.FE) (sc : FnM.Scope) (σ : FnM.St) : Prop :=
  evalV n e σ = .fuel ∨
  (∃ v t, evalV n e σ = .ok v { σ with trace := t } ∧
      Fn.evalE n e (ctxOf sc) (absSt σ) = .ok v (absSt { σ with trace := t })) ∨
  (∃ nm t, evalV n e σ = .throw (.err nm) { σ with trace := t } ∧
      Fn.evalE n e (ctxOf sc) (absSt σ) = Fn.throwErr (absSt { σ with trace := t }) nm)

theorem self_trace (σ : FnM.St) : ({ σ with trace := σ.trace } : FnM.St) = σ := rfl

theorem ro_var (n : Nat) (x : String) (sc : FnM.Scope) (rest : List FnM.Scope) (σ : FnM.St) (xs : List String)
    (hx : x ∈ xs) (hI : ROInv σ xs) (hsc : σ.scopes = sc :: rest) : ROSim (n+1) (.var x) sc σ := by
  have hv := hI.vis x hx
  have hres := resolve_spec σ x hv hI.wf0 (σ.stashes.length + 1) sc.lexical
  simp only [ROSim, evalV, FnM.evalE, bind_run, curScope_run σ sc rest hsc, stashFuel_run, hres, pure_run, FnM.resolve, Fn.evalE,
    ctxOf, absSt_envs_length]
  cases hr : Fn.envResolve (absSt σ) (σ.stashes.length + 1) sc.lexical x with
  | none =>
    right; right
    exact ⟨"ReferenceError", σ.trace, rfl, rfl⟩
  | some j =>
    have hg := getValue_ident_spec σ x hv hI.wf0 hI.nap hI.aw hI.ew hI.sr j
    simp only [refOf]
    cases hm : FnM.refGetValue (FnM.newReference σ j x) σ with
    | fuel => left; rfl
    | ok v σ' =>
      rw [hm] at hg
      simp only [absR] at hg
      -- reading does not change the state
      have hσ : σ' = σ := by
        cases hs : σ.stash? j with
        | none => simp [FnM.newReference, hs, FnM.refGetValue, FnM.getBinding] at hm; exact hm.2.symm
        | some st =>
          cases st with
          | obj outer o =>
            simp only [FnM.newReference, hs, FnM.refGetValue, objGetA_run σ x hv, objGet_run] at hm
            cases hm; rfl
          | dcl outer ps =>
            simp only [FnM.newReference, hs, FnM.refGetValue, FnM.getBinding, bind_run, getSt_run, dclGetBinding_run] at hm
            cases hm; rfl
          | fn outer ps ar =>
            simp only [FnM.newReference, hs, FnM.refGetValue, FnM.getBinding, bind_run, getSt_run, dclGetBinding_run] at hm
            cases hm; rfl
      subst hσ
      right; left
      exact ⟨v, σ'.trace, rfl, hg.symm⟩
    | throw t σ' =>
      -- a resolved identifier reference never throws on GetValue
      exfalso
      cases hs : σ.stash? j with
      | none => simp [FnM.newReference, hs, FnM.refGetValue, FnM.getBinding] at hm
      | some st =>
        cases st with
        | obj outer o => simp [FnM.newReference, hs, FnM.refGetValue, objGetA_run σ x hv, objGet_run] at hm
        | dcl outer ps => simp [FnM.newReference, hs, FnM.refGetValue, FnM.getBinding, dclGetBinding_run] at hm
        | fn outer ps ar => simp [FnM.newReference, hs, FnM.refGetValue, FnM.getBinding, dclGetBinding_run] at hm

theorem evalV_bin (n : Nat) (a b : Fn.FE) (f : Fn.V → Fn.V → Fn.V) (e : Fn.FE)
    (he : FnM.evalE (n+1) e = (do let lv ← FnM.resolve (← FnM.evalE n a); let rv ← FnM.resolve (← FnM.evalE n b); pure (FnM.MV.val (f lv rv)))) :
    evalV (n+1) e = (do let lv ← evalV n a; let rv ← evalV n b; pure (f lv rv)) := by
  funext σ
  simp only [evalV, he, bind_run]
  cases FnM.evalE n a σ with
  | fuel => rfl
  | throw t s => rfl
  | ok mv s =>
    simp only []
    cases FnM.resolve mv s with
    | fuel => rfl
    | throw t s1 => rfl
    | ok lv s1 =>
      simp only []
      cases FnM.evalE n b s1 with
      | fuel => rfl
      | throw t s2 => rfl
      | ok mv2 s2 =>
        simp only []
        cases FnM.resolve mv2 s2 with
        | fuel => rfl
        | throw t s3 => rfl
        | ok rv s3 => rfl

theorem evalV_un (n : Nat) (a : Fn.FE) (f : Fn.V → Fn.V) (e : Fn.FE)
    (he : FnM.evalE (n+1) e = (do let v ← FnM.resolve (← FnM.evalE n a); pure (FnM.MV.val (f v)))) :
    evalV (n+1) e = (do let v ← evalV n a; pure (f v)) := by
  funext σ
  simp only [evalV, he, bind_run]
  cases FnM.evalE n a σ with
  | fuel => rfl
  | throw t s => rfl
  | ok mv s =>
    simp only []
    cases FnM.resolve mv s with
    | fuel => rfl
    | throw t s1 => rfl
    | ok lv s1 => rfl

/-- two sub-evaluations in sequence, combined by a function of the two values -/
theorem ro_bin (n : Nat) (a b e : Fn.FE) (f : Fn.V → Fn.V → Fn.V) (sc : FnM.Scope) (rest : List FnM.Scope) (xs : List String)
    (hm : evalV (n+1) e = (do let lv ← evalV n a; let rv ← evalV n b; pure (f lv rv)))
    (hs : ∀ (c : Fn.Ctx) (s : Fn.St), Fn.evalE (n+1) e c s =
      match Fn.evalE n a c s with
      | .ok va s1 => (match Fn.evalE n b c s1 with
        | .ok vb s2 => .ok (f va vb) s2
        | .throw t s2 => .throw t s2
        | .fuel => .fuel)
      | .throw t s1 => .throw t s1
      | .fuel => .fuel)
    (iha : ∀ σ, ROInv σ xs → σ.scopes = sc :: rest → ROSim n a sc σ)
    (ihb : ∀ σ, ROInv σ xs → σ.scopes = sc :: rest → ROSim n b sc σ)
    (σ : FnM.St) (hI : ROInv σ xs) (hsc : σ.scopes = sc :: rest) : ROSim (n+1) e sc σ := by
  unfold ROSim
  rw [hm, hs]
  simp only [bind_run]
  rcases iha σ hI hsc with h | ⟨va, t1, h1, h1'⟩ | ⟨nm, t1, h1, h1'⟩
  · left; rw [h]
  · rw [h1, h1']
    simp only []
    rcases ihb { σ with trace := t1 } (hI.trace t1) hsc with h | ⟨vb, t2, h2, h2'⟩ | ⟨nm, t2, h2, h2'⟩
    · left; rw [h]
    · right; left
      exact ⟨f va vb, t2, by rw [h2] <;> rfl, by rw [h2'] <;> rfl⟩
    · right; right
      refine ⟨nm, t2, by rw [h2] <;> rfl, ?_⟩
      rw [h2'] <;> rfl
  · right; right
    refine ⟨nm, t1, by rw [h1] <;> rfl, ?_⟩
    rw [h1'] <;> rfl

theorem ro_un (n : Nat) (a e : Fn.FE) (f : Fn.V → Fn.V) (sc : FnM.Scope) (rest : List FnM.Scope) (xs : List String)
    (hm : evalV (n+1) e = (do let v ← evalV n a; pure (f v)))
    (hs : ∀ (c : Fn.Ctx) (s : Fn.St), Fn.evalE (n+1) e c s =
      match Fn.evalE n a c s with
      | .ok va s1 => .ok (f va) s1
      | .throw t s1 => .throw t s1
      | .fuel => .fuel)
    (iha : ∀ σ, ROInv σ xs → σ.scopes = sc :: rest → ROSim n a sc σ)
    (σ : FnM.St) (hI : ROInv σ xs) (hsc : σ.scopes = sc :: rest) : ROSim (n+1) e sc σ := by
  unfold ROSim
  rw [hm, hs]
  simp only [bind_run]
  rcases iha σ hI hsc with h | ⟨va, t1, h1, h1'⟩ | ⟨nm, t1, h1, h1'⟩
  · left; rw [h]
  · right; left
    exact ⟨f va, t1, by rw [h1] <;> rfl, by rw [h1'] <;> rfl⟩
  · right; right
    refine ⟨nm, t1, by rw [h1] <;> rfl, ?_⟩
    rw [h1'] <;> rfl

theorem evalV_cond (n : Nat) (t a b : Fn.FE) :
    evalV (n+1) (.cond t a b) = (do let tv ← evalV n t; if Fn.truthy tv then evalV n a else evalV n b) := by
  funext σ
  have he : FnM.evalE (n+1) (.cond t a b) = (do
      let test ← FnM.evalE n t
      let tv ← FnM.resolve test
      if Fn.truthy tv then do let v ← FnM.resolve (← FnM.evalE n a); pure (FnM.MV.val v)
      else do let v ← FnM.resolve (← FnM.evalE n b); pure (FnM.MV.val v)) := by rw [FnM.evalE]
  simp only [evalV, he, bind_run]
  cases FnM.evalE n t σ with
  | fuel => rfl
  | throw t s => rfl
  | ok mv s =>
    simp only []
    cases FnM.resolve mv s with
    | fuel => rfl
    | throw t s1 => rfl
    | ok tv s1 =>
      simp only []
      cases Fn.truthy tv with
      | true =>
        simp only [if_true, bind_run]
        cases FnM.evalE n a s1 with
        | fuel => rfl
        | throw t s2 => rfl
        | ok mv2 s2 =>
          simp only []
          cases FnM.resolve mv2 s2 with
          | fuel => rfl
          | throw t s3 => rfl
          | ok rv s3 => rfl
      | false =>
        simp only [Bool.false_eq_true, if_false, bind_run]
        cases FnM.evalE n b s1 with
        | fuel => rfl
        | throw t s2 => rfl
        | ok mv2 s2 =>
          simp only []
          cases FnM.resolve mv2 s2 with
          | fuel => rfl
          | throw t s3 => rfl
          | ok rv s3 => rfl

theorem spec_cond (n : Nat) (t a b : Fn.FE) (c : Fn.Ctx) (s : Fn.St) :
    Fn.evalE (n+1) (.cond t a b) c s =
      match Fn.evalE n t c s with
      | .ok tv s1 => if Fn.truthy tv then Fn.evalE n a c s1 else Fn.evalE n b c s1
      | .throw t s1 => .throw t s1
      | .fuel => .fuel := by
  rw [Fn.evalE]
  cases Fn.evalE n t c s <;> rfl

/-- §11.12: the test, then exactly one of the branches, on the state the test left -/
theorem ro_cond (n : Nat) (t a b : Fn.FE) (sc : FnM.Scope) (rest : List FnM.Scope) (xs : List String)
    (iht : ∀ σ, ROInv σ xs → σ.scopes = sc :: rest → ROSim n t sc σ)
    (iha : ∀ σ, ROInv σ xs → σ.scopes = sc :: rest → ROSim n a sc σ)
    (ihb : ∀ σ, ROInv σ xs → σ.scopes = sc :: rest → ROSim n b sc σ)
    (σ : FnM.St) (hI : ROInv σ xs) (hsc : σ.scopes = sc :: rest) : ROSim (n+1) (.cond t a b) sc σ := by
  unfold ROSim
  rw [evalV_cond, spec_cond]
  simp only [bind_run]
  rcases iht σ hI hsc with h | ⟨tv, t1, h1, h1'⟩ | ⟨nm, t1, h1, h1'⟩
  · left; rw [h]
  · rw [h1, h1']
    simp only []
    cases Fn.truthy tv with
    | true =>
      simp only [if_true]
      rcases iha { σ with trace := t1 } (hI.trace t1) hsc with h | ⟨va, t2, h2, h2'⟩ | ⟨nm, t2, h2, h2'⟩
      · left; exact h
      · right; left; exact ⟨va, t2, h2, h2'⟩
      · right; right; exact ⟨nm, t2, h2, h2'⟩
    | false =>
      simp only [Bool.false_eq_true, if_false]
      rcases ihb { σ with trace := t1 } (hI.trace t1) hsc with h | ⟨vb, t2, h2, h2'⟩ | ⟨nm, t2, h2, h2'⟩
      · left; exact h
      · right; left; exact ⟨vb, t2, h2, h2'⟩
      · right; right; exact ⟨nm, t2, h2, h2'⟩
  · right; right
    refine ⟨nm, t1, by rw [h1] <;> rfl, ?_⟩
    rw [h1'] <;> rfl

theorem spec_add (n : Nat) (a b : Fn.FE) (c : Fn.Ctx) (s : Fn.St) :
    Fn.evalE (n+1) (.add a b) c s =
      match Fn.evalE n a c s with
      | .ok va s1 => (match Fn.evalE n b c s1 with
        | .ok vb s2 => .ok (FnM.binAdd va vb) s2
        | .throw t s2 => .throw t s2
        | .fuel => .fuel)
      | .throw t s1 => .throw t s1
      | .fuel => .fuel := by
  rw [Fn.evalE]
  cases Fn.evalE n a c s with
  | fuel => rfl
  | throw t s1 => rfl
  | ok va s1 =>
    simp only []
    cases Fn.evalE n b c s1 with
    | fuel => rfl
    | throw t s2 => rfl
    | ok vb s2 =>
      simp only [FnM.binAdd]
      cases va <;> cases vb <;> rfl

theorem spec_sub (n : Nat) (a b : Fn.FE) (c : Fn.Ctx) (s : Fn.St) :
    Fn.evalE (n+1) (.sub a b) c s =
      match Fn.evalE n a c s with
      | .ok va s1 => (match Fn.evalE n b c s1 with
        | .ok vb s2 => .ok (FnM.binSub va vb) s2
        | .throw t s2 => .throw t s2
        | .fuel => .fuel)
      | .throw t s1 => .throw t s1
      | .fuel => .fuel := by
  rw [Fn.evalE]
  cases Fn.evalE n a c s with
  | fuel => rfl
  | throw t s1 => rfl
  | ok va s1 =>
    simp only []
    cases Fn.evalE n b c s1 with
    | fuel => rfl
    | throw t s2 => rfl
    | ok vb s2 =>
      simp only [FnM.binSub]
      cases h1 : Fn.toNum va <;> cases h2 : Fn.toNum vb <;> rfl

theorem spec_lt (n : Nat) (a b : Fn.FE) (c : Fn.Ctx) (s : Fn.St) :
    Fn.evalE (n+1) (.lt a b) c s =
      match Fn.evalE n a c s with
      | .ok va s1 => (match Fn.evalE n b c s1 with
        | .ok vb s2 => .ok (FnM.binLt va vb) s2
        | .throw t s2 => .throw t s2
        | .fuel => .fuel)
      | .throw t s1 => .throw t s1
      | .fuel => .fuel := by
  rw [Fn.evalE]
  cases Fn.evalE n a c s with
  | fuel => rfl
  | throw t s1 => rfl
  | ok va s1 =>
    simp only []
    cases Fn.evalE n b c s1 with
    | fuel => rfl
    | throw t s2 => rfl
    | ok vb s2 =>
      simp only [FnM.binLt]
      cases h1 : Fn.toNum va <;> cases h2 : Fn.toNum vb <;> rfl

theorem spec_seq (n : Nat) (a b : Fn.FE) (c : Fn.Ctx) (s : Fn.St) :
    Fn.evalE (n+1) (.seq a b) c s =
      match Fn.evalE n a c s with
      | .ok va s1 => (match Fn.evalE n b c s1 with
        | .ok vb s2 => .ok (FnM.binSeq va vb) s2
        | .throw t s2 => .throw t s2
        | .fuel => .fuel)
      | .throw t s1 => .throw t s1
      | .fuel => .fuel := by
  rw [Fn.evalE]
  cases Fn.evalE n a c s with
  | fuel => rfl
  | throw t s1 => rfl
  | ok va s1 =>
    simp only []
    cases Fn.evalE n b c s1 with
    | fuel => rfl
    | throw t s2 => rfl
    | ok vb s2 => rfl

theorem spec_not (n : Nat) (a : Fn.FE) (c : Fn.Ctx) (s : Fn.St) :
    Fn.evalE (n+1) (.not a) c s =
      match Fn.evalE n a c s with
      | .ok va s1 => .ok (.bool (!Fn.truthy va)) s1
      | .throw t s1 => .throw t s1
      | .fuel => .fuel := by
  rw [Fn.evalE]
  cases Fn.evalE n a c s <;> rfl

theorem spec_val (n : Nat) (a : Fn.FE) (c : Fn.Ctx) (s : Fn.St) :
    Fn.evalE (n+1) (.val a) c s =
      match Fn.evalE n a c s with
      | .ok va s1 => .ok va s1
      | .throw t s1 => .throw t s1
      | .fuel => .fuel := by
  rw [Fn.evalE]
  cases Fn.evalE n a c s <;> rfl

theorem isCall_spec (σ : FnM.St) (v : Fn.V) : FnM.isCall σ v = Fn.isCallable (absSt σ) v := by
  cases v with
  | ref a =>
    simp only [FnM.isCall, Fn.isCallable, absSt_obj]
    cases σ.obj? a with
    | none => rfl
    | some o =>
      simp only [Option.map_some]
      have : (absObj o).kind = absKind o.val := rfl
      rw [this]
      cases o.val <;> rfl
  | _ => rfl

theorem typeofV_spec (σ : FnM.St) (v : Fn.V) : FnM.typeofV σ v = Fn.typeofV (absSt σ) v := by
  cases v <;> simp [FnM.typeofV, Fn.typeofV, isCall_spec]

/-- a read-only expression that is not an identifier evaluates to a value, never to a reference -/
theorem ro_isVal (n : Nat) (e : Fn.FE) (hro : ro e = true) (hnv : ∀ x, e ≠ .var x) (σ : FnM.St) (mv : FnM.MV) (σ' : FnM.St)
    (hr : FnM.evalE n e σ = .ok mv σ') : ∃ v, mv = .val v := by
  cases n with
  | zero => simp [FnM.evalE, FnM.outOfFuel] at hr
  | succ n =>
      cases e with
      | var x => exact absurd rfl (hnv x)
      | lit v => simp [FnM.evalE] at hr; exact ⟨_, hr.1.symm⟩
      | this => simp only [FnM.evalE, bind_run] at hr; cases hc : FnM.curScope σ with
        | ok sc s1 => rw [hc] at hr; simp at hr; exact ⟨_, hr.1.symm⟩
        | throw t s1 => rw [hc] at hr; simp at hr
        | fuel => rw [hc] at hr; simp at hr
      | add a b | sub a b | lt a b | seq a b =>
        simp only [FnM.evalE, bind_run] at hr
        revert hr
        cases FnM.evalE n a σ with
        | fuel => simp
        | throw t s => simp
        | ok m1 s1 =>
          simp only []
          cases FnM.resolve m1 s1 with
          | fuel => simp
          | throw t s => simp
          | ok lv s2 =>
            simp only []
            cases FnM.evalE n b s2 with
            | fuel => simp
            | throw t s => simp
            | ok m2 s3 =>
              simp only []
              cases FnM.resolve m2 s3 with
              | fuel => simp
              | throw t s => simp
              | ok rv s4 => simp only [pure_run, FnM.R.ok.injEq]; intro h; exact ⟨_, h.1.symm⟩
      | not a | val a =>
        simp only [FnM.evalE, bind_run] at hr
        revert hr
        cases FnM.evalE n a σ with
        | fuel => simp
        | throw t s => simp
        | ok m1 s1 =>
          simp only []
          cases FnM.resolve m1 s1 with
          | fuel => simp
          | throw t s => simp
          | ok lv s2 => simp only [pure_run, FnM.R.ok.injEq]; intro h; exact ⟨_, h.1.symm⟩
      | typeof a =>
        simp only [FnM.evalE, bind_run] at hr
        revert hr
        cases FnM.evalE n a σ with
        | fuel => simp
        | throw t s => simp
        | ok m1 s1 =>
          simp only []
          cases m1 with
          | val v =>
            simp only [FnM.resolve, bind_run, pure_run, getSt_run, FnM.R.ok.injEq]
            intro h; exact ⟨_, h.1.symm⟩
          | ref r =>
            cases r with
            | stash b nm =>
              simp only [bind_run]
              cases FnM.resolve (.ref (.stash b nm)) s1 with
              | fuel => simp
              | throw t s => simp
              | ok lv s2 => simp only [getSt_run, pure_run, FnM.R.ok.injEq]; intro h; exact ⟨_, h.1.symm⟩
            | prop b nm =>
              cases b with
              | none => simp only [pure_run, FnM.R.ok.injEq]; intro h; exact ⟨_, h.1.symm⟩
              | some bb =>
                simp only [bind_run]
                cases FnM.resolve (.ref (.prop (some bb) nm)) s1 with
                | fuel => simp
                | throw t s => simp
                | ok lv s2 => simp only [getSt_run, pure_run, FnM.R.ok.injEq]; intro h; exact ⟨_, h.1.symm⟩
            | pprop b nm pv =>
              simp only [bind_run]
              cases FnM.resolve (.ref (.pprop b nm pv)) s1 with
              | fuel => simp
              | throw t s => simp
              | ok lv s2 => simp only [getSt_run, pure_run, FnM.R.ok.injEq]; intro h; exact ⟨_, h.1.symm⟩
      | log a =>
        simp only [FnM.evalE, bind_run] at hr
        revert hr
        cases FnM.evalE n a σ with
        | fuel => simp
        | throw t s => simp
        | ok m1 s1 =>
          simp only []
          cases FnM.resolve m1 s1 with
          | fuel => simp
          | throw t s => simp
          | ok lv s2 =>
            simp only []
            cases FnM.tokV lv s2 with
            | fuel => simp
            | throw t s => simp
            | ok tk s3 => simp only [modifySt_run, pure_run, FnM.R.ok.injEq]; intro h; exact ⟨_, h.1.symm⟩
      | cond t a b =>
        simp only [FnM.evalE, bind_run] at hr
        revert hr
        cases FnM.evalE n t σ with
        | fuel => simp
        | throw t s => simp
        | ok m1 s1 =>
          simp only []
          cases FnM.resolve m1 s1 with
          | fuel => simp
          | throw t s => simp
          | ok tv s2 =>
            simp only []
            cases Fn.truthy tv with
            | true =>
              simp only [if_true, bind_run]
              cases FnM.evalE n a s2 with
              | fuel => simp
              | throw t s => simp
              | ok m2 s3 =>
                simp only []
                cases FnM.resolve m2 s3 with
                | fuel => simp
                | throw t s => simp
                | ok rv s4 => simp only [pure_run, FnM.R.ok.injEq]; intro h; exact ⟨_, h.1.symm⟩
            | false =>
              simp only [Bool.false_eq_true, if_false, bind_run]
              cases FnM.evalE n b s2 with
              | fuel => simp
              | throw t s => simp
              | ok m2 s3 =>
                simp only []
                cases FnM.resolve m2 s3 with
                | fuel => simp
                | throw t s => simp
                | ok rv s4 => simp only [pure_run, FnM.R.ok.injEq]; intro h; exact ⟨_, h.1.symm⟩
      | _ => simp [ro] at hro

/-- GetValue through the reference of a resolved identifier: a value, the state untouched, the value ES5 reads -/
theorem getValue_resolved (σ : FnM.St) (x : String) (xs : List String) (hx : x ∈ xs) (hI : ROInv σ xs) (j : Nat) :
    ∃ v, FnM.refGetValue (FnM.newReference σ j x) σ = .ok v σ ∧ Fn.envGet (absSt σ) j x = .ok v (absSt σ) := by
  have hg := getValue_ident_spec σ x (hI.vis x hx) hI.wf0 hI.nap hI.aw hI.ew hI.sr j
  cases hs : σ.stash? j with
  | none =>
    refine ⟨.undef, by simp [FnM.newReference, hs, FnM.refGetValue, FnM.getBinding], ?_⟩
    rw [← hg]; simp [FnM.newReference, hs, FnM.refGetValue, FnM.getBinding, absR]
  | some st =>
    cases st with
    | obj outer o =>
      refine ⟨getP σ o x, by simp [FnM.newReference, hs, FnM.refGetValue, objGetA_run σ x (hI.vis x hx), objGet_run], ?_⟩
      rw [← hg]; simp [FnM.newReference, hs, FnM.refGetValue, objGetA_run σ x (hI.vis x hx), objGet_run, absR]
    | dcl outer ps =>
      refine ⟨dclGetP σ j x, by simp [FnM.newReference, hs, FnM.refGetValue, FnM.getBinding, dclGetBinding_run], ?_⟩
      rw [← hg]; simp [FnM.newReference, hs, FnM.refGetValue, FnM.getBinding, dclGetBinding_run, absR]
    | fn outer ps ar =>
      refine ⟨dclGetP σ j x, by simp [FnM.newReference, hs, FnM.refGetValue, FnM.getBinding, dclGetBinding_run], ?_⟩
      rw [← hg]; simp [FnM.newReference, hs, FnM.refGetValue, FnM.getBinding, dclGetBinding_run, absR]

theorem newReference_cases (σ : FnM.St) (j : Nat) (x : String) :
    (∃ o, FnM.newReference σ j x = .prop (some o) x) ∨ FnM.newReference σ j x = .stash j x := by
  simp only [FnM.newReference]
  cases σ.stash? j with
  | none => right; rfl
  | some st => cases st with
    | obj outer o => left; exact ⟨o, rfl⟩
    | dcl outer ps => right; rfl
    | fn outer ps ar => right; rfl

theorem ro_typeof (n : Nat) (a : Fn.FE) (sc : FnM.Scope) (rest : List FnM.Scope) (xs : List String)
    (hro : ro a = true) (hid : ∀ x ∈ idents a, x ∈ xs)
    (iha : ∀ σ, ROInv σ xs → σ.scopes = sc :: rest → ROSim n a sc σ)
    (σ : FnM.St) (hI : ROInv σ xs) (hsc : σ.scopes = sc :: rest) : ROSim (n+1) (.typeof a) sc σ := by
  by_cases hv : ∃ x, a = .var x
  · -- typeof of an identifier: an unresolvable reference gives "undefined"
    obtain ⟨x, rfl⟩ := hv
    have hx : x ∈ xs := hid x (by simp [idents])
    cases n with
    | zero => left; simp [evalV, FnM.evalE, FnM.outOfFuel]
    | succ n =>
      have hvis := hI.vis x hx
      have hres := resolve_spec σ x hvis hI.wf0 (σ.stashes.length + 1) sc.lexical
      simp only [ROSim, evalV, FnM.evalE, bind_run, curScope_run σ sc rest hsc, stashFuel_run, hres, pure_run, Fn.evalE, ctxOf,
        absSt_envs_length]
      cases hr : Fn.envResolve (absSt σ) (σ.stashes.length + 1) sc.lexical x with
      | none =>
        right; left
        exact ⟨.str "undefined", σ.trace, rfl, rfl⟩
      | some j =>
        obtain ⟨v, hmv, hsv⟩ := getValue_resolved σ x xs hx hI j
        right; left
        refine ⟨.str (FnM.typeofV σ v), σ.trace, ?_, ?_⟩
        · simp only [refOf]
          rcases newReference_cases σ j x with ⟨o, ho⟩ | ho
          · rw [ho] at hmv ⊢
            simp only [FnM.resolve, bind_run, hmv, getSt_run, pure_run]
          · rw [ho] at hmv ⊢
            simp only [FnM.resolve, bind_run, hmv, getSt_run, pure_run]
        · simp only [hsv, typeofV_spec]
  · -- typeof of anything else: the operand is a value
    have hnv : ∀ x, a ≠ .var x := fun x h => hv ⟨x, h⟩
    have hsA : ∀ (c : Fn.Ctx) (s : Fn.St), Fn.evalE (n+1) (.typeof a) c s =
        match Fn.evalE n a c s with
        | .ok va s1 => .ok (.str (Fn.typeofV s1 va)) s1
        | .throw t s1 => .throw t s1
        | .fuel => .fuel := by
      intro c s
      cases a with
      | var x => exact absurd rfl (hnv x)
      | _ =>
        rw [Fn.evalE]
        all_goals first | (intro x h; cases h) | (cases Fn.evalE n _ c s <;> rfl)
    unfold ROSim
    rw [hsA]
    have hmA : evalV (n+1) (.typeof a) σ =
        (match evalV n a σ with
         | .ok v s1 => .ok (.str (FnM.typeofV s1 v)) s1
         | .throw t s1 => .throw t s1
         | .fuel => .fuel) := by
      simp only [evalV, FnM.evalE, bind_run]
      cases he : FnM.evalE n a σ with
      | fuel => rfl
      | throw t s => rfl
      | ok mv s =>
        obtain ⟨v, rfl⟩ := ro_isVal n a hro hnv σ mv s he
        simp only [FnM.resolve, bind_run, pure_run, getSt_run]
    rw [hmA]
    rcases iha σ hI hsc with h | ⟨va, t1, h1, h1'⟩ | ⟨nm, t1, h1, h1'⟩
    · left; rw [h]
    · right; left
      refine ⟨.str (FnM.typeofV { σ with trace := t1 } va), t1, by rw [h1], ?_⟩
      rw [h1']
      simp only [typeofV_spec]
    · right; right
      exact ⟨nm, t1, by rw [h1], by rw [h1'] <;> rfl⟩

theorem ro_log (n : Nat) (a : Fn.FE) (sc : FnM.Scope) (rest : List FnM.Scope) (xs : List String)
    (iha : ∀ σ, ROInv σ xs → σ.scopes = sc :: rest → ROSim n a sc σ)
    (σ : FnM.St) (hI : ROInv σ xs) (hsc : σ.scopes = sc :: rest) : ROSim (n+1) (.log a) sc σ := by
  have hmA : evalV (n+1) (.log a) σ =
      (match evalV n a σ with
       | .ok v s1 => (match FnM.tokV v s1 with
         | .ok t s2 => .ok v { s2 with trace := s2.trace ++ [t] }
         | .throw e s2 => .throw e s2
         | .fuel => .fuel)
       | .throw t s1 => .throw t s1
       | .fuel => .fuel) := by
    simp only [evalV, FnM.evalE, bind_run]
    cases FnM.evalE n a σ with
    | fuel => rfl
    | throw t s => rfl
    | ok mv s =>
      simp only []
      cases FnM.resolve mv s with
      | fuel => rfl
      | throw t s1 => rfl
      | ok v s1 =>
        simp only []
        cases FnM.tokV v s1 with
        | fuel => rfl
        | throw t s2 => rfl
        | ok tk s2 => rfl
  have hsA : ∀ (c : Fn.Ctx) (s : Fn.St), Fn.evalE (n+1) (.log a) c s =
      match Fn.evalE n a c s with
      | .ok v s1 => .ok v { s1 with trace := s1.trace ++ [Fn.tokV s1 v] }
      | .throw t s1 => .throw t s1
      | .fuel => .fuel := by
    intro c s
    rw [Fn.evalE]
    cases Fn.evalE n a c s <;> rfl
  unfold ROSim
  rw [hmA, hsA]
  rcases iha σ hI hsc with h | ⟨va, t1, h1, h1'⟩ | ⟨nm, t1, h1, h1'⟩
  · left; rw [h]
  · right; left
    have hI1 := hI.trace t1
    have htk := tokV_spec { σ with trace := t1 } va hI1.cls hI1.ew
    refine ⟨va, t1 ++ [Fn.tokV (absSt { σ with trace := t1 }) va], ?_, ?_⟩
    · rw [h1]; simp only [htk]
    · rw [h1']; rfl
  · right; right
    exact ⟨nm, t1, by rw [h1], by rw [h1'] <;> rfl⟩

/-- **expr_refines_partial** — the evaluator simulation for the read-only identifier fragment (literals, `this`,
    identifiers, + − < === !, typeof, `(0, e)`, `log(e)`): in every state satisfying `ROInv`, with otto's current scope
    `sc`, otto's evaluation followed by GetValue and ES5's evaluation in the context read off `sc` give the same value
    (or the same error), extend the host log by the same tokens and change nothing else – unless otto runs out of
    fuel.  FULL STATEMENT (open): the same for every FE and FS, with the states related by an address-renaming
    relation instead of `absSt` (the two sides allocate in different orders), by induction on fuel. -/
theorem expr_refines_partial (sc : FnM.Scope) (rest : List FnM.Scope) (xs : List String) :
    ∀ (n : Nat) (e : Fn.FE), ro e = true → (∀ x ∈ idents e, x ∈ xs) →
      ∀ σ, ROInv σ xs → σ.scopes = sc :: rest → ROSim n e sc σ := by
  intro n
  induction n with
  | zero => intro e _ _ σ _ _; left; simp [evalV, FnM.evalE, FnM.outOfFuel]
  | succ n ih =>
    intro e hro hid σ hI hsc
    cases e with
    | lit v => right; left; exact ⟨Fn.ofPV v, σ.trace, by simp [evalV, FnM.evalE, FnM.resolve], rfl⟩
    | this =>
      right; left
      refine ⟨.ref sc.this, σ.trace, ?_, rfl⟩
      simp [evalV, FnM.evalE, curScope_run σ sc rest hsc, FnM.resolve]
    | var x => exact ro_var n x sc rest σ xs (hid x (by simp [idents])) hI hsc
    | add a b =>
      simp only [ro, Bool.and_eq_true] at hro
      exact ro_bin n a b _ FnM.binAdd sc rest xs (evalV_bin n a b FnM.binAdd _ (by rw [FnM.evalE])) (spec_add n a b)
        (fun σ' => ih a hro.1 (fun x hx => hid x (by simp [idents, hx])) σ')
        (fun σ' => ih b hro.2 (fun x hx => hid x (by simp [idents, hx])) σ') σ hI hsc
    | sub a b =>
      simp only [ro, Bool.and_eq_true] at hro
      exact ro_bin n a b _ FnM.binSub sc rest xs (evalV_bin n a b FnM.binSub _ (by rw [FnM.evalE])) (spec_sub n a b)
        (fun σ' => ih a hro.1 (fun x hx => hid x (by simp [idents, hx])) σ')
        (fun σ' => ih b hro.2 (fun x hx => hid x (by simp [idents, hx])) σ') σ hI hsc
    | lt a b =>
      simp only [ro, Bool.and_eq_true] at hro
      exact ro_bin n a b _ FnM.binLt sc rest xs (evalV_bin n a b FnM.binLt _ (by rw [FnM.evalE])) (spec_lt n a b)
        (fun σ' => ih a hro.1 (fun x hx => hid x (by simp [idents, hx])) σ')
        (fun σ' => ih b hro.2 (fun x hx => hid x (by simp [idents, hx])) σ') σ hI hsc
    | seq a b =>
      simp only [ro, Bool.and_eq_true] at hro
      exact ro_bin n a b _ FnM.binSeq sc rest xs (evalV_bin n a b FnM.binSeq _ (by rw [FnM.evalE])) (spec_seq n a b)
        (fun σ' => ih a hro.1 (fun x hx => hid x (by simp [idents, hx])) σ')
        (fun σ' => ih b hro.2 (fun x hx => hid x (by simp [idents, hx])) σ') σ hI hsc
    | not a =>
      simp only [ro] at hro
      exact ro_un n a _ (fun v => .bool (!Fn.truthy v)) sc rest xs (evalV_un n a _ _ (by rw [FnM.evalE])) (spec_not n a)
        (fun σ' => ih a hro (fun x hx => hid x (by simp [idents, hx])) σ') σ hI hsc
    | val a =>
      simp only [ro] at hro
      exact ro_un n a _ (fun v => v) sc rest xs (evalV_un n a _ _ (by rw [FnM.evalE])) (spec_val n a)
        (fun σ' => ih a hro (fun x hx => hid x (by simp [idents, hx])) σ') σ hI hsc
    | typeof a =>
      simp only [ro] at hro
      exact ro_typeof n a sc rest xs hro (fun x hx => hid x (by simp [idents, hx]))
        (fun σ' => ih a hro (fun x hx => hid x (by simp [idents, hx])) σ') σ hI hsc
    | log a =>
      simp only [ro] at hro
      exact ro_log n a sc rest xs (fun σ' => ih a hro (fun x hx => hid x (by simp [idents, hx])) σ') σ hI hsc
    | cond t a b =>
      simp only [ro, Bool.and_eq_true] at hro
      exact ro_cond n t a b sc rest xs
        (fun σ' => ih t hro.1.1 (fun x hx => hid x (by simp [idents, hx])) σ')
        (fun σ' => ih a hro.1.2 (fun x hx => hid x (by simp [idents, hx])) σ')
        (fun σ' => ih b hro.2 (fun x hx => hid x (by simp [idents, hx])) σ') σ hI hsc
    | _ => simp [ro] at hro

end OttoVerif.C01.FnRefine
