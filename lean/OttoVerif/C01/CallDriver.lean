/-
  C01/CallDriver — requests about entering function code (CallModel):
    bind <nargs> <params> <fns> <vars> <x>   which binding identifier x denotes inside the body
    amap <nargs> <params>                   which parameter each arguments index is joined to
  lists are comma-separated, `-` = empty.  reply tokens: A<i> | u | F<j> | args | none; names or `_`.
-/
import OttoVerif.C01.CallModel
namespace OttoVerif.C01.CallDriver
open OttoVerif.C01.Call

def listOf (s : String) : List String := if s = "-" then [] else s.splitOn ","

def slotTok : Option Slot → String
  | none => "none"
  | some (.arg i) => "A" ++ toString i
  | some .argUndef => "u"
  | some .undef => "u"
  | some (.fn j) => "F" ++ toString j
  | some .argumentsObj => "args"

def mapTok (m : List (Option String)) : String :=
  if m.isEmpty then "-" else ",".intercalate (m.map fun | some n => n | none => "_")

def hasDup : List String → Bool
  | [] => false
  | p :: ps => ps.contains p || hasDup ps

def handle (ws : List String) : Option String :=
  match ws with
  | ["bind", nargs, ps, fs, vs, x] =>
    match nargs.toNat? with
    | some n =>
      some (slotTok (lookup x (modelInst (listOf ps) n (listOf fs) (listOf vs))) ++ " " ++
            slotTok (lookup x (specInst (listOf ps) n (listOf fs) (listOf vs))) ++ " -")
    | none => some "bad-op"
  | ["amap", nargs, ps] =>
    match nargs.toNat? with
    | some n =>
      some (mapTok (modelMap (listOf ps) n) ++ " " ++ mapTok (specMap (listOf ps) n) ++ " -")
    | none => some "bad-op"
  | _ => none

end OttoVerif.C01.CallDriver
