/-
  C01/Theorems — the ledger for property C01 (statement layer).  Every theorem here is audited.

  `Sim L iter mr sr` (Refine.lean): model and spec results have the same final state (which contains
  the host-call trace), the same completion kind (normal / break t / continue t / return v / throw v,
  with the same returned or thrown value) AND the same completion VALUE (`KindRel … ∧ ovVal o = c.v`:
  otto's emptyValue / value / the value a break or continue result carries is ES5's `c.v`).  There is no
  Dev region any more: the former region `completionValue` was repaired in otto (2145201, 1304643 and the
  per-pass value of loops / the label reset of if and with).
-/
import OttoVerif.C01.RefineProof3
namespace OttoVerif.C01.Thm
open OttoVerif.C01
variable {St : Type}

/-- C01.stmt_refines_trace: for EVERY statement, every expression semantics `S`, every state, every
    amount of fuel on either side: otto's label-stack evaluation and ES5's completion-record
    evaluation are in the simulation relation, provided `continue` targets are well formed
    (ES5 §12.7 early error) and the model's pending labels `L` are exactly the label set `ls`
    (as sets) and contain none of the enclosing iteration labels. -/
theorem stmt_refines_trace (S : Sem St) (n m : Nat) (s : Stmt) (L ls iter : List String) (σ : St)
    (H1 : ∀ t ∈ ls, t ∈ L) (H1' : ∀ t ∈ L, t ∈ ls) (H2 : ∀ t ∈ L, t ∉ iter) (hwl : wlS iter ls s = true) :
    Sim L iter (ottoS S n s L σ) (specS S m ls s σ) :=
  (pall_all S n).1 m s L ls iter σ H1 H1' H2 hwl

/-- C01.program_refines_trace: whole programs (statement list from rest). -/
theorem program_refines_trace (S : Sem St) (n m : Nat) (ss : Stmts) (σ : St) (hwl : wlList [] ss = true) :
    Sim [] [] (ottoProgram S n ss σ) (specProgram S m ss σ) :=
  by
    have := (pall_all S n).2.2.1 m ss [] σ .empty rfl hwl
    rwa [show ovVal OV.empty = none from rfl, listWrap_none] at this

/-- C01.program_refines_value: for EVERY program, every expression semantics, every state and fuel: when both
    evaluations end without an uncaught exception, otto's completion value (emptyValue = none, or the value; for an
    abrupt completion the value it carries) is the value of ES5's completion record. -/
theorem program_refines_value (S : Sem St) (n m : Nat) (ss : Stmts) (σ σ1 σ2 : St) (o : OV) (c : Comp) (L' : List String)
    (hwl : wlList [] ss = true)
    (hm : ottoProgram S n ss σ = .ok o L' σ1) (hs : specProgram S m ss σ = .ok c σ2) :
    ovVal o = c.v := by
  have h := program_refines_trace S n m ss σ hwl
  rw [hm, hs] at h
  exact h.2.2.2

/-- Readable corollary: if both evaluations terminate normally-or-abruptly without throwing, the final
    states coincide, `rt.labels` is back to rest, and otto yields a `valueResult` exactly when ES5's
    completion is abrupt. -/
theorem program_ok_ok (S : Sem St) (n m : Nat) (ss : Stmts) (σ σ1 σ2 : St) (o : OV) (c : Comp) (L' : List String)
    (hwl : wlList [] ss = true)
    (hm : ottoProgram S n ss σ = .ok o L' σ1) (hs : specProgram S m ss σ = .ok c σ2) :
    σ1 = σ2 ∧ L' = [] ∧ (isResult o = true ↔ c.abrupt = true) := by
  have h := program_refines_trace S n m ss σ hwl
  rw [hm, hs] at h
  simp only [Sim] at h
  refine ⟨h.1, labok_of_nil h.2.1, ?_⟩
  constructor
  · intro hr; exact kindrel_result_abrupt hr h.2.2
  · intro ha
    cases hr : isResult o with
    | true => rfl
    | false => have := kindrel_nil_normal hr h.2.2; simp [Comp.abrupt, this] at ha

/-- An uncaught exception on one side is the same uncaught exception on the other. -/
theorem program_throw_throw (S : Sem St) (n m : Nat) (ss : Stmts) (σ σ1 σ2 : St) (v1 v2 : Val) (L' : List String)
    (hwl : wlList [] ss = true)
    (hm : ottoProgram S n ss σ = .throw v1 L' σ1) (hs : specProgram S m ss σ = .throw v2 σ2) :
    v1 = v2 ∧ σ1 = σ2 ∧ L' = [] := by
  have h := program_refines_trace S n m ss σ hwl
  rw [hm, hs] at h
  simp only [Sim] at h
  exact ⟨h.1, h.2.1, labok_of_nil h.2.2⟩

/-- The two sides can never disagree on whether the program throws. -/
theorem program_no_mixed (S : Sem St) (n m : Nat) (ss : Stmts) (σ : St) (hwl : wlList [] ss = true) :
    (∀ o L' σ1 v σ2, ottoProgram S n ss σ = .ok o L' σ1 → specProgram S m ss σ ≠ .throw v σ2) ∧
    (∀ v L' σ1 c σ2, ottoProgram S n ss σ = .throw v L' σ1 → specProgram S m ss σ ≠ .ok c σ2) := by
  have h := program_refines_trace S n m ss σ hwl
  constructor
  · intro o L' σ1 v σ2 hm hs; rw [hm, hs] at h; simp [Sim] at h
  · intro v L' σ1 c σ2 hm hs; rw [hm, hs] at h; simp [Sim] at h

/-- C01.labels_at_rest (used by C18): after any terminating program – normal, abrupt or throwing –
    `rt.labels` is empty again, whenever the ES5 evaluation of the same program terminates. -/
theorem labels_at_rest (S : Sem St) (n m : Nat) (ss : Stmts) (σ : St) (hwl : wlList [] ss = true)
    (hs : specProgram S m ss σ ≠ .fuel) :
    match ottoProgram S n ss σ with
    | .ok _ L' _ => L' = []
    | .throw _ L' _ => L' = []
    | .fuel => True := by
  have h := program_refines_trace S n m ss σ hwl
  cases hm : ottoProgram S n ss σ with
  | fuel => trivial
  | ok o L' σ1 =>
    cases hsp : specProgram S m ss σ with
    | fuel => exact absurd hsp hs
    | ok c σ2 => rw [hm, hsp] at h; exact labok_of_nil h.2.1
    | throw v σ2 => rw [hm, hsp] at h; simp [Sim] at h
  | throw v L' σ1 =>
    cases hsp : specProgram S m ss σ with
    | fuel => exact absurd hsp hs
    | ok c σ2 => rw [hm, hsp] at h; simp [Sim] at h
    | throw v2 σ2 => rw [hm, hsp] at h; exact labok_of_nil h.2.2

end OttoVerif.C01.Thm
