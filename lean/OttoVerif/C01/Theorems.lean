/-  C01/Theorems — the ledger for property C01 (every theorem here is audited).  Placeholder. -/
namespace OttoVerif.C01.Thm
end OttoVerif.C01.Thm
