/-
  C01/ForInModel — otto's for-in evaluator as a pure function over an abstract body step, and the
  ES5 §12.6.4 reading of the same statement.

  MODEL: transcription of cmplEvaluateNodeForInStatement (cmpl_evaluate_statement.go:182-250, after
  the undefined/null test and ToObject) together with objectEnumerate (object_class.go:22-38):
  an outer loop over the prototype chain (`for obj != nil`), an inner loop over a snapshot of the
  object's property names, the flags `obj = nil` / `return false` by which the body's abrupt
  completions stop both loops, and the two accumulators `result` / `enumerateValue`.

  SPEC: §12.6.4 steps 5–7 over the list of properties to visit, computed when the statement starts:
  the enumerable own properties, then the prototype chain's, leaving out every name that an object
  nearer the start of the chain has (enumerable or not); a property deleted before its turn is not
  visited; any abrupt completion other than a consumed continue ends the whole statement.
  (This is `FnSpec.enumKeys` / `FnSpec.evalForIn` with the body abstracted.)

  Abstraction: the object at position `i` of the chain is given by the list `(name, enumerable)` of the
  own properties it has when the statement starts, in enumeration order; `has s i k` says whether
  object `i` still (or again) has an own property `k` in state `s`.  The body (PutValue of the name into
  the loop variable, then the statement) is an arbitrary function of the name and the state.
-/
namespace OttoVerif.C01.ForIn

/-- what evaluating the loop body once can do.  `v` = the value produced by the body's statements
    (otto: the assignments to `enumerateValue`; ES5: stmt.value); `exit` = return, or break/continue
    whose target is not in the label set of this statement (otto: resultReturn). -/
inductive Out (σ ρ ν : Type) where
  | normal (v : Option ν) (s : σ)
  | cont (v : Option ν) (s : σ)
  | brk (v : Option ν) (s : σ)
  | exit (r : ρ) (s : σ)
deriving DecidableEq

/-- how the whole statement ends: all properties visited, left by a consumed break, or abruptly -/
inductive Fin (σ ρ ν : Type) where
  | exhausted (v : Option ν) (s : σ)
  | broke (v : Option ν) (s : σ)
  | abrupt (r : ρ) (s : σ)
deriving DecidableEq

/-- forget the completion value of a statement left by break (Dev region `forin_break_value`) -/
def Fin.obs {σ ρ ν : Type} : Fin σ ρ ν → Fin σ ρ ν
  | .broke _ s => .broke none s
  | f => f

abbrev Props (κ : Type) := List (κ × Bool)

def names {κ : Type} (o : Props κ) : List κ := o.map (·.1)

/-- V := v unless v is empty -/
def orV {ν : Type} (a b : Option ν) : Option ν :=
  match a with
  | some v => some v
  | none => b

section
variable {κ σ ρ ν : Type} [DecidableEq κ]

/-! ## Model -/

/-- the result of objectEnumerate over one object -/
inductive Inner (σ ρ ν : Type) where
  | finished (ev : Option ν) (s : σ)     -- every name handled; `ev` = enumerateValue
  | stopped (s : σ)                      -- `obj = nil; return false` after break
  | exited (r : ρ) (s : σ)               -- `result = value; obj = nil; return false`

/-- cmpl_evaluate_statement.go:206-210: `for shadow := sourceObject; shadow != obj; shadow = shadow.prototype` -/
def shadowNow (has : σ → Nat → κ → Bool) (s : σ) (i : Nat) (k : κ) : Bool :=
  (List.range i).any fun j => has s j k

/-- objectEnumerate(obj, false, each) over the snapshot `names` of object `i` -/
def inner (has : σ → Nat → κ → Bool) (body : κ → σ → Out σ ρ ν) (i : Nat) : Props κ → σ → Option ν → Inner σ ρ ν
  | [], s, ev => .finished ev s
  | (k, en) :: r, s, ev =>
    -- `if !exists continue`, `if all || prop.enumerable()`, then the shadow test inside `each`
    if has s i k && en && !shadowNow has s i k then
      match body k s with
      | .normal v s' => inner has body i r s' (orV v ev)
      | .cont v s' => inner has body i r s' (orV v ev)            -- resultContinue: `return true`
      | .brk _ s' => .stopped s'                                   -- resultBreak
      | .exit x s' => .exited x s'                                 -- resultReturn
    else inner has body i r s ev

/-- `for obj != nil { enumerateValue := empty; obj.enumerate(…); if obj == nil { break };
     obj = obj.prototype; if !enumerateValue.isEmpty() { result = enumerateValue } }; return result` -/
def outer (has : σ → Nat → κ → Bool) (body : κ → σ → Out σ ρ ν) : Nat → List (Props κ) → σ → Option ν → Fin σ ρ ν
  | _, [], s, res => .exhausted res s
  | i, o :: rest, s, res =>
    match inner has body i o s none with
    | .finished ev s' => outer has body (i+1) rest s' (orV ev res)
    | .stopped s' => .broke res s'
    | .exited x s' => .abrupt x s'

def ottoForIn (has : σ → Nat → κ → Bool) (body : κ → σ → Out σ ρ ν) (chain : List (Props κ)) (s : σ) : Fin σ ρ ν :=
  outer has body 0 chain s none

/-! ## Spec -/

/-- the properties to visit, as (position of the owner, name); `seen` = the names of the objects
    nearer the start of the chain -/
def flat : Nat → List (Props κ) → List κ → List (Nat × κ)
  | _, [], _ => []
  | i, o :: rest, seen =>
    ((o.filter fun p => p.2 && !seen.contains p.1).map fun p => (i, p.1)) ++ flat (i+1) rest (seen ++ names o)

/-- §12.6.4 steps 6–7 -/
def specLoop (has : σ → Nat → κ → Bool) (body : κ → σ → Out σ ρ ν) : List (Nat × κ) → σ → Option ν → Fin σ ρ ν
  | [], s, V => .exhausted V s
  | (i, k) :: r, s, V =>
    if has s i k then
      match body k s with
      | .normal v s' => specLoop has body r s' (orV v V)
      | .cont v s' => specLoop has body r s' (orV v V)
      | .brk v s' => .broke (orV v V) s'
      | .exit x s' => .abrupt x s'
    else specLoop has body r s V

def specForIn (has : σ → Nat → κ → Bool) (body : κ → σ → Out σ ρ ν) (chain : List (Props κ)) (s : σ) : Fin σ ρ ν :=
  specLoop has body (flat 0 chain []) s none

/-! ## The hypothesis under which the two can agree -/

/-- Shadowing does not change during the enumeration: for a name that some object of the chain has,
    an object nearer the start has it in any state iff it had it when the statement started.
    (Properties that shadow nothing may be deleted freely; nothing is added under a name that a later
    object has.)  Outside this hypothesis lies the Dev region `forin_revisit`. -/
def Stable (has : σ → Nat → κ → Bool) (chain : List (Props κ)) : Prop :=
  ∀ (s : σ) (i j : Nat) (k : κ), j < i → k ∈ names (chain.getD i []) → (has s j k = true ↔ k ∈ names (chain.getD j []))

end
end OttoVerif.C01.ForIn
