/-
  C01/ForInModel — otto's for-in evaluator as a pure function over an abstract body step, and the
  ES5 §12.6.4 reading of the same statement.

  MODEL: transcription of cmplEvaluateNodeForInStatement (cmpl_evaluate_statement.go, after the
  undefined/null test and ToObject) together with objectEnumerate (object_class.go): an outer loop
  over the prototype chain (`for obj != nil`), an inner loop over a snapshot of the object's property
  names, the flags `obj = nil` / `return false` by which the body's abrupt completions stop both
  loops, the two accumulators `result` / `enumerateValue`, and the `visited` set, which exists only
  when the enumerated object has a prototype.

  SPEC: §12.6.4 steps 5–7 as ONE loop over all the properties of the chain in turn: a property is
  visited when its turn comes if it has not been deleted, is enumerable, is not shadowed (no object
  nearer the start of the chain has a property of that name, enumerable or not) and its NAME has not
  been visited before ("A property name must not be visited more than once in any enumeration");
  V is the last value the body produced; break ends the statement with (normal, V, empty), any other
  abrupt completion that is not a consumed continue ends it with that completion.
  (`specStatic` is the other reading, used by FnSpec.evalForIn: what shadows what is fixed when the
  statement starts. The two coincide when shadowing does not change – `ForInThm.spec_eq_static`.)

  Abstraction: the object at position `i` of the chain is the list `(name, enumerable)` of the own
  properties it has when the statement starts, in enumeration order, names distinct; `has s i k`
  says whether object `i` has an own property `k` in state `s`.  The body (PutValue of the name into
  the loop variable, then the statement) is an arbitrary function of the name and the state.
-/
namespace OttoVerif.C01.ForIn

/-- what evaluating the loop body once can do.  `v` = the value produced by the body's statements
    (otto: the assignments to `enumerateValue`; ES5: stmt.value); `exit` = return, or break/continue
    whose target is not in the label set of this statement (otto: resultReturn). -/
inductive Out (σ ρ ν : Type) where
  | normal (v : Option ν) (s : σ)
  | cont (v : Option ν) (s : σ)
  | brk (v : Option ν) (s : σ)
  | exit (r : ρ) (s : σ)
deriving DecidableEq

/-- how the whole statement ends: all properties visited, left by a consumed break, or abruptly -/
inductive Fin (σ ρ ν : Type) where
  | exhausted (v : Option ν) (s : σ)
  | broke (v : Option ν) (s : σ)
  | abrupt (r : ρ) (s : σ)
deriving DecidableEq

/-- the own properties of one object: (name, enumerable), each name once -/
structure Obj (κ : Type) where
  props : List (κ × Bool)
  nodup : (props.map (·.1)).Nodup

def Obj.names {κ : Type} (o : Obj κ) : List κ := o.props.map (·.1)

/-- V := v unless v is empty -/
def orV {ν : Type} (a b : Option ν) : Option ν :=
  match a with
  | some v => some v
  | none => b

section
variable {κ σ ρ ν : Type} [DecidableEq κ]

/-- `for shadow := sourceObject; shadow != obj; shadow = shadow.prototype { if shadow.getOwnProperty(name) != nil … }` -/
def shadowNow (has : σ → Nat → κ → Bool) (s : σ) (i : Nat) (k : κ) : Bool :=
  (List.range i).any fun j => has s j k

/-! ## Model -/

/-- the result of objectEnumerate over one object -/
inductive Inner (σ ρ ν κ : Type) where
  | finished (ev : Option ν) (s : σ) (vis : List κ)   -- every name handled; `ev` = enumerateValue
  | stopped (res : Option ν) (s : σ)                  -- break: `result = enumerateValue` if not empty; `obj = nil; return false`
  | exited (r : ρ) (s : σ)                            -- `result = value; obj = nil; return false`

/-- objectEnumerate(obj, false, each) over the snapshot of object `i`.  `rc` = the `visited` map
    exists (`visited != nil`); `res` = `result` so far (only read on break). -/
def inner (has : σ → Nat → κ → Bool) (body : κ → σ → Out σ ρ ν) (i : Nat) (rc : Bool) (res : Option ν) :
    List (κ × Bool) → σ → Option ν → List κ → Inner σ ρ ν κ
  | [], s, ev, vis => .finished ev s vis
  | (k, en) :: r, s, ev, vis =>
    -- `if !exists continue`, `if all || prop.enumerable()`, then inside `each`: the shadow test, the visited test
    if has s i k && en && !shadowNow has s i k && !(rc && vis.contains k) then
      let vis' := if rc then k :: vis else vis
      match body k s with
      | .normal v s' => inner has body i rc res r s' (orV v ev) vis'
      | .cont v s' => inner has body i rc res r s' (orV v ev) vis'     -- resultContinue: `return true`
      | .brk v s' => .stopped (orV (orV v ev) res) s'                   -- resultBreak
      | .exit x s' => .exited x s'                                      -- resultReturn
    else inner has body i rc res r s ev vis

/-- `for obj != nil { enumerateValue := empty; obj.enumerate(…); if obj == nil { break };
     obj = obj.prototype; if !enumerateValue.isEmpty() { result = enumerateValue } }; return result` -/
def outer (has : σ → Nat → κ → Bool) (body : κ → σ → Out σ ρ ν) (rc : Bool) :
    Nat → List (Obj κ) → σ → Option ν → List κ → Fin σ ρ ν
  | _, [], s, res, _ => .exhausted res s
  | i, o :: rest, s, res, vis =>
    match inner has body i rc res o.props s none vis with
    | .finished ev s' vis' => outer has body rc (i+1) rest s' (orV ev res) vis'
    | .stopped res' s' => .broke res' s'
    | .exited x s' => .abrupt x s'

/-- `if sourceObject.prototype != nil { visited = map[string]bool{} }`: the chain has a second object -/
def ottoForIn (has : σ → Nat → κ → Bool) (body : κ → σ → Out σ ρ ν) (chain : List (Obj κ)) (s : σ) : Fin σ ρ ν :=
  outer has body (decide (1 < chain.length)) 0 chain s none []

/-! ## Spec -/

/-- every property of the chain in turn, as (position of the owner, name, enumerable) -/
def flatAll : Nat → List (Obj κ) → List (Nat × κ × Bool)
  | _, [] => []
  | i, o :: rest => (o.props.map fun p => (i, p.1, p.2)) ++ flatAll (i+1) rest

/-- §12.6.4 steps 6–7; `vis` = the names visited so far -/
def specLoop (has : σ → Nat → κ → Bool) (body : κ → σ → Out σ ρ ν) :
    List (Nat × κ × Bool) → σ → Option ν → List κ → Fin σ ρ ν
  | [], s, V, _ => .exhausted V s
  | (i, k, en) :: r, s, V, vis =>
    if has s i k && en && !shadowNow has s i k && !vis.contains k then
      match body k s with
      | .normal v s' => specLoop has body r s' (orV v V) (k :: vis)
      | .cont v s' => specLoop has body r s' (orV v V) (k :: vis)
      | .brk v s' => .broke (orV v V) s'
      | .exit x s' => .abrupt x s'
    else specLoop has body r s V vis

def specForIn (has : σ → Nat → κ → Bool) (body : κ → σ → Out σ ρ ν) (chain : List (Obj κ)) (s : σ) : Fin σ ρ ν :=
  specLoop has body (flatAll 0 chain) s none []

/-! ## The static reading (FnSpec.enumKeys / FnSpec.evalForIn with the body abstracted) -/

/-- the properties to visit, fixed when the statement starts; `seen` = the names of the objects
    nearer the start of the chain -/
def flat : Nat → List (Obj κ) → List κ → List (Nat × κ)
  | _, [], _ => []
  | i, o :: rest, seen =>
    ((o.props.filter fun p => p.2 && !seen.contains p.1).map fun p => (i, p.1)) ++ flat (i+1) rest (seen ++ o.names)

def staticLoop (has : σ → Nat → κ → Bool) (body : κ → σ → Out σ ρ ν) : List (Nat × κ) → σ → Option ν → Fin σ ρ ν
  | [], s, V => .exhausted V s
  | (i, k) :: r, s, V =>
    if has s i k then
      match body k s with
      | .normal v s' => staticLoop has body r s' (orV v V)
      | .cont v s' => staticLoop has body r s' (orV v V)
      | .brk v s' => .broke (orV v V) s'
      | .exit x s' => .abrupt x s'
    else staticLoop has body r s V

def specStatic (has : σ → Nat → κ → Bool) (body : κ → σ → Out σ ρ ν) (chain : List (Obj κ)) (s : σ) : Fin σ ρ ν :=
  staticLoop has body (flat 0 chain []) s none

/-- Shadowing does not change during the enumeration: for a name that some object of the chain has,
    an object nearer the start has it in any state iff it had it when the statement started. -/
def Stable (has : σ → Nat → κ → Bool) (chain : List (Obj κ)) : Prop :=
  ∀ (s : σ) (i j : Nat) (k : κ), j < i → (∃ o, chain[i]? = some o ∧ k ∈ o.names) →
    (has s j k = true ↔ ∃ o, chain[j]? = some o ∧ k ∈ o.names)

end
end OttoVerif.C01.ForIn
