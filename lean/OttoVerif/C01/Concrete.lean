/-
  C01/Concrete — the concrete expression/environment semantics used by the driver: a global
  object, a stack of catch scopes, and the host-call trace.  (Instance of `Sem`; the statement-level
  theorems hold for every instance.)
-/
import OttoVerif.C01.Syntax
namespace OttoVerif.C01

structure CSt where
  globals : List (String × Val)
  scopes : List (String × Val)       -- catch-parameter environments, innermost first
  trace : List Val                   -- arguments of the calls to the host function `log`, oldest first
deriving Repr, Inhabited

def lookupA (x : String) : List (String × Val) → Option Val
  | [] => none
  | (k, v) :: r => if k = x then some v else lookupA x r

def updateA (x : String) (v : Val) : List (String × Val) → List (String × Val)
  | [] => []
  | (k, w) :: r => if k = x then (k, v) :: r else (k, w) :: updateA x v r

def CSt.get (σ : CSt) (x : String) : Option Val :=
  match lookupA x σ.scopes with
  | some v => some v
  | none => lookupA x σ.globals

def CSt.set (σ : CSt) (x : String) (v : Val) : CSt :=
  match lookupA x σ.scopes with
  | some _ => { σ with scopes := updateA x v σ.scopes }
  | none =>
    match lookupA x σ.globals with
    | some _ => { σ with globals := updateA x v σ.globals }
    | none => { σ with globals := σ.globals ++ [(x, v)] }      -- non-strict: creates a global

def truthyV : Val → Bool
  | .undef => false | .null => false
  | .bool b => b
  | .num n => n != 0
  | .str s => s != ""
  | .err _ => true

def typeofV : Val → String
  | .undef => "undefined" | .null => "object" | .bool _ => "boolean" | .num _ => "number"
  | .str _ => "string" | .err _ => "object"

def evalC : Expr → CSt → ER CSt
  | .lit v, σ => .ok v σ
  | .var x, σ =>
    match σ.get x with
    | some v => .ok v σ
    | none => .throw (.err "ReferenceError") σ
  | .assign x e, σ =>
    match evalC e σ with
    | .ok v σ' => .ok v (σ'.set x v)
    | r => r
  | .add a b, σ =>
    match evalC a σ with
    | .ok va σ1 =>
      match evalC b σ1 with
      | .ok vb σ2 => match va, vb with
        | .num x, .num y => .ok (.num (x + y)) σ2
        | _, _ => .ok .undef σ2
      | r => r
    | r => r
  | .sub a b, σ =>
    match evalC a σ with
    | .ok va σ1 =>
      match evalC b σ1 with
      | .ok vb σ2 => match va, vb with
        | .num x, .num y => .ok (.num (x - y)) σ2
        | _, _ => .ok .undef σ2
      | r => r
    | r => r
  | .lt a b, σ =>
    match evalC a σ with
    | .ok va σ1 =>
      match evalC b σ1 with
      | .ok vb σ2 => match va, vb with
        | .num x, .num y => .ok (.bool (x < y)) σ2
        | _, _ => .ok (.bool false) σ2
      | r => r
    | r => r
  | .seq a b, σ =>
    match evalC a σ with
    | .ok va σ1 =>
      match evalC b σ1 with
      | .ok vb σ2 => .ok (.bool (va == vb)) σ2
      | r => r
    | r => r
  | .not a, σ =>
    match evalC a σ with
    | .ok va σ1 => .ok (.bool (!truthyV va)) σ1
    | r => r
  | .log e, σ =>
    match evalC e σ with
    | .ok v σ1 => .ok v { σ1 with trace := σ1.trace ++ [v] }
    | r => r
  | .typeofVar x, σ =>
    match σ.get x with
    | some v => .ok (.str (typeofV v)) σ
    | none => .ok (.str "undefined") σ

def concreteSem : Sem CSt where
  evalE := evalC
  truthy := truthyV
  strictEq := fun a b => a == b
  catchEnter := fun p v σ => { σ with scopes := (p, v) :: σ.scopes }
  catchExit := fun σ => { σ with scopes := σ.scopes.drop 1 }

/-- §10.5 for a Program with only `var` declarations: every declared name is bound to undefined -/
def initState (vars : List String) : CSt :=
  { globals := vars.map (fun x => (x, Val.undef)), scopes := [], trace := [] }

end OttoVerif.C01
