/-
  C01/Concrete — the concrete expression/environment semantics used by the driver: a global
  object, a stack of catch scopes, and the host-call trace.  (Instance of `Sem`; the statement-level
  theorems hold for every instance.)
-/
import OttoVerif.C01.Syntax
namespace OttoVerif.C01

/-- one environment in front of the global one: a catch parameter (declarative record, §12.14) or
    the binding object of a `with` statement (object record, §10.2.1.2) -/
inductive Scope where
  | catchB (x : String) (v : Val)
  | withO (id : Nat)
deriving Repr, Inhabited

structure CSt where
  globals : List (String × Val)
  scopes : List Scope                -- innermost first
  heap : List (List (String × Val))  -- plain objects by allocation index (own properties; the
                                     -- generated names never collide with Object.prototype's)
  trace : List Val                   -- arguments of the calls to the host function `log`, oldest first
deriving Repr, Inhabited

def lookupA (x : String) : List (String × Val) → Option Val
  | [] => none
  | (k, v) :: r => if k = x then some v else lookupA x r

def updateA (x : String) (v : Val) : List (String × Val) → List (String × Val)
  | [] => []
  | (k, w) :: r => if k = x then (k, v) :: r else (k, w) :: updateA x v r

def setNth {β : Type} : List β → Nat → β → List β
  | [], _, _ => []
  | _ :: r, 0, b => b :: r
  | a :: r, n+1, b => a :: setNth r n b

/-- §10.2.2.1 GetIdentifierReference along the scope list, then the global object -/
def getIn (heap : List (List (String × Val))) (globals : List (String × Val)) (x : String) : List Scope → Option Val
  | [] => lookupA x globals
  | .catchB y v :: r => if y = x then some v else getIn heap globals x r
  | .withO id :: r =>
    match lookupA x (heap[id]?.getD []) with
    | some v => some v
    | none => getIn heap globals x r

def CSt.get (σ : CSt) (x : String) : Option Val := getIn σ.heap σ.globals x σ.scopes

/-- PutValue on an identifier reference: the first environment that has the binding takes the
    value; an unresolvable reference creates a global (non-strict) -/
def setIn (x : String) (v : Val) (σ : CSt) : List Scope → List Scope → CSt
  | _, [] =>
    match lookupA x σ.globals with
    | some _ => { σ with globals := updateA x v σ.globals }
    | none => { σ with globals := σ.globals ++ [(x, v)] }
  | done, .catchB y w :: r =>
    if y = x then { σ with scopes := done ++ (.catchB y v :: r) } else setIn x v σ (done ++ [.catchB y w]) r
  | done, .withO id :: r =>
    match lookupA x (σ.heap[id]?.getD []) with
    | some _ => { σ with heap := setNth σ.heap id (updateA x v (σ.heap[id]?.getD [])) }
    | none => setIn x v σ (done ++ [.withO id]) r

def CSt.set (σ : CSt) (x : String) (v : Val) : CSt := setIn x v σ [] σ.scopes

def truthyV : Val → Bool
  | .undef => false | .null => false
  | .bool b => b
  | .num n => n != 0
  | .str s => s != ""
  | .err _ => true
  | .obj _ => true

def typeofV : Val → String
  | .undef => "undefined" | .null => "object" | .bool _ => "boolean" | .num _ => "number"
  | .str _ => "string" | .err _ => "object" | .obj _ => "object"

def evalC : Expr → CSt → ER CSt
  | .lit v, σ => .ok v σ
  | .var x, σ =>
    match σ.get x with
    | some v => .ok v σ
    | none => .throw (.err "ReferenceError") σ
  | .assign x e, σ =>
    match evalC e σ with
    | .ok v σ' => .ok v (σ'.set x v)
    | r => r
  | .add a b, σ =>
    match evalC a σ with
    | .ok va σ1 =>
      match evalC b σ1 with
      | .ok vb σ2 => match va, vb with
        | .num x, .num y => .ok (.num (x + y)) σ2
        | _, _ => .ok .undef σ2
      | r => r
    | r => r
  | .sub a b, σ =>
    match evalC a σ with
    | .ok va σ1 =>
      match evalC b σ1 with
      | .ok vb σ2 => match va, vb with
        | .num x, .num y => .ok (.num (x - y)) σ2
        | _, _ => .ok .undef σ2
      | r => r
    | r => r
  | .lt a b, σ =>
    match evalC a σ with
    | .ok va σ1 =>
      match evalC b σ1 with
      | .ok vb σ2 => match va, vb with
        | .num x, .num y => .ok (.bool (x < y)) σ2
        | _, _ => .ok (.bool false) σ2
      | r => r
    | r => r
  | .seq a b, σ =>
    match evalC a σ with
    | .ok va σ1 =>
      match evalC b σ1 with
      | .ok vb σ2 => .ok (.bool (va == vb)) σ2
      | r => r
    | r => r
  | .not a, σ =>
    match evalC a σ with
    | .ok va σ1 => .ok (.bool (!truthyV va)) σ1
    | r => r
  | .log e, σ =>
    match evalC e σ with
    | .ok v σ1 => .ok v { σ1 with trace := σ1.trace ++ [v] }
    | r => r
  | .typeofVar x, σ =>
    match σ.get x with
    | some v => .ok (.str (typeofV v)) σ
    | none => .ok (.str "undefined") σ
  | .callId e, σ => evalC e σ
  | .objLit fields, σ =>
    .ok (.obj σ.heap.length) { σ with heap := σ.heap ++ [fields.map (fun (k, n) => (k, Val.num n))] }

/-- §12.10 steps 2–5: ToObject (TypeError on undefined/null; a primitive gets a wrapper, which has
    none of the generated names) and the new object environment in front -/
def withEnterC (v : Val) (σ : CSt) : ER CSt :=
  match v with
  | .undef => .throw (.err "TypeError") σ
  | .null => .throw (.err "TypeError") σ
  | .obj id => .ok .undef { σ with scopes := .withO id :: σ.scopes }
  | _ => .ok .undef { σ with scopes := .withO σ.heap.length :: σ.scopes, heap := σ.heap ++ [[]] }

def concreteSem : Sem CSt where
  evalE := evalC
  truthy := truthyV
  strictEq := fun a b => a == b
  catchEnter := fun p v σ => { σ with scopes := .catchB p v :: σ.scopes }
  catchExit := fun σ => { σ with scopes := σ.scopes.drop 1 }
  withEnter := withEnterC
  withExit := fun σ => { σ with scopes := σ.scopes.drop 1 }

/-- §10.5 for a Program with only `var` declarations: every declared name is bound to undefined -/
def initState (vars : List String) : CSt :=
  { globals := vars.map (fun x => (x, Val.undef)), scopes := [], heap := [], trace := [] }

end OttoVerif.C01
