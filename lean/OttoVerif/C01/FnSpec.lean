/-
  C01/FnSpec — an executable ES5 semantics of µJS-with-functions, written from the standard:
  §8.7 references, §10.2 environment records, §10.4.2/10.4.3 entering eval/function code, §10.5
  declaration binding instantiation, §10.6 the arguments object, §11.2.2/11.2.3 new and calls,
  §13 function definitions (incl. named function expressions), §13.2.1/13.2.2 [[Call]]/[[Construct]],
  §15.3.4.3–5 apply/call/bind, §15.1.2.1 eval (direct vs indirect), §11.8.6 instanceof,
  §12.10 `with` over §10.2.1.2 object environment records (incl. ImplicitThisValue, §11.2.3 step 6.b),
  §12.6.4 for-in (enumerable own then inherited properties, shadowing, deletion during enumeration),
  §12.7/12.8/12.12 break/continue/labelled statements with ES5 completion records and label sets.
  It is the ORACLE of the `fn` correspondence stream: otto itself is compared against it.
  (No theorem relates this layer to a transcription of otto's code yet – see DESIGN.md.)
-/
import OttoVerif.C01.FnSyntax
namespace OttoVerif.C01.Fn

inductive V where
  | undef | null
  | bool (b : Bool)
  | num (n : Int)
  | nan
  | str (s : String)
  | ref (a : Nat)
deriving DecidableEq, Repr, Inhabited

inductive OKind where
  | plain
  | func (code : FE) (env : Nat)
  | bound (target : Nat) (this : V) (args : List V)
  | args (map : List (Option String)) (env : Nat)
  | builtin (name : String)
  | error (name : String)

structure Obj where
  props : List (String × V)
  proto : Option Nat
  kind : OKind
  dontEnum : List String := []       -- names of the own properties whose [[Enumerable]] is false
  accs : List (String × String) := []  -- own ACCESSOR properties, name ↦ tag: the getter logs "G<tag>:<receiver>" and
                                     -- returns "v<tag>", the setter logs "S<tag>:<receiver>:<value>"; not enumerable,
                                     -- configurable; a name is never both in `props` and in `accs`
  readOnly : List String := []       -- names of the own properties whose [[Writable]] is false (beyond `canPut`'s fixed ones)
  dontDelete : List String := []     -- names of own properties whose [[Configurable]] is false because they are
                                     -- bindings of global code (§10.5 with configurableBindings = false)

structure Env where
  vars : List (String × V)
  outer : Option Nat
  immut : List String := []          -- immutable bindings (the name of a named function expression)
  deletable : List String := []      -- bindings created with configurableBindings = true (eval code, §10.4.2)
  obj : Option Nat := none           -- §10.2.1.2: the binding object of an object environment record
                                     -- created by `with` (provideThis = true); `vars` is then unused

structure St where
  heap : List Obj
  envs : List Env
  trace : List String

structure Ctx where
  env : Nat          -- LexicalEnvironment
  venv : Nat         -- VariableEnvironment
  this : V

inductive Res (α : Type) where
  | ok (a : α) (σ : St)
  | throw (v : V) (σ : St)
  | fuel

/-- statement completion (§8.9): (type, value, target); `none` value = empty; throw is `Res.throw` -/
inductive Comp where
  | normal (v : Option V)
  | ret (v : V)
  | brk (v : Option V) (l : Option String)
  | cont (v : Option V) (l : Option String)

def Comp.val : Comp → Option V
  | .normal v => v | .ret v => some v | .brk v _ => v | .cont v _ => v

/-- "stmt.target is in the current label set" – the empty target belongs to the label set of every
    iteration statement (§12.12) -/
def defaultIdx : FCases → Nat → Option Nat
  | .nil, _ => none
  | .dflt _ _, i => some i
  | .case _ _ r, i => defaultIdx r (i+1)

def dropCases : FCases → Nat → FCases
  | cs, 0 => cs
  | .nil, _ => .nil
  | .case _ _ r, i+1 => dropCases r i
  | .dflt _ r, i+1 => dropCases r i

def inLs (l : Option String) (ls : List String) : Bool :=
  match l with
  | none => true
  | some x => ls.contains x

/-- V := stmt.value unless that is empty -/
def orV (a b : Option V) : Option V :=
  match a with
  | some v => some v
  | none => b

def objProto : Nat := 0    -- Object.prototype (allocated first: a prototype is older than its heirs)
def gObj : Nat := 1        -- the global object
def fnProto : Nat := 2     -- Function.prototype

def initSt : St :=
  { heap := [ { props := [], proto := none, kind := .plain },
              { props := [], proto := some objProto, kind := .plain },
              { props := [("call", .ref 3), ("apply", .ref 4), ("bind", .ref 5)], proto := some objProto, kind := .builtin "proto",
                dontEnum := ["call", "apply", "bind"] },
              { props := [("length", .num 1)], proto := some fnProto, kind := .builtin "call", dontEnum := ["length"] },
              { props := [("length", .num 2)], proto := some fnProto, kind := .builtin "apply", dontEnum := ["length"] },
              { props := [("length", .num 1)], proto := some fnProto, kind := .builtin "bind", dontEnum := ["length"] },
              -- §15.11.7.7 the NativeError prototype objects ([[Class]] "Error"; their `name` is the kind's)
              { props := [], proto := some objProto, kind := .error "TypeError" },
              { props := [], proto := some objProto, kind := .error "ReferenceError" },
              -- §15.5.4, §15.7.4, §15.6.4: String.prototype, Number.prototype, Boolean.prototype (no property of
              -- theirs is part of this layer)
              { props := [], proto := some objProto, kind := .plain },
              { props := [], proto := some objProto, kind := .plain },
              { props := [], proto := some objProto, kind := .plain } ],
    envs := [ { vars := [], outer := none } ],     -- env 0: the global (object) environment over heap[0]
    trace := [] }

def lookupA {β : Type} (x : String) : List (String × β) → Option β
  | [] => none
  | (k, v) :: r => if k = x then some v else lookupA x r

def updateA {β : Type} (x : String) (v : β) : List (String × β) → List (String × β)
  | [] => []
  | (k, w) :: r => if k = x then (k, v) :: r else (k, w) :: updateA x v r

def removeA {β : Type} (x : String) : List (String × β) → List (String × β)
  | [] => []
  | (k, w) :: r => if k = x then r else (k, w) :: removeA x r

def setNth {β : Type} : List β → Nat → β → List β
  | [], _, _ => []
  | _ :: r, 0, b => b :: r
  | a :: r, n+1, b => a :: setNth r n b

def St.obj? (σ : St) (a : Nat) : Option Obj := σ.heap[a]?
def St.alloc (σ : St) (o : Obj) : Nat × St := (σ.heap.length, { σ with heap := σ.heap ++ [o] })
def St.setObj (σ : St) (a : Nat) (o : Obj) : St := { σ with heap := setNth σ.heap a o }
def St.newEnv (σ : St) (e : Env) : Nat × St := (σ.envs.length, { σ with envs := σ.envs ++ [e] })
def St.setEnv (σ : St) (i : Nat) (e : Env) : St := { σ with envs := setNth σ.envs i e }

def typeErrProto : Nat := 6
def refErrProto : Nat := 7
def strProto : Nat := 8
def numProto : Nat := 9
def boolProto : Nat := 10

def mkError (σ : St) (name : String) : V × St :=
  let (a, σ') := σ.alloc { props := [], proto := some (if name = "ReferenceError" then refErrProto else typeErrProto),
                           kind := .error name }
  (.ref a, σ')

def throwErr {α : Type} (σ : St) (name : String) : Res α :=
  let (v, σ') := mkError σ name
  .throw v σ'

/-- own-or-inherited data property (fuel = chain length bound) -/
def getChain (σ : St) : Nat → Nat → String → V
  | 0, _, _ => .undef
  | n+1, a, p =>
    match σ.obj? a with
    | none => .undef
    | some o =>
      match lookupA p o.props with
      | some v => v
      | none => match o.proto with
        | some q => getChain σ n q p
        | none => .undef

/-- variable lookup along the environment chain; the global environment reads the global object -/
def envLookup (σ : St) : Nat → Nat → String → Option V
  | 0, _, _ => none
  | n+1, i, x =>
    if i = 0 then
      match σ.obj? gObj with
      | some g => lookupA x g.props
      | none => none
    else match σ.envs[i]? with
      | none => none
      | some e =>
        match lookupA x e.vars with
        | some v => some v
        | none => match e.outer with
          | some j => envLookup σ n j x
          | none => none

/-- PutValue on an identifier reference (non-strict: an unresolvable reference creates a global property) -/
def envAssign (σ : St) : Nat → Nat → String → V → St
  | 0, _, _, _ => σ
  | n+1, i, x, v =>
    let toGlobal : St :=
      match σ.obj? gObj with
      | some g =>
        match lookupA x g.props with
        | some _ => σ.setObj gObj { g with props := updateA x v g.props }
        | none => σ.setObj gObj { g with props := g.props ++ [(x, v)] }
      | none => σ
    if i = 0 then toGlobal
    else match σ.envs[i]? with
      | none => σ
      | some e =>
        match lookupA x e.vars with
        | some _ => if e.immut.contains x then σ else σ.setEnv i { e with vars := updateA x v e.vars }
        | none => match e.outer with
          | some j => envAssign σ n j x v
          | none => toGlobal

/-- create (or overwrite) a binding in a variable environment (§10.5) -/
def bindIn (σ : St) (i : Nat) (x : String) (v : V) (overwrite : Bool) : St :=
  if i = 0 then
    match σ.obj? gObj with
    | some g =>
      match lookupA x g.props with
      | some _ => if overwrite then σ.setObj gObj { g with props := updateA x v g.props } else σ
      | none => σ.setObj gObj { g with props := g.props ++ [(x, v)] }
    | none => σ
  else match σ.envs[i]? with
    | none => σ
    | some e =>
      match lookupA x e.vars with
      | some _ => if overwrite then σ.setEnv i { e with vars := updateA x v e.vars } else σ
      | none => σ.setEnv i { e with vars := e.vars ++ [(x, v)] }

/-- §10.5 for global and eval code: like `bindIn`, and a binding that is CREATED here is deletable iff the code is
    eval code (configurableBindings): recorded in `Env.deletable` for a declarative record, by absence from
    `Obj.dontDelete` for the global object -/
def bindInCode (σ : St) (i : Nat) (x : String) (v : V) (overwrite : Bool) (del : Bool) : St :=
  if i = 0 then
    match σ.obj? gObj with
    | some g =>
      match lookupA x g.props with
      | some _ => if overwrite then σ.setObj gObj { g with props := updateA x v g.props } else σ
      | none => σ.setObj gObj { g with props := g.props ++ [(x, v)],
                                       dontDelete := if del then g.dontDelete else g.dontDelete ++ [x] }
    | none => σ
  else match σ.envs[i]? with
    | none => σ
    | some e =>
      match lookupA x e.vars with
      | some _ => if overwrite then σ.setEnv i { e with vars := updateA x v e.vars } else σ
      | none => σ.setEnv i { e with vars := e.vars ++ [(x, v)], deletable := if del then e.deletable ++ [x] else e.deletable }

def isCallable (σ : St) : V → Bool
  | .ref a => match σ.obj? a with
    | some o => match o.kind with
      | .func .. => true | .bound .. => true | .builtin _ => true
      | _ => false
    | none => false
  | _ => false

def truthy : V → Bool
  | .undef => false | .null => false | .bool b => b | .num n => n != 0 | .nan => false | .str s => s != "" | .ref _ => true

def typeofV (σ : St) (v : V) : String :=
  match v with
  | .undef => "undefined" | .null => "object" | .bool _ => "boolean" | .num _ => "number" | .nan => "number" | .str _ => "string"
  | .ref _ => if isCallable σ v then "function" else "object"

def tokV (σ : St) (v : V) : String :=
  match v with
  | .undef => "u" | .null => "null"
  | .bool b => if b then "t" else "f"
  | .num n => "n" ++ toString n
  | .nan => "nan"
  | .str s => "s" ++ s
  | .ref a => match σ.obj? a with
    | some o => match o.kind with
      | .func .. => "fn" | .bound .. => "fn" | .builtin _ => "fn"
      | .error n => "err:" ++ n
      | .args .. => "args"
      | .plain => "obj"
    | none => "?"

def toStr (v : V) : String :=
  match v with
  | .undef => "undefined" | .null => "null"
  | .bool b => if b then "true" else "false"
  | .num n => toString n
  | .nan => "NaN"
  | .str s => s
  | .ref _ => "[object Object]"

/-- ToNumber on the values the programs compute with (`none` = NaN; strings and objects are not
    used as arithmetic operands by the generator) -/
def toNum : V → Option Int
  | .num n => some n
  | .null => some 0
  | .bool b => some (if b then 1 else 0)
  | _ => none

def ofPV : PV → V
  | .undef => .undef | .null => .null | .bool b => .bool b | .num n => .num n | .str s => .str s

def digitsVal : List Char → Nat → Option Nat
  | [], acc => some acc
  | c :: r, acc => if '0' ≤ c ∧ c ≤ '9' then digitsVal r (acc * 10 + (c.toNat - '0'.toNat)) else none

/-- index of a canonical array-index property name (§15.4: ToString(ToUint32(P)) = P and ≠ 2^32−1): decimal
    digits without a leading zero; structural on the characters, so that it also evaluates in the kernel -/
def idx? (p : String) : Option Nat :=
  match p.toList with
  | [] => none
  | ['0'] => some 0
  | '0' :: _ => none
  | cs => match digitsVal cs 0 with
    | some n => if n < 4294967295 then some n else none
    | none => none

/-- [[GetProperty]] (§8.12.2) as far as accessors go: the tag of the accessor property `p` that the chain from `a`
    reaches first (`none`: a data property comes first, or nothing is found) -/
def findAcc (σ : St) : Nat → Nat → String → Option String
  | 0, _, _ => none
  | n+1, a, p =>
    match σ.obj? a with
    | none => none
    | some o =>
      if (lookupA p o.props).isSome then none
      else match lookupA p o.accs with
        | some t => some t
        | none => match o.proto with
          | some q => findAcc σ n q p
          | none => none

/-- the prototype object ToObject would give the wrapper of a primitive (§9.9) -/
def primProto : V → Option Nat
  | .str _ => some strProto
  | .num _ => some numProto
  | .nan => some numProto
  | .bool _ => some boolProto
  | _ => none

/-- what an accessor function logs of its `this` value: the [[Class]], and for a primitive base (which the function
    sees as a wrapper object, §10.4.3) the primitive -/
def recvTok (σ : St) (base : V) : String :=
  match base with
  | .str s => "String:" ++ s
  | .num n => "Number:" ++ toString n
  | .nan => "Number:NaN"
  | .bool b => "Boolean:" ++ (if b then "true" else "false")
  | .ref a => (match σ.obj? a with
    | some o => (match o.kind with
      | .func .. => "Function" | .bound .. => "Function" | .builtin _ => "Function"
      | .error _ => "Error" | .args .. => "Arguments" | .plain => "Object")
    | none => "?")
  | _ => "?"

/-- the call of the getter / setter of an accessor tagged `t` with this = base -/
def accGet (σ : St) (t : String) (base : V) : Res V :=
  .ok (.str ("v" ++ t)) { σ with trace := σ.trace ++ ["sG" ++ t ++ ":" ++ recvTok σ base] }
/-- what the setter logs of its argument: numbers and strings by value, anything else by its typeof -/
def accValTok (σ : St) (v : V) : String :=
  match v with
  | .num n => "n" ++ toString n
  | .nan => "nan"
  | .str s => "s" ++ s
  | w => typeofV σ w
def accSet (σ : St) (t : String) (base : V) (v : V) : Res Unit :=
  .ok () { σ with trace := σ.trace ++ ["sS" ++ t ++ ":" ++ recvTok σ base ++ ":" ++ accValTok σ v] }

/-- the own properties of the String wrapper of a string: length and the index properties (§15.5.5) -/
def strOwn (s : String) (p : String) : Option V :=
  if p = "length" then some (.num s.length)
  else match idx? p with
    | some i => (match s.toList[i]? with | some ch => some (.str (String.singleton ch)) | none => none)
    | none => none

/-- [[Get]] for data properties (§8.12.3, §10.6 for mapped arguments) -/
def getPropD (σ : St) (base : V) (p : String) : Res V :=
  match base with
  | .undef => throwErr σ "TypeError"
  | .null => throwErr σ "TypeError"
  | .str s => if p = "length" then .ok (.num s.length) σ else .ok .undef σ
  | .ref a =>
    match σ.obj? a with
    | none => .ok .undef σ
    | some o =>
      let plain := getChain σ (σ.heap.length + 1) a p
      match o.kind with
      | .args map env =>
        (match idx? p with
         | some i => match map[i]? with
           | some (some name) => .ok ((envLookup σ (σ.envs.length + 1) env name).getD .undef) σ
           | _ => .ok plain σ
         | none => .ok plain σ)
      | .error n => if p = "name" then .ok (.str n) σ else .ok plain σ
      | _ => .ok plain σ
  | _ => .ok .undef σ

/-- [[Get]] (§8.12.3): an accessor found first on the chain is called with this = the base; §8.7.1 the special [[Get]]
    for a primitive base: the properties of its wrapper, then the wrapper's prototype chain, this = the primitive -/
def getProp (σ : St) (base : V) (p : String) : Res V :=
  match base with
  | .undef => throwErr σ "TypeError"
  | .null => throwErr σ "TypeError"
  | .ref a =>
    (match findAcc σ (σ.heap.length + 1) a p with
     | some t => accGet σ t base
     | none => getPropD σ base p)
  | v =>
    let own : Option V := match v with | .str s => strOwn s p | _ => none
    match own with
    | some w => .ok w σ
    | none =>
      match primProto v with
      | some q =>
        (match findAcc σ (σ.heap.length + 1) q p with
         | some t => accGet σ t base
         | none => .ok (getChain σ (σ.heap.length + 1) q p) σ)
      | none => .ok .undef σ

def isFnKind : OKind → Bool
  | .func .. => true | .bound .. => true | .builtin _ => true | _ => false

/-- [[CanPut]] (§8.12.4) as far as this layer has read-only properties: the `length` of a function
    object (§13.2 step 15, §15.3.4.5 step 15–17: [[Writable]] false) cannot be put, own or inherited -/
def canPut (σ : St) : Nat → Nat → String → Bool
  | 0, _, _ => true
  | n+1, a, p =>
    match σ.obj? a with
    | none => true
    | some o =>
      match lookupA p o.props with
      | some _ => !(p == "length" && isFnKind o.kind) && !o.readOnly.contains p
      | none => match o.proto with
        | some q => canPut σ n q p
        | none => true

/-- §10.6 [[DefineOwnProperty]] step 5.b.i of an arguments object, as reached from [[Put]]: a mapped index
    also writes the parameter it is joined to -/
def mappedAssign (σ : St) (k : OKind) (p : String) (v : V) : St :=
  match k with
  | .args map env =>
    (match idx? p with
     | some i => match map[i]? with
       | some (some name) => envAssign σ (σ.envs.length + 1) env name v
       | _ => σ
     | none => σ)
  | _ => σ

/-- [[Put]] for data properties (§8.12.5; a put that [[CanPut]] refuses is ignored: non-strict code) -/
def putPropD (σ : St) (base : V) (p : String) (v : V) : Res Unit :=
  match base with
  | .undef => throwErr σ "TypeError"
  | .null => throwErr σ "TypeError"
  | .ref a =>
    match σ.obj? a with
    | none => .ok () σ
    | some o =>
      if !canPut σ (σ.heap.length + 1) a p then .ok () σ else
      let σ1 : St := mappedAssign σ o.kind p v
      let o' : Obj := match lookupA p o.props with
        | some _ => { o with props := updateA p v o.props }
        | none => { o with props := o.props ++ [(p, v)] }
      .ok () (σ1.setObj a o')
  | _ => .ok () σ

/-- [[Put]] (§8.12.5): an accessor found first on the chain has its setter called with this = the base (step 5);
    §8.7.2 the special [[Put]] for a primitive base: the setter of an inherited accessor is called with
    this = the primitive, anything else is dropped (the wrapper is transient) -/
def putProp (σ : St) (base : V) (p : String) (v : V) : Res Unit :=
  match base with
  | .undef => throwErr σ "TypeError"
  | .null => throwErr σ "TypeError"
  | .ref a =>
    (match findAcc σ (σ.heap.length + 1) a p with
     | some t => accSet σ t base v
     | none => putPropD σ base p v)
  | b =>
    let own : Option V := match b with | .str s => strOwn s p | _ => none
    match own with
    | some _ => .ok () σ
    | none =>
      match primProto b with
      | some q =>
        (match findAcc σ (σ.heap.length + 1) q p with
         | some t => accSet σ t base v
         | none => .ok () σ)
      | none => .ok () σ

/-- [[Configurable]] false: a function's length and prototype (§13.2), a bound function's length -/
def fixedProp (k : OKind) (p : String) : Bool :=
  match k with
  | .func .. => p == "length" || p == "prototype"
  | .bound .. => p == "length"
  | _ => false

/-- §10.6 [[Delete]] step 3: deleting an index of an arguments object un-maps it -/
def unmapKind (k : OKind) (p : String) : OKind :=
  match k with
  | .args map env => (match idx? p with
    | some i => .args (setNth map i none) env
    | none => k)
  | k => k

/-- [[Delete]] (§8.12.7, §10.6) -/
def delPropD (σ : St) (base : V) (p : String) : Res V :=
  match base with
  | .undef => throwErr σ "TypeError"
  | .null => throwErr σ "TypeError"
  | .ref a =>
    match σ.obj? a with
    | none => .ok (.bool true) σ
    | some o =>
      if (fixedProp o.kind p || o.dontDelete.contains p) && (lookupA p o.props).isSome then .ok (.bool false) σ else
      .ok (.bool true) (σ.setObj a { o with props := removeA p o.props, kind := unmapKind o.kind p,
                                            readOnly := o.readOnly.filter (· != p),
                                            dontEnum := o.dontEnum.filter (· != p) })
  | _ => .ok (.bool true) σ

/-- [[Delete]] (§8.12.7): an own accessor property goes (it is configurable); §11.4.1 step 4 on a primitive base:
    [[Delete]] on its wrapper, whose own properties (a string's length and indices) are not configurable -/
def delProp (σ : St) (base : V) (p : String) : Res V :=
  match base with
  | .ref a =>
    (match σ.obj? a with
     | some o =>
       (match lookupA p o.accs with
        | some _ => .ok (.bool true) (σ.setObj a { o with accs := removeA p o.accs })
        | none => delPropD σ base p)
     | none => delPropD σ base p)
  | .str s => .ok (.bool (strOwn s p).isNone) σ
  | b => delPropD σ b p

/-- [[HasProperty]] (§8.12.6) for data properties: own or inherited -/
def hasPropD (σ : St) : Nat → Nat → String → Bool
  | 0, _, _ => false
  | n+1, a, p =>
    match σ.obj? a with
    | none => false
    | some o =>
      match lookupA p o.props with
      | some _ => true
      | none => match o.proto with
        | some q => hasPropD σ n q p
        | none => false

/-- [[HasProperty]] (§8.12.6): a data or an accessor property, own or inherited -/
def hasProp (σ : St) (n : Nat) (a : Nat) (p : String) : Bool :=
  hasPropD σ n a p || (findAcc σ n a p).isSome

/-- §10.2.2.1 GetIdentifierReference: the environment whose record has the binding (`none` =
    unresolvable).  Declarative records: HasBinding; object records (the global one, and those made
    by `with`): [[HasProperty]] of the binding object. -/
def envResolve (σ : St) : Nat → Nat → String → Option Nat
  | 0, _, _ => none
  | n+1, i, x =>
    if i = 0 then (if hasProp σ (σ.heap.length + 1) gObj x then some 0 else none)
    else match σ.envs[i]? with
      | none => none
      | some e =>
        let has : Bool := match e.obj with
          | some a => hasProp σ (σ.heap.length + 1) a x
          | none => (lookupA x e.vars).isSome
        if has then some i
        else match e.outer with
          | some j => envResolve σ n j x
          | none => none

/-- GetBindingValue on the record of environment `i` (§10.2.1.1.4 / §10.2.1.2.4) -/
def envGet (σ : St) (i : Nat) (x : String) : Res V :=
  if i = 0 then getProp σ (.ref gObj) x
  else match σ.envs[i]? with
    | none => .ok .undef σ
    | some e =>
      match e.obj with
      | some a => getProp σ (.ref a) x
      | none => .ok ((lookupA x e.vars).getD .undef) σ

/-- SetMutableBinding on the record of environment `i` (§10.2.1.1.3 / §10.2.1.2.3: [[Put]] on the
    binding object, which creates the property if it has been deleted since the reference was made) -/
def envPut (σ : St) (i : Nat) (x : String) (v : V) : Res Unit :=
  if i = 0 then putProp σ (.ref gObj) x v
  else match σ.envs[i]? with
    | none => .ok () σ
    | some e =>
      match e.obj with
      | some a => putProp σ (.ref a) x v
      | none => if e.immut.contains x then .ok () σ else .ok () (σ.setEnv i { e with vars := updateA x v e.vars })

/-- PutValue on an identifier reference (§8.7.2; non-strict: unresolvable creates a global property) -/
def putIdent (σ : St) (r : Option Nat) (x : String) (v : V) : Res Unit :=
  match r with
  | some i => envPut σ i x v
  | none => putProp σ (.ref gObj) x v

/-- ImplicitThisValue of the record of environment `i` (§10.2.1.1.6 / §10.2.1.2.6): the binding object
    for a `with` environment, undefined otherwise (the global object record has provideThis = false) -/
def implicitThis (σ : St) (i : Nat) : V :=
  if i = 0 then .undef
  else match σ.envs[i]? with
    | some e => (match e.obj with | some a => .ref a | none => .undef)
    | none => .undef

/-- ToObject (§9.9).  Wrapper objects carry what for-in can see: a String object's index properties
    (enumerable) and length (not); Number/Boolean objects have no own properties.  The built-in
    prototypes have no enumerable properties, so Object.prototype stands in for them. -/
def toObject (σ : St) (v : V) : Res Nat :=
  match v with
  | .undef => throwErr σ "TypeError"
  | .null => throwErr σ "TypeError"
  | .ref a => .ok a σ
  | .str s =>
    let cs := s.toList
    let idx : List (String × V) := ((List.range cs.length).zip cs).map fun (i, ch) => (toString i, V.str (String.singleton ch))
    let (a, σ') := σ.alloc { props := idx ++ [("length", .num cs.length)], proto := some strProto, kind := .plain, dontEnum := ["length"] }
    .ok a σ'
  | .bool _ =>
    let (a, σ') := σ.alloc { props := [], proto := some boolProto, kind := .plain }
    .ok a σ'
  | _ =>
    let (a, σ') := σ.alloc { props := [], proto := some numProto, kind := .plain }
    .ok a σ'

/-- §12.6.4: the properties for-in is to visit, as (owner, name): the enumerable own properties of the
    object, then those of its prototype, and so on; a property of a prototype is left out if an object
    nearer the start of the chain has a property of that name, enumerable or not.  (ES5 leaves the
    order open; creation order is used here and generated programs do not depend on it.) -/
def enumKeys (σ : St) : Nat → Nat → List String → List (Nat × String)
  | 0, _, _ => []
  | n+1, a, seen =>
    match σ.obj? a with
    | none => []
    | some o =>
      let own := o.props.map (·.1)
      let ks := own.filter fun k => !(o.dontEnum.contains k) && !(seen.contains k)
      let rest := match o.proto with
        | some q => enumKeys σ n q (seen ++ own)
        | none => []
      ks.map (fun k => (a, k)) ++ rest

def nparams : FE → Nat
  | .func _ ps _ _ _ => ps.length
  | _ => 0

/-- §13.2 Creating Function Objects -/
def mkFunc (σ : St) (code : FE) (env : Nat) : V × St :=
  let (f, σ1) := σ.alloc { props := [], proto := some fnProto, kind := .func code env }
  let (p, σ2) := σ1.alloc { props := [("constructor", .ref f)], proto := some objProto, kind := .plain, dontEnum := ["constructor"] }
  let fo : Obj := { props := [("length", .num (nparams code)), ("prototype", .ref p)], proto := some fnProto, kind := .func code env,
                    dontEnum := ["length", "prototype"] }
  (.ref f, σ2.setObj f fo)

/-- §10.6 CreateArgumentsObject (non-strict: mapped) -/
def mkArguments (σ : St) (params : List String) (args : List V) (env : Nat) (callee : V) : V × St :=
  let idxProps : List (String × V) := (List.range args.length).zip args |>.map (fun (i, v) => (toString i, v))
  -- §10.6 step 11: indx runs from len−1 (len = number of ARGUMENTS) down to 0; a name is already in
  -- mappedNames only if a LATER position that also received an argument bears it
  let map : List (Option String) := (List.range args.length).map fun i =>
    match params[i]? with
    | some name => if ((params.take args.length).drop (i+1)).contains name then none else some name
    | none => none
  -- step 7 `length`, step 13.a `callee` (non-strict code): writable, not enumerable, configurable
  let (a, σ') := σ.alloc { props := idxProps ++ [("length", .num args.length), ("callee", callee)], proto := some objProto,
                           kind := .args map env, dontEnum := ["length", "callee"] }
  (.ref a, σ')

/-- ToUint32 (§9.6) on the values this layer has -/
def toUint32 (v : V) : Nat :=
  match toNum v with
  | some n => (n % 4294967296).toNat
  | none => 0

/-- what the harness's host function reports of its This value -/
def hostThisTok (σ : St) (v : V) : String :=
  match v with
  | .undef => "undefined" | .null => "null"
  | .str s => "string:" ++ s
  | .num n => "number:" ++ toString n
  | .nan => "number:NaN"
  | .bool b => "boolean:" ++ (if b then "true" else "false")
  | .ref _ => if isCallable σ v then "function" else "object"

def evalListToArgs (σ : St) (arr : V) : List V :=
  match arr with
  | .ref _ =>
    match getProp σ arr "length" with
    -- §15.3.4.3 step 4–5: len = ToUint32(argArray.[[Get]]("length"))
    | .ok lenV _ => (List.range (toUint32 lenV)).map fun i =>
        match getProp σ arr (toString i) with
        | .ok v _ => v
        | _ => .undef
    | _ => []
  | _ => []

/-- function declarations: closures over the current lexical environment, bound (overwriting) in `venv` -/
def bindDecls : Nat → FDecls → Nat → Ctx → St → Res Unit
  | 0, _, _, _, _ => .fuel
  | _+1, .nil, _, _, σ => .ok () σ
  | n+1, .cons name f ds, venv, c, σ =>
    let (fv, σ1) := mkFunc σ f c.env
    bindDecls n ds venv c (bindIn σ1 venv name fv true)

/-- the object on the prototype chain from `a` that has the own property `p` ([[GetProperty]], §8.12.2) -/
def propOwner (σ : St) : Nat → Nat → String → Option Nat
  | 0, _, _ => none
  | n+1, a, p =>
    match σ.obj? a with
    | none => none
    | some o =>
      match lookupA p o.props with
      | some _ => some a
      | none => match o.proto with
        | some q => propOwner σ n q p
        | none => none

/-- [[Writable]] false -/
def isReadOnly (o : Obj) (p : String) : Bool := (p == "length" && isFnKind o.kind) || o.readOnly.contains p

/-- §10.5 step 5.e for a name the global object already has (own or inherited): iii. a configurable property is
    redefined as {undefined, writable, enumerable, configurable: configurableBindings} on the global object itself;
    iv. a non-configurable one that is read-only or not enumerable is a TypeError; `none` = that TypeError -/
def redeclareGlobal (σ : St) (name : String) (del : Bool) : Option St :=
  match propOwner σ (σ.heap.length + 1) gObj name with
  | none => some σ
  | some ow =>
    match σ.obj? ow, σ.obj? gObj with
    | some o, some g =>
      if !(fixedProp o.kind name || o.dontDelete.contains name) then
        let props' := match lookupA name g.props with
          | some _ => updateA name .undef g.props
          | none => g.props ++ [(name, .undef)]
        some (σ.setObj gObj { g with props := props', dontEnum := g.dontEnum.filter (· != name),
                                      readOnly := g.readOnly.filter (· != name),
                                      dontDelete := if del then g.dontDelete.filter (· != name)
                                                    else name :: g.dontDelete.filter (· != name) })
      else if isReadOnly o name || o.dontEnum.contains name then none
      else some σ
    | _, _ => some σ

/-- function declarations of global / eval code (§10.5 step 5 with configurableBindings = `del`) -/
def bindDeclsCode : Nat → FDecls → Nat → Ctx → St → Bool → Res Unit
  | 0, _, _, _, _, _ => .fuel
  | _+1, .nil, _, _, σ, _ => .ok () σ
  | n+1, .cons name f ds, venv, c, σ, del =>
    let (fv, σ1) := mkFunc σ f c.env
    if venv = 0 && hasProp σ1 (σ1.heap.length + 1) gObj name then
      match redeclareGlobal σ1 name del with
      | none => throwErr σ1 "TypeError"
      | some σ2 =>
        -- step 5.f SetMutableBinding = [[Put]] on the global object
        match putProp σ2 (.ref gObj) name fv with
        | .ok _ σ3 => bindDeclsCode n ds venv c σ3 del
        | .throw t σ3 => .throw t σ3
        | .fuel => .fuel
    else bindDeclsCode n ds venv c (bindInCode σ1 venv name fv true del) del

/-- §10.5 declaration binding instantiation for function code, in the order of the standard: step 4 the
    parameters, step 5 the function declarations, steps 6–7 the arguments object unless `arguments` is already
    bound, step 8 the variable declarations.  `i` = the new declarative environment, `fv` = the function object. -/
def instantiate (n : Nat) (i : Nat) (c : Ctx) (ps : List String) (args : List V) (fv : V) (ds : FDecls) (vs : List String)
    (σ1 : St) : Res Unit :=
  let σ2 := ((List.range ps.length).zip ps).foldl (fun s (k, name) => bindIn s i name (args[k]?.getD .undef) true) σ1
  match bindDecls n ds i c σ2 with
  | .ok _ σ3 =>
    let σ4 : St :=
      match σ3.envs[i]? with
      | some e => (match lookupA "arguments" e.vars with
        | some _ => σ3
        | none => let (av, s') := mkArguments σ3 ps args i fv; bindIn s' i "arguments" av true)
      | none => σ3
    .ok () (vs.foldl (fun s x => bindIn s i x .undef false) σ4)
  | .throw t σ3 => .throw t σ3
  | .fuel => .fuel

mutual

def evalE : Nat → FE → Ctx → St → Res V
  | 0, _, _, _ => .fuel
  | n+1, e, c, σ =>
    match e with
    | .lit v => .ok (ofPV v) σ
    | .this => .ok c.this σ
    | .var x =>
      match envResolve σ (σ.envs.length + 1) c.env x with
      | some i => envGet σ i x
      | none => throwErr σ "ReferenceError"
    | .assign x e1 =>
      -- §11.13.1: the left-hand reference is made BEFORE the right-hand side is evaluated
      let r := envResolve σ (σ.envs.length + 1) c.env x
      match evalE n e1 c σ with
      | .ok v σ1 => (match putIdent σ1 r x v with
        | .ok _ σ2 => .ok v σ2
        | .throw t σ2 => .throw t σ2
        | .fuel => .fuel)
      | r => r
    | .val e1 => evalE n e1 c σ
    | .defNE o p e1 =>
      -- §15.2.3.6 with a complete data descriptor whose [[Enumerable]] is false; returns the object
      match evalE n o c σ with
      | .ok b σ1 => match evalE n e1 c σ1 with
        | .ok v σ2 =>
          (match b with
           | .ref a =>
             (match σ2.obj? a with
              | some ob =>
                let props' := match lookupA p ob.props with
                  | some _ => updateA p v ob.props
                  | none => ob.props ++ [(p, v)]
                -- §10.6 [[DefineOwnProperty]] step 5.b.i: the value also goes to a joined parameter
                let σ3 : St := mappedAssign σ2 ob.kind p v
                .ok b (σ3.setObj a { ob with props := props', dontEnum := p :: ob.dontEnum.filter (· != p),
                                             readOnly := ob.readOnly.filter (· != p), accs := removeA p ob.accs })
              | none => .ok b σ2)
           | _ => throwErr σ2 "TypeError")
        | r => r
      | r => r
    | .defFix o p e1 =>
      -- §15.2.3.6 with the complete data descriptor {value, writable: false, enumerable: false, configurable: false}
      match evalE n o c σ with
      | .ok b σ1 => match evalE n e1 c σ1 with
        | .ok v σ2 =>
          (match b with
           | .ref a =>
             (match σ2.obj? a with
              | some ob =>
                let nonconf := (fixedProp ob.kind p || ob.dontDelete.contains p) && (lookupA p ob.props).isSome
                -- §8.12.9 step 7.b: [[Enumerable]] of a non-configurable property cannot change;
                -- step 10.a.ii: nor the value of one that is also read-only
                if nonconf && !ob.dontEnum.contains p then throwErr σ2 "TypeError" else
                if nonconf && isReadOnly ob p && lookupA p ob.props != some v then throwErr σ2 "TypeError" else
                let props' := match lookupA p ob.props with
                  | some _ => updateA p v ob.props
                  | none => ob.props ++ [(p, v)]
                let σ3 : St := mappedAssign σ2 ob.kind p v
                .ok b (σ3.setObj a { ob with props := props', kind := unmapKind ob.kind p,
                                             dontEnum := p :: ob.dontEnum.filter (· != p),
                                             readOnly := p :: ob.readOnly.filter (· != p),
                                             dontDelete := p :: ob.dontDelete.filter (· != p), accs := removeA p ob.accs })
              | none => .ok b σ2)
           | _ => throwErr σ2 "TypeError")
        | r => r
      | r => r
    | .defRO o p e1 =>
      -- §15.2.3.6 with the complete data descriptor {value, writable: false, enumerable: true, configurable: true}
      match evalE n o c σ with
      | .ok b σ1 => match evalE n e1 c σ1 with
        | .ok v σ2 =>
          (match b with
           | .ref a =>
             (match σ2.obj? a with
              | some ob =>
                -- §8.12.9 step 7.a: a non-configurable property cannot become configurable
                if (fixedProp ob.kind p || ob.dontDelete.contains p) && (lookupA p ob.props).isSome then throwErr σ2 "TypeError" else
                let props' := match lookupA p ob.props with
                  | some _ => updateA p v ob.props
                  | none => ob.props ++ [(p, v)]
                -- §10.6 [[DefineOwnProperty]] step 5.b: i. the value goes to a joined parameter, ii. [[Writable]] false
                -- removes the index from the parameter map
                let σ3 : St := mappedAssign σ2 ob.kind p v
                .ok b (σ3.setObj a { ob with props := props', kind := unmapKind ob.kind p,
                                             dontEnum := ob.dontEnum.filter (· != p),
                                             readOnly := p :: ob.readOnly.filter (· != p), accs := removeA p ob.accs })
              | none => .ok b σ2)
           | _ => throwErr σ2 "TypeError")
        | r => r
      | r => r
    | .get o p =>
      match evalE n o c σ with
      | .ok b σ1 => getProp σ1 b p
      | r => r
    | .getE o k =>
      match evalE n o c σ with
      | .ok b σ1 => match evalE n k c σ1 with
        | .ok kv σ2 => getProp σ2 b (toStr kv)
        | r => r
      | r => r
    | .set o p e1 =>
      -- §11.13.1 step 1 evaluates the left-hand side, i.e. §11.2.1 including CheckObjectCoercible
      -- (step 5), BEFORE the right-hand side runs
      match evalE n o c σ with
      | .ok b σ1 =>
        if b == .undef || b == .null then throwErr σ1 "TypeError" else
        match evalE n e1 c σ1 with
        | .ok v σ2 => match putProp σ2 b p v with
          | .ok _ σ3 => .ok v σ3
          | .throw t σ3 => .throw t σ3
          | .fuel => .fuel
        | r => r
      | r => r
    | .setE o k e1 =>
      -- §11.2.1: base value, property name value, then CheckObjectCoercible; then the right-hand side
      match evalE n o c σ with
      | .ok b σ1 => match evalE n k c σ1 with
        | .ok kv σ2 =>
          if b == .undef || b == .null then throwErr σ2 "TypeError" else
          match evalE n e1 c σ2 with
          | .ok v σ3 => match putProp σ3 b (toStr kv) v with
            | .ok _ σ4 => .ok v σ4
            | .throw t σ4 => .throw t σ4
            | .fuel => .fuel
          | r => r
        | r => r
      | r => r
    | .del o p =>
      match evalE n o c σ with
      | .ok b σ1 => delProp σ1 b p
      | r => r
    | .delV x =>
      -- §11.4.1 on an identifier reference: unresolvable → true; object record → [[Delete]] on the binding object;
      -- declarative record → DeleteBinding (§10.2.1.1.5): only bindings made by eval code can go
      (match envResolve σ (σ.envs.length + 1) c.env x with
       | none => .ok (.bool true) σ
       | some i =>
         if i = 0 then delProp σ (.ref gObj) x
         else match σ.envs[i]? with
           | none => .ok (.bool true) σ
           | some e =>
             match e.obj with
             | some a => delProp σ (.ref a) x
             | none =>
               if e.deletable.contains x then
                 .ok (.bool true) (σ.setEnv i { e with vars := removeA x e.vars, deletable := e.deletable.filter (· != x) })
               else .ok (.bool false) σ)
    | .delE o k =>
      match evalE n o c σ with
      | .ok b σ1 => match evalE n k c σ1 with
        | .ok kv σ2 => delProp σ2 b (toStr kv)
        | r => r
      | r => r
    | .call f args =>
      (match f with
       | .var x =>
         -- §11.2.3 step 6.b: the callee is an identifier reference; this = ImplicitThisValue of its record
         match envResolve σ (σ.envs.length + 1) c.env x with
         | none => throwErr σ "ReferenceError"
         | some i =>
           match envGet σ i x with
           | .ok fv σ1 => (match evalArgs n args c σ1 with
             | .ok as σ2 => callFn n σ2 fv (implicitThis σ i) as
             | .throw t σ2 => .throw t σ2
             | .fuel => .fuel)
           | r => r
       | _ =>
         match evalE n f c σ with
         | .ok fv σ1 => (match evalArgs n args c σ1 with
           | .ok as σ2 => callFn n σ2 fv .undef as
           | .throw t σ2 => .throw t σ2
           | .fuel => .fuel)
         | r => r)
    | .mcall o p args =>
      match evalE n o c σ with
      | .ok b σ1 => match getProp σ1 b p with
        | .ok fv σ2 => match evalArgs n args c σ2 with
          | .ok as σ3 => callFn n σ3 fv b as
          | .throw t σ3 => .throw t σ3
          | .fuel => .fuel
        | r => r
      | r => r
    | .new f args =>
      match evalE n f c σ with
      | .ok fv σ1 => match evalArgs n args c σ1 with
        | .ok as σ2 => construct n σ2 fv as
        | .throw t σ2 => .throw t σ2
        | .fuel => .fuel
      | r => r
    | .fcc k => .ok (.str (String.singleton (Char.ofNat k))) σ
    | .accFn _ f =>
      -- §11.1.5 PropertyAssignment : get / set …: "the result of creating a new Function object as specified in 13.2 …
      -- Pass in the LexicalEnvironment of the running execution context as the Scope" (the object and the descriptor
      -- object around it are allocated too; nothing can tell)
      let (_, σ0) := σ.alloc { props := [], proto := some objProto, kind := .plain }
      let (fv, σ1) := mkFunc σ0 f c.env
      .ok fv σ1
    | .hostFn =>
      let (a, σ1) := σ.alloc { props := [("length", .num 0)], proto := some fnProto, kind := .builtin "hostThis", dontEnum := ["length"] }
      .ok (.ref a) σ1
    | .fnCtor f =>
      -- §15.3.2.1 step 11: the new function's [[Scope]] is the GLOBAL environment, whatever the caller's is
      let (fv, σ1) := mkFunc σ f 0
      .ok fv σ1
    | .func name ps vs ds body =>
      (match name with
       | none => let (f, σ1) := mkFunc σ (.func name ps vs ds body) c.env; .ok f σ1
       | some nm =>
         -- §13: a new declarative environment holding the immutable binding of the name
         let (i, σ1) := σ.newEnv { vars := [(nm, .undef)], outer := some c.env, immut := [nm] }
         let (f, σ2) := mkFunc σ1 (.func name ps vs ds body) i
         .ok f (σ2.setEnv i { vars := [(nm, f)], outer := some c.env, immut := [nm] }))
    | .obj props =>
      let (a, σ1) := σ.alloc { props := [], proto := some objProto, kind := .plain }
      evalProps n props a c σ1
    | .add a b =>
      match evalE n a c σ with
      | .ok va σ1 => match evalE n b c σ1 with
        | .ok vb σ2 => (match va, vb with
          | .str x, _ => .ok (.str (x ++ toStr vb)) σ2
          | _, .str y => .ok (.str (toStr va ++ y)) σ2
          | _, _ => (match toNum va, toNum vb with
            | some x, some y => .ok (.num (x + y)) σ2
            | _, _ => .ok .nan σ2))
        | r => r
      | r => r
    | .sub a b =>
      match evalE n a c σ with
      | .ok va σ1 => match evalE n b c σ1 with
        | .ok vb σ2 => (match toNum va, toNum vb with
          | some x, some y => .ok (.num (x - y)) σ2
          | _, _ => .ok .nan σ2)
        | r => r
      | r => r
    | .lt a b =>
      match evalE n a c σ with
      | .ok va σ1 => match evalE n b c σ1 with
        | .ok vb σ2 => (match toNum va, toNum vb with
          | some x, some y => .ok (.bool (x < y)) σ2
          | _, _ => .ok (.bool false) σ2)
        | r => r
      | r => r
    | .seq a b =>
      match evalE n a c σ with
      | .ok va σ1 => match evalE n b c σ1 with
        | .ok vb σ2 => .ok (.bool (va == vb && va != .nan)) σ2
        | r => r
      | r => r
    | .cond t a b =>
      -- §11.12: GetValue of the chosen branch – the result is a value, never a Reference
      match evalE n t c σ with
      | .ok tv σ1 => if truthy tv then evalE n a c σ1 else evalE n b c σ1
      | r => r
    | .wproto k =>
      .ok (.ref (if k = "String" then strProto else if k = "Number" then numProto else if k = "Boolean" then boolProto else objProto)) σ
    | .defAcc o p t =>
      -- §15.2.3.6 with the accessor descriptor {get, set, enumerable: false, configurable: true}; returns the object
      match evalE n o c σ with
      | .ok (.ref a) σ1 =>
        (match σ1.obj? a with
         | some ob =>
           -- §8.12.9 step 9.a: a non-configurable data property cannot become an accessor
           if (fixedProp ob.kind p || ob.dontDelete.contains p) && (lookupA p ob.props).isSome then throwErr σ1 "TypeError" else
           -- §10.6 [[DefineOwnProperty]] step 5.a: an accessor descriptor removes the index from the parameter map
           .ok (.ref a) (σ1.setObj a { ob with props := removeA p ob.props, kind := unmapKind ob.kind p,
                                               dontEnum := ob.dontEnum.filter (· != p),
                                               readOnly := ob.readOnly.filter (· != p),
                                               accs := (removeA p ob.accs) ++ [(p, t)] })
         | none => .ok (.ref a) σ1)
      | .ok _ σ1 => throwErr σ1 "TypeError"
      | r => r
    | .opSet o p e1 =>
      -- §11.13.2 `o.p += e`: the reference (with CheckObjectCoercible), GetValue of it, then the right-hand side,
      -- the sum, PutValue
      match evalE n o c σ with
      | .ok b σ1 =>
        if b == .undef || b == .null then throwErr σ1 "TypeError" else
        (match getProp σ1 b p with
         | .ok lv σ2 =>
           (match evalE n e1 c σ2 with
            | .ok rv σ3 =>
              let r : V := match lv, rv with
                | .str x, _ => .str (x ++ toStr rv)
                | _, .str y => .str (toStr lv ++ y)
                | _, _ => (match toNum lv, toNum rv with | some x, some y => .num (x + y) | _, _ => .nan)
              (match putProp σ3 b p r with
               | .ok _ σ4 => .ok r σ4
               | .throw t σ4 => .throw t σ4
               | .fuel => .fuel)
            | r => r)
         | r => r)
      | r => r
    | .incr o p =>
      -- §11.3.1 `o.p++`: oldValue = ToNumber(GetValue), PutValue(oldValue + 1), the result is oldValue
      match evalE n o c σ with
      | .ok b σ1 =>
        if b == .undef || b == .null then throwErr σ1 "TypeError" else
        (match getProp σ1 b p with
         | .ok lv σ2 =>
           let old : V := match toNum lv with | some x => .num x | none => .nan
           let nw : V := match toNum lv with | some x => .num (x + 1) | none => .nan
           (match putProp σ2 b p nw with
            | .ok _ σ3 => .ok old σ3
            | .throw t σ3 => .throw t σ3
            | .fuel => .fuel)
         | r => r)
      | r => r
    | .protoOf e1 =>
      -- §15.2.3.2: TypeError unless the argument is an object
      match evalE n e1 c σ with
      | .ok (.ref a) σ1 =>
        (match σ1.obj? a with
         | some o => .ok (match o.proto with | some q => .ref q | none => .null) σ1
         | none => .ok .null σ1)
      | .ok _ σ1 => throwErr σ1 "TypeError"
      | r => r
    | .regex =>
      -- §7.8.5: every evaluation of the literal creates a new object (§15.10.7: source, global, ignoreCase,
      -- multiline read-only, lastIndex writable; none enumerable or configurable)
      let (a, σ1) := σ.alloc { props := [("global", .bool false), ("ignoreCase", .bool false), ("multiline", .bool false),
                                         ("lastIndex", .num 0), ("source", .str "x")],
                               proto := some objProto, kind := .plain,
                               dontEnum := ["global", "ignoreCase", "multiline", "lastIndex", "source"],
                               readOnly := ["global", "ignoreCase", "multiline", "source"],
                               dontDelete := ["global", "ignoreCase", "multiline", "lastIndex", "source"] }
      .ok (.ref a) σ1
    | .delX e1 =>
      -- §11.4.1 step 2: the operand is not a Reference (the driver only admits conditionals and (0, e) here)
      match evalE n e1 c σ with
      | .ok _ σ1 => .ok (.bool true) σ1
      | r => r
    | .not a =>
      match evalE n a c σ with
      | .ok va σ1 => .ok (.bool (!truthy va)) σ1
      | r => r
    | .typeof e1 =>
      (match e1 with
       | .var x =>
         match envResolve σ (σ.envs.length + 1) c.env x with
         | some i => (match envGet σ i x with
           | .ok v σ1 => .ok (.str (typeofV σ1 v)) σ1
           | r => r)
         | none => .ok (.str "undefined") σ                 -- §11.4.3: unresolvable reference
       | _ => match evalE n e1 c σ with
         | .ok v σ1 => .ok (.str (typeofV σ1 v)) σ1
         | r => r)
    | .inst a f =>
      match evalE n a c σ with
      | .ok va σ1 => match evalE n f c σ1 with
        | .ok fv σ2 => hasInstance n σ2 fv va
        | r => r
      | r => r
    | .log e1 =>
      match evalE n e1 c σ with
      | .ok v σ1 => .ok v { σ1 with trace := σ1.trace ++ [tokV σ1 v] }
      | r => r
    | .evalD vs ds body =>
      -- §10.4.2 direct eval: the caller's this, lexical and variable environments
      runCode n vs ds body c σ true
    | .evalI vs ds body =>
      -- indirect eval: the global environment, this = the global object
      runCode n vs ds body { env := 0, venv := 0, this := .ref gObj } σ true

/-- §10.5 declaration binding instantiation for eval/global code, then the body; value = completion value -/
def runCode : Nat → List String → FDecls → FSs → Ctx → St → Bool → Res V
  | 0, _, _, _, _, _, _ => .fuel
  | n+1, vs, ds, body, c, σ, isEval =>
    match bindDeclsCode n ds c.venv { c with env := c.env } σ isEval with
    | .ok _ σ1 =>
      let σ2 := vs.foldl (fun s x => bindInCode s c.venv x .undef false isEval) σ1
      match evalSs n body c σ2 with
      | .ok (.ret v) σ3 => .ok v σ3
      | .ok comp σ3 => .ok (comp.val.getD .undef) σ3       -- (break/continue cannot leave a program)
      | .throw t σ3 => .throw t σ3
      | .fuel => .fuel
    | .throw t σ1 => .throw t σ1
    | .fuel => .fuel

def evalArgs : Nat → FEs → Ctx → St → Res (List V)
  | 0, _, _, _ => .fuel
  | _+1, .nil, _, σ => .ok [] σ
  | n+1, .cons e r, c, σ =>
    match evalE n e c σ with
    | .ok v σ1 => match evalArgs n r c σ1 with
      | .ok vs σ2 => .ok (v :: vs) σ2
      | x => x
    | .throw t σ1 => .throw t σ1
    | .fuel => .fuel

def evalProps : Nat → FProps → Nat → Ctx → St → Res V
  | 0, _, _, _, _ => .fuel
  | _+1, .nil, a, _, σ => .ok (.ref a) σ
  | n+1, .cons k e r, a, c, σ =>
    match evalE n e c σ with
    | .ok v σ1 =>
      (match putProp σ1 (.ref a) k v with
       | .ok _ σ2 => evalProps n r a c σ2
       | .throw t σ2 => .throw t σ2
       | .fuel => .fuel)
    | x => x

/-- §13.2.1 [[Call]], §15.3.4.3–5, bound functions §15.3.4.5.1 -/
def callFn : Nat → St → V → V → List V → Res V
  | 0, _, _, _, _ => .fuel
  | n+1, σ, fv, thisArg, args =>
    match fv with
    | .ref a =>
      match σ.obj? a with
      | none => throwErr σ "TypeError"
      | some o =>
        match o.kind with
        | .builtin "hostThis" => .ok (.str (hostThisTok σ thisArg)) σ   -- a built-in gets the this value as it is (§10.4.3 is for function code)
        | .builtin "proto" => .ok .undef σ      -- §15.3.4: Function.prototype accepts any arguments and returns undefined
        | .builtin "call" =>
          if isCallable σ thisArg then callFn n σ thisArg (args.head?.getD .undef) (args.drop 1)
          else throwErr σ "TypeError"
        | .builtin "apply" =>
          if isCallable σ thisArg then
            let arr := (args.drop 1).head?.getD .undef
            match arr with
            | .undef => callFn n σ thisArg (args.head?.getD .undef) []
            | .null => callFn n σ thisArg (args.head?.getD .undef) []
            | .ref _ => callFn n σ thisArg (args.head?.getD .undef) (evalListToArgs σ arr)
            | _ => throwErr σ "TypeError"
          else throwErr σ "TypeError"
        | .builtin "bind" =>
          if isCallable σ thisArg then
            let tl : Int := match getProp σ thisArg "length" with
              | .ok (.num l) _ => l
              | _ => 0
            let bl : Int := tl - (args.drop 1).length
            match thisArg with
            | .ref t =>
              let (b, σ1) := σ.alloc { props := [("length", .num (if bl < 0 then 0 else bl))], proto := some fnProto,
                                       kind := .bound t (args.head?.getD .undef) (args.drop 1), dontEnum := ["length"] }
              .ok (.ref b) σ1
            | _ => throwErr σ "TypeError"
          else throwErr σ "TypeError"
        | .bound t bthis bargs => callFn n σ (.ref t) bthis (bargs ++ args)
        | .func code cenv =>
          match code with
          | .func _ ps vs ds body =>
            -- §10.4.3: undefined / null → the global object (step 2), any other non-object → ToObject (step 3)
            let (thisV, σ0) : V × St := match thisArg with
              | .undef => (.ref gObj, σ)
              | .null => (.ref gObj, σ)
              | .ref a => (.ref a, σ)
              | t => (match toObject σ t with
                | .ok a σ' => (.ref a, σ')
                | _ => (t, σ))
            let (i, σ1) := σ0.newEnv { vars := [], outer := some cenv }
            let c : Ctx := { env := i, venv := i, this := thisV }
            match instantiate n i c ps args fv ds vs σ1 with
            | .ok _ σ5 =>
              match evalSs n body c σ5 with
              | .ok (.ret v) σ6 => .ok v σ6
              | .ok _ σ6 => .ok .undef σ6
              | .throw t σ6 => .throw t σ6
              | .fuel => .fuel
            | .throw t σ3 => .throw t σ3
            | .fuel => .fuel
          | _ => throwErr σ "TypeError"
        | _ => throwErr σ "TypeError"
    | _ => throwErr σ "TypeError"

/-- §13.2.2 [[Construct]], §15.3.4.5.2 -/
def construct : Nat → St → V → List V → Res V
  | 0, _, _, _ => .fuel
  | n+1, σ, fv, args =>
    match fv with
    | .ref a =>
      match σ.obj? a with
      | none => throwErr σ "TypeError"
      | some o =>
        match o.kind with
        | .bound t _ bargs => construct n σ (.ref t) (bargs ++ args)
        | .func .. =>
          match getProp σ fv "prototype" with
          | .ok pv σ0 =>
            let proto : Nat := match pv with | .ref p => p | _ => objProto
            let (ob, σ1) := σ0.alloc { props := [], proto := some proto, kind := .plain }
            match callFn n σ1 fv (.ref ob) args with
            | .ok (.ref r) σ2 => .ok (.ref r) σ2
            | .ok _ σ2 => .ok (.ref ob) σ2
            | x => x
          | x => x
        | _ => throwErr σ "TypeError"
    | _ => throwErr σ "TypeError"

/-- §15.3.5.3 [[HasInstance]], §15.3.4.5.3 -/
def hasInstance : Nat → St → V → V → Res V
  | 0, _, _, _ => .fuel
  | n+1, σ, fv, v =>
    match fv with
    | .ref a =>
      match σ.obj? a with
      | none => throwErr σ "TypeError"
      | some o =>
        match o.kind with
        | .bound t _ _ => hasInstance n σ (.ref t) v
        | .func .. =>
          (match v with
           | .ref va =>
             match getProp σ fv "prototype" with
             | .ok (.ref p) σ1 =>
               let rec walk (k : Nat) (x : Nat) : Bool :=
                 match k with
                 | 0 => false
                 | k+1 => match σ1.obj? x with
                   | some ox => match ox.proto with
                     | some q => if q = p then true else walk k q
                     | none => false
                   | none => false
               .ok (.bool (walk (σ1.heap.length + 1) va)) σ1
             | .ok _ σ1 => throwErr σ1 "TypeError"
             | x => x
           | _ => .ok (.bool false) σ)
        | _ => throwErr σ "TypeError"
    | _ => throwErr σ "TypeError"

/-- `ls` = the current label set of the statement (§12.12) -/
def evalS : Nat → FS → Ctx → List String → St → Res Comp
  | 0, _, _, _, _ => .fuel
  | n+1, s, c, ls, σ =>
    match s with
    | .expr e =>
      match evalE n e c σ with
      | .ok v σ1 => .ok (.normal (some v)) σ1
      | .throw t σ1 => .throw t σ1
      | .fuel => .fuel
    | .ret none => .ok (.ret .undef) σ
    | .ret (some e) =>
      match evalE n e c σ with
      | .ok v σ1 => .ok (.ret v) σ1
      | .throw t σ1 => .throw t σ1
      | .fuel => .fuel
    | .ifS ce t e =>
      match evalE n ce c σ with
      | .ok v σ1 => if truthy v then evalSs n t c σ1 else evalSs n e c σ1
      | .throw t' σ1 => .throw t' σ1
      | .fuel => .fuel
    | .whileS ce b => evalWhile n ce b c ls σ none
    | .switchS d cs =>
      -- §12.11: the discriminant's value; the first clause (source order, the default clause left out) whose
      -- expression is === to it, else the default clause; the statement lists from there on
      match evalE n d c σ with
      | .ok dv σ1 =>
        (match selectCase n dv cs 0 c σ1 with
         | .ok found σ2 =>
           (match (match found with | some i => some i | none => defaultIdx cs 0) with
            | none => .ok (.normal none) σ2
            | some t =>
              match runCases n (dropCases cs t) c σ2 none with
              | .ok (.brk v l) σ3 => if inLs l ls then .ok (.normal v) σ3 else .ok (.brk v l) σ3
              | r => r)
         | .throw t σ2 => .throw t σ2
         | .fuel => .fuel)
      | .throw t σ1 => .throw t σ1
      | .fuel => .fuel
    | .throwS e =>
      match evalE n e c σ with
      | .ok v σ1 => .throw v σ1
      | .throw t σ1 => .throw t σ1
      | .fuel => .fuel
    | .tryS b hasCatch param cb hasFin f =>
      let r1 : Res Comp :=
        match evalSs n b c σ with
        | .throw t σ1 =>
          if hasCatch then
            let (i, σ2) := σ1.newEnv { vars := [(param, t)], outer := some c.env }
            evalSs n cb { c with env := i } σ2
          else .throw t σ1
        | r => r
      if hasFin then
        match r1 with
        | .fuel => .fuel
        | .ok comp σ2 =>
          (match evalSs n f c σ2 with
           | .ok (.normal _) σ3 => .ok comp σ3
           | r => r)
        | .throw t σ2 =>
          (match evalSs n f c σ2 with
           | .ok (.normal _) σ3 => .throw t σ3
           | r => r)
      else r1
    | .varS x e =>
      -- §12.2: the identifier is resolved as in §11.1.2 (through the scope chain, so possibly to a
      -- `with` object), then the initialiser is evaluated, then PutValue; completion (normal, empty)
      let r := envResolve σ (σ.envs.length + 1) c.env x
      match evalE n e c σ with
      | .ok v σ1 => (match putIdent σ1 r x v with
        | .ok _ σ2 => .ok (.normal none) σ2
        | .throw t σ2 => .throw t σ2
        | .fuel => .fuel)
      | .throw t σ1 => .throw t σ1
      | .fuel => .fuel
    | .block b => evalSs n b c σ
    | .withS oe b =>
      -- §12.10: the object environment exists exactly while the body is evaluated; every way of
      -- leaving the body (any completion, or an exception) continues with the old environment `c`
      match evalE n oe c σ with
      | .ok v σ1 =>
        (match toObject σ1 v with
         | .ok a σ2 =>
           let (i, σ3) := σ2.newEnv { vars := [], outer := some c.env, obj := some a }
           evalSs n b { c with env := i } σ3
         | .throw t σ2 => .throw t σ2
         | .fuel => .fuel)
      | .throw t σ1 => .throw t σ1
      | .fuel => .fuel
    | .forIn _ x oe b =>
      -- §12.6.4 (both productions: `var x` has been hoisted; the name is resolved in each iteration)
      match evalE n oe c σ with
      | .ok v σ1 =>
        (match v with
         | .undef => .ok (.normal none) σ1
         | .null => .ok (.normal none) σ1
         | _ =>
           match toObject σ1 v with
           | .ok a σ2 =>
             evalForIn n x b c ls σ2 (enumKeys σ2 (σ2.heap.length + 1) a []) none
           | .throw t σ2 => .throw t σ2
           | .fuel => .fuel)
      | .throw t σ1 => .throw t σ1
      | .fuel => .fuel
    | .forInI x ie oe b =>
      -- §12.6.4, second production with an initialiser: step 1 evaluates the VariableDeclarationNoIn (§12.2: the
      -- reference, the initialiser, PutValue) ONCE, before the object expression; then as above
      let r := envResolve σ (σ.envs.length + 1) c.env x
      match evalE n ie c σ with
      | .ok iv σ0 =>
        (match putIdent σ0 r x iv with
         | .ok _ σ0' =>
           (match evalE n oe c σ0' with
            | .ok v σ1 =>
              (match v with
               | .undef => .ok (.normal none) σ1
               | .null => .ok (.normal none) σ1
               | _ =>
                 match toObject σ1 v with
                 | .ok a σ2 =>
                   evalForIn n x b c ls σ2 (enumKeys σ2 (σ2.heap.length + 1) a []) none
                 | .throw t σ2 => .throw t σ2
                 | .fuel => .fuel)
            | .throw t σ1 => .throw t σ1
            | .fuel => .fuel)
         | .throw t σ0' => .throw t σ0'
         | .fuel => .fuel)
      | .throw t σ0 => .throw t σ0
      | .fuel => .fuel
    | .label l s1 =>
      -- §12.12
      match evalS n s1 c (l :: ls) σ with
      | .ok (.brk v (some l')) σ1 => if l' = l then .ok (.normal v) σ1 else .ok (.brk v (some l')) σ1
      | r => r
    | .brk l => .ok (.brk none l) σ
    | .cont l => .ok (.cont none l) σ

/-- §12.11 step: evaluate the case expressions in order until one is === to the discriminant -/
def selectCase : Nat → V → FCases → Nat → Ctx → St → Res (Option Nat)
  | 0, _, _, _, _, _ => .fuel
  | _+1, _, .nil, _, _, σ => .ok none σ
  | n+1, dv, .dflt _ r, i, c, σ => selectCase n dv r (i+1) c σ
  | n+1, dv, .case e _ r, i, c, σ =>
    match evalE n e c σ with
    | .ok v σ1 => if dv == v && dv != .nan then .ok (some i) σ1 else selectCase n dv r (i+1) c σ1
    | .throw t σ1 => .throw t σ1
    | .fuel => .fuel

/-- §12.11: the statement lists of the clauses, one after the other; an abrupt completion R ends it as
    (R.type, V, R.target) -/
def runCases : Nat → FCases → Ctx → St → Option V → Res Comp
  | 0, _, _, _, _ => .fuel
  | _+1, .nil, _, σ, last => .ok (.normal last) σ
  | n+1, .case _ b r, c, σ, last =>
    match evalSs n b c σ with
    | .ok comp σ1 =>
      let last' := orV comp.val last
      (match comp with
       | .normal _ => runCases n r c σ1 last'
       | .brk _ l => .ok (.brk last' l) σ1
       | .cont _ l => .ok (.cont last' l) σ1
       | .ret v => .ok (.ret v) σ1)
    | r => r
  | n+1, .dflt b r, c, σ, last =>
    match evalSs n b c σ with
    | .ok comp σ1 =>
      let last' := orV comp.val last
      (match comp with
       | .normal _ => runCases n r c σ1 last'
       | .brk _ l => .ok (.brk last' l) σ1
       | .cont _ l => .ok (.cont last' l) σ1
       | .ret v => .ok (.ret v) σ1)
    | r => r

/-- §12.6.2 -/
def evalWhile : Nat → FE → FSs → Ctx → List String → St → Option V → Res Comp
  | 0, _, _, _, _, _, _ => .fuel
  | n+1, ce, b, c, ls, σ, last =>
    match evalE n ce c σ with
    | .ok v σ1 =>
      if truthy v then
        match evalSs n b c σ1 with
        | .ok comp σ2 =>
          let last' := orV comp.val last
          (match comp with
           | .normal _ => evalWhile n ce b c ls σ2 last'
           | .cont _ l => if inLs l ls then evalWhile n ce b c ls σ2 last' else .ok comp σ2
           | .brk _ l => if inLs l ls then .ok (.normal last') σ2 else .ok comp σ2
           | .ret _ => .ok comp σ2)
        | r => r
      else .ok (.normal last) σ1
    | .throw t σ1 => .throw t σ1
    | .fuel => .fuel

/-- §12.6.4 steps 6–7 over the list of (owner, name) still to visit; `V` as in the standard -/
def evalForIn : Nat → String → FSs → Ctx → List String → St → List (Nat × String) → Option V → Res Comp
  | 0, _, _, _, _, _, _, _ => .fuel
  | n+1, x, b, c, ls, σ, keys, vV =>
    match keys with
    | [] => .ok (.normal vV) σ
    | (a, k) :: r =>
      -- "If a property that has not yet been visited during enumeration is deleted, then it will not be visited"
      let present : Bool := match σ.obj? a with
        | some o => (lookupA k o.props).isSome
        | none => false
      if !present then evalForIn n x b c ls σ r vV
      else
        match putIdent σ (envResolve σ (σ.envs.length + 1) c.env x) x (.str k) with
        | .ok _ σ1 =>
          (match evalSs n b c σ1 with
           | .ok comp σ2 =>
             let vV' := orV comp.val vV
             (match comp with
              | .normal _ => evalForIn n x b c ls σ2 r vV'
              | .cont _ l => if inLs l ls then evalForIn n x b c ls σ2 r vV' else .ok comp σ2
              | .brk _ l => if inLs l ls then .ok (.normal vV') σ2 else .ok comp σ2
              | .ret _ => .ok comp σ2)
           | r => r)
        | .throw t σ1 => .throw t σ1
        | .fuel => .fuel

/-- §12.1 statement lists: (s.type, V, s.target) with V = s.value unless empty, then the value so far -/
def evalSs : Nat → FSs → Ctx → St → Res Comp
  | 0, _, _, _ => .fuel
  | _+1, .nil, _, σ => .ok (.normal none) σ
  | n+1, .cons s r, c, σ =>
    match evalS n s c [] σ with
    | .ok (.normal v) σ1 =>
      (match evalSs n r c σ1 with
       | .ok (.normal none) σ2 => .ok (.normal v) σ2
       | .ok (.brk none l) σ2 => .ok (.brk v l) σ2
       | .ok (.cont none l) σ2 => .ok (.cont v l) σ2
       | x => x)
    | x => x

end

/-- §10.4.1 global code: bindings on the global object, this = the global object -/
def runProgram (n : Nat) (vs : List String) (ds : FDecls) (body : FSs) : Res V :=
  runCode n vs ds body { env := 0, venv := 0, this := .ref gObj } initSt false

/-- two programs run one after the other on the same global object (two Run calls on one runtime): what the first
    left behind is there BEFORE the declaration binding instantiation of the second -/
def runProgram2 (n : Nat) (vs1 : List String) (ds1 : FDecls) (body1 : FSs) (vs2 : List String) (ds2 : FDecls) (body2 : FSs) : Res V :=
  match runCode n vs1 ds1 body1 { env := 0, venv := 0, this := .ref gObj } initSt false with
  | .ok _ σ1 => runCode n vs2 ds2 body2 { env := 0, venv := 0, this := .ref gObj } σ1 false
  | r => r

end OttoVerif.C01.Fn
