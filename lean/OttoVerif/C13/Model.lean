/-
  C13/Model — transcription of otto's Math object and global URI / escape functions.

  builtin_math.go: builtinMathAbs (l.10) … builtinMathTrunc (l.210): every function is
    `float64Value(math.F(call.Argument(0).float64()))`, except atan2 (l.40, both arguments converted, then
    the NaN guard), max (l.109) and min (l.131) (every argument converted, NaN remembered), pow (l.153, NaN
    exponent and |x|==1 ∧ y=±Inf guard), round (l.173, floor(x) + exact fraction test + Copysign).
  builtin.go: builtinGlobalIsNaN, builtinGlobalIsFinite, encodeDecodeURI, encodeURIRegexp,
    encodeURIComponentRegexp, decodeURIGuard, decodeURI, builtinShouldEscape (l.246), builtinEscape (l.255),
    builtinUnescapeUnits (l.290), builtinGlobalUnescape (l.325); builtin_string.go: utf16Value (l.472);
    evaluate.go: the string case of `+` (l.64).

  Go library behaviour that otto relies on is written out here as stubs (trusted base §2.6, validated
  per sample by the harness): the special-case prologues of math.Sin/Cos/…/Pow/Atan2/Max/Min
  ($GOROOT/src/math, go1.23), net/url.QueryEscape/QueryUnescape, regexp replace over valid UTF-8,
  unicode/utf8 and utf16 (Base/Str).  The values of the transcendental functions on ordinary finite
  arguments are the opaque parameter `Lib`.
-/
import OttoVerif.Base.F64
import OttoVerif.Base.Str
import OttoVerif.C05.Model
import OttoVerif.C06.Model
namespace OttoVerif.C13
open OttoVerif.F64 OttoVerif.Str

/-! ## Math -/

/-- the unary library functions of ES5 §15.8.2 that otto forwards to Go's `math` unchanged -/
inductive Fn1 | sin | cos | tan | asin | acos | atan | exp | log | sqrt
deriving DecidableEq, Repr, Inhabited

/-- Opaque numeric library: the value Go's `math` computes once its special-case prologue is passed. -/
structure Lib where
  core1 : Fn1 → FV → FV
  powCore : FV → FV → FV          -- math.Pow after its special cases (finite non-zero x, finite y ∉ {0,±0.5,1})
  /-- `powLogPath xl x y`: what pow.go l.100–160 computes for x > 0 and fractional y when the call
      `Log(x)` in `a1 = Exp(yf * Log(x))` returns log(xl) -/
  powLogPath : FV → FV → FV → FV

def half : FV := .fin false 1 (-1)
def negOne : FV := .fin true 1 0
/-- the doubles nearest to π, π/2, π/4, 3π/4 (Go constant expressions are rounded once) -/
def pi : FV := .fin false 0x1921FB54442D18 (-51)
def piHalf : FV := .fin false 0x1921FB54442D18 (-52)
def piQuarter : FV := .fin false 0x1921FB54442D18 (-53)
def pi3Quarter : FV := .fin false 0x12D97C7F3321D2 (-51)

/-- math.Copysign(c, y) for a non-negative constant c -/
def copysign (c y : FV) : FV := if signBit y then neg c else c
/-- Go `x > y`, `x < y` on float64 (false on NaN) -/
def gt (x y : FV) : Bool := lt y x

/-- SSE2 CVTSD2SL: round to nearest (ties to even) integer; finite arguments only -/
def rneInt : FV → Int
  | .fin s m e =>
    let a : Nat :=
      if e ≥ 0 then m * 2 ^ e.toNat
      else
        let d := 2 ^ (-e).toNat
        let q := m / d
        let r := m % d
        if 2 * r < d then q else if 2 * r > d then q + 1 else if q % 2 = 0 then q else q + 1
    if s then -(a : Int) else (a : Int)
  | _ => 0

/-- LOG2E as rounded by the assembler: 0x3FF71547652B82FE -/
def log2e : FV := .fin false 0x171547652B82FE (-52)
/-- exp_amd64.s `#define Overflow 7.09782712893384e+02` = 0x40862E42FEFA39EF -/
def expOverflowConst : FV := .fin false 0x162E42FEFA39EF (-43)

/-- exp_amd64.s (go1.23, GOARCH=amd64): `JA overflow` when x > Overflow; otherwise
    `BX = CVTSD2SL(x*LOG2E)`, and after `ADDL $0x3FF, BX` the test `CMPL BX, $0x7FF; JGE overflow`
    returns +Inf — i.e. whenever round(x·log2 e) ≥ 1024, although e^x is finite up to x = Overflow. -/
def expOverflowAmd64 (x : FV) : Bool :=
  gt x expOverflowConst || decide (rneInt (mul x log2e) ≥ 1024)

/-- log_amd64.s l.35–45: "f1, ki := math.Frexp(x)" is done with bit masks
    (`f1 = frac | 0x3FE0…`, `k = expfield - 0x3FE`), which is Frexp only for NORMAL x: a subnormal
    x = m·2^-1074 (m < 2^52) is read as (2^52 + m)·2^-1075.  Returns the number whose logarithm is computed. -/
def logFrexpAmd64 (m : Nat) (e : Int) : FV :=
  if e = -1074 ∧ m < 2^52 then .fin false (m + 2^52) (-1075) else .fin false m e

/-- Go special-case prologues of the unary functions (godoc "Special cases are: …"). -/
def goFn1 (L : Lib) (f : Fn1) (x : FV) : FV :=
  match f with
  | .sin | .tan =>                       -- sin.go l.200, tan.go l.92: ±0 → ±0, NaN → NaN, ±Inf → NaN
    if isZero x || isNaN x then x else if isInf x then .nan else L.core1 f x
  | .cos =>                              -- sin.go l.128: NaN, ±Inf → NaN
    if isNaN x || isInf x then .nan else L.core1 f x
  | .asin =>                             -- asin.go l.21: ±0 → ±0; |x| > 1 → NaN
    if isZero x then x else if isNaN x then .nan else if gt (abs x) one then .nan else L.core1 f x
  | .acos =>                             -- asin.go l.50: Pi/2 - Asin(x); |x| > 1 → NaN
    if isNaN x then .nan else if gt (abs x) one then .nan else L.core1 f x
  | .atan =>                             -- atan.go l.98: ±0 → ±0; ±Inf → ±Pi/2
    if isZero x then x else if isNaN x then .nan else if isInf x then copysign piHalf x else L.core1 f x
  | .exp =>                              -- exp_amd64.s l.41: NaN → NaN, +Inf → +Inf, -Inf → 0; early overflow
    match x with
    | .nan => .nan
    | .inf s => if s then zero else .inf false
    | _ => if expOverflowAmd64 x then .inf false else L.core1 f x
  | .log =>                              -- log_amd64.s l.24: NaN, x<0 → NaN; +Inf → +Inf; ±0 → -Inf
    match x with
    | .nan => .nan
    | .inf s => if s then .nan else .inf false
    | .fin s m e => if m = 0 then .inf true else if s then .nan else L.core1 f (logFrexpAmd64 m e)
  | .sqrt =>                             -- sqrt.go l.93: ±0 → ±0, +Inf → +Inf, x<0 → NaN, NaN → NaN
    match x with
    | .nan => .nan
    | .inf s => if s then .nan else .inf false
    | .fin s m _ => if m = 0 then x else if s then .nan else L.core1 f x

/-- builtinMathSin … builtinMathSqrt -/
def mathFn1 (L : Lib) (f : Fn1) (x : FV) : FV := goFn1 L f x

/-- builtinMathAbs / Floor / Ceil / Trunc: math.Abs etc. are exact (Base/F64). -/
def mathAbs (x : FV) : FV := abs x
def mathFloor (x : FV) : FV := floor x
def mathCeil (x : FV) : FV := ceil x
def mathTrunc (x : FV) : FV := trunc x

/-- builtinMathRound (l.173): `value := math.Floor(number); if number-value >= 0.5 { value++ };
    if value == 0 { value = math.Copysign(0, number) }` -/
def mathRound (x : FV) : FV :=
  let value := floor x
  let value := if le half (sub x value) then add value one else value
  if isZero value then copysign zero x else value

/-- math.Max (dim.go l.35 / dim_amd64.s) -/
def goMax (x y : FV) : FV :=
  if x = .inf false ∨ y = .inf false then .inf false
  else if isNaN x || isNaN y then .nan
  else if isZero x && isZero y then (if signBit x then y else x)
  else if gt x y then x else y

/-- math.Min (dim.go l.68) -/
def goMin (x y : FV) : FV :=
  if x = .inf true ∨ y = .inf true then .inf true
  else if isNaN x || isNaN y then .nan
  else if isZero x && isZero y then (if signBit x then x else y)
  else if lt x y then x else y

/-- the loop of builtinMathMax/Min: every argument is converted and combined; `nan` remembers whether a
    NaN was seen (`isNaN := math.IsNaN(result)` … `if math.IsNaN(value) { isNaN = true }`) -/
def foldFlag (op : FV → FV → FV) : FV → Bool → List FV → FV × Bool
  | r, n, [] => (r, n)
  | r, n, v :: rest => foldFlag op (op r v) (n || isNaN v) rest

/-- builtinMathMax (l.109) -/
def mathMax : List FV → FV
  | [] => .inf true
  | [a] => a
  | a :: rest => let p := foldFlag goMax a (isNaN a) rest; if p.2 then .nan else p.1

/-- builtinMathMin (l.131) -/
def mathMin : List FV → FV
  | [] => .inf false
  | [a] => a
  | a :: rest => let p := foldFlag goMin a (isNaN a) rest; if p.2 then .nan else p.1

/-- How many arguments builtinMathMax/Min convert with `.float64()` (ToNumber; observable when an argument
    is an object with a valueOf): the first, then one per iteration of the `for … range` loop. -/
def maxMinConverted : List FV → Nat
  | [] => 0
  | [_] => 1
  | _ :: rest => 1 + rest.length

/-- builtinMathAtan2 (l.40) and builtinMathPow (l.153) convert both arguments before anything else -/
def binaryConverted : Nat := 2

/-- pow.go isOddInt (l.7): `Abs(x) >= 1<<53 → false; xi, xf := Modf(x); xf == 0 && int64(xi)&1 == 1` -/
def isOddInt (x : FV) : Bool :=
  match x with
  | .fin _ m e =>
    if le (.fin false (2^53) 0) (.fin false m e) then false
    else isIntegral m e && (truncAbs m e) % 2 = 1
  | _ => false

/-- the x == ±0 case of math.Pow (pow.go l.55) -/
def powZero (x y : FV) : FV :=
  if lt y zero then (if signBit x && isOddInt y then .inf true else .inf false)
  else if gt y zero then (if signBit x && isOddInt y then x else zero)
  else .nan   -- unreachable: y == 0 and NaN were handled before

/-- math.Pow (pow.go l.48): special cases in source order, then the opaque core. -/
def goPow (L : Lib) (x y : FV) : FV :=
  if isZero y || eqNum x one then one
  else if eqNum y one then x
  else if isNaN x || isNaN y then .nan
  else if isZero x then powZero x y
  else if isInf y then
    (if eqNum x negOne then one
     else if (lt (abs x) one) = (y = .inf false) then zero
     else .inf false)
  else if isInf x then
    (if x = .inf true then
       -- Pow(1/x, -y) = Pow(-0, -y); -y is not 0, NaN, and `-y == 1` returns x' = -0
       (if eqNum (neg y) one then negZero else powZero negZero (neg y))
     else if lt y zero then zero else .inf false)
  else if eqNum y half then goFn1 L .sqrt x
  else if eqNum y (neg half) then div one (goFn1 L .sqrt x)
  else
    match x, y with
    | .fin sx mx ex, .fin _ my ey =>
      if !isIntegral my ey && sx then .nan      -- `yf != 0 && x < 0`
      else if !isIntegral my ey && logFrexpAmd64 mx ex != .fin false mx ex then
        L.powLogPath (logFrexpAmd64 mx ex) x y  -- `a1 = Exp(yf * Log(x))` with the amd64 Log of a subnormal
      else L.powCore x y
    | _, _ => .nan

/-- builtinMathPow (l.153): `if math.IsNaN(y) || (math.Abs(x) == 1 && math.IsInf(y, 0)) { return NaN }` -/
def mathPow (L : Lib) (x y : FV) : FV :=
  if isNaN y || (eqNum (abs x) one && isInf y) then .nan else goPow L x y

/-- math.Atan2 (atan2.go l.37) -/
def goAtan2 (L : Lib) (y x : FV) : FV :=
  if isNaN y || isNaN x then .nan
  else if isZero y then
    (if (le zero x) && !signBit x then copysign zero y else copysign pi y)
  else if isZero x then copysign piHalf y
  else if isInf x then
    (if x = .inf false then (if isInf y then copysign piQuarter y else copysign zero y)
     else (if isInf y then copysign pi3Quarter y else copysign pi y))
  else if isInf y then copysign piHalf y
  else
    -- atan2.go l.69: `q := Atan(y / x); if x < 0 { if q <= 0 { return q + Pi }; return q - Pi }; return q`
    let q := goFn1 L .atan (div y x)
    if lt x zero then (if le q zero then add q pi else sub q pi) else q

/-- builtinMathAtan2 (l.40): `if math.IsNaN(y) || math.IsNaN(x) { return NaN }` -/
def mathAtan2 (L : Lib) (y x : FV) : FV :=
  if isNaN y || isNaN x then .nan else goAtan2 L y x

/-! ### the Value a Math function returns: kind and text

  Every builtinMath* ends in `return float64Value(…)` (inline.go: `Value{kind: valueNumber, value: float64}`),
  also for integral results.  The Go kind of a number Value is observable: Value.string() prints an
  int64-kinded number with strconv.FormatInt and a float64-kinded one with floatToString (value_string.go),
  and Export() hands out the Go value as held. -/

inductive NumKind | float64 | int64
deriving DecidableEq, Repr

structure NumVal where
  kind : NumKind
  val : FV

/-- float64Value (inline.go) -/
def float64Value (x : FV) : NumVal := ⟨.float64, x⟩

/-- the Value returned by every Math function for the number x it computed -/
def mathValue (x : FV) : NumVal := float64Value x

/-- Value.string() of a number Value (value_string.go l.60–100), as modelled for C06 -/
def numValText (L : C06.Lib) (v : NumVal) : List Nat := C06.numValToString L (v.kind == .int64) v.val

/-- `%T` of Value.Export() -/
def exportType (v : NumVal) : String := match v.kind with | .float64 => "float64" | .int64 => "int64"

/-- builtinGlobalIsNaN (builtin.go l.35) -/
def globalIsNaN (E : C05.Env) (v : C05.Val) : Bool := isNaN (C05.toFloat E v)
/-- builtinGlobalIsFinite (builtin.go l.40) -/
def globalIsFinite (E : C05.Env) (v : C05.Val) : Bool :=
  let x := C05.toFloat E v
  !isNaN x && !isInf x

/-! ## Strings -/

/-- A string Value is either a Go string (UTF-8 bytes) or, from String.fromCharCode / ToValue([]uint16),
    a slice of UTF-16 code units (value.go l.300). -/
inductive SV where
  | go (bytes : List Nat)
  | u16 (units : List Nat)
deriving DecidableEq, Repr, Inhabited

/-- Value.string() (value_string.go l.52) -/
def SV.string : SV → List Nat
  | .go b => b
  | .u16 u => bytesOfUnits u

def isAlnum (c : Nat) : Bool := (48 ≤ c ∧ c ≤ 57) ∨ (65 ≤ c ∧ c ≤ 90) ∨ (97 ≤ c ∧ c ≤ 122)

/-- "0123456789ABCDEF"[n] -/
def hexUpper (n : Nat) : Nat := if n < 10 then 48 + n else 55 + n
/-- "%XX" -/
def pct (b : Nat) : List Nat := [37, hexUpper (b / 16), hexUpper (b % 16)]

/-- net/url shouldEscape(c, encodeQueryComponent) (url.go l.100): alnum and -_.~ are kept -/
def urlShouldEscape (c : Nat) : Bool := !(isAlnum c || c = 45 || c = 95 || c = 46 || c = 126)
/-- url.QueryEscape (url.go l.283): space → '+', escaped bytes → %XX upper case -/
def queryEscape (bs : List Nat) : List Nat :=
  bs.flatMap fun c => if c = 32 then [43] else if urlShouldEscape c then pct c else [c]

/-- characters NOT matched by encodeURIRegexp `[^~!@#$&*()=:/,;?+']` (l.216) -/
def keepURI : List Nat := [126, 33, 64, 35, 36, 38, 42, 40, 41, 61, 58, 47, 44, 59, 63, 43, 39]
/-- characters NOT matched by encodeURIComponentRegexp `[^~!*()']` (l.222) -/
def keepComponent : List Nat := [126, 33, 42, 40, 41, 39]

/-- the loop of encodeDecodeURI (l.183–207): code units → UTF-8 bytes, `none` = URIError -/
def encLoop : List Nat → Option (List Nat)
  | [] => some []
  | v :: v1 :: rest =>
    if 0xDC00 ≤ v ∧ v ≤ 0xDFFF then none
    else if 0xD800 ≤ v ∧ v ≤ 0xDBFF then
      if v1 < 0xDC00 ∨ v1 > 0xDFFF then none
      else (encLoop rest).map (encodeRune ((v - 0xD800) * 0x400 + (v1 - 0xDC00) + 0x10000) ++ ·)
    else (encLoop (v1 :: rest)).map (encodeRune v ++ ·)
  | [v] =>
    if 0xDC00 ≤ v ∧ v ≤ 0xDFFF then none
    else if 0xD800 ≤ v ∧ v ≤ 0xDBFF then none
    else some (encodeRune v)

/-- the callback of `escape.ReplaceAllFunc` (l.209) applied to one matched/unmatched rune -/
def replaceRune (keep : List Nat) (r : Nat) : List Nat :=
  if keep.contains r then encodeRune r
  else if r = 32 then [37, 50, 48]
  else queryEscape (encodeRune r)

/-- encodeDecodeURI (l.168); result bytes, `none` = URIError -/
def encodeDecodeURI (keep : List Nat) (v : SV) : Option (List Nat) :=
  let input := match v with
    | .u16 u => u
    | .go b => utf16Encode (decodeRunes b)
  if input.isEmpty then some []
  else (encLoop input).map fun output => (decodeRunes output).flatMap (replaceRune keep)

def encodeURI (v : SV) := encodeDecodeURI keepURI v
def encodeURIComponent (v : SV) := encodeDecodeURI keepComponent v

def isHex (c : Nat) : Bool := (48 ≤ c ∧ c ≤ 57) ∨ (65 ≤ c ∧ c ≤ 70) ∨ (97 ≤ c ∧ c ≤ 102)
def unhex (c : Nat) : Nat := if c ≤ 57 then c - 48 else if c ≤ 70 then c - 55 else c - 87
def asciiUpper (c : Nat) : Nat := if 97 ≤ c ∧ c ≤ 122 then c - 32 else c

/-- the alternatives of decodeURIGuard `(?i)(?:%)(3B|2F|3F|3A|40|26|3D|2B|24|2C|23)` (l.229) -/
def guardCodes : List (Nat × Nat) :=
  [(51, 66), (50, 70), (51, 70), (51, 65), (52, 48), (50, 54), (51, 68), (50, 66), (50, 52), (50, 67), (50, 51)]
def isGuard (a b : Nat) : Bool := guardCodes.contains (asciiUpper a, asciiUpper b)

/-- `decodeURIGuard.ReplaceAllString(input, "%25$1")` -/
def guard : List Nat → List Nat
  | 37 :: a :: b :: rest =>
    if isGuard a b then 37 :: 50 :: 53 :: a :: b :: guard rest else 37 :: guard (a :: b :: rest)
  | c :: t => c :: guard t
  | [] => []

/-- `strings.ReplaceAll(input, "+", "%2B")` -/
def plusHack (bs : List Nat) : List Nat := bs.flatMap fun c => if c = 43 then [37, 50, 66] else [c]

/-- url.QueryUnescape (url.go l.196 unescape, mode encodeQueryComponent); `none` = EscapeError -/
def queryUnescape : List Nat → Option (List Nat)
  | 37 :: a :: b :: rest =>
    if isHex a ∧ isHex b then (queryUnescape rest).map ((unhex a * 16 + unhex b) :: ·) else none
  | 37 :: _ => none
  | 43 :: t => (queryUnescape t).map (32 :: ·)
  | c :: t => (queryUnescape t).map (c :: ·)
  | [] => some []

/-- decodeURI (l.231); result bytes, `none` = URIError -/
def decodeURI (reserve : Bool) (v : SV) : Option (List Nat) :=
  let input := v.string
  let input := if reserve then guard input else input
  let input := plusHack input
  match queryUnescape input with
  | none => none
  | some out => if validUTF8 out then some out else none

/-- builtinShouldEscape (l.246): alnum and `@*_+-./` are kept -/
def shouldEscape (c : Nat) : Bool := !(isAlnum c || [64, 42, 95, 43, 45, 46, 47].contains c)

def pctU (u : Nat) : List Nat :=
  [37, 117, hexUpper (u / 4096), hexUpper ((u / 256) % 16), hexUpper ((u / 16) % 16), hexUpper (u % 16)]

/-- the escape of one rune: `for _, chr16 := range utf16.Encode([]rune{chr})` — %XX below 256, else %uXXXX -/
def escapeRune (r : Nat) : List Nat :=
  (utf16Encode [r]).flatMap fun chr16 => if chr16 < 256 then pct chr16 else pctU chr16

/-- builtinEscape (l.255), fuel = len(input) -/
def escapeAux : Nat → List Nat → List Nat
  | 0, _ => []
  | _, [] => []
  | fuel+1, c :: t =>
    if shouldEscape c then
      match decodeRune (c :: t) with
      | some (r, w) => escapeRune r ++ escapeAux fuel ((c :: t).drop w)
      | none => []
    else c :: escapeAux fuel t

def escape (v : SV) : List Nat := let s := v.string; escapeAux s.length s

/-- the loop of builtinUnescapeUnits (l.290): bytes → UTF-16 code units, fuel = len(input).  %uXXXX and %XX
    contribute one unit; any other character is decoded (utf8.DecodeRuneInString) and re-encoded as units. -/
def unescapeAux : Nat → List Nat → List Nat
  | 0, _ => []
  | _, [] => []
  | fuel+1, 37 :: 117 :: a :: b :: c :: d :: rest =>
    if isHex a ∧ isHex b ∧ isHex c ∧ isHex d then
      (unhex a * 4096 + unhex b * 256 + unhex c * 16 + unhex d) :: unescapeAux fuel rest
    else 37 :: unescapeAux fuel (117 :: a :: b :: c :: d :: rest)
  | fuel+1, 37 :: a :: b :: rest =>
    if isHex a ∧ isHex b then (unhex a * 16 + unhex b) :: unescapeAux fuel rest
    else 37 :: unescapeAux fuel (a :: b :: rest)
  | fuel+1, c :: t =>
    match decodeRune (c :: t) with
    | some (r, w) => utf16Encode [r] ++ unescapeAux fuel ((c :: t).drop w)
    | none => []

/-- ill-formed UTF-16: a surrogate code unit that is not part of a pair -/
def hasLone : List Nat → Bool
  | [] => false
  | u :: v :: rest =>
    if 0xD800 ≤ u ∧ u < 0xDC00 ∧ 0xDC00 ≤ v ∧ v < 0xE000 then hasLone rest
    else if 0xD800 ≤ u ∧ u < 0xE000 then true
    else hasLone (v :: rest)
  | [u] => 0xD800 ≤ u ∧ u < 0xE000

/-- utf16Value (builtin_string.go l.472): a Go string unless the units contain an unpaired surrogate -/
def utf16Value (us : List Nat) : SV := if hasLone us then .u16 us else .go (bytesOfUnits us)

/-- the UTF-16 code units of a string Value -/
def SV.units : SV → List Nat
  | .go b => utf16Encode (decodeRunes b)
  | .u16 u => u

/-- builtinGlobalUnescape (l.325): `utf16Value(builtinUnescapeUnits(call.Argument(0).string()))` -/
def unescape (v : SV) : SV := let s := v.string; utf16Value (unescapeAux s.length s)

/-- the string case of `+` (evaluate.go l.63): Go strings are joined; if an operand is held as UTF-16 the
    code units are concatenated and the result built with utf16Value -/
def concat (a b : SV) : SV :=
  match a, b with
  | .go x, .go y => .go (x ++ y)
  | _, _ => utf16Value (a.units ++ b.units)

end OttoVerif.C13
