/-
  C13/Theorems — the ledger for property C13.  Every `theorem` in this file is audited
  (`#print axioms` ⊆ {propext, Classical.choice, Quot.sound}) on every run.
-/
import OttoVerif.C13.Lemmas
import OttoVerif.C05.Theorems
import OttoVerif.C06.Theorems
namespace OttoVerif.C13.Thm
open OttoVerif.F64 OttoVerif.Str OttoVerif.C13

/-- an arbitrary library for witnesses that do not depend on it -/
def Driverless.lib : Lib := { core1 := fun _ x => x, powCore := fun x _ => x, powLogPath := fun _ x _ => x }

/-! ## isNaN / isFinite apply ToNumber (§15.1.2.4–5) -/

theorem isNaN_isFinite (E : C05.Env) (v : C05.Val) :
    globalIsNaN E v = Spec.globalIsNaN E v ∧ globalIsFinite E v = Spec.globalIsFinite E v := by
  simp only [globalIsNaN, globalIsFinite, Spec.globalIsNaN, Spec.globalIsFinite, ← C05.Thm.toNumber_eq]
  cases C05.toFloat E v <;> simp [isNaN, isInf]

/-! ## abs -/

theorem abs_eq (x : FV) : mathAbs x = Spec.abs x := by
  cases x <;> rfl

/-! ## special values of the unary functions -/

/-- the facts about the opaque library that ES5's tables need beyond Go's documented special cases
    (each is checked per sample by the correspondence harness) -/
structure LibOK (L : Lib) : Prop where
  cos_zero : ∀ s e, L.core1 .cos (.fin s 0 e) = one
  exp_zero : ∀ s e, L.core1 .exp (.fin s 0 e) = one
  log_one : ∀ m e, eqNum (.fin false m e) one = true → L.core1 .log (.fin false m e) = zero
  acos_one : ∀ x, eqNum x one = true → L.core1 .acos x = zero

/-- C13.special_values — on every argument for which §15.8.2.2–4, 7, 8, 10, 16–18 fix the result of
    acos asin atan cos exp log sin sqrt tan, otto returns exactly that result -/
theorem special_values (L : Lib) (hL : LibOK L) (f : Fn1) (x r : FV)
    (h : Spec.fn1Table f x = some r) : mathFn1 L f x = r := by
  cases f with
  | sin => cases x with
    | nan => simp [Spec.fn1Table] at h; subst h; simp [mathFn1, goFn1, isNaN, isZero]
    | inf s => simp [Spec.fn1Table] at h; subst h; simp [mathFn1, goFn1, isNaN, isZero, isInf]
    | fin s m e => by_cases hm : m = 0 <;> simp [Spec.fn1Table, hm] at h; subst h; simp [mathFn1, goFn1, isNaN, isInf, hm]
  | tan => cases x with
    | nan => simp [Spec.fn1Table] at h; subst h; simp [mathFn1, goFn1, isNaN, isZero]
    | inf s => simp [Spec.fn1Table] at h; subst h; simp [mathFn1, goFn1, isNaN, isZero, isInf]
    | fin s m e => by_cases hm : m = 0 <;> simp [Spec.fn1Table, hm] at h; subst h; simp [mathFn1, goFn1, isNaN, isInf, hm]
  | cos => cases x with
    | nan => simp [Spec.fn1Table] at h; subst h; simp [mathFn1, goFn1, isNaN, isZero]
    | inf s => simp [Spec.fn1Table] at h; subst h; simp [mathFn1, goFn1, isNaN, isZero, isInf]
    | fin s m e => by_cases hm : m = 0 <;> simp [Spec.fn1Table, hm] at h; subst h; subst hm; simp [mathFn1, goFn1, isNaN, isInf, hL.cos_zero]
  | atan => cases x with
    | nan => simp [Spec.fn1Table] at h; subst h; simp [mathFn1, goFn1, isNaN, isZero]
    | inf s => simp [Spec.fn1Table] at h; subst h; cases s <;> simp [mathFn1, goFn1, isNaN, isZero, isInf, copysign, signBit]
    | fin s m e => by_cases hm : m = 0 <;> simp [Spec.fn1Table, hm] at h; subst h; simp [mathFn1, goFn1, isNaN, isInf, hm]
  | sqrt => cases x with
    | nan => simp [Spec.fn1Table] at h; subst h; simp [mathFn1, goFn1]
    | inf s => simp [Spec.fn1Table] at h; subst h; simp [mathFn1, goFn1]
    | fin s m e =>
      by_cases hm : m = 0 <;> cases s <;> simp [Spec.fn1Table, hm] at h <;> subst h <;> simp [mathFn1, goFn1, hm]
  | asin => cases x with
    | nan => simp [Spec.fn1Table, isNaN] at h; subst h; simp [mathFn1, goFn1, isNaN, isZero]
    | inf s =>
      cases s <;> simp [Spec.fn1Table, isNaN, Spec.gtOne, Spec.ltNegOne, one, negOne] at h <;> subst h <;>
        simp [mathFn1, goFn1, isNaN, isZero, gt, abs, one]
    | fin s m e =>
      have hz := one_cmp_zero s e
      by_cases hm : m = 0
      · subst hm; simp [Spec.fn1Table, isNaN, hz] at h; subst h; simp [mathFn1, goFn1]
      · simp only [mathFn1, goFn1, isZero_fin, hm, decide_false, Bool.false_eq_true, if_false, isNaN, abs_gt_one]
        simp only [Spec.fn1Table, isNaN, Bool.false_eq_true, if_false, isZero_fin, hm, decide_false] at h
        by_cases h1 : Spec.gtOne (.fin s m e) = true <;> by_cases h2 : Spec.ltNegOne (.fin s m e) = true <;>
          simp [h1, h2] at h ⊢ <;> exact h
  | acos => cases x with
    | nan => simp [Spec.fn1Table, isNaN] at h; subst h; simp [mathFn1, goFn1, isNaN, isZero]
    | inf s =>
      cases s <;> simp [Spec.fn1Table, isNaN, Spec.gtOne, Spec.ltNegOne, one, negOne] at h <;> subst h <;>
        simp [mathFn1, goFn1, isNaN, isZero, gt, abs, one]
    | fin s m e =>
      simp only [mathFn1, goFn1, isNaN, Bool.false_eq_true, if_false, abs_gt_one]
      simp only [Spec.fn1Table, isNaN, Bool.false_eq_true, if_false] at h
      by_cases h1 : Spec.gtOne (.fin s m e) = true <;> by_cases h2 : Spec.ltNegOne (.fin s m e) = true <;>
        simp [h1, h2] at h ⊢ <;> try exact h
      by_cases h3 : eqNum (.fin s m e) one = true
      · simp [h3] at h; rw [← h]; exact hL.acos_one _ h3
      · simp [h3] at h
  | exp => cases x with
    | nan => simp [Spec.fn1Table] at h; subst h; simp [mathFn1, goFn1]
    | inf s => simp [Spec.fn1Table] at h; subst h; simp [mathFn1, goFn1]
    | fin s m e =>
      by_cases hm : m = 0
      · subst hm; simp [Spec.fn1Table] at h; subst h
        have : expOverflowAmd64 (.fin s 0 e) = false := by
          have h3 := alignInt_sign false 0x162E42FEFA39EF (-43) (if (-43:Int) ≤ e then -43 else e) (by decide)
          simp [expOverflowAmd64, gt, expOverflowConst, lt_fin, alignInt_zero, mul, rneInt, log2e] at h3 ⊢
          omega
        simp [mathFn1, goFn1, this, hL.exp_zero]
      · simp [Spec.fn1Table, hm] at h
  | log => cases x with
    | nan => simp [Spec.fn1Table] at h; subst h; simp [mathFn1, goFn1]
    | inf s => simp [Spec.fn1Table] at h; subst h; simp [mathFn1, goFn1]
    | fin s m e =>
      by_cases hm : m = 0
      · subst hm; simp [Spec.fn1Table] at h; subst h; simp [mathFn1, goFn1]
      · cases s
        · simp only [Spec.fn1Table, hm, if_false, Bool.false_eq_true] at h
          by_cases h3 : eqNum (.fin false m e) one = true
          · simp [h3] at h; subst h
            have hne : ¬(e = -1074 ∧ m < 2^52) := by
              intro ⟨he, hlt⟩
              subst he
              simp only [one, eqNum_fin, alignInt] at h3
              have h4 : (2:Nat)^52 ≤ 2^1074 := Nat.pow_le_pow_right (by decide) (by decide)
              generalize (2:Nat)^1074 = P at *
              simp at h3
              omega
            simp [mathFn1, goFn1, hm, logFrexpAmd64, hne, hL.log_one m e h3]
          · simp [h3] at h
        · simp [Spec.fn1Table, hm] at h; subst h; simp [mathFn1, goFn1, hm]

/-! ## the text form of a Math result -/

/-- C13.math_result_text — the Value any Math function returns for the number x is float64-kinded, so its
    text (String(r), r + "", a property key) is §9.8.1 ToString of x and Export() gives a float64 — for every
    x, under the digit-generation hypothesis of C06 (`Thm.toString_eq_spec`, validated per sample there). -/
theorem math_result_text (x : FV)
    (h : ∀ s m e, x = .fin s m e → m ≠ 0 →
      OttoVerif.C06.Thm.WFDec (OttoVerif.C06.Spec.shortestDigits m e) ∧
      OttoVerif.C06.Spec.Dev.sideOK x (OttoVerif.C06.Spec.shortestDigits m e).dp = true) :
    numValText OttoVerif.C06.Spec.exactLib (mathValue x) = Spec.resultText x ∧
    exportType (mathValue x) = Spec.resultExportType := by
  refine ⟨?_, rfl⟩
  simp only [numValText, mathValue, float64Value, OttoVerif.C06.numValToString, Spec.resultText]
  exact OttoVerif.C06.Thm.toString_eq_spec x h

/-- what an int64-kinded result would print: all the digits of 2^56, where §9.8.1 gives the 16 shortest -/
example : numValText OttoVerif.C06.Spec.exactLib ⟨.int64, .fin false (2^52) 4⟩ ≠ Spec.resultText (.fin false (2^52) 4) := by
  decide +kernel

/-! ## max / min (§15.8.2.11–12) -/

/-- C13.max_min — Math.max over any argument list (0, 1, many; NaN anywhere; ±0 ordering) is §15.8.2.11 -/
theorem max_eq (l : List FV) : mathMax l = Spec.max l := by
  match l with
  | [] => simp [mathMax, Spec.max]
  | [a] =>
    simp only [mathMax, Spec.max, List.any_cons, List.any_nil, Bool.or_false, List.foldl_cons, List.foldl_nil]
    by_cases h : isNaN a = true
    · have := isNaN_eq a h; subst this; simp [isNaN]
    · have h' : isNaN a = false := by simpa using h
      simp [h', max2_negInf a h']
  | a :: b :: rest =>
    simp only [mathMax, Spec.max, List.any_cons, List.foldl_cons, foldFlag_flag]
    by_cases h : isNaN a = true
    · simp [h]
    · have h' : isNaN a = false := by simpa using h
      by_cases hr : (isNaN b || rest.any isNaN) = true
      · simp [h', hr]
      · have hr' : (b :: rest).any isNaN = false := by simpa using hr
        have hr'' : (isNaN b || rest.any isNaN) = false := by simpa using hr
        rw [max2_negInf a h', foldFlag_val goMax Spec.max2 goMax_eq max2_cases (b :: rest) a _ h' hr']
        simp [h', hr'', List.foldl_cons]

theorem min_eq (l : List FV) : mathMin l = Spec.min l := by
  match l with
  | [] => simp [mathMin, Spec.min]
  | [a] =>
    simp only [mathMin, Spec.min, List.any_cons, List.any_nil, Bool.or_false, List.foldl_cons, List.foldl_nil]
    by_cases h : isNaN a = true
    · have := isNaN_eq a h; subst this; simp [isNaN]
    · have h' : isNaN a = false := by simpa using h
      simp [h', min2_posInf a h']
  | a :: b :: rest =>
    simp only [mathMin, Spec.min, List.any_cons, List.foldl_cons, foldFlag_flag]
    by_cases h : isNaN a = true
    · simp [h]
    · have h' : isNaN a = false := by simpa using h
      by_cases hr : (isNaN b || rest.any isNaN) = true
      · simp [h', hr]
      · have hr' : (b :: rest).any isNaN = false := by simpa using hr
        have hr'' : (isNaN b || rest.any isNaN) = false := by simpa using hr
        rw [min2_posInf a h', foldFlag_val goMin Spec.min2 goMin_eq min2_cases (b :: rest) a _ h' hr']
        simp [h', hr'', List.foldl_cons]

/-- C13.maxmin_tonumber — Math.max/min call ToNumber on every argument (§15.8.2.11–12: "calls ToNumber on
    each of the arguments"), whatever the arguments convert to. -/
theorem maxmin_tonumber (l : List FV) : maxMinConverted l = Spec.maxMinConverted l := by
  match l with
  | [] => rfl
  | [a] => rfl
  | a :: b :: rest => simp [maxMinConverted, Spec.maxMinConverted]; omega

/-! ## atan2 (§15.8.2.5) -/

/-- C13.atan2_table — on every argument pair for which §15.8.2.5 fixes the result, otto returns it -/
theorem atan2_table (L : Lib) (y x r : FV) (h : Spec.atan2Table y x = some r) : mathAtan2 L y x = r := by
  cases y with
  | nan => simp [Spec.atan2Table, isNaN] at h; simp [mathAtan2, isNaN, h]
  | inf sy => cases x with
    | nan => simp [Spec.atan2Table, isNaN] at h; simp [mathAtan2, isNaN, h]
    | inf sx =>
      cases sy <;> cases sx <;>
      simp [Spec.atan2Table, isNaN, isZero, Spec.isFiniteV, signBit] at h <;>
      simp [mathAtan2, goAtan2, isNaN, isZero, isInf, copysign, signBit, ← h]
    | fin sx mx ex =>
      cases sy <;> by_cases hm : mx = 0 <;>
      simp [Spec.atan2Table, isNaN, isZero_fin, isZero, Spec.isFiniteV, signBit, hm, Spec.isPositive, zero] at h <;>
      simp [mathAtan2, goAtan2, isNaN, isZero_fin, isZero, isInf, copysign, signBit, hm, ← h]
  | fin sy my ey => cases x with
    | nan => simp [Spec.atan2Table, isNaN] at h; simp [mathAtan2, isNaN, h]
    | inf sx =>
      cases sy <;> cases sx <;> by_cases hm : my = 0 <;>
      simp [Spec.atan2Table, isNaN, isZero_fin, isZero, Spec.isFiniteV, signBit, hm, Spec.isPositive, zero] at h <;>
      simp [mathAtan2, goAtan2, isNaN, isZero_fin, isZero, isInf, copysign, signBit, hm, zero, negZero, neg, ← h]
    | fin sx mx ex =>
      cases sy <;> cases sx <;> by_cases hy : my = 0 <;> by_cases hx : mx = 0 <;>
      simp [Spec.atan2Table, isNaN, isZero_fin, Spec.isFiniteV, signBit, hy, hx, Spec.isPositive, zero] at h <;>
      simp [mathAtan2, goAtan2, isNaN, isZero_fin, isInf, copysign, signBit, hy, hx, zero, negZero, neg, ← h]

/-! ## pow (§15.8.2.13) -/

/-- C13.pow_table_partial — §15.8.2.13 for y NaN, y = ±0, x NaN, x = +∞ (any y) and x, y both infinite:
    otto returns the tabulated result.
    (Full statement, not proved: the same for every (x, y) with `Spec.powTable x y = some r`; the
    remaining bullets — finite x with y = ±∞, x = −∞ with finite y, x = ±0, and x < 0 with non-integer y —
    are covered by the correspondence harness only; `isOddInt_eq` is the lemma they need.) -/
theorem pow_table_partial (L : Lib) (x y r : FV) (hy : IsDouble y)
    (hcase : isNaN y = true ∨ isZero y = true ∨ isNaN x = true ∨ x = .inf false ∨ (isInf x = true ∧ isInf y = true))
    (h : Spec.powTable x y = some r) : mathPow L x y = r := by
  cases y with
  | nan =>
    simp [Spec.powTable, isNaN] at h; subst h
    simp [mathPow, isNaN]
  | inf t =>
    cases x with
    | nan => simp [Spec.powTable, isNaN, isZero] at h; subst h; simp [mathPow, goPow, isInf, isZero, isNaN, abs, one]
    | inf s' =>
      cases t <;> cases s' <;> simp [Spec.powTable, isNaN, isZero, Spec.gtOne, Spec.abs, one] at h <;> subst h <;>
        simp [mathPow, goPow, isInf, isZero, isNaN, abs, one, negOne]
    | fin s m e => simp [isNaN, isZero, isInf] at hcase
  | fin t n f =>
    by_cases hn : n = 0
    · subst hn
      simp [Spec.powTable, isNaN] at h; subst h
      simp [mathPow, goPow, isInf, isNaN]
    · cases x with
      | nan =>
        simp [Spec.powTable, isNaN, hn] at h; subst h
        by_cases h1 : eqNum (.fin t n f) one = true <;> simp [mathPow, goPow, isInf, isNaN, hn, abs, h1]
      | inf s' =>
        have hodd := isOddInt_eq t n f hy
        have hne : eqNum (.inf s') one = false := by simp [one]
        cases s'
        · -- x = +∞
          simp [Spec.powTable, isNaN, hn, Spec.isPositive, zero] at h
          by_cases h1 : eqNum (.fin t n f) (.fin false 1 0) = true
          · have := eq_one_not_far t n f h1
            simp [this.2.2.1] at h; subst h
            simp [mathPow, goPow, isInf, isNaN, isZero, hn, abs, h1, one]
          · cases t <;> simp [hn] at h <;> subst h <;>
              simp [mathPow, goPow, isInf, isNaN, isZero, hn, abs, h1, one, zero]
        · simp [isNaN, isInf, hn] at hcase
      | fin s m e => simp [isNaN, isInf, hn] at hcase

/-! ## encodeURI / encodeURIComponent / decodeURIComponent (§15.1.3) -/

set_option maxRecDepth 4000 in
/-- C13.encode_sets (ASCII half): for each of the 128 ASCII code points, what otto's regexp + url.QueryEscape
    pipeline emits is the character itself exactly when §15.1.3 lists it as unescaped, else "%XX" -/
theorem encode_sets_ascii : ∀ r, r < 128 →
    replaceRune keepURI r = (if Spec.unescapedURISet r then [r] else Spec.pctOctet r) ∧
    replaceRune keepComponent r = (if Spec.unescapedComponentSet r then [r] else Spec.pctOctet r) := by
  decide


/-- C13.encode_sets (non-ASCII half): every code point ≥ 128 is emitted as the %XX escapes of its UTF-8 octets -/
theorem encode_sets_high (r : Nat) (hr : Scalar r) (h : 128 ≤ r) :
    replaceRune keepURI r = (Spec.utf8Octets r).flatMap Spec.pctOctet ∧
    replaceRune keepComponent r = (Spec.utf8Octets r).flatMap Spec.pctOctet := by
  have hk1 : keepURI.contains r = false := by simp [keepURI]; omega
  have hk2 : keepComponent.contains r = false := by simp [keepComponent]; omega
  have h32 : r ≠ 32 := by omega
  have hb := utf8Octets_high r hr h
  have hq := queryEscape_high (Spec.utf8Octets r) (fun b hb' => (hb b hb').1)
  have hp : (Spec.utf8Octets r).flatMap pct = (Spec.utf8Octets r).flatMap Spec.pctOctet := by
    apply flatMap_congr'; intro b hb'; exact pct_eq b (hb b hb').2
  simp only [replaceRune, hk1, hk2, Bool.false_eq_true, if_false, h32, encodeRune_eq r hr, hq, hp, and_self]

/-- C13.uri_roundtrip_partial — for every sequence of Unicode scalar values, URL-unescaping (after the
    `+` → `%2B` hack) what encodeURIComponent's escaping stage emits returns exactly the UTF-8 bytes of the
    sequence, without error.
    (Full statement, not proved: decodeURIComponent(encodeURIComponent(s)) = s for every well-formed UTF-16 s.
    Missing links: utf8.ValidString(encodeRunes rs) = true, the surrogate-pairing loop
    encLoop (utf16Encode rs) = some (encodeRunes rs), decodeRunes ∘ encodeRunes = id, and for the
    decodeURI/encodeURI pair that decodeURIGuard never fires on encodeURI output.) -/
theorem uri_roundtrip_partial (rs : List Nat) (h : ∀ r ∈ rs, Scalar r) :
    queryUnescape (plusHack (rs.flatMap (replaceRune keepComponent))) = some (encodeRunes rs) := by
  induction rs with
  | nil => simp [plusHack, queryUnescape, encodeRunes]
  | cons r rs ih =>
    have ih' := ih (fun x hx => h x (by simp [hx]))
    simp only [List.flatMap_cons, plusHack_append]
    rw [component_rune r (h r (by simp)), ih']
    simp [encodeRunes]

/-- non-vacuity: ASCII, BMP and astral scalar values -/
example : ∀ r ∈ [97, 37, 43, 0xE9, 0x20AC, 0x1F600, 0x10FFFF], Scalar r := by simp [Scalar]

/-! ## escape / unescape (§B.2.1–2) -/

/-- C13.escape_roundtrip — for every well-formed string s (any Unicode scalar values, incl. characters
    outside the BMP; held, as otto holds it, as the Go string `encodeRunes rs`), unescape(escape(s)) is the
    Go-string-held string with the same code units, i.e. s. -/
theorem escape_roundtrip (rs : List Nat) (h : ∀ r ∈ rs, Scalar r) :
    unescape (.go (escape (.go (encodeRunes rs)))) = .go (encodeRunes rs) := by
  simp only [unescape, escape, SV.string]
  rw [escape_unescape_units rs h _ _ (Nat.le_refl _) (Nat.le_refl _)]
  have hw : hasLone (utf16Encode rs) = false := hasLone_encode rs h
  simp only [utf16Value, hw, Bool.false_eq_true, if_false, bytesOfUnits, utf16Decode_encode rs h]

/-- non-vacuity: "aé€ %@" and U+1F600 are scalar values -/
example : ∀ r ∈ [97, 0xE9, 0x20AC, 32, 37, 64, 0x1F600], Scalar r := by simp [Scalar]

/-! ## Dev witnesses (kernel-checked; each is replayed on the real code by the harness) -/

/-- exp_overflow_early: at x = 709.5 (< Overflow = 709.78…) the amd64 test already overflows, so the model
    (like the real code) answers +∞ whatever the library computes -/
example : expOverflowAmd64 (decode 0x40862C0000000000) = true ∧ gt (decode 0x40862C0000000000) expOverflowConst = false := by
  decide +kernel
/-- log_subnormal: the logarithm is taken of a different number than the argument 5e-324 -/
example : logFrexpAmd64 1 (-1074) ≠ .fin false 1 (-1074) := by decide
/-- atan2_underflow: Math.atan2(-5e-324, -2) is +π; §15.8.2.5 has y<0 ⇒ result < 0 -/
example : encode (mathAtan2 Driverless.lib (decode 0x8000000000000001) (decode 0xC000000000000000)) = encode pi := by
  decide +kernel
/-- lone_surrogate_input -/
example : unitsOfBytes (escape (.u16 [0xD800])) ≠ Spec.escape [0xD800] := by decide
example : (unescape (.u16 [0xD800])).units ≠ Spec.unescape [0xD800] := by decide
example : (decodeURI false (.u16 [0xD800])).map unitsOfBytes ≠ Spec.decodeURIComponent [0xD800] := by decide

end OttoVerif.C13.Thm
