/-
  C13/Theorems — the ledger for property C13.  Every `theorem` in this file is audited
  (`#print axioms` ⊆ {propext, Classical.choice, Quot.sound}) on every run.
-/
import OttoVerif.C13.Spec
import OttoVerif.C05.Theorems
namespace OttoVerif.C13.Thm
open OttoVerif.F64 OttoVerif.Str OttoVerif.C13

/-! ## isNaN / isFinite apply ToNumber (§15.1.2.4–5) -/

theorem isNaN_isFinite (E : C05.Env) (v : C05.Val) :
    globalIsNaN E v = Spec.globalIsNaN E v ∧ globalIsFinite E v = Spec.globalIsFinite E v := by
  simp only [globalIsNaN, globalIsFinite, Spec.globalIsNaN, Spec.globalIsFinite, ← C05.Thm.toNumber_eq]
  cases C05.toFloat E v <;> simp [isNaN, isInf]

/-! ## abs -/

theorem abs_eq (x : FV) : mathAbs x = Spec.abs x := by
  cases x <;> rfl

/-! ## Dev witnesses (kernel-checked; each is replayed on the real code by the harness) -/

/-- round_half_add: 0.49999999999999994 + 0.5 rounds to 1 -/
example : encode (mathRound (.fin false (2^53-1) (-54))) ≠ encode (Spec.round (.fin false (2^53-1) (-54))) := by decide +kernel
/-- round_half_add: 2^52+1 + 0.5 is a tie, rounds to even -/
example : encode (mathRound (.fin false (2^52+1) 0)) ≠ encode (Spec.round (.fin false (2^52+1) 0)) := by decide +kernel
/-- escape_at -/
example : unitsOfBytes (escape (.go [64])) ≠ Spec.escape [64] := by decide
/-- escape_astral: U+1F600 -/
example : unitsOfBytes (escape (.go [0xF0, 0x9F, 0x98, 0x80])) ≠ Spec.escape (unitsOfBytes [0xF0, 0x9F, 0x98, 0x80]) := by decide
/-- unescape_nonascii: "é" -/
example : unitsOfBytes (unescape (.go [0xC3, 0xA9])) ≠ Spec.unescape (unitsOfBytes [0xC3, 0xA9]) := by decide
/-- unescape_surrogate: "%uD83D%uDE00" -/
example : unitsOfBytes (unescape (.go [37,117,68,56,51,68,37,117,68,69,48,48])) ≠ Spec.unescape [37,117,68,56,51,68,37,117,68,69,48,48] := by decide
/-- lone_surrogate_input -/
example : unitsOfBytes (escape (.u16 [0xD800])) ≠ Spec.escape [0xD800] := by decide
example : (decodeURI false (.u16 [0xD800])).map unitsOfBytes ≠ Spec.decodeURIComponent [0xD800] := by decide

end OttoVerif.C13.Thm
