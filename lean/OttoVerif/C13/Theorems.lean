/-  C13/Theorems — the ledger for property C13 (every theorem here is audited).  Placeholder. -/
namespace OttoVerif.C13.Thm
end OttoVerif.C13.Thm
