/-
  C13/Driver — line protocol front end (core-only).
  request:  <op> <args…>      reply:  <model> <spec> <dev>

    m1 <fn> <val>            fn ∈ sin cos tan asin acos atan exp log sqrt abs floor ceil round trunc
    m2 pow|atan2 <val> <val>
    mx max|min <val>*
    encc uri|comp <sv> <sv>  encodeURI(a + b): the `+` of the interpreter, then the encoder
    txt <fn> <val>*          the TEXT form and Go kind of the result of Math.<fn>: String(r), r + "", the property
                             key made from r (all three must agree) and %T of Export(); answer t:<hex>;<type>
    mxo max|min|atan2|pow <val>*   every argument is an object whose valueOf returns <val>; answer <result>;<mask of
                             the arguments whose valueOf was called>
    isNaN <val> | isFinite <val>
    enc uri|comp <sv> | dec uri|comp <sv> | escape <sv> | unescape <sv>

  <val> is a C05 value token; <sv> is `g:<hex UTF-8 bytes>` (Go string) or `w:<hex UTF-16 units>`.
  Numbers are answered as 16 hex digits.  For the library functions whose finite results ES5 leaves
  "implementation-dependent" (sin … log, pow, atan2) a finite non-zero result is answered as
  `~` + its pattern rounded to the top 40 bits: the opaque `Lib` is instantiated HERE (and only here) with the
  C library through Lean's `Float`, used as a reference value, and compared to 28 significant bits.
-/
import OttoVerif.Base.Proto
import OttoVerif.Base.ParseNumber
import OttoVerif.C13.Spec
import OttoVerif.C06.Spec
namespace OttoVerif.C13.Driver
open OttoVerif.F64 OttoVerif.Proto OttoVerif.C13 OttoVerif.Str

def env : C05.Env := { pn := OttoVerif.PN.parseNumber }

def nk? : String → Option C05.NK
  | "i8" => some .i8 | "i16" => some .i16 | "i32" => some .i32 | "i64" => some .i64 | "int" => some .int
  | "u8" => some .u8 | "u16" => some .u16 | "u32" => some .u32 | "u64" => some .u64 | "uint" => some .uint
  | _ => none

def val? (t : String) : Option C05.Val :=
  if t = "u" then some .undef
  else if t = "n" then some .null
  else match t.splitOn ":" with
    | ["b", "0"] => some (.bool false)
    | ["b", "1"] => some (.bool true)
    | ["f", h] => (f64? h).map .f64
    | ["s", h] => (bytes? h).map .str
    | [k, i] => do let k ← nk? k; let i ← int? i; pure (.int k i)
    | _ => none

def num? (t : String) : Option FV := (val? t).map (C05.toFloat env)

def sv? (t : String) : Option SV :=
  match t.splitOn ":" with
  | ["g", h] => (bytes? h).map .go
  | ["w", h] => (units? h).map .u16
  | _ => none

/-! reference library (C libm through Lean's Float) -/
def toF (x : FV) : Float := Float.ofBits (encode x)
def ofF (r : Float) : FV := decode r.toBits

def ref1 (f : Fn1) (x : FV) : FV :=
  let a := toF x
  ofF (match f with
    | .sin => a.sin | .cos => a.cos | .tan => a.tan | .asin => a.asin | .acos => a.acos | .atan => a.atan
    | .exp => a.exp | .log => a.log | .sqrt => a.sqrt)
def refPow (x y : FV) : FV := ofF ((toF x).pow (toF y))
def refAtan2 (y x : FV) : FV := ofF ((toF y).atan2 (toF x))

/-- pow.go l.100–160 re-computed with `Log(x)` replaced by log(xl): x**yf = exp(yf·log xl), x**yi by Frexp -/
def refPowLogPath (xl x y : FV) : FV :=
  let fxl := toF xl; let fx := toF x; let fy := toF y
  let ya := fy.abs
  let yi0 := ya.floor
  let yf0 := ya - yi0
  let (yf, yi) := if yf0 > 0.5 then (yf0 - 1, yi0 + 1) else (yf0, yi0)
  let sgn : Float := if fy < 0 then -1 else 1
  let (x1, xe) := fx.frExp
  let r := (fxl.pow (sgn * yf)) * (x1.pow (sgn * yi))
  let sh : Int := xe * yi.toInt64.toInt * (if fy < 0 then -1 else 1)
  ofF (r.scaleB sh)

def lib : Lib := { core1 := ref1, powCore := refPow, powLogPath := refPowLogPath }

def exactOut (x : FV) : String := f64Out x
def approxOut (x : FV) : String :=
  match x with
  | .fin _ m _ => if m = 0 then f64Out x else "~" ++ toHexPadded 10 (((encode x).toNat + 2^23) / 2^24)
  | _ => f64Out x

def fn1? : String → Option Fn1
  | "sin" => some .sin | "cos" => some .cos | "tan" => some .tan | "asin" => some .asin | "acos" => some .acos
  | "atan" => some .atan | "exp" => some .exp | "log" => some .log | "sqrt" => some .sqrt | _ => none

def reply (m s : String) (dev : String) : String := m ++ " " ++ s ++ " " ++ dev
def boolOut (b : Bool) : String := if b then "true" else "false"

/-- Dev region: Math.pow(x, y) with subnormal x > 0 and fractional y inherits the amd64 Log defect -/
def devPowLog (x y : FV) : Bool :=
  match x, y with
  | .fin false mx ex, .fin _ my ey =>
    mx ≠ 0 && !isIntegral my ey && logFrexpAmd64 mx ex != x && !(eqNum y half) && !(eqNum y (neg half))
  | _, _ => false

/-- Dev region: Math.atan2(y, x) with y < 0, x < 0 finite and y/x underflowing to +0 returns +π -/
def devAtan2 (y x : FV) : Bool :=
  match y, x with
  | .fin true my _, .fin true mx _ => my ≠ 0 && mx ≠ 0 && isZero (div y x)
  | _, _ => false

def allNums (ts : List String) : Option (List FV) := ts.mapM num?

/-! strings -/
def strOut (o : Option (List Nat)) : String :=
  match o with
  | none => "throw:URIError"
  | some us => "s:" ++ unitsOut us

def svUnits : SV → List Nat
  | .go b => unitsOfBytes b
  | .u16 u => u

def joinDev (ds : List String) : String :=
  if ds.isEmpty then "-" else ",".intercalate ds

def devStr (op : String) (v : SV) : String :=
  let lone := match v with | .u16 u => hasLone u | .go _ => false
  joinDev (if lone && op != "enc" then ["lone_surrogate_input"] else [])

def modelStr (o : Option (List Nat)) : String := strOut (o.map unitsOfBytes)

/-- Dev region: Go's amd64 Exp returns +Inf although e^x ≤ MaxFloat64 -/
def devExp (x : FV) : Bool :=
  match x with
  | .fin .. => expOverflowAmd64 x && !(gt x expOverflowConst)
  | _ => false

/-- Dev region: Go's amd64 Log mis-reads subnormal arguments -/
def devLog (x : FV) : Bool :=
  match x with
  | .fin false m e => m ≠ 0 && logFrexpAmd64 m e != x
  | _ => false

/-- (model result, spec result, dev) of Math.<fn>(args) -/
def mathRes (f : String) (l : List FV) : Option (FV × FV × String) :=
  let arg (i : Nat) : FV := l.getD i .nan
  match fn1? f with
  | some fn =>
    let x := arg 0
    let dev := if fn = .exp && devExp x then "exp_overflow_early" else if fn = .log && devLog x then "log_subnormal" else "-"
    some (mathFn1 lib fn x, (Spec.fn1Table fn x).getD (ref1 fn x), dev)
  | none =>
    match f with
    | "abs" => some (mathAbs (arg 0), Spec.abs (arg 0), "-")
    | "floor" => some (mathFloor (arg 0), Spec.floor (arg 0), "-")
    | "ceil" => some (mathCeil (arg 0), Spec.ceil (arg 0), "-")
    | "trunc" => some (mathTrunc (arg 0), Spec.trunc (arg 0), "-")
    | "round" => some (mathRound (arg 0), Spec.round (arg 0), "-")
    | "max" => some (mathMax l, Spec.max l, "-")
    | "min" => some (mathMin l, Spec.min l, "-")
    | "pow" => some (mathPow lib (arg 0) (arg 1), (Spec.powTable (arg 0) (arg 1)).getD (refPow (arg 0) (arg 1)),
                     if devPowLog (arg 0) (arg 1) then "log_subnormal" else "-")
    | "atan2" => some (mathAtan2 lib (arg 0) (arg 1), (Spec.atan2Table (arg 0) (arg 1)).getD (refAtan2 (arg 0) (arg 1)),
                       if devAtan2 (arg 0) (arg 1) then "atan2_underflow" else "-")
    | _ => none

partial def handle (ws : List String) : String :=
  match ws with
  | ["m1", f] => handle ["m1", f, "u"]
  | ["m2", f] => handle ["m2", f, "u", "u"]
  | ["m2", f, a] => handle ["m2", f, a, "u"]
  | ["isNaN"] => handle ["isNaN", "u"]
  | ["isFinite"] => handle ["isFinite", "u"]
  | ["m1", f, a] =>
    match num? a with
    | none => "bad-op"
    | some x =>
      match fn1? f with
      | some fn =>
        let out := if fn = .sqrt then exactOut else approxOut
        let dev := if fn = .exp && devExp x then "exp_overflow_early" else if fn = .log && devLog x then "log_subnormal" else "-"
        reply (out (mathFn1 lib fn x)) (out ((Spec.fn1Table fn x).getD (ref1 fn x))) dev
      | none =>
        match f with
        | "abs" => reply (exactOut (mathAbs x)) (exactOut (Spec.abs x)) "-"
        | "floor" => reply (exactOut (mathFloor x)) (exactOut (Spec.floor x)) "-"
        | "ceil" => reply (exactOut (mathCeil x)) (exactOut (Spec.ceil x)) "-"
        | "trunc" => reply (exactOut (mathTrunc x)) (exactOut (Spec.trunc x)) "-"
        | "round" => reply (exactOut (mathRound x)) (exactOut (Spec.round x)) "-"
        | _ => "bad-op"
  | ["m2", "pow", a, b] =>
    match num? a, num? b with
    | some x, some y =>
      reply (approxOut (mathPow lib x y)) (approxOut ((Spec.powTable x y).getD (refPow x y)))
        (if devPowLog x y then "log_subnormal" else "-")
    | _, _ => "bad-op"
  | ["m2", "atan2", a, b] =>
    match num? a, num? b with
    | some y, some x =>
      reply (approxOut (mathAtan2 lib y x)) (approxOut ((Spec.atan2Table y x).getD (refAtan2 y x)))
        (if devAtan2 y x then "atan2_underflow" else "-")
    | _, _ => "bad-op"
  | "mx" :: "max" :: ts =>
    match allNums ts with
    | some l => reply (exactOut (mathMax l)) (exactOut (Spec.max l)) "-"
    | none => "bad-op"
  | "mx" :: "min" :: ts =>
    match allNums ts with
    | some l => reply (exactOut (mathMin l)) (exactOut (Spec.min l)) "-"
    | none => "bad-op"
  | "txt" :: f :: ts =>
    match allNums ts with
    | some l =>
      match mathRes f l with
      | some (m, sp, dev) =>
        let v := mathValue m
        reply ("t:" ++ bytesOut (numValText OttoVerif.C06.Spec.exactLib v) ++ ";" ++ exportType v)
          ("t:" ++ bytesOut (Spec.resultText sp) ++ ";" ++ Spec.resultExportType) dev
      | none => "bad-op"
    | none => "bad-op"
  | "mxo" :: op :: ts =>
    -- every argument is an object whose valueOf returns the given primitive; answer = result;call-mask
    match allNums ts with
    | some l =>
      let mask (n : Nat) : String := String.ofList (List.replicate n '1' ++ List.replicate (l.length - n) '0')
      match op, l with
      | "max", _ => reply (exactOut (mathMax l) ++ ";" ++ mask (maxMinConverted l)) (exactOut (Spec.max l) ++ ";" ++ mask (Spec.maxMinConverted l)) "-"
      | "min", _ => reply (exactOut (mathMin l) ++ ";" ++ mask (maxMinConverted l)) (exactOut (Spec.min l) ++ ";" ++ mask (Spec.maxMinConverted l)) "-"
      | "atan2", [y, x] =>
        reply (approxOut (mathAtan2 lib y x) ++ ";" ++ mask binaryConverted)
          (approxOut ((Spec.atan2Table y x).getD (refAtan2 y x)) ++ ";" ++ mask 2) (if devAtan2 y x then "atan2_underflow" else "-")
      | "pow", [x, y] =>
        reply (approxOut (mathPow lib x y) ++ ";" ++ mask binaryConverted)
          (approxOut ((Spec.powTable x y).getD (refPow x y)) ++ ";" ++ mask 2) (if devPowLog x y then "log_subnormal" else "-")
      | _, _ => "bad-op"
    | none => "bad-op"
  | ["encc", k, a, b] =>
    -- encodeURI / encodeURIComponent of the concatenation a + b evaluated by the interpreter
    match sv? a, sv? b with
    | some x, some y =>
      let us := svUnits x ++ svUnits y
      if k = "uri" then reply (modelStr (encodeURI (concat x y))) (strOut (Spec.encodeURI us)) "-"
      else if k = "comp" then reply (modelStr (encodeURIComponent (concat x y))) (strOut (Spec.encodeURIComponent us)) "-"
      else "bad-op"
    | _, _ => "bad-op"
  | ["isNaN", a] =>
    match val? a with
    | some v => reply (boolOut (globalIsNaN env v)) (boolOut (Spec.globalIsNaN env v)) "-"
    | none => "bad-op"
  | ["isFinite", a] =>
    match val? a with
    | some v => reply (boolOut (globalIsFinite env v)) (boolOut (Spec.globalIsFinite env v)) "-"
    | none => "bad-op"
  | ["enc", k, a] =>
    match sv? a with
    | none => "bad-op"
    | some v =>
      if k = "uri" then reply (modelStr (encodeURI v)) (strOut (Spec.encodeURI (svUnits v))) (devStr "enc" v)
      else if k = "comp" then reply (modelStr (encodeURIComponent v)) (strOut (Spec.encodeURIComponent (svUnits v))) (devStr "enc" v)
      else "bad-op"
  | ["dec", k, a] =>
    match sv? a with
    | none => "bad-op"
    | some v =>
      if k = "uri" then reply (modelStr (decodeURI true v)) (strOut (Spec.decodeURI (svUnits v))) (devStr "dec" v)
      else if k = "comp" then reply (modelStr (decodeURI false v)) (strOut (Spec.decodeURIComponent (svUnits v))) (devStr "dec" v)
      else "bad-op"
  | ["escape", a] =>
    match sv? a with
    | none => "bad-op"
    | some v => reply (modelStr (some (escape v))) (strOut (some (Spec.escape (svUnits v)))) (devStr "escape" v)
  | ["unescape", a] =>
    match sv? a with
    | none => "bad-op"
    | some v => reply (strOut (some (unescape v).units)) (strOut (some (Spec.unescape (svUnits v)))) (devStr "unescape" v)
  | _ => "bad-op"

end OttoVerif.C13.Driver
