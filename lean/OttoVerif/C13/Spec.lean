/-
  C13/Spec — ES5.1 §15.8.2 (Math), §15.1.2.4/5 (isNaN, isFinite), §15.1.3 (URI functions) and
  §B.2.1/B.2.2 (escape/unescape), written from the standard.

  Math: where the standard fixes the result (the bulleted special-value lists, and the exactly defined
  functions abs/ceil/floor/round/max/min) the spec is a function; where it says "an
  implementation-dependent approximation" the spec is silent (`none` in the `…Table` functions).
  Strings are sequences of UTF-16 code units (`List Nat`, each < 2^16); `none` = URIError.
-/
import OttoVerif.C13.Model
import OttoVerif.C05.Spec
import OttoVerif.C06.Spec
namespace OttoVerif.C13.Spec
open OttoVerif.F64 OttoVerif.C13

/-! ## Math §15.8.2 -/

/-- the Number value of an integer (exact: FV carries unbounded significands); a zero gets sign `zneg` -/
def numOfInt (n : Int) (zneg : Bool) : FV :=
  if n = 0 then .fin zneg 0 0 else .fin (decide (n < 0)) n.natAbs 0

/-- signed numerator of a finite value with negative exponent: x = numer / 2^k -/
def numer (s : Bool) (m : Nat) : Int := if s then -(m : Int) else (m : Int)

/-- mathematical integer test on (−1)^s·m·2^e -/
def isInteger (m : Nat) (e : Int) : Bool := e ≥ 0 || m % 2 ^ (-e).toNat = 0

/-- §15.8.2.1 abs -/
def abs : FV → FV
  | .nan => .nan
  | .inf _ => .inf false
  | .fin _ m e => .fin false m e

/-- §15.8.2.9 floor: the greatest integer Number not greater than x; x itself if already an integer
    (this covers ±0, ±∞); NaN → NaN; 0 < x < 1 → +0. -/
def floor : FV → FV
  | .nan => .nan
  | .inf s => .inf s
  | .fin s m e =>
    if isInteger m e then .fin s m e
    else numOfInt (numer s m / (2 ^ (-e).toNat : Int)) false        -- Int `/` floors for a positive divisor

/-- §15.8.2.6 ceil: the smallest integer Number not less than x; −1 < x < 0 → −0. -/
def ceil : FV → FV
  | .nan => .nan
  | .inf s => .inf s
  | .fin s m e =>
    if isInteger m e then .fin s m e
    else numOfInt (-((-(numer s m)) / (2 ^ (-e).toNat : Int))) s

/-- §15.8.2.15 round: the integer Number closest to x, ties towards +∞ (= floor(x + ½) computed exactly);
    an integer (incl. ±0, ±∞) is returned unchanged; 0 < x < ½ → +0; −½ ≤ x < 0 → −0. -/
def round : FV → FV
  | .nan => .nan
  | .inf s => .inf s
  | .fin s m e =>
    if isInteger m e then .fin s m e
    else
      let k := (-e).toNat
      numOfInt ((2 * numer s m + (2 ^ k : Int)) / (2 ^ (k + 1) : Int)) s

/-- ES2015 §20.2.2.35 trunc (not in ES5; otto provides it): integral part, sign kept -/
def trunc : FV → FV
  | .nan => .nan
  | .inf s => .inf s
  | .fin s m e =>
    if isInteger m e then .fin s m e
    else numOfInt (if s then -((m / 2 ^ (-e).toNat : Nat) : Int) else ((m / 2 ^ (-e).toNat : Nat) : Int)) s

/-- the larger of two non-NaN Numbers, +0 larger than −0 (§15.8.2.11) -/
def max2 (a b : FV) : FV :=
  if lt a b then b else if lt b a then a
  else if isZero a && isZero b then (if signBit a then b else a)
  else b

/-- the smaller of two non-NaN Numbers, −0 smaller than +0 (§15.8.2.12) -/
def min2 (a b : FV) : FV :=
  if lt a b then a else if lt b a then b
  else if isZero a && isZero b then (if signBit a then a else b)
  else b

/-- §15.8.2.11 max: no arguments → −∞; any NaN → NaN; else the largest -/
def max (l : List FV) : FV := if l.any isNaN then .nan else l.foldl max2 (.inf true)
/-- §15.8.2.12 min -/
def min (l : List FV) : FV := if l.any isNaN then .nan else l.foldl min2 (.inf false)

/-- §15.8.2.11/12: "calls ToNumber on each of the arguments" — every argument is converted -/
def maxMinConverted (l : List FV) : Nat := l.length

/-- "x is greater than 1", "x is less than −1" etc. on Numbers (false for NaN) -/
def gtOne (x : FV) : Bool := lt one x
def ltNegOne (x : FV) : Bool := lt x negOne
def isNegative (x : FV) : Bool := lt x zero        -- x < 0 (not −0)
def isPositive (x : FV) : Bool := lt zero x

/-- The special-value lists of §15.8.2.2–4, 7, 8, 10, 16–18: `some r` where the standard fixes the
    result, `none` where it is an implementation-dependent approximation. -/
def fn1Table (f : Fn1) (x : FV) : Option FV :=
  match f with
  | .acos =>    -- NaN → NaN; x > 1 → NaN; x < −1 → NaN; x = 1 → +0
    if isNaN x then some .nan else if gtOne x then some .nan else if ltNegOne x then some .nan
    else if eqNum x one then some zero else none
  | .asin =>    -- NaN; x > 1; x < −1 → NaN; ±0 → ±0
    if isNaN x then some .nan else if gtOne x then some .nan else if ltNegOne x then some .nan
    else if isZero x then some x else none
  | .atan =>    -- NaN → NaN; ±0 → ±0; +∞ → +π/2; −∞ → −π/2
    match x with
    | .nan => some .nan
    | .inf s => some (if s then neg piHalf else piHalf)
    | .fin _ m _ => if m = 0 then some x else none
  | .cos =>     -- NaN → NaN; ±0 → 1; ±∞ → NaN
    match x with
    | .nan => some .nan
    | .inf _ => some .nan
    | .fin _ m _ => if m = 0 then some one else none
  | .exp =>     -- NaN → NaN; ±0 → 1; +∞ → +∞; −∞ → +0
    match x with
    | .nan => some .nan
    | .inf s => some (if s then zero else .inf false)
    | .fin _ m _ => if m = 0 then some one else none
  | .log =>     -- NaN → NaN; x < 0 → NaN; ±0 → −∞; 1 → +0; +∞ → +∞
    match x with
    | .nan => some .nan
    | .inf s => some (if s then .nan else .inf false)
    | .fin s m _ => if m = 0 then some (.inf true) else if s then some .nan
                    else if eqNum x one then some zero else none
  | .sin | .tan =>   -- NaN → NaN; ±0 → ±0; ±∞ → NaN
    match x with
    | .nan => some .nan
    | .inf _ => some .nan
    | .fin _ m _ => if m = 0 then some x else none
  | .sqrt =>    -- NaN → NaN; x < 0 → NaN; ±0 → ±0; +∞ → +∞
    match x with
    | .nan => some .nan
    | .inf s => some (if s then .nan else .inf false)
    | .fin s m _ => if m = 0 then some x else if s then some .nan else none

/-- "y is an odd integer" (mathematically) -/
def isOddInteger : FV → Bool
  | .fin _ m e => if e ≥ 0 then (m * 2 ^ e.toNat) % 2 = 1 else (m % 2 ^ (-e).toNat = 0 && (m / 2 ^ (-e).toNat) % 2 = 1)
  | _ => false

def isFiniteV : FV → Bool | .fin .. => true | _ => false

/-- §15.8.2.13 pow(x, y): the 25 bullets in order -/
def powTable (x y : FV) : Option FV :=
  if isNaN y then some .nan                                         -- y NaN
  else if isZero y then some one                                    -- y = ±0 (even if x is NaN)
  else if isNaN x then some .nan                                    -- x NaN, y non-zero
  else if y = .inf false then                                       -- y = +∞
    (if gtOne (abs x) then some (.inf false) else if eqNum (abs x) one then some .nan else some zero)
  else if y = .inf true then                                        -- y = −∞
    (if gtOne (abs x) then some zero else if eqNum (abs x) one then some .nan else some (.inf false))
  else if x = .inf false then                                       -- x = +∞
    (if isPositive y then some (.inf false) else some zero)
  else if x = .inf true then                                        -- x = −∞
    (if isPositive y then (if isOddInteger y then some (.inf true) else some (.inf false))
     else (if isOddInteger y then some negZero else some zero))
  else if isZero x then
    (if !signBit x then (if isPositive y then some zero else some (.inf false))     -- x = +0
     else if isPositive y then (if isOddInteger y then some negZero else some zero) -- x = −0
     else (if isOddInteger y then some (.inf true) else some (.inf false)))
  else if isNegative x && !(match y with | .fin _ m e => isInteger m e | _ => true) then
    some .nan                                                       -- x < 0 finite, y finite non-integer
  else none

/-- §15.8.2.5 atan2(y, x) -/
def atan2Table (y x : FV) : Option FV :=
  if isNaN x || isNaN y then some .nan
  else if isZero y then
    (if !signBit y then                                       -- y = +0
       (if isPositive x then some zero else if isZero x then (if signBit x then some pi else some zero) else some pi)
     else                                                     -- y = −0
       (if isPositive x then some negZero else if isZero x then (if signBit x then some (neg pi) else some negZero)
        else some (neg pi)))
  else if isZero x then (if isPositive y then some piHalf else some (neg piHalf))
  else if isFiniteV y then
    (if x = .inf false then (if isPositive y then some zero else some negZero)
     else if x = .inf true then (if isPositive y then some pi else some (neg pi))
     else none)
  else -- y = ±∞
    (if isFiniteV x then (if signBit y then some (neg piHalf) else some piHalf)
     else if x = .inf false then (if signBit y then some (neg piQuarter) else some piQuarter)
     else (if signBit y then some (neg pi3Quarter) else some pi3Quarter))

/-- The text of a Math result wherever ES5 converts it to a string (String(r), r + "", a property key
    made from r): §9.8.1 ToString applied to the Number value -/
def resultText (x : FV) : List Nat := OttoVerif.C06.Spec.toStringNum x

/-- what the embedder gets from Export() for a Math result: a float64 (otto's documented mapping of a
    Number that is the result of a floating-point builtin; the kind must not depend on the value) -/
def resultExportType : String := "float64"

/-- §15.1.2.4 isNaN(number): ToNumber, then NaN test -/
def globalIsNaN (E : C05.Env) (v : C05.Val) : Bool :=
  match OttoVerif.C05.Spec.toNumber E v with | .nan => true | _ => false
/-- §15.1.2.5 isFinite(number): false for NaN, +∞, −∞ -/
def globalIsFinite (E : C05.Env) (v : C05.Val) : Bool :=
  match OttoVerif.C05.Spec.toNumber E v with | .fin .. => true | _ => false

/-! ## §15.1.3 URI handling -/

def inRange (lo hi c : Nat) : Bool := lo ≤ c ∧ c ≤ hi
/-- uriAlpha ∪ DecimalDigit -/
def alnum (c : Nat) : Bool := inRange 97 122 c || inRange 65 90 c || inRange 48 57 c
/-- uriMark  - _ . ! ~ * ' ( ) -/
def uriMark (c : Nat) : Bool := [45, 95, 46, 33, 126, 42, 39, 40, 41].contains c
/-- uriReserved  ; / ? : @ & = + $ , -/
def uriReserved (c : Nat) : Bool := [59, 47, 63, 58, 64, 38, 61, 43, 36, 44].contains c
def uriUnescaped (c : Nat) : Bool := alnum c || uriMark c
/-- unescapedURISet of encodeURI (§15.1.3.3): uriReserved ∪ uriUnescaped ∪ {#} -/
def unescapedURISet (c : Nat) : Bool := uriReserved c || uriUnescaped c || c = 35
/-- unescapedURIComponentSet of encodeURIComponent (§15.1.3.4) -/
def unescapedComponentSet (c : Nat) : Bool := uriUnescaped c
/-- reservedURISet of decodeURI (§15.1.3.1): uriReserved ∪ {#} -/
def reservedURISet (c : Nat) : Bool := uriReserved c || c = 35
/-- reservedURIComponentSet of decodeURIComponent (§15.1.3.2): empty -/
def reservedComponentSet (_ : Nat) : Bool := false

def hexChar (n : Nat) : Nat := if n < 10 then 48 + n else 65 + (n - 10)   -- upper case (Encode step 4.d.v)
def pctOctet (b : Nat) : List Nat := [37, hexChar (b / 16), hexChar (b % 16)]

/-- the UTF-8 transformation of a code point (table in §15.1.3) -/
def utf8Octets (v : Nat) : List Nat :=
  if v < 0x80 then [v]
  else if v < 0x800 then [0xC0 + v / 64, 0x80 + v % 64]
  else if v < 0x10000 then [0xE0 + v / 4096, 0x80 + (v / 64) % 64, 0x80 + v % 64]
  else [0xF0 + v / 262144, 0x80 + (v / 4096) % 64, 0x80 + (v / 64) % 64, 0x80 + v % 64]

/-- Encode(string, unescapedSet), §15.1.3 -/
def encode (unesc : Nat → Bool) : List Nat → Option (List Nat)
  | [] => some []
  | c :: c1 :: t =>
    if unesc c then (encode unesc (c1 :: t)).map (c :: ·)
    else if inRange 0xDC00 0xDFFF c then none
    else if !inRange 0xD800 0xDBFF c then (encode unesc (c1 :: t)).map ((utf8Octets c).flatMap pctOctet ++ ·)
    else if !inRange 0xDC00 0xDFFF c1 then none
    else (encode unesc t).map ((utf8Octets ((c - 0xD800) * 0x400 + (c1 - 0xDC00) + 0x10000)).flatMap pctOctet ++ ·)
  | [c] =>
    if unesc c then some [c]
    else if inRange 0xDC00 0xDFFF c then none
    else if !inRange 0xD800 0xDBFF c then some ((utf8Octets c).flatMap pctOctet)
    else none

def hexDigit? (c : Nat) : Option Nat :=
  if inRange 48 57 c then some (c - 48) else if inRange 65 70 c then some (c - 55)
  else if inRange 97 102 c then some (c - 87) else none

/-- "%XX" at the head of the list → (byte, rest) -/
def pctByte? : List Nat → Option (Nat × List Nat)
  | 37 :: a :: b :: rest =>
    match hexDigit? a, hexDigit? b with
    | some x, some y => some (x * 16 + y, rest)
    | _, _ => none
  | _ => none

/-- read `n` continuation octets "%XX" whose two top bits are 10 -/
def contOctets : Nat → List Nat → Option (List Nat × List Nat)
  | 0, rest => some ([], rest)
  | n+1, l =>
    match pctByte? l with
    | none => none
    | some (b, rest) =>
      if b / 64 ≠ 2 then none
      else match contOctets n rest with
        | none => none
        | some (bs, rest') => some (b :: bs, rest')

/-- the code point of a well-formed UTF-8 octet sequence of the given length; `none` if the octets are
    not a valid (shortest-form, non-surrogate, ≤ 0x10FFFF) encoding -/
def utf8Value (b0 : Nat) (cs : List Nat) : Option Nat :=
  match cs with
  | [b1] => let v := (b0 - 0xC0) * 64 + (b1 - 0x80); if v < 0x80 then none else some v
  | [b1, b2] =>
    let v := (b0 - 0xE0) * 4096 + (b1 - 0x80) * 64 + (b2 - 0x80)
    if v < 0x800 ∨ inRange 0xD800 0xDFFF v then none else some v
  | [b1, b2, b3] =>
    let v := (b0 - 0xF0) * 262144 + (b1 - 0x80) * 4096 + (b2 - 0x80) * 64 + (b3 - 0x80)
    if v < 0x10000 ∨ v > 0x10FFFF then none else some v
  | _ => none

/-- Decode(string, reservedSet), §15.1.3; fuel = length of the string -/
def decodeAux (reserved : Nat → Bool) : Nat → List Nat → Option (List Nat)
  | _, [] => some []
  | 0, _ => none
  | fuel+1, c :: t =>
    if c ≠ 37 then (decodeAux reserved fuel t).map (c :: ·)
    else match pctByte? (c :: t) with
      | none => none
      | some (b, rest) =>
        if b < 0x80 then
          (if reserved b then (decodeAux reserved fuel rest).map (((c :: t).take 3) ++ ·)
           else (decodeAux reserved fuel rest).map (b :: ·))
        else
          let n := if b / 32 = 6 then 2 else if b / 16 = 14 then 3 else if b / 8 = 30 then 4 else 0
          if n = 0 then none
          else match contOctets (n - 1) rest with
            | none => none
            | some (cs, rest') =>
              match utf8Value b cs with
              | none => none
              | some v =>
                if v < 0x10000 then (decodeAux reserved fuel rest').map (v :: ·)
                else (decodeAux reserved fuel rest').map
                  ((0xD800 + (v - 0x10000) / 1024) :: (0xDC00 + (v - 0x10000) % 1024) :: ·)

def decode (reserved : Nat → Bool) (s : List Nat) : Option (List Nat) := decodeAux reserved s.length s

def encodeURI (s : List Nat) := encode unescapedURISet s
def encodeURIComponent (s : List Nat) := encode unescapedComponentSet s
def decodeURI (s : List Nat) := decode reservedURISet s
def decodeURIComponent (s : List Nat) := decode reservedComponentSet s

/-! ## §B.2.1 escape, §B.2.2 unescape -/

/-- the 69 characters escape leaves alone: alnum and  @ * _ + - . /  -/
def escapeKeep (c : Nat) : Bool := alnum c || [64, 42, 95, 43, 45, 46, 47].contains c

def escape : List Nat → List Nat
  | [] => []
  | c :: t =>
    if escapeKeep c then c :: escape t
    else if c < 256 then [37, hexChar (c / 16), hexChar (c % 16)] ++ escape t
    else [37, 117, hexChar (c / 4096), hexChar ((c / 256) % 16), hexChar ((c / 16) % 16), hexChar (c % 16)] ++ escape t

def unescape : List Nat → List Nat
  | 37 :: 117 :: a :: b :: c :: d :: rest =>
    match hexDigit? a, hexDigit? b, hexDigit? c, hexDigit? d with
    | some w, some x, some y, some z => (w * 4096 + x * 256 + y * 16 + z) :: unescape rest
    | _, _, _, _ => 37 :: unescape (117 :: a :: b :: c :: d :: rest)
  | 37 :: a :: b :: rest =>
    match hexDigit? a, hexDigit? b with
    | some x, some y => (x * 16 + y) :: unescape rest
    | _, _ => 37 :: unescape (a :: b :: rest)
  | c :: t => c :: unescape t
  | [] => []

end OttoVerif.C13.Spec
