/-
  C13/Lemmas — helper lemmas for the C13 ledger (core-only).
-/
import OttoVerif.C13.Spec
namespace OttoVerif.C13.Thm
open OttoVerif.F64 OttoVerif.Str OttoVerif.C13

theorem min_comm' (e f : Int) : (if f ≤ e then f else e) = (if e ≤ f then e else f) := by
  split <;> split <;> omega

theorem cmp3_lt (A B : Int) :
    decide (some (if A < B then Ordering.lt else if A = B then Ordering.eq else Ordering.gt) = some Ordering.lt) = decide (A < B) := by
  by_cases h : A < B
  · simp [h]
  · by_cases h2 : A = B <;> simp [h, h2]

theorem cmp3_eq (A B : Int) :
    decide (some (if A < B then Ordering.lt else if A = B then Ordering.eq else Ordering.gt) = some Ordering.eq) = decide (A = B) := by
  by_cases h : A < B
  · simp [h]; omega
  · by_cases h2 : A = B <;> simp [h, h2]

theorem lt_fin (s t : Bool) (m n : Nat) (e f : Int) :
    lt (.fin s m e) (.fin t n f) = decide (alignInt s m e (if e ≤ f then e else f) < alignInt t n f (if e ≤ f then e else f)) := by
  simp only [lt, cmpReal]
  exact cmp3_lt _ _

theorem eqNum_fin (s t : Bool) (m n : Nat) (e f : Int) :
    eqNum (.fin s m e) (.fin t n f) = decide (alignInt s m e (if e ≤ f then e else f) = alignInt t n f (if e ≤ f then e else f)) := by
  simp only [eqNum, cmpReal]
  exact cmp3_eq _ _

theorem alignInt_zero (s : Bool) (e k : Int) : alignInt s 0 e k = 0 := by
  simp [alignInt]

@[simp] theorem lt_nan_l (x : FV) : lt .nan x = false := by simp [lt, cmpReal]
@[simp] theorem lt_nan_r (x : FV) : lt x .nan = false := by cases x <;> simp [lt, cmpReal]
@[simp] theorem lt_inf_inf (s t : Bool) : lt (.inf s) (.inf t) = (s && !t) := by
  cases s <;> cases t <;> simp [lt, cmpReal]
@[simp] theorem lt_inf_fin (s t : Bool) (m : Nat) (e : Int) : lt (.inf s) (.fin t m e) = s := by
  cases s <;> simp [lt, cmpReal]
@[simp] theorem lt_fin_inf (s t : Bool) (m : Nat) (e : Int) : lt (.fin t m e) (.inf s) = !s := by
  cases s <;> simp [lt, cmpReal]

theorem alignInt_eq_zero (s : Bool) (m : Nat) (e k : Int) : alignInt s m e k = 0 ↔ m = 0 := by
  simp only [alignInt]
  have : 0 < 2 ^ (e - k).toNat := Nat.pow_pos (by decide)
  constructor
  · intro h
    split at h
    · have : ((m * 2 ^ (e - k).toNat : Nat) : Int) = 0 := by omega
      have := Int.ofNat_eq_zero.mp this
      rcases Nat.mul_eq_zero.mp this with h | h <;> omega
    · have := Int.ofNat_eq_zero.mp h
      rcases Nat.mul_eq_zero.mp this with h | h <;> omega
  · intro h; subst h; simp

@[simp] theorem isZero_fin (s : Bool) (m : Nat) (e : Int) : isZero (.fin s m e) = decide (m = 0) := by
  cases m <;> simp [isZero]

theorem goMax_fin (s t : Bool) (m n : Nat) (e f : Int) :
    goMax (.fin s m e) (.fin t n f) = Spec.max2 (.fin s m e) (.fin t n f) := by
  simp only [goMax, Spec.max2, gt, lt_fin, isNaN, isZero_fin, min_comm' e f, signBit]
  have hA := alignInt_eq_zero s m e (if e ≤ f then e else f)
  have hB := alignInt_eq_zero t n f (if e ≤ f then e else f)
  generalize alignInt s m e (if e ≤ f then e else f) = A at *
  generalize alignInt t n f (if e ≤ f then e else f) = B at *
  by_cases hm : m = 0 <;> by_cases hn : n = 0 <;> by_cases h1 : B < A <;> by_cases h2 : A < B <;>
    simp [hm, hn, h1, h2] <;> omega

theorem goMin_fin (s t : Bool) (m n : Nat) (e f : Int) :
    goMin (.fin s m e) (.fin t n f) = Spec.min2 (.fin s m e) (.fin t n f) := by
  simp only [goMin, Spec.min2, lt_fin, isNaN, isZero_fin, min_comm' e f, signBit]
  have hA := alignInt_eq_zero s m e (if e ≤ f then e else f)
  have hB := alignInt_eq_zero t n f (if e ≤ f then e else f)
  generalize alignInt s m e (if e ≤ f then e else f) = A at *
  generalize alignInt t n f (if e ≤ f then e else f) = B at *
  by_cases hm : m = 0 <;> by_cases hn : n = 0 <;> by_cases h1 : B < A <;> by_cases h2 : A < B <;>
    simp [hm, hn, h1, h2] <;> omega

/-- pairwise: Go's math.Max makes the ES5 choice on non-NaN arguments -/
theorem goMax_eq (a b : FV) (ha : isNaN a = false) (hb : isNaN b = false) : goMax a b = Spec.max2 a b := by
  cases a with
  | nan => simp [isNaN] at ha
  | inf s => cases b with
    | nan => simp [isNaN] at hb
    | inf t => cases s <;> cases t <;> simp [goMax, Spec.max2, lt, gt, cmpReal, isNaN, isZero]
    | fin t m e => cases s <;> simp [goMax, Spec.max2, lt, gt, cmpReal, isNaN, isZero]
  | fin s m e => cases b with
    | nan => simp [isNaN] at hb
    | inf t => cases t <;> simp [goMax, Spec.max2, lt, gt, cmpReal, isNaN, isZero]
    | fin t n f => exact goMax_fin s t m n e f

theorem goMin_eq (a b : FV) (ha : isNaN a = false) (hb : isNaN b = false) : goMin a b = Spec.min2 a b := by
  cases a with
  | nan => simp [isNaN] at ha
  | inf s => cases b with
    | nan => simp [isNaN] at hb
    | inf t => cases s <;> cases t <;> simp [goMin, Spec.min2, lt, cmpReal, isNaN, isZero]
    | fin t m e => cases s <;> simp [goMin, Spec.min2, lt, cmpReal, isNaN, isZero]
  | fin s m e => cases b with
    | nan => simp [isNaN] at hb
    | inf t => cases t <;> simp [goMin, Spec.min2, lt, cmpReal, isNaN, isZero]
    | fin t n f => exact goMin_fin s t m n e f

theorem max2_cases (a b : FV) : Spec.max2 a b = a ∨ Spec.max2 a b = b := by
  unfold Spec.max2
  by_cases h1 : lt a b = true <;> by_cases h2 : lt b a = true <;> by_cases h3 : (isZero a && isZero b) = true <;>
    by_cases h4 : signBit a = true <;> simp [h1, h2, h3, h4]
theorem min2_cases (a b : FV) : Spec.min2 a b = a ∨ Spec.min2 a b = b := by
  unfold Spec.min2
  by_cases h1 : lt a b = true <;> by_cases h2 : lt b a = true <;> by_cases h3 : (isZero a && isZero b) = true <;>
    by_cases h4 : signBit a = true <;> simp [h1, h2, h3, h4]

theorem foldFlag_flag (op : FV → FV → FV) :
    ∀ (l : List FV) (r : FV) (n : Bool), (foldFlag op r n l).2 = (n || l.any isNaN) := by
  intro l
  induction l with
  | nil => intro r n; simp [foldFlag]
  | cons v rest ih => intro r n; simp only [foldFlag, ih, List.any_cons, Bool.or_assoc]

theorem foldFlag_val (op spec2 : FV → FV → FV)
    (hop : ∀ a b, isNaN a = false → isNaN b = false → op a b = spec2 a b)
    (hc : ∀ a b, spec2 a b = a ∨ spec2 a b = b) :
    ∀ (l : List FV) (r : FV) (n : Bool), isNaN r = false → l.any isNaN = false →
      (foldFlag op r n l).1 = l.foldl spec2 r := by
  intro l
  induction l with
  | nil => intro r n _ _; simp [foldFlag]
  | cons v rest ih =>
    intro r n hr hl
    simp only [List.any_cons, Bool.or_eq_false_iff] at hl
    have hn : isNaN (spec2 r v) = false := by
      rcases hc r v with h | h
      · rw [h]; exact hr
      · rw [h]; exact hl.1
    simp only [foldFlag, List.foldl_cons]
    rw [hop r v hr hl.1, ih _ _ hn hl.2]

theorem isNaN_eq (a : FV) (h : isNaN a = true) : a = .nan := by
  cases a <;> simp [isNaN] at h ⊢

theorem max2_negInf (a : FV) (h : isNaN a = false) : Spec.max2 (.inf true) a = a := by
  cases a with
  | nan => simp [isNaN] at h
  | inf s => cases s <;> simp [Spec.max2, lt, cmpReal, isZero]
  | fin s m e => simp [Spec.max2, lt, cmpReal, isZero]

theorem min2_posInf (a : FV) (h : isNaN a = false) : Spec.min2 (.inf false) a = a := by
  cases a with
  | nan => simp [isNaN] at h
  | inf s => cases s <;> simp [Spec.min2, lt, cmpReal, isZero]
  | fin s m e => simp [Spec.min2, lt, cmpReal, isZero]

theorem alignInt_sign (s : Bool) (m : Nat) (e k : Int) (hm : m ≠ 0) :
    (s = false → 0 < alignInt s m e k) ∧ (s = true → alignInt s m e k < 0) := by
  have hp : 0 < m * 2 ^ (e - k).toNat := Nat.mul_pos (Nat.pos_of_ne_zero hm) (Nat.pow_pos (by decide))
  have hp' : (0 : Int) < ((m * 2 ^ (e - k).toNat : Nat) : Int) := by omega
  simp only [alignInt]
  generalize ((m * 2 ^ (e - k).toNat : Nat) : Int) = v at *
  cases s <;> simp <;> omega

@[simp] theorem lt_zero_fin (s : Bool) (m : Nat) (e : Int) : lt (.fin false 0 0) (.fin s m e) = (!s && decide (m ≠ 0)) := by
  simp only [lt_fin, alignInt_zero]
  by_cases hm : m = 0
  · subst hm; simp [alignInt_zero]
  · have := alignInt_sign s m e (if (0:Int) ≤ e then 0 else e) hm
    cases s <;> simp [hm] <;> simp at this <;> omega

@[simp] theorem lt_fin_zero (s : Bool) (m : Nat) (e : Int) : lt (.fin s m e) (.fin false 0 0) = (s && decide (m ≠ 0)) := by
  simp only [lt_fin, alignInt_zero]
  by_cases hm : m = 0
  · subst hm; simp [alignInt_zero]
  · have := alignInt_sign s m e (if e ≤ (0:Int) then e else 0) hm
    cases s <;> simp [hm] <;> simp at this <;> omega

@[simp] theorem le_zero_inf (s : Bool) : le (.fin false 0 0) (.inf s) = !s := by
  cases s <;> simp [le, cmpReal]

@[simp] theorem le_zero_fin (s : Bool) (m : Nat) (e : Int) : le (.fin false 0 0) (.fin s m e) = (!s || decide (m = 0)) := by
  have h1 := lt_zero_fin s m e
  have h2 : eqNum (.fin false 0 0) (.fin s m e) = decide (m = 0) := by
    simp only [eqNum_fin, alignInt_zero]
    by_cases hm : m = 0
    · subst hm; simp [alignInt_zero]
    · have := alignInt_sign s m e (if (0:Int) ≤ e then 0 else e) hm
      cases s <;> simp [hm] <;> simp at this <;> omega
  simp only [le, lt, eqNum] at *
  rw [h1, h2]; cases s <;> by_cases hm : m = 0 <;> simp [hm]


theorem abs_gt_one (s : Bool) (m : Nat) (e : Int) :
    gt (abs (.fin s m e)) one = (Spec.gtOne (.fin s m e) || Spec.ltNegOne (.fin s m e)) := by
  simp only [gt, abs, one, negOne, Spec.gtOne, Spec.ltNegOne, lt_fin, min_comm' e 0]
  generalize (if e ≤ 0 then e else 0) = k
  cases s <;> simp only [alignInt, Bool.false_eq_true, if_false, if_true] <;>
    generalize (1 * 2 ^ ((0:Int) - k).toNat : Nat) = A <;>
    generalize (m * 2 ^ (e - k).toNat : Nat) = M <;>
    by_cases h1 : (A : Int) < (M : Int) <;> simp [h1] <;> omega

theorem one_cmp_zero (s : Bool) (e : Int) :
    Spec.gtOne (.fin s 0 e) = false ∧ Spec.ltNegOne (.fin s 0 e) = false ∧ eqNum (.fin s 0 e) one = false := by
  simp only [one, negOne, Spec.gtOne, Spec.ltNegOne, lt_fin, eqNum_fin, alignInt_zero]
  have h1 := alignInt_sign false 1 0 (if (0:Int) ≤ e then 0 else e) (by decide)
  have h2 := alignInt_sign true 1 0 (if e ≤ (0:Int) then e else 0) (by decide)
  have h3 := alignInt_sign false 1 0 (if e ≤ (0:Int) then e else 0) (by decide)
  simp at h1 h2 h3
  refine ⟨?_, ?_, ?_⟩ <;> simp <;> omega

theorem eq_one_not_far (s : Bool) (m : Nat) (e : Int) (h : eqNum (.fin s m e) one = true) :
    Spec.gtOne (.fin s m e) = false ∧ Spec.ltNegOne (.fin s m e) = false ∧ s = false ∧ m ≠ 0 := by
  by_cases hm : m = 0
  · subst hm; have := (one_cmp_zero s e).2.2; rw [this] at h; simp at h
  simp only [one, negOne, Spec.gtOne, Spec.ltNegOne, lt_fin, eqNum_fin, min_comm' e 0] at h ⊢
  generalize (if e ≤ 0 then e else 0) = k at h ⊢
  have hA : 0 < (1 * 2 ^ ((0:Int) - k).toNat : Nat) := Nat.mul_pos (by decide) (Nat.pow_pos (by decide))
  have hM : 0 < (m * 2 ^ (e - k).toNat : Nat) := Nat.mul_pos (Nat.pos_of_ne_zero hm) (Nat.pow_pos (by decide))
  cases s <;> simp only [alignInt, Bool.false_eq_true, if_false, if_true] at h ⊢ <;>
    generalize (1 * 2 ^ ((0:Int) - k).toNat : Nat) = A at * <;>
    generalize (m * 2 ^ (e - k).toNat : Nat) = M at * <;>
    simp at h ⊢ <;> omega


def IsDouble : FV → Prop
  | .fin _ m _ => m < 2^53
  | _ => True

theorem le_fin (s t : Bool) (m n : Nat) (e f : Int) :
    le (.fin s m e) (.fin t n f) = decide (alignInt s m e (if e ≤ f then e else f) ≤ alignInt t n f (if e ≤ f then e else f)) := by
  have h1 := lt_fin s t m n e f
  have h2 := eqNum_fin s t m n e f
  simp only [le, lt, eqNum] at *
  rw [h1, h2]
  generalize alignInt s m e (if e ≤ f then e else f) = A
  generalize alignInt t n f (if e ≤ f then e else f) = B
  by_cases h : A < B <;> by_cases h' : A = B <;> simp [h, h'] <;> omega

theorem isOddInt_eq (s : Bool) (m : Nat) (e : Int) (hm : m < 2^53) :
    isOddInt (.fin s m e) = Spec.isOddInteger (.fin s m e) := by
  simp only [isOddInt, Spec.isOddInteger, le_fin, alignInt, Bool.false_eq_true, if_false, isIntegral, truncAbs]
  by_cases he : e ≥ 0
  · have hk : (if (0:Int) ≤ e then 0 else e) = 0 := by simp [he]
    simp only [hk, he, if_true, Int.sub_zero, Int.toNat_zero, Nat.pow_zero, Nat.mul_one, Bool.true_and]
    by_cases hbig : ((2^53 : Nat) : Int) ≤ ((m * 2 ^ e.toNat : Nat) : Int)
    · simp only [hbig, decide_true, if_true]
      cases hn : e.toNat with
      | zero => rw [hn] at hbig; simp at hbig; omega
      | succ n =>
        have : m * 2 ^ (n + 1) = 2 * (m * 2 ^ n) := by rw [Nat.pow_succ]; ac_rfl
        rw [this]; simp
    · simp only [hbig, decide_false, Bool.false_eq_true, if_false]
  · have hk : (if (0:Int) ≤ e then 0 else e) = e := by simp; omega
    have he' : ¬ (0 ≤ e) := by omega
    simp only [hk, he, he', if_false, Int.sub_self, Int.toNat_zero, Nat.pow_zero, Nat.mul_one]
    have hp : 1 ≤ 2 ^ ((0:Int) - e).toNat := Nat.pow_pos (by decide)
    have : ¬ (((2^53 * 2 ^ ((0:Int) - e).toNat : Nat) : Int) ≤ ((m : Nat) : Int)) := by
      have : 2^53 * 1 ≤ 2^53 * 2 ^ ((0:Int) - e).toNat := Nat.mul_le_mul_left _ hp
      omega
    simp only [this, decide_false, Bool.false_eq_true, if_false]

@[simp] theorem eqNum_nan_l (x : FV) : eqNum .nan x = false := by simp [eqNum, cmpReal]
@[simp] theorem eqNum_nan_r (x : FV) : eqNum x .nan = false := by cases x <;> simp [eqNum, cmpReal]
@[simp] theorem eqNum_inf_fin (s t : Bool) (m : Nat) (e : Int) : eqNum (.inf s) (.fin t m e) = false := by
  cases s <;> simp [eqNum, cmpReal]
@[simp] theorem eqNum_fin_inf (s t : Bool) (m : Nat) (e : Int) : eqNum (.fin t m e) (.inf s) = false := by
  cases s <;> simp [eqNum, cmpReal]


/-! ## strings -/

theorem hexUpper_facts : ∀ n, n < 16 → hexUpper n ≠ 117 ∧ hexUpper n ≠ 37 ∧ isHex (hexUpper n) = true ∧ unhex (hexUpper n) = n ∧ hexUpper n = Spec.hexChar n ∧ Spec.hexDigit? (hexUpper n) = some n := by
  decide

theorem unescapeAux_pct (k b : Nat) (hb : b < 256) (rest : List Nat) :
    unescapeAux (k + 1) (pct b ++ rest) = b :: unescapeAux k rest := by
  have h1 := hexUpper_facts (b / 16) (by omega)
  have h2 := hexUpper_facts (b % 16) (by omega)
  simp only [pct, List.cons_append, List.nil_append]
  rw [unescapeAux.eq_4 _ _ _ _ (by intro _ _ _ _ h; exact absurd h h1.1)]
  simp only [h1.2.2.1, h2.2.2.1, h1.2.2.2.1, h2.2.2.2.1, and_self, if_true]
  congr 1; omega

theorem unescapeAux_pctU (k u : Nat) (hu : u < 65536) (rest : List Nat) :
    unescapeAux (k + 1) (pctU u ++ rest) = u :: unescapeAux k rest := by
  have h1 := hexUpper_facts (u / 4096) (by omega)
  have h2 := hexUpper_facts ((u / 256) % 16) (by omega)
  have h3 := hexUpper_facts ((u / 16) % 16) (by omega)
  have h4 := hexUpper_facts (u % 16) (by omega)
  simp only [pctU, List.cons_append, List.nil_append]
  rw [unescapeAux.eq_3]
  simp only [h1.2.2.1, h2.2.2.1, h3.2.2.1, h4.2.2.1, h1.2.2.2.1, h2.2.2.2.1, h3.2.2.2.1, h4.2.2.2.1, and_self, if_true]
  congr 1; omega

theorem unescapeAux_plain (k c : Nat) (hc : c ≠ 37) (hlt : c < 128) (rest : List Nat) :
    unescapeAux (k + 1) (c :: rest) = c :: unescapeAux k rest := by
  rw [unescapeAux.eq_5]
  · have hn : ¬((0xD800 ≤ c ∧ c ≤ 0xDFFF) ∨ c > 0x10FFFF) := by omega
    simp [decodeRune, hlt, utf16Encode, if_neg hn]
    rw [if_pos (by omega)]; rfl
  · intro a b c d r h _; exact hc h
  · intro a b r h _; exact hc h

/-- well-formed scalar values of the Basic Multilingual Plane -/
def BMP (r : Nat) : Prop := r < 0x10000 ∧ ¬(0xD800 ≤ r ∧ r ≤ 0xDFFF)
def Scalar (r : Nat) : Prop := r ≤ 0x10FFFF ∧ ¬(0xD800 ≤ r ∧ r ≤ 0xDFFF)

theorem encodeRune_eq (r : Nat) (hr : Scalar r) : encodeRune r = Spec.utf8Octets r := by
  obtain ⟨h1, h2⟩ := hr
  have hn : ¬((0xD800 ≤ r ∧ r ≤ 0xDFFF) ∨ r > 0x10FFFF) := by omega
  simp only [encodeRune, Spec.utf8Octets, if_neg hn]

theorem decodeRune_encodeRune (r : Nat) (hr : Scalar r) (rest : List Nat) :
    decodeRune (encodeRune r ++ rest) = some (r, (encodeRune r).length) := by
  rw [encodeRune_eq r hr]
  obtain ⟨h1, h2⟩ := hr
  unfold Spec.utf8Octets
  by_cases c1 : r < 0x80
  · simp [c1, decodeRune]
  · by_cases c2 : r < 0x800
    · simp only [c1, c2, if_true, if_false, List.cons_append, List.nil_append, decodeRune, isCont]
      rw [if_neg (by omega), if_neg (by omega), if_pos (by omega)]
      simp
      rw [if_pos (by omega)]
      simp; omega
    · by_cases c3 : r < 0x10000
      · simp only [c1, c2, c3, if_true, if_false, List.cons_append, List.nil_append, decodeRune, isCont]
        rw [if_neg (by omega), if_neg (by omega), if_neg (by omega), if_pos (by omega)]
        simp only [decide_eq_true_eq, Bool.decide_and, Bool.and_eq_true]
        rw [if_pos]
        · simp; omega
        · refine ⟨?_, ?_, ?_, ?_⟩ <;> (try split) <;> omega
      · simp only [c1, c2, c3, if_true, if_false, List.cons_append, List.nil_append, decodeRune, isCont]
        rw [if_neg (by omega), if_neg (by omega), if_neg (by omega), if_neg (by omega), if_pos (by omega)]
        simp only [decide_eq_true_eq, Bool.decide_and, Bool.and_eq_true]
        rw [if_pos]
        · simp; omega
        · refine ⟨?_, ?_, ⟨?_, ?_⟩, ?_, ?_⟩ <;> (try split) <;> omega

theorem encodeRune_shape (r : Nat) (hr : Scalar r) :
    ∃ c t, encodeRune r = c :: t ∧ (r < 128 → c = r ∧ t = []) ∧ (128 ≤ r → 128 ≤ c) := by
  rw [encodeRune_eq r hr]
  unfold Spec.utf8Octets
  by_cases c1 : r < 0x80
  · exact ⟨r, [], by simp [c1], fun _ => ⟨rfl, rfl⟩, fun h => by omega⟩
  · by_cases c2 : r < 0x800
    · exact ⟨0xC0 + r / 64, [0x80 + r % 64], by simp only [c1, c2, if_true, if_false], fun h => by omega, fun _ => by omega⟩
    · by_cases c3 : r < 0x10000
      · exact ⟨0xE0 + r / 4096, [0x80 + (r / 64) % 64, 0x80 + r % 64], by simp only [c1, c2, c3, if_true, if_false], fun h => by omega, fun _ => by omega⟩
      · exact ⟨0xF0 + r / 262144, [0x80 + (r / 4096) % 64, 0x80 + (r / 64) % 64, 0x80 + r % 64], by simp only [c1, c2, c3, if_true, if_false], fun h => by omega, fun _ => by omega⟩

theorem shouldEscape_high (c : Nat) (h : 128 ≤ c) : shouldEscape c = true := by
  simp [shouldEscape, isAlnum]; omega

theorem utf16Encode_one (r : Nat) (hr : Scalar r) :
    utf16Encode [r] = if r < 0x10000 then [r] else [0xD800 + (r - 0x10000) / 1024, 0xDC00 + (r - 0x10000) % 1024] := by
  obtain ⟨h1, h2⟩ := hr
  have hn : ¬((0xD800 ≤ r ∧ r ≤ 0xDFFF) ∨ r > 0x10FFFF) := by omega
  simp [utf16Encode, if_neg hn]

theorem utf16Encode_cons (r : Nat) (rs : List Nat) : utf16Encode (r :: rs) = utf16Encode [r] ++ utf16Encode rs := by
  simp [utf16Encode]

theorem utf16Decode_cons_bmp (u : Nat) (hu : ¬(0xD800 ≤ u ∧ u ≤ 0xDFFF)) (rest : List Nat) :
    utf16Decode (u :: rest) = u :: utf16Decode rest := by
  cases rest with
  | nil => simp [utf16Decode]; omega
  | cons v rest' =>
    rw [utf16Decode]
    rw [if_neg (by omega), if_neg (by omega)]

theorem utf16Decode_encode (rs : List Nat) (h : ∀ r ∈ rs, Scalar r) : utf16Decode (utf16Encode rs) = rs := by
  induction rs with
  | nil => simp [utf16Encode, utf16Decode]
  | cons r rs ih =>
    have hs := h r (by simp)
    have ih' := ih (fun x hx => h x (by simp [hx]))
    rw [utf16Encode_cons, utf16Encode_one r hs]
    obtain ⟨h1, h2⟩ := hs
    by_cases hb : r < 0x10000
    · simp only [hb, if_true, List.cons_append, List.nil_append]
      rw [utf16Decode_cons_bmp r h2, ih']
    · simp only [hb, if_false, List.cons_append, List.nil_append]
      rw [utf16Decode, if_pos (by omega), ih']
      congr 1; omega

theorem hasLone_cons_bmp (u : Nat) (hu : ¬(0xD800 ≤ u ∧ u ≤ 0xDFFF)) (rest : List Nat) :
    hasLone (u :: rest) = hasLone rest := by
  cases rest with
  | nil => simp [hasLone]; omega
  | cons v rest' => rw [hasLone, if_neg (by omega), if_neg (by omega)]

theorem hasLone_encode (rs : List Nat) (h : ∀ r ∈ rs, Scalar r) : hasLone (utf16Encode rs) = false := by
  induction rs with
  | nil => simp [utf16Encode, hasLone]
  | cons r rs ih =>
    have hs := h r (by simp)
    have ih' := ih (fun x hx => h x (by simp [hx]))
    rw [utf16Encode_cons, utf16Encode_one r hs]
    obtain ⟨h1, h2⟩ := hs
    by_cases hb : r < 0x10000
    · simp only [hb, if_true, List.cons_append, List.nil_append]
      rw [hasLone_cons_bmp r h2, ih']
    · simp only [hb, if_false, List.cons_append, List.nil_append]
      rw [hasLone, if_pos (by omega), ih']

theorem escape_unescape_units (rs : List Nat) (h : ∀ r ∈ rs, Scalar r) :
    ∀ m n, (encodeRunes rs).length ≤ m → (escapeAux m (encodeRunes rs)).length ≤ n →
      unescapeAux n (escapeAux m (encodeRunes rs)) = utf16Encode rs := by
  induction rs with
  | nil => intro m n _ _; cases m <;> cases n <;> simp [encodeRunes, escapeAux, unescapeAux, utf16Encode]
  | cons r rs ih =>
    intro m n hm hn
    have hs : Scalar r := h r (by simp)
    have ih' := ih (fun x hx => h x (by simp [hx]))
    have henc : encodeRunes (r :: rs) = encodeRune r ++ encodeRunes rs := by simp [encodeRunes]
    rw [henc] at hm hn ⊢
    obtain ⟨c, t, hct, hlow, hhigh⟩ := encodeRune_shape r hs
    have hdec := decodeRune_encodeRune r hs (encodeRunes rs)
    rw [hct] at hm hn hdec ⊢
    rw [utf16Encode_cons]
    cases m with
    | zero => simp at hm
    | succ k =>
      have hk : (encodeRunes rs).length ≤ k := by simp at hm; omega
      simp only [List.cons_append, escapeAux] at hn ⊢
      by_cases hse : shouldEscape c = true
      · simp only [hse, if_true, List.cons_append] at hdec hn ⊢
        rw [hdec] at hn ⊢
        simp only [List.drop_succ_cons, List.length_cons] at hn ⊢
        have hdrop : (t ++ encodeRunes rs).drop t.length = encodeRunes rs := by simp
        rw [hdrop] at hn ⊢
        simp only [escapeRune, utf16Encode_one r hs] at hn ⊢
        obtain ⟨h1, h2⟩ := hs
        by_cases hb : r < 0x10000
        · simp only [hb, if_true, List.flatMap_cons, List.flatMap_nil, List.append_nil] at hn ⊢
          by_cases h256 : r < 256
          · simp only [h256, if_true] at hn ⊢
            cases n with
            | zero => simp [pct] at hn
            | succ j =>
              rw [unescapeAux_pct j r h256, ih' k j hk (by simp [pct] at hn; omega)]; rfl
          · simp only [h256, if_false] at hn ⊢
            cases n with
            | zero => simp [pctU] at hn
            | succ j =>
              rw [unescapeAux_pctU j r hb, ih' k j hk (by simp [pctU] at hn; omega)]; rfl
        · simp only [hb, if_false, List.flatMap_cons, List.flatMap_nil, List.append_nil] at hn ⊢
          have hhi : ¬(0xD800 + (r - 0x10000) / 1024 < 256) := by omega
          have hlo : ¬(0xDC00 + (r - 0x10000) % 1024 < 256) := by omega
          simp only [hhi, hlo, if_false, List.append_assoc] at hn ⊢
          cases n with
          | zero => simp [pctU] at hn
          | succ j =>
            cases j with
            | zero => simp [pctU] at hn
            | succ i =>
              rw [unescapeAux_pctU (i + 1) _ (by omega), unescapeAux_pctU i _ (by omega),
                ih' k i hk (by simp [pctU] at hn; omega)]; rfl
      · have hlt : r < 128 := by
          by_cases hlt : r < 128
          · exact hlt
          · exact absurd (shouldEscape_high c (hhigh (by omega))) hse
        obtain ⟨hc, ht⟩ := hlow hlt
        subst hc; subst ht
        simp only [hse, Bool.false_eq_true, if_false, List.nil_append] at hn ⊢
        have hne : c ≠ 37 := by intro h37; subst h37; exact hse (by decide)
        rw [utf16Encode_one c hs, if_pos (by omega)]
        cases n with
        | zero => simp at hn
        | succ j =>
          rw [unescapeAux_plain j c hne hlt, ih' k j hk (by simp at hn; omega)]; rfl
theorem pct_eq (b : Nat) (hb : b < 256) : pct b = Spec.pctOctet b := by
  have h1 := hexUpper_facts (b / 16) (by omega)
  have h2 := hexUpper_facts (b % 16) (by omega)
  simp [pct, Spec.pctOctet, h1.2.2.2.2.1, h2.2.2.2.2.1]

theorem queryEscape_high (bs : List Nat) (h : ∀ b ∈ bs, 128 ≤ b) : queryEscape bs = bs.flatMap pct := by
  induction bs with
  | nil => rfl
  | cons b t ih =>
    have hb := h b (by simp)
    have : urlShouldEscape b = true := by simp [urlShouldEscape, isAlnum]; omega
    simp only [queryEscape, List.flatMap_cons] at ih ⊢
    rw [ih (fun x hx => h x (by simp [hx]))]
    simp [this]; omega

theorem flatMap_congr' {f g : Nat → List Nat} : ∀ (l : List Nat), (∀ b ∈ l, f b = g b) → l.flatMap f = l.flatMap g := by
  intro l
  induction l with
  | nil => intro _; rfl
  | cons a t ih =>
    intro h
    simp only [List.flatMap_cons]
    rw [h a (by simp), ih (fun b hb => h b (by simp [hb]))]

theorem utf8Octets_high (r : Nat) (hr : Scalar r) (h : 128 ≤ r) : ∀ b ∈ Spec.utf8Octets r, 128 ≤ b ∧ b < 256 := by
  obtain ⟨h1, h2⟩ := hr
  unfold Spec.utf8Octets
  have c1 : ¬ r < 0x80 := by omega
  by_cases c2 : r < 0x800
  · simp only [c1, c2, if_true, if_false]; intro b hb; simp at hb; omega
  · by_cases c3 : r < 0x10000
    · simp only [c1, c2, c3, if_true, if_false]; intro b hb; simp at hb; omega
    · simp only [c1, c2, c3, if_true, if_false]; intro b hb; simp at hb; omega


theorem qu_plain (c : Nat) (h37 : c ≠ 37) (h43 : c ≠ 43) (rest : List Nat) :
    queryUnescape (c :: rest) = (queryUnescape rest).map (c :: ·) := by
  rw [queryUnescape.eq_4]
  · intro a b r h _; exact h37 h
  · intro h; exact h37 h
  · intro h; exact h43 h

theorem qu_pct (b : Nat) (hb : b < 256) (rest : List Nat) :
    queryUnescape (pct b ++ rest) = (queryUnescape rest).map (b :: ·) := by
  have h1 := hexUpper_facts (b / 16) (by omega)
  have h2 := hexUpper_facts (b % 16) (by omega)
  simp only [pct, List.cons_append, List.nil_append]
  rw [queryUnescape.eq_1]
  simp only [h1.2.2.1, h2.2.2.1, h1.2.2.2.1, h2.2.2.2.1, and_self, if_true]
  have : b / 16 * 16 + b % 16 = b := by omega
  rw [this]

theorem hexUpper_ne43 : ∀ n, n < 16 → hexUpper n ≠ 43 := by decide

theorem plusHack_pct (b : Nat) (hb : b < 256) : plusHack (pct b) = pct b := by
  have h1 := hexUpper_ne43 (b / 16) (by omega)
  have h2 := hexUpper_ne43 (b % 16) (by omega)
  simp [plusHack, pct, h1, h2]

theorem plusHack_append (a b : List Nat) : plusHack (a ++ b) = plusHack a ++ plusHack b := by
  simp [plusHack, List.flatMap_append]

theorem plusHack_pcts (bs : List Nat) (h : ∀ b ∈ bs, b < 256) : plusHack (bs.flatMap pct) = bs.flatMap pct := by
  induction bs with
  | nil => rfl
  | cons b t ih =>
    simp only [List.flatMap_cons, plusHack_append]
    rw [plusHack_pct b (h b (by simp)), ih (fun x hx => h x (by simp [hx]))]

theorem qu_pcts (bs : List Nat) (h : ∀ b ∈ bs, b < 256) (rest : List Nat) :
    queryUnescape (bs.flatMap pct ++ rest) = (queryUnescape rest).map (bs ++ ·) := by
  induction bs with
  | nil => simp
  | cons b t ih =>
    simp only [List.flatMap_cons, List.append_assoc]
    rw [qu_pct b (h b (by simp)), ih (fun x hx => h x (by simp [hx]))]
    cases queryUnescape rest <;> simp

set_option maxRecDepth 4000 in
theorem component_ascii : ∀ r, r < 128 →
    (replaceRune keepComponent r = [r] ∧ r ≠ 37 ∧ r ≠ 43) ∨ replaceRune keepComponent r = pct r := by
  decide

theorem component_rune (r : Nat) (hr : Scalar r) (rest : List Nat) :
    queryUnescape (plusHack (replaceRune keepComponent r) ++ rest) = (queryUnescape rest).map (encodeRune r ++ ·) := by
  by_cases hlt : r < 128
  · have henc : encodeRune r = [r] := by rw [encodeRune_eq r hr]; simp [Spec.utf8Octets, hlt]
    rcases component_ascii r hlt with ⟨h1, h37, h43⟩ | h1
    · rw [h1, henc]
      have : plusHack [r] = [r] := by simp [plusHack, h43]
      rw [this]; simp only [List.cons_append, List.nil_append]
      exact qu_plain r h37 h43 rest
    · rw [h1, henc, plusHack_pct r (by omega), qu_pct r (by omega)]
      simp
  · have hge : 128 ≤ r := by omega
    have hb := utf8Octets_high r hr hge
    have hk2 : keepComponent.contains r = false := by simp [keepComponent]; omega
    have h32 : r ≠ 32 := by omega
    have hq := queryEscape_high (Spec.utf8Octets r) (fun b hb' => (hb b hb').1)
    have hrep : replaceRune keepComponent r = (Spec.utf8Octets r).flatMap pct := by
      simp only [replaceRune, hk2, Bool.false_eq_true, if_false, h32, encodeRune_eq r hr, hq]
    rw [hrep, plusHack_pcts _ (fun b hb' => (hb b hb').2), qu_pcts _ (fun b hb' => (hb b hb').2), encodeRune_eq r hr]


end OttoVerif.C13.Thm
