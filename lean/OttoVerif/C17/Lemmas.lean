/-
  C17/Lemmas — helper lemmas for the cloner proofs: association lists, `refs`/`map` laws.
-/
import OttoVerif.C17.Spec
namespace OttoVerif.C17

theorem look_cons {α : Type} (a k : Addr) (v : α) (l : List (Addr × α)) :
    look a ((k, v) :: l) = if k = a then some v else look a l := rfl

theorem look_mem {α : Type} {a : Addr} {v : α} {l : List (Addr × α)} (h : look a l = some v) : (a, v) ∈ l := by
  induction l with
  | nil => simp [look] at h
  | cons kv rest ih =>
    obtain ⟨k, w⟩ := kv
    rw [look_cons] at h
    by_cases hk : k = a
    · simp [hk] at h; subst hk; subst h; simp
    · simp [hk] at h; exact List.mem_cons_of_mem _ (ih h)

/-! ### `refs` of a mapped node -/

theorem optRefs_map (f : Addr → Addr) (o : Option Addr) : optRefs (optMap f o) = (optRefs o).map f := by
  cases o <;> rfl

theorem Val.refs_map (f : Addr → Addr) (v : Val) : (v.map f).refs = v.refs.map f := by
  cases v <;> rfl

theorem valsRefs_map (f : Addr → Addr) (vs : List Val) : valsRefs (valsMap f vs) = (valsRefs vs).map f := by
  induction vs with
  | nil => rfl
  | cons v vs ih => simp [valsRefs, valsMap, Val.refs_map, ih]

theorem PVal.refs_map (f : Addr → Addr) (p : PVal) : (p.map f).refs = p.refs.map f := by
  cases p <;> simp [PVal.map, PVal.refs, Val.refs_map, optRefs_map]

theorem propsRefs_map (f : Addr → Addr) (ps : List PropE) : propsRefs (propsMap f ps) = (propsRefs ps).map f := by
  induction ps with
  | nil => rfl
  | cons p ps ih => simp [propsRefs, propsMap, PVal.refs_map, ih]

theorem Payload.refs_map (f : Addr → Addr) (p : Payload) : (p.map f).refs = p.refs.map f := by
  cases p <;> simp [Payload.map, Payload.refs, Val.refs_map, valsRefs_map, optRefs_map]

theorem bindingsRefs_map (f : Addr → Addr) (bs : List Binding) : bindingsRefs (bindingsMap f bs) = (bindingsRefs bs).map f := by
  induction bs with
  | nil => rfl
  | cons b bs ih => simp [bindingsRefs, bindingsMap, Val.refs_map, ih]

/-- the clone of a node refers exactly to the clones of what the node refers to, in order -/
theorem Node.refs_map (r : Nat) (f : Addr → Addr) (n : Node) : (n.map r f).refs = n.refs.map f := by
  cases n <;>
    simp [Node.map, Node.refs, optRefs_map, propsRefs_map, Payload.refs_map, bindingsRefs_map]

/-! ### `map` depends only on the values of `f` at the node's references -/

theorem optMap_congr {f g : Addr → Addr} (o : Option Addr) (h : ∀ c ∈ optRefs o, f c = g c) : optMap f o = optMap g o := by
  cases o with
  | none => rfl
  | some a => simp [optMap, h a (by simp [optRefs])]

theorem Val.map_congr {f g : Addr → Addr} (v : Val) (h : ∀ c ∈ v.refs, f c = g c) : v.map f = v.map g := by
  cases v with
  | prim p => rfl
  | ref a => simp [Val.map, h a (by simp [Val.refs])]

theorem valsMap_congr {f g : Addr → Addr} (vs : List Val) (h : ∀ c ∈ valsRefs vs, f c = g c) : valsMap f vs = valsMap g vs := by
  induction vs with
  | nil => rfl
  | cons v vs ih =>
    simp only [valsMap]
    rw [Val.map_congr v (fun c hc => h c (by simp [valsRefs, hc])), ih (fun c hc => h c (by simp [valsRefs, hc]))]

theorem PVal.map_congr {f g : Addr → Addr} (p : PVal) (h : ∀ c ∈ p.refs, f c = g c) : p.map f = p.map g := by
  cases p with
  | data v => simp only [PVal.map]; rw [Val.map_congr v h]
  | acc a b =>
    simp only [PVal.map]
    rw [optMap_congr a (fun c hc => h c (by simp [PVal.refs, hc])), optMap_congr b (fun c hc => h c (by simp [PVal.refs, hc]))]
  | bad => rfl

theorem propsMap_congr {f g : Addr → Addr} (ps : List PropE) (h : ∀ c ∈ propsRefs ps, f c = g c) : propsMap f ps = propsMap g ps := by
  induction ps with
  | nil => rfl
  | cons p ps ih =>
    simp only [propsMap]
    rw [PVal.map_congr p.val (fun c hc => h c (by simp [propsRefs, hc])), ih (fun c hc => h c (by simp [propsRefs, hc]))]

theorem Payload.map_congr {f g : Addr → Addr} (p : Payload) (h : ∀ c ∈ p.refs, f c = g c) : p.map f = p.map g := by
  cases p with
  | other t => rfl
  | native i => rfl
  | bound t th as =>
    simp only [Payload.map]
    rw [h t (by simp [Payload.refs]), Val.map_congr th (fun c hc => h c (by simp [Payload.refs, hc])),
      valsMap_congr as (fun c hc => h c (by simp [Payload.refs, hc]))]
  | nodeFn n s => simp only [Payload.map]; rw [optMap_congr s h]
  | arguments ns s => simp only [Payload.map]; rw [optMap_congr s h]

theorem bindingsMap_congr {f g : Addr → Addr} (bs : List Binding) (h : ∀ c ∈ bindingsRefs bs, f c = g c) : bindingsMap f bs = bindingsMap g bs := by
  induction bs with
  | nil => rfl
  | cons b bs ih =>
    simp only [bindingsMap]
    rw [Val.map_congr b.val (fun c hc => h c (by simp [bindingsRefs, hc])), ih (fun c hc => h c (by simp [bindingsRefs, hc]))]

theorem Node.map_congr (r : Nat) {f g : Addr → Addr} (n : Node) (h : ∀ c ∈ n.refs, f c = g c) : n.map r f = n.map r g := by
  cases n with
  | obj o =>
    simp only [Node.map]
    rw [optMap_congr o.proto (fun c hc => h c (by simp [Node.refs, hc])),
      propsMap_congr o.props (fun c hc => h c (by simp [Node.refs, hc])),
      Payload.map_congr o.payload (fun c hc => h c (by simp [Node.refs, hc]))]
  | dcl rt outer bs =>
    simp only [Node.map]
    rw [optMap_congr outer (fun c hc => h c (by simp [Node.refs, hc])),
      bindingsMap_congr bs (fun c hc => h c (by simp [Node.refs, hc]))]
  | fn rt outer bs args idx =>
    simp only [Node.map]
    rw [optMap_congr outer (fun c hc => h c (by simp [Node.refs, hc])),
      bindingsMap_congr bs (fun c hc => h c (by simp [Node.refs, hc])),
      optMap_congr args (fun c hc => h c (by simp [Node.refs, hc]))]
  | ost rt outer object =>
    simp only [Node.map]
    rw [optMap_congr outer (fun c hc => h c (by simp [Node.refs, hc])), h object (by simp [Node.refs])]

/-- renaming by the identity only re-targets the runtime back-pointer -/
theorem Node.map_map (r s : Nat) (f g : Addr → Addr) (n : Node) : (n.map r f).map s g = n.map s (g ∘ f) := by
  have ho : ∀ o : Option Addr, optMap g (optMap f o) = optMap (g ∘ f) o := by intro o; cases o <;> rfl
  have hv : ∀ v : Val, (v.map f).map g = v.map (g ∘ f) := by intro v; cases v <;> rfl
  have hvs : ∀ vs : List Val, valsMap g (valsMap f vs) = valsMap (g ∘ f) vs := by
    intro vs; induction vs with
    | nil => rfl
    | cons v vs ih => simp [valsMap, hv, ih]
  have hp : ∀ p : PVal, (p.map f).map g = p.map (g ∘ f) := by intro p; cases p <;> simp [PVal.map, hv, ho]
  have hps : ∀ ps : List PropE, propsMap g (propsMap f ps) = propsMap (g ∘ f) ps := by
    intro ps; induction ps with
    | nil => rfl
    | cons p ps ih => simp [propsMap, hp, ih]
  have hpl : ∀ p : Payload, (p.map f).map g = p.map (g ∘ f) := by intro p; cases p <;> simp [Payload.map, hv, hvs, ho]
  have hbs : ∀ bs : List Binding, bindingsMap g (bindingsMap f bs) = bindingsMap (g ∘ f) bs := by
    intro bs; induction bs with
    | nil => rfl
    | cons b bs ih => simp [bindingsMap, hv, ih]
  cases n <;> simp [Node.map, ho, hps, hpl, hbs]

/-! ### the cloner's invariant -/

/-- invariant of the cloner state -/
structure Inv (base : Addr) (st : St) : Prop where
  memoRange : ∀ x y, look x st.memo = some y → base ≤ y ∧ y < st.next
  outRange  : ∀ y n, look y st.out = some n → base ≤ y ∧ y < st.next
  inj       : ∀ x x' y, look x st.memo = some y → look x' st.memo = some y → x = x'
  sep       : ∀ y n, (y, n) ∈ st.out → base ≤ y ∧ ∀ c ∈ n.refs, base ≤ c
  refsLt    : ∀ y n, (y, n) ∈ st.out → ∀ c ∈ n.refs, c < st.next
  baseLe    : base ≤ st.next

/-- `st'` extends `st` -/
structure Ext (st st' : St) : Prop where
  memo  : ∀ x y, look x st.memo = some y → look x st'.memo = some y
  out   : ∀ y, y < st.next → look y st'.out = look y st.out
  next  : st.next ≤ st'.next
  fresh : ∀ x y, look x st'.memo = some y → look x st.memo = none → st.next ≤ y

theorem Ext.refl (st : St) : Ext st st := ⟨fun _ _ h => h, fun _ _ => rfl, Nat.le_refl _, fun x y h h' => by simp [h'] at h⟩

theorem Ext.trans {a b c : St} (h1 : Ext a b) (h2 : Ext b c) : Ext a c where
  memo := fun x y h => h2.memo x y (h1.memo x y h)
  out := fun y hy => by rw [h2.out y (Nat.lt_of_lt_of_le hy h1.next), h1.out y hy]
  next := Nat.le_trans h1.next h2.next
  fresh := fun x y h h' => by
    cases hb : look x b.memo with
    | none => exact Nat.le_trans h1.next (h2.fresh x y h hb)
    | some y' =>
      have := h2.memo x y' hb
      rw [h] at this
      cases this
      exact h1.fresh x y hb h'

/-- node `x` has been cloned completely: its clone is the image of the source node under the memo -/
def Done (r : Nat) (h : Heap) (st : St) (x : Addr) : Prop :=
  ∃ y n, look x st.memo = some y ∧ look x h = some n ∧ look y st.out = some (n.map r st.at) ∧
    ∀ c ∈ n.refs, look c st.memo ≠ none

theorem at_of_look {st : St} {x y : Addr} (h : look x st.memo = some y) : st.at x = y := by
  simp [St.at, h]

theorem Done.mono {r : Nat} {h : Heap} {base : Addr} {st st' : St} {x : Addr}
    (hi : Inv base st) (he : Ext st st') (hd : Done r h st x) : Done r h st' x := by
  obtain ⟨y, n, hm, hh, ho, hr⟩ := hd
  refine ⟨y, n, he.memo x y hm, hh, ?_, ?_⟩
  · rw [he.out y (hi.memoRange x y hm).2, ho]
    congr 1
    apply Node.map_congr
    intro c hc
    cases hcm : look c st.memo with
    | none => exact absurd hcm (hr c hc)
    | some z => rw [at_of_look hcm, at_of_look (he.memo c z hcm)]
  · intro c hc hn
    cases hcm : look c st.memo with
    | none => exact hr c hc hcm
    | some z => rw [he.memo c z hcm] at hn; cases hn

/-- what one call of the cloner guarantees -/
structure Post (r : Nat) (h : Heap) (base : Addr) (st st' : St) : Prop where
  inv  : Inv base st'
  ext  : Ext st st'
  done : ∀ x, look x st'.memo ≠ none → look x st.memo = none → Done r h st' x

theorem forRefs_post (r : Nat) (h : Heap) (base : Addr) (f : Addr → St → Res St)
    (hf : ∀ a st st', Inv base st → f a st = .ok st' → Post r h base st st' ∧ look a st'.memo ≠ none) :
    ∀ (as : List Addr) (st st' : St), Inv base st → forRefs f as st = .ok st' →
      Post r h base st st' ∧ ∀ c ∈ as, look c st'.memo ≠ none := by
  intro as
  induction as with
  | nil =>
    intro st st' hi hr
    simp [forRefs] at hr
    subst hr
    exact ⟨⟨hi, Ext.refl _, fun x h1 h2 => absurd h2 h1⟩, by simp⟩
  | cons a as ih =>
    intro st st' hi hr
    simp only [forRefs] at hr
    cases hfa : f a st with
    | panic => simp [hfa] at hr
    | fuel => simp [hfa] at hr
    | ok sm =>
      simp only [hfa] at hr
      obtain ⟨p1, ha⟩ := hf a st sm hi hfa
      obtain ⟨p2, has⟩ := ih sm st' p1.inv hr
      refine ⟨⟨p2.inv, p1.ext.trans p2.ext, ?_⟩, ?_⟩
      · intro x hx hxs
        cases hxm : look x sm.memo with
        | none => exact p2.done x hx hxm
        | some z => exact (p1.done x (by simp [hxm]) hxs).mono p1.inv p2.ext
      · intro c hc
        cases hc with
        | head =>
          cases hxm : look a sm.memo with
          | none => exact absurd hxm ha
          | some z => simp [p2.ext.memo a z hxm]
        | tail _ hc' => exact has c hc'

theorem cloneRef_post (r : Nat) (h : Heap) (base : Addr) :
    ∀ (fuel : Nat) (a : Addr) (st st' : St), Inv base st → cloneRef r h fuel a st = .ok st' →
      Post r h base st st' ∧ look a st'.memo ≠ none := by
  intro fuel
  induction fuel with
  | zero => intro a st st' _ hr; simp [cloneRef] at hr
  | succ fuel ih =>
    intro a st st' hi hr
    simp only [cloneRef] at hr
    cases hm : look a st.memo with
    | some b =>
      simp only [hm] at hr
      cases hr
      exact ⟨⟨hi, Ext.refl _, fun x h1 h2 => absurd h2 h1⟩, by simp [hm]⟩
    | none =>
      simp only [hm] at hr
      cases hh : look a h with
      | none => simp [hh] at hr
      | some n =>
        simp only [hh] at hr
        by_cases hp : n.panics = true
        · simp [hp] at hr
        · simp only [hp] at hr
          generalize hst1 : ({ memo := (a, st.next) :: st.memo, out := st.out, next := st.next + 1 } : St) = st1 at hr
          have hi1 : Inv base st1 := by
            subst hst1
            refine ⟨?_, ?_, ?_, hi.sep, fun y n hy c hc => Nat.lt_succ_of_lt (hi.refsLt y n hy c hc), Nat.le_succ_of_le hi.baseLe⟩
            · intro x y hxy
              simp only [look_cons] at hxy
              by_cases hax : a = x
              · simp [hax] at hxy; subst hxy; exact ⟨hi.baseLe, Nat.lt_succ_self _⟩
              · simp [hax] at hxy; have := hi.memoRange x y hxy; exact ⟨this.1, Nat.lt_succ_of_lt this.2⟩
            · intro y n' hy
              have := hi.outRange y n' hy
              exact ⟨this.1, Nat.lt_succ_of_lt this.2⟩
            · intro x x' y hx hx'
              simp only [look_cons] at hx hx'
              by_cases hax : a = x <;> by_cases hax' : a = x'
              · rw [← hax, ← hax']
              · rw [if_pos hax] at hx; rw [if_neg hax'] at hx'
                cases hx
                have := (hi.memoRange x' _ hx').2
                omega
              · rw [if_neg hax] at hx; rw [if_pos hax'] at hx'
                cases hx'
                have := (hi.memoRange x _ hx).2
                omega
              · rw [if_neg hax] at hx; rw [if_neg hax'] at hx'
                exact hi.inj x x' y hx hx'
          have he1 : Ext st st1 := by
            subst hst1
            refine ⟨?_, fun _ _ => rfl, Nat.le_succ _, ?_⟩
            · intro x y hxy
              simp only [look_cons]
              by_cases hax : a = x
              · subst hax; rw [hm] at hxy; cases hxy
              · simp [hax, hxy]
            · intro x y hxy hxn
              simp only [look_cons] at hxy
              by_cases hax : a = x
              · rw [if_pos hax] at hxy; cases hxy; exact Nat.le_refl _
              · rw [if_neg hax, hxn] at hxy; cases hxy
          cases hfr : forRefs (cloneRef r h fuel) n.refs st1 with
          | panic => simp [hfr] at hr
          | fuel => simp [hfr] at hr
          | ok st2 =>
            simp only [hfr] at hr
            cases hr
            obtain ⟨p2, hrefs⟩ := forRefs_post r h base (cloneRef r h fuel) ih n.refs st1 st2 hi1 hfr
            have hab : look a st2.memo = some st.next := p2.ext.memo a st.next (by subst hst1; simp [look_cons])
            have hnext : st.next < st2.next := by
              have := p2.ext.next; subst hst1; exact this
            have hrefsGe : ∀ c ∈ (n.map r st2.at).refs, base ≤ c := by
              intro c hc
              rw [Node.refs_map] at hc
              obtain ⟨c0, hc0, rfl⟩ := List.mem_map.mp hc
              cases hcm : look c0 st2.memo with
              | none => exact absurd hcm (hrefs c0 hc0)
              | some z => rw [at_of_look hcm]; exact (p2.inv.memoRange c0 z hcm).1
            have hrefsLt : ∀ c ∈ (n.map r st2.at).refs, c < st2.next := by
              intro c hc
              rw [Node.refs_map] at hc
              obtain ⟨c0, hc0, rfl⟩ := List.mem_map.mp hc
              cases hcm : look c0 st2.memo with
              | none => exact absurd hcm (hrefs c0 hc0)
              | some z => rw [at_of_look hcm]; exact (p2.inv.memoRange c0 z hcm).2
            have hrl : ∀ y n', (y, n') ∈ (st.next, n.map r st2.at) :: st2.out → ∀ c ∈ n'.refs, c < st2.next := by
              intro y n' hy
              cases hy with
              | head => exact hrefsLt
              | tail _ hy' => exact p2.inv.refsLt y n' hy'
            refine ⟨⟨⟨p2.inv.memoRange, ?_, p2.inv.inj, ?_, hrl, p2.inv.baseLe⟩, ⟨?_, ?_, ?_, ?_⟩, ?_⟩, by simp [hab]⟩
            · -- outRange
              intro y n' hy
              simp only [look_cons] at hy
              by_cases hby : st.next = y
              · subst hby; exact ⟨hi.baseLe, hnext⟩
              · simp [hby] at hy; exact p2.inv.outRange y n' hy
            · -- sep
              intro y n' hy
              cases hy with
              | head => exact ⟨hi.baseLe, hrefsGe⟩
              | tail _ hy' => exact p2.inv.sep y n' hy'
            · intro x y hxy; exact p2.ext.memo x y (he1.memo x y hxy)
            · intro y hy
              simp only [look_cons]
              have : st.next ≠ y := by omega
              simp only [this, if_false]
              have hy1 : y < st1.next := by subst hst1; exact Nat.lt_succ_of_lt hy
              rw [p2.ext.out y hy1]
              subst hst1; rfl
            · exact Nat.le_of_lt hnext
            · intro x y hxy hxn
              exact (he1.trans p2.ext).fresh x y hxy hxn
            · -- done
              intro x hx hxs
              by_cases hax : a = x
              · subst hax
                exact ⟨st.next, n, hab, hh, by simp only [look_cons, if_pos]; rfl, hrefs⟩
              · have hx1 : look x st1.memo = none := by subst hst1; simp [look_cons, hax, hxs]
                obtain ⟨y, n', h1, h2, h3, h4⟩ := p2.done x hx hx1
                refine ⟨y, n', h1, h2, ?_, h4⟩
                have : st.next ≠ y := by
                  intro hyy; subst hyy
                  exact hax (p2.inv.inj a x _ hab h1)
                simp only [look_cons, this, if_false]
                exact h3

/-! ### `runtime.clone` -/

theorem look_updateAt (a y : Addr) (f : Node → Node) (l : Heap) :
    look y (updateAt a f l) = if y = a then (look y l).map f else look y l := by
  induction l with
  | nil => simp [updateAt, look]
  | cons kv rest ih =>
    obtain ⟨k, v⟩ := kv
    simp only [updateAt]
    by_cases hk : k = a
    · simp only [hk, if_true, look_cons]
      by_cases hy : a = y
      · subst hy; simp
      · have : ¬ y = a := fun h => hy h.symm
        simp [hy, this]
    · simp only [hk, if_false, look_cons]
      by_cases hy : k = y
      · have : ¬ y = a := fun h => hk (hy.trans h)
        simp [hy, this]
      · simp only [hy, if_false]; exact ih

theorem mem_updateAt {a y : Addr} {f : Node → Node} {l : Heap} {n : Node} (h : (y, n) ∈ updateAt a f l) :
    (y, n) ∈ l ∨ ∃ n0, (y, n0) ∈ l ∧ n = f n0 := by
  induction l with
  | nil => simp [updateAt] at h
  | cons kv rest ih =>
    obtain ⟨k, v⟩ := kv
    simp only [updateAt] at h
    by_cases hk : k = a
    · simp only [hk, if_true] at h
      cases h with
      | head => exact .inr ⟨v, by simp [hk], rfl⟩
      | tail _ h' => exact .inl (List.mem_cons_of_mem _ h')
    · simp only [hk, if_false] at h
      cases h with
      | head => exact .inl (by simp)
      | tail _ h' =>
        cases ih h' with
        | inl h1 => exact .inl (List.mem_cons_of_mem _ h1)
        | inr h1 => obtain ⟨n0, h2, h3⟩ := h1; exact .inr ⟨n0, List.mem_cons_of_mem _ h2, h3⟩

theorem refs_setProto (p : Option Addr) (n : Node) : ∀ c ∈ (setProto p n).refs, c ∈ optRefs p ∨ c ∈ n.refs := by
  intro c hc
  cases n with
  | obj o =>
    simp only [setProto, Node.refs, List.mem_append] at hc ⊢
    rcases hc with h | h | h
    · exact .inl h
    · exact .inr (.inr (.inl h))
    · exact .inr (.inr (.inr h))
  | _ => exact .inr hc

/-- the invariant survives `out.globalStash = out.newObjectStash(globalObject, nil)` -/
theorem inv_globalStash {r : Nat} {base : Nat} {st1 st2 : St} {g : Addr} (hi : Inv base st1)
    (hg1 : look g st1.memo ≠ none)
    (hst2 : ({ st1 with out := (st1.next, Node.ost r none (st1.at g)) :: st1.out, next := st1.next + 1 } : St) = st2) :
    Inv base st2 := by
  obtain ⟨g', hg'⟩ : ∃ g', look g st1.memo = some g' := by
    cases hl : look g st1.memo with
    | none => exact absurd hl hg1
    | some g' => exact ⟨g', rfl⟩
  have hatg : st1.at g = g' := at_of_look hg'
  subst hst2
  refine ⟨?_, ?_, hi.inj, ?_, ?_, Nat.le_succ_of_le hi.baseLe⟩
  · intro x y hxy; have := hi.memoRange x y hxy; exact ⟨this.1, Nat.lt_succ_of_lt this.2⟩
  · intro y n hy
    simp only [look_cons] at hy
    by_cases hby : st1.next = y
    · subst hby; exact ⟨hi.baseLe, Nat.lt_succ_self _⟩
    · rw [if_neg hby] at hy; have := hi.outRange y n hy; exact ⟨this.1, Nat.lt_succ_of_lt this.2⟩
  · intro y n hy
    cases hy with
    | head =>
      refine ⟨hi.baseLe, ?_⟩
      intro c' hc'
      simp [Node.refs, optRefs] at hc'
      subst hc'
      rw [hatg]; exact (hi.memoRange _ _ hg').1
    | tail _ hy' => exact hi.sep y n hy'
  · intro y n hy c' hc'
    cases hy with
    | head =>
      simp [Node.refs, optRefs] at hc'
      subst hc'
      rw [hatg]; exact Nat.lt_succ_of_lt (hi.memoRange _ _ hg').2
    | tail _ hy' => exact Nat.lt_succ_of_lt (hi.refsLt y n hy' c' hc')

def Cloned.phi (c : Cloned) (a : Addr) : Addr := (look a c.memo).getD a

/-- everything `runtime.clone` guarantees, in terms of the memo table -/
structure CloneFacts (r : Nat) (h : Heap) (base : Addr) (roots : Roots) (c : Cloned) : Prop where
  range   : ∀ x y, look x c.memo = some y → base ≤ y ∧ y < c.next
  inj     : ∀ x x' y, look x c.memo = some y → look x' c.memo = some y → x = x'
  image   : ∀ x y, look x c.memo = some y → ∃ n, look x h = some n ∧
              look y c.out = some (if x = roots.globalObject then setProto ((roots.globals.map c.phi)[objectPrototypeIx]?) (n.map r c.phi) else n.map r c.phi) ∧
              ∀ c' ∈ n.refs, look c' c.memo ≠ none
  rootsIn : ∀ a ∈ roots.globalObject :: (roots.globals ++ [roots.eval]), look a c.memo ≠ none
  gObj    : c.roots.globalObject = c.phi roots.globalObject
  globals : c.roots.globals = roots.globals.map c.phi
  evalR   : c.roots.eval = c.phi roots.eval
  gStash  : look c.roots.globalStash c.out = some (.ost r none c.roots.globalObject) ∧ base ≤ c.roots.globalStash
  sep     : ∀ y n, (y, n) ∈ c.out → base ≤ y ∧ ∀ c' ∈ n.refs, base ≤ c'
  outLt   : ∀ y n, look y c.out = some n → y < c.next
  refsLt  : ∀ y n, (y, n) ∈ c.out → ∀ c' ∈ n.refs, c' < c.next

theorem cloneRuntime_facts {r : Nat} {h : Heap} {base fuel : Nat} {roots : Roots} {c : Cloned}
    (hc : cloneRuntime r h base fuel roots = .ok c) : CloneFacts r h base roots c := by
  unfold cloneRuntime at hc
  simp only at hc
  have hi0 : Inv base { memo := [], out := [], next := base } :=
    ⟨fun x y h => by simp [look] at h, fun y n h => by simp [look] at h, fun x x' y h => by simp [look] at h,
     fun y n h => by simp at h, fun y n h => by simp at h, Nat.le_refl _⟩
  cases h1 : cloneRef r h fuel roots.globalObject { memo := [], out := [], next := base } with
  | panic => simp [h1] at hc
  | fuel => simp [h1] at hc
  | ok st1 =>
    simp only [h1] at hc
    obtain ⟨p1, hg1⟩ := cloneRef_post r h base fuel _ _ _ hi0 h1
    generalize hst2 : ({ st1 with out := (st1.next, Node.ost r none (st1.at roots.globalObject)) :: st1.out, next := st1.next + 1 } : St) = st2 at hc
    obtain ⟨g', hg'⟩ : ∃ g', look roots.globalObject st1.memo = some g' := by
      cases hl : look roots.globalObject st1.memo with
      | none => exact absurd hl hg1
      | some g' => exact ⟨g', rfl⟩
    have hatg : st1.at roots.globalObject = g' := at_of_look hg'
    have hi2 : Inv base st2 := inv_globalStash p1.inv hg1 hst2
    have he2 : Ext st1 st2 := by
      subst hst2
      refine ⟨fun _ _ h => h, ?_, Nat.le_succ _, fun x y h h' => by simp [h'] at h⟩
      intro y hy
      simp only [look_cons]
      have : st1.next ≠ y := by omega
      rw [if_neg this]
    cases h3 : forRefs (cloneRef r h fuel) roots.globals st2 with
    | panic => simp [h3] at hc
    | fuel => simp [h3] at hc
    | ok st3 =>
      simp only [h3] at hc
      obtain ⟨p3, hgl3⟩ := forRefs_post r h base _ (cloneRef_post r h base fuel) roots.globals st2 st3 hi2 h3
      cases h4 : cloneRef r h fuel roots.eval st3 with
      | panic => simp [h4] at hc
      | fuel => simp [h4] at hc
      | ok st4 =>
        simp only [h4] at hc
        obtain ⟨p4, hev⟩ := cloneRef_post r h base fuel _ _ _ p3.inv h4
        have he14 : Ext st1 st4 := (he2.trans p3.ext).trans p4.ext
        have hg4 : look roots.globalObject st4.memo = some g' := he14.memo _ _ hg'
        have hgl : ∀ a ∈ roots.globals, look a st4.memo ≠ none := by
          intro a ha
          cases hm : look a st3.memo with
          | none => exact absurd hm (hgl3 a ha)
          | some z => simp [p4.ext.memo a z hm]
        have allDone : ∀ x, look x st4.memo ≠ none → Done r h st4 x := by
          intro x hx
          cases hx3 : look x st3.memo with
          | none => exact p4.done x hx hx3
          | some z3 =>
            refine Done.mono p3.inv p4.ext ?_
            cases hx2 : look x st2.memo with
            | none => exact p3.done x (by simp [hx3]) hx2
            | some z =>
              have hx1 : look x st1.memo ≠ none := by subst hst2; simp at hx2; simp [hx2]
              exact ((p1.done x hx1 (by simp [look])).mono p1.inv he2).mono hi2 p3.ext
        -- the stash entry survives
        have hgs4 : look st1.next st4.out = some (Node.ost r none g') := by
          have h12 : st1.next < st2.next := by subst hst2; exact Nat.lt_succ_self _
          have h13 : st1.next < st3.next := Nat.lt_of_lt_of_le h12 p3.ext.next
          rw [p4.ext.out _ h13, p3.ext.out _ h12]; subst hst2; simp [look_cons, hatg]
        rw [hatg] at hc
        cases hc
        have hne : st1.next ≠ g' := by have := (p1.inv.memoRange _ _ hg').2; omega
        have hopGe : ∀ q, (List.map st4.at roots.globals)[objectPrototypeIx]? = some q → base ≤ q ∧ q < st4.next := by
          intro q hop
          have hq := List.mem_of_getElem? hop
          obtain ⟨q0, hq0, rfl⟩ := List.mem_map.mp hq
          cases hqm : look q0 st4.memo with
          | none => exact absurd hqm (hgl q0 hq0)
          | some z => rw [at_of_look hqm]; exact p4.inv.memoRange _ _ hqm
        refine ⟨p4.inv.memoRange, p4.inv.inj, ?_, ?_, ?_, rfl, rfl, ?_, ?_, ?_, ?_⟩
        · intro x y hxy
          obtain ⟨y', n, hm, hh, ho, hr⟩ := allDone x (by simp [hxy])
          rw [hxy] at hm; cases hm
          refine ⟨n, hh, ?_, hr⟩
          rw [look_updateAt]
          by_cases hxg : x = roots.globalObject
          · subst hxg
            rw [hg4] at hxy; cases hxy
            simp only [if_true, ho, Option.map]
            rfl
          · have : ¬ y = g' := fun hyg => hxg (p4.inv.inj x _ g' (by rw [hxy, hyg]) hg4)
            rw [if_neg this, if_neg hxg, ho]; rfl
        · intro a ha
          simp only [List.mem_cons, List.mem_append, List.mem_nil_iff, or_false] at ha
          rcases ha with rfl | ha | rfl
          · simp [hg4]
          · exact hgl a ha
          · exact hev
        · simp [Cloned.phi, hg4]
        · refine ⟨?_, p1.inv.baseLe⟩
          rw [look_updateAt, if_neg hne, hgs4]
        · intro y n hy
          rcases mem_updateAt hy with h' | ⟨n0, h', rfl⟩
          · exact p4.inv.sep y n h'
          · refine ⟨(p4.inv.sep y n0 h').1, ?_⟩
            intro c' hc'
            rcases refs_setProto _ _ c' hc' with h'' | h''
            · cases hop : (List.map st4.at roots.globals)[objectPrototypeIx]? with
              | none => simp [hop, optRefs] at h''
              | some q => simp [hop, optRefs] at h''; subst h''; exact (hopGe _ hop).1
            · exact (p4.inv.sep y n0 h').2 c' h''
        · intro y n hy
          rw [look_updateAt] at hy
          by_cases hyg : y = g'
          · subst hyg; exact (p4.inv.memoRange _ _ hg4).2
          · rw [if_neg hyg] at hy; exact (p4.inv.outRange y n hy).2
        · intro y n hy
          rcases mem_updateAt hy with h' | ⟨n0, h', rfl⟩
          · exact p4.inv.refsLt y n h'
          · intro c' hc'
            rcases refs_setProto _ _ c' hc' with h'' | h''
            · cases hop : (List.map st4.at roots.globals)[objectPrototypeIx]? with
              | none => simp [hop, optRefs] at h''
              | some q => simp [hop, optRefs] at h''; subst h''; exact (hopGe _ hop).2
            · exact p4.inv.refsLt y n0 h' c' h''

/-! ### fuel suffices -/

/-- nodes of the source heap not yet memoised -/
def todo (h : Heap) (st : St) : Nat := (h.filter (fun kv => (look kv.1 st.memo).isNone)).length

theorem filter_len_le {α : Type} (p q : α → Bool) (l : List α) (hpq : ∀ x, q x = true → p x = true) :
    (l.filter q).length ≤ (l.filter p).length := by
  induction l with
  | nil => simp
  | cons x xs ih =>
    simp only [List.filter]
    cases hq : q x <;> cases hp : p x <;> simp <;> try omega
    have := hpq x hq; rw [hp] at this; cases this

theorem filter_len_lt {α : Type} (p q : α → Bool) (l : List α) (hpq : ∀ x, q x = true → p x = true)
    (x0 : α) (hx : x0 ∈ l) (hp0 : p x0 = true) (hq0 : q x0 = false) :
    (l.filter q).length < (l.filter p).length := by
  induction l with
  | nil => cases hx
  | cons x xs ih =>
    simp only [List.filter]
    cases hx with
    | head =>
      rw [hp0, hq0]
      have := filter_len_le p q xs hpq
      simp; omega
    | tail _ hx' =>
      have := ih hx'
      cases hq : q x <;> cases hp : p x <;> simp <;> try omega
      have := hpq x hq; rw [hp] at this; cases this

theorem todo_mono (h : Heap) {st st' : St} (he : Ext st st') : todo h st' ≤ todo h st := by
  apply filter_len_le
  intro kv hq
  cases hl : look kv.1 st.memo with
  | none => rfl
  | some y => rw [he.memo _ _ hl] at hq; simp at hq

theorem forRefs_nofuel (r : Nat) (h : Heap) (base : Nat) (f : Addr → St → Res St) (k : Nat)
    (hpost : ∀ a st st', Inv base st → f a st = .ok st' → Post r h base st st' ∧ look a st'.memo ≠ none)
    (hf : ∀ a st, Inv base st → todo h st ≤ k → f a st ≠ .fuel) :
    ∀ (as : List Addr) (st : St), Inv base st → todo h st ≤ k → forRefs f as st ≠ .fuel := by
  intro as
  induction as with
  | nil => intro st _ _; simp [forRefs]
  | cons a as ih =>
    intro st hi hk
    simp only [forRefs]
    cases hfa : f a st with
    | fuel => exact absurd hfa (hf a st hi hk)
    | panic => simp
    | ok sm =>
      obtain ⟨p, _⟩ := hpost a st sm hi hfa
      exact ih sm p.inv (Nat.le_trans (todo_mono h p.ext) hk)

theorem cloneRef_nofuel (r : Nat) (h : Heap) (base : Nat) :
    ∀ (fuel : Nat) (a : Addr) (st : St), Inv base st → todo h st < fuel → cloneRef r h fuel a st ≠ .fuel := by
  intro fuel
  induction fuel with
  | zero => intro a st _ hk; omega
  | succ fuel ih =>
    intro a st hi hk
    simp only [cloneRef]
    cases hm : look a st.memo with
    | some b => simp
    | none =>
      cases hh : look a h with
      | none => simp
      | some n =>
        by_cases hp : n.panics = true
        · simp [hp]
        · simp only [hp]
          generalize hst1 : ({ memo := (a, st.next) :: st.memo, out := st.out, next := st.next + 1 } : St) = st1
          -- re-derive Inv st1 through the successful-call lemma on a one-step run
          have hlt : todo h st1 < todo h st := by
            subst hst1
            apply filter_len_lt _ _ h _ (a, n) (look_mem hh)
            · simp [hm]
            · simp [look_cons]
            · intro kv hq
              simp only [look_cons] at hq
              by_cases hak : a = kv.1
              · simp [hak] at hq
              · simp [hak] at hq; simp [hq]
          have hi1 : Inv base st1 := by
            subst hst1
            refine ⟨?_, ?_, ?_, hi.sep, fun y n hy c hc => Nat.lt_succ_of_lt (hi.refsLt y n hy c hc), Nat.le_succ_of_le hi.baseLe⟩
            · intro x y hxy
              simp only [look_cons] at hxy
              by_cases hax : a = x
              · simp [hax] at hxy; subst hxy; exact ⟨hi.baseLe, Nat.lt_succ_self _⟩
              · simp [hax] at hxy; have := hi.memoRange x y hxy; exact ⟨this.1, Nat.lt_succ_of_lt this.2⟩
            · intro y n' hy
              have := hi.outRange y n' hy
              exact ⟨this.1, Nat.lt_succ_of_lt this.2⟩
            · intro x x' y hx hx'
              simp only [look_cons] at hx hx'
              by_cases hax : a = x <;> by_cases hax' : a = x'
              · rw [← hax, ← hax']
              · rw [if_pos hax] at hx; rw [if_neg hax'] at hx'
                cases hx
                have := (hi.memoRange x' _ hx').2
                omega
              · rw [if_neg hax] at hx; rw [if_pos hax'] at hx'
                cases hx'
                have := (hi.memoRange x _ hx).2
                omega
              · rw [if_neg hax] at hx; rw [if_neg hax'] at hx'
                exact hi.inj x x' y hx hx'
          have := forRefs_nofuel r h base (cloneRef r h fuel) (todo h st1) (cloneRef_post r h base fuel)
            (fun a' st' hi' hk' => ih a' st' hi' (by omega)) n.refs st1 hi1 (Nat.le_refl _)
          cases hfr : forRefs (cloneRef r h fuel) n.refs st1 with
          | fuel => exact absurd hfr this
          | panic => simp
          | ok st2 => simp

theorem todo_le_length (h : Heap) (st : St) : todo h st ≤ h.length := List.length_filter_le _ _

/-- fuel is not a restriction: with more fuel than the heap has nodes, `runtime.clone` never runs out -/
theorem cloneRuntime_nofuel (r : Nat) (h : Heap) (base fuel : Nat) (roots : Roots) (hf : h.length < fuel) :
    (match cloneRuntime r h base fuel roots with | .fuel => false | _ => true) = true := by
  unfold cloneRuntime
  simp only
  have hi0 : Inv base { memo := [], out := [], next := base } :=
    ⟨fun x y h => by simp [look] at h, fun y n h => by simp [look] at h, fun x x' y h => by simp [look] at h,
     fun y n h => by simp at h, fun y n h => by simp at h, Nat.le_refl _⟩
  have hnf := cloneRef_nofuel r h base fuel
  cases h1 : cloneRef r h fuel roots.globalObject { memo := [], out := [], next := base } with
  | panic => rfl
  | fuel => exact absurd h1 (hnf _ _ hi0 (Nat.lt_of_le_of_lt (todo_le_length h _) hf))
  | ok st1 =>
    simp only
    obtain ⟨p1, hg1⟩ := cloneRef_post r h base fuel _ _ _ hi0 h1
    generalize hst2 : ({ st1 with out := (st1.next, Node.ost r none (st1.at roots.globalObject)) :: st1.out, next := st1.next + 1 } : St) = st2
    have hi2 : Inv base st2 := inv_globalStash p1.inv hg1 hst2
    have := forRefs_nofuel r h base (cloneRef r h fuel) h.length (cloneRef_post r h base fuel)
      (fun a st hi hk => hnf a st hi (Nat.lt_of_le_of_lt hk hf)) roots.globals st2 hi2 (todo_le_length h _)
    cases h3 : forRefs (cloneRef r h fuel) roots.globals st2 with
    | fuel => exact absurd h3 this
    | panic => rfl
    | ok st3 =>
      simp only
      obtain ⟨p3, _⟩ := forRefs_post r h base _ (cloneRef_post r h base fuel) roots.globals st2 st3 hi2 h3
      cases h4 : cloneRef r h fuel roots.eval st3 with
      | fuel => exact absurd h4 (hnf _ _ p3.inv (Nat.lt_of_le_of_lt (todo_le_length h _) hf))
      | panic => rfl
      | ok st4 => rfl

end OttoVerif.C17
