/-  C17/Theorems — the ledger for property C17 (every theorem here is audited).  Placeholder. -/
namespace OttoVerif.C17.Thm
end OttoVerif.C17.Thm
