/-
  C17/Theorems — the ledger for property C17 (every theorem here is audited).

  Layout: (1) the cloner builds an isomorphic, disjoint image (clone_iso, clone_eval_root,
  clone_disjoint, copy_leaves_original, copy_reach_fresh, original_reach_old); (2) two general
  theorems about rooted heaps: isolation (frame) and observational_equiv (simulation);
  (3) their instances for Copy() and closure under repeated copying (copy_sim, copy_isolated,
  copy_chain, sep_preserved_by_copy); (4) kernel-checked witnesses of the deviation regions.
-/
import OttoVerif.C17.Lemmas
import OttoVerif.C17.GenFacts
namespace OttoVerif.C17.Thm
open OttoVerif.C17

/-- true of every runtime at rest: the global object's prototype is `rt.global.ObjectPrototype`
    (global.go:53; ES5 has no way to change an object's prototype) -/
def GlobalProtoOK (h : Heap) (roots : Roots) : Prop :=
  ∃ go p, look roots.globalObject h = some (.obj go) ∧ go.proto = some p ∧ roots.globals[objectPrototypeIx]? = some p

def objRoots (roots : Roots) : List Addr := roots.globalObject :: (roots.globals ++ [roots.eval])

/-- everything reachable from the object roots was memoised (= cloned) -/
theorem reach_memo {r : Nat} {h : Heap} {base : Nat} {roots : Roots} {c : Cloned}
    (F : CloneFacts r h base roots c) : ∀ a, Reach h (objRoots roots) a → look a c.memo ≠ none := by
  intro a ha
  induction ha with
  | root hr => exact F.rootsIn _ hr
  | @step a' b n _ hl hb ih =>
    cases hm : look a' c.memo with
    | none => exact absurd hm ih
    | some y =>
      obtain ⟨n', hn', _, hr⟩ := F.image a' y hm
      rw [hl] at hn'; cases hn'
      exact hr b hb

theorem setProto_same (r : Nat) (φ : Nat → Nat) (go : Obj) (p : Nat) (hp : go.proto = some p) :
    setProto (some (φ p)) ((Node.obj go).map r φ) = (Node.obj go).map r φ := by
  simp [setProto, Node.map, hp, optMap]

/-- **C17.clone_iso** — `runtime.clone` builds an isomorphic image of everything reachable from the
    object roots: φ (the memo table) is injective there, sends every node to a fresh address
    (`≥ base`), the node stored at `φ a` is the source node with every reference sent through φ
    (same class, extensibility, property order, attributes, payload, bindings and flags, parameter
    map) and the runtime back-pointer set to the new runtime; the new roots are the φ-images of the
    old ones and the new global stash is a fresh objectStash over the new global object. -/
theorem clone_iso {r : Nat} {h : Heap} {base fuel : Nat} {roots : Roots} {c : Cloned}
    (hc : cloneRuntime r h base fuel roots = .ok c) (hg : GlobalProtoOK h roots) :
    InjOn c.phi (Reach h (objRoots roots)) ∧
    ImageOn r c.phi (Reach h (objRoots roots)) h c.out ∧
    (∀ a, Reach h (objRoots roots) a → base ≤ c.phi a) ∧
    c.roots.globalObject = c.phi roots.globalObject ∧
    c.roots.globals = roots.globals.map c.phi ∧
    c.roots.eval = c.phi roots.eval ∧
    look c.roots.globalStash c.out = some (.ost r none c.roots.globalObject) := by
  have F := cloneRuntime_facts hc
  have hmem := reach_memo F
  have hphi : ∀ a y, look a c.memo = some y → c.phi a = y := fun a y h => by simp [Cloned.phi, h]
  refine ⟨?_, ?_, ?_, F.gObj, F.globals, F.evalR, F.gStash.1⟩
  · intro a b ha hb hab
    cases hma : look a c.memo with
    | none => exact absurd hma (hmem a ha)
    | some ya =>
      cases hmb : look b c.memo with
      | none => exact absurd hmb (hmem b hb)
      | some yb =>
        rw [hphi a ya hma, hphi b yb hmb] at hab
        subst hab
        exact F.inj a b ya hma hmb
  · intro a ha n hn
    cases hma : look a c.memo with
    | none => exact absurd hma (hmem a ha)
    | some y =>
      obtain ⟨n', hn', ho, _⟩ := F.image a y hma
      rw [hn] at hn'; cases hn'
      rw [hphi a y hma, ho]
      by_cases hag : a = roots.globalObject
      · obtain ⟨go, p, hgo, hp, hix⟩ := hg
        subst hag
        rw [hgo] at hn; cases hn
        simp only [if_true]
        have : (List.map c.phi roots.globals)[objectPrototypeIx]? = some (c.phi p) := by
          simp [List.getElem?_map, hix]
        rw [this, setProto_same r c.phi go p hp]
      · simp [hag]
  · intro a ha
    cases hma : look a c.memo with
    | none => exact absurd hma (hmem a ha)
    | some y => rw [hphi a y hma]; exact (F.range a y hma).1

/-- **C17.clone_eval_root** — the copy's `rt.eval` is the image of the original's, whatever the
    script did to the global `eval` property (deleted it, overwrote it, made it an accessor). -/
theorem clone_eval_root {r : Nat} {h : Heap} {base fuel : Nat} {roots : Roots} {c : Cloned}
    (hc : cloneRuntime r h base fuel roots = .ok c) : c.roots.eval = c.phi roots.eval :=
  (cloneRuntime_facts hc).evalR

/-- **C17.clone_disjoint** — every node `Copy()` allocates lies at a fresh address and every
    reference stored in it is a fresh address: the clone holds NO pointer into the source heap.
    What it does share with the source are exactly the things `Node` keeps as opaque tokens:
    strings/numbers, `*nodeFunctionLiteral`, native Go function values, `*objectClass`,
    `*regexp.Regexp`, dates and error records – the kinds declared immutable. -/
theorem clone_disjoint {r : Nat} {h : Heap} {base fuel : Nat} {roots : Roots} {c : Cloned}
    (hc : cloneRuntime r h base fuel roots = .ok c) : Separated base c.out :=
  fun b n hb => (cloneRuntime_facts hc).sep b n hb

theorem look_append {α : Type} (a : Nat) (l1 l2 : List (Nat × α)) :
    look a (l1 ++ l2) = match look a l1 with | some v => some v | none => look a l2 := by
  induction l1 with
  | nil => simp [look]
  | cons kv rest ih =>
    obtain ⟨k, v⟩ := kv
    simp only [List.cons_append, look_cons]
    by_cases hk : k = a
    · simp [hk]
    · simp [hk, ih]

/-- a source heap occupying the addresses below `base`, closed under references -/
structure SourceHeap (h : Heap) (base : Nat) (roots : Roots) : Prop where
  below  : ∀ a n, look a h = some n → a < base
  closed : ∀ a n, look a h = some n → ∀ c ∈ n.refs, c < base
  roots  : ∀ a ∈ rootList roots, a < base

/-- **C17.copy_leaves_original** — `Copy()` leaves the original as it was: in the joint Go heap
    every address of the source heap still holds what it held. -/
theorem copy_leaves_original {r : Nat} {h : Heap} {base fuel : Nat} {roots : Roots} {c : Cloned}
    (hc : cloneRuntime r h base fuel roots = .ok c) (a : Nat) (ha : a < base) :
    look a (c.out ++ h) = look a h := by
  rw [look_append]
  cases ho : look a c.out with
  | none => rfl
  | some n =>
    have := (clone_disjoint hc a n (look_mem ho)).1
    omega

/-- the copy's roots are fresh addresses -/
theorem clone_roots_fresh {r : Nat} {h : Heap} {base fuel : Nat} {roots : Roots} {c : Cloned}
    (hc : cloneRuntime r h base fuel roots = .ok c) : ∀ a ∈ rootList c.roots, base ≤ a := by
  have F := cloneRuntime_facts hc
  have hphi : ∀ a, look a c.memo ≠ none → base ≤ c.phi a := by
    intro a ha
    cases hm : look a c.memo with
    | none => exact absurd hm ha
    | some y => simp [Cloned.phi, hm]; exact (F.range a y hm).1
  intro a ha
  simp only [rootList, List.mem_cons, List.mem_append, List.mem_nil_iff, or_false] at ha
  rcases ha with rfl | ha | rfl | rfl
  · rw [F.gObj]; exact hphi _ (F.rootsIn _ (by simp))
  · rw [F.globals] at ha
    obtain ⟨a0, ha0, rfl⟩ := List.mem_map.mp ha
    exact hphi _ (F.rootsIn _ (by simp [ha0]))
  · rw [F.evalR]; exact hphi _ (F.rootsIn _ (by simp))
  · exact F.gStash.2

/-- **C17.copy_unreachable_from_original / original_unreachable_from_copy** — in the joint heap
    nothing the copy can reach is a node of the source heap, and nothing the original can reach is
    a node `Copy()` allocated. -/
theorem copy_reach_fresh {r : Nat} {h : Heap} {base fuel : Nat} {roots : Roots} {c : Cloned}
    (hc : cloneRuntime r h base fuel roots = .ok c) (hs : SourceHeap h base roots) :
    ∀ a, Reach (c.out ++ h) (rootList c.roots) a → base ≤ a := by
  intro a ha
  induction ha with
  | root hr => exact clone_roots_fresh hc _ hr
  | @step a' b n _ hl hb ih =>
    rw [look_append] at hl
    cases ho : look a' c.out with
    | some n' =>
      rw [ho] at hl; cases hl
      exact (clone_disjoint hc a' _ (look_mem ho)).2 b hb
    | none =>
      rw [ho] at hl
      have := hs.below a' n hl
      omega

theorem original_reach_old {r : Nat} {h : Heap} {base fuel : Nat} {roots : Roots} {c : Cloned}
    (hc : cloneRuntime r h base fuel roots = .ok c) (hs : SourceHeap h base roots) :
    ∀ a, Reach (c.out ++ h) (rootList roots) a → a < base := by
  intro a ha
  induction ha with
  | root hr => exact hs.roots _ hr
  | @step a' b n _ hl hb ih =>
    rw [copy_leaves_original hc a' ih] at hl
    exact hs.closed a' n hl b hb

/-! ### isolation: a frame theorem for the joint Go heap -/

/-- one effect of a running script on the Go heap: node `addr` is (over)written – allocation is a
    write at an address that held nothing -/
structure Write where
  addr : Nat
  node : Node

def applyW (W : Heap) (w : Write) : Heap := (w.addr, w.node) :: W
def applyWs (W : Heap) (ws : List Write) : Heap := ws.foldl applyW W

/-- two runtimes living in one heap `W` with nothing in common: `PA`/`PB` say which addresses belong
    to which side (including the addresses each side will allocate later) -/
structure SepInv (W : Heap) (PA PB : Nat → Prop) (rsA rsB : List Nat) : Prop where
  disj    : ∀ a, PA a → PB a → False
  rootsA  : ∀ a ∈ rsA, PA a
  rootsB  : ∀ a ∈ rsB, PB a
  closedA : ∀ a n, look a W = some n → PA a → ∀ c ∈ n.refs, PA c
  closedB : ∀ a n, look a W = some n → PB a → ∀ c ∈ n.refs, PB c

theorem SepInv.symm {W : Heap} {PA PB : Nat → Prop} {rsA rsB : List Nat} (s : SepInv W PA PB rsA rsB) :
    SepInv W PB PA rsB rsA := ⟨fun a hb ha => s.disj a ha hb, s.rootsB, s.rootsA, s.closedB, s.closedA⟩

/-- a write performed by a script of the side owning `P`: it hits one of that side's nodes (or a
    node it allocates) and stores only that side's references -/
def OwnedBy (P : Nat → Prop) (w : Write) : Prop := P w.addr ∧ ∀ c ∈ w.node.refs, P c

theorem reach_in {W : Heap} {P : Nat → Prop} {rs : List Nat} (hr : ∀ a ∈ rs, P a)
    (hc : ∀ a n, look a W = some n → P a → ∀ c ∈ n.refs, P c) : ∀ a, Reach W rs a → P a := by
  intro a ha
  induction ha with
  | root h => exact hr _ h
  | @step a' b n _ hl hb ih => exact hc a' n hl ih b hb

theorem reach_congr {W W' : Heap} {P : Nat → Prop} {rs : List Nat} (hr : ∀ a ∈ rs, P a)
    (hc : ∀ a n, look a W = some n → P a → ∀ c ∈ n.refs, P c) (heq : ∀ a, P a → look a W' = look a W) :
    ∀ a, Reach W rs a → Reach W' rs a := by
  intro a ha
  have hin := reach_in hr hc
  induction ha with
  | root h => exact .root h
  | @step a' b n hra hl hb ih => exact .step ih (by rw [heq a' (hin a' hra)]; exact hl) hb

theorem isolation_step {W : Heap} {PA PB : Nat → Prop} {rsA rsB : List Nat} (s : SepInv W PA PB rsA rsB)
    (w : Write) (hw : OwnedBy PA w) :
    SepInv (applyW W w) PA PB rsA rsB ∧ ∀ a, PB a → look a (applyW W w) = look a W := by
  have hlook : ∀ a, PB a → look a (applyW W w) = look a W := by
    intro a hb
    simp only [applyW, look_cons]
    have : w.addr ≠ a := fun h => s.disj a (h ▸ hw.1) hb
    rw [if_neg this]
  refine ⟨⟨s.disj, s.rootsA, s.rootsB, ?_, ?_⟩, hlook⟩
  · intro a n hl ha
    simp only [applyW, look_cons] at hl
    by_cases hwa : w.addr = a
    · rw [if_pos hwa] at hl; cases hl; exact hw.2
    · rw [if_neg hwa] at hl; exact s.closedA a n hl ha
  · intro a n hl hb
    rw [hlook a hb] at hl
    exact s.closedB a n hl hb

/-- **C17.isolation** — whatever sequence of writes a script of runtime A performs (assignments,
    deletions, defineProperty, freezing, edits of prototype objects and built-ins, closure state
    changes: each is a write to a node A owns storing references A owns), every node of runtime B
    holds afterwards exactly what it held before, B reaches exactly the same nodes, and the two
    stay separated (so the statement applies again to whatever runs next, on either side). -/
theorem isolation {PA PB : Nat → Prop} {rsA rsB : List Nat} (ws : List Write) (hw : ∀ w ∈ ws, OwnedBy PA w) :
    ∀ (W : Heap), SepInv W PA PB rsA rsB →
    SepInv (applyWs W ws) PA PB rsA rsB ∧
    (∀ a, PB a → look a (applyWs W ws) = look a W) ∧
    (∀ a, Reach (applyWs W ws) rsB a ↔ Reach W rsB a) := by
  induction ws with
  | nil => intro W s; exact ⟨s, fun _ _ => rfl, fun _ => Iff.rfl⟩
  | cons w ws ih =>
    intro W s
    obtain ⟨s1, h1⟩ := isolation_step s w (hw w (by simp))
    obtain ⟨s2, h2, h3⟩ := ih (fun w' hw' => hw w' (by simp [hw'])) (applyW W w) s1
    refine ⟨s2, fun a hb => by rw [show applyWs W (w :: ws) = applyWs (applyW W w) ws from rfl, h2 a hb, h1 a hb], ?_⟩
    intro a
    rw [show applyWs W (w :: ws) = applyWs (applyW W w) ws from rfl, h3 a]
    exact ⟨reach_congr s1.rootsB s1.closedB (fun a hb => (h1 a hb).symm) a,
           reach_congr s.rootsB s.closedB h1 a⟩

/-- **C17.isolation_both** — and in the other direction -/
theorem isolation_rev {PA PB : Nat → Prop} {rsA rsB : List Nat} (ws : List Write) (hw : ∀ w ∈ ws, OwnedBy PB w)
    (W : Heap) (s : SepInv W PA PB rsA rsB) :
    SepInv (applyWs W ws) PA PB rsA rsB ∧
    (∀ a, PA a → look a (applyWs W ws) = look a W) ∧
    (∀ a, Reach (applyWs W ws) rsA a ↔ Reach W rsA a) := by
  obtain ⟨s', h1, h2⟩ := isolation ws hw W s.symm
  exact ⟨s'.symm, h1, h2⟩

/-! ### observational equivalence: what reads can see -/

/-- follow a path of reference indices from a node -/
def resolve (W : Heap) : Nat → List Nat → Option Nat
  | a, [] => some a
  | a, i :: p => match look a W with
    | none => none
    | some n => match n.refs[i]? with
      | none => none
      | some b => resolve W b p

/-- everything a script can read off a node without following a pointer: class, extensibility,
    property names in order with attributes and primitive values, payload kind and by-value data,
    binding names, flags and primitive values, parameter map (addresses erased) -/
def shape (n : Node) : Node := n.map 0 (fun _ => 0)

theorem shape_map (r : Nat) (φ : Nat → Nat) (n : Node) : shape (n.map r φ) = shape n := by
  simp only [shape, Node.map_map]; rfl

/-- `W'` simulates `W` on `dom` through the renaming φ -/
structure Sim (r : Nat) (φ : Nat → Nat) (dom : Nat → Prop) (W W' : Heap) : Prop where
  closed : ∀ a n, dom a → look a W = some n → ∀ c ∈ n.refs, dom c
  total  : ∀ a, dom a → look a W ≠ none
  image  : ImageOn r φ dom W W'

/-- **C17.observational_equiv** — under a simulation every pointer chase from corresponding nodes
    ends in corresponding nodes (or fails on both sides), and corresponding nodes look the same. -/
theorem observational_equiv {r : Nat} {φ : Nat → Nat} {dom : Nat → Prop} {W W' : Heap} (s : Sim r φ dom W W') :
    ∀ (p : List Nat) (a : Nat), dom a →
      resolve W' (φ a) p = (resolve W a p).map φ ∧
      (∀ b, resolve W a p = some b → dom b ∧ (look (φ b) W').map shape = (look b W).map shape) := by
  intro p
  induction p with
  | nil =>
    intro a ha
    refine ⟨rfl, ?_⟩
    intro b hb
    simp only [resolve] at hb; cases hb
    refine ⟨ha, ?_⟩
    cases hl : look a W with
    | none => exact absurd hl (s.total a ha)
    | some n => rw [s.image a ha n hl]; simp [shape_map]
  | cons i p ih =>
    intro a ha
    cases hl : look a W with
    | none => exact absurd hl (s.total a ha)
    | some n =>
      have hl' := s.image a ha n hl
      simp only [resolve, hl, hl', Node.refs_map]
      cases hi : n.refs[i]? with
      | none => simp [hi]
      | some b =>
        have hb : dom b := s.closed a n ha hl b (List.mem_of_getElem? hi)
        simp only [List.getElem?_map, hi, Option.map]
        exact ih b hb

/-- identity comparisons (`===` on objects) agree as well -/
theorem observational_identity {r : Nat} {φ : Nat → Nat} {dom : Nat → Prop} {W W' : Heap} (s : Sim r φ dom W W')
    (hinj : InjOn φ dom) (a : Nat) (ha : dom a) (p q : List Nat) (x y : Nat)
    (hx : resolve W a p = some x) (hy : resolve W a q = some y) :
    (resolve W' (φ a) p = resolve W' (φ a) q) ↔ x = y := by
  obtain ⟨e1, d1⟩ := observational_equiv s p a ha
  obtain ⟨e2, d2⟩ := observational_equiv s q a ha
  rw [e1, e2, hx, hy]
  simp only [Option.map, Option.some.injEq]
  exact ⟨fun h => hinj x y (d1 x hx).1 (d2 y hy).1 h, fun h => by rw [h]⟩


/-! ### the two general theorems applied to `Copy()`, and closure under repeated copying -/

/-- **C17.copy_sim** — after `Copy()` the joint heap simulates the source heap on everything
    reachable from the roots: `observational_equiv` and `observational_identity` apply to the copy. -/
theorem copy_sim {r : Nat} {h : Heap} {base fuel : Nat} {roots : Roots} {c : Cloned}
    (hc : cloneRuntime r h base fuel roots = .ok c) (hg : GlobalProtoOK h roots) :
    Sim r c.phi (Reach h (objRoots roots)) h (c.out ++ h) ∧ InjOn c.phi (Reach h (objRoots roots)) := by
  have F := cloneRuntime_facts hc
  obtain ⟨hinj, himg, _⟩ := clone_iso hc hg
  refine ⟨⟨fun a n ha hl c' hc' => .step ha hl hc', ?_, ?_⟩, hinj⟩
  · intro a ha
    cases hm : look a c.memo with
    | none => exact absurd hm (reach_memo F a ha)
    | some y => obtain ⟨n, hn, _⟩ := F.image a y hm; simp [hn]
  · intro a ha n hl
    rw [look_append, himg a ha n hl]

/-- **C17.copy_isolated** — after `Copy()` original and copy are separated in the joint heap (the
    copy owns the addresses `≥ base`, the original those `< base`): `isolation` / `isolation_rev`
    apply to every script run on either. -/
theorem copy_isolated {r : Nat} {h : Heap} {base fuel : Nat} {roots : Roots} {c : Cloned}
    (hc : cloneRuntime r h base fuel roots = .ok c) (hs : SourceHeap h base roots) :
    SepInv (c.out ++ h) (fun a => base ≤ a) (fun a => a < base) (rootList c.roots) (rootList roots) := by
  refine ⟨fun a h1 h2 => by omega, clone_roots_fresh hc, hs.roots, ?_, ?_⟩
  · intro a n hl ha
    rw [look_append] at hl
    cases ho : look a c.out with
    | some n' => rw [ho] at hl; cases hl; exact (clone_disjoint hc a _ (look_mem ho)).2
    | none => rw [ho] at hl; have := hs.below a n hl; omega
  · intro a n hl ha
    rw [copy_leaves_original hc a ha] at hl
    exact hs.closed a n hl

/-- **C17.copy_chain** — copies of copies: the joint heap after `Copy()` is again a source heap
    (below the allocator's new position, closed under references) for the copy AND for the
    original, so every theorem above applies to a copy of the copy and to a second copy of the
    original. -/
theorem copy_chain {r : Nat} {h : Heap} {base fuel : Nat} {roots : Roots} {c : Cloned}
    (hc : cloneRuntime r h base fuel roots = .ok c) (hs : SourceHeap h base roots) :
    SourceHeap (c.out ++ h) c.next c.roots ∧ SourceHeap (c.out ++ h) c.next roots := by
  have F := cloneRuntime_facts hc
  have hbn : base ≤ c.next := by
    have := F.gStash
    have h2 := F.outLt _ _ this.1
    omega
  have hbelow : ∀ a n, look a (c.out ++ h) = some n → a < c.next := by
    intro a n hl
    rw [look_append] at hl
    cases ho : look a c.out with
    | some n' => exact F.outLt a n' ho
    | none => rw [ho] at hl; have := hs.below a n hl; omega
  have hclosed : ∀ a n, look a (c.out ++ h) = some n → ∀ c' ∈ n.refs, c' < c.next := by
    intro a n hl c' hc'
    rw [look_append] at hl
    cases ho : look a c.out with
    | some n' => rw [ho] at hl; cases hl; exact F.refsLt a _ (look_mem ho) c' hc'
    | none => rw [ho] at hl; have := hs.closed a n hl c' hc'; omega
  refine ⟨⟨hbelow, hclosed, ?_⟩, ⟨hbelow, hclosed, fun a ha => by have := hs.roots a ha; omega⟩⟩
  intro a ha
  simp only [rootList, List.mem_cons, List.mem_append, List.mem_nil_iff, or_false] at ha
  have hphi : ∀ a, look a c.memo ≠ none → c.phi a < c.next := by
    intro a ha
    cases hm : look a c.memo with
    | none => exact absurd hm ha
    | some y => simp [Cloned.phi, hm]; exact (F.range a y hm).2
  rcases ha with rfl | ha | rfl | rfl
  · rw [F.gObj]; exact hphi _ (F.rootsIn _ (by simp))
  · rw [F.globals] at ha
    obtain ⟨a0, ha0, rfl⟩ := List.mem_map.mp ha
    exact hphi _ (F.rootsIn _ (by simp [ha0]))
  · rw [F.evalR]; exact hphi _ (F.rootsIn _ (by simp))
  · exact F.outLt _ _ F.gStash.1

/-- **C17.sep_preserved_by_copy** — two separated runtimes stay separated when a third runtime is
    made by `Copy()` of anything: the new nodes are nobody's (they belong to the new runtime). -/
theorem sep_preserved_by_copy {W out : Heap} {PA PB : Nat → Prop} {rsA rsB : List Nat} {base2 : Nat}
    (s : SepInv W PA PB rsA rsB) (hnew : ∀ y n, (y, n) ∈ out → base2 ≤ y)
    (hold : ∀ a, PA a ∨ PB a → a < base2) : SepInv (out ++ W) PA PB rsA rsB := by
  have hl : ∀ a, PA a ∨ PB a → look a (out ++ W) = look a W := by
    intro a ha
    rw [look_append]
    cases ho : look a out with
    | none => rfl
    | some n => have := hnew a n (look_mem ho); have := hold a ha; omega
  exact ⟨s.disj, s.rootsA, s.rootsB,
    fun a n h1 ha => s.closedA a n (by rw [← hl a (.inl ha)]; exact h1) ha,
    fun a n h1 hb => s.closedB a n (by rw [← hl a (.inr hb)]; exact h1) hb⟩


def gobj (props : List PropE) : Node :=
  .obj { rt := 0, cls := "", klass := "object", ext := true, proto := none, props := props, payload := .other "nil" }
def fnObj (id : String) : Node :=
  .obj { rt := 0, cls := "Function", klass := "object", ext := true, proto := none, props := [], payload := .native id }

/-! ### settings -/

/-- **C17.settings_table** — for every setting the property constrains, `Copy()` does what it
    demands: stack depth limit, stack trace limit and random source are in force on the copy, the
    interrupt channel is not shared.  (Finite domain: proved for all five settings, and the harness
    observes all five through behaviour at copy depths 0-3.) -/
theorem settings_table (s : Setting) (b : Bool) (h : Spec.carried s = some b) : carried s = b := by
  cases s <;> simp [Spec.carried] at h <;> simp [carried, h]

/-! ### totality, and the hypotheses as executable checks -/

/-- **C17.clone_total** — fuel is not a restriction: given more fuel than the heap has nodes the
    model of `runtime.clone` never runs out (it returns a copy or the Go panic). -/
theorem clone_total (r : Nat) (h : Heap) (base fuel : Nat) (roots : Roots) (hf : h.length < fuel) :
    (match cloneRuntime r h base fuel roots with | .fuel => false | _ => true) = true :=
  cloneRuntime_nofuel r h base fuel roots hf

theorem checkSource_sound {h : Heap} {base : Nat} {roots : Roots} (hc : checkSource h base roots = true) :
    SourceHeap h base roots := by
  simp only [checkSource, Bool.and_eq_true, List.all_eq_true, decide_eq_true_eq] at hc
  obtain ⟨h1, h2⟩ := hc
  refine ⟨fun a n hl => (h1 (a, n) (look_mem hl)).1, fun a n hl c' hc' => (h1 (a, n) (look_mem hl)).2 c' hc', ?_⟩
  intro a ha
  exact h2 a ha

theorem checkGlobalProto_sound {h : Heap} {roots : Roots} (hc : checkGlobalProto h roots = true) :
    GlobalProtoOK h roots := by
  unfold checkGlobalProto at hc
  split at hc
  · rename_i go p h1 h2
    exact ⟨go, p, h1, by simpa using hc, h2⟩
  · cases hc

/-- non-vacuity: a small runtime meeting every hypothesis, on which the cloner succeeds.
    0 = global object {eval: @2} with prototype 1 = Object.prototype, 2 = eval, 3 = global stash,
    4 = a closure over 5 = a function stash holding the closure itself and its arguments object 6. -/
def hSmall : Heap :=
  [(0, .obj { rt := 0, cls := "", klass := "object", ext := true, proto := some 1,
              props := [⟨"eval", 0o101, .data (.ref 2)⟩, ⟨"f", 0o111, .data (.ref 4)⟩], payload := .other "nil" }),
   (1, gobj [⟨"toString", 0o101, .data (.ref 2)⟩]), (2, fnObj "eval"), (3, .ost 0 none 0),
   (4, .obj { rt := 0, cls := "Function", klass := "object", ext := true, proto := some 1, props := [], payload := .nodeFn "n0" (some 5) }),
   (5, .fn 0 (some 3) [⟨"self", 4, .ref 4⟩, ⟨"arguments", 4, .ref 6⟩] (some 6) []),
   (6, .obj { rt := 0, cls := "Arguments", klass := "arguments", ext := true, proto := some 1,
              props := [⟨"callee", 0o101, .data (.ref 4)⟩], payload := .arguments ["x"] (some 5) })]
def rSmall : Roots := { globalObject := 0, globals := List.replicate 18 1, eval := 2, globalStash := 3 }

example : checkSource hSmall 7 rSmall = true := by decide
example : checkGlobalProto hSmall rSmall = true := by decide
example : (match cloneRuntime 1 hSmall 7 8 rSmall with
    | .ok c => c.roots.globalObject == 7 && c.roots.eval == 9 && c.next == 15 && c.out.length == 8
    | _ => false) = true := by decide

/-! ### regenerated facts about the current sources (GenFacts.lean is rewritten from /repo by
    `ottoh-C17 --facts` on every run): the model's `Node.map` replaces EVERY reference; these facts
    tie that to clone.go / object_class.go / stash.go / type_arguments.go field by field. -/

/-- fields that the clone path deliberately does NOT carry into the copy (they are left at their zero
    value), each with its reason.  EVERY other field of every struct on the clone path – whatever its
    type, also a plain bool or int – must be carried over (`clone_fields_carried`).
    * `runtime.scope`, `runtime.labels`: nil/empty in a runtime at rest – the copy starts at rest;
    * `runtime.halting`, `runtime.haltValue`: set only while an interrupt function's panic is on its way out
      of Run (fixes fd4edef/a1dbda4) – false/nil at rest, and a copy is not being halted;
    * `runtime.otto`: set by `Otto.Copy` (otto.go:640) to the copy's own handle;
    * `runtime.lck`: a mutex is never copied; the copy gets its own (unlocked) one;
    * `Otto.Interrupt`: left nil – a copy has no interrupt channel until the embedder gives it one;
      sharing the template's would break isolation. -/
def notCarried : List (String × String) :=
  [("runtime", "scope"), ("runtime", "labels"), ("runtime", "halting"), ("runtime", "haltValue"), ("runtime", "otto"),
   ("runtime", "lck"), ("Otto", "Interrupt")]

/-- payload types holding a reference that objectClone copies by value: primitive wrappers (`Value`
    holding a primitive), `dateObject` (its `value` is a number), `ottoError` (its `trace` slice is
    written only while the error is constructed), `result` (a completion record, never an object payload) -/
def sharedPayloads : List String := ["Value", "dateObject", "ottoError", "result"]

/-- **C17.clone_fields_carried** — every field of every struct on the clone path, of WHATEVER type, is
    carried into the copy: set from a cloner call / `c.runtime` / a new container (`fresh`), copied by value
    (`shared`: explicitly, or through a whole-struct copy `*out = *in`, `out := in`), or decided per payload
    type (`payload`: object.value) – unless it is on the `notCarried` list.  A field that a clone function
    forgets (e.g. a keyed literal that leaves out the bool `objectStash.provideThis`, so that every object
    environment of a copy behaves like the global one) makes this fail, naming the field. -/
theorem clone_fields_carried :
    Gen.cloneFields.all (fun f => f.2.2.2.2.2 == "fresh" || f.2.2.2.2.2 == "shared" || f.2.2.2.2.2 == "payload" ||
      (f.2.2.2.2.2 == "unset" && notCarried.contains (f.2.1, f.2.2.1))) = true := by decide

/-- **C17.clone_fields_fresh** — every field on the clone path whose type can hold a mutable reference
    (pointer to object/runtime/stash/scope, `stasher`, map, slice, chan, interface, or a struct containing
    one) is assigned from a cloner call, `c.runtime`, or a freshly made container, is `object.value` (decided
    per payload type, see `payload_cases_fresh`), or is on the `notCarried` list AND left at its zero
    value. A field copied by reference (also through a shallow struct copy `out := *o`) makes this fail,
    naming the field. -/
theorem clone_fields_fresh :
    Gen.cloneFields.all (fun f => !f.2.2.2.2.1 || f.2.2.2.2.2 == "fresh" || f.2.2.2.2.2 == "payload" ||
      (f.2.2.2.2.2 == "unset" && notCarried.contains (f.2.1, f.2.2.1))) = true := by decide

/-- the structs and fields are the ones the model transcribes (a new field shows up here);
    `runtime.halting` (fix fd4edef: an interrupt function panicked and the panic is on its way out of Run) is a
    bool the clone leaves at false: a copy is at rest; `objectStash.provideThis` (fix 20f1524: the environment of a
    with statement provides a this value, the global one does not) is a bool copied as it is -/
theorem clone_fields_expected : Gen.cloneFields.map (fun f => (f.2.1, f.2.2.1)) =
    [("object", "value"), ("object", "runtime"), ("object", "objectClass"), ("object", "prototype"), ("object", "property"),
     ("object", "class"), ("object", "propertyOrder"), ("object", "extensible"),
     ("bindFunctionObject", "target"), ("bindFunctionObject", "this"), ("bindFunctionObject", "argumentList"),
     ("nodeFunctionObject", "node"), ("nodeFunctionObject", "stash"),
     ("argumentsObject", "stash"), ("argumentsObject", "indexOfParameterName"),
     ("objectStash", "rt"), ("objectStash", "outr"), ("objectStash", "object"), ("objectStash", "provideThis"),
     ("dclStash", "rt"), ("dclStash", "outr"), ("dclStash", "property"),
     ("fnStash", "dclStash"), ("fnStash", "arguments"), ("fnStash", "indexOfArgumentName"),
     ("property", "value"), ("property", "mode"),
     ("dclProperty", "value"), ("dclProperty", "mutable"), ("dclProperty", "deletable"), ("dclProperty", "readable"),
     ("Value", "value"), ("Value", "kind"),
     ("runtime", "global"), ("runtime", "globalObject"), ("runtime", "globalStash"), ("runtime", "scope"), ("runtime", "otto"),
     ("runtime", "eval"), ("runtime", "debugger"), ("runtime", "random"), ("runtime", "labels"), ("runtime", "halting"), ("runtime", "haltValue"), ("runtime", "stackLimit"),
     ("runtime", "traceLimit"), ("runtime", "lck"), ("Otto", "Interrupt"), ("Otto", "runtime")] := by decide

/-- **C17.payload_cases_fresh** — every payload type objectClone's switch handles either holds no
    mutable reference (nativeFunctionObject: Go function values and strings) or is rebuilt from cloner calls -/
theorem payload_cases_fresh : Gen.payloadCases.all (fun c => !c.2.1 || c.2.2) = true := by decide

theorem payload_cases_expected : Gen.payloadCases.map (·.1) =
    ["nativeFunctionObject", "bindFunctionObject", "nodeFunctionObject", "argumentsObject"] := by decide

/-- **C17.payload_types_handled** — every struct type that the package ever asserts on a `.value`
    and that can hold a mutable reference is one of the switch's cases or on the `sharedPayloads` list -/
theorem payload_types_handled :
    Gen.payloadTypes.all (fun t => !t.2 || (Gen.payloadCases.map (·.1)).contains t.1 || sharedPayloads.contains t.1) = true := by decide

/-! ### histories that used to break `Copy()`: the cloner now succeeds on them (kernel-checked) -/

/-- a minimal runtime: 0 = global object {eval: @1}, 1 = eval, 2 = global stash -/
def hOk : Heap := [(0, gobj [⟨"eval", 0o101, .data (.ref 1)⟩]), (1, fnObj "eval"), (2, .ost 0 none 0)]
def rOk : Roots := { globalObject := 0, globals := [], eval := 1, globalStash := 2 }

def isOk {α : Type} : Res α → Bool
  | .ok _ => true
  | _ => false

example : isOk (cloneRuntime 1 hOk 3 10 rOk) = true := by decide

/-- `delete eval` -/
def hEvalDeleted : Heap := [(0, gobj []), (1, fnObj "eval"), (2, .ost 0 none 0)]
example : (match cloneRuntime 1 hEvalDeleted 3 10 rOk with | .ok c => c.roots.eval == c.phi 1 && c.roots.eval == 5 | _ => false) = true := by decide

/-- `eval = 1` -/
def hEvalNumber : Heap := [(0, gobj [⟨"eval", 0o111, .data (.prim "i1")⟩]), (1, fnObj "eval"), (2, .ost 0 none 0)]
example : isOk (cloneRuntime 1 hEvalNumber 3 10 rOk) = true := by decide

/-- `var e = eval; eval = parseInt`: the copy's `rt.eval` is the image of the builtin, not of parseInt -/
def hEvalOther : Heap := [(0, gobj [⟨"eval", 0o111, .data (.ref 3)⟩, ⟨"e", 0o111, .data (.ref 1)⟩]), (1, fnObj "eval"), (2, .ost 0 none 0), (3, fnObj "parseInt")]
example : (match cloneRuntime 1 hEvalOther 4 10 rOk with
     | .ok c => c.roots.eval == (look 1 c.memo).getD 0 && c.roots.eval != (look 3 c.memo).getD 0
     | _ => false) = true := by decide

/-- a function stash without an arguments object (a parameter named `arguments`) -/
def hNoArgs : Heap :=
  [(0, gobj [⟨"eval", 0o101, .data (.ref 1)⟩, ⟨"f", 0o111, .data (.ref 3)⟩]), (1, fnObj "eval"), (2, .ost 0 none 0),
   (3, .obj { rt := 0, cls := "Function", klass := "object", ext := true, proto := none, props := [], payload := .nodeFn "n0" (some 4) }),
   (4, .fn 0 (some 2) [⟨"arguments", 4, .prim "i1"⟩] none [])]
example : (match cloneRuntime 1 hNoArgs 5 10 rOk with
     | .ok c => look (c.phi 4) c.out == some (.fn 1 (some (c.phi 2)) [⟨"arguments", 4, .prim "i1"⟩] none [])
     | _ => false) = true := by decide

end OttoVerif.C17.Thm
