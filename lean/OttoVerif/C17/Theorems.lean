/-
  C17/Theorems — the ledger for property C17 (every theorem here is audited).
-/
import OttoVerif.C17.Spec
namespace OttoVerif.C17.Thm
open OttoVerif.C17

/-! ### kernel-checked witnesses of the deviation regions (each replayed on the real code by the harness) -/

def gobj (props : List PropE) : Node :=
  .obj { rt := 0, cls := "", klass := "object", ext := true, proto := none, props := props, payload := .other "nil" }
def fnObj (id : String) : Node :=
  .obj { rt := 0, cls := "Function", klass := "object", ext := true, proto := none, props := [], payload := .native id }

/-- a minimal runtime: 0 = global object {eval: @1}, 1 = eval, 2 = global stash -/
def hOk : Heap := [(0, gobj [⟨"eval", 0o101, .data (.ref 1)⟩]), (1, fnObj "eval"), (2, .ost 0 none 0)]
def rOk : Roots := { globalObject := 0, globals := [], eval := 1, globalStash := 2 }

def isPanic {α : Type} : Res α → Bool
  | .panic => true
  | _ => false

/-- non-vacuity: on the minimal runtime the cloner succeeds -/
example : isPanic (cloneRuntime 1 hOk 3 10 rOk) = false := by decide

/-- Dev `eval_rebound` (a): `delete eval` – clone.go:74 asserts `.value.(Value)` on a missing property -/
def hEvalDeleted : Heap := [(0, gobj []), (1, fnObj "eval"), (2, .ost 0 none 0)]
theorem dev_eval_deleted_panics : isPanic (cloneRuntime 1 hEvalDeleted 3 10 rOk) = true := by decide

/-- Dev `eval_rebound` (b): `eval = 1` – `.value.(*object)` on a number -/
def hEvalNumber : Heap := [(0, gobj [⟨"eval", 0o111, .data (.prim "i1")⟩]), (1, fnObj "eval"), (2, .ost 0 none 0)]
theorem dev_eval_number_panics : isPanic (cloneRuntime 1 hEvalNumber 3 10 rOk) = true := by decide

/-- Dev `eval_rebound` (c): `eval = parseInt` – the copy's `rt.eval` becomes the clone of parseInt,
    the original's stays the builtin: the copy is not the image of the original -/
def hEvalOther : Heap := [(0, gobj [⟨"eval", 0o111, .data (.ref 3)⟩, ⟨"e", 0o111, .data (.ref 1)⟩]), (1, fnObj "eval"), (2, .ost 0 none 0), (3, fnObj "parseInt")]
theorem dev_eval_other_not_image :
    (match cloneRuntime 1 hEvalOther 4 10 rOk with
     | .ok c => c.roots.eval == (look 1 c.memo).getD 0
     | _ => true) = false := by decide

/-- Dev `fnstash_nil_arguments`: a function stash without an arguments object (a parameter named
    `arguments`) – stash.go:259 `c.object(nil)` dereferences nil -/
def hNoArgs : Heap :=
  [(0, gobj [⟨"eval", 0o101, .data (.ref 1)⟩, ⟨"f", 0o111, .data (.ref 3)⟩]), (1, fnObj "eval"), (2, .ost 0 none 0),
   (3, .obj { rt := 0, cls := "Function", klass := "object", ext := true, proto := none, props := [], payload := .nodeFn "n0" (some 4) }),
   (4, .fn 0 (some 2) [⟨"arguments", 4, .prim "i1"⟩] none [])]
theorem dev_nil_arguments_panics : isPanic (cloneRuntime 1 hNoArgs 5 10 rOk) = true := by decide

end OttoVerif.C17.Thm
