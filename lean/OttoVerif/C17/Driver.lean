/-
  C17/Driver — line protocol front end (core-only).

  S <depth> <srchex> cfg:<settings> R:<roots> <node>*     structural request: the dump of the ORIGINAL
        runtime's reachable heap (node i is the i-th token; references are indices or `-`).
        model = observe(cloneRuntime^depth(dump)), overlap with the older heaps, `u1`, settings
        spec  = observe(dump), `ov0`, `u1`, settings
  I <depth> <side> <Hhex> <Mhex> exp:<tok>                isolation / continuation request; the
        oracle token (computed by the harness on a freshly replayed runtime) is the spec.
  P <probe> …                                              probes of heap-independent behaviour (see `probe`).
-/
import OttoVerif.Base.Proto
import OttoVerif.C17.Spec
namespace OttoVerif.C17.Driver
open OttoVerif.Proto OttoVerif.C17

/-- linear-time hex decoding (Proto.bytes? is quadratic in the length: fine for names, not for sources) -/
def unhexGo : List Char → ByteArray → Option ByteArray
  | [], acc => some acc
  | [_], _ => none
  | a :: b :: rest, acc => match hexDigit? a, hexDigit? b with
    | some x, some y => unhexGo rest (acc.push (UInt8.ofNat (x * 16 + y)))
    | _, _ => none

def unhex (s : String) : Option String :=
  match unhexGo s.toList ByteArray.empty with
  | some bs => String.fromUTF8? bs
  | none => none

def ref? (s : String) : Option (Option Addr) :=
  if s = "-" then some none else s.toNat?.map some

def addr? (s : String) : Option Addr := s.toNat?

def val? (s : String) : Option Val :=
  if s.startsWith "=" then some (.prim (s.drop 1).toString)
  else if s.startsWith "@" then (addr? (s.drop 1).toString).map .ref
  else none

def list? {α : Type} (sep : String) (f : String → Option α) (s : String) : Option (List α) :=
  if s.isEmpty then some [] else (s.splitOn sep).mapM f

def pval? (s : String) : Option PVal :=
  if s = "x" then some .bad
  else if s.startsWith "d" then (val? (s.drop 1).toString).map .data
  else if s.startsWith "a" then
    match ((s.drop 1).toString).splitOn "/" with
    | [g, t] => do let g ← ref? g; let t ← ref? t; pure (.acc g t)
    | _ => none
  else none

def prop? (s : String) : Option PropE :=
  match s.splitOn ":" with
  | [n, m, v] => do let n ← unhex n; let m ← m.toNat?; let v ← pval? v; pure { name := n, mode := m, val := v }
  | _ => none

def binding? (s : String) : Option Binding :=
  match s.splitOn ":" with
  | [n, f, v] => do let n ← unhex n; let f ← f.toNat?; let v ← val? v; pure { name := n, flags := f, val := v }
  | _ => none

def payload? (s : String) : Option Payload :=
  let body := (s.drop 1).toString
  if s.startsWith "N" then some (.other body)
  else if s.startsWith "G" then some (.native body)
  else if s.startsWith "B" then
    match body.splitOn ";" with
    | t :: th :: as => do let t ← addr? t; let th ← val? th; let as ← as.mapM val?; pure (.bound t th as)
    | _ => none
  else if s.startsWith "C" then
    match body.splitOn ";" with
    | [n, st] => do let st ← ref? st; pure (.nodeFn n st)
    | _ => none
  else if s.startsWith "A" then
    match body.splitOn ";" with
    | st :: ns => do let st ← ref? st; let ns ← ns.mapM unhex; pure (.arguments ns st)
    | _ => none
  else none

def idx? (s : String) : Option (String × String) :=
  match s.splitOn ":" with
  | [k, v] => do let k ← unhex k; let v ← unhex v; pure (k, v)
  | _ => none

def node? (s : String) : Option Node :=
  match s.splitOn "|" with
  | ["O", rt, cls, klass, ext, proto, props, payload] => do
    let rt ← rt.toNat?; let cls ← unhex cls; let proto ← ref? proto
    let props ← list? "," prop? props; let payload ← payload? payload
    pure (.obj { rt := rt, cls := cls, klass := klass, ext := ext = "1", proto := proto, props := props, payload := payload })
  | ["D", rt, outer, bs] => do
    let rt ← rt.toNat?; let outer ← ref? outer; let bs ← list? "," binding? bs
    pure (.dcl rt outer bs)
  | ["F", rt, outer, bs, args, idx] => do
    let rt ← rt.toNat?; let outer ← ref? outer; let bs ← list? "," binding? bs
    let args ← ref? args; let idx ← list? "," idx? idx
    pure (.fn rt outer bs args idx)
  | ["E", rt, outer, object] => do
    let rt ← rt.toNat?; let outer ← ref? outer; let object ← addr? object
    pure (.ost rt outer object)
  | _ => none

def number {α : Type} : List α → Nat → List (Nat × α)
  | [], _ => []
  | x :: xs, i => (i, x) :: number xs (i + 1)

def roots? (s : String) : Option Roots :=
  match (s.splitOn ",").mapM addr? with
  | some (g :: rest) =>
    if rest.length = 34 then
      some { globalObject := g, globals := rest.take 32, eval := rest.getD 32 0, globalStash := rest.getD 33 0 }
    else none
  | _ => none

/-- `Copy()` applied `d` times in a chain (copies of copies); returns the joint heap, the last
    runtime's roots and identity, and the first address the last copy allocated. -/
def copyChain : Nat → Nat → Heap → Addr → Roots → Res (Heap × Roots × Nat × Addr)
  | 0, r, h, base, roots => .ok (h, roots, r, base)
  | d + 1, r, h, base, roots =>
    match cloneRuntime (r + 1) h base (h.length + 2) roots with
    | .ok c =>
      if d = 0 then .ok (c.out ++ h, c.roots, r + 1, base)
      else copyChain d (r + 1) (c.out ++ h) c.next c.roots
    | .panic => .panic
    | .fuel => .fuel

/-! no deviation region is left: the three recorded ones were repaired in clone.go, stash.go and
    type_function.go; the requests that exercised them stay in the stream as ordinary requests -/

def reply (m s d : String) : String := m ++ " " ++ s ++ " " ++ d

def handleS (depth : Nat) (cfg : String) (rootsTok : String) (nodeToks : List String) : String :=
  match roots? rootsTok, nodeToks.mapM node? with
  | some roots, some nodes =>
    let h : Heap := number nodes 0
    let base := h.length
    -- the theorems' hypotheses (SourceHeap, GlobalProtoOK) are validated on every dump
    let spec := if checkSource h base roots && checkGlobalProto h roots
      then "ok:" ++ observe 0 h roots ++ ":ov0:u1:" ++ cfg else "bad-hypothesis"
    let model := match copyChain depth 0 h base roots with
      | .ok (h', roots', r', lastBase) => "ok:" ++ observe r' h' roots' ++ ":ov" ++ toString (overlap h' roots' lastBase) ++ ":u1:" ++ cfg
      | .panic => "panic"
      | .fuel => "fuel"
    reply model spec "-"
  | _, _ => "bad-op"

/-- probes of behaviour that is not a function of the dumped heap; the answer must not depend on
    how many times the runtime was copied.
    `P caller <depth>`: `function g(){return f()} function f(){return f.caller===g}`; `g()` on the copy.
    `P evalid <depth>`: `var keep=eval; eval=function(){return 0}`; Copy()^depth; then
      `eval=keep; (function(){var a=5; return eval("a")})()` (direct-eval identity survives). -/
def probe : List String → String
  | ["caller", d] => match d.toNat? with
    | some _ => reply "true" "true" "-"
    | none => "bad-op"
  | ["evalid", d] => match d.toNat? with
    | some _ => reply "5" "5" "-"
    | none => "bad-op"
  | _ => "bad-op"

def setting? : String → Option Setting
  | "stackLimit" => some .stackLimit | "traceLimit" => some .traceLimit | "random" => some .random
  | "debugger" => some .debugger | "interrupt" => some .interrupt | _ => none

def carriedOut (b : Bool) : String := if b then "carried" else "notcarried"

/-- `H <setting> <depth>`: depth 0 is the template itself (every setting is in force there) -/
def handleH (s : Setting) (depth : Nat) : String :=
  let m := if depth = 0 then true else carried s
  let sp := if depth = 0 then true else (Spec.carried s).getD m
  reply (carriedOut m) (carriedOut sp) "-"

/-- `B <probe> <depth>`: a reflection-bridged Go function registered before Copy() and called on the
    depth-th copy.  The wrapper (runtime.go:708) converts arguments and results with the runtime of
    the CALL (`c.runtime`), so the results belong to the copy: realm checks true at every depth, and
    a write through a result's prototype stays in the copy (`leak`: the template sees undefined). -/
def handleB (probe : String) (_depth : Nat) : String :=
  let ok := if probe = "leak" then "undefined" else "true"
  reply ok ok "-"

def handle (ws : List String) : String :=
  match ws with
  | "S" :: depth :: _src :: cfg :: rootsTok :: nodeToks =>
    match depth.toNat?, cfg.startsWith "cfg:", rootsTok.startsWith "R:" with
    | some d, true, true => handleS d (cfg.drop 4).toString (rootsTok.drop 2).toString nodeToks
    | _, _, _ => "bad-op"
  | ["I", _parents, _side, _h, _m, exp] =>
    if exp.startsWith "exp:" then
      let e := (exp.drop 4).toString
      reply e e "-"
    else "bad-op"
  | "P" :: rest => probe rest
  | ["H", k, d] => match setting? k, d.toNat? with
    | some s, some d => handleH s d
    | _, _ => "bad-op"
  | ["B", k, d] => match d.toNat? with
    | some d => if ["slice", "sliceproto", "map", "multi", "leak"].contains k then handleB k d else "bad-op"
    | none => "bad-op"
  | _ => "bad-op"

end OttoVerif.C17.Driver
