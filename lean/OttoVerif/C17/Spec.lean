/-
  C17/Spec — what the property demands of `Copy()` (core-only).

  (1) EQUIVALENT: the copy's reachable heap is the image of the original's reachable heap under
      a renaming φ of addresses (structure, property order, attributes, captured bindings, bound
      targets/arguments, arguments-object aliasing, built-ins as modified — everything a script
      can depend on; a script cannot observe addresses).
  (2) INDEPENDENT: nothing reachable from the copy's roots lies in the original's heap (and vice
      versa), so no write through one runtime can reach a node the other can see.
  (3) the original is left as it was.

  `observe` is the executable form of (1): the canonical text of the heap reachable from the
  roots, with addresses replaced by depth-first discovery numbers.  Two rooted heaps have the same
  canonical text iff they are related by such a φ — up to the identity of objectStash records
  (`*objectStash` = {runtime, outer, object}, stash.go:24: never written after creation, never
  compared by pointer), which are printed inline at each reference.  `Copy()` must produce a
  runtime whose `observe` equals that of the original, with no overlap.
-/
import OttoVerif.C17.Model
namespace OttoVerif.C17

/-! ### reachability, isomorphism, separation (used by the theorems) -/

inductive Reach (h : Heap) (roots : List Addr) : Addr → Prop
  | root {a} : a ∈ roots → Reach h roots a
  | step {a b n} : Reach h roots a → look a h = some n → b ∈ n.refs → Reach h roots b

/-- `h'` at `φ a` holds the φ-image of what `h` holds at `a`, for every `a` in `dom`. -/
def ImageOn (r : Nat) (φ : Addr → Addr) (dom : Addr → Prop) (h h' : Heap) : Prop :=
  ∀ a, dom a → ∀ n, look a h = some n → look (φ a) h' = some (n.map r φ)

def InjOn (φ : Addr → Addr) (dom : Addr → Prop) : Prop :=
  ∀ a b, dom a → dom b → φ a = φ b → a = b

/-- every reference stored in `h'` is an address `≥ base` (i.e. not a node of the source heap) -/
def Separated (base : Addr) (h' : Heap) : Prop :=
  ∀ b n, (b, n) ∈ h' → base ≤ b ∧ ∀ c ∈ n.refs, base ≤ c

/-! ### the hypotheses of the theorems, as executable checks (run by the driver on every dump) -/

/-- the dumped heap lies below `base`, is closed under references, and so are its roots -/
def checkSource (h : Heap) (base : Addr) (roots : Roots) : Bool :=
  h.all (fun kv => decide (kv.1 < base) && kv.2.refs.all (fun c => decide (c < base))) &&
  (roots.globalObject :: (roots.globals ++ [roots.eval, roots.globalStash])).all (fun a => decide (a < base))

/-- the global object's prototype is `rt.global.ObjectPrototype` -/
def checkGlobalProto (h : Heap) (roots : Roots) : Bool :=
  match look roots.globalObject h, roots.globals[objectPrototypeIx]? with
  | some (.obj go), some p => go.proto == some p
  | _, _ => false

/-! ### canonical observation -/

def hexDigit (n : Nat) : Char :=
  if n < 10 then Char.ofNat (n + 48) else Char.ofNat (n + 87)

def hexOfString (s : String) : String :=
  String.ofList (s.toUTF8.toList.flatMap (fun b => [hexDigit (b.toNat / 16), hexDigit (b.toNat % 16)]))

def joinWith (sep : String) : List String → String
  | [] => ""
  | [x] => x
  | x :: xs => x ++ sep ++ joinWith sep xs

def optRef (cref : Addr → String) : Option Addr → String
  | none => "-"
  | some a => cref a

def valStr (cref : Addr → String) : Val → String
  | .prim p => "=" ++ p
  | .ref a => "@" ++ cref a

def pvalStr (cref : Addr → String) : PVal → String
  | .data v => "d" ++ valStr cref v
  | .acc g s => "a" ++ optRef cref g ++ "/" ++ optRef cref s
  | .bad => "x"

def propStr (cref : Addr → String) (p : PropE) : String :=
  hexOfString p.name ++ ":" ++ toString p.mode ++ ":" ++ pvalStr cref p.val

def payloadStr (cref : Addr → String) : Payload → String
  | .other t => "N" ++ t
  | .native i => "G" ++ i
  | .bound t th as => "B" ++ joinWith ";" (cref t :: valStr cref th :: as.map (valStr cref))
  | .nodeFn n s => "C" ++ n ++ ";" ++ optRef cref s
  | .arguments ns s => "A" ++ joinWith ";" (optRef cref s :: ns.map hexOfString)

def bindingStr (cref : Addr → String) (b : Binding) : String :=
  hexOfString b.name ++ ":" ++ toString b.flags ++ ":" ++ valStr cref b.val

def rtStr (own r : Nat) : String := if r = own then "0" else "1"

/-- one node as a token; `cref` prints references, `own` is the runtime being observed -/
def nodeStr (own : Nat) (cref : Addr → String) : Node → String
  | .obj o => joinWith "|" ["O", rtStr own o.rt, hexOfString o.cls, o.klass, (if o.ext then "1" else "0"),
      optRef cref o.proto, joinWith "," (o.props.map (propStr cref)), payloadStr cref o.payload]
  | .dcl r outer bs => joinWith "|" ["D", rtStr own r, optRef cref outer, joinWith "," (bs.map (bindingStr cref))]
  | .fn r outer bs args idx => joinWith "|" ["F", rtStr own r, optRef cref outer, joinWith "," (bs.map (bindingStr cref)),
      optRef cref args, joinWith "," (idx.map (fun kv => hexOfString kv.1 ++ ":" ++ hexOfString kv.2))]
  | .ost r outer object => joinWith "|" ["E", rtStr own r, optRef cref outer, cref object]

def isOst : Option Node → Bool
  | some (.ost ..) => true
  | _ => false

/-- depth-first discovery order from the roots (reverse list), visiting `Node.refs` in order -/
def visit (h : Heap) : Nat → Addr → List Addr → List Addr
  | 0, _, seen => seen
  | fuel + 1, a, seen =>
    if seen.contains a then seen else
    match look a h with
    | none => a :: seen
    | some n => n.refs.foldl (fun s b => visit h fuel b s) (a :: seen)

def indexOf (a : Addr) : List Addr → Nat → Option Nat
  | [], _ => none
  | x :: xs, i => if x = a then some i else indexOf a xs (i + 1)

/-- canonical reference: discovery number among the non-objectStash nodes; an objectStash is
    printed inline (its identity is not observable) -/
def cref (own : Nat) (h : Heap) (order : List Addr) : Nat → Addr → String
  | 0, _ => "!"
  | fuel + 1, a =>
    match look a h with
    | some (.ost r outer object) =>
      "E" ++ rtStr own r ++ "(" ++ (match outer with | none => "-" | some o => cref own h order fuel o) ++ "~" ++ cref own h order fuel object ++ ")"
    | _ => match indexOf a order 0 with
      | some i => toString i
      | none => "?"

def fnv1a (s : String) : UInt64 :=
  s.toUTF8.foldl (fun hsh b => (hsh ^^^ b.toUInt64) * 1099511628211) 14695981039346656037

def rootList (roots : Roots) : List Addr :=
  roots.globalObject :: (roots.globals ++ [roots.eval, roots.globalStash])

/-- the canonical text of the heap reachable from `roots` -/
def canonText (own : Nat) (h : Heap) (roots : Roots) : String :=
  let rs := rootList roots
  let fuel := h.length + 2
  let seen := (rs.foldl (fun s a => visit h fuel a s) []).reverse
  let order := seen.filter (fun a => !isOst (look a h))
  let cr := cref own h order 64
  let nodes := order.map (fun a => match look a h with
    | some n => nodeStr own cr n
    | none => "dangling")
  joinWith " " (("R:" ++ joinWith "," (rs.map cr)) :: nodes)

/-- what an observer of the runtime rooted at `roots` can see (hash of the canonical text, node count) -/
def observe (own : Nat) (h : Heap) (roots : Roots) : String :=
  let t := canonText own h roots
  toString (fnv1a t).toNat

/-- number of nodes reachable from `roots` that live below `base` (i.e. in an older runtime's heap) -/
def overlap (h : Heap) (roots : Roots) (base : Addr) : Nat :=
  let rs := rootList roots
  let seen := rs.foldl (fun s a => visit h (h.length + 2) a s) []
  (seen.filter (fun a => a < base)).length

/-! ### settings: what equivalence and isolation demand -/

/-- * a setting a script's RESULT depends on must be in force on the copy (equivalence: "every
      script produces the same result on the copy"): the stack depth limit (where a deep recursion
      throws RangeError), the stack trace limit (the text of `Error().stack`), the random source
      (`Math.random`);
    * the interrupt channel is how the embedder reaches ONE runtime from outside: sharing it would
      let a script running on the copy swallow (and be unwound by) a function sent to the template –
      isolation demands that it is NOT carried;
    * the debugger handler is host code with no script-visible result: unconstrained. -/
def Spec.carried : Setting → Option Bool
  | .stackLimit => some true
  | .traceLimit => some true
  | .random => some true
  | .debugger => none
  | .interrupt => some false

end OttoVerif.C17
