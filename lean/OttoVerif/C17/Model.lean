/-
  C17/Model — transcription of otto's heap cloner (core-only).

  Go's memory is ONE heap in which both runtimes live; `Copy()` allocates the clone's nodes in the
  same address space.  A heap is therefore a partial map `Addr → Node`; the source heap occupies
  addresses `< base`, the cloner allocates upwards from `base`.

  Node kinds (one per Go struct that the cloner allocates):
    obj   *object        (object.go:3)          payload = object.value
    dcl   *dclStash      (stash.go:112)
    fn    *fnStash       (stash.go:231)
    ost   *objectStash   (stash.go:24)
  Everything else the cloner copies *by value* (strings, numbers, `*nodeFunctionLiteral`,
  `*regexp.Regexp`, Go function values, `*objectClass`) is an opaque token here: these are the
  kinds declared immutable in the statement of `clone_disjoint`.
-/
namespace OttoVerif.C17

scoped notation "Addr" => Nat

/-- `Value` (value.go:29): clone.go:122 `cloner.value` follows only `*object` payloads. -/
inductive Val
  | prim (p : String)
  | ref (a : Addr)
  deriving Repr, DecidableEq, Inhabited

/-- `property.value` (property.go:19): `Value`, `propertyGetSet` (nil entries allowed), or
    anything else (clone.go:160 panics). -/
inductive PVal
  | data (v : Val)
  | acc (g s : Option Addr)
  | bad
  deriving Repr, DecidableEq, Inhabited

structure PropE where
  name : String
  mode : Nat
  val  : PVal
  deriving Repr, DecidableEq, Inhabited

/-- `object.value`, as far as object_class.go:470 `objectClone` distinguishes it. -/
inductive Payload
  | other (tag : String)                                  -- nil, date, regexp, string, error, primitive: `*out = *in`
  | native (id : String)                                  -- nativeFunctionObject: `out.value = value` (Go func values shared)
  | bound (target : Addr) (this : Val) (args : List Val)  -- bindFunctionObject
  | nodeFn (node : String) (stash : Option Addr)          -- nodeFunctionObject: node shared, stash cloned
  | arguments (names : List String) (stash : Option Addr) -- argumentsObject (type_arguments.go:33)
  deriving Repr, DecidableEq, Inhabited

structure Obj where
  rt      : Nat            -- object.runtime (0 = the runtime the dump was taken from)
  cls     : String         -- object.class
  klass   : String         -- object.objectClass (by name; "nil" for the zero object)
  ext     : Bool
  proto   : Option Addr
  props   : List PropE      -- object.property in object.propertyOrder order
  payload : Payload
  deriving Repr, DecidableEq, Inhabited

structure Binding where
  name  : String
  flags : Nat
  val   : Val
  deriving Repr, DecidableEq, Inhabited

inductive Node
  | obj (o : Obj)
  | dcl (rt : Nat) (outer : Option Addr) (bs : List Binding)
  | fn  (rt : Nat) (outer : Option Addr) (bs : List Binding) (arguments : Option Addr) (index : List (String × String))
  | ost (rt : Nat) (outer : Option Addr) (object : Addr)
  deriving Repr, DecidableEq, Inhabited

/-! ### outgoing references, in the order the Go cloner visits them -/

def optRefs : Option Addr → List Addr
  | none => []
  | some a => [a]

def Val.refs : Val → List Addr
  | .prim _ => []
  | .ref a => [a]

def valsRefs : List Val → List Addr
  | [] => []
  | v :: vs => v.refs ++ valsRefs vs

def PVal.refs : PVal → List Addr
  | .data v => v.refs
  | .acc g s => optRefs g ++ optRefs s
  | .bad => []

def propsRefs : List PropE → List Addr
  | [] => []
  | p :: ps => p.val.refs ++ propsRefs ps

def Payload.refs : Payload → List Addr
  | .other _ => []
  | .native _ => []
  | .bound t th as => t :: (th.refs ++ valsRefs as)
  | .nodeFn _ s => optRefs s
  | .arguments _ s => optRefs s

def bindingsRefs : List Binding → List Addr
  | [] => []
  | b :: bs => b.val.refs ++ bindingsRefs bs

/-- objectClone: prototype, properties, payload.  dclStash.clone: properties, outer.
    fnStash.clone: the embedded dclStash (properties, outer), then arguments.
    objectStash.clone: outer, object.
    (Go ranges over the property *maps* in random order; only the allocation order of the clones
    depends on it, which no observer sees.  The model visits in propertyOrder / name order.) -/
def Node.refs : Node → List Addr
  | .obj o => optRefs o.proto ++ (propsRefs o.props ++ o.payload.refs)
  | .dcl _ outer bs => bindingsRefs bs ++ optRefs outer
  | .fn _ outer bs args _ => bindingsRefs bs ++ (optRefs outer ++ optRefs args)
  | .ost _ outer object => optRefs outer ++ [object]

/-! ### the same node with every reference sent through `f` and the runtime back-pointer set to `r` -/

def optMap (f : Addr → Addr) : Option Addr → Option Addr
  | none => none
  | some a => some (f a)

def Val.map (f : Addr → Addr) : Val → Val
  | .prim p => .prim p
  | .ref a => .ref (f a)

def valsMap (f : Addr → Addr) : List Val → List Val
  | [] => []
  | v :: vs => v.map f :: valsMap f vs

def PVal.map (f : Addr → Addr) : PVal → PVal
  | .data v => .data (v.map f)
  | .acc g s => .acc (optMap f g) (optMap f s)
  | .bad => .bad

def propsMap (f : Addr → Addr) : List PropE → List PropE
  | [] => []
  | p :: ps => { p with val := p.val.map f } :: propsMap f ps

def Payload.map (f : Addr → Addr) : Payload → Payload
  | .other t => .other t
  | .native i => .native i
  | .bound t th as => .bound (f t) (th.map f) (valsMap f as)
  | .nodeFn n s => .nodeFn n (optMap f s)
  | .arguments ns s => .arguments ns (optMap f s)

def bindingsMap (f : Addr → Addr) : List Binding → List Binding
  | [] => []
  | b :: bs => { b with val := b.val.map f } :: bindingsMap f bs

/-- what the clone functions write into `*out`: every field copied, pointers replaced by the
    result of the corresponding `c.object` / `c.stash` call, `runtime` set to `c.runtime`. -/
def Node.map (r : Nat) (f : Addr → Addr) : Node → Node
  | .obj o => .obj { o with rt := r, proto := optMap f o.proto, props := propsMap f o.props, payload := o.payload.map f }
  | .dcl _ outer bs => .dcl r (optMap f outer) (bindingsMap f bs)
  | .fn _ outer bs args idx => .fn r (optMap f outer) (bindingsMap f bs) (optMap f args) idx
  | .ost _ outer object => .ost r (optMap f outer) (f object)

/-! ### Go-level panics inside the clone of one node -/

def propsBad : List PropE → Bool
  | [] => false
  | p :: ps => (match p.val with | .bad => true | _ => false) || propsBad ps

/-- * an object whose `objectClass` is nil (the zero `object{}`): `in.objectClass.clone` is a nil
      dereference.
    * a property whose value is neither `Value` nor `propertyGetSet`: clone.go:160.
    (A function stash without an arguments object – a parameter named `arguments` – is fine:
    stash.go:259 guards the nil.) -/
def Node.panics : Node → Bool
  | .obj o => o.klass == "nil" || propsBad o.props
  | _ => false

/-! ### the cloner -/

abbrev Heap := List (Addr × Node)

def look {α : Type} (a : Addr) : List (Addr × α) → Option α
  | [] => none
  | (k, v) :: rest => if k = a then some v else look a rest

/-- `cloner` (clone.go:7): the memo tables (one per pointer type in Go; a Go pointer has exactly
    one of the four types, so one table keyed by address is the same thing), plus the Go
    allocator (`next`) and the nodes written so far (`out`). -/
structure St where
  memo : List (Addr × Addr)
  out  : Heap
  next : Addr
  deriving Repr

inductive Res (α : Type)
  | ok (a : α)
  | panic
  | fuel
  deriving Repr

/-- the address `c.object(a)` / `c.stash(a)` returned: after the call it is what the memo holds -/
def St.at (st : St) (a : Addr) : Addr := (look a st.memo).getD a

def forRefs (f : Addr → St → Res St) : List Addr → St → Res St
  | [], st => .ok st
  | a :: as, st => match f a st with
    | .ok st' => forRefs f as st'
    | .panic => .panic
    | .fuel => .fuel

/-- `cloner.object` (clone.go:86) / `cloner.dclStash|objectStash|fnStash` (clone.go:95-120)
    followed by the class's clone function (object_class.go:457, stash.go:46/130/247):
    memo hit → return it; otherwise allocate `out`, enter it into the memo FIRST (this is what
    makes cycles terminate), clone every outgoing reference in order, then fill `*out`.
    `r` is `c.runtime`, `h` the source heap.  Fuel bounds the recursion depth. -/
def cloneRef (r : Nat) (h : Heap) : Nat → Addr → St → Res St
  | 0, _, _ => .fuel
  | fuel + 1, a, st =>
    match look a st.memo with
    | some _ => .ok st
    | none =>
      match look a h with
      | none => .panic                                   -- nil / dangling pointer dereference
      | some n =>
        if n.panics then .panic else
        let b := st.next
        let st1 : St := { memo := (a, b) :: st.memo, out := st.out, next := b + 1 }
        match forRefs (cloneRef r h fuel) n.refs st1 with
        | .ok st2 => .ok { st2 with out := (b, n.map r st2.at) :: st2.out }
        | .panic => .panic
        | .fuel => .fuel

/-- the roots of a runtime (runtime.go:56): globalObject, the 32 fields of `rt.global`,
    `rt.eval`, `rt.globalStash`. -/
structure Roots where
  globalObject : Addr
  globals      : List Addr      -- rt.global.Object … rt.global.URIErrorPrototype, in struct order
  eval         : Addr
  globalStash  : Addr
  deriving Repr, DecidableEq

/-- index of `ObjectPrototype` in `rt.global` (runtime.go:20: 17 constructors/namespaces first) -/
def objectPrototypeIx : Nat := 17

def setProto (p : Option Addr) : Node → Node
  | .obj o => .obj { o with proto := p }
  | n => n

def updateAt (a : Addr) (f : Node → Node) : Heap → Heap
  | [] => []
  | (k, v) :: rest => if k = a then (k, f v) :: rest else (k, v) :: updateAt a f rest

structure Cloned where
  roots : Roots
  out   : Heap          -- the nodes `Copy()` allocated
  memo  : List (Addr × Addr)
  next  : Addr          -- the allocator after the copy
  deriving Repr

/-- `runtime.clone` (clone.go:14).  `base` = first free address, `r` = identity of the new runtime. -/
def cloneRuntime (r : Nat) (h : Heap) (base : Addr) (fuel : Nat) (roots : Roots) : Res Cloned :=
  let st0 : St := { memo := [], out := [], next := base }
  -- clone.go:34  globalObject := c.object(rt.globalObject)
  match cloneRef r h fuel roots.globalObject st0 with
  | .panic => .panic | .fuel => .fuel
  | .ok st1 =>
    let g' := st1.at roots.globalObject
    -- clone.go:35  out.globalStash = out.newObjectStash(globalObject, nil)  — a FRESH stash, not the
    -- memoised clone of rt.globalStash that cloned functions refer to
    let gs' := st1.next
    let st2 : St := { st1 with out := (gs', .ost r none g') :: st1.out, next := gs' + 1 }
    -- clone.go:37-72  the 32 fields of rt.global
    match forRefs (cloneRef r h fuel) roots.globals st2 with
    | .panic => .panic | .fuel => .fuel
    | .ok st3 =>
      -- clone.go:74  out.eval = c.object(rt.eval)
      match cloneRef r h fuel roots.eval st3 with
      | .panic => .panic | .fuel => .fuel
      | .ok st4 =>
        -- clone.go:75  out.globalObject.prototype = out.global.ObjectPrototype
        let gl' := roots.globals.map st4.at
        .ok { roots := { globalObject := g', globals := gl', eval := st4.at roots.eval, globalStash := gs' }
              out := updateAt g' (setProto gl'[objectPrototypeIx]?) st4.out
              memo := st4.memo
              next := st4.next }

/-! ### runtime- and handle-level settings -/

/-- what the embedder can configure on an `Otto` handle besides the heap -/
inductive Setting
  | stackLimit    -- SetStackDepthLimit   (runtime.stackLimit)
  | traceLimit    -- SetStackTraceLimit   (runtime.traceLimit)
  | random        -- SetRandomSource      (runtime.random)
  | debugger      -- SetDebuggerHandler   (runtime.debugger)
  | interrupt     -- the public field Otto.Interrupt (a channel the embedder sends halt functions on)
  deriving Repr, DecidableEq

/-- is the template's setting in force on a copy?  `runtime.clone` (clone.go:18-23) builds the new
    runtime as `&runtime{debugger: rt.debugger, random: rt.random, stackLimit: rt.stackLimit,
    traceLimit: rt.traceLimit}`; `Otto.Copy` (otto.go:635) builds a FRESH handle
    `&Otto{runtime: …}`, whose `Interrupt` is the zero value. -/
def carried : Setting → Bool
  | .stackLimit => true
  | .traceLimit => true
  | .random => true
  | .debugger => true
  | .interrupt => false

end OttoVerif.C17
