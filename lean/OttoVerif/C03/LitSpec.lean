/-
  C03/LitSpec — ES5 §7.8.3 (MV of a NumericLiteral, + Annex B.1.1 legacy octal) and §7.8.4 (SV of a StringLiteral,
  + Annex B.1.2 octal escapes), written from the standard.  Source text is given as runes.
-/
import OttoVerif.Base.F64
import OttoVerif.Base.Str
namespace OttoVerif.C03.LitSpec
open OttoVerif OttoVerif.F64

def isDec (c : Nat) : Bool := 48 ≤ c ∧ c ≤ 57
def isOctD (c : Nat) : Bool := 48 ≤ c ∧ c ≤ 55
def hexVal (c : Nat) : Option Nat :=
  if 48 ≤ c ∧ c ≤ 57 then some (c - 48) else if 97 ≤ c ∧ c ≤ 102 then some (c - 87) else if 65 ≤ c ∧ c ≤ 70 then some (c - 55) else none

def digitsVal (base : Nat) (ds : List Nat) : Nat := ds.foldl (fun v c => v * base + ((hexVal c).getD 0)) 0

/-- MV as an exact rational `num/den` (§7.8.3), `none` if the text is not a NumericLiteral -/
def mv (s : List Nat) : Option (Nat × Nat) :=
  match s with
  | 48 :: x :: ds =>
    if (x = 120 ∨ x = 88) then
      (if !ds.isEmpty ∧ ds.all (fun c => (hexVal c).isSome) then some (digitsVal 16 ds, 1) else none)   -- HexIntegerLiteral
    else if isDec x ∧ (x :: ds).all isOctD then some (digitsVal 8 (x :: ds), 1)                        -- B.1.1 LegacyOctalIntegerLiteral
    else decimal s
  | _ => decimal s
where
  /-- DecimalLiteral :: DecimalIntegerLiteral . DecimalDigits? ExponentPart? | . DecimalDigits ExponentPart? | DecimalIntegerLiteral ExponentPart? -/
  decimal (s : List Nat) : Option (Nat × Nat) :=
    let ip := s.takeWhile isDec
    let r := s.drop ip.length
    let (fp, r, dot) : List Nat × List Nat × Bool := match r with
      | 46 :: r' => let f := r'.takeWhile isDec; (f, r'.drop f.length, true)
      | _ => ([], r, false)
    -- DecimalIntegerLiteral :: 0 | NonZeroDigit DecimalDigits?
    let ipOK := match ip with | [] => dot ∧ !fp.isEmpty | [_] => true | 48 :: _ => false | _ => true
    if !ipOK then none else
    let expo : Option Int := match r with
      | [] => some 0
      | e :: r' => if e = 101 ∨ e = 69 then
          (match r' with
           | 43 :: ds => if !ds.isEmpty ∧ ds.all isDec then some (digitsVal 10 ds : Int) else none
           | 45 :: ds => if !ds.isEmpty ∧ ds.all isDec then some (-(digitsVal 10 ds : Int)) else none
           | ds => if !ds.isEmpty ∧ ds.all isDec then some (digitsVal 10 ds : Int) else none)
        else none
    match expo with
    | none => none
    | some e =>
      let m := digitsVal 10 (ip ++ fp)
      let e10 : Int := e - fp.length
      if e10 ≥ 0 then some (m * 10 ^ e10.toNat, 1) else some (m, 10 ^ (-e10).toNat)

/-- the Number value for MV (§7.8.3 last paragraph + §8.5: round to nearest, ties to even) -/
def numberValue (s : List Nat) : Option FV := (mv s).map fun (n, d) => ofRatParts false n d

def isLT (c : Nat) : Bool := c = 10 ∨ c = 13 ∨ c = 0x2028 ∨ c = 0x2029

/-- code units of a code point (§6: SourceCharacter beyond the BMP is a surrogate pair) -/
def units (c : Nat) : List Nat := if c < 0x10000 then [c] else [0xD800 + (c - 0x10000) / 1024, 0xDC00 + (c - 0x10000) % 1024]

def hexU (n : Nat) (s : List Nat) : Option Nat :=
  if s.length < n then none else (s.take n).foldl (fun acc c => acc.bind fun v => (hexVal c).map fun d => v * 16 + d) (some 0)

/-- SV of the characters between the quotes, as UTF-16 code units (§7.8.4, B.1.2) -/
def sv : Nat → List Nat → Option (List Nat)
  | 0, _ => none
  | _+1, [] => some []
  | fuel+1, c :: rest =>
    if c ≠ 92 then (if isLT c then none else (sv fuel rest).map (units c ++ ·))
    else match rest with
      | [] => none
      | e :: r =>
        if e = 13 then (match r with | 10 :: r' => sv fuel r' | _ => sv fuel r)     -- LineContinuation :: \ LineTerminatorSequence
        else if isLT e then sv fuel r
        else if e = 120 then (hexU 2 r).bind fun v => (sv fuel (r.drop 2)).map (v :: ·)
        else if e = 117 then (hexU 4 r).bind fun v => (sv fuel (r.drop 4)).map (v :: ·)
        else if isOctD e then
          -- B.1.2: OctalDigit | ZeroToThree OctalDigit | FourToSeven OctalDigit | ZeroToThree OctalDigit OctalDigit
          match r with
          | a :: r1 =>
            if isOctD a then
              (if e ≤ 51 then
                (match r1 with
                 | b :: r2 => if isOctD b then (sv fuel r2).map (((e-48)*64 + (a-48)*8 + (b-48)) :: ·)
                              else (sv fuel r1).map (((e-48)*8 + (a-48)) :: ·)
                 | [] => (sv fuel r1).map (((e-48)*8 + (a-48)) :: ·))
               else (sv fuel r1).map (((e-48)*8 + (a-48)) :: ·))
            else if isDec a then none            -- [lookahead ∉ DecimalDigit]
            else (sv fuel r).map ((e-48) :: ·)
          | [] => some [e - 48]
        else if e = 56 ∨ e = 57 then none          -- \8 \9: DecimalDigit is excluded from NonEscapeCharacter
        else
          let single : Nat := if e = 98 then 8 else if e = 116 then 9 else if e = 110 then 10 else if e = 118 then 11
                              else if e = 102 then 12 else if e = 114 then 13 else e
          (sv fuel r).map (units single ++ ·)

end OttoVerif.C03.LitSpec
