/-  C03/NumTokLemmas — proof that the scanner model ends numeric literal tokens where ES5 7.8.3 does (core-only). -/
import OttoVerif.C03.Lit
namespace OttoVerif.C03.Lit.NumTok

theorem isE_idStart {e : Nat} (h : isE e = true) : isIdStart e = true := by
  simp [isE] at h; rcases h with h | h <;> subst h <;> decide

theorem tail_none_of_E {e : Nat} (h : isE e = true) (r : List Nat) : tailCheck (e :: r) = none := by
  simp [tailCheck, isE_idStart h]

/-- `exponent:` followed by the tail test = the tail test after the (complete) ExponentPart -/
theorem expo_eq (r : List Nat) : (exponentPart r).bind tailCheck = tailCheck (specExpo r) := by
  match r with
  | [] => rfl
  | e :: r1 =>
    by_cases he : isE e = true
    · simp only [exponentPart, specExpo, he, if_true]
      match r1 with
      | [] => simp [tail_none_of_E he]
      | [c] =>
        by_cases hs : c = 45 ∨ c = 43
        · have hd : isDec c = false := by rcases hs with h | h <;> subst h <;> decide
          simp [hs, hd, tail_none_of_E he]
        · by_cases hd : isDec c = true
          · simp [hs, hd]
          · simp [hs, hd, tail_none_of_E he]
      | c :: d :: r' =>
        by_cases hs : c = 45 ∨ c = 43
        · have hdc : isDec c = false := by rcases hs with h | h <;> subst h <;> decide
          by_cases hd : isDec d = true
          · simp [hs, hd]
          · simp [hs, hd, hdc, tail_none_of_E he]
        · by_cases hd : isDec c = true
          · simp [hs, hd]
          · simp [hs, hd, tail_none_of_E he]
    · simp [exponentPart, specExpo, he]

theorem float_eq (r : List Nat) : floatPart r = tailCheck (specFrac r) := by
  unfold floatPart specFrac
  split <;> exact expo_eq _


theorem isE_not_oct {x : Nat} (h : isE x = true) : isOct x = false := by
  simp [isE] at h; rcases h with h | h <;> subst h <;> decide

/-- for one leading `0` and the next character `x` that is neither `x/X`, `.`, nor `e/E` -/
theorem zero_default (x : Nat) (r : List Nat) (hdot : x ≠ 46) (he : isE x = false) :
    octalTail (x :: r) = tailCheck (if isOct x then (x :: r).dropWhile isOct else specFrac (x :: r)) := by
  unfold octalTail
  by_cases ho : isOct x = true
  · simp only [ho, if_true]
    cases hdw : (x :: r).dropWhile isOct with
    | nil => rfl
    | cons c t =>
      simp only
      by_cases h89 : c = 56 ∨ c = 57
      · have : isDec c = true := by rcases h89 with h | h <;> subst h <;> decide
        simp [h89, tailCheck, this]
      · simp [h89]
  · have ho' : isOct x = false := by simpa using ho
    have hdw : (x :: r).dropWhile isOct = x :: r := by simp [List.dropWhile, ho']
    have hfrac : specFrac (x :: r) = x :: r := by
      unfold specFrac
      split
      · rename_i heq; simp at heq; exact absurd heq.1 hdot
      · simp [specExpo, he]
    simp only [hdw, ho', hfrac, Bool.false_eq_true, if_false]
    by_cases h89 : x = 56 ∨ x = 57
    · have : isDec x = true := by rcases h89 with h | h <;> subst h <;> decide
      simp [h89, tailCheck, this]
    · simp [h89]

/-- NUMERIC TOKEN END: for EVERY text, the transcription of otto's `scan`/`scanNumericLiteral` ends the numeric literal token
    (or reports ILLEGAL) exactly where ES5 7.8.3 (+ B.1.1) does: longest NumericLiteral, not followed by an IdentifierStart
    or DecimalDigit. -/
theorem scanModel_eq_spec (s : List Nat) : scanModel s = scanSpec s := by
  unfold scanSpec
  match s with
  | [] => simpa [scanModel, specLiteralEnd] using float_eq []
  | c :: r =>
    by_cases h46 : c = 46
    · subst h46; simpa [scanModel, specLiteralEnd] using expo_eq (r.dropWhile isDec)
    by_cases h48 : c = 48
    · subst h48
      match r with
      | [] => simp [scanModel, specLiteralEnd, specFrac, specExpo]
      | x :: r =>
        have hfracE : x ≠ 46 → specFrac (x :: r) = specExpo (x :: r) := by
          intro hne; unfold specFrac; split
          · rename_i heq; simp at heq; exact absurd heq.1 hne
          · rfl
        by_cases hx : x = 120 ∨ x = 88
        · have hox : isOct x = false := by rcases hx with h | h <;> subst h <;> decide
          have hex : isE x = false := by rcases hx with h | h <;> subst h <;> decide
          have hidx : isIdStart x = true := by rcases hx with h | h <;> subst h <;> decide
          have hne : x ≠ 46 := by rcases hx with h | h <;> subst h <;> decide
          match r with
          | [] => simp [scanModel, specLiteralEnd, hx, hox, hfracE hne, specExpo, hex, tailCheck, hidx]
          | h :: r' =>
            by_cases hh : isHex h = true
            · simp [scanModel, specLiteralEnd, hx, hh]
            · simp [scanModel, specLiteralEnd, hx, hh, hox, hfracE hne, specExpo, hex, tailCheck, hidx]
        · by_cases hdot : x = 46
          · subst hdot
            have := float_eq (46 :: r)
            match r with
            | [] => simpa [scanModel, specLiteralEnd, isOct] using this
            | h :: r' => simpa [scanModel, specLiteralEnd, isOct] using this
          · by_cases he : isE x = true
            · have hox := isE_not_oct he
              have := expo_eq (x :: r)
              rw [← hfracE hdot] at this
              match r with
              | [] => simpa [scanModel, specLiteralEnd, hx, hdot, he, hox] using this
              | h :: r' => simpa [scanModel, specLiteralEnd, hx, hdot, he, hox] using this
            · have he' : isE x = false := by simpa using he
              have := zero_default x r hdot he'
              match r with
              | [] => simpa [scanModel, specLiteralEnd, hx, hdot, he'] using this
              | h :: r' => simpa [scanModel, specLiteralEnd, hx, hdot, he'] using this
    · have hm : scanModel (c :: r) = floatPart ((c :: r).dropWhile isDec) := by
        unfold scanModel; split <;> simp_all
      have hs : specLiteralEnd (c :: r) = specFrac ((c :: r).dropWhile isDec) := by
        unfold specLiteralEnd; split <;> simp_all
      rw [hm, hs]; exact float_eq _

end OttoVerif.C03.Lit.NumTok
