/-
  C03/Trivia — what stands between two tokens: white space, line terminators, comments (ES5 7.2-7.4).

  Model: parser/lexer.go.  `scan` (lexer.go:172) loops: `skipWhiteSpace` (:535) eats white space and — while
  `insertSemicolon` is false — line terminators; with `insertSemicolon` set it stops in front of a line terminator and the
  `'\n'`-arm of scan clears the field and sets `implicitSemicolon`; the `/`-arm skips `//` comments up to (not including) the
  line terminator (:512, in mode StoreComments :479 reads the same characters) and `/* */` comments (:521 / :493), and a
  block comment whose text contains one of LF CR LS PS acts like a line terminator (:306-310, both modes).
  `modelNL ins cs` = is `implicitSemicolon` set when the trivia `cs` has been passed, starting with insertSemicolon = ins;
  `none` = cs is not trivia only (a token starts, or a block comment does not end).

  Spec: ES5 7.4 — comments behave like white space, except that a MultiLineComment containing a line terminator character
  is considered a LineTerminator by the syntactic grammar; a SingleLineComment never contains its terminator.
  `specNL cs` = does the trivia contain a LineTerminator in that sense.
-/
namespace OttoVerif.C03.Trivia

/-- 7.3 LineTerminator code points (lexer.go:163 isLineTerminator) -/
def isLT (c : Nat) : Bool := c == 0x0A || c == 0x0D || c == 0x2028 || c == 0x2029

/-- 7.2 WhiteSpace: TAB VT FF SP NBSP BOM and category Zs (the Zs members, Unicode 6-15, BMP) -/
def isWS (c : Nat) : Bool :=
  c == 0x09 || c == 0x0B || c == 0x0C || c == 0x20 || c == 0xA0 || c == 0xFEFF ||
  c == 0x1680 || (0x2000 ≤ c && c ≤ 0x200A) || c == 0x202F || c == 0x205F || c == 0x3000

/-- skipSingleLineComment: everything up to, not including, the next line terminator -/
def lineRest : List Nat → List Nat
  | [] => []
  | c :: r => if isLT c then c :: r else lineRest r

/-- skipMultiLineComment + strings.ContainsAny: (does the text contain a line terminator, what follows `*/`) -/
def blockRest : List Nat → Bool → Option (Bool × List Nat)
  | [], _ => none
  | [_], _ => none
  | 0x2A :: 0x2F :: r, seen => some (seen, r)
  | c :: d :: r, seen => blockRest (d :: r) (seen || isLT c)

/-- the model: the scan loop over trivia; state = (insertSemicolon, implicitSemicolon) -/
def modelGo : Nat → Bool → Bool → List Nat → Option Bool
  | 0, _, _, _ => none
  | _ + 1, _, imp, [] => some imp
  | n + 1, ins, imp, c :: r =>
    if isWS c then modelGo n ins imp r                                   -- skipWhiteSpace :538, :556
    else if isLT c then
      (if ins then modelGo n false true r                                -- :548 return; scan's '\n' arm: ins := false, imp := true
       else modelGo n ins imp r)                                         -- :551-553
    else if c == 0x2F then
      match r with
      | 0x2F :: r' => modelGo n ins imp (lineRest r')                     -- :294-298
      | 0x2A :: r' =>
        match blockRest r' false with
        | some (seen, r'') => if ins && seen then modelGo n false true r'' else modelGo n ins imp r''   -- :306-311
        | none => none
      | _ => none
    else none

def modelNL (ins : Bool) (cs : List Nat) : Option Bool := modelGo (cs.length + 1) ins false cs

/-- the spec: a LineTerminator outside comments, or a MultiLineComment containing one -/
def specGo : Nat → List Nat → Option Bool
  | 0, _ => none
  | _ + 1, [] => some false
  | n + 1, c :: r =>
    if isWS c then specGo n r
    else if isLT c then (specGo n r).map fun _ => true
    else if c == 0x2F then
      match r with
      | 0x2F :: r' => specGo n (lineRest r')
      | 0x2A :: r' =>
        match blockRest r' false with
        | some (seen, r'') => (specGo n r'').map fun b => seen || b
        | none => none
      | _ => none
    else none

def specNL (cs : List Nat) : Option Bool := specGo (cs.length + 1) cs

end OttoVerif.C03.Trivia
