/-
  C03/Lit — driver part for literal values.
    num <hex of literal text>      reply: f64 bits | error
    str <hex of the text between the quotes>   reply: s:<hex bytes> | error
-/
import OttoVerif.Base.Proto
import OttoVerif.C03.LitModel
import OttoVerif.C03.LitSpec
import OttoVerif.C04.Reserved
namespace OttoVerif.C03.Lit
open OttoVerif OttoVerif.Proto OttoVerif.F64

def numOut : Option FV → String | some v => f64Out v | none => "error"
def strOut : Option (List Nat) → String | some b => "s:" ++ bytesOut b | none => "error"

/-- skip line continuations (rune level): `\\` LF | `\\` CR LF | `\\` CR | `\\` LS | `\\` PS -/
def skipConts : Nat → List Nat → List Nat
  | 0, s => s
  | f+1, 92 :: 13 :: 10 :: r => skipConts f r
  | f+1, 92 :: c :: r => if c = 10 ∨ c = 13 ∨ c = 0x2028 ∨ c = 0x2029 then skipConts f r else 92 :: c :: r
  | _, s => s

def escVal (s : List Nat) : Option Nat :=
  match s with
  | 92 :: 117 :: r => LitSpec.hexU 4 r
  | _ => none

/-- region `surrogate_pair_split`: an escaped high surrogate, then one or more line continuations, then an escaped low
    surrogate.  The value has the two code units adjacent (ES5 7.8.4), the code only pairs directly adjacent escapes. -/
def splitPair : Nat → List Nat → Bool
  | 0, _ => false
  | _, [] => false
  | f+1, 92 :: e :: r =>
    (if e = 117 then
      (match LitSpec.hexU 4 r with
       | some v =>
         let after := r.drop 4
         let after' := skipConts (after.length + 1) after
         decide (0xD800 ≤ v ∧ v < 0xDC00) && after'.length < after.length &&
           (match escVal after' with | some lo => decide (0xDC00 ≤ lo ∧ lo < 0xE000) | none => false)
       | none => false)
     else false) || splitPair f r
  | f+1, _ :: r => splitPair f r

def handleNum (ws : List String) : String :=
  match ws with
  | [h] => match bytes? (h.drop 1).toString with
    | some bs => numOut (LitModel.parseNumberLiteral bs) ++ " " ++ numOut (LitSpec.numberValue bs) ++ " -"
    | none => "bad-request bad-request -"
  | _ => "bad-request bad-request -"

def handleStr (ws : List String) : String :=
  match ws with
  | [h] => match bytes? (h.drop 1).toString with
    | some bs =>
      let rs := Str.decodeRunes bs
      strOut (LitModel.parseStringLiteral bs) ++ " " ++ strOut ((LitSpec.sv (rs.length + 1) rs).map Str.bytesOfUnits) ++ " " ++ (if splitPair (rs.length + 1) rs then "surrogate_pair_split" else "-")
    | none => "bad-request bad-request -"
  | _ => "bad-request bad-request -"

/-! ### where a numeric literal token ends (ES5 7.8.3) -/

namespace NumTok
def isDec (c : Nat) : Bool := 48 ≤ c ∧ c ≤ 57
def isOct (c : Nat) : Bool := 48 ≤ c ∧ c ≤ 55
def isHex (c : Nat) : Bool := isDec c || (97 ≤ c ∧ c ≤ 102) || (65 ≤ c ∧ c ≤ 70)
/-- lexer.go isIdentifierStart on ASCII (the requests are ASCII): `$ _ \ a-z A-Z` -/
def isIdStart (c : Nat) : Bool := c = 36 || c = 95 || c = 92 || (97 ≤ c ∧ c ≤ 122) || (65 ≤ c ∧ c ≤ 90) || c ≥ 128
def isE (c : Nat) : Bool := c = 101 || c = 69

/-- lexer.go scanNumericLiteral, label `hexadecimal:/octal:` — none = ILLEGAL -/
def tailCheck (r : List Nat) : Option (List Nat) :=
  match r with
  | c :: _ => if isIdStart c || isDec c then none else some r
  | [] => some r

/-- label `exponent:` -/
def exponentPart (r : List Nat) : Option (List Nat) :=
  match r with
  | e :: r1 =>
    if isE e then
      let r2 := match r1 with | c :: r' => if c = 45 ∨ c = 43 then r' else r1 | [] => r1
      match r2 with
      | d :: r3 => if isDec d then some (r3.dropWhile isDec) else none
      | [] => none
    else some r
  | [] => some r

/-- label `float:` -/
def floatPart (r : List Nat) : Option (List Nat) :=
  let r1 := match r with | 46 :: r' => r'.dropWhile isDec | _ => r
  (exponentPart r1).bind tailCheck

/-- the `default:` arm after a leading 0: scanMantissa(8), ILLEGAL in front of 8 or 9, then `goto octal` -/
def octalTail (r : List Nat) : Option (List Nat) :=
  match r.dropWhile isOct with
  | c :: t => if c = 56 ∨ c = 57 then none else tailCheck (c :: t)
  | [] => tailCheck []

/-- MODEL: lexer.go `scan` (case '.', case digit) + `scanNumericLiteral`: the rest after the NUMBER token, none = ILLEGAL -/
def scanModel (s : List Nat) : Option (List Nat) :=
  match s with
  | 46 :: r => (exponentPart (r.dropWhile isDec)).bind tailCheck          -- decimalPoint: mantissa, then `goto exponent`
  | 48 :: r =>
    match r with
    | x :: r1 =>
      if x = 120 ∨ x = 88 then
        (match r1 with | h :: r2 => if isHex h then tailCheck (r2.dropWhile isHex) else none | [] => none)
      else if x = 46 then floatPart r
      else if isE x then (exponentPart r).bind tailCheck
      else octalTail r
    | [] => tailCheck []
  | _ => floatPart (s.dropWhile isDec)

/-- SPEC (7.8.3 + B.1.1): the longest NumericLiteral that is a prefix of the text, then "the source character immediately
    following a NumericLiteral must not be an IdentifierStart or DecimalDigit" -/
def specExpo (r : List Nat) : List Nat :=      -- ExponentPart is taken only when complete
  match r with
  | e :: r1 => if isE e then
      (match r1 with
       | c :: d :: r' => if (c = 45 ∨ c = 43) ∧ isDec d then r'.dropWhile isDec
                         else if isDec c then (d :: r').dropWhile isDec else r
       | [c] => if isDec c then [] else r
       | [] => r)
    else r
  | [] => r
def specFrac (r : List Nat) : List Nat := match r with | 46 :: r' => specExpo (r'.dropWhile isDec) | _ => specExpo r
def specLiteralEnd (s : List Nat) : List Nat :=
  match s with
  | 46 :: r => specExpo (r.dropWhile isDec)                                -- . DecimalDigits ExponentPart?
  | 48 :: x :: h :: r => if (x = 120 ∨ x = 88) ∧ isHex h then r.dropWhile isHex          -- HexIntegerLiteral
                          else if isOct x then (x :: h :: r).dropWhile isOct               -- B.1.1 0 OctalDigit+
                          else specFrac (x :: h :: r)                                       -- DecimalIntegerLiteral `0`
  | 48 :: x :: r => if isOct x then (x :: r).dropWhile isOct else specFrac (x :: r)
  | 48 :: r => specFrac r
  | _ => specFrac (s.dropWhile isDec)

def scanSpec (s : List Nat) : Option (List Nat) := tailCheck (specLiteralEnd s)

def out (s : List Nat) (r : Option (List Nat)) : String :=
  match r with
  | none => "ILLEGAL"
  | some rest => "NUMBER~" ++ bytesOut (s.take (s.length - rest.length))
end NumTok

/-- numadj <hex text>: a numeric literal immediately followed by something; compared: the first token of the real scanner -/
def handleNumAdj (ws : List String) : String :=
  match ws with
  | [h] => match bytes? (h.drop 1).toString with
    | some bs => NumTok.out bs (NumTok.scanModel bs) ++ " " ++ NumTok.out bs (NumTok.scanSpec bs) ++ " -"
    | none => "bad-request bad-request -"
  | _ => "bad-request bad-request -"

/-! ### object literal property names (ES5 11.1.5) -/

def natDigits (n : Nat) : List Nat := (toString n).toList.map fun c => c.toNat - 48
def digitsStr (ds : List Nat) : String := String.ofList (ds.map fun d => Char.ofNat (48 + d))
def trimZeros (ds : List Nat) : List Nat := (ds.reverse.dropWhile (· == 0)).reverse
def zeros (n : Nat) : String := String.ofList (List.replicate n '0')

/-- 9.8.1 steps 6-10: the text from the digits `ds` (k = ds.length ≥ 1, no trailing zero) and `n`, value = 0.ds × 10^n -/
def layout981 (ds : List Nat) (n : Int) : String :=
  let k : Int := ds.length
  if k ≤ n ∧ n ≤ 21 then digitsStr ds ++ zeros (n - k).toNat                                         -- step 6
  else if 0 < n ∧ n ≤ 21 then digitsStr (ds.take n.toNat) ++ "." ++ digitsStr (ds.drop n.toNat)        -- step 7
  else if -6 < n ∧ n ≤ 0 then "0." ++ zeros (-n).toNat ++ digitsStr ds                                -- step 8
  else
    let e := n - 1
    let es := (if e < 0 then "-" else "+") ++ toString e.natAbs
    if k = 1 then digitsStr ds ++ "e" ++ es                                                           -- step 9
    else digitsStr (ds.take 1) ++ "." ++ digitsStr (ds.drop 1) ++ "e" ++ es                           -- step 10

/-- SPEC: ToString (9.8.1) of the Number value of the exact MV n/d, for the literals whose digits 9.8.1 step 5 determines
    without a search: MV has a finite decimal expansion of at most 15 significant digits (two different decimals of ≤ 15
    digits never round to the same double, so the "k as small as possible" digits are MV's own, trailing zeros removed),
    or MV is an integer ≤ 2^53 (itself a Number value).  MV ≥ 2^1024 is +∞.  `none` elsewhere (not generated). -/
def numToString (n d : Nat) : Option String :=
  if d = 0 then none
  else if n = 0 then some "0"
  else if n ≥ d * 2^1024 then some "Infinity"
  else
    let rec find (j fuel : Nat) : Option Nat :=
      match fuel with
      | 0 => none
      | fuel+1 => if (n * 10^j) % d = 0 then some j else find (j+1) fuel
    match find 0 400 with
    | none => none
    | some j =>
      let m := n * 10^j / d                       -- MV = m × 10^-j
      let ms := natDigits m
      let ds := trimZeros ms
      let n9 : Int := (ms.length : Int) - j
      if (ds.length ≤ 15 ∧ -300 < n9 ∧ n9 ≤ 308) ∨ (j = 0 ∧ m ≤ 2^53) then some (layout981 ds n9) else none

/-- p with 10^(p-1) ≤ num/den < 10^p -/
def decExp (num den : Nat) : Int :=
  if num ≥ den then ((natDigits (num / den)).length : Int)
  else
    let rec up (j fuel : Nat) : Nat :=
      match fuel with
      | 0 => j
      | fuel+1 => if num * 10^j ≥ den then j else up (j+1) fuel
    1 - (up 1 400 : Int)

/-- the double nearest to c × 10^t -/
def ofDec (c : Nat) (t : Int) : FV := if t ≥ 0 then ofRatParts false (c * 10^t.toNat) 1 else ofRatParts false c (10^(-t).toNat)

/-- STUB of strconv's shortest digit generation (ftoa.go: ryuFtoaShortest / roundShortest) for the positive finite double
    x = num/den: the fewest digits (≤ 17) of a decimal that reads back as x, the closest such; (digits, n) with value
    ≈ 0.digits × 10^n, trailing zeros removed -/
def shortest (x : FV) (num den : Nat) : Option (List Nat × Int) :=
  let p := decExp num den
  let rec go (k fuel : Nat) : Option (List Nat × Int) :=
    match fuel with
    | 0 => none
    | fuel+1 =>
      let t : Int := (k : Int) - p
      let (a, b) := if t ≥ 0 then (num * 10^t.toNat, den) else (num, den * 10^(-t).toNat)
      let lo := a / b
      let hi := lo + 1
      let ok (c : Nat) : Bool := same (ofDec c (-t)) x
      let pick (c : Nat) : Option (List Nat × Int) := if c ≥ 10^k then some ([1], p + 1) else some (trimZeros (natDigits c), p)
      if a % b = 0 ∧ ok lo then pick lo
      else if ok lo ∧ ok hi then
        (if 2 * a < (2 * lo + 1) * b then pick lo else if 2 * a > (2 * lo + 1) * b then pick hi
         else if lo % 2 = 0 then pick lo else pick hi)
      else if ok lo then pick lo
      else if ok hi then pick hi
      else go (k+1) fuel
  go 1 17

/-- MODEL: numericPropertyName (expression.go): strconv.FormatInt for the int64 results of parseNumberLiteral (|v| ≤ 2^53;
    the same text as %f of that double), "Infinity", FormatFloat(number, 'e', -1, 64) without the padding zero of a
    two-digit exponent when number ≥ 1e21 or 0 < number < 1e-6 (float64 comparisons with the constants), else
    FormatFloat(number, 'f', -1, 64) -/
def numericPropertyName (x : FV) : Option String :=
  match x with
  | .nan => none
  | .inf _ => some "Infinity"
  | .fin _ m e =>
    if m = 0 then some "0" else
    let (num, den) : Nat × Nat := if e ≥ 0 then (m * 2^e.toNat, 1) else (m, 2^(-e).toNat)
    match shortest x num den with
    | none => none
    | some (ds, n) =>
      let k := ds.length
      if le (ofRatParts false (10^21) 1) x || lt x (ofRatParts false 1 1000000) then
        -- fmtE (ftoa.go:379): d[.ddd]e±dd, at least two exponent digits; then the strip of one leading zero
        let ex := n - 1
        let exs := toString ex.natAbs
        let exs := if exs.length < 2 then "0" ++ exs else exs
        let exs := if exs.startsWith "0" then (exs.drop 1).toString else exs
        some (digitsStr (ds.take 1) ++ (if k > 1 then "." ++ digitsStr (ds.drop 1) else "") ++ "e" ++ (if ex < 0 then "-" else "+") ++ exs)
      else
        -- fmtF (ftoa.go:434) with the shortest digits
        let ip := if n > 0 then digitsStr (ds.take n.toNat) ++ zeros (n.toNat - k) else "0"
        let fp := if (k : Int) > n then "." ++ zeros (-n).toNat ++ digitsStr (ds.drop n.toNat) else ""
        some (ip ++ fp)

def bytesToString? (bs : List Nat) : Option String := String.fromUTF8? (ByteArray.mk (bs.map (·.toUInt8)).toArray)

/-- model (parseObjectPropertyKey, expression.go:233-265) and specification (11.1.5 PropertyName) of one key;
    third component: is the request inside `numeric_property_key` — since the fix of data properties only a getter / setter
    name (kind = get | set) whose source spelling differs from ToString(MV) -/
def keyOf (kind keykind : String) (sp : List Nat) : Option (String × String × Bool) :=
  match keykind with
  | "id" => do
    let s ← bytesToString? sp
    let cs ← OttoVerif.C04.Reserved.decode s.toList
    let name := String.ofList cs
    pure (name, name, false)
  | "str" =>
    let body := (sp.drop 1).dropLast
    let rs := Str.decodeRunes body
    match LitModel.parseStringLiteral body, (LitSpec.sv (rs.length + 1) rs).map Str.bytesOfUnits with
    | some m, some s => do let ms ← bytesToString? m; let ss ← bytesToString? s; pure (ms, ss, false)
    | _, _ => none
  | "num" => do
    let text ← bytesToString? sp
    let x ← LitModel.parseNumberLiteral sp           -- a literal that does not parse is an error
    let (n, d) ← LitSpec.mv sp
    let canon ← numToString n d
    if kind = "value" then
      let name ← numericPropertyName x                -- parseObjectProperty: a NUMBER token in front of a colon
      pure (name, canon, false)
    else pure (text, canon, text != canon)            -- accessor names: `value = literal` (parseObjectPropertyKey)
  | _ => none

/-- obj <entries> <srchex>: entries = `kind.keykind~hexspelling` separated by ','  (kind: value | get | set) -/
def handleObj (ws : List String) : String :=
  match ws with
  | [entries, _src] =>
    let rec go (es : List String) (m s : List String) (dev acc : Bool) : Option (List String × List String × Bool × Bool) :=
      match es with
      | [] => some (m.reverse, s.reverse, dev, acc)
      | e :: r =>
        match e.splitOn "~" with
        | [kk, h] =>
          match kk.splitOn ".", bytes? h with
          | [kind, keykind], some sp =>
            match keyOf kind keykind sp with
            | some (km, ks, dv) =>
              -- FunctionLiteral.Source of an accessor: the text of the accessor definition (parseObjectProperty: p.slice(start, Idx1))
              let text := (bytesToString? sp).getD ""
              let srcSpec := if kind = "get" then ":" ++ bytesOut (("get " ++ text ++ " ( ) { }").toUTF8.toList.map (·.toNat))
                             else if kind = "set" then ":" ++ bytesOut (("set " ++ text ++ " ( v ) { }").toUTF8.toList.map (·.toNat)) else ""
              let srcModel := srcSpec
              go r ((kind ++ ":" ++ bytesOut (km.toUTF8.toList.map (·.toNat)) ++ srcModel) :: m)
                   ((kind ++ ":" ++ bytesOut (ks.toUTF8.toList.map (·.toNat)) ++ srcSpec) :: s) (dev || dv) acc
            | none => none
          | _, _ => none
        | _ => none
    match go (entries.splitOn ",") [] [] false false with
    | some (m, s, dev, acc) =>
      let ds := (if dev then ["numeric_property_key"] else []) ++ (if acc then ["accessor_source_empty"] else [])
      ",".intercalate m ++ " " ++ ",".intercalate s ++ " " ++ (if ds.isEmpty then "-" else ",".intercalate ds)
    | none => "bad-request bad-request -"
  | _ => "bad-request bad-request -"

end OttoVerif.C03.Lit
