/-
  C03/Lit — driver part for literal values.
    num <hex of literal text>      reply: f64 bits | error
    str <hex of the text between the quotes>   reply: s:<hex bytes> | error
-/
import OttoVerif.Base.Proto
import OttoVerif.C03.LitModel
import OttoVerif.C03.LitSpec
namespace OttoVerif.C03.Lit
open OttoVerif OttoVerif.Proto OttoVerif.F64

def numOut : Option FV → String | some v => f64Out v | none => "error"
def strOut : Option (List Nat) → String | some b => "s:" ++ bytesOut b | none => "error"

/-- region `octal_literal_overflow`: a legacy octal literal ≥ 2^63: ParseInt overflows and ParseFloat reads the digits as DECIMAL.
    region `hex_literal_rounding`: a hex literal ≥ 2^63 (so ParseInt overflows and the float loop runs) that is not
    exactly representable — the per-digit rounding can differ from the single correct rounding -/
def devNum (bs : List Nat) : String :=
  match bs with
  | 48 :: x :: ds =>
    if (x = 120 ∨ x = 88) ∧ !ds.isEmpty ∧ ds.all (fun c => (LitSpec.hexVal c).isSome) then
      let v := LitSpec.digitsVal 16 ds
      if v ≥ 2^63 ∧ v % 2^(Nat.log2 v - 52) ≠ 0 then "hex_literal_rounding" else "-"
    else if LitSpec.isDec x ∧ (x :: ds).all LitSpec.isOctD ∧ LitSpec.digitsVal 8 (x :: ds) ≥ 2^63 then "octal_literal_overflow"
    else "-"
  | _ => "-"

/-- backslash parity matters: scan escape by escape -/
def scanEsc (fuel : Nat) (s : List Nat) (f : Nat → List Nat → Bool) : Bool :=
  match fuel, s with
  | 0, _ => false
  | _, [] => false
  | fuel+1, 92 :: e :: r => f e r || scanEsc fuel r f
  | fuel+1, _ :: r => scanEsc fuel r f

def devStr (rs : List Nat) : String :=
  let n := rs.length + 1
  let sur := scanEsc n rs fun e r => e == 117 && (match LitSpec.hexU 4 r with | some v => decide (0xD800 ≤ v ∧ v ≤ 0xDFFF) | none => false)
  let oct := scanEsc n rs fun e r => decide (52 ≤ e ∧ e ≤ 55) && (match r with | a :: b :: _ => LitSpec.isOctD a && LitSpec.isOctD b | _ => false)
  let lsps := scanEsc n rs fun e _ => e == 0x2028 || e == 0x2029
  let ds := (if sur then ["surrogate_escape"] else []) ++ (if oct then ["octal_escape_4to7"] else []) ++ (if lsps then ["line_continuation_ls_ps"] else [])
  if ds.isEmpty then "-" else ",".intercalate ds

def handleNum (ws : List String) : String :=
  match ws with
  | [h] => match bytes? (h.drop 1).toString with
    | some bs => numOut (LitModel.parseNumberLiteral bs) ++ " " ++ numOut (LitSpec.numberValue bs) ++ " " ++ devNum bs
    | none => "bad-request bad-request -"
  | _ => "bad-request bad-request -"

def handleStr (ws : List String) : String :=
  match ws with
  | [h] => match bytes? (h.drop 1).toString with
    | some bs =>
      let rs := Str.decodeRunes bs
      strOut (LitModel.parseStringLiteral bs) ++ " " ++ strOut ((LitSpec.sv (rs.length + 1) rs).map Str.bytesOfUnits) ++ " " ++ devStr rs
    | none => "bad-request bad-request -"
  | _ => "bad-request bad-request -"

end OttoVerif.C03.Lit
