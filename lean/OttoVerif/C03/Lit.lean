/-  C03/Lit — literal values (placeholder until built). -/
namespace OttoVerif.C03.Lit
def handleNum (_ws : List String) : String := "bad-op bad-op -"
def handleStr (_ws : List String) : String := "bad-op bad-op -"
end OttoVerif.C03.Lit
