/-
  C03/Lit — driver part for literal values.
    num <hex of literal text>      reply: f64 bits | error
    str <hex of the text between the quotes>   reply: s:<hex bytes> | error
-/
import OttoVerif.Base.Proto
import OttoVerif.C03.LitModel
import OttoVerif.C03.LitSpec
namespace OttoVerif.C03.Lit
open OttoVerif OttoVerif.Proto OttoVerif.F64

def numOut : Option FV → String | some v => f64Out v | none => "error"
def strOut : Option (List Nat) → String | some b => "s:" ++ bytesOut b | none => "error"

/-- skip line continuations (rune level): `\\` LF | `\\` CR LF | `\\` CR | `\\` LS | `\\` PS -/
def skipConts : Nat → List Nat → List Nat
  | 0, s => s
  | f+1, 92 :: 13 :: 10 :: r => skipConts f r
  | f+1, 92 :: c :: r => if c = 10 ∨ c = 13 ∨ c = 0x2028 ∨ c = 0x2029 then skipConts f r else 92 :: c :: r
  | _, s => s

def escVal (s : List Nat) : Option Nat :=
  match s with
  | 92 :: 117 :: r => LitSpec.hexU 4 r
  | _ => none

/-- region `surrogate_pair_split`: an escaped high surrogate, then one or more line continuations, then an escaped low
    surrogate.  The value has the two code units adjacent (ES5 7.8.4), the code only pairs directly adjacent escapes. -/
def splitPair : Nat → List Nat → Bool
  | 0, _ => false
  | _, [] => false
  | f+1, 92 :: e :: r =>
    (if e = 117 then
      (match LitSpec.hexU 4 r with
       | some v =>
         let after := r.drop 4
         let after' := skipConts (after.length + 1) after
         decide (0xD800 ≤ v ∧ v < 0xDC00) && after'.length < after.length &&
           (match escVal after' with | some lo => decide (0xDC00 ≤ lo ∧ lo < 0xE000) | none => false)
       | none => false)
     else false) || splitPair f r
  | f+1, _ :: r => splitPair f r

def handleNum (ws : List String) : String :=
  match ws with
  | [h] => match bytes? (h.drop 1).toString with
    | some bs => numOut (LitModel.parseNumberLiteral bs) ++ " " ++ numOut (LitSpec.numberValue bs) ++ " -"
    | none => "bad-request bad-request -"
  | _ => "bad-request bad-request -"

def handleStr (ws : List String) : String :=
  match ws with
  | [h] => match bytes? (h.drop 1).toString with
    | some bs =>
      let rs := Str.decodeRunes bs
      strOut (LitModel.parseStringLiteral bs) ++ " " ++ strOut ((LitSpec.sv (rs.length + 1) rs).map Str.bytesOfUnits) ++ " " ++ (if splitPair (rs.length + 1) rs then "surrogate_pair_split" else "-")
    | none => "bad-request bad-request -"
  | _ => "bad-request bad-request -"

end OttoVerif.C03.Lit
