/-
  C03/Driver — line protocol front end (core-only).
    expr <mode> <tree> <srchex> <toks>
        tree  : the generating tree, Polish notation, items separated by ','
        toks  : the real scanner's token stream for the rendered source (astx.TokWire)
      reply: model = dump of Model.parseExpression on the real tokens (`reject` if it records an error or
             does not stop at EOF), spec = dump of the generating tree (plus `;lex` when mode = min and the
             real token stream differs from `Spec.print tree`), dev = deviation regions of the tree.
-/
import OttoVerif.Base.Proto
import OttoVerif.C03.Spec
import OttoVerif.C03.Lit
import OttoVerif.C03.Asi
import OttoVerif.C03.Punct
import OttoVerif.C03.Trivia
namespace OttoVerif.C03.Driver
open OttoVerif.C03 OttoVerif.Proto

def unhex (s : String) : Option String :=
  (bytes? s).bind fun bs => String.fromUTF8? (ByteArray.mk (bs.map (·.toUInt8)).toArray)

/-- UTF-8 bytes → code points -/
def unhexRunes (bs : List Nat) : Option (List Nat) :=
  (String.fromUTF8? (ByteArray.mk (bs.map (·.toUInt8)).toArray)).map fun s => s.toList.map (·.toNat)

def hexOf (s : String) : String := bytesOut (s.toUTF8.toList.map (·.toNat))

def p? : String → Option P
  | "+" => some .plus | "-" => some .minus | "*" => some .star | "/" => some .slash | "%" => some .percent
  | "&" => some .amp | "|" => some .bar | "^" => some .caret | "<<" => some .shl | ">>" => some .shr | ">>>" => some .ushr | "&^" => some .andnot
  | "+=" => some .addA | "-=" => some .subA | "*=" => some .mulA | "/=" => some .divA | "%=" => some .remA
  | "&=" => some .andA | "|=" => some .orA | "^=" => some .xorA | "<<=" => some .shlA | ">>=" => some .shrA | ">>>=" => some .ushrA | "&^=" => some .andnotA
  | "&&" => some .land | "||" => some .lor | "++" => some .inc | "--" => some .dec
  | "==" => some .eq | "===" => some .seq | "<" => some .lt | ">" => some .gt | "=" => some .assign | "!" => some .not | "~" => some .bnot
  | "!=" => some .ne | "!==" => some .sne | "<=" => some .le | ">=" => some .ge
  | "(" => some .lparen | "[" => some .lbrack | "{" => some .lbrace | "," => some .comma | "." => some .dot
  | ")" => some .rparen | "]" => some .rbrack | "}" => some .rbrace | ";" => some .semi | ":" => some .colon | "?" => some .quest
  | "if" => some .kIf | "in" => some .kIn | "do" => some .kDo | "var" => some .kVar | "for" => some .kFor | "new" => some .kNew
  | "try" => some .kTry | "this" => some .kThis | "else" => some .kElse | "case" => some .kCase | "void" => some .kVoid
  | "with" => some .kWith | "while" => some .kWhile | "break" => some .kBreak | "catch" => some .kCatch | "throw" => some .kThrow
  | "return" => some .kReturn | "typeof" => some .kTypeof | "delete" => some .kDelete | "switch" => some .kSwitch
  | "default" => some .kDefault | "finally" => some .kFinally | "function" => some .kFunction | "continue" => some .kContinue
  | "debugger" => some .kDebugger | "instanceof" => some .kInstanceof | _ => none

def tok? (w : String) : Option Tok :=
  let nl := w.startsWith "#"
  let w := if nl then (w.drop 1).toString else w
  if w = "~" then some { k := .p .bnot, nl } else
  match w.splitOn "~" with
  | [k, h] => do
    let lit ← unhex h
    match k with
    | "IDENTIFIER" => pure { k := .id lit, nl }
    | "NUMBER" => pure { k := .num lit, nl }
    | "STRING" => pure { k := .str lit, nl }
    | "BOOLEAN" => pure { k := .bool lit, nl }
    | "NULL" => pure { k := .null, nl }
    | "KEYWORD" => pure { k := .kw lit, nl }
    | "REGEX" => pure { k := .regex lit, nl }
    | "ILLEGAL" => pure { k := .illegal, nl }
    | _ => none
  | [k] =>
    if k = "EOF" then some { k := .eof, nl }
    else (p? k).map fun x => { k := .p x, nl }
  | _ => none

def toks? (s : String) : Option (List Tok) := (s.splitOn "`").mapM tok?

def binName : BinOp → String
  | .mul => "mul" | .div => "div" | .rem => "rem" | .add => "add" | .sub => "sub" | .shl => "shl" | .shr => "shr" | .ushr => "ushr"
  | .lt => "lt" | .gt => "gt" | .le => "le" | .ge => "ge" | .instanceof => "instanceof" | .in_ => "in"
  | .eq => "eq" | .ne => "ne" | .seq => "seq" | .sne => "sne" | .band => "band" | .bxor => "bxor" | .bor => "bor"
  | .land => "land" | .lor => "lor" | .comma => "comma"
def allBin : List BinOp := [.mul, .div, .rem, .add, .sub, .shl, .shr, .ushr, .lt, .gt, .le, .ge, .instanceof, .in_, .eq, .ne, .seq, .sne, .band, .bxor, .bor, .land, .lor, .comma]
def bin? (s : String) : Option BinOp := allBin.find? (fun o => binName o = s)

def unName : UnOp → String
  | .pos => "pos" | .neg => "neg" | .not => "not" | .bnot => "bnot" | .delete => "delete" | .void => "void" | .typeof => "typeof"
  | .preinc => "preinc" | .predec => "predec"
def allUn : List UnOp := [.pos, .neg, .not, .bnot, .delete, .void, .typeof, .preinc, .predec]
def un? (s : String) : Option UnOp := allUn.find? (fun o => unName o = s)

def asgName : AsgOp → String
  | .assign => "assign" | .add => "add" | .sub => "sub" | .mul => "mul" | .div => "div" | .rem => "rem" | .band => "band"
  | .andnot => "andnot" | .bor => "bor" | .bxor => "bxor" | .shl => "shl" | .shr => "shr" | .ushr => "ushr"
def allAsg : List AsgOp := [.assign, .add, .sub, .mul, .div, .rem, .band, .andnot, .bor, .bxor, .shl, .shr, .ushr]
def asg? (s : String) : Option AsgOp := allAsg.find? (fun o => asgName o = s)

mutual
partial def dumpArgs (e : E) : List String :=
  match e with
  | .acons h tl => dump h ++ dumpArgs tl
  | _ => []
partial def argCount (e : E) : Nat :=
  match e with
  | .acons _ tl => argCount tl + 1
  | _ => 0
partial def dump (e : E) : List String :=
  match e with
  | .id s => ["id~" ++ hexOf s] | .num s => ["num~" ++ hexOf s] | .str s => ["str~" ++ hexOf s] | .bool s => ["bool~" ++ hexOf s]
  | .null => ["null"] | .this_ => ["this"]
  | .bin o l r => ("bin." ++ binName o) :: (dump l ++ dump r)
  | .un o e => ("un." ++ unName o) :: dump e
  | .post i e => (if i then "post.inc" else "post.dec") :: dump e
  | .cond c a b => "cond" :: (dump c ++ dump a ++ dump b)
  | .asg o l r => ("asg." ++ asgName o) :: (dump l ++ dump r)
  | .dot e s => ("dot~" ++ hexOf s) :: dump e
  | .idx e i => "idx" :: (dump e ++ dump i)
  | .call f a => s!"call.{argCount a}" :: (dump f ++ dumpArgs a)
  | .new_ f .noargs => "newx" :: dump f
  | .new_ f a => s!"new.{argCount a}" :: (dump f ++ dumpArgs a)
  | _ => ["?"]
end

def dumpStr (e : E) : String := ",".intercalate (dump e)

mutual
partial def readE (items : List String) : Option (E × List String) :=
  match items with
  | [] => none
  | h :: r =>
    match h.splitOn "~" with
    | [k, x] => do
      let s ← unhex x
      match k with
      | "id" => pure (.id s, r) | "num" => pure (.num s, r) | "str" => pure (.str s, r) | "bool" => pure (.bool s, r)
      | "dot" => do let (e, r) ← readE r; pure (.dot e s, r)
      | _ => none
    | _ =>
      match h.splitOn "." with
      | ["null"] => some (.null, r) | ["this"] => some (.this_, r)
      | ["bin", o] => do let o ← bin? o; let (l, r) ← readE r; let (x, r) ← readE r; pure (.bin o l x, r)
      | ["un", o] => do let o ← un? o; let (e, r) ← readE r; pure (.un o e, r)
      | ["post", o] => do let (e, r) ← readE r; pure (.post (o = "inc") e, r)
      | ["cond"] => do let (c, r) ← readE r; let (a, r) ← readE r; let (b, r) ← readE r; pure (.cond c a b, r)
      | ["asg", o] => do let o ← asg? o; let (l, r) ← readE r; let (x, r) ← readE r; pure (.asg o l x, r)
      | ["idx"] => do let (e, r) ← readE r; let (i, r) ← readE r; pure (.idx e i, r)
      | ["call", n] => do let n ← n.toNat?; let (f, r) ← readE r; let (a, r) ← readArgs n r; pure (.call f a, r)
      | ["new", n] => do let n ← n.toNat?; let (f, r) ← readE r; let (a, r) ← readArgs n r; pure (.new_ f a, r)
      | ["newx"] => do let (f, r) ← readE r; pure (.new_ f .noargs, r)
      | _ => none
partial def readArgs (n : Nat) (items : List String) : Option (E × List String) :=
  if n = 0 then some (.anil, items) else do
    let (h, r) ← readE items
    let (t, r) ← readArgs (n - 1) r
    pure (.acons h t, r)
end

def eraseNl (ts : List Tok) : List Tok := ts.map fun t => { t with nl := false }

def fuelFor (ts : List Tok) : Nat := 40 * ts.length + 200

def handleExpr (mode tree toks : String) : String :=
  match readE (tree.splitOn ","), toks? toks with
  | some (t, []), some ts =>
    let model := match parseExpression (fuelFor ts) true ts with
      | some (e, [t]) => if t.k = .eof then dumpStr e else "reject"
      | _ => "reject"
    let lexOk := (mode != "min" && mode != "tight") || eraseNl ts == Spec.print t ++ [{ k := .eof }]
    let spec := dumpStr t ++ (if lexOk then "" else ";lex")
    model ++ " " ++ spec ++ " -"
  | _, _ => "bad-request bad-request -"

/-- noin <form> <tree> <srchex> <toks>: the expression stands in a for-header (allowIn = false).
    form `init`: `for ( E ; ; ) ;`  (Expression NoIn);  form `var`: `for ( var v = E in z ) ;`  (AssignmentExpression NoIn,
    the `in` that follows must be left for the for-in) -/
def handleNoIn (form tree toks : String) : String :=
  match readE (tree.splitOn ","), toks? toks with
  | some (t, []), some ts =>
    let pre : List Tok := if form = "var" then [Spec.tk .kFor, Spec.tk .lparen, Spec.tk .kVar, { k := .id "v" }, Spec.tk .assign]
                          else [Spec.tk .kFor, Spec.tk .lparen]
    let post : List Tok := if form = "var" then [Spec.tk .kIn, { k := .id "z" }, Spec.tk .rparen, Spec.tk .semi, { k := .eof }]
                           else [Spec.tk .semi, Spec.tk .semi, Spec.tk .rparen, Spec.tk .semi, { k := .eof }]
    let body := ts.drop pre.length
    let res := if form = "var" then parseAssign (fuelFor ts) false body else parseExpression (fuelFor ts) false body
    let model := match res with
      | some (e, rest) => if eraseNl rest == post then dumpStr e else "reject"
      | none => "reject"
    let text := if form = "var" then Spec.pr 1 false t else Spec.pr 0 false t
    let lexOk := eraseNl ts == pre ++ text ++ post
    model ++ " " ++ dumpStr t ++ (if lexOk then "" else ";lex") ++ " -"
  | _, _ => "bad-request bad-request -"

def flagStr (fs : List Bool) : String := String.ofList (fs.map fun b => if b then '1' else '0')

/-- asi <nlbits> <statements> <srchex> <toks>: nlbits = for every token of the real stream, whether a line terminator stands
    between it and the previous token (known to the generator, which assembles the source from token texts and separators) -/
def handleAsi (nlbits stmts toks : String) : String :=
  match toks? toks with
  | some ts =>
    let nls := nlbits.toList.map (· == '1')
    if nls.length != ts.length then "bad-nlbits bad-nlbits -" else
    let pairs := (ts.map (·.k)).zip nls
    flagStr (Asi.modelFlags false pairs) ++ "/accept:" ++ stmts ++ " " ++ flagStr (Asi.specFlags false pairs) ++ "/accept:" ++ stmts ++ " -"
  | none => "bad-request bad-request -"

/-- asire <nlbits> <statements> <parser-level tokens> <srchex>: programs whose first statement ends in a regular expression
    literal.  The tokens are the PARSER's (the literal is one token, kind REGEX), assembled by the generator; the verdict is
    `accept:<statements>` iff every line terminator that must act as a semicolon gets the flag.
    Region `regexp_flags_detached`: a literal without flags followed (after white space / a line terminator) by an identifier. -/
def handleAsiRe (nlbits stmts toks : String) : String :=
  match toks? toks with
  | some ts =>
    let nls := nlbits.toList.map (· == '1')
    if nls.length != ts.length then "bad-nlbits bad-nlbits -" else
    let pairs := (ts.map (·.k)).zip nls
    let need := nls.zip (ts.map (·.k)) |>.map fun (nl, k) => nl && k != .eof
    let ok (fs : List Bool) : Bool := (need.zip fs).all fun (n, f) => !n || f
    let verdict (b : Bool) := if b then "accept:" ++ stmts else "reject"
    let rec detached : List Tk → Bool
      | .regex s :: .id i :: r => s.endsWith "/" || detached (.id i :: r)
      | _ :: r => detached r
      | [] => false
    -- inside the region the model follows parseRegExpLiteral (expression.go:137): the identifier is taken as the flags, so
    -- the second statement loses its first token: a lone identifier disappears (one statement), anything longer no longer
    -- parses (`/a/y = 2`)
    let rec afterSwallow : List Tk → Option Nat
      | .regex s :: .id _ :: r => if s.endsWith "/" then some (r.length - 1) else afterSwallow r
      | _ :: r => afterSwallow r
      | [] => none
    let model := match afterSwallow (ts.map (·.k)) with
      | some 0 => "accept:1"
      | some _ => "reject"
      | none => verdict (ok (Asi.modelFlags false pairs))
    model ++ " " ++ verdict (ok (Asi.specFlags false pairs)) ++ " " ++
      (if detached (ts.map (·.k)) then "regexp_flags_detached" else "-")
  | none => "bad-request bad-request -"

/-- punct <hex text>: a text over the punctuator characters and the space; compared: the spellings of the scanner's tokens -/
def handlePunct (h : String) : String :=
  match bytes? (h.drop 1).toString with
  | some bs =>
    let show_ (r : Punct.Res) : String :=
      let ts := r.1.map fun t => String.ofList (t.map Char.ofNat)
      let s := "`".intercalate ts
      (if s.isEmpty then "-" else s) ++ (if r.2 then "`E" else "")
    show_ (Punct.modelTokens bs) ++ " " ++ show_ (Punct.specTokens bs) ++ " -"
  | none => "bad-request bad-request -"

/-- cmt <nlbits> <expected> <srchex> <trivia of every gap, hex, '.'-separated, '-' = empty>: which gaps count as a line
    terminator (model: the scan loop with insertSemicolon set; spec: 7.4); `<expected>` (the outcome for the reference text
    that has a bare LF in exactly the gaps of nlbits) is confirmed when the decision agrees with nlbits.  The real parser is run in three modes
    (0, StoreComments, StoreComments|IgnoreRegExpErrors) and must give this one answer in each. -/
def handleCmt (nlbits expected gaps : String) : String :=
  let gs := gaps.splitOn "."
  let dec (f : List Nat → Option Bool) : String :=
    String.ofList (gs.map fun g =>
      match (if g == "-" then some [] else bytes? g).bind (fun bs => (unhexRunes bs).bind f) with
      | some true => '1' | some false => '0' | none => '?')
  let ans (bits : String) : String := if bits == nlbits then expected else "nl:" ++ bits
  ans (dec (Trivia.modelNL true)) ++ " " ++ ans (dec Trivia.specNL) ++ " -"

def handle (ws : List String) : String :=
  match ws with
  | ["expr", mode, tree, _src, toks] => handleExpr mode tree toks
  | ["asi", nlbits, stmts, _src, toks] => handleAsi nlbits stmts toks
  | ["noin", form, tree, _src, toks] => handleNoIn form tree toks
  | ["asire", nlbits, stmts, toks, _src] => handleAsiRe nlbits stmts toks
  | ["punct", h] => handlePunct h
  | ["cmt", nlbits, expected, _src, gaps] => handleCmt nlbits expected gaps
  | "obj" :: rest => Lit.handleObj rest
  | "numadj" :: rest => Lit.handleNumAdj rest
  | "num" :: rest => Lit.handleNum rest
  | "str" :: rest => Lit.handleStr rest
  | _ => "bad-op bad-op -"

end OttoVerif.C03.Driver
