/-
  C03/LitModel — transcription of parser/lexer.go `parseNumberLiteral` (661-699) and `parseStringLiteral` (701-824).
  Strings are Go strings = byte lists.  `none` = the function returns an error (or panics).
-/
import OttoVerif.Base.GoStd
import OttoVerif.Base.Str
namespace OttoVerif.C03.LitModel
open OttoVerif OttoVerif.F64 OttoVerif.GoStd OttoVerif.Str

/-- lexer.go:29 digitValue -/
def digitValue (c : Nat) : Nat :=
  if 48 ≤ c ∧ c ≤ 57 then c - 48 else if 97 ≤ c ∧ c ≤ 102 then c - 97 + 10 else if 65 ≤ c ∧ c ≤ 70 then c - 65 + 10 else 16

/-- `new(big.Int).SetString(literal, 0)` for the integer forms the scanner produces: 0x/0X hexadecimal, leading-0 octal,
    decimal -/
def bigValue (lit : List Nat) : Option Nat :=
  let val (base : Nat) (ds : List Nat) : Option Nat :=
    if ds.isEmpty then none else
    ds.foldl (fun acc c => acc.bind fun v => if digitValue c < base then some (v * base + digitValue c) else none) (some 0)
  match lit with
  | 48 :: x :: ds => if x = 120 ∨ x = 88 then val 16 ds else val 8 (x :: ds)
  | _ => val 10 lit

/-- parseNumberLiteral; the result is the float64 the runtime later makes of the int64/float64 value -/
def parseNumberLiteral (lit : List Nat) : Option FV :=
  match parseInt lit 0 with
  | .ok i => some (F64.ofInt i)                                   -- ParseInt succeeded
  | pi =>
    match pi, bigValue lit with
    | .range, some n => some (F64.ofRatParts false n 1)           -- integer too large for int64: big.Int → big.Float → Float64 (one rounding)
    | _, _ => parseFloat lit                                      -- ParseFloat (ErrRange keeps ±Inf)

def hex2decimal (c : Nat) : Option Nat :=
  if 48 ≤ c ∧ c ≤ 57 then some (c - 48) else if 97 ≤ c ∧ c ≤ 102 then some (c - 97 + 10) else if 65 ≤ c ∧ c ≤ 70 then some (c - 65 + 10) else none

def hexN : Nat → List Nat → Nat → Option Nat
  | 0, _, v => some v
  | n+1, c :: r, v => (hex2decimal c).bind fun d => hexN n r (v * 16 + d)
  | _+1, [], _ => none

def isOct (c : Nat) : Bool := 48 ≤ c ∧ c ≤ 55

/-- up to `two ? 2 : 1` further octal digits (an escape starting with 4–7 takes at most one more) -/
def octMore (two : Bool) (v : Nat) (s : List Nat) : Nat × List Nat :=
  match s with
  | a :: r => if isOct a then
      (if two then
        (match r with
         | b :: r' => if isOct b then ((v * 8 + (a - 48)) * 8 + (b - 48), r') else (v * 8 + (a - 48), r)
         | [] => (v * 8 + (a - 48), r))
       else (v * 8 + (a - 48), r))
    else (v, s)
  | [] => (v, s)

/-- `utf16.IsSurrogate(value) && str starts with \\uXXXX && utf16.DecodeRune(value, low) != RuneError` -/
def pairLow (v : Nat) (s : List Nat) : Option (Nat × List Nat) :=
  if 0xD800 ≤ v ∧ v < 0xDC00 then
    match s with
    | 92 :: 117 :: r6 =>
      (hexN 4 r6 0).bind fun lo =>
        if 0xDC00 ≤ lo ∧ lo < 0xE000 then some (0x10000 + (v - 0xD800) * 1024 + (lo - 0xDC00), r6.drop 4) else none
    | _ => none
  else none

/-- the loop of lexer.go:715-821; `buf` is the bytes.Buffer -/
def strLoop : Nat → List Nat → List Nat → Option (List Nat)
  | 0, _, _ => none
  | _+1, [], buf => some buf
  | fuel+1, c :: rest, buf =>
    if c ≥ 0x80 then                                                             -- :720-724
      match decodeRune (c :: rest) with
      | some (r, w) => strLoop fuel ((c :: rest).drop w) (buf ++ encodeRune r)
      | none => none
    else if c ≠ 92 then strLoop fuel rest (buf ++ [c])                            -- :725-728
    else
      match rest with
      | [] => none                                                               -- :731 panic
      | chr :: str =>
        if chr ≥ 0x80 then                                                       -- `\` + non-ASCII character
          match decodeRune (chr :: str) with
          | some (r, w) =>
            if r = 0x2028 ∨ r = 0x2029 then strLoop fuel ((chr :: str).drop w) buf      -- line continuation
            else strLoop fuel ((chr :: str).drop w) (buf ++ encodeRune r)
          | none => none
        else if chr = 98 then strLoop fuel str (buf ++ [8])
        else if chr = 102 then strLoop fuel str (buf ++ [12])
        else if chr = 110 then strLoop fuel str (buf ++ [10])
        else if chr = 114 then strLoop fuel str (buf ++ [13])
        else if chr = 116 then strLoop fuel str (buf ++ [9])
        else if chr = 118 then strLoop fuel str (buf ++ [11])
        else if chr = 120 then                                                   -- \x :756-777
          (hexN 2 str 0).bind fun v => strLoop fuel (str.drop 2) (buf ++ encodeRune v)
        else if chr = 117 then                                                   -- \u; an escaped surrogate pair is one character
          (hexN 4 str 0).bind fun v =>
            match pairLow v (str.drop 4) with
            | some (r, s') => strLoop fuel s' (buf ++ encodeRune r)
            | none => strLoop fuel (str.drop 4) (buf ++ encodeRune v)
        else if chr = 48 ∧ !(match str with | a :: _ => isOct a | [] => false) then  -- :781-785
          strLoop fuel str (buf ++ [0])
        else if 48 ≤ chr ∧ chr ≤ 55 then                                         -- :787-802
          let (v, s') := octMore (decide (chr < 52)) (chr - 48) str
          strLoop fuel s' (buf ++ encodeRune v)
        else if chr = 13 then                                                    -- :807-813
          strLoop fuel (match str with | 10 :: s' => s' | _ => str) buf
        else if chr = 10 then strLoop fuel str buf                               -- :814
        else strLoop fuel str (buf ++ [chr])                                     -- \\ \' \" and default :803-806,816-817

/-- lexer.go:701 -/
def parseStringLiteral (lit : List Nat) : Option (List Nat) :=
  if lit.isEmpty then some []
  else if !lit.contains 92 then some lit
  else strLoop (lit.length + 1) lit []

end OttoVerif.C03.LitModel
