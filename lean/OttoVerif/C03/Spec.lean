/-
  C03/Spec — the ES5 expression grammar (§11.1–§11.14) in *unparse* form.

  `bare e ai` is the token string the grammar derives for the tree `e` with exactly the parentheses the
  productions force; `ai = false` is the `NoIn` family of productions.  Reading guide:

    level  production (ES5)                          operators
      0    Expression                                ,
      1    AssignmentExpression                      = += …            (right-assoc; LeftHandSideExpression on the left)
      2    ConditionalExpression                     ? :               (middle operand is ALWAYS an AssignmentExpression with In)
      3-7  LogicalOR … BitwiseAND                    || && | ^ &
      8    EqualityExpression                        == != === !==
      9    RelationalExpression                      < > <= >= instanceof in     (LEFT-assoc; `in` absent in NoIn)
      10-12 Shift, Additive, Multiplicative          << >> >>>  + -  * / %
      13   UnaryExpression                           delete void typeof ++ -- + - ~ !
      14   PostfixExpression                         LeftHandSideExpression [no LineTerminator] ++ / --
      15   LeftHandSideExpression = NewExpression | CallExpression
      16   base of a property access or call         MemberExpression | CallExpression
      17   operand of `new` without Arguments        NewExpression
      18   operand of `new` with Arguments           MemberExpression

  A sub-expression is wrapped in `( )` — a PrimaryExpression, inside which `In` is allowed again —
  exactly when its own production is not derivable from the one its position requires (`needParen`).
-/
import OttoVerif.C03.Model
namespace OttoVerif.C03.Spec
open OttoVerif.C03

def binPrec : BinOp → Nat
  | .comma => 0
  | .lor => 3 | .land => 4 | .bor => 5 | .bxor => 6 | .band => 7
  | .eq | .ne | .seq | .sne => 8
  | .lt | .gt | .le | .ge | .instanceof | .in_ => 9
  | .shl | .shr | .ushr => 10
  | .add | .sub => 11
  | .mul | .div | .rem => 12

def binTok : BinOp → P
  | .comma => .comma | .lor => .lor | .land => .land | .bor => .bar | .bxor => .caret | .band => .amp
  | .eq => .eq | .ne => .ne | .seq => .seq | .sne => .sne
  | .lt => .lt | .gt => .gt | .le => .le | .ge => .ge | .instanceof => .kInstanceof | .in_ => .kIn
  | .shl => .shl | .shr => .shr | .ushr => .ushr | .add => .plus | .sub => .minus
  | .mul => .star | .div => .slash | .rem => .percent

def unTok : UnOp → P
  | .pos => .plus | .neg => .minus | .not => .not | .bnot => .bnot
  | .delete => .kDelete | .void => .kVoid | .typeof => .kTypeof | .preinc => .inc | .predec => .dec

def asgTok : AsgOp → P
  | .assign => .assign | .add => .addA | .sub => .subA | .mul => .mulA | .div => .divA | .rem => .remA
  | .band => .andA | .andnot => .andnotA | .bor => .orA | .bxor => .xorA | .shl => .shlA | .shr => .shrA | .ushr => .ushrA

/-- the production an expression tree belongs to -/
def prec : E → Nat
  | .bin o _ _ => binPrec o
  | .asg _ _ _ => 1
  | .cond _ _ _ => 2
  | .un _ _ => 13
  | .post _ _ => 14
  | _ => 15

/-- §11.2: M = MemberExpression, N = NewExpression that is not a MemberExpression (`new X` without
    arguments), C = CallExpression, X = not a LeftHandSideExpression -/
inductive Cat where | M | N | C | X
deriving DecidableEq, Repr

def cat : E → Cat
  | .id _ | .num _ | .str _ | .bool _ | .null | .this_ => .M
  | .dot e _ => if cat e = .C then .C else .M
  | .idx e _ => if cat e = .C then .C else .M
  | .call _ _ => .C
  | .new_ _ .noargs => .N
  | .new_ _ _ => .M
  | _ => .X

def isIn : E → Bool
  | .bin .in_ _ _ => true
  | _ => false

/-- must the tree be parenthesised at a position that requires production `lvl` (with/without In)? -/
def needParen (lvl : Nat) (ai : Bool) (e : E) : Bool :=
  if lvl = 16 then !(cat e = .M || cat e = .C)
  else if lvl = 17 then !(cat e = .M || cat e = .N)
  else if lvl = 18 then !(cat e = .M)
  else decide (prec e < lvl) || (isIn e && !ai)

def tk (x : P) : Tok := { k := .p x, nl := false }

/-- `( inner-with-In )` or the bare derivation -/
def wrap (need : Bool) (inner : Bool → List Tok) (ai : Bool) : List Tok :=
  if need then tk .lparen :: (inner true ++ [tk .rparen]) else inner ai

/-- the derivation of `e` from its own production -/
def bare : E → Bool → List Tok
  | .id s, _ => [{ k := .id s }]
  | .num s, _ => [{ k := .num s }]
  | .str s, _ => [{ k := .str s }]
  | .bool s, _ => [{ k := .bool s }]
  | .null, _ => [{ k := .null }]
  | .this_, _ => [tk .kThis]
  | .bin o l r, ai =>
    wrap (needParen (binPrec o) ai l) (fun a => bare l a) ai ++ tk (binTok o) ::
      wrap (needParen (binPrec o + 1) ai r) (fun a => bare r a) ai
  | .un o e, ai => tk (unTok o) :: wrap (needParen 13 ai e) (fun a => bare e a) ai
  | .post inc e, ai => wrap (needParen 15 ai e) (fun a => bare e a) ai ++ [tk (if inc then .inc else .dec)]
  | .cond c a b, ai =>
    wrap (needParen 3 ai c) (fun x => bare c x) ai ++ tk .quest ::
      (wrap (needParen 1 true a) (fun x => bare a x) true ++ tk .colon ::
        wrap (needParen 1 ai b) (fun x => bare b x) ai)
  | .asg o l r, ai =>
    wrap (needParen 15 ai l) (fun a => bare l a) ai ++ tk (asgTok o) :: wrap (needParen 1 ai r) (fun a => bare r a) ai
  | .dot e s, ai => wrap (needParen 16 ai e) (fun a => bare e a) ai ++ [tk .dot, { k := .id s }]
  | .idx e i, ai =>
    wrap (needParen 16 ai e) (fun a => bare e a) ai ++ tk .lbrack :: (wrap (needParen 0 true i) (fun a => bare i a) true ++ [tk .rbrack])
  | .call f args, ai =>
    wrap (needParen 16 ai f) (fun a => bare f a) ai ++ tk .lparen :: (bare args true ++ [tk .rparen])
  | .new_ f args, ai =>
    match args with
    | .noargs => tk .kNew :: wrap (needParen 17 ai f) (fun a => bare f a) ai
    | _ => tk .kNew :: (wrap (needParen 18 ai f) (fun a => bare f a) ai ++ tk .lparen :: (bare args true ++ [tk .rparen]))
  | .anil, _ => []
  | .acons h tl, _ =>
    match tl with
    | .anil => wrap (needParen 1 true h) (fun a => bare h a) true
    | _ => wrap (needParen 1 true h) (fun a => bare h a) true ++ tk .comma :: bare tl true
  | .noargs, _ => []

/-- the token string of an Expression (with In) -/
def print (e : E) : List Tok := bare e true

/-- position `lvl` filled with `e` -/
def pr (lvl : Nat) (ai : Bool) (e : E) : List Tok := wrap (needParen lvl ai e) (fun a => bare e a) ai

def isRel : BinOp → Bool
  | .lt | .gt | .le | .ge | .instanceof | .in_ => true
  | _ => false

def isArgs : E → Bool
  | .anil | .acons _ _ => true
  | _ => false

def isExprHead : E → Bool
  | .anil | .acons _ _ | .noargs => false
  | _ => true

/-- Shape of an expression tree of the grammar: argument lists only in argument positions, targets of
    `= ++ --` are references (§11.13.1, §11.3, §11.4.4-5 early errors). -/
def wf : E → Bool
  | .bin _ l r => isExprHead l && isExprHead r && wf l && wf r
  | .un o e => isExprHead e && wf e && (if o = .preinc ∨ o = .predec then simpleTarget e else true)
  | .post _ e => isExprHead e && wf e && simpleTarget e
  | .cond c a b => isExprHead c && isExprHead a && isExprHead b && wf c && wf a && wf b
  | .asg _ l r => isExprHead l && isExprHead r && wf l && wf r && simpleTarget l
  | .dot e _ => isExprHead e && wf e
  | .idx e i => isExprHead e && isExprHead i && wf e && wf i
  | .call f args => isExprHead f && isArgs args && wf f && wf args
  | .new_ f args => isExprHead f && (isArgs args || args = .noargs) && wf f && wf args
  | .acons h tl => isExprHead h && isArgs tl && wf h && wf tl
  | _ => true

end OttoVerif.C03.Spec
