/-
  C03/Theorems — the ledger for property C03 (every theorem here is audited).
-/
import OttoVerif.C03.Spec
import OttoVerif.C03.Lemmas
import OttoVerif.C03.LitModel
import OttoVerif.C03.LitSpec
import OttoVerif.C03.LitLemmas
import OttoVerif.C03.Asi
import OttoVerif.C03.NumTokLemmas
import OttoVerif.C03.Trivia
namespace OttoVerif.C03.Thm
open OttoVerif.C03 OttoVerif.C03.Spec OttoVerif.C03.Lem

/-- a binary-level loop stops without consuming anything at a token that is not one of its operators -/
theorem binLoop_stop (ops : Tk → Option BinOp) (next : List Tok → R) (n : Nat) (e : E) (ts : List Tok)
    (h : ops (hd ts) = none) : binLoop ops next (n+1) e ts = some (e, ts) := by
  simp [binLoop, h]

def eofTok : Tok := { k := .eof }

/-- ROUND TRIP (full ES5 §11 expression grammar): for every expression tree of the ES5 grammar built from literals, identifiers, `this`, ALL binary (24), unary (9),
    postfix (2), conditional, assignment (13) and comma operators, member access (`.name`, `[e]`),
    calls with argument lists, and `new` with and without arguments in every chaining the grammar allows
    (MemberExpression / NewExpression / CallExpression, §11.2).  The only hypothesis: the tree is a well-formed expression tree.
    In particular the relational operators are left-associative: `a < b < c` round-trips as `(a < b) < c`. -/
theorem parse_print (e : E) (hw : wf e = true) (he : isExprHead e = true) :
    ∃ n0, ∀ n, n0 ≤ n → parseExpression n true (print e ++ [eofTok]) = some (e, [eofTok]) := by
  have rt := ((main2 e hw).1 he).1 0 (by omega) (by omega) [eofTok] (show stopB 0 .eof false = true by decide)
  simpa [Ev, parseAt_0, pr_bare (Nat.zero_le 15) (Nat.zero_le _), print] using rt

/-- … at every grammar position and in front of any admissible rest (cf. `parse_print_at`). -/
theorem parse_print_at_full (e : E) (hw : wf e = true) (he : isExprHead e = true)
    (lvl : Nat) (h15 : lvl ≤ 15) (h2 : lvl ≠ 2) (rest : List Tok) (hs : stop lvl rest) :
    ∃ n0, ∀ n, n0 ≤ n → parseAt lvl n (pr lvl true e ++ rest) = some (e, rest) :=
  ((main2 e hw).1 he).1 lvl h15 h2 rest hs

/-- argument lists: `parseArgumentList`'s loop returns exactly the list the grammar derived and stops at `)` -/
theorem parse_print_args (a : E) (hw : wf a = true) (ha : isArgs a = true) (R : List Tok) :
    ∃ n0, ∀ n, n0 ≤ n → parseArgs n (bare a true ++ tk .rparen :: R) = some (a, tk .rparen :: R) :=
  (main2 a hw).2 ha R

/-- NoIn (§11.8, §12.6.3-4): with allowIn = false the parser NEVER consumes a top-level `in`.  For every expression `e`
    that binds tighter than the relational operators (ShiftExpression and above — in particular every
    LeftHandSideExpression, the left side of `for (… in …)`), the NoIn derivation of `e` followed by `in …` parses to `e`
    and leaves the `in` (and everything after it) untouched. -/
theorem noin_keeps_top_level_in (e : E) (hw : wf e = true) (he : isExprHead e = true)
    (hp : 10 ≤ prec e) (rest : List Tok) :
    ∃ n0, ∀ n, n0 ≤ n → parseExpression n false (bare e false ++ tk .kIn :: rest) = some (e, tk .kIn :: rest) := by
  have rt := ((main2 e hw).1 he).1 10 (by omega) (by omega) (tk .kIn :: rest) (show stopB 10 (.p .kIn) false = true by decide)
  rw [pr_bare (by omega) hp] at rt
  have := descendA false 10 0 (by omega) rt (stopA_in rest)
  rw [bare_noin e hp]
  exact this

/-- … whereas with allowIn = true the same text is the relational expression `e in r` (an instance of `parse_print`). -/
theorem in_consumed_with_allowIn (e r : E) (hwe : wf e = true) (hee : isExprHead e = true)
    (hwr : wf r = true) (her : isExprHead r = true) (hpe : 10 ≤ prec e) (hpr : 10 ≤ prec r) :
    ∃ n0, ∀ n, n0 ≤ n →
      parseExpression n true (bare e true ++ tk .kIn :: (bare r true ++ [eofTok])) = some (.bin .in_ e r, [eofTok]) := by
  have h := parse_print (.bin .in_ e r) (by simp [wf, hwe, hwr, hee, her]) rfl
  have hp : print (.bin .in_ e r) = bare e true ++ tk .kIn :: bare r true := by
    show pr 9 true e ++ tk .kIn :: pr 10 true r = _
    rw [pr_bare (by omega) (by omega), pr_bare (by omega) hpr]
  rw [hp] at h
  simpa using h

/-- ASI, restricted production PostfixExpression (§7.9.1, §11.3 "no LineTerminator here"): when a line terminator stands
    between a LeftHandSideExpression and `++`/`--`, the operator is NOT taken as a postfix operator — the parser returns
    the operand and leaves the operator token for the next statement (where it is a prefix operator). -/
theorem asi_postfix_restricted (e : E) (hw : wf e = true) (he : isExprHead e = true)
    (hp : 15 ≤ prec e) (inc : Bool) (rest : List Tok) :
    ∃ n0, ∀ n, n0 ≤ n →
      parsePostfix n (bare e true ++ { k := .p (if inc then .inc else .dec), nl := true } :: rest)
        = some (e, { k := .p (if inc then .inc else .dec), nl := true } :: rest) := by
  have hs : stop 15 ({ k := .p (if inc then .inc else .dec), nl := true } :: rest) := by
    cases inc <;> (show stopB 15 (.p _) true = true) <;> decide
  obtain ⟨n0, h⟩ := ((main2 e hw).1 he).1 15 (by omega) (by omega) _ hs
  refine ⟨n0 + 1, fun n hn => ?_⟩
  obtain ⟨m, rfl⟩ : ∃ m, n = m + 1 := ⟨n - 1, by omega⟩
  have h' := h m (by omega)
  dsimp only at h'
  rw [pr_bare (by omega) hp, parseAt_15] at h'
  rw [parsePostfix, h']
  simp [hdNl]

/-- … whereas without the line terminator the same tokens are the postfix expression (instance of `parse_print_at_full`). -/
theorem postfix_without_newline (e : E) (hw : wf e = true) (he : isExprHead e = true)
    (ht : simpleTarget e = true) (inc : Bool) :
    ∃ n0, ∀ n, n0 ≤ n → parseExpression n true (print (.post inc e) ++ [eofTok]) = some (.post inc e, [eofTok]) :=
  parse_print (.post inc e) (by simp [wf, hw, he, ht]) rfl

/-- ASI FLAG: for every token sequence made of "settled" tokens (all token kinds except `throw`, `/`, `/=`, the keywords
    that leave the scanner's field untouched, and reserved-word tokens) and every placement of line terminators, the flags
    the scanner model reports are exactly "line terminator (or end of input) before the token ∧ the previous token can end
    a statement" — in particular after EVERY literal form, identifier, `)`, `]`, `}`, `++`, `--`, this/true/false/null,
    break/continue/return/debugger. -/
theorem asi_flags_eq : ∀ (ts : List (Tk × Bool)) (st : Bool), (∀ p ∈ ts, Asi.settled p.1 = true) →
    Asi.modelFlags st ts = Asi.specFlags st ts
  | [], _, _ => rfl
  | (t, nl) :: r, st, h => by
    have hs : Asi.scanSets t = some (Asi.canEnd t) := by simpa [Asi.settled] using h (t, nl) (by simp)
    simp only [Asi.modelFlags, Asi.specFlags, hs, Option.getD_some]
    rw [asi_flags_eq r (Asi.canEnd t) (fun p hp => h p (by simp [hp]))]

/-- every literal kind, identifier and closing token is settled and can end a statement (non-vacuity of `asi_flags_eq`) -/
example : ∀ s, Asi.settled (.num s) = true ∧ Asi.canEnd (.num s) = true ∧ Asi.settled (.id s) = true ∧ Asi.settled (.str s) = true :=
  fun _ => ⟨rfl, rfl, rfl, rfl⟩
/-- a regular expression literal (the parser's token after re-scanning `/` or `/=`) is settled and can end a statement -/
example : ∀ s, Asi.settled (.regex s) = true ∧ Asi.canEnd (.regex s) = true := fun _ => ⟨rfl, rfl⟩
example : (Asi.settled (.p .rparen) && Asi.settled (.p .rbrace) && Asi.settled (.p .inc) && Asi.settled (.p .kReturn)
    && Asi.settled (.p .plus) && !Asi.settled (.p .kThrow) && !Asi.settled (.p .slash) && !Asi.settled (.p .kIn)) = true := by decide

/-- non-vacuity: member/call/new chains mixed with operators -/
example : let e : E := .asg .assign (.dot (.call (.new_ (.dot (.id "a") "b") (.acons (.num "1") (.acons (.bin .add (.id "x") (.id "y")) .anil))) .anil) "c")
                          (.bin .mul (.new_ (.new_ (.id "F") .noargs) .noargs) (.idx (.call (.id "f") (.acons (.bin .comma (.id "p") (.id "q")) .anil)) (.bin .in_ (.str "'k'") (.id "o"))))
    wf e = true ∧ isExprHead e = true := by decide

/-- the former deviation `a < b < c` now parses as ES5 says -/
example : parseExpression 40 true (print (.bin .lt (.bin .lt (.id "a") (.id "b")) (.id "c")))
    = some (.bin .lt (.bin .lt (.id "a") (.id "b")) (.id "c"), []) := by decide

/-! ### literal values: the former deviation witnesses now agree with the specification -/

example : (LitModel.parseNumberLiteral (Str.ofString "0x8000000000000401")).map F64.encode
        = (LitSpec.numberValue (Str.ofString "0x8000000000000401")).map F64.encode := by decide +kernel
example : (LitModel.parseNumberLiteral (Str.ofString "01000000000000000000000")).map F64.encode
        = (LitSpec.numberValue (Str.ofString "01000000000000000000000")).map F64.encode := by decide +kernel
example : LitModel.parseStringLiteral [92,117,68,56,51,68,92,117,68,69,48,48] = some [0xF0,0x9F,0x98,0x80]
        ∧ (LitSpec.sv 20 [92,117,68,56,51,68,92,117,68,69,48,48]).map Str.bytesOfUnits = some [0xF0,0x9F,0x98,0x80] := by decide +kernel
example : LitModel.parseStringLiteral [92,52,55,55] = some [39,55] ∧ LitSpec.sv 10 [92,52,55,55] = some [39,55] := by decide +kernel
example : LitModel.parseStringLiteral [97,92,0xE2,0x80,0xA8,98] = some [97,98] ∧ LitSpec.sv 10 [97,92,0x2028,98] = some [97,98] := by decide +kernel

/-- witness of the remaining region `surrogate_pair_split`: \\uD83D \\<LF> \\uDE00 -/
example : LitModel.parseStringLiteral [92,117,68,56,51,68,92,10,92,117,68,69,48,48] = some [0xEF,0xBF,0xBD,0xEF,0xBF,0xBD]
        ∧ (LitSpec.sv 20 [92,117,68,56,51,68,92,10,92,117,68,69,48,48]).map Str.bytesOfUnits = some [0xF0,0x9F,0x98,0x80] := by decide +kernel

/-- strings without a backslash are returned unchanged (lexer.go:708 fast path) — and that is their SV when they are
    ASCII without line terminators -/
theorem strlit_plain_ascii (lit : List Nat) (h : ∀ c ∈ lit, c < 128 ∧ c ≠ 92 ∧ c ≠ 10 ∧ c ≠ 13) :
    LitModel.parseStringLiteral lit = some lit ∧ LitSpec.sv (lit.length + 1) lit = some lit := by
  constructor
  · unfold LitModel.parseStringLiteral
    by_cases he : lit.isEmpty = true
    · simp [he]; cases lit <;> simp_all
    · have : lit.contains 92 = false := by
        simp only [List.contains_eq_mem, decide_eq_false_iff_not]
        intro hm; exact (h 92 hm).2.1 rfl
      simp [he]
      intro hm; exact absurd rfl (h 92 hm).2.1
  · induction lit with
    | nil => simp [LitSpec.sv]
    | cons c r ih =>
      have hc := h c (by simp)
      have hr := ih (fun x hx => h x (by simp [hx]))
      have hlt : LitSpec.isLT c = false := by
        simp [LitSpec.isLT]; omega
      simp only [List.length_cons, LitSpec.sv]
      have h16 : c < 65536 := by omega
      simp [hc.2.1, hlt, hr, LitSpec.units, h16]

/-- NUMERIC TOKEN END: for EVERY text, the transcription of otto's `scan` / `scanNumericLiteral` ends the numeric literal token
    — or reports ILLEGAL — exactly where ES5 7.8.3 (+ B.1.1) does: the longest NumericLiteral, which must not be followed by
    an IdentifierStart or a DecimalDigit.  (`.5.toFixed(1)`: the token is `.5`; `3in`, `0x1g`, `1e`, `08`: ILLEGAL.) -/
theorem numeric_token_end (s : List Nat) : Lit.NumTok.scanModel s = Lit.NumTok.scanSpec s :=
  Lit.NumTok.scanModel_eq_spec s

example : Lit.NumTok.scanSpec (Str.ofString ".5.toFixed(1)") = some (Str.ofString ".toFixed(1)")
    ∧ Lit.NumTok.scanSpec (Str.ofString "3in x") = none ∧ Lit.NumTok.scanSpec (Str.ofString "5..x") = some (Str.ofString ".x") := by decide +kernel

/-- NUMERIC LITERAL VALUE (decimal integers): for every DecimalIntegerLiteral without a leading zero whose MV (§7.8.3)
    is below 2^63, parseNumberLiteral returns exactly the integer MV (the runtime's int64 → float64 conversion of it), and
    that integer is what the specification `LitSpec.mv` assigns.  Hex, legacy octal, fractions and exponents are covered by
    the correspondence only (they go through the trusted strconv stubs). -/
theorem numlit_decimal_int (ds : List Nat) (hne : ds ≠ []) (hd : ∀ c ∈ ds, LitSpec.isDec c = true)
    (h0 : ds.head? ≠ some 48) (hv : LitSpec.digitsVal 10 ds < 2^63) :
    LitModel.parseNumberLiteral ds = some (F64.ofInt (LitSpec.digitsVal 10 ds)) ∧
      LitSpec.mv ds = some (LitSpec.digitsVal 10 ds, 1) :=
  ⟨LitThm.numlit_decimal_int ds hne hd h0 hv, LitThm.mv_decimal_int ds hne hd h0⟩

/-- STRING LITERAL VALUE: for every ASCII literal body to which ES5 §7.8.4 / B.1.2 assigns a string value `us` without
    surrogate code units (all escape forms incl. every legacy octal form, and the line continuations, any length),
    parseStringLiteral returns the Go string of exactly that value.  Proof: `LitLemmas.core`, induction on the text with the
    model's buffer generalised.  (Escaped surrogate PAIRS are combined by the code and agree with the specification on every
    generated input, but are outside this theorem.) -/
theorem strlit_value_ascii_units (lit us : List Nat) (hasc : ∀ c ∈ lit, c < 128)
    (hsv : LitSpec.sv (lit.length + 1) lit = some us) (hsur : ∀ u ∈ us, LitThm.OKU u) :
    LitModel.parseStringLiteral lit = some (Str.bytesOfUnits us) :=
  LitThm.strlit_value_ascii_units lit us hasc hsv hsur

/-- non-vacuity: `a\n\x41\u00e9\101\0\<LF>\q` satisfies the hypotheses -/
example : let lit := Str.ofString "a\\n\\x41\\u00e9\\101\\0\\\nz\\q"
    (lit.all (· < 128)) = true ∧ (LitSpec.sv (lit.length + 1) lit).isSome = true := by decide +kernel

/-- generalised: with any starting state (insertSemicolon, implicitSemicolon) the scan loop over trivia ends with
    implicitSemicolon = imp ∨ (ins ∧ the trivia counts as a LineTerminator per 7.4) — in particular a block comment that
    contains a line terminator is one, in every parser mode (the StoreComments branch reads the same characters) -/
theorem trivia_go (n : Nat) : ∀ (ins imp : Bool) (cs : List Nat),
    Trivia.modelGo n ins imp cs = (Trivia.specGo n cs).map fun b => imp || (ins && b) := by
  induction n with
  | zero => intro ins imp cs; simp [Trivia.modelGo, Trivia.specGo]
  | succ n ih =>
    intro ins imp cs
    cases cs with
    | nil => simp [Trivia.modelGo, Trivia.specGo]
    | cons c r =>
      simp only [Trivia.modelGo, Trivia.specGo]
      by_cases hw : Trivia.isWS c = true
      · simp only [hw, if_true]; exact ih ins imp r
      · simp only [hw]
        by_cases hl : Trivia.isLT c = true
        · simp only [hl, if_true]
          cases ins
          · simp [ih, Option.map_map, Function.comp_def]
          · simp [ih, Option.map_map, Function.comp_def]
        · simp only [hl]
          by_cases h2 : c = 0x2F
          · simp only [h2, beq_self_eq_true, if_true]
            match r with
            | [] => simp
            | d :: r' =>
              by_cases hd : d = 0x2F
              · subst hd; simp only []; exact ih ins imp _
              · by_cases he : d = 0x2A
                · subst he
                  simp only []
                  cases hb : Trivia.blockRest r' false with
                  | none => simp
                  | some p =>
                    obtain ⟨seen, r''⟩ := p
                    simp only []
                    cases ins <;> cases seen <;> simp [ih, Option.map_map, Function.comp_def]
                · have : ∀ (α : Type) (x y z : α), (match d :: r' with | 0x2F :: _ => x | 0x2A :: _ => y | _ => z) = z := by
                    intro α x y z; split <;> simp_all
                  simp_all
          · have : (c == 0x2F) = false := by simpa using h2
            simp [this]

/-- LINE TERMINATORS IN TRIVIA (ES5 7.4): after a token that may end a statement (insertSemicolon set) the scanner reports
    implicitSemicolon for the next token exactly when the white space and comments between them contain a LineTerminator or
    a MultiLineComment that contains one. -/
theorem trivia_nl_eq (cs : List Nat) : Trivia.modelNL true cs = Trivia.specNL cs := by
  unfold Trivia.modelNL Trivia.specNL
  rw [trivia_go]
  cases Trivia.specGo (cs.length + 1) cs <;> simp

/-- … and never when the previous token cannot end a statement -/
theorem trivia_nl_no_insert (cs : List Nat) : Trivia.modelNL false cs = (Trivia.specNL cs).map fun _ => false := by
  unfold Trivia.modelNL Trivia.specNL
  rw [trivia_go]
  cases Trivia.specGo (cs.length + 1) cs <;> simp

/-- `/* a⏎b */` counts, `/* c */ // d` does not, `/* c` is not trivia -/
example : Trivia.specNL (Str.ofString " /* a\nb */ ") = some true ∧ Trivia.specNL (Str.ofString " /* c */ // d") = some false ∧
    Trivia.specNL (Str.ofString "/* c") = none ∧ Trivia.modelNL true (Str.ofString "/*\r*/") = some true := by decide +kernel

end OttoVerif.C03.Thm
