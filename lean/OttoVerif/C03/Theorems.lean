/-
  C03/Theorems — the ledger for property C03 (every theorem here is audited).
-/
import OttoVerif.C03.Spec
namespace OttoVerif.C03.Thm
open OttoVerif.C03 OttoVerif.C03.Spec

/-- a binary-level loop stops without consuming anything at a token that is not one of its operators -/
theorem binLoop_stop (ops : Tk → Option BinOp) (next : List Tok → R) (n : Nat) (e : E) (ts : List Tok)
    (h : ops (hd ts) = none) : binLoop ops next (n+1) e ts = some (e, ts) := by
  simp [binLoop, h]

/-- Kernel-checked witness of the deviation region `relational_chain`: `a < b < c` (ES5: `(a<b)<c`). -/
def wRel : E := .bin .lt (.bin .lt (.id "a") (.id "b")) (.id "c")
example : relChain wRel = true := by decide
example : parseExpression 40 true (print wRel) = some (.bin .lt (.id "a") (.bin .lt (.id "b") (.id "c")), []) := by decide

end OttoVerif.C03.Thm
