/-  C03/Theorems — the ledger for property C03 (every theorem here is audited).  Placeholder. -/
namespace OttoVerif.C03.Thm
end OttoVerif.C03.Thm
