/-
  C03/Asi — the scanner's automatic-semicolon flag.

  Model: parser/lexer.go `scan` keeps `p.insertSemicolon` ("the token just produced may end a statement") and reports
  `p.implicitSemicolon` for the next token when a line terminator (or the end of input) follows while that field is set
  (lexer.go:169-354, 524-552).  `scanSets` transcribes, per token kind, what `scan` does to the field: `some b` = assigns b,
  `none` = leaves the previous value (the keyword arm `default: return tkn` at lexer.go:218 and the KEYWORD arm at :206).

  Spec: ES5 §7.9.1 — a semicolon is inserted before an offending token separated by a LineTerminator from the previous
  token (or at the end of input); otto's parser consults the flag only where the grammar allows a statement to end, so the
  flag must be "LineTerminator before this token ∧ the previous token can be the last token of a statement" (`canEnd`).
-/
import OttoVerif.C03.Model
namespace OttoVerif.C03.Asi
open OttoVerif.C03

def isKeywordP : P → Bool
  | .kIf | .kIn | .kDo | .kVar | .kFor | .kNew | .kTry | .kThis | .kElse | .kCase | .kVoid | .kWith | .kWhile | .kBreak | .kCatch
  | .kThrow | .kReturn | .kTypeof | .kDelete | .kSwitch | .kDefault | .kFinally | .kFunction | .kContinue | .kDebugger
  | .kInstanceof => true
  | _ => false

/-- what `scan` does to `p.insertSemicolon` when it produces the token -/
def scanSets : Tk → Option Bool
  | .id _ | .num _ | .str _ | .bool _ | .null => some true             -- lexer.go:195,198,222,225,339 / 246 (dot-leading number)
  | .p .rparen | .p .rbrack | .p .rbrace | .p .inc | .p .dec => some true  -- :259,264,269,273,278
  | .p .slash | .p .divA => some true                                   -- :303 (may open a regular expression)
  | .p .kThis | .p .kBreak | .p .kThrow | .p .kReturn | .p .kContinue | .p .kDebugger => some true   -- :208-216
  | .p x => if isKeywordP x then none else some false                  -- :218 keyword: untouched;  :351 punctuator: false
  | .kw _ => none                                                      -- :206
  | .illegal => some false
  | .eof => some false
  | .regex _ => some true      -- the field keeps the `true` of the opening `/` or `/=` token (:303); scanString never touches it

/-- can the token be the last token of a statement (ES5 §12, §11.1–11.3, §7.8)? -/
def canEnd : Tk → Bool
  | .id _ | .num _ | .str _ | .bool _ | .null => true
  | .p .rparen | .p .rbrack | .p .rbrace | .p .inc | .p .dec => true
  | .p .kThis | .p .kBreak | .p .kReturn | .p .kContinue | .p .kDebugger => true
  | .regex _ => true
  | _ => false

/-- model: the flags `scan` reports, given for every token whether a line terminator precedes it -/
def modelFlags : Bool → List (Tk × Bool) → List Bool
  | _, [] => []
  | st, (t, nl) :: r => ((nl || t == .eof) && st) :: modelFlags ((scanSets t).getD st) r

/-- spec -/
def specFlags : Bool → List (Tk × Bool) → List Bool
  | _, [] => []
  | prevEnds, (t, nl) :: r => ((nl || t == .eof) && prevEnds) :: specFlags (canEnd t) r

/-- tokens after which the field provably holds `canEnd` (everything except `throw`, `/`, `/=`, the keywords that leave
    the field untouched, and reserved-word tokens) -/
def settled (t : Tk) : Bool := scanSets t == some (canEnd t)

end OttoVerif.C03.Asi
