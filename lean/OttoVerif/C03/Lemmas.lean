/-
  C03/Lemmas — the machinery of the parser round-trip proof (core-only; no Mathlib needed).

  `Ev f v`  : the fuel-indexed computation `f` returns `v` for all sufficiently large fuel.
  `parseAt` : the ladder of parser/expression.go indexed by production level (0 = Expression … 15 = LeftHandSideExpression),
              with allowIn = true.
  `stop`    : the token that follows is not consumed by any loop / trailing test of the levels ≥ lvl.
  `RT e`    : at every position, the text the grammar derives for `e` parses back to `e`.
  `LC k e`  : continuation form for the left-recursive spine of the loop level `k`.
-/
import OttoVerif.C03.Spec
namespace OttoVerif.C03.Lem
open OttoVerif.C03 OttoVerif.C03.Spec

/-- the fuel-indexed computation `f` returns `v` for every sufficiently large fuel -/
def Ev (f : Nat → R) (v : E × List Tok) : Prop := ∃ n0, ∀ n, n0 ≤ n → f n = some v

theorem Ev.mono_shift {f : Nat → R} {v} (h : Ev f v) : Ev (fun n => f (n+1)) v := by
  obtain ⟨n0, h⟩ := h; exact ⟨n0, fun n hn => h (n+1) (by omega)⟩

/-- from `∀ n, g (n+1) = f n` style equations: if `f` eventually returns v so does `g` -/
theorem Ev.of_succ {f g : Nat → R} {v} (hg : ∀ n, g (n+1) = f n) (h : Ev f v) : Ev g v := by
  obtain ⟨n0, h⟩ := h
  refine ⟨n0+1, fun n hn => ?_⟩
  obtain ⟨m, rfl⟩ : ∃ m, n = m+1 := ⟨n-1, by omega⟩
  rw [hg]; exact h m (by omega)

def parseAt : Nat → Nat → List Tok → R
  | 0 => fun n => parseExpression n true | 1 => fun n => parseAssign n true | 2 => fun n => parseCond n true
  | 3 => fun n => parseLor n true | 4 => fun n => parseLand n true | 5 => fun n => parseBor n true
  | 6 => fun n => parseBxor n true | 7 => fun n => parseBand n true | 8 => fun n => parseEq n true
  | 9 => fun n => parseRel n true | 10 => parseShift | 11 => parseAdd | 12 => parseMul | 13 => parseUnary
  | 14 => parsePostfix | _ => parseLHSCall

theorem parseAt_0 (n : Nat) (ts : List Tok) : parseAt 0 n ts = parseExpression n true ts := rfl
theorem parseAt_1 (n : Nat) (ts : List Tok) : parseAt 1 n ts = parseAssign n true ts := rfl
theorem parseAt_2 (n : Nat) (ts : List Tok) : parseAt 2 n ts = parseCond n true ts := rfl
theorem parseAt_3 (n : Nat) (ts : List Tok) : parseAt 3 n ts = parseLor n true ts := rfl
theorem parseAt_9 (n : Nat) (ts : List Tok) : parseAt 9 n ts = parseRel n true ts := rfl
theorem parseAt_10 (n : Nat) (ts : List Tok) : parseAt 10 n ts = parseShift n ts := rfl
theorem parseAt_13 (n : Nat) (ts : List Tok) : parseAt 13 n ts = parseUnary n ts := rfl
theorem parseAt_14 (n : Nat) (ts : List Tok) : parseAt 14 n ts = parsePostfix n ts := rfl
theorem parseAt_15 (n : Nat) (ts : List Tok) : parseAt 15 n ts = parseLHSCall n ts := rfl

def isRelTk : Tk → Bool
  | .p .lt | .p .le | .p .gt | .p .ge | .p .kInstanceof | .p .kIn => true
  | _ => false

/-- does the loop / trailing test of level `j` react to the token? -/
def fires : Nat → Tk → Bool → Bool
  | 0, t, _ => (commaOps t).isSome | 1, t, _ => (asgOps t).isSome | 2, t, _ => t = .p .quest
  | 3, t, _ => (lorOps t).isSome | 4, t, _ => (landOps t).isSome | 5, t, _ => (borOps t).isSome
  | 6, t, _ => (bxorOps t).isSome | 7, t, _ => (bandOps t).isSome | 8, t, _ => (eqOps t).isSome
  | 9, t, _ => (relOps true t).isSome | 10, t, _ => (shiftOps t).isSome | 11, t, _ => (addOps t).isSome | 12, t, _ => (mulOps t).isSome
  | 13, _, _ => false
  | 14, t, nl => (t = .p .inc || t = .p .dec) && !nl
  | 15, t, _ => t = .p .dot || t = .p .lbrack || t = .p .lparen
  | _, _, _ => false

/-- no level in `[lvl, 15]` reacts to the token -/
def stopB (lvl : Nat) (t : Tk) (nl : Bool) : Bool := (List.range 16).all fun j => decide (j < lvl) || !fires j t nl

/-- no level in `[lvl, 15]` reacts to the token that follows -/
def stop (lvl : Nat) (ts : List Tok) : Prop := stopB lvl (hd ts) (hdNl ts) = true

theorem fires_ge16 (j : Nat) (t : Tk) (nl : Bool) (h : 16 ≤ j) : fires j t nl = false := by
  obtain ⟨i, rfl⟩ : ∃ i, j = i + 16 := ⟨j - 16, by omega⟩
  rfl

theorem stop_fires {lvl : Nat} {ts : List Tok} (s : stop lvl ts) (j : Nat) (hj : lvl ≤ j) : fires j (hd ts) (hdNl ts) = false := by
  by_cases h16 : 16 ≤ j
  · exact fires_ge16 j _ _ h16
  · have := (List.all_eq_true.mp s) j (List.mem_range.mpr (by omega))
    simp at this
    rcases this with h | h
    · omega
    · exact h

theorem stop_mono {a b : Nat} {ts} (h : a ≤ b) (s : stop a ts) : stop b ts := by
  unfold stop stopB at *
  rw [List.all_eq_true] at *
  intro j hj
  have := s j hj
  simp at this ⊢
  rcases this with h' | h'
  · left; omega
  · right; exact h'

/-- operator table of the loop levels -/
def opsAt : Nat → Tk → Option BinOp
  | 0 => commaOps | 3 => lorOps | 4 => landOps | 5 => borOps | 6 => bxorOps | 7 => bandOps | 8 => eqOps
  | 9 => relOps true | 10 => shiftOps | 11 => addOps | 12 => mulOps | _ => fun _ => none

def isLoopLevel (k : Nat) : Bool := k = 0 || k = 3 || k = 4 || k = 5 || k = 6 || k = 7 || k = 8 || k = 9 || k = 10 || k = 11 || k = 12

def nextLevel (k : Nat) : Nat := k + 1

theorem parseAt_loop (k : Nat) (hk : isLoopLevel k = true) (n : Nat) (ts : List Tok) :
    parseAt k (n+1) ts = (parseAt (k+1) n ts).bind fun p => binLoop (opsAt k) (parseAt (k+1) n) n p.1 p.2 := by
  simp [isLoopLevel] at hk
  rcases hk with ((((((((((h|h)|h)|h)|h)|h)|h)|h)|h)|h)|h) <;> subst h <;> simp only [parseAt, opsAt] <;>
    first
      | rw [parseExpression] | rw [parseLor] | rw [parseLand] | rw [parseBor] | rw [parseBxor] | rw [parseBand]
      | rw [parseEq] | rw [parseRel] | rw [parseShift] | rw [parseAdd] | rw [parseMul]


def notPrefix (t : Tk) : Prop := unaryOps t = none ∧ t ≠ .p .inc ∧ t ≠ .p .dec

theorem descend_loop (k : Nat) (hk : isLoopLevel k = true) {ts : List Tok} {e : E} {rest : List Tok}
    (h : Ev (fun n => parseAt (k+1) n ts) (e, rest)) (hs : fires k (hd rest) (hdNl rest) = false) :
    Ev (fun n => parseAt k n ts) (e, rest) := by
  obtain ⟨n0, h⟩ := h
  refine ⟨n0 + 2, fun n hn => ?_⟩
  obtain ⟨m, rfl⟩ : ∃ m, n = m+1 := ⟨n-1, by omega⟩
  have h' := h m (by omega)
  dsimp only at h' ⊢
  rw [parseAt_loop k hk, h']
  obtain ⟨m', rfl⟩ : ∃ m', m = m'+1 := ⟨m-1, by omega⟩
  have : opsAt k (hd rest) = none := by
    simp [isLoopLevel] at hk
    rcases hk with ((((((((((h|h)|h)|h)|h)|h)|h)|h)|h)|h)|h) <;> subst h <;> simpa [fires, opsAt] using hs
  simp [binLoop, this]

theorem descend_assign {ts : List Tok} {e : E} {rest : List Tok}
    (h : Ev (fun n => parseAt 2 n ts) (e, rest)) (hs : fires 1 (hd rest) (hdNl rest) = false) :
    Ev (fun n => parseAt 1 n ts) (e, rest) := by
  obtain ⟨n0, h⟩ := h
  refine ⟨n0 + 1, fun n hn => ?_⟩
  obtain ⟨m, rfl⟩ : ∃ m, n = m+1 := ⟨n-1, by omega⟩
  have h' := h m (by omega)
  dsimp only at h' ⊢
  simp only [parseAt] at h' ⊢
  rw [parseAssign, h']
  have : asgOps (hd rest) = none := by simpa [fires] using hs
  simp [this]

theorem descend_cond {ts : List Tok} {e : E} {rest : List Tok}
    (h : Ev (fun n => parseAt 3 n ts) (e, rest)) (hs : fires 2 (hd rest) (hdNl rest) = false) :
    Ev (fun n => parseAt 2 n ts) (e, rest) := by
  obtain ⟨n0, h⟩ := h
  refine ⟨n0 + 1, fun n hn => ?_⟩
  obtain ⟨m, rfl⟩ : ∃ m, n = m+1 := ⟨n-1, by omega⟩
  have h' := h m (by omega)
  dsimp only at h' ⊢
  simp only [parseAt] at h' ⊢
  rw [parseCond, h']
  have : ¬ hd rest = .p .quest := by simpa [fires] using hs
  simp [this]

theorem descend_unary {ts : List Tok} {e : E} {rest : List Tok}
    (h : Ev (fun n => parseAt 14 n ts) (e, rest)) (hf : notPrefix (hd ts)) :
    Ev (fun n => parseAt 13 n ts) (e, rest) := by
  obtain ⟨n0, h⟩ := h
  refine ⟨n0 + 1, fun n hn => ?_⟩
  obtain ⟨m, rfl⟩ : ∃ m, n = m+1 := ⟨n-1, by omega⟩
  have h' := h m (by omega)
  dsimp only at h' ⊢
  simp only [parseAt] at h' ⊢
  rw [parseUnary]
  obtain ⟨h1, h2, h3⟩ := hf
  simp [h1, h2, h3, h']

theorem descend_postfix {ts : List Tok} {e : E} {rest : List Tok}
    (h : Ev (fun n => parseAt 15 n ts) (e, rest)) (hs : fires 14 (hd rest) (hdNl rest) = false) :
    Ev (fun n => parseAt 14 n ts) (e, rest) := by
  obtain ⟨n0, h⟩ := h
  refine ⟨n0 + 1, fun n hn => ?_⟩
  obtain ⟨m, rfl⟩ : ∃ m, n = m+1 := ⟨n-1, by omega⟩
  have h' := h m (by omega)
  dsimp only at h' ⊢
  simp only [parseAt] at h' ⊢
  rw [parsePostfix, h']
  simp only [fires] at hs
  simp only [Option.bind_some]
  split
  · rename_i hc; obtain ⟨hc1, hc2⟩ := hc; rcases hc1 with hc1|hc1 <;> simp [hc1, hc2] at hs
  · rfl

/-- one step down the ladder -/
theorem descend1 (j : Nat) (hj : j ≤ 14) {ts : List Tok} {e : E} {rest : List Tok}
    (h : Ev (fun n => parseAt (j+1) n ts) (e, rest)) (hs : fires j (hd rest) (hdNl rest) = false)
    (hf : j = 13 → notPrefix (hd ts)) : Ev (fun n => parseAt j n ts) (e, rest) := by
  match j, hj with
  | 0, _ => exact descend_loop 0 rfl h hs
  | 1, _ => exact descend_assign h hs
  | 2, _ => exact descend_cond h hs
  | 3, _ => exact descend_loop 3 rfl h hs
  | 4, _ => exact descend_loop 4 rfl h hs
  | 5, _ => exact descend_loop 5 rfl h hs
  | 6, _ => exact descend_loop 6 rfl h hs
  | 7, _ => exact descend_loop 7 rfl h hs
  | 8, _ => exact descend_loop 8 rfl h hs
  | 9, _ => exact descend_loop 9 rfl h hs
  | 10, _ => exact descend_loop 10 rfl h hs
  | 11, _ => exact descend_loop 11 rfl h hs
  | 12, _ => exact descend_loop 12 rfl h hs
  | 13, _ => exact descend_unary h (hf rfl)
  | 14, _ => exact descend_postfix h hs

/-- many steps down the ladder -/
theorem descend (d : Nat) : ∀ (lvl k : Nat), lvl + d = k → k ≤ 15 → ∀ {ts : List Tok} {e : E} {rest : List Tok},
    Ev (fun n => parseAt k n ts) (e, rest) → stop lvl rest → (lvl ≤ 13 → 13 < k → notPrefix (hd ts)) →
    Ev (fun n => parseAt lvl n ts) (e, rest) := by
  induction d with
  | zero => intro lvl k h _ ts e rest hk _ _; have : lvl = k := by omega
            subst this; exact hk
  | succ d ih =>
    intro lvl k h hk15 ts e rest hk hs hf
    have h1 : Ev (fun n => parseAt (lvl+1) n ts) (e, rest) :=
      ih (lvl+1) k (by omega) hk15 hk (stop_mono (by omega) hs) (fun h1 h2 => hf (by omega) h2)
    exact descend1 lvl (by omega) h1 (stop_fires hs lvl (Nat.le_refl _)) (fun h13 => hf (by omega) (by omega))


/-! ### printer facts -/

theorem prec_le (e : E) : prec e ≤ 15 := by
  cases e <;> simp [prec]
  rename_i o _ _; cases o <;> simp [binPrec]

theorem needParen_low (lvl : Nat) (h : lvl ≤ 15) (e : E) : needParen lvl true e = decide (prec e < lvl) := by
  unfold needParen
  have h1 : lvl ≠ 16 := by omega
  have h2 : lvl ≠ 17 := by omega
  have h3 : lvl ≠ 18 := by omega
  simp [h1, h2, h3]

theorem pr_bare {lvl : Nat} {e : E} (h : lvl ≤ 15) (hp : lvl ≤ prec e) : pr lvl true e = bare e true := by
  have : ¬ prec e < lvl := by omega
  simp [pr, wrap, needParen_low lvl h, this]

theorem pr_paren {lvl : Nat} {e : E} (h : lvl ≤ 15) (hp : prec e < lvl) :
    pr lvl true e = tk .lparen :: (bare e true ++ [tk .rparen]) := by
  simp [pr, wrap, needParen_low lvl h, hp]

theorem pr_succ {k : Nat} {e : E} (h : k + 1 ≤ 15) (hp : prec e ≠ k) : pr k true e = pr (k+1) true e := by
  by_cases h1 : prec e < k
  · rw [pr_paren (by omega) h1, pr_paren h (by omega)]
  · rw [pr_bare (by omega) (by omega), pr_bare h (by omega)]

theorem bare_bin (o : BinOp) (l r : E) :
    bare (.bin o l r) true = pr (binPrec o) true l ++ tk (binTok o) :: pr (binPrec o + 1) true r := rfl

/-! ### stop facts -/

theorem stop_rparen (k : Nat) (r : List Tok) : stop k (tk .rparen :: r) :=
  stop_mono (Nat.zero_le k) (show stopB 0 (.p .rparen) false = true by decide)

theorem stop_binTok (o : BinOp) (r : List Tok) : stop (binPrec o + 1) (tk (binTok o) :: r) := by
  cases o <;> (show stopB _ (.p _) false = true) <;> decide

theorem opsAt_binTok (o : BinOp) (h : isLoopLevel (binPrec o) = true) : opsAt (binPrec o) (.p (binTok o)) = some o := by
  cases o <;> first | rfl | (simp [isLoopLevel, binPrec] at h)

theorem opsAt_none {k : Nat} (hk : isLoopLevel k = true) {t : Tk} {nl : Bool} (h : fires k t nl = false) : opsAt k t = none := by
  simp [isLoopLevel] at hk
  rcases hk with ((((((((((h'|h')|h')|h')|h')|h')|h')|h')|h')|h')|h') <;> subst h' <;> simpa [fires, opsAt] using h

theorem memberLoop_stop (n : Nat) (c : Bool) (e : E) (ts : List Tok) (h : fires 15 (hd ts) (hdNl ts) = false) :
    memberLoop (n+1) c e ts = some (e, ts) := by
  rw [memberLoop]
  simp only [fires] at h
  split <;> simp_all


/-! ### the round-trip statement, per tree -/

/-- at every position `lvl` (other than the never-used position 2), followed by anything no level ≥ lvl reacts to -/
def RT (e : E) : Prop := ∀ lvl, lvl ≤ 15 → lvl ≠ 2 → ∀ rest, stop lvl rest →
  Ev (fun n => parseAt lvl n (pr lvl true e ++ rest)) (e, rest)

/-- continuation form for the loop of level `k`: whatever the loop makes of `e` and the rest is what the level makes of
    the text of `e` followed by the rest -/
def LC (k : Nat) (e : E) : Prop := ∀ (R : List Tok) (w : E × List Tok), stop (k+1) R →
  (∃ n0, ∀ m j, n0 ≤ m → n0 ≤ j → binLoop (opsAt k) (parseAt (k+1) m) j e R = some w) →
  (∃ n0, ∀ m j, n0 ≤ m → n0 ≤ j →
    (parseAt (k+1) m (pr k true e ++ R)).bind (fun p => binLoop (opsAt k) (parseAt (k+1) m) j p.1 p.2) = some w)

def ownStop (e : E) : Nat := if prec e = 2 then 1 else prec e

/-- at its own production -/
def OWN (e : E) : Prop := ∀ rest, stop (ownStop e) rest → Ev (fun n => parseAt (prec e) n (bare e true ++ rest)) (e, rest)

theorem parsePrimary_paren (n : Nat) (ts : List Tok) :
    parsePrimary (n+1) (tk .lparen :: ts) = (parseExpression n true ts).bind fun p => (expectP .rparen p.2).map fun r' => (p.1, r') := by
  rw [parsePrimary]; rfl

theorem parseLHSCall_notnew (n : Nat) (ts : List Tok) (h : hd ts ≠ .p .kNew) :
    parseLHSCall (n+1) ts = (parsePrimary n ts).bind fun p => memberLoop n true p.1 p.2 := by
  rw [parseLHSCall]; simp [h]

theorem notPrefix_lparen (r : List Tok) : notPrefix (hd (tk .lparen :: r)) := by
  refine ⟨rfl, ?_, ?_⟩ <;> (simp [hd, tk])

theorem rt_of_own {e : E} (own : OWN e) (hf : 14 ≤ prec e → ∀ rest, notPrefix (hd (bare e true ++ rest))) : RT e := by
  intro lvl h15 h2 rest hs
  by_cases hp : lvl ≤ prec e
  · rw [pr_bare h15 hp]
    have hs' : stop (ownStop e) rest := by
      unfold ownStop; split
      · exact stop_mono (by omega) hs
      · exact stop_mono hp hs
    exact descend (prec e - lvl) lvl (prec e) (by omega) (prec_le e) (own rest hs') hs (fun _ h => hf (by omega) rest)
  · have hp' : prec e < lvl := by omega
    rw [pr_paren h15 hp']
    have hE : Ev (fun n => parseAt 0 n (bare e true ++ tk .rparen :: rest)) (e, tk .rparen :: rest) :=
      descend (prec e) 0 (prec e) (by omega) (prec_le e) (own _ (stop_rparen _ _)) (stop_rparen _ _) (fun _ h => hf (by omega) _)
    have h15' : Ev (fun n => parseAt 15 n (tk .lparen :: (bare e true ++ [tk .rparen]) ++ rest)) (e, rest) := by
      obtain ⟨n0, hE⟩ := hE
      refine ⟨n0 + 3, fun n hn => ?_⟩
      obtain ⟨m, rfl⟩ : ∃ m, n = m+3 := ⟨n-3, by omega⟩
      have hE' := hE (m+1) (by omega)
      dsimp only at hE' ⊢
      rw [parseAt_0] at hE'
      rw [parseAt_15, parseLHSCall_notnew _ _ (by simp [hd, tk])]
      simp only [List.cons_append, List.append_assoc, List.nil_append]
      rw [parsePrimary_paren, hE']
      simp only [Option.bind_some, expectP, tk, if_true, Option.map_some]
      exact memberLoop_stop _ _ _ _ (stop_fires hs 15 h15)
    exact descend (15 - lvl) lvl 15 (by omega) (by omega) h15' hs (fun _ _ => notPrefix_lparen _)

theorem lc_of_rt {e : E} {k : Nat} (rt : RT e) (hk : isLoopLevel k = true) (hp : prec e ≠ k) : LC k e := by
  intro R w hs ⟨n1, H⟩
  have hk15 : k + 1 ≤ 15 := by
    simp [isLoopLevel] at hk; omega
  have hk2 : k + 1 ≠ 2 := by
    simp [isLoopLevel] at hk; omega
  obtain ⟨n0, h0⟩ := rt (k+1) hk15 hk2 R hs
  refine ⟨max n0 n1, fun m j hm hj => ?_⟩
  rw [pr_succ hk15 hp]
  have := h0 m (by omega)
  dsimp only at this
  rw [this]
  exact H m j (by omega) (by omega)


/-! ### first tokens -/

theorem hd_append_cons (t : Tok) (a b : List Tok) : hd ((t :: a) ++ b) = t.k := rfl

theorem cat_prec {e : E} (h : cat e ≠ .X) : prec e = 15 := by
  cases e <;> simp_all [cat, prec]

theorem first_ok : ∀ e : E, wf e = true → isExprHead e = true → 14 ≤ prec e → ∀ rest, notPrefix (hd (bare e true ++ rest)) := by
  intro e
  induction e with
  | id s => intro _ _ _ rest; exact ⟨rfl, by simp [bare, hd], by simp [bare, hd]⟩
  | num s => intro _ _ _ rest; exact ⟨rfl, by simp [bare, hd], by simp [bare, hd]⟩
  | str s => intro _ _ _ rest; exact ⟨rfl, by simp [bare, hd], by simp [bare, hd]⟩
  | bool s => intro _ _ _ rest; exact ⟨rfl, by simp [bare, hd], by simp [bare, hd]⟩
  | null => intro _ _ _ rest; exact ⟨rfl, by simp [bare, hd], by simp [bare, hd]⟩
  | this_ => intro _ _ _ rest; exact ⟨rfl, by simp [bare, hd, tk], by simp [bare, hd, tk]⟩
  | bin o l r _ _ => intro _ _ hp; cases o <;> simp [prec, binPrec] at hp
  | un o e _ => intro _ _ hp; simp [prec] at hp
  | cond c a b _ _ _ => intro _ _ hp; simp [prec] at hp
  | asg o l r _ _ => intro _ _ hp; simp [prec] at hp
  | post i e ih =>
    intro hw _ _ rest
    simp only [wf, Bool.and_eq_true] at hw
    simp only [bare, wrap]
    split
    · exact notPrefix_lparen _
    · rename_i hn
      rw [needParen_low 15 (by omega)] at hn
      simp at hn
      rw [List.append_assoc]
      exact ih hw.1.2 hw.1.1 (by omega) _
  | dot e s ih =>
    intro hw _ _ rest
    simp only [wf, Bool.and_eq_true] at hw
    simp only [bare, wrap]
    split
    · exact notPrefix_lparen _
    · rename_i hn
      have hc : cat e ≠ .X := by
        intro hx; simp [needParen, hx] at hn
      rw [List.append_assoc]
      exact ih hw.2 hw.1 (by rw [cat_prec hc]; omega) _
  | idx e i ih _ =>
    intro hw _ _ rest
    simp only [wf, Bool.and_eq_true] at hw
    simp only [bare, wrap]
    split
    · exact notPrefix_lparen _
    · rename_i hn
      have hc : cat e ≠ .X := by
        intro hx; simp [needParen, hx] at hn
      rw [List.append_assoc]
      exact ih hw.1.2 hw.1.1.1 (by rw [cat_prec hc]; omega) _
  | call f a ih _ =>
    intro hw _ _ rest
    simp only [wf, Bool.and_eq_true] at hw
    simp only [bare, wrap]
    split
    · exact notPrefix_lparen _
    · rename_i hn
      have hc : cat f ≠ .X := by
        intro hx; simp [needParen, hx] at hn
      rw [List.append_assoc]
      exact ih hw.1.2 hw.1.1.1 (by rw [cat_prec hc]; omega) _
  | new_ f a _ _ =>
    intro _ _ _ rest
    cases a <;> exact ⟨rfl, by simp [bare, hd, tk], by simp [bare, hd, tk]⟩
  | anil => intro _ h; simp [isExprHead] at h
  | acons _ _ _ _ => intro _ h; simp [isExprHead] at h
  | noargs => intro _ h; simp [isExprHead] at h


/-! ### the left-associative levels -/

theorem loop_ne (k : Nat) (hk : isLoopLevel k = true) : k + 1 ≤ 15 ∧ k + 1 ≠ 2 ∧ k ≠ 2 := by
  simp [isLoopLevel] at hk; omega

theorem binLoop_step_ev {o : BinOp} {l r : E} {k : Nat} (hk : isLoopLevel k = true) (hko : binPrec o = k) (rtr : RT r)
    (R : List Tok) (w : E × List Tok) (hs : stop (k+1) R)
    (H : ∃ n0, ∀ m j, n0 ≤ m → n0 ≤ j → binLoop (opsAt k) (parseAt (k+1) m) j (.bin o l r) R = some w) :
    ∃ n0, ∀ m j, n0 ≤ m → n0 ≤ j →
      binLoop (opsAt k) (parseAt (k+1) m) j l (tk (binTok o) :: (pr (k+1) true r ++ R)) = some w := by
  obtain ⟨n1, h1⟩ := rtr (k+1) (loop_ne k hk).1 (loop_ne k hk).2.1 R hs
  obtain ⟨n2, h2⟩ := H
  refine ⟨max n1 n2 + 1, fun m j hm hj => ?_⟩
  obtain ⟨j', rfl⟩ : ∃ j', j = j'+1 := ⟨j-1, by omega⟩
  have hop : opsAt k (hd (tk (binTok o) :: (pr (k+1) true r ++ R))) = some o := by
    subst hko; exact opsAt_binTok o hk
  rw [binLoop, hop]
  have h1' := h1 m (by omega)
  dsimp only at h1' ⊢
  simp only [List.tail_cons]
  rw [h1']
  exact h2 m j' (by omega) (by omega)

theorem ev_of_lc {k : Nat} (hk : isLoopLevel k = true) {ts : List Tok} {w : E × List Tok}
    (h : ∃ n0, ∀ m j, n0 ≤ m → n0 ≤ j →
      (parseAt (k+1) m ts).bind (fun p => binLoop (opsAt k) (parseAt (k+1) m) j p.1 p.2) = some w) :
    Ev (fun n => parseAt k n ts) w := by
  obtain ⟨n0, h⟩ := h
  refine ⟨n0 + 1, fun n hn => ?_⟩
  obtain ⟨m, rfl⟩ : ∃ m, n = m+1 := ⟨n-1, by omega⟩
  dsimp only
  rw [parseAt_loop k hk]
  exact h m m (by omega) (by omega)

theorem prec_bin (o : BinOp) (l r : E) : prec (.bin o l r) = binPrec o := rfl

theorem own_bin_loop {o : BinOp} {l r : E} (hk : isLoopLevel (binPrec o) = true) (lcl : LC (binPrec o) l) (rtr : RT r) :
    OWN (.bin o l r) := by
  intro rest hs
  have hown : ownStop (.bin o l r) = binPrec o := by
    unfold ownStop; rw [prec_bin]; simp [(loop_ne _ hk).2.2]
  rw [hown] at hs
  rw [prec_bin, bare_bin, List.append_assoc, List.cons_append]
  apply ev_of_lc hk
  apply lcl _ _ (stop_binTok o _)
  apply binLoop_step_ev hk rfl rtr _ _ (stop_mono (by omega) hs)
  refine ⟨1, fun m j _ hj => ?_⟩
  obtain ⟨j', rfl⟩ : ∃ j', j = j'+1 := ⟨j-1, by omega⟩
  rw [binLoop, opsAt_none hk (stop_fires hs _ (Nat.le_refl _))]

theorem lc_bin {o : BinOp} {l r : E} (hk : isLoopLevel (binPrec o) = true) (lcl : LC (binPrec o) l) (rtr : RT r) :
    LC (binPrec o) (.bin o l r) := by
  intro R w hs H
  rw [pr_bare (by have := (loop_ne _ hk).1; omega) (by rw [prec_bin]; exact Nat.le_refl _), bare_bin, List.append_assoc, List.cons_append]
  exact lcl _ _ (stop_binTok o _) (binLoop_step_ev hk rfl rtr R w hs H)


/-! ### the other productions -/

theorem first_pr {lvl : Nat} (h15 : lvl ≤ 15) (h14 : 14 ≤ lvl) {e : E} (hw : wf e = true) (he : isExprHead e = true) (rest : List Tok) :
    notPrefix (hd (pr lvl true e ++ rest)) := by
  by_cases hp : lvl ≤ prec e
  · rw [pr_bare h15 hp]; exact first_ok e hw he (by omega) rest
  · rw [pr_paren h15 (by omega)]; exact notPrefix_lparen _

theorem own_un {o : UnOp} {e : E} (rte : RT e) (ht : (o = .preinc ∨ o = .predec) → simpleTarget e = true) : OWN (.un o e) := by
  intro rest hs
  have hown : ownStop (.un o e) = 13 := by simp [ownStop, prec]
  rw [hown] at hs
  obtain ⟨n1, h1⟩ := rte 13 (by omega) (by omega) rest hs
  refine ⟨n1 + 1, fun n hn => ?_⟩
  obtain ⟨m, rfl⟩ : ∃ m, n = m+1 := ⟨n-1, by omega⟩
  have h1' := h1 m (by omega)
  dsimp only at h1' ⊢
  show parseAt 13 (m+1) (tk (unTok o) :: pr 13 true e ++ rest) = _
  rw [parseAt_13] at h1' ⊢
  rw [parseUnary]
  cases o <;> simp [unTok, tk, hd, unaryOps, h1'] <;> (apply ht; simp)

theorem own_post {i : Bool} {e : E} (rte : RT e) (ht : simpleTarget e = true) : OWN (.post i e) := by
  intro rest hs
  have hown : ownStop (.post i e) = 14 := by simp [ownStop, prec]
  rw [hown] at hs
  have hs1 : stop 15 (tk (if i then P.inc else P.dec) :: rest) := by
    cases i <;> (show stopB 15 (.p _) false = true) <;> decide
  obtain ⟨n1, h1⟩ := rte 15 (by omega) (by omega) _ hs1
  refine ⟨n1 + 1, fun n hn => ?_⟩
  obtain ⟨m, rfl⟩ : ∃ m, n = m+1 := ⟨n-1, by omega⟩
  have h1' := h1 m (by omega)
  dsimp only at h1' ⊢
  show parseAt 14 (m+1) ((pr 15 true e ++ [tk (if i then P.inc else P.dec)]) ++ rest) = _
  rw [parseAt_15] at h1'
  rw [parseAt_14, parsePostfix, List.append_assoc, List.singleton_append, h1']
  cases i <;> simp [tk, hd, hdNl, ht]

theorem own_cond {c a b : E} (rtc : RT c) (rta : RT a) (rtb : RT b) : OWN (.cond c a b) := by
  intro rest hs
  have hown : ownStop (.cond c a b) = 1 := by simp [ownStop, prec]
  rw [hown] at hs
  have hsq : ∀ r, stop 3 (tk .quest :: r) := fun r => (show stopB 3 (.p .quest) false = true by decide)
  have hsc : ∀ r, stop 1 (tk .colon :: r) := fun r => (show stopB 1 (.p .colon) false = true by decide)
  obtain ⟨n1, h1⟩ := rtc 3 (by omega) (by omega) _ (hsq (pr 1 true a ++ tk .colon :: (pr 1 true b ++ rest)))
  obtain ⟨n2, h2⟩ := rta 1 (by omega) (by omega) _ (hsc (pr 1 true b ++ rest))
  obtain ⟨n3, h3⟩ := rtb 1 (by omega) (by omega) rest hs
  refine ⟨max n1 (max n2 n3) + 1, fun n hn => ?_⟩
  obtain ⟨m, rfl⟩ : ∃ m, n = m+1 := ⟨n-1, by omega⟩
  have h1' := h1 m (by omega)
  have h2' := h2 m (by omega)
  have h3' := h3 m (by omega)
  dsimp only at h1' h2' h3' ⊢
  show parseAt 2 (m+1) ((pr 3 true c ++ tk .quest :: (pr 1 true a ++ tk .colon :: pr 1 true b)) ++ rest) = _
  rw [parseAt_3] at h1'
  rw [parseAt_1] at h2' h3'
  simp only [List.append_assoc, List.cons_append]
  rw [parseAt_2, parseCond, h1']
  simp [hd, tk, expectP] at h2' h3' ⊢
  simp [h2', expectP, h3']

theorem asgOps_asgTok (o : AsgOp) : asgOps (.p (asgTok o)) = some o := by cases o <;> rfl

theorem own_asg {o : AsgOp} {l r : E} (rtl : RT l) (rtr : RT r) (ht : simpleTarget l = true)
    (hfl : ∀ rest, notPrefix (hd (pr 15 true l ++ rest))) : OWN (.asg o l r) := by
  intro rest hs
  have hown : ownStop (.asg o l r) = 1 := by simp [ownStop, prec]
  rw [hown] at hs
  have hs15 : ∀ r', stop 2 (tk (asgTok o) :: r') := fun r' => by
    cases o <;> (show stopB 2 (.p _) false = true) <;> decide
  have hl2 : Ev (fun n => parseAt 2 n (pr 15 true l ++ tk (asgTok o) :: (pr 1 true r ++ rest))) (l, tk (asgTok o) :: (pr 1 true r ++ rest)) :=
    descend 13 2 15 (by omega) (by omega) (rtl 15 (by omega) (by omega) _ (stop_mono (by omega) (hs15 _))) (hs15 _) (fun _ _ => hfl _)
  obtain ⟨n1, h1⟩ := hl2
  obtain ⟨n2, h2⟩ := rtr 1 (by omega) (by omega) rest hs
  refine ⟨max n1 n2 + 1, fun n hn => ?_⟩
  obtain ⟨m, rfl⟩ : ∃ m, n = m+1 := ⟨n-1, by omega⟩
  have h1' := h1 m (by omega)
  have h2' := h2 m (by omega)
  dsimp only at h1' h2' ⊢
  show parseAt 1 (m+1) ((pr 15 true l ++ tk (asgTok o) :: pr 1 true r) ++ rest) = _
  rw [parseAt_2] at h1'
  rw [parseAt_1] at h2' ⊢
  simp only [List.append_assoc, List.cons_append]
  rw [parseAssign, h1']
  simp [hd, tk, asgOps_asgTok, ht, h2']


/-! ### leaves -/

theorem own_leaf {e : E} {t : Tk} (hb : bare e true = [{ k := t }]) (hp : prec e = 15)
    (hprim : ∀ n r, parsePrimary (n+1) ({ k := t } :: r) = some (e, r)) (hnew : t ≠ .p .kNew) : OWN e := by
  intro rest hs
  have hown : ownStop e = 15 := by simp [ownStop, hp]
  rw [hown] at hs
  refine ⟨3, fun n hn => ?_⟩
  obtain ⟨m, rfl⟩ : ∃ m, n = m+3 := ⟨n-3, by omega⟩
  dsimp only
  rw [hp, hb, parseAt_15, parseLHSCall_notnew _ _ (by simpa [hd] using hnew)]
  simp only [List.singleton_append, hprim, Option.bind_some]
  exact memberLoop_stop _ _ _ _ (stop_fires hs 15 (Nat.le_refl _))

theorem lc_all {e : E} (rt : RT e) (hne : ∀ o l r, e ≠ .bin o l r) : ∀ k, isLoopLevel k = true → LC k e := by
  intro k hk
  apply lc_of_rt rt hk
  intro hp
  cases e <;> simp [prec] at hp <;> (try (subst hp; simp [isLoopLevel] at hk))
  exact hne _ _ _ rfl

/-! ### member access, calls, `new`, argument lists -/

/-- the first step of parseLeftHandSideExpression(AllowCall): a `new` expression or a primary expression -/
def atomP (n : Nat) (ts : List Tok) : R := if hd ts = .p .kNew then parseNew n ts.tail else parsePrimary n ts

theorem parseLHSCall_eq (n : Nat) (ts : List Tok) :
    parseLHSCall (n+1) ts = (atomP n ts).bind fun p => memberLoop n true p.1 p.2 := by
  rw [parseLHSCall]; rfl

theorem parseLHS_eq (n : Nat) (ts : List Tok) :
    parseLHS (n+1) ts = (atomP n ts).bind fun p => memberLoop n false p.1 p.2 := by
  rw [parseLHS]; rfl

/-- continuation form for the member/call loop: whatever the loop makes of `e` and the rest is what
    "atom, then loop" makes of the text of `e` (as the base of an access: position 16) followed by the rest -/
def MC (c : Bool) (e : E) : Prop := ∀ (R : List Tok) (w : E × List Tok),
  (∃ n0, ∀ j, n0 ≤ j → memberLoop j c e R = some w) →
  (∃ n0, ∀ m, n0 ≤ m → (atomP m (pr 16 true e ++ R)).bind (fun p => memberLoop m c p.1 p.2) = some w)

def P17 (e : E) : Prop := ∀ rest, stop 15 rest → Ev (fun n => parseLHS n (pr 17 true e ++ rest)) (e, rest)
def P18 (e : E) : Prop := ∀ rest, hd rest = .p .lparen → Ev (fun n => parseLHS n (pr 18 true e ++ rest)) (e, rest)
def ARGS (a : E) : Prop := ∀ R, Ev (fun n => parseArgs n (bare a true ++ tk .rparen :: R)) (a, tk .rparen :: R)

theorem pr_paren_of {lvl : Nat} {e : E} (h : needParen lvl true e = true) :
    pr lvl true e = tk .lparen :: (bare e true ++ [tk .rparen]) := by simp [pr, wrap, h]

theorem pr_bare_of {lvl : Nat} {e : E} (h : needParen lvl true e = false) : pr lvl true e = bare e true := by
  simp [pr, wrap, h]

/-- the atom of a parenthesised text -/
theorem atom_paren {e : E} (rt : RT e) (R : List Tok) :
    ∃ n0, ∀ m, n0 ≤ m → atomP m (tk .lparen :: (bare e true ++ [tk .rparen]) ++ R) = some (e, R) := by
  obtain ⟨n0, h⟩ := rt 0 (by omega) (by omega) (tk .rparen :: R) (stop_rparen _ _)
  refine ⟨n0 + 1, fun m hm => ?_⟩
  obtain ⟨m', rfl⟩ : ∃ m', m = m'+1 := ⟨m-1, by omega⟩
  have h' := h m' (by omega)
  dsimp only at h'
  rw [parseAt_0, pr_bare (by omega) (Nat.zero_le _)] at h'
  have hn : hd (tk .lparen :: (bare e true ++ [tk .rparen]) ++ R) ≠ .p .kNew := by simp [hd, tk]
  simp only [atomP, hn, if_false]
  simp only [List.cons_append, List.append_assoc, List.nil_append]
  rw [parsePrimary_paren, h']
  simp [expectP, tk]

theorem mc_paren {c : Bool} {e : E} (rt : RT e) (h : needParen 16 true e = true) : MC c e := by
  intro R w ⟨n1, H⟩
  obtain ⟨n0, h0⟩ := atom_paren rt R
  refine ⟨max n0 n1, fun m hm => ?_⟩
  rw [pr_paren_of h, h0 m (by omega)]
  exact H m (by omega)

theorem mc_leaf {c : Bool} {e : E} {t : Tk} (hb : bare e true = [{ k := t }]) (hc : needParen 16 true e = false)
    (hprim : ∀ n r, parsePrimary (n+1) ({ k := t } :: r) = some (e, r)) (hnew : t ≠ .p .kNew) : MC c e := by
  intro R w ⟨n1, H⟩
  refine ⟨n1 + 1, fun m hm => ?_⟩
  obtain ⟨m', rfl⟩ : ∃ m', m = m'+1 := ⟨m-1, by omega⟩
  rw [pr_bare_of hc, hb]
  have ha : atomP (m'+1) ({ k := t } :: R) = some (e, R) := by
    unfold atomP; simp [hd, hnew, hprim]
  rw [List.singleton_append, ha]
  exact H _ (by omega)


theorem bare_dot (e : E) (s : String) : bare (.dot e s) true = pr 16 true e ++ [tk .dot, { k := .id s }] := rfl
theorem bare_idx (e i : E) : bare (.idx e i) true = pr 16 true e ++ tk .lbrack :: (pr 0 true i ++ [tk .rbrack]) := rfl
theorem bare_call (f a : E) : bare (.call f a) true = pr 16 true f ++ tk .lparen :: (bare a true ++ [tk .rparen]) := rfl
theorem bare_newx (f : E) : bare (.new_ f .noargs) true = tk .kNew :: pr 17 true f := rfl

theorem np16_dot (e : E) (s : String) : needParen 16 true (.dot e s) = false := by
  simp [needParen, cat]
theorem np16_idx (e i : E) : needParen 16 true (.idx e i) = false := by
  simp [needParen, cat]
theorem np16_call (f a : E) : needParen 16 true (.call f a) = false := by simp [needParen, cat]

theorem mc_dot {c : Bool} {e : E} {s : String} (mce : MC c e) : MC c (.dot e s) := by
  intro R w ⟨n1, H⟩
  rw [pr_bare_of (np16_dot e s), bare_dot, List.append_assoc]
  apply mce
  refine ⟨n1 + 1, fun j hj => ?_⟩
  obtain ⟨j', rfl⟩ : ∃ j', j = j'+1 := ⟨j-1, by omega⟩
  rw [memberLoop]
  simp [hd, tk, dotName]
  exact H j' (by omega)

theorem mc_idx {c : Bool} {e i : E} (mce : MC c e) (rti : RT i) : MC c (.idx e i) := by
  intro R w ⟨n1, H⟩
  rw [pr_bare_of (np16_idx e i), bare_idx, List.append_assoc]
  apply mce
  obtain ⟨n2, h2⟩ := rti 0 (by omega) (by omega) (tk .rbrack :: R) (show stopB 0 (.p .rbrack) false = true by decide)
  refine ⟨max n1 n2 + 1, fun j hj => ?_⟩
  obtain ⟨j', rfl⟩ : ∃ j', j = j'+1 := ⟨j-1, by omega⟩
  have h2' := h2 j' (by omega)
  dsimp only at h2'
  rw [parseAt_0] at h2'
  rw [memberLoop]
  simp only [tk, List.cons_append, List.append_assoc, List.nil_append] at h2' ⊢
  simp [hd, h2', expectP]
  exact H j' (by omega)

theorem mc_call {f a : E} (mcf : MC true f) (ha : ARGS a) : MC true (.call f a) := by
  intro R w ⟨n1, H⟩
  rw [pr_bare_of (np16_call f a), bare_call, List.append_assoc]
  apply mcf
  obtain ⟨n2, h2⟩ := ha R
  refine ⟨max n1 n2 + 1, fun j hj => ?_⟩
  obtain ⟨j', rfl⟩ : ∃ j', j = j'+1 := ⟨j-1, by omega⟩
  have h2' := h2 j' (by omega)
  dsimp only at h2'
  rw [memberLoop]
  simp only [tk, List.cons_append, List.append_assoc, List.nil_append] at h2' ⊢
  simp [hd, h2', expectP]
  exact H j' (by omega)

theorem memberLoop_lparen_false (n : Nat) (e : E) (ts : List Tok) (h : hd ts = .p .lparen) :
    memberLoop (n+1) false e ts = some (e, ts) := by
  rw [memberLoop]; simp [h]

theorem parseNew_noargs {g : E} (pg : P17 g) (rest : List Tok) (hs : stop 15 rest) :
    Ev (fun n => parseNew n (pr 17 true g ++ rest)) (.new_ g .noargs, rest) := by
  obtain ⟨n0, h⟩ := pg rest hs
  refine ⟨n0 + 1, fun n hn => ?_⟩
  obtain ⟨m, rfl⟩ : ∃ m, n = m+1 := ⟨n-1, by omega⟩
  have h' := h m (by omega)
  dsimp only at h' ⊢
  rw [parseNew, h']
  have hf := stop_fires hs 15 (Nat.le_refl _)
  simp only [fires] at hf
  have : hd rest ≠ .p .lparen := by intro hx; simp [hx] at hf
  simp [this]

theorem parseNew_args {f a : E} (pf : P18 f) (ha : ARGS a) (R : List Tok) :
    Ev (fun n => parseNew n (pr 18 true f ++ tk .lparen :: (bare a true ++ tk .rparen :: R))) (.new_ f a, R) := by
  obtain ⟨n0, h⟩ := pf (tk .lparen :: (bare a true ++ tk .rparen :: R)) rfl
  obtain ⟨n1, h1⟩ := ha R
  refine ⟨max n0 n1 + 1, fun n hn => ?_⟩
  obtain ⟨m, rfl⟩ : ∃ m, n = m+1 := ⟨n-1, by omega⟩
  have h' := h m (by omega)
  have h1' := h1 m (by omega)
  dsimp only at h' h1' ⊢
  rw [parseNew, h']
  simp [hd, tk, expectP] at h1' ⊢
  simp [h1', expectP]

theorem mc_new {c : Bool} {f a : E} (pf : P18 f) (ha : ARGS a) (hia : isArgs a = true) : MC c (.new_ f a) := by
  intro R w ⟨n1, H⟩
  have hnp : needParen 16 true (.new_ f a) = false := by cases a <;> simp_all [needParen, cat, isArgs]
  have hb : bare (.new_ f a) true = tk .kNew :: (pr 18 true f ++ tk .lparen :: (bare a true ++ [tk .rparen])) := by
    cases a <;> first | rfl | simp [isArgs] at hia
  obtain ⟨n0, h0⟩ := parseNew_args pf ha R
  refine ⟨max n0 n1 + 1, fun m hm => ?_⟩
  obtain ⟨m', rfl⟩ : ∃ m', m = m'+1 := ⟨m-1, by omega⟩
  have h0' := h0 (m'+1) (by omega)
  dsimp only at h0'
  rw [pr_bare_of hnp, hb]
  simp only [List.cons_append, List.append_assoc, List.nil_append] at h0' ⊢
  have : atomP (m'+1) (tk .kNew :: (pr 18 true f ++ tk .lparen :: (bare a true ++ tk .rparen :: R))) = parseNew (m'+1) (pr 18 true f ++ tk .lparen :: (bare a true ++ tk .rparen :: R)) := by
    simp [atomP, hd, tk]
  rw [this, h0']
  exact H _ (by omega)


/-! ### operands of `new`, own level of the left-hand-side forms -/

theorem p_paren {lvl : Nat} {e : E} (rt : RT e) (h : needParen lvl true e = true) (rest : List Tok)
    (hml : ∀ n, memberLoop (n+1) false e rest = some (e, rest)) :
    Ev (fun n => parseLHS n (pr lvl true e ++ rest)) (e, rest) := by
  obtain ⟨n0, h0⟩ := atom_paren rt rest
  refine ⟨n0 + 2, fun n hn => ?_⟩
  obtain ⟨m, rfl⟩ : ∃ m, n = m+2 := ⟨n-2, by omega⟩
  dsimp only
  rw [parseLHS_eq, pr_paren_of h, h0 _ (by omega)]
  exact hml m

theorem p_of_mc {lvl : Nat} {e : E} (mc : MC false e) (h : needParen lvl true e = false) (h16 : needParen 16 true e = false)
    (rest : List Tok) (hml : ∀ n, memberLoop (n+1) false e rest = some (e, rest)) :
    Ev (fun n => parseLHS n (pr lvl true e ++ rest)) (e, rest) := by
  obtain ⟨n0, h0⟩ := mc rest (e, rest) ⟨1, fun j hj => by
    obtain ⟨j', rfl⟩ : ∃ j', j = j'+1 := ⟨j-1, by omega⟩
    exact hml j'⟩
  refine ⟨n0 + 1, fun n hn => ?_⟩
  obtain ⟨m, rfl⟩ : ∃ m, n = m+1 := ⟨n-1, by omega⟩
  dsimp only
  rw [parseLHS_eq, pr_bare_of h, ← pr_bare_of h16]
  exact h0 m (by omega)

theorem p17_newx {g : E} (pg : P17 g) : P17 (.new_ g .noargs) := by
  intro rest hs
  obtain ⟨n0, h0⟩ := parseNew_noargs pg rest hs
  refine ⟨n0 + 2, fun n hn => ?_⟩
  obtain ⟨m, rfl⟩ : ∃ m, n = m+2 := ⟨n-2, by omega⟩
  have hnp : needParen 17 true (.new_ g .noargs) = false := by simp [needParen, cat]
  have h0' := h0 (m+1) (by omega)
  dsimp only at h0' ⊢
  rw [parseLHS_eq, pr_bare_of hnp, bare_newx]
  have : atomP (m+1) (tk .kNew :: pr 17 true g ++ rest) = parseNew (m+1) (pr 17 true g ++ rest) := by
    simp [atomP, hd, tk]
  rw [this, h0']
  exact memberLoop_stop _ _ _ _ (stop_fires hs 15 (Nat.le_refl _))

theorem own_newx {g : E} (pg : P17 g) : OWN (.new_ g .noargs) := by
  intro rest hs
  have hown : ownStop (.new_ g .noargs) = 15 := by simp [ownStop, prec]
  rw [hown] at hs
  obtain ⟨n0, h0⟩ := parseNew_noargs pg rest hs
  refine ⟨n0 + 2, fun n hn => ?_⟩
  obtain ⟨m, rfl⟩ : ∃ m, n = m+2 := ⟨n-2, by omega⟩
  have h0' := h0 (m+1) (by omega)
  dsimp only at h0' ⊢
  show parseAt 15 (m+2) (bare (.new_ g .noargs) true ++ rest) = _
  rw [parseAt_15, parseLHSCall_eq, bare_newx]
  have : atomP (m+1) (tk .kNew :: pr 17 true g ++ rest) = parseNew (m+1) (pr 17 true g ++ rest) := by
    simp [atomP, hd, tk]
  rw [this, h0']
  exact memberLoop_stop _ _ _ _ (stop_fires hs 15 (Nat.le_refl _))

theorem own_of_mc {e : E} (mc : MC true e) (h16 : needParen 16 true e = false) (hp : prec e = 15) : OWN e := by
  intro rest hs
  have hown : ownStop e = 15 := by simp [ownStop, hp]
  rw [hown] at hs
  obtain ⟨n0, h0⟩ := mc rest (e, rest) ⟨1, fun j hj => by
    obtain ⟨j', rfl⟩ : ∃ j', j = j'+1 := ⟨j-1, by omega⟩
    exact memberLoop_stop _ _ _ _ (stop_fires hs 15 (Nat.le_refl _))⟩
  refine ⟨n0 + 1, fun n hn => ?_⟩
  obtain ⟨m, rfl⟩ : ∃ m, n = m+1 := ⟨n-1, by omega⟩
  dsimp only
  rw [hp, parseAt_15, parseLHSCall_eq, ← pr_bare_of h16]
  exact h0 m (by omega)

/-- the two `new` operand positions, from the pieces -/
theorem p17_generic {e : E} (rt : RT e) (mc : cat e ≠ .C → MC false e) (hN : cat e ≠ .N) : P17 e := by
  intro rest hs
  have hml : ∀ n, memberLoop (n+1) false e rest = some (e, rest) :=
    fun n => memberLoop_stop _ _ _ _ (stop_fires hs 15 (Nat.le_refl _))
  cases hc : cat e with
  | M => exact p_of_mc (mc (by simp [hc])) (by simp [needParen, hc]) (by simp [needParen, hc]) rest hml
  | N => exact absurd hc hN
  | C => exact p_paren rt (by simp [needParen, hc]) rest hml
  | X => exact p_paren rt (by simp [needParen, hc]) rest hml

theorem p18_generic {e : E} (rt : RT e) (mc : cat e ≠ .C → MC false e) : P18 e := by
  intro rest hs
  have hml : ∀ n, memberLoop (n+1) false e rest = some (e, rest) := fun n => memberLoop_lparen_false _ _ _ hs
  cases hc : cat e with
  | M => exact p_of_mc (mc (by simp [hc])) (by simp [needParen, hc]) (by simp [needParen, hc]) rest hml
  | N => exact p_paren rt (by simp [needParen, hc]) rest hml
  | C => exact p_paren rt (by simp [needParen, hc]) rest hml
  | X => exact p_paren rt (by simp [needParen, hc]) rest hml


/-! ### argument lists -/

theorem hd_wrap (b : Bool) (e : E) (X : List Tok) :
    hd (wrap b (fun a => bare e a) true ++ X) = if b then .p .lparen else hd (bare e true ++ X) := by
  cases b <;> simp [wrap, hd, tk]

/-- no expression starts with `)` -/
theorem first_ne_rparen : ∀ e : E, wf e = true → isExprHead e = true → ∀ rest, hd (bare e true ++ rest) ≠ .p .rparen := by
  intro e
  induction e with
  | id s => intro _ _ rest; simp [bare, hd]
  | num s => intro _ _ rest; simp [bare, hd]
  | str s => intro _ _ rest; simp [bare, hd]
  | bool s => intro _ _ rest; simp [bare, hd]
  | null => intro _ _ rest; simp [bare, hd]
  | this_ => intro _ _ rest; simp [bare, hd, tk]
  | bin o l r ihl _ =>
    intro hw _ rest
    simp only [wf, Bool.and_eq_true] at hw
    simp only [bare, List.append_assoc, hd_wrap]
    split
    · simp
    · exact ihl hw.1.2 hw.1.1.1 _
  | un o e _ => intro _ _ rest; cases o <;> simp [bare, hd, tk, unTok]
  | post i e ih =>
    intro hw _ rest
    simp only [wf, Bool.and_eq_true] at hw
    simp only [bare, List.append_assoc, hd_wrap]
    split
    · simp
    · exact ih hw.1.2 hw.1.1 _
  | cond c a b ihc _ _ =>
    intro hw _ rest
    simp only [wf, Bool.and_eq_true] at hw
    simp only [bare, List.append_assoc, hd_wrap]
    split
    · simp
    · exact ihc hw.1.1.2 hw.1.1.1.1.1 _
  | asg o l r ihl _ =>
    intro hw _ rest
    simp only [wf, Bool.and_eq_true] at hw
    simp only [bare, List.append_assoc, hd_wrap]
    split
    · simp
    · exact ihl hw.1.1.2 hw.1.1.1.1 _
  | dot e s ih =>
    intro hw _ rest
    simp only [wf, Bool.and_eq_true] at hw
    simp only [bare, List.append_assoc, hd_wrap]
    split
    · simp
    · exact ih hw.2 hw.1 _
  | idx e i ih _ =>
    intro hw _ rest
    simp only [wf, Bool.and_eq_true] at hw
    simp only [bare, List.append_assoc, hd_wrap]
    split
    · simp
    · exact ih hw.1.2 hw.1.1.1 _
  | call f a ih _ =>
    intro hw _ rest
    simp only [wf, Bool.and_eq_true] at hw
    simp only [bare, List.append_assoc, hd_wrap]
    split
    · simp
    · exact ih hw.1.2 hw.1.1.1 _
  | new_ f a _ _ => intro _ _ rest; cases a <;> simp [bare, hd, tk]
  | anil => intro _ h; simp [isExprHead] at h
  | acons _ _ _ _ => intro _ h; simp [isExprHead] at h
  | noargs => intro _ h; simp [isExprHead] at h

theorem first_pr_ne_rparen {lvl : Nat} {e : E} (hw : wf e = true) (he : isExprHead e = true) (rest : List Tok) :
    hd (pr lvl true e ++ rest) ≠ .p .rparen := by
  unfold pr
  rw [hd_wrap]
  split
  · simp
  · exact first_ne_rparen e hw he rest

theorem args_nil : ARGS .anil := by
  intro R
  refine ⟨1, fun n hn => ?_⟩
  obtain ⟨m, rfl⟩ : ∃ m, n = m+1 := ⟨n-1, by omega⟩
  dsimp only
  rw [parseArgs]
  simp [bare, hd, tk]

theorem args_last {h : E} (rt : RT h) (hw : wf h = true) (he : isExprHead h = true) : ARGS (.acons h .anil) := by
  intro R
  obtain ⟨n0, h0⟩ := rt 1 (by omega) (by omega) (tk .rparen :: R) (stop_rparen _ _)
  refine ⟨n0 + 1, fun n hn => ?_⟩
  obtain ⟨m, rfl⟩ : ∃ m, n = m+1 := ⟨n-1, by omega⟩
  have h0' := h0 m (by omega)
  dsimp only at h0' ⊢
  rw [parseAt_1] at h0'
  show parseArgs (m+1) (pr 1 true h ++ tk .rparen :: R) = _
  rw [parseArgs, if_neg (first_pr_ne_rparen hw he _), h0']
  simp [hd, tk]

theorem args_more {h h2 t2 : E} (rt : RT h) (hw : wf h = true) (he : isExprHead h = true) (atl : ARGS (.acons h2 t2)) :
    ARGS (.acons h (.acons h2 t2)) := by
  intro R
  obtain ⟨n0, h0⟩ := rt 1 (by omega) (by omega) (tk .comma :: (bare (.acons h2 t2) true ++ tk .rparen :: R))
    (show stopB 1 (.p .comma) false = true by decide)
  obtain ⟨n1, h1⟩ := atl R
  refine ⟨max n0 n1 + 1, fun n hn => ?_⟩
  obtain ⟨m, rfl⟩ : ∃ m, n = m+1 := ⟨n-1, by omega⟩
  have h0' := h0 m (by omega)
  have h1' := h1 m (by omega)
  dsimp only at h0' h1' ⊢
  rw [parseAt_1] at h0'
  show parseArgs (m+1) ((pr 1 true h ++ tk .comma :: bare (.acons h2 t2) true) ++ tk .rparen :: R) = _
  simp only [List.append_assoc, List.cons_append]
  rw [parseArgs, if_neg (first_pr_ne_rparen hw he _), h0']
  simp [hd, tk] at h1' ⊢
  simp [h1']


/-! ### the full induction -/

def EX (e : E) : Prop :=
  RT e ∧ (∀ k, isLoopLevel k = true → LC k e) ∧ (∀ c : Bool, (c = false → cat e ≠ .C) → MC c e) ∧ P17 e ∧ P18 e

theorem ex_mk {e : E} (rt : RT e) (lc : ∀ k, isLoopLevel k = true → LC k e)
    (mc : ∀ c : Bool, (c = false → cat e ≠ .C) → MC c e) (hN : cat e ≠ .N) : EX e :=
  ⟨rt, lc, mc, p17_generic rt (fun h => mc false (fun _ => h)) hN, p18_generic rt (fun h => mc false (fun _ => h))⟩

theorem ex_X {e : E} (rt : RT e) (lc : ∀ k, isLoopLevel k = true → LC k e) (hX : cat e = .X) : EX e :=
  ex_mk rt lc (fun _ _ => mc_paren rt (by simp [needParen, hX])) (by simp [hX])

theorem ex_leaf {e : E} {t : Tk} (hb : bare e true = [{ k := t }]) (hp : prec e = 15) (hc : cat e = .M)
    (hprim : ∀ n r, parsePrimary (n+1) ({ k := t } :: r) = some (e, r)) (hnew : t ≠ .p .kNew)
    (hnp : notPrefix t) (hne : ∀ o l r, e ≠ .bin o l r) : EX e := by
  have rt : RT e := rt_of_own (own_leaf hb hp hprim hnew) (fun _ rest => by rw [hb]; exact hnp)
  exact ex_mk rt (lc_all rt hne) (fun _ _ => mc_leaf hb (by simp [needParen, hc]) hprim hnew) (by simp [hc])

theorem main2 : ∀ e : E, wf e = true →
    (isExprHead e = true → EX e) ∧ (isArgs e = true → ARGS e) := by
  intro e
  induction e with
  | id s =>
    intro _; refine ⟨fun _ => ?_, fun h => by simp [isArgs] at h⟩
    exact ex_leaf (t := .id s) rfl rfl rfl (fun n r => by rw [parsePrimary]) (by simp) ⟨rfl, by simp, by simp⟩ (by simp)
  | num s =>
    intro _; refine ⟨fun _ => ?_, fun h => by simp [isArgs] at h⟩
    exact ex_leaf (t := .num s) rfl rfl rfl (fun n r => by rw [parsePrimary]) (by simp) ⟨rfl, by simp, by simp⟩ (by simp)
  | str s =>
    intro _; refine ⟨fun _ => ?_, fun h => by simp [isArgs] at h⟩
    exact ex_leaf (t := .str s) rfl rfl rfl (fun n r => by rw [parsePrimary]) (by simp) ⟨rfl, by simp, by simp⟩ (by simp)
  | bool s =>
    intro _; refine ⟨fun _ => ?_, fun h => by simp [isArgs] at h⟩
    exact ex_leaf (t := .bool s) rfl rfl rfl (fun n r => by rw [parsePrimary]) (by simp) ⟨rfl, by simp, by simp⟩ (by simp)
  | null =>
    intro _; refine ⟨fun _ => ?_, fun h => by simp [isArgs] at h⟩
    exact ex_leaf (t := .null) rfl rfl rfl (fun n r => by rw [parsePrimary]) (by simp) ⟨rfl, by simp, by simp⟩ (by simp)
  | this_ =>
    intro _; refine ⟨fun _ => ?_, fun h => by simp [isArgs] at h⟩
    exact ex_leaf (t := .p .kThis) rfl rfl rfl (fun n r => by rw [parsePrimary]) (by simp) ⟨rfl, by simp, by simp⟩ (by simp)
  | bin o l r ihl ihr =>
    intro hw; refine ⟨fun _ => ?_, fun h => by simp [isArgs] at h⟩
    simp only [wf, Bool.and_eq_true] at hw
    obtain ⟨rtl, lcl, _⟩ := (ihl hw.1.2).1 hw.1.1.1
    obtain ⟨rtr, _⟩ := (ihr hw.2).1 hw.1.1.2
    have h14 : ¬ 14 ≤ prec (.bin o l r) := by rw [prec_bin]; cases o <;> simp [binPrec]
    have hk : isLoopLevel (binPrec o) = true := by cases o <;> rfl
    have rt : RT (.bin o l r) := rt_of_own (own_bin_loop hk (lcl _ hk) rtr) (fun h => absurd h h14)
    refine ex_X rt (fun k hk' => ?_) rfl
    by_cases hkk : k = binPrec o
    · subst hkk; exact lc_bin hk (lcl _ hk) rtr
    · exact lc_of_rt rt hk' (by rw [prec_bin]; omega)
  | un o e ih =>
    intro hw; refine ⟨fun _ => ?_, fun h => by simp [isArgs] at h⟩
    simp only [wf, Bool.and_eq_true] at hw
    obtain ⟨rte, _⟩ := (ih hw.1.2).1 hw.1.1
    have rt : RT (.un o e) := rt_of_own (own_un rte (fun h => by simpa [h] using hw.2)) (fun h => by simp [prec] at h)
    exact ex_X rt (lc_all rt (by simp)) rfl
  | post i e ih =>
    intro hw; refine ⟨fun _ => ?_, fun h => by simp [isArgs] at h⟩
    have hw0 := hw
    simp only [wf, Bool.and_eq_true] at hw
    obtain ⟨rte, _⟩ := (ih hw.1.2).1 hw.1.1
    have rt : RT (.post i e) := rt_of_own (own_post rte hw.2) (fun h rest => first_ok _ hw0 rfl h rest)
    exact ex_X rt (lc_all rt (by simp)) rfl
  | cond c a b ihc iha ihb =>
    intro hw; refine ⟨fun _ => ?_, fun h => by simp [isArgs] at h⟩
    simp only [wf, Bool.and_eq_true] at hw
    obtain ⟨rtc, _⟩ := (ihc hw.1.1.2).1 hw.1.1.1.1.1
    obtain ⟨rta, _⟩ := (iha hw.1.2).1 hw.1.1.1.1.2
    obtain ⟨rtb, _⟩ := (ihb hw.2).1 hw.1.1.1.2
    have rt : RT (.cond c a b) := rt_of_own (own_cond rtc rta rtb) (fun h => by simp [prec] at h)
    exact ex_X rt (lc_all rt (by simp)) rfl
  | asg o l r ihl ihr =>
    intro hw; refine ⟨fun _ => ?_, fun h => by simp [isArgs] at h⟩
    simp only [wf, Bool.and_eq_true] at hw
    obtain ⟨rtl, _⟩ := (ihl hw.1.1.2).1 hw.1.1.1.1
    obtain ⟨rtr, _⟩ := (ihr hw.1.2).1 hw.1.1.1.2
    have rt : RT (.asg o l r) := rt_of_own (own_asg rtl rtr hw.2 (fun rest => first_pr (by omega) (by omega) hw.1.1.2 hw.1.1.1.1 rest))
      (fun h => by simp [prec] at h)
    exact ex_X rt (lc_all rt (by simp)) rfl
  | dot e s ih =>
    intro hw; refine ⟨fun _ => ?_, fun h => by simp [isArgs] at h⟩
    have hw0 := hw
    simp only [wf, Bool.and_eq_true] at hw
    obtain ⟨_, _, mce, _, _⟩ := (ih hw.2).1 hw.1
    have mc : ∀ c : Bool, (c = false → cat (.dot e s) ≠ .C) → MC c (.dot e s) := fun c hc =>
      mc_dot (mce c (fun h hC => hc h (by simp [cat, hC])))
    have rt : RT (.dot e s) := rt_of_own (own_of_mc (mc true (by simp)) (np16_dot e s) rfl) (fun h rest => first_ok _ hw0 rfl h rest)
    exact ex_mk rt (lc_all rt (by simp)) mc (by simp [cat]; split <;> simp)
  | idx e i ihe ihi =>
    intro hw; refine ⟨fun _ => ?_, fun h => by simp [isArgs] at h⟩
    have hw0 := hw
    simp only [wf, Bool.and_eq_true] at hw
    obtain ⟨_, _, mce, _, _⟩ := (ihe hw.1.2).1 hw.1.1.1
    obtain ⟨rti, _⟩ := (ihi hw.2).1 hw.1.1.2
    have mc : ∀ c : Bool, (c = false → cat (.idx e i) ≠ .C) → MC c (.idx e i) := fun c hc =>
      mc_idx (mce c (fun h hC => hc h (by simp [cat, hC]))) rti
    have rt : RT (.idx e i) := rt_of_own (own_of_mc (mc true (by simp)) (np16_idx e i) rfl) (fun h rest => first_ok _ hw0 rfl h rest)
    exact ex_mk rt (lc_all rt (by simp)) mc (by simp [cat]; split <;> simp)
  | call f a ihf iha =>
    intro hw; refine ⟨fun _ => ?_, fun h => by simp [isArgs] at h⟩
    have hw0 := hw
    simp only [wf, Bool.and_eq_true] at hw
    obtain ⟨_, _, mcf, _, _⟩ := (ihf hw.1.2).1 hw.1.1.1
    have aa := (iha hw.2).2 hw.1.1.2
    have mc : ∀ c : Bool, (c = false → cat (.call f a) ≠ .C) → MC c (.call f a) := fun c hc => by
      cases c
      · exact absurd rfl (hc rfl)
      · exact mc_call (mcf true (by simp)) aa
    have rt : RT (.call f a) := rt_of_own (own_of_mc (mc true (by simp)) (np16_call f a) rfl) (fun h rest => first_ok _ hw0 rfl h rest)
    exact ex_mk rt (lc_all rt (by simp)) mc (by simp [cat])
  | new_ f a ihf iha =>
    intro hw; refine ⟨fun _ => ?_, fun h => by simp [isArgs] at h⟩
    have hw0 := hw
    simp only [wf, Bool.and_eq_true, Bool.or_eq_true] at hw
    obtain ⟨rtf, _, mcf, p17f, p18f⟩ := (ihf hw.1.2).1 hw.1.1.1
    rcases hw.1.1.2 with hia | hna
    · have aa := (iha hw.2).2 hia
      have hcat : cat (.new_ f a) = .M := by cases a <;> simp_all [cat, isArgs]
      have hnp : needParen 16 true (.new_ f a) = false := by simp [needParen, hcat]
      have mc : ∀ c : Bool, (c = false → cat (.new_ f a) ≠ .C) → MC c (.new_ f a) := fun c _ => mc_new p18f aa hia
      have rt : RT (.new_ f a) := rt_of_own (own_of_mc (mc true (by simp)) hnp rfl) (fun h rest => first_ok _ hw0 rfl h rest)
      exact ex_mk rt (lc_all rt (by simp)) mc (by simp [hcat])
    · have hna' : a = .noargs := by simpa using hna
      subst hna'
      have rt : RT (.new_ f .noargs) := rt_of_own (own_newx p17f) (fun h rest => first_ok _ hw0 rfl h rest)
      have mc : ∀ c : Bool, (c = false → cat (.new_ f .noargs) ≠ .C) → MC c (.new_ f .noargs) :=
        fun _ _ => mc_paren rt (by simp [needParen, cat])
      exact ⟨rt, lc_all rt (by simp), mc, p17_newx p17f, p18_generic rt (fun h => mc false (fun _ => h))⟩
  | anil => intro _; exact ⟨fun h => by simp [isExprHead] at h, fun _ => args_nil⟩
  | acons h tl ihh iht =>
    intro hw; refine ⟨fun h => by simp [isExprHead] at h, fun _ => ?_⟩
    simp only [wf, Bool.and_eq_true] at hw
    obtain ⟨rth, _⟩ := (ihh hw.1.2).1 hw.1.1.1
    have atl := (iht hw.2).2 hw.1.1.2
    cases tl with
    | anil => exact args_last rth hw.1.2 hw.1.1.1
    | acons h2 t2 => exact args_more rth hw.1.2 hw.1.1.1 atl
    | _ => simp [isArgs] at hw
  | noargs => intro _; exact ⟨fun h => by simp [isExprHead] at h, fun h => by simp [isArgs] at h⟩

/-! ### the NoIn family (allowIn as a parameter) for the levels that read it -/

/-- levels 0–9 with the allowIn flag as a parameter; level 10 and above do not read it -/
def parseAtA (ai : Bool) : Nat → Nat → List Tok → R
  | 0 => fun n => parseExpression n ai | 1 => fun n => parseAssign n ai | 2 => fun n => parseCond n ai
  | 3 => fun n => parseLor n ai | 4 => fun n => parseLand n ai | 5 => fun n => parseBor n ai
  | 6 => fun n => parseBxor n ai | 7 => fun n => parseBand n ai | 8 => fun n => parseEq n ai
  | 9 => fun n => parseRel n ai | k => parseAt k

/-- with allowIn = false the relational level does not react to `in` -/
def firesA (ai : Bool) (j : Nat) (t : Tk) (nl : Bool) : Bool :=
  if j = 9 then (relOps ai t).isSome else fires j t nl

def stopA (ai : Bool) (lvl : Nat) (ts : List Tok) : Prop := ∀ j, lvl ≤ j → j ≤ 9 → firesA ai j (hd ts) (hdNl ts) = false

theorem parseAtA_loop (ai : Bool) (k : Nat) (hk : isLoopLevel k = true) (hk9 : k ≤ 8) (n : Nat) (ts : List Tok) :
    parseAtA ai k (n+1) ts = (parseAtA ai (k+1) n ts).bind fun p => binLoop (opsAt k) (parseAtA ai (k+1) n) n p.1 p.2 := by
  simp [isLoopLevel] at hk
  rcases hk with ((((((((((h|h)|h)|h)|h)|h)|h)|h)|h)|h)|h) <;> subst h <;> (try omega) <;> simp only [parseAtA, opsAt] <;>
    first
      | rw [parseExpression] | rw [parseLor] | rw [parseLand] | rw [parseBor] | rw [parseBxor] | rw [parseBand]
      | rw [parseEq]

theorem descendA1 (ai : Bool) (j : Nat) (hj : j ≤ 9) {ts : List Tok} {e : E} {rest : List Tok}
    (h : Ev (fun n => parseAtA ai (j+1) n ts) (e, rest)) (hs : firesA ai j (hd rest) (hdNl rest) = false) :
    Ev (fun n => parseAtA ai j n ts) (e, rest) := by
  obtain ⟨n0, h⟩ := h
  refine ⟨n0 + 2, fun n hn => ?_⟩
  obtain ⟨m, rfl⟩ : ∃ m, n = m+2 := ⟨n-2, by omega⟩
  have h' := h (m+1) (by omega)
  dsimp only at h' ⊢
  have hne9 : ∀ {j'}, j' ≠ 9 → firesA ai j' (hd rest) (hdNl rest) = fires j' (hd rest) (hdNl rest) := by
    intro j' hj'; simp [firesA, hj']
  match j, hj with
  | 1, _ =>
    simp only [parseAtA] at h' ⊢
    rw [parseAssign, h']
    have : asgOps (hd rest) = none := by rw [hne9 (by omega)] at hs; simpa [fires] using hs
    simp [this]
  | 2, _ =>
    simp only [parseAtA] at h' ⊢
    rw [parseCond, h']
    have : ¬ hd rest = .p .quest := by rw [hne9 (by omega)] at hs; simpa [fires] using hs
    simp [this]
  | 9, _ =>
    simp only [parseAtA] at h' ⊢
    have h'' : parseShift (m+1) ts = some (e, rest) := h'
    have hn : relOps ai (hd rest) = none := by
      simp only [firesA, if_true] at hs
      cases h : relOps ai (hd rest) <;> simp_all
    rw [parseRel, h'']
    simp [binLoop, hn]
  | 0, _ | 3, _ | 4, _ | 5, _ | 6, _ | 7, _ | 8, _ =>
    rw [parseAtA_loop ai _ rfl (by omega), h']
    rw [hne9 (by omega)] at hs
    simp [binLoop, opsAt_none (k := _) rfl hs]

theorem descendA (ai : Bool) (d : Nat) : ∀ (lvl : Nat), lvl + d = 10 → ∀ {ts : List Tok} {e : E} {rest : List Tok},
    Ev (fun n => parseAt 10 n ts) (e, rest) → stopA ai lvl rest → Ev (fun n => parseAtA ai lvl n ts) (e, rest) := by
  induction d with
  | zero => intro lvl h ts e rest hk _; have : lvl = 10 := by omega
            subst this; exact hk
  | succ d ih =>
    intro lvl h ts e rest hk hs
    have h1 := ih (lvl+1) (by omega) hk (fun j hj hj9 => hs j (by omega) hj9)
    exact descendA1 ai lvl (by omega) h1 (hs lvl (Nat.le_refl _) (by omega))


theorem needParen_noin {lvl : Nat} (h : 10 ≤ lvl) (e : E) : needParen lvl false e = needParen lvl true e := by
  unfold needParen
  by_cases h16 : lvl = 16
  · simp [h16]
  by_cases h17 : lvl = 17
  · simp [h17]
  by_cases h18 : lvl = 18
  · simp [h18]
  simp only [h16, h17, h18, if_false]
  cases hi : isIn e
  · simp
  · have : prec e = 9 := by cases e <;> simp [isIn] at hi; rename_i o _ _; cases o <;> simp [isIn] at hi; rfl
    simp [this]; omega

theorem wrap_noin {lvl : Nat} (h : 10 ≤ lvl) (e : E) (hp : prec e ≤ 15) (ih : 10 ≤ prec e → bare e false = bare e true)
    (hcat : lvl > 15 → needParen lvl true e = false → prec e = 15) :
    wrap (needParen lvl false e) (fun a => bare e a) false = wrap (needParen lvl true e) (fun a => bare e a) true := by
  rw [needParen_noin h]
  cases hn : needParen lvl true e
  · simp only [wrap, Bool.false_eq_true, if_false]
    apply ih
    by_cases h15 : lvl ≤ 15
    · rw [needParen_low lvl h15] at hn; simp at hn; omega
    · have := hcat (by omega) hn; omega
  · simp [wrap]

theorem np_cat {lvl : Nat} {e : E} (h : lvl > 15) (hl : lvl = 16 ∨ lvl = 17 ∨ lvl = 18) (hn : needParen lvl true e = false) : prec e = 15 := by
  apply cat_prec
  intro hx
  rcases hl with h|h|h <;> subst h <;> simp [needParen, hx] at hn

/-- above the relational level the NoIn derivation and the ordinary one coincide (ES5: only the productions from
    RelationalExpression down to Expression have a NoIn variant) -/
theorem bare_noin : ∀ e : E, 10 ≤ prec e → bare e false = bare e true := by
  intro e
  induction e with
  | bin o l r ihl ihr =>
    intro hp
    rw [prec_bin] at hp
    have hb : binPrec o ≤ 12 := by cases o <;> simp [binPrec]
    simp only [bare]
    rw [wrap_noin hp l (prec_le l) ihl (fun h => by omega), wrap_noin (by omega) r (prec_le r) ihr (fun h => by omega)]
  | un o e ih => intro _; simp only [bare]; rw [wrap_noin (by omega) e (prec_le e) ih (fun h => by omega)]
  | post i e ih => intro _; simp only [bare]; rw [wrap_noin (by omega) e (prec_le e) ih (fun h => by omega)]
  | cond c a b _ _ _ => intro hp; simp [prec] at hp
  | asg o l r _ _ => intro hp; simp [prec] at hp
  | dot e s ih => intro _; simp only [bare]; rw [wrap_noin (by omega) e (prec_le e) ih (fun h hn => np_cat h (by simp) hn)]
  | idx e i ih _ => intro _; simp only [bare]; rw [wrap_noin (by omega) e (prec_le e) ih (fun h hn => np_cat h (by simp) hn)]
  | call f a ih _ => intro _; simp only [bare]; rw [wrap_noin (by omega) f (prec_le f) ih (fun h hn => np_cat h (by simp) hn)]
  | new_ f a ih _ =>
    intro _
    cases a <;> simp only [bare] <;>
      first
        | rw [wrap_noin (lvl := 17) (by omega) f (prec_le f) ih (fun h hn => np_cat h (by simp) hn)]
        | rw [wrap_noin (lvl := 18) (by omega) f (prec_le f) ih (fun h hn => np_cat h (by simp) hn)]
  | _ => intro _; rfl

theorem stopA_in (rest : List Tok) : stopA false 0 (tk .kIn :: rest) := by
  intro j _ hj9
  have : j = 0 ∨ j = 1 ∨ j = 2 ∨ j = 3 ∨ j = 4 ∨ j = 5 ∨ j = 6 ∨ j = 7 ∨ j = 8 ∨ j = 9 := by omega
  rcases this with h|h|h|h|h|h|h|h|h|h <;> subst h <;> (show firesA false _ (.p .kIn) false = false) <;> decide

end OttoVerif.C03.Lem
